/-
  Pfb.C05.LemmasF — fragment E (step (iii)): `del x` and `x += e` at module level, on top of fragment B.
-/
import Pfb.C05.LemmasD
namespace Pfb.C05
open Pfb Pfb.PyCore

/-! ### deleting keys -/

theorem assocGet_delAll {β} (x n : Str) (l : List (Str × β)) :
    assocGet n (assocDelAll x l) = if n = x then none else assocGet n l := by
  unfold assocDelAll
  induction l with
  | nil => simp [assocGet]
  | cons a r ih =>
    obtain ⟨k, v⟩ := a
    by_cases hk : k = x
    · subst hk
      simp only [List.filter_cons, ne_eq, not_true_eq_false, decide_false, Bool.false_eq_true, ↓reduceIte, ih, assocGet]
      by_cases hn : n = k
      · simp [hn]
      · have : ¬ k = n := fun h => hn h.symm
        simp [hn, this]
    · simp only [List.filter_cons, ne_eq, hk, not_false_eq_true, decide_true, ↓reduceIte, assocGet]
      by_cases hkn : k = n
      · subst hkn; simp [hk]
      · simp only [hkn, ↓reduceIte]; exact ih

theorem scope_del_get (sc : Scope) (x n : Str) : (sc.del x).get n = if n = x then none else sc.get n := by
  simp only [Scope.del, Scope.get]; exact assocGet_delAll x n sc.items

theorem assocGet_filter_keys {β} (p : Str → Bool) (n : Str) (l : List (Str × β)) :
    assocGet n (l.filter (fun kv => p kv.1)) = if p n then assocGet n l else none := by
  induction l with
  | nil => simp [assocGet]
  | cons a r ih =>
    obtain ⟨k, v⟩ := a
    by_cases hk : p k = true
    · simp only [List.filter_cons, hk, ↓reduceIte, assocGet]
      by_cases hkn : k = n
      · subst hkn; simp [hk]
      · simp only [hkn, ↓reduceIte]; exact ih
    · simp only [List.filter_cons, hk, Bool.false_eq_true, ↓reduceIte, assocGet]
      by_cases hkn : k = n
      · subst hkn; simp [hk] at ih ⊢; exact ih
      · simp only [hkn, ↓reduceIte]; exact ih

theorem scope_delBelow_get (sc : Scope) (x n : Str) :
    (sc.delBelow x).get n = if (x ++ ['.']).isPrefixOf n then none else sc.get n := by
  simp only [Scope.delBelow, Scope.get]
  rw [assocGet_filter_keys (fun k => !(x ++ ['.']).isPrefixOf k) n sc.items]
  cases (x ++ ['.']).isPrefixOf n <;> simp

/-- a key whose head is `x` is `x` itself or lies below `x.` -/
theorem headOf_prefix : ∀ (k x : Str), headOf k = x → k = x ∨ (x ++ ['.']).isPrefixOf k = true
  | [], x, h => by left; simpa [headOf, splitDots] using h
  | c :: cs, x, h => by
    unfold headOf at h
    unfold splitDots at h
    by_cases hc : c = '.'
    · subst hc
      simp only [↓reduceIte, List.headD_cons] at h
      right; rw [← h]; simp [List.isPrefixOf]
    · simp only [hc, ↓reduceIte] at h
      cases hs : splitDots cs with
      | nil => exact absurd hs (splitDots_ne_nil cs)
      | cons l ls =>
        rw [hs] at h
        simp only [List.headD_cons] at h
        have hl : headOf cs = l := by unfold headOf; rw [hs]; rfl
        rcases headOf_prefix cs l hl with h1 | h1
        · left; rw [← h, h1]
        · right; rw [← h]; simp [List.isPrefixOf, h1]

theorem simple_not_below {k x : Str} (hk : simpleName k = true) : (x ++ ['.']).isPrefixOf k = false := by
  cases hp : (x ++ ['.']).isPrefixOf k with
  | false => rfl
  | true =>
    exfalso
    have hpre : (x ++ ['.']) <+: k := List.isPrefixOf_iff_prefix.mp hp
    obtain ⟨t, ht⟩ := hpre
    have hdot : k.contains '.' = true := by
      rw [List.contains_iff_mem, ← ht]; simp
    rw [simpleName_dotFree hk] at hdot; cases hdot

/-- `visit_Delete` of a plain name whose key is absent from the top scope: nothing happens -/
theorem delName_absent (reg : Registry) (st : AState) (x : Str) (deep : Bool)
    (h : ((st.heap.get st.stack.top).get x).isSome = false) : runOps reg st [.delName x deep] = st := by
  simp [runOps, step, h]

/-- `visit_Delete` of a plain name bound in the top scope -/
theorem delName_present (reg : Registry) (st : AState) (x : Str) (deep : Bool) (htl : st.stack.top < st.heap.length)
    (h : ((st.heap.get st.stack.top).get x).isSome = true) :
    (runOps reg st [.delName x deep]).stack = st.stack ∧ (runOps reg st [.delName x deep]).heap.length = st.heap.length ∧
    (runOps reg st [.delName x deep]).inFunc = st.inFunc ∧ (runOps reg st [.delName x deep]).inClass = st.inClass ∧
    (runOps reg st [.delName x deep]).missing = st.missing ∧
    (runOps reg st [.delName x deep]).deferred = st.deferred ∧
    (∀ i, i ≠ st.stack.top → (runOps reg st [.delName x deep]).heap.get i = st.heap.get i) ∧
    ((runOps reg st [.delName x deep]).heap.get st.stack.top).isClass = (st.heap.get st.stack.top).isClass ∧
    (∀ k, ((runOps reg st [.delName x deep]).heap.get st.stack.top).get k =
      if k = x then none else if deep = true ∧ (x ++ ['.']).isPrefixOf k = true then none else (st.heap.get st.stack.top).get k) := by
  let st1 : AState := { st with heap := st.heap.update st.stack.top (·.del x), log := st.log ++ [.nsDel st.stack.top x] }
  let st2 : AState := { st1 with heap := st1.heap.update st.stack.top (·.delBelow x), log := st1.log ++ ((st1.heap.get st.stack.top).dottedBelow x).map (Effect.nsDel st.stack.top) }
  have hrun : runOps reg st [.delName x deep] = if deep = true then st2 else st1 := by
    show step reg st (.delName x deep) = _
    simp only [step, h, ↓reduceIte]
    rfl
  rw [hrun]
  have hlen1 : st1.heap.length = st.heap.length := by simp [st1, Heap.length_update]
  have hget1 : ∀ i, st1.heap.get i = if i = st.stack.top then (st.heap.get st.stack.top).del x else st.heap.get i := by
    intro i
    show (st.heap.update st.stack.top (·.del x)).get i = _
    rw [Heap.get_update]
    by_cases hi : i = st.stack.top
    · subst hi; simp [htl]
    · simp [hi]
  have hget2 : ∀ i, st2.heap.get i = if i = st.stack.top then ((st.heap.get st.stack.top).del x).delBelow x else st.heap.get i := by
    intro i
    show (st1.heap.update st.stack.top (·.delBelow x)).get i = _
    rw [Heap.get_update, hlen1]
    by_cases hi : i = st.stack.top
    · subst hi; simp only [htl, and_self, ↓reduceIte]; rw [hget1]; simp
    · simp only [hi, false_and, ↓reduceIte]; rw [hget1]; simp [hi]
  cases deep with
  | false =>
    simp only [Bool.false_eq_true, ↓reduceIte, false_and]
    refine ⟨rfl, hlen1, rfl, rfl, rfl, rfl, fun i hi => ?_, ?_, fun k => ?_⟩
    · rw [hget1, if_neg hi]
    · rw [hget1]; simp [Scope.del]
    · rw [hget1]; simp only [↓reduceIte]; exact scope_del_get _ x k
  | true =>
    simp only [↓reduceIte, true_and]
    refine ⟨rfl, by show (st1.heap.update st.stack.top (·.delBelow x)).length = _; rw [Heap.length_update]; exact hlen1,
      rfl, rfl, rfl, rfl, fun i hi => ?_, ?_, fun k => ?_⟩
    · rw [hget2, if_neg hi]
    · rw [hget2]; simp [Scope.del, Scope.delBelow]
    · rw [hget2]; simp only [↓reduceIte]
      rw [scope_delBelow_get, scope_del_get]
      by_cases hk : k = x
      · subst hk
        have : (k ++ ['.']).isPrefixOf k = false := by
          cases hp : (k ++ ['.']).isPrefixOf k with
          | false => rfl
          | true =>
            have := (List.isPrefixOf_iff_prefix.mp hp).length_le
            simp at this
            omega
        simp [this]
      · simp only [hk, ↓reduceIte]

theorem headOf_noDot : ∀ (k : Str), (headOf k).contains '.' = false
  | [] => by simp [headOf, splitDots]
  | c :: cs => by
    unfold headOf splitDots
    by_cases hc : c = '.'
    · simp [hc]
    · simp only [hc, ↓reduceIte]
      cases hs : splitDots cs with
      | nil => exact absurd hs (splitDots_ne_nil cs)
      | cons l ls =>
        have ih := headOf_noDot cs
        unfold headOf at ih
        rw [hs] at ih
        simp only [List.headD_cons] at ih ⊢
        simp only [List.contains_cons, ih, Bool.or_false, beq_eq_false_iff_ne, ne_eq]
        exact fun h => hc h.symm

theorem noDot_not_below {k x : Str} (hk : k.contains '.' = false) : (x ++ ['.']).isPrefixOf k = false := by
  cases hp : (x ++ ['.']).isPrefixOf k with
  | false => rfl
  | true =>
    exfalso
    obtain ⟨t, ht⟩ := List.isPrefixOf_iff_prefix.mp hp
    have hdot : k.contains '.' = true := by
      rw [List.contains_iff_mem, ← ht]; simp
    rw [hk] at hdot; cases hdot

/-- the module-level invariant of fragment E: `Dl` = names the program deletes, `B` = names it has bound (and not deleted) -/
structure CorrE (D : Bool) (Dl B : List Str) (s : XState) (st : AState) : Prop where
  corr : Corr D s st
  static : ∀ x ∈ Dl, (s.builtins.contains x = true ↔
    ∃ i ∈ normIds st.stack.ids, i ≠ st.stack.top ∧ ((st.heap.get i).get x).isSome = true)
  bound : ∀ x ∈ B, (assocGet x s.globals).isSome = true
  low : D = true → ∀ i ∈ normIds st.stack.ids, i ≠ st.stack.top → ∀ k v, (st.heap.get i).get k = some v → dotFree k = true

/-- what is needed of the analysis state after `del x` (both branches of `visit_Delete` provide it) -/
structure DelFacts (D : Bool) (st st' : AState) (x : Str) : Prop where
  stack : st'.stack = st.stack
  len : st'.heap.length = st.heap.length
  inFunc : st'.inFunc = st.inFunc
  missing : st'.missing = st.missing
  deferred : st'.deferred = st.deferred
  old : ∀ i, i ≠ st.stack.top → st'.heap.get i = st.heap.get i
  gone : (st'.heap.get st.stack.top).get x = none
  sub : ∀ k v, (st'.heap.get st.stack.top).get k = some v → (st.heap.get st.stack.top).get k = some v
  keep : ∀ k, simpleName k = true → k ≠ x → (st'.heap.get st.stack.top).get k = (st.heap.get st.stack.top).get k
  dk : D = true → (∀ i ∈ normIds st.stack.ids, i ≠ st.stack.top → ∀ k v, (st.heap.get i).get k = some v → dotFree k = true) →
    DK st → DK st'

theorem delFacts (reg : Registry) (D : Bool) (st : AState) (x : Str) (deep : Bool) (hdeep : D = true → deep = true)
    (htl : st.stack.top < st.heap.length) (htm : st.stack.top ∈ normIds st.stack.ids) :
    DelFacts D st (runOps reg st [.delName x deep]) x := by
  cases hp : ((st.heap.get st.stack.top).get x).isSome with
  | false =>
    rw [delName_absent reg st x deep hp]
    refine ⟨rfl, rfl, rfl, rfl, rfl, fun _ _ => rfl, ?_, fun _ _ hv => hv, fun _ _ _ => rfl, fun _ _ h => h⟩
    cases hgx : (st.heap.get st.stack.top).get x with
    | none => rfl
    | some v => rw [hgx] at hp; cases hp
  | true =>
    obtain ⟨a1, a2, a3, _, a5, a6, a7, _, a9⟩ := delName_present reg st x deep htl hp
    refine ⟨a1, a2, a3, a5, a6, a7, by rw [a9]; simp, fun k v hv => ?_, fun k hk hne => ?_, fun hD hlow hdk => ?_⟩
    · rw [a9] at hv
      split at hv
      · cases hv
      · split at hv
        · cases hv
        · exact hv
    · rw [a9, if_neg hne, if_neg (fun hc' => by rw [simple_not_below hk] at hc'; exact absurd hc'.2 (by simp))]
    · -- the dotted keys below `x` are gone with it
      have hd := hdeep hD
      have hsurv : ∀ k v, ((runOps reg st [.delName x deep]).heap.get st.stack.top).get k = some v →
          k ≠ x ∧ (x ++ ['.']).isPrefixOf k = false ∧ (st.heap.get st.stack.top).get k = some v := by
        intro k v hv
        rw [a9] at hv
        split at hv
        · cases hv
        · rename_i hkx
          split at hv
          · cases hv
          · rename_i hnot
            refine ⟨hkx, ?_, hv⟩
            cases hpre : (x ++ ['.']).isPrefixOf k with
            | false => rfl
            | true => exact absurd ⟨hd, hpre⟩ hnot
      intro i hi k v hv
      rw [a1] at hi
      by_cases hit : i = st.stack.top
      · subst hit
        obtain ⟨h1, h2, h3⟩ := hsurv k v hv
        have hhead : headOf k ≠ x := by
          intro hh
          rcases headOf_prefix k x hh with h4 | h4
          · exact h1 h4
          · rw [h2] at h4; cases h4
        obtain ⟨j, hj, w, hw⟩ := hdk _ hi k v h3
        refine ⟨j, by rw [a1]; exact hj, ?_⟩
        by_cases hjt : j = st.stack.top
        · subst hjt
          refine ⟨w, ?_⟩
          rw [a9, if_neg hhead, if_neg (fun hc' => by rw [noDot_not_below (headOf_noDot k)] at hc'; exact absurd hc'.2 (by simp))]
          exact hw
        · exact ⟨w, by rw [a7 j hjt]; exact hw⟩
      · -- a cell below the top scope: its keys are dot-free, each is its own head
        rw [a7 i hit] at hv
        have hdf := hlow i hi hit k v hv
        exact ⟨i, by rw [a1]; exact hi, v, by rw [a7 i hit, headOf_dotFree hdf]; exact hv⟩

/-- `del x`: the name leaves the globals and the top scope of the analysis -/
theorem corr_del {D : Bool} {reg : Registry} {Dl B : List Str} {s s' : XState} {st : AState} (h : CorrE D Dl B s st)
    (x : Str) (hx : simpleName x = true) (hxd : x ∈ Dl) (deep : Bool) (hdeep : D = true → deep = true)
    (hg : s'.globals = assocDelAll x s.globals) (hb : s'.builtins = s.builtins) (hne : s'.ne = s.ne) :
    CorrE D Dl (B.filter (· ≠ x)) s' (runOps reg st [.delName x deep]) ∧
    (RD D reg st → RD D reg (runOps reg st [.delName x deep])) ∧
    (runOps reg st [.delName x deep]).missing = st.missing ∧ (runOps reg st [.delName x deep]).deferred = st.deferred := by
  have hc := h.corr
  have f := delFacts reg D st x deep hdeep hc.topLt hc.topMem
  have htop : (runOps reg st [.delName x deep]).stack.top = st.stack.top := by rw [f.stack]
  -- cells of the new state, key by key, for identifiers
  have hcell : ∀ i n, simpleName n = true →
      ((runOps reg st [.delName x deep]).heap.get i).get n = if i = st.stack.top ∧ n = x then none else (st.heap.get i).get n := by
    intro i n hn
    by_cases hi : i = st.stack.top
    · subst hi
      by_cases hnx : n = x
      · subst hnx; simp [f.gone]
      · simp only [hnx, and_false, ↓reduceIte]; exact f.keep n hn hnx
    · rw [f.old i hi]; simp [hi]
  have hsubv : ∀ i k v, ((runOps reg st [.delName x deep]).heap.get i).get k = some v → (st.heap.get i).get k = some v := by
    intro i k v hv
    by_cases hi : i = st.stack.top
    · subst hi; exact f.sub k v hv
    · rw [f.old i hi] at hv; exact hv
  refine ⟨⟨⟨?_, ?_, ?_, f.inFunc.trans hc.inFunc, by rw [f.stack]; exact hc.topMem, by rw [f.stack, f.len]; exact hc.topLt,
      fun hD => f.dk hD (h.low hD) (hc.dk hD)⟩, ?_, ?_, ?_⟩, ?_, f.missing, f.deferred⟩
  · -- names
    intro n hn
    unfold unboundX unboundA
    rw [hg, hb, f.stack, assocGet_delAll]
    by_cases hnx : n = x
    · subst hnx
      simp only [↓reduceIte, true_and]
      constructor
      · intro hbf i hi
        rw [hcell i n hn]
        by_cases hit : i = st.stack.top
        · simp [hit]
        · simp only [hit, false_and, ↓reduceIte]
          cases hgi : (st.heap.get i).get n with
          | none => rfl
          | some v =>
            exfalso
            have := (h.static n hxd).mpr ⟨i, hi, hit, by rw [hgi]; rfl⟩
            rw [hbf] at this; cases this
      · intro hall
        cases hbc : s.builtins.contains n with
        | false => rfl
        | true =>
          exfalso
          obtain ⟨i, hi, hit, hsome⟩ := (h.static n hxd).mp hbc
          have := hall i hi
          rw [hcell i n hn] at this
          simp only [hit, false_and, ↓reduceIte] at this
          rw [this] at hsome; cases hsome
    · simp only [hnx, ↓reduceIte]
      have := hc.names n hn
      unfold unboundX unboundA at this
      rw [this]
      constructor
      · intro hall i hi; rw [hcell i n hn]; simp [hnx, hall i hi]
      · intro hall i hi; have := hall i hi; rw [hcell i n hn] at this; simpa [hnx] using this
  · -- no star
    have hs0 := hc.noStar
    unfold noStarA hasStar at hs0 ⊢
    rw [f.stack]
    rw [List.any_eq_false] at hs0 ⊢
    intro i hi
    have := hs0 i hi
    cases hgi : ((runOps reg st [.delName x deep]).heap.get i).get ['*'] with
    | none => simp
    | some v => rw [hsubv i _ v hgi] at this; simp at this
  · intro n hn; rw [hne] at hn; rw [f.missing]; exact hc.ne n hn
  · -- static part
    intro y hy
    rw [hb, f.stack, h.static y hy]
    constructor
    · rintro ⟨i, hi, hit, hs⟩; exact ⟨i, hi, hit, by rw [f.old i hit]; exact hs⟩
    · rintro ⟨i, hi, hit, hs⟩; exact ⟨i, hi, hit, by rw [f.old i hit] at hs; exact hs⟩
  · intro y hy
    obtain ⟨hyB, hyx⟩ := List.mem_filter.mp hy
    rw [hg, assocGet_delAll, if_neg (by simpa using hyx)]
    exact h.bound y hyB
  · intro hD i hi hit k v hv
    rw [f.stack] at hi hit
    rw [f.old i hit] at hv
    exact h.low hD i hi hit k v hv
  · intro hrd hD
    obtain ⟨h1, h2⟩ := hrd hD
    refine ⟨?_, h2⟩
    intro i hi k v hv p
    rw [f.stack] at hi
    exact h1 i hi k v (hsubv i k v hv) p

/-! ### the reference semantics of `del x` and `x += e` at module level -/

theorem noteUse_fields (x : Str) (s : XState) : (noteUse x s).ne = s.ne ∧ (noteUse x s).builtins = s.builtins ∧
    (noteUse x s).globals = s.globals := by
  unfold noteUse; split <;> exact ⟨rfl, rfl, rfl⟩

theorem execDel (f : Nat) (s : XState) (x : Str) (hb : (assocGet x s.globals).isSome = true) :
    (execStmt f {} (.delete [.name x]) s).1.ne = s.ne ∧ (execStmt f {} (.delete [.name x]) s).1.builtins = s.builtins ∧
    ∀ fl, (execStmt f {} (.delete [.name x]) s).2 = .ok fl → fl = Flow.normal ∧
      (execStmt f {} (.delete [.name x]) s).1.globals = assocDelAll x s.globals := by
  obtain ⟨v, hv⟩ : ∃ v, assocGet x s.globals = some v := by
    cases h : assocGet x s.globals with
    | none => rw [h] at hb; cases hb
    | some v => exact ⟨v, rfl⟩
  obtain ⟨n1, n2, n3⟩ := noteUse_fields x s
  match f with
  | 0 => simp [execStmt, X.throw]
  | 1 => simp [execStmt, evalExprs, X.bind_def, X.throw]
  | 2 => simp [execStmt, evalExprs, evalExpr, X.bind_def, X.throw]
  | f + 3 =>
    simp [execStmt, evalExprs, evalExpr, readName, globalLookup, hv, X.bind_def, X.pure_def, Pfb.PyCore.delNames, unbindName, X.modify,
      targetsNames, targetNames, n1, n2, n3]

/-- the reads of `x += e`: the target, then the value, then the operator -/
def augPre (f : Nat) (x : Str) (e : Expr) : X RVal :=
  readName {} x >>= fun cur => evalExpr f {} e >>= fun v => binop cur v

theorem augPre_evalB (D : Bool) (f : Nat) (x : Str) (e : Expr) (s : XState) (hx : simpleName x = true)
    (he : fragBExpr D e = true) :
    EvalB {} s ((x :: loadsOf e).map headOf) (true && (noIfExpr e && true)) (augPre f x e s) := by
  have h1 := EvalB.readName {} (by simp [CtxOK]) s x
  have := EvalB.bind h1 (fun cur s1 _ => EvalB.bind ((evalB {} (by simp [CtxOK]) D f).1 e s1 he)
    (fun v s2 _ => EvalB.binop {} s2 cur v))
  simpa [headsOf, headOf_simple hx, augPre] using this

theorem aug_exec_eq (f : Nat) (x : Str) (e : Expr) (s : XState) :
    execStmt (f + 1) {} (.augAssign (.name x) e) s =
      (augPre f x e >>= fun r => bindName {} x r >>= fun _ => (Pure.pure Flow.normal : X Flow)) s := by
  simp only [execStmt, X.bind_def, augPre]
  cases readName {} x s with
  | mk s1 r1 =>
    cases r1 with
    | error err => rfl
    | ok cur =>
      simp only
      cases evalExpr f {} e s1 with
      | mk s2 r2 =>
        cases r2 with
        | error err => rfl
        | ok v => rfl

/-- successful module-level statements of fragment B: builtins untouched, globals only gain the bound names -/
theorem globE_stmtB (D : Bool) : ∀ (stmt : Stmt) (f : Nat) (s : XState), fragBStmt D stmt = true →
    ∀ fl, (execStmt f {} stmt s).2 = .ok fl →
      (execStmt f {} stmt s).1.builtins = s.builtins ∧
      (∀ n, (assocGet n s.globals).isSome = true → (assocGet n (execStmt f {} stmt s).1.globals).isSome = true) ∧
      (∀ x ∈ bindsE stmt, (assocGet x (execStmt f {} stmt s).1.globals).isSome = true)
  | stmt, 0, s, _ => by rw [execStmt]; intro fl hfl; cases hfl
  | .expr e, f + 1, s, hfr => by
    have he := (evalB {} (by simp [CtxOK]) D f).1 e s (by simpa [fragBStmt] using hfr)
    simp only [execStmt, X.bind_def]
    cases hr : evalExpr f {} e s with
    | mk s' r =>
      rw [hr] at he
      cases r with
      | error x => intro fl hfl; cases hfl
      | ok v =>
        intro fl _
        simp only [X.pure_def]
        have hg : s'.globals = s.globals := he.same.globals
        exact ⟨he.same.builtins, fun n hn => by rw [hg]; exact hn, fun x hx => by simp [bindsE] at hx⟩
  | .assign ts e, f + 1, s, hfr => by
    simp only [fragBStmt, Bool.and_eq_true] at hfr
    cases hsn : singleName ts with
    | none => rw [hsn] at hfr; simp at hfr
    | some x =>
      have hts := singleName_eq hsn; subst hts
      have he := (evalB {} (by simp [CtxOK]) D f).1 e s hfr.2
      simp only [execStmt, X.bind_def]
      cases hr : evalExpr f {} e s with
      | mk s' r =>
        rw [hr] at he
        cases r with
        | error x => intro fl hfl; cases hfl
        | ok v =>
          simp only
          have hg : s'.globals = s.globals := he.same.globals
          rcases assignAll_name f x v s' with ha | ha
          · rw [ha]
            intro fl _
            refine ⟨he.same.builtins, fun n hn => ?_, fun y hy => ?_⟩
            · show (assocGet n (assocSet x v s'.globals)).isSome = true
              by_cases hnx : n = x
              · subst hnx; rw [assocGet_assocSet_eq]; rfl
              · rw [assocGet_assocSet_ne hnx, hg]; exact hn
            · simp only [bindsE, List.mem_singleton] at hy
              subst hy
              show (assocGet y (assocSet y v s'.globals)).isSome = true
              rw [assocGet_assocSet_eq]; rfl
          · rw [ha]; intro fl hfl; cases hfl
  | .pass, f + 1, s, _ => by
    simp only [execStmt, X.pure_def]; intro _ _
    exact ⟨trivial, fun _ h => h, fun x hx => by simp [bindsE] at hx⟩
  | .import_ names, f + 1, s, _ => by
    have := ImpOK.bind (ImpOK.importAliases f 0 names) (fun _ => ImpOK.pure Flow.normal)
    simp only [execStmt]
    intro fl hfl
    have g := (this s).2 fl hfl
    refine ⟨g.builtins, fun n hn => ?_, fun x hx => ?_⟩
    · cases hgn : assocGet n (((importAliases f {} 0 names >>= fun _ => (Pure.pure Flow.normal : X Flow)) s).1.globals) with
      | some v => rfl
      | none => have := ((g.glob n).mp hgn).1; rw [this] at hn; cases hn
    · cases hgn : assocGet x (((importAliases f {} 0 names >>= fun _ => (Pure.pure Flow.normal : X Flow)) s).1.globals) with
      | some v => rfl
      | none => exact absurd (by simpa [bindsE] using hx) ((g.glob x).mp hgn).2
  | .importFrom m names, f + 1, s, _ => by
    have hm : ImpOK (do
        let tl ← importChain (prefixes (splitDots m)) none
        match tl with
          | (_, some leaf) => importFromAliases f {} m leaf 0 names
          | _ => (raiseOther : X Unit)) (names.map aliasBinds) := by
      have := ImpOK.bind (ImpOK.importChain (prefixes (splitDots m)) none) (B2 := names.map aliasBinds)
        (fun tl => (by
          split
          · exact ImpOK.importFromAliases m _ f 0 names
          · exact ImpOK.raiseOther :
          ImpOK (match tl with
            | (_, some leaf) => importFromAliases f {} m leaf 0 names
            | _ => (raiseOther : X Unit)) (names.map aliasBinds)))
      simpa using this
    have hex : execStmt (f + 1) {} (.importFrom m names) s =
        ((do
          let tl ← importChain (prefixes (splitDots m)) none
          match tl with
            | (_, some leaf) => importFromAliases f {} m leaf 0 names
            | _ => (raiseOther : X Unit)) >>= fun _ => (Pure.pure Flow.normal : X Flow)) s := by
      simp only [execStmt, X.bind_def]
      cases importChain (prefixes (splitDots m)) none s with
      | mk s1 r1 =>
        cases r1 with
        | error e => rfl
        | ok tl =>
          obtain ⟨t, l⟩ := tl
          cases l with
          | none => rfl
          | some leaf => rfl
    rw [hex]
    have := ImpOK.bind hm (fun _ => ImpOK.pure Flow.normal)
    intro fl hfl
    have g := (this s).2 fl hfl
    refine ⟨g.builtins, fun n hn => ?_, fun x hx => ?_⟩
    · cases hgn : assocGet n (((do
          let tl ← importChain (prefixes (splitDots m)) none
          match tl with
            | (_, some leaf) => importFromAliases f {} m leaf 0 names
            | _ => (raiseOther : X Unit)) >>= fun _ => (Pure.pure Flow.normal : X Flow)) s).1.globals with
      | some v => rfl
      | none => have := ((g.glob n).mp hgn).1; rw [this] at hn; cases hn
    · cases hgn : assocGet x (((do
          let tl ← importChain (prefixes (splitDots m)) none
          match tl with
            | (_, some leaf) => importFromAliases f {} m leaf 0 names
            | _ => (raiseOther : X Unit)) >>= fun _ => (Pure.pure Flow.normal : X Flow)) s).1.globals with
      | some v => rfl
      | none => exact absurd (by simpa [bindsE] using hx) ((g.glob x).mp hgn).2
  | .located l s', f + 1, s, hfr => by
    simp only [execStmt, X.bind_def, X.modify]
    have := globE_stmtB D s' f { s with line := l } (by simpa [fragBStmt] using hfr)
    intro fl hfl
    obtain ⟨a, b, c⟩ := this fl hfl
    exact ⟨a, b, fun x hx => c x (by simpa [bindsE] using hx)⟩
  | .augAssign _ _, _ + 1, _, hfr => by simp [fragBStmt] at hfr
  | .annAssign _ _ _, _ + 1, _, hfr => by simp [fragBStmt] at hfr
  | .funcDef _ _ _ _ _, _ + 1, _, hfr => by simp [fragBStmt] at hfr
  | .classDef _ _ _ _, _ + 1, _, hfr => by simp [fragBStmt] at hfr
  | .for_ _ _ _ _, _ + 1, _, hfr => by simp [fragBStmt] at hfr
  | .while_ _ _ _, _ + 1, _, hfr => by simp [fragBStmt] at hfr
  | .if_ _ _ _, _ + 1, _, hfr => by simp [fragBStmt] at hfr
  | .with_ _ _, _ + 1, _, hfr => by simp [fragBStmt] at hfr
  | .try_ _ _ _ _, _ + 1, _, hfr => by simp [fragBStmt] at hfr
  | .return_ _, _ + 1, _, hfr => by simp [fragBStmt] at hfr
  | .raise_ _, _ + 1, _, hfr => by simp [fragBStmt] at hfr
  | .delete _, _ + 1, _, hfr => by simp [fragBStmt] at hfr
  | .global_ _, _ + 1, _, hfr => by simp [fragBStmt] at hfr
  | .nonlocal_ _, _ + 1, _, hfr => by simp [fragBStmt] at hfr

/-! ### statements of fragment E: reference run and analysis in lock step -/

/-- the names bound by the program (and not deleted since) after one more statement -/
def nextB (stmt : Stmt) (B : List Str) : List Str :=
  match isDel stmt with
  | some x => B.filter (· ≠ x)
  | none => bindsE stmt ++ B

/-- what one module-level statement of fragment E does on both sides -/
def StepE (fx : Fixes) (reg : Registry) (D : Bool) (Dl : List Str) (ln f : Nat) (stmt : Stmt) (s : XState) (st : AState)
    (B : List Str) : Prop :=
  ((∀ m ∈ st.missing, m ∈ (runOps reg st (cStmt fx ln stmt)).missing) ∧ (runOps reg st (cStmt fx ln stmt)).inFunc = false ∧
    (runOps reg st (cStmt fx ln stmt)).stack = st.stack ∧ (runOps reg st (cStmt fx ln stmt)).heap.length = st.heap.length) ∧
  (∀ n ∈ (execStmt f {} stmt s).1.ne, ∃ m ∈ (runOps reg st (cStmt fx ln stmt)).missing,
      headOf m.name = n ∧ (D = false → m.name = n)) ∧
  (∀ fl, (execStmt f {} stmt s).2 = .ok fl →
    fl = Flow.normal ∧ CorrE D Dl (nextB stmt B) (execStmt f {} stmt s).1 (runOps reg st (cStmt fx ln stmt)) ∧
    (RD D reg st → RD D reg (runOps reg st (cStmt fx ln stmt))) ∧
    (plainStmtE stmt = true → RD D reg st → (runOps reg st (cStmt fx ln stmt)).missing = st.missing ∧
      (runOps reg st (cStmt fx ln stmt)).deferred = st.deferred))

theorem cell_same_of_modStep {st st' : AState} (m : ModStep st st') (hl : st'.heap.length = st.heap.length) (i : Nat)
    (hi : i ≠ st.stack.top) : st'.heap.get i = st.heap.get i := by
  by_cases hlt : i < st.heap.length
  · exact m.old i hlt hi
  · rw [Heap.get_ge _ (by omega), Heap.get_ge _ (by omega)]

/-- a statement of fragment B inside fragment E -/
theorem stepE_B (fx : Fixes) (reg : Registry) (D : Bool) (Dl : List Str) (stmt : Stmt) (f : Nat) (s : XState) (st : AState) (ln : Nat)
    (B : List Str) (hfr : fragBStmt D stmt = true) (hnd : isDel stmt = none) (hna : isAug stmt = none) (h : CorrE D Dl B s st) :
    StepE fx reg D Dl ln f stmt s st B := by
  have hc := h.corr
  obtain ⟨a1, a2, a3, a4⟩ := anaStmt fx reg D stmt ln st hfr hc.inFunc hc.topLt
  obtain ⟨b1, b2⟩ := stmtB fx reg D stmt f s st ln hfr hc
  have ms := modStep_stmtB fx reg D stmt ln st hfr hc.inFunc hc.topLt
  refine ⟨⟨a1, a2, a3, a4⟩, b1, fun fl hfl => ?_⟩
  obtain ⟨c1, c2, c3, c4⟩ := b2 fl hfl
  obtain ⟨g1, g2, g3⟩ := globE_stmtB D stmt f s hfr fl hfl
  have hnb : nextB stmt B = bindsE stmt ++ B := by unfold nextB; rw [hnd]
  refine ⟨c1, ⟨c2, ?_, ?_, ?_⟩, c3, fun hp hrd => c4 (by
    simp only [plainStmtE, Bool.and_eq_true] at hp; exact hp.1) hrd⟩
  · intro x hx
    rw [g1, a3, h.static x hx]
    constructor
    · rintro ⟨i, hi, hit, hs⟩; exact ⟨i, hi, hit, by rw [cell_same_of_modStep ms a4 i hit]; exact hs⟩
    · rintro ⟨i, hi, hit, hs⟩; exact ⟨i, hi, hit, by rw [cell_same_of_modStep ms a4 i hit] at hs; exact hs⟩
  · intro x hx
    rw [hnb] at hx
    rcases List.mem_append.mp hx with hx | hx
    · exact g3 x hx
    · exact g2 x (h.bound x hx)
  · intro hD i hi hit k v hv
    rw [a3] at hi hit
    rw [cell_same_of_modStep ms a4 i hit] at hv
    exact h.low hD i hi hit k v hv

/-- `del x` -/
theorem stepE_del (fx : Fixes) (reg : Registry) (D : Bool) (Dl : List Str) (x : Str) (f : Nat) (s : XState) (st : AState) (ln : Nat)
    (B : List Str) (hx : simpleName x = true) (hxB : x ∈ B) (hxD : x ∈ Dl) (hdeep : D = true → fx.delDotted = true)
    (h : CorrE D Dl B s st) : StepE fx reg D Dl ln f (.delete [.name x]) s st B := by
  have hc := h.corr
  have hops : cStmt fx ln (.delete [.name x]) = [.delName x fx.delDotted] := by simp [cStmt, cDelTargets]
  unfold StepE
  rw [hops]
  have fa := delFacts reg D st x fx.delDotted hdeep hc.topLt hc.topMem
  obtain ⟨e1, e2, e3⟩ := execDel f s x (h.bound x hxB)
  refine ⟨⟨fun m hm => by rw [fa.missing]; exact hm, fa.inFunc.trans hc.inFunc, fa.stack, fa.len⟩, fun n hn => ?_, fun fl hfl => ?_⟩
  · rw [e1] at hn
    obtain ⟨m, hm, hmn⟩ := hc.ne n hn
    exact ⟨m, by rw [fa.missing]; exact hm, hmn⟩
  · obtain ⟨hfl1, hg⟩ := e3 fl hfl
    obtain ⟨c1, c2, c3, c4⟩ := corr_del (reg := reg) h x hx hxD fx.delDotted hdeep hg e2 e1
    have hnb : nextB (.delete [.name x]) B = B.filter (· ≠ x) := by simp [nextB, isDel]
    rw [hnb]
    exact ⟨hfl1, c1, c2, fun _ _ => ⟨c3, c4⟩⟩

/-- `x += e` (with the repair that loads the target first) -/
theorem stepE_aug (fx : Fixes) (reg : Registry) (D : Bool) (Dl : List Str) (x : Str) (e : Expr) (f : Nat) (s : XState) (st : AState)
    (ln : Nat) (B : List Str) (hx : simpleName x = true) (he : fragBExpr D e = true) (haug : fx.augLoad = true)
    (h : CorrE D Dl B s st) : StepE fx reg D Dl ln f (.augAssign (.name x) e) s st B := by
  have hc := h.corr
  have hops : cStmt fx ln (.augAssign (.name x) e) = (x :: loadsOf e).map Op.load ++ [.store x] := by
    simp [cStmt, haug, cAugLoad, cTarget, cExpr_loads fx D e he]
  unfold StepE
  rw [hops, runOps_append]
  have hA : AnaL reg st (runOps reg st ((x :: loadsOf e).map Op.load)) (x :: loadsOf e) := anaL_loads reg _ st hc.inFunc
  have hst : runOps reg (runOps reg st ((x :: loadsOf e).map Op.load)) [.store x] =
      storeTop (runOps reg st ((x :: loadsOf e).map Op.load)) x := rfl
  rw [hst]
  have htl1 : (runOps reg st ((x :: loadsOf e).map Op.load)).stack.top < (runOps reg st ((x :: loadsOf e).map Op.load)).heap.length := by
    rw [hA.stack, hA.heap]; exact hc.topLt
  have hget := storeTop_get (runOps reg st ((x :: loadsOf e).map Op.load)) htl1 x
  have hgood : ∀ d ∈ x :: loadsOf e, goodDotted d = true ∧ (D = false → dotFree d = true) := by
    intro d hd
    rcases List.mem_cons.mp hd with rfl | hd
    · exact ⟨by simp [goodDotted, simpleName_split hx, hx], fun _ => by simpa [dotFree] using simpleName_dotFree hx⟩
    · exact loads_good D e he d hd
  have hmiss' : (storeTop (runOps reg st ((x :: loadsOf e).map Op.load)) x).missing =
      (runOps reg st ((x :: loadsOf e).map Op.load)).missing := rfl
  refine ⟨⟨fun m hm => hA.mono m hm, hA.inFunc.trans hc.inFunc, hA.stack, by
      show (Heap.update _ _ _).length = _
      rw [Heap.length_update, hA.heap]⟩, ?_⟩
  cases f with
  | zero =>
    have hex : execStmt 0 {} (.augAssign (.name x) e) s = (s, .error .fuel) := by rw [execStmt]; rfl
    rw [hex]
    refine ⟨fun n hn => ?_, fun fl hfl => by cases hfl⟩
    obtain ⟨m, hm, hmn⟩ := hc.ne n hn
    exact ⟨m, hA.mono m hm, hmn⟩
  | succ f =>
    have hpre := augPre_evalB D f x e s hx he
    have hcov := corr_evalB hc hA hgood hpre
    rw [aug_exec_eq, X.bind_def]
    cases hp : augPre f x e s with
    | mk s1 r1 =>
      rw [hp] at hpre hcov
      cases r1 with
      | error err =>
        simp only
        exact ⟨fun n hn => hcov n hn, fun fl hfl => by cases hfl⟩
      | ok r =>
        have hsame : SameUpToLog s s1 := hpre.same
        have hne1 : s1.ne = s.ne := (hpre.ok r rfl).1
        have hc1 : Corr D s1 (runOps reg st ((x :: loadsOf e).map Op.load)) := (hc.ana hA).same hsame hne1
        simp only [bindName, X.bind_def, X.modify, X.pure_def]
        obtain ⟨hcor, hrd⟩ := corr_storeKeys (reg := reg)
          (s2 := { s1 with globals := assocSet x r s1.globals, origins := assocDel x s1.origins })
          (st2 := storeTop (runOps reg st ((x :: loadsOf e).map Op.load)) x) hc1 [x] [x]
          (fun n => by
            unfold unboundX
            by_cases hn : n = x
            · subst hn; simp [assocGet_assocSet_eq]
            · simp [assocGet_assocSet_ne hn, hn])
          rfl (fun _ _ => Iff.rfl)
          (by simp only [List.mem_singleton]; exact fun hc' => simpleName_ne_star hx hc'.symm)
          (fun _ k hk => by simp only [List.mem_singleton] at hk ⊢; rw [hk, headOf_simple hx])
          rfl (by show _ ≤ (Heap.update _ _ _).length; rw [Heap.length_update]; exact Nat.le_refl _) hc1.inFunc rfl
          (fun i _ n => by rw [hget]; simp)
        refine ⟨fun n hn => hcor.ne n hn, fun fl hfl => ⟨by cases hfl; rfl, ⟨hcor, ?_, ?_, ?_⟩, fun hrd0 => hrd (hrd0.ana hA),
          fun hpl hrd0 => ?_⟩⟩
        · -- builtins and the cells below the top scope did not change
          intro y hy
          show s1.builtins.contains y = true ↔ _
          rw [hsame.builtins, h.static y hy]
          have hstack : (storeTop (runOps reg st ((x :: loadsOf e).map Op.load)) x).stack = st.stack := hA.stack
          have hcellne : ∀ i, i ≠ st.stack.top → (storeTop (runOps reg st ((x :: loadsOf e).map Op.load)) x).heap.get i = st.heap.get i := by
            intro i hi
            show (Heap.update _ _ _).get i = _
            rw [Heap.get_update, hA.stack, if_neg (fun hc' => hi hc'.1), hA.heap]
          rw [hstack]
          constructor
          · rintro ⟨i, hi, hit, hs⟩; exact ⟨i, hi, hit, by rw [hcellne i hit]; exact hs⟩
          · rintro ⟨i, hi, hit, hs⟩; exact ⟨i, hi, hit, by rw [hcellne i hit] at hs; exact hs⟩
        · intro y hy
          show (assocGet y (assocSet x r s1.globals)).isSome = true
          have hnb : nextB (.augAssign (.name x) e) B = [x] ++ B := by simp [nextB, isDel, bindsE]
          rw [hnb] at hy
          by_cases hyx : y = x
          · subst hyx; rw [assocGet_assocSet_eq]; rfl
          · rw [assocGet_assocSet_ne hyx, hsame.globals]
            rcases List.mem_append.mp hy with hy | hy
            · exact absurd (List.mem_singleton.mp hy) hyx
            · exact h.bound y hy
        · intro hD i hi hit k v hv
          have hstack : (storeTop (runOps reg st ((x :: loadsOf e).map Op.load)) x).stack = st.stack := hA.stack
          rw [hstack] at hi hit
          have : (storeTop (runOps reg st ((x :: loadsOf e).map Op.load)) x).heap.get i = st.heap.get i := by
            show (Heap.update _ _ _).get i = _
            rw [Heap.get_update, hA.stack, if_neg (fun hc' => hit hc'.1), hA.heap]
          rw [this] at hv
          exact h.low hD i hi hit k v hv
        · -- precision
          simp only [plainStmtE, isAug, Bool.and_eq_true] at hpl
          refine ⟨?_, hA.deferred⟩
          rw [hmiss']
          apply hA.same
          intro d hd
          have hgd := (hgood d hd).1
          refine ⟨hgd, fun hun => ?_, fun hdf => ?_⟩
          · refine (hpre.ok r rfl).2 (by simp [hpl.2]) (headOf d) (List.mem_map.mpr ⟨d, hd, rfl⟩) ⟨by simp [isGlobalIn], ?_⟩
            exact (hc.names _ (headOf_good hgd)).mpr hun
          · apply (hrd0 _).1
            cases D with
            | true => rfl
            | false => have := (hgood d hd).2 rfl; rw [this] at hdf; cases hdf

theorem located_exec' (f l : Nat) (core : Stmt) (s : XState) :
    execStmt (f + 1) {} (.located l core) s = execStmt f {} core { s with line := l } := by
  simp only [execStmt, X.bind_def, X.modify]

/-- the side conditions of one statement: a deleted name was bound by the program (and is one of `Dl`), augmented
    assignment needs the repair that loads the target, and with dotted names `del` must also drop the dotted keys -/
def SideE (fx : Fixes) (D : Bool) (Dl B : List Str) (stmt : Stmt) : Prop :=
  (∀ x, isDel stmt = some x → x ∈ B ∧ x ∈ Dl) ∧ ((isAug stmt).isSome = true → fx.augLoad = true) ∧
  (D = true → (isDel stmt).isSome = true → fx.delDotted = true)

theorem stepE_core (fx : Fixes) (reg : Registry) (D : Bool) (Dl : List Str) (stmt : Stmt) (f : Nat) (s : XState) (st : AState)
    (ln : Nat) (B : List Str) (hnl : ∀ l s', stmt ≠ .located l s') (hfr : fragEStmt D stmt = true)
    (hsd : SideE fx D Dl B stmt) (h : CorrE D Dl B s st) : StepE fx reg D Dl ln f stmt s st B := by
  cases stmt with
  | located l s' => exact absurd rfl (hnl l s')
  | delete ts =>
    -- `del x`
    have hshape : ∃ x, ts = [.name x] ∧ simpleName x = true := by
      simp only [fragEStmt, fragBStmt, isAug, Bool.false_or, Bool.or_false] at hfr
      cases ts with
      | nil => simp [isDel] at hfr
      | cons t r =>
        cases r with
        | cons t2 r2 => cases t <;> simp [isDel] at hfr
        | nil =>
          cases t with
          | name x => exact ⟨x, rfl, by simpa [isDel] using hfr⟩
          | _ => simp [isDel] at hfr
    obtain ⟨x, rfl, hx⟩ := hshape
    obtain ⟨h1, _, h3⟩ := hsd
    obtain ⟨hxB, hxD⟩ := h1 x (by simp [isDel])
    exact stepE_del fx reg D Dl x f s st ln B hx hxB hxD (fun hD => h3 hD (by simp [isDel])) h
  | augAssign t e =>
    have hshape : ∃ x, t = .name x ∧ simpleName x = true ∧ fragBExpr D e = true := by
      simp only [fragEStmt, fragBStmt, isDel, Bool.false_or] at hfr
      cases t with
      | name x => exact ⟨x, rfl, by simpa [isAug] using hfr⟩
      | _ => simp [isAug] at hfr
    obtain ⟨x, rfl, hx, he⟩ := hshape
    exact stepE_aug fx reg D Dl x e f s st ln B hx he (hsd.2.1 (by simp [isAug])) h
  | expr e => exact stepE_B fx reg D Dl _ f s st ln B (by simpa [fragEStmt, isDel, isAug] using hfr) rfl rfl h
  | assign ts e => exact stepE_B fx reg D Dl _ f s st ln B (by simpa [fragEStmt, isDel, isAug] using hfr) rfl rfl h
  | pass => exact stepE_B fx reg D Dl _ f s st ln B (by simpa [fragEStmt, isDel, isAug] using hfr) rfl rfl h
  | import_ names => exact stepE_B fx reg D Dl _ f s st ln B (by simpa [fragEStmt, isDel, isAug] using hfr) rfl rfl h
  | importFrom m names => exact stepE_B fx reg D Dl _ f s st ln B (by simpa [fragEStmt, isDel, isAug] using hfr) rfl rfl h
  | annAssign _ _ _ => simp [fragEStmt, fragBStmt, isDel, isAug] at hfr
  | funcDef _ _ _ _ _ => simp [fragEStmt, fragBStmt, isDel, isAug] at hfr
  | classDef _ _ _ _ => simp [fragEStmt, fragBStmt, isDel, isAug] at hfr
  | for_ _ _ _ _ => simp [fragEStmt, fragBStmt, isDel, isAug] at hfr
  | while_ _ _ _ => simp [fragEStmt, fragBStmt, isDel, isAug] at hfr
  | if_ _ _ _ => simp [fragEStmt, fragBStmt, isDel, isAug] at hfr
  | with_ _ _ => simp [fragEStmt, fragBStmt, isDel, isAug] at hfr
  | try_ _ _ _ _ => simp [fragEStmt, fragBStmt, isDel, isAug] at hfr
  | return_ _ => simp [fragEStmt, fragBStmt, isDel, isAug] at hfr
  | raise_ _ => simp [fragEStmt, fragBStmt, isDel, isAug] at hfr
  | global_ _ => simp [fragEStmt, fragBStmt, isDel, isAug] at hfr
  | nonlocal_ _ => simp [fragEStmt, fragBStmt, isDel, isAug] at hfr

theorem CorrE.line {D : Bool} {Dl B : List Str} {s : XState} {st : AState} (h : CorrE D Dl B s st) (l : Nat) :
    CorrE D Dl B { s with line := l } { st with line := l } :=
  ⟨(h.corr.line l).setLine l, h.static, h.bound, h.low⟩

theorem RD.setLine {D : Bool} {reg : Registry} {st : AState} (l : Nat) : RD D reg st ↔ RD D reg { st with line := l } := Iff.rfl

/-- one module-level statement of fragment E -/
theorem stmtE (fx : Fixes) (reg : Registry) (D : Bool) (Dl : List Str) : ∀ (stmt : Stmt) (f : Nat) (s : XState) (st : AState) (ln : Nat)
    (B : List Str), fragEStmt D stmt = true → SideE fx D Dl B stmt → CorrE D Dl B s st → StepE fx reg D Dl ln f stmt s st B
  | .located l s', f, s, st, ln, B, hfr, hsd, h => by
    have hfr' : fragEStmt D s' = true := by simpa [fragEStmt, fragBStmt, isDel, isAug] using hfr
    have hsd' : SideE fx D Dl B s' := by simpa [SideE, isDel, isAug] using hsd
    have hnb : nextB (.located l s') B = nextB s' B := by simp [nextB, isDel, bindsE]
    have hpl : plainStmtE (.located l s') = plainStmtE s' := by simp [plainStmtE, plainStmtB, isAug]
    have hops : runOps reg st (cStmt fx ln (.located l s')) = runOps reg { st with line := l } (cStmt fx l s') := rfl
    unfold StepE
    rw [hops, hnb, hpl]
    cases f with
    | zero =>
      obtain ⟨a, _, _⟩ := stmtE fx reg D Dl s' 0 { s with line := l } { st with line := l } l B hfr' hsd' (h.line l)
      have hex : execStmt 0 {} (.located l s') s = (s, .error .fuel) := by rw [execStmt]; rfl
      rw [hex]
      refine ⟨a, fun n hn => ?_, fun fl hfl => by cases hfl⟩
      obtain ⟨m, hm, hmn⟩ := h.corr.ne n hn
      exact ⟨m, a.1 m hm, hmn⟩
    | succ f =>
      obtain ⟨a, b, c⟩ := stmtE fx reg D Dl s' f { s with line := l } { st with line := l } l B hfr' hsd' (h.line l)
      rw [located_exec']
      exact ⟨a, b, c⟩
  | .expr _, f, s, st, ln, B, hfr, hsd, h => stepE_core fx reg D Dl _ f s st ln B (by intro l s' hc; cases hc) hfr hsd h
  | .assign _ _, f, s, st, ln, B, hfr, hsd, h => stepE_core fx reg D Dl _ f s st ln B (by intro l s' hc; cases hc) hfr hsd h
  | .pass, f, s, st, ln, B, hfr, hsd, h => stepE_core fx reg D Dl _ f s st ln B (by intro l s' hc; cases hc) hfr hsd h
  | .import_ _, f, s, st, ln, B, hfr, hsd, h => stepE_core fx reg D Dl _ f s st ln B (by intro l s' hc; cases hc) hfr hsd h
  | .importFrom _ _, f, s, st, ln, B, hfr, hsd, h => stepE_core fx reg D Dl _ f s st ln B (by intro l s' hc; cases hc) hfr hsd h
  | .augAssign _ _, f, s, st, ln, B, hfr, hsd, h => stepE_core fx reg D Dl _ f s st ln B (by intro l s' hc; cases hc) hfr hsd h
  | .annAssign _ _ _, f, s, st, ln, B, hfr, hsd, h => stepE_core fx reg D Dl _ f s st ln B (by intro l s' hc; cases hc) hfr hsd h
  | .funcDef _ _ _ _ _, f, s, st, ln, B, hfr, hsd, h => stepE_core fx reg D Dl _ f s st ln B (by intro l s' hc; cases hc) hfr hsd h
  | .classDef _ _ _ _, f, s, st, ln, B, hfr, hsd, h => stepE_core fx reg D Dl _ f s st ln B (by intro l s' hc; cases hc) hfr hsd h
  | .for_ _ _ _ _, f, s, st, ln, B, hfr, hsd, h => stepE_core fx reg D Dl _ f s st ln B (by intro l s' hc; cases hc) hfr hsd h
  | .while_ _ _ _, f, s, st, ln, B, hfr, hsd, h => stepE_core fx reg D Dl _ f s st ln B (by intro l s' hc; cases hc) hfr hsd h
  | .if_ _ _ _, f, s, st, ln, B, hfr, hsd, h => stepE_core fx reg D Dl _ f s st ln B (by intro l s' hc; cases hc) hfr hsd h
  | .with_ _ _, f, s, st, ln, B, hfr, hsd, h => stepE_core fx reg D Dl _ f s st ln B (by intro l s' hc; cases hc) hfr hsd h
  | .try_ _ _ _ _, f, s, st, ln, B, hfr, hsd, h => stepE_core fx reg D Dl _ f s st ln B (by intro l s' hc; cases hc) hfr hsd h
  | .return_ _, f, s, st, ln, B, hfr, hsd, h => stepE_core fx reg D Dl _ f s st ln B (by intro l s' hc; cases hc) hfr hsd h
  | .raise_ _, f, s, st, ln, B, hfr, hsd, h => stepE_core fx reg D Dl _ f s st ln B (by intro l s' hc; cases hc) hfr hsd h
  | .delete _, f, s, st, ln, B, hfr, hsd, h => stepE_core fx reg D Dl _ f s st ln B (by intro l s' hc; cases hc) hfr hsd h
  | .global_ _, f, s, st, ln, B, hfr, hsd, h => stepE_core fx reg D Dl _ f s st ln B (by intro l s' hc; cases hc) hfr hsd h
  | .nonlocal_ _, f, s, st, ln, B, hfr, hsd, h => stepE_core fx reg D Dl _ f s st ln B (by intro l s' hc; cases hc) hfr hsd h

/-- analysis only: statements of fragment E never drop a reported name and stay at module level -/
theorem anaStmtE (fx : Fixes) (reg : Registry) (D : Bool) : ∀ (stmt : Stmt) (ln : Nat) (st : AState),
    fragEStmt D stmt = true → ((isAug stmt).isSome = true → fx.augLoad = true) → st.inFunc = false → st.stack.top < st.heap.length →
    (∀ m ∈ st.missing, m ∈ (runOps reg st (cStmt fx ln stmt)).missing) ∧ (runOps reg st (cStmt fx ln stmt)).inFunc = false ∧
    (runOps reg st (cStmt fx ln stmt)).stack = st.stack ∧ (runOps reg st (cStmt fx ln stmt)).heap.length = st.heap.length
  | .located l s', ln, st, hfr, ha, hf, htl => by
    simp only [cStmt, runOps_setLine]
    exact anaStmtE fx reg D s' l { st with line := l } (by simpa [fragEStmt, fragBStmt, isDel, isAug] using hfr)
      (by simpa [isAug] using ha) hf htl
  | .delete ts, ln, st, hfr, _, hf, htl => by
    have hshape : ∃ x, ts = [.name x] := by
      simp only [fragEStmt, fragBStmt, isAug, Bool.false_or, Bool.or_false] at hfr
      cases ts with
      | nil => simp [isDel] at hfr
      | cons t r =>
        cases r with
        | cons t2 r2 => cases t <;> simp [isDel] at hfr
        | nil =>
          cases t with
          | name x => exact ⟨x, rfl⟩
          | _ => simp [isDel] at hfr
    obtain ⟨x, rfl⟩ := hshape
    have hops : cStmt fx ln (.delete [.name x]) = [.delName x fx.delDotted] := by simp [cStmt, cDelTargets]
    rw [hops]
    cases hp : ((st.heap.get st.stack.top).get x).isSome with
    | false => rw [delName_absent reg st x _ hp]; exact ⟨fun _ h => h, hf, rfl, rfl⟩
    | true =>
      obtain ⟨a1, a2, a3, _, a5, _⟩ := delName_present reg st x fx.delDotted htl hp
      exact ⟨fun m hm => by rw [a5]; exact hm, a3.trans hf, a1, a2⟩
  | .augAssign t e, ln, st, hfr, ha, hf, _ => by
    have hshape : ∃ x, t = .name x ∧ fragBExpr D e = true := by
      simp only [fragEStmt, fragBStmt, isDel, Bool.false_or] at hfr
      cases t with
      | name x => exact ⟨x, rfl, by simp only [isAug, Bool.and_eq_true] at hfr; exact hfr.2⟩
      | _ => simp [isAug] at hfr
    obtain ⟨x, rfl, he⟩ := hshape
    have haug := ha (by simp [isAug])
    have hops : cStmt fx ln (.augAssign (.name x) e) = (x :: loadsOf e).map Op.load ++ [.store x] := by
      simp [cStmt, haug, cAugLoad, cTarget, cExpr_loads fx D e he]
    rw [hops, runOps_append]
    have hA : AnaL reg st (runOps reg st ((x :: loadsOf e).map Op.load)) (x :: loadsOf e) := anaL_loads reg _ st hf
    refine ⟨fun m hm => hA.mono m hm, hA.inFunc.trans hf, hA.stack, ?_⟩
    show (Heap.update _ _ _).length = _
    rw [Heap.length_update, hA.heap]
  | .expr e, ln, st, hfr, _, hf, htl => anaStmt fx reg D _ ln st (by simpa [fragEStmt, isDel, isAug] using hfr) hf htl
  | .assign ts e, ln, st, hfr, _, hf, htl => anaStmt fx reg D _ ln st (by simpa [fragEStmt, isDel, isAug] using hfr) hf htl
  | .pass, ln, st, hfr, _, hf, htl => anaStmt fx reg D _ ln st (by simpa [fragEStmt, isDel, isAug] using hfr) hf htl
  | .import_ names, ln, st, hfr, _, hf, htl => anaStmt fx reg D _ ln st (by simpa [fragEStmt, isDel, isAug] using hfr) hf htl
  | .importFrom m names, ln, st, hfr, _, hf, htl => anaStmt fx reg D _ ln st (by simpa [fragEStmt, isDel, isAug] using hfr) hf htl
  | .annAssign _ _ _, _, _, hfr, _, _, _ => by simp [fragEStmt, fragBStmt, isDel, isAug] at hfr
  | .funcDef _ _ _ _ _, _, _, hfr, _, _, _ => by simp [fragEStmt, fragBStmt, isDel, isAug] at hfr
  | .classDef _ _ _ _, _, _, hfr, _, _, _ => by simp [fragEStmt, fragBStmt, isDel, isAug] at hfr
  | .for_ _ _ _ _, _, _, hfr, _, _, _ => by simp [fragEStmt, fragBStmt, isDel, isAug] at hfr
  | .while_ _ _ _, _, _, hfr, _, _, _ => by simp [fragEStmt, fragBStmt, isDel, isAug] at hfr
  | .if_ _ _ _, _, _, hfr, _, _, _ => by simp [fragEStmt, fragBStmt, isDel, isAug] at hfr
  | .with_ _ _, _, _, hfr, _, _, _ => by simp [fragEStmt, fragBStmt, isDel, isAug] at hfr
  | .try_ _ _ _ _, _, _, hfr, _, _, _ => by simp [fragEStmt, fragBStmt, isDel, isAug] at hfr
  | .return_ _, _, _, hfr, _, _, _ => by simp [fragEStmt, fragBStmt, isDel, isAug] at hfr
  | .raise_ _, _, _, hfr, _, _, _ => by simp [fragEStmt, fragBStmt, isDel, isAug] at hfr
  | .global_ _, _, _, hfr, _, _, _ => by simp [fragEStmt, fragBStmt, isDel, isAug] at hfr
  | .nonlocal_ _, _, _, hfr, _, _, _ => by simp [fragEStmt, fragBStmt, isDel, isAug] at hfr

theorem stmtsE_mono (fx : Fixes) (reg : Registry) (D : Bool) : ∀ (ss : List Stmt) (st : AState) (ln : Nat),
    fragE D ss = true → (hasAug ss = true → fx.augLoad = true) → st.inFunc = false → st.stack.top < st.heap.length →
    ∀ m ∈ st.missing, m ∈ (runOps reg st (cStmts fx ln ss)).missing
  | [], st, _, _, _, _, _ => by simp only [cStmts]; exact fun _ h => h
  | stmt :: ss, st, ln, hfr, haug, hf, htl => by
    simp only [fragE, List.all_cons, Bool.and_eq_true] at hfr
    simp only [cStmts, runOps_append]
    obtain ⟨a1, a2, a3, a4⟩ := anaStmtE fx reg D stmt ln st hfr.1 (fun ha => haug (by simp [hasAug, ha])) hf htl
    intro m hm
    exact stmtsE_mono fx reg D ss _ ln (by simpa [fragE] using hfr.2)
      (fun ha => haug (by simp only [hasAug, List.any_cons, Bool.or_eq_true]; exact .inr ha)) a2 (by rw [a3, a4]; exact htl) m (a1 m hm)

/-! ### statement lists -/

theorem head_sideE {fx : Fixes} {D : Bool} {Dl B : List Str} {stmt : Stmt} {ss : List Stmt}
    (hdb : delBound B (stmt :: ss) = true) (hdl : ∀ x ∈ delNames (stmt :: ss), x ∈ Dl)
    (haug : hasAug (stmt :: ss) = true → fx.augLoad = true) (hdd : D = true → hasDel (stmt :: ss) = true → fx.delDotted = true) :
    SideE fx D Dl B stmt ∧ delBound (nextB stmt B) ss = true ∧ (∀ x ∈ delNames ss, x ∈ Dl) ∧
    (hasAug ss = true → fx.augLoad = true) ∧ (D = true → hasDel ss = true → fx.delDotted = true) := by
  refine ⟨⟨fun x hx => ?_, fun ha => haug (by simp [hasAug, ha]), fun hD hd => hdd hD (by simp [hasDel, hd])⟩, ?_,
    fun x hx => hdl x ?_, fun ha => haug (by simp only [hasAug, List.any_cons, Bool.or_eq_true]; exact .inr ha),
    fun hD hd => hdd hD (by simp only [hasDel, List.any_cons, Bool.or_eq_true]; exact .inr hd)⟩
  · unfold delBound at hdb
    rw [hx] at hdb
    simp only [Bool.and_eq_true, List.contains_iff_mem] at hdb
    exact ⟨hdb.1, hdl x (by simp [delNames, hx])⟩
  · unfold delBound at hdb
    unfold nextB
    cases hd : isDel stmt with
    | none => rw [hd] at hdb; exact hdb
    | some x => rw [hd] at hdb; simp only [Bool.and_eq_true] at hdb; exact hdb.2
  · simp only [delNames, List.filterMap_cons] at hx ⊢
    cases hd : isDel stmt with
    | none => exact hx
    | some y => simp only [List.mem_cons]; exact .inr hx

theorem stmtsE (fx : Fixes) (reg : Registry) (D : Bool) (Dl : List Str) : ∀ (ss : List Stmt) (f : Nat) (s : XState) (st : AState)
    (ln : Nat) (B : List Str), fragE D ss = true → delBound B ss = true → (∀ x ∈ delNames ss, x ∈ Dl) →
    (hasAug ss = true → fx.augLoad = true) → (D = true → hasDel ss = true → fx.delDotted = true) → CorrE D Dl B s st →
    (∀ n ∈ (execStmts f {} ss s).1.ne, ∃ m ∈ (runOps reg st (cStmts fx ln ss)).missing,
        headOf m.name = n ∧ (D = false → m.name = n)) ∧
    (∀ m ∈ st.missing, m ∈ (runOps reg st (cStmts fx ln ss)).missing) ∧
    (∀ fl, (execStmts f {} ss s).2 = .ok fl →
      (RD D reg st → RD D reg (runOps reg st (cStmts fx ln ss))) ∧
      (ss.all plainStmtE = true → RD D reg st → (runOps reg st (cStmts fx ln ss)).missing = st.missing ∧
        (runOps reg st (cStmts fx ln ss)).deferred = st.deferred))
  | [], f, s, st, ln, B, _, _, _, _, _, h => by
    cases f with
    | zero =>
      have : execStmts 0 {} [] s = (s, .error .fuel) := by rw [execStmts]; rfl
      rw [this]
      simp only [cStmts]
      exact ⟨h.corr.ne, fun _ hm => hm, fun fl hfl => by cases hfl⟩
    | succ f =>
      simp only [execStmts, cStmts, X.pure_def]
      exact ⟨h.corr.ne, fun _ hm => hm, fun _ _ => ⟨fun x => x, fun _ _ => ⟨rfl, rfl⟩⟩⟩
  | stmt :: ss, f, s, st, ln, B, hfr, hdb, hdl, haug, hdd, h => by
    simp only [fragE, List.all_cons, Bool.and_eq_true] at hfr
    have hfr2 : fragE D ss = true := by simpa [fragE] using hfr.2
    obtain ⟨k1, k2, k3, k4, k5⟩ := head_sideE hdb hdl haug hdd
    simp only [cStmts, runOps_append]
    cases f with
    | zero =>
      -- out of fuel: the analysis goes on alone
      obtain ⟨⟨a1, a2, a3, a4⟩, _, _⟩ := stmtE fx reg D Dl stmt 0 s st ln B hfr.1 k1 h
      have : execStmts 0 {} (stmt :: ss) s = (s, .error .fuel) := by rw [execStmts]; rfl
      rw [this]
      -- the rest of the analysis only adds to `missing`: use the list lemma with a state whose run has stopped
      have hrest := stmtsE_mono fx reg D ss (runOps reg st (cStmt fx ln stmt)) ln hfr2 k4 a2
        (by rw [a3, a4]; exact h.corr.topLt)
      refine ⟨fun n hn => ?_, fun m hm => hrest m (a1 m hm), fun fl hfl => by cases hfl⟩
      obtain ⟨m, hm, hmn⟩ := h.corr.ne n hn
      exact ⟨m, hrest m (a1 m hm), hmn⟩
    | succ f =>
      obtain ⟨⟨a1, a2, a3, a4⟩, b, c⟩ := stmtE fx reg D Dl stmt f s st ln B hfr.1 k1 h
      simp only [execStmts, X.bind_def]
      cases hr : execStmt f {} stmt s with
      | mk s' r =>
        rw [hr] at b c
        cases r with
        | error x =>
          simp only
          have hrest := stmtsE_mono fx reg D ss (runOps reg st (cStmt fx ln stmt)) ln hfr2 k4 a2
            (by rw [a3, a4]; exact h.corr.topLt)
          refine ⟨fun n hn => ?_, fun m hm => hrest m (a1 m hm), fun fl hfl => by cases hfl⟩
          obtain ⟨m, hm, hmn⟩ := b n hn
          exact ⟨m, hrest m hm, hmn⟩
        | ok fl0 =>
          obtain ⟨hfl0, hc, hrd, hp⟩ := c fl0 rfl
          subst hfl0
          simp only
          obtain ⟨r1, r2, r3⟩ := stmtsE fx reg D Dl ss f s' _ ln _ hfr2 k2 k3 k4 k5 hc
          refine ⟨r1, fun m hm => r2 m (a1 m hm), fun fl hfl => ?_⟩
          obtain ⟨rd2, p2⟩ := r3 fl hfl
          refine ⟨fun h0 => rd2 (hrd h0), fun hall h0 => ?_⟩
          simp only [List.all_cons, Bool.and_eq_true] at hall
          obtain ⟨p1a, p1b⟩ := hp hall.1 h0
          obtain ⟨p2a, p2b⟩ := p2 hall.2 (hrd h0)
          exact ⟨p2a.trans p1a, p2b.trans p1b⟩

/-! ### initial state -/

theorem delNames_simple {D : Bool} : ∀ (prog : List Stmt), fragE D prog = true → ∀ x ∈ delNames prog, simpleName x = true
  | [], _, x, hx => by simp [delNames] at hx
  | stmt :: ss, hfr, x, hx => by
    simp only [fragE, List.all_cons, Bool.and_eq_true] at hfr
    simp only [delNames, List.filterMap_cons] at hx
    cases hd : isDel stmt with
    | none => rw [hd] at hx; exact delNames_simple ss (by simpa [fragE] using hfr.2) x hx
    | some y =>
      rw [hd] at hx
      rcases List.mem_cons.mp hx with rfl | hx
      · -- a deleting statement is not a fragment-B statement nor an augmented assignment
        have h1 := hfr.1
        have hnb : ∀ (st : Stmt) (z : Str), isDel st = some z → fragBStmt D st = false ∧ isAug st = none := by
          intro st
          induction st using Stmt.rec (motive_2 := fun _ => True) (motive_3 := fun _ => True) (motive_4 := fun _ => True) with
          | located l s ih => intro z hz; simpa [isDel, fragBStmt, isAug] using ih z (by simpa [isDel] using hz)
          | delete ts => intro z _; simp [fragBStmt, isAug]
          | _ => first | (intro z hz; simp [isDel] at hz) | trivial
        obtain ⟨q1, q2⟩ := hnb stmt x hd
        simp only [fragEStmt, q1, hd, q2, Bool.false_or, Bool.or_false] at h1
        exact h1
      · exact delNames_simple ss (by simpa [fragE] using hfr.2) x hx

theorem corrE_init (D : Bool) (Dl : List Str) (builtins : Scope) (ns : List Scope) (s0 : XState) (h : Agree builtins ns s0)
    (hdf : D = true → nsDotFree builtins ns = true) (hsimple : ∀ x ∈ Dl, simpleName x = true)
    (hfresh : ∀ x ∈ Dl, assocGet x s0.globals = none ∧ ∀ sc ∈ ns, boundIn sc x = false) :
    CorrE D Dl [] s0 (initState builtins ns) := by
  have hmem := init_ids_mem builtins ns h.noClass
  have hget0 : (initState builtins ns).heap.get 0 = builtins := rfl
  have hget1 : (initState builtins ns).heap.get 1 = { items := [("__file__".toList, Val.none)] } := rfl
  have htop := init_top builtins ns
  refine ⟨corr_init D builtins ns s0 h hdf, fun x hx => ?_, fun x hx => by simp at hx, fun hD i hi hit k v hv => ?_⟩
  · obtain ⟨hg, hns⟩ := hfresh x hx
    have hA := h.names x (hsimple x hx)
    rw [hg] at hA
    simp only [Option.isSome_none, Bool.false_eq_true, false_or] at hA
    rw [hA, htop]
    constructor
    · rintro (hb | hf | ⟨sc, hsc, hb⟩)
      · exact ⟨0, (hmem 0).mpr (.inl rfl), by omega, by rw [hget0]; simpa [boundIn] using hb⟩
      · exact ⟨1, (hmem 1).mpr (.inr (.inl rfl)), by omega, by rw [hget1, hf]; simp [Scope.get, assocGet]⟩
      · rw [hns sc hsc] at hb; cases hb
    · rintro ⟨i, hi, hit, hs⟩
      rcases (hmem i).mp hi with rfl | rfl | ⟨a, ha, rfl⟩ | rfl
      · rw [hget0] at hs; exact .inl (by simpa [boundIn] using hs)
      · rw [hget1] at hs
        right; left
        simp only [Scope.get, assocGet] at hs
        split at hs
        · rename_i hk; exact hk.symm
        · cases hs
      · rw [initHeap_user' builtins ns a ha] at hs
        have := hns _ (List.getElem_mem ha)
        simp only [boundIn] at this
        rw [this] at hs; cases hs
      · exact absurd rfl hit
  · have hdf' := hdf hD
    simp only [nsDotFree, Bool.and_eq_true, List.all_eq_true] at hdf'
    rw [htop] at hit
    rcases init_cell builtins ns h.noClass hi with hc | hc | ⟨sc, hsc, hc⟩ | hc
    · rw [hc] at hv; exact hdf'.1 _ (assocGet_mem hv)
    · rw [hc] at hv
      have := assocGet_mem hv
      simp only [List.mem_singleton, Prod.mk.injEq] at this
      rw [this.1]; decide
    · rw [hc] at hv; exact hdf'.2 sc hsc _ (assocGet_mem hv)
    · rw [hc] at hv; simp [Scope.get, assocGet] at hv

end Pfb.C05
