/-
  Pfb.C05.FragI — fragment I of the mini-Python: fragment B without dotted names (`D = false`) plus module-level
  class definitions

      class C:            (no bases, no decorators)
          x = e           single-name assignments,
          e               expression statements (fragment-B expressions: names, constants, `+`, tuples, lists,
          pass            subscripts, conditional expressions),  `pass`

  What the fragment is about (Python): a class body runs in its own namespace; a read in it looks in that namespace,
  then in the globals, then in the builtins (LOAD_NAME); its bindings never become module-level names; the name of the
  class is bound at module level only AFTER the body has run.
  What the analysis does (`visit_ClassDef`): `_class_delayed[C] = None`, a new `_ClassScope` on the stack, `C` stored
  INTO THAT SCOPE (so the analysis believes `C` is bound while its body runs), the body, pop,
  `_remove_from_missing_imports(C)` (which DROPS every missing name `C…` recorded so far — known finding D9d), `C` stored
  at module level.  Hence the decidable side condition `selfFree`: the name of a class is read neither in its own body
  nor by an earlier statement of the program.  `PropsI.witness_self_*` show that it cannot be dropped.

  Methods (`def m(self): …` in the class body) are NOT in the fragment: the proofs of fragments C/H rely on
  `_class_delayed` being empty (`StackOK.delayedEmpty`), which the first class definition falsifies.  The Python fact
  "a method body does not see class-level names" is recorded as `decide` witnesses on the models (`PropsI.witness_method_*`).
-/
import Pfb.C05.FragB
namespace Pfb.C05
open Pfb Pfb.PyCore

/-- statements of a class body of fragment I -/
def clsBodyStmt : Stmt → Bool
  | .expr e => fragBExpr false e
  | .assign ts e => (match singleName ts with | some x => simpleName x | none => false) && fragBExpr false e
  | .pass => true
  | .located _ s => clsBodyStmt s
  | _ => false

/-- `class name: body` without bases and decorators, possibly under `located` -/
def fragClass : Stmt → Bool
  | .located _ s => fragClass s
  | .classDef name [] body [] => simpleName name && body.all clsBodyStmt
  | _ => false

def fragIStmt (s : Stmt) : Bool := fragBStmt false s || fragClass s

def fragI (prog : List Stmt) : Bool := prog.all fragIStmt

/-- the name of the class a statement defines -/
def className : Stmt → Option Str
  | .classDef n _ _ _ => some n
  | .located _ s => className s
  | _ => none

mutual
  /-- the names a statement of fragment I reads (class bodies included), in visit order -/
  def loadsI : Stmt → List Str
    | .expr e => loadsOf e
    | .assign _ e => loadsOf e
    | .classDef _ _ body _ => loadsIs body
    | .located _ s => loadsI s
    | _ => []
  def loadsIs : List Stmt → List Str
    | [] => []
    | s :: ss => loadsI s ++ loadsIs ss
end

/-- `R` = the names read so far.  Every class definition `class C` of the program: `C` is read neither by an earlier
    statement nor in the body of that class. -/
def selfFree : List Str → List Stmt → Bool
  | _, [] => true
  | R, s :: r =>
    (match className s with
     | some C => !(R ++ loadsI s).contains C
     | none => true) && selfFree (R ++ loadsI s) r

/-- precision: no conditional expression and no `__all__ = [...]`, at module level and in class bodies -/
def plainStmtI : Stmt → Bool
  | .located _ s => plainStmtI s
  | .classDef _ _ body _ => body.all plainStmtB
  | s => plainStmtB s

end Pfb.C05
