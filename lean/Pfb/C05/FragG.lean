/-
  Pfb.C05.FragG — fragment G of the mini-Python: fragment B without dotted names (`D = false`: straight-line
  module-level code, imports) whose expression statements and assignment values may contain comprehensions

      [elt for x in it]     {elt for x in it}     (elt for x in it)     {key: value for x in it}

  (and the same with conditions: `… for x in it if c1 if c2`) with ONE generator, a plain-name target `x`, and `it`,
  `elt` (`key`, `value`), `c1`, … expressions of fragment A (names, constants, `+`, tuples, lists, subscripts,
  conditional expressions; no nested comprehension).
  A comprehension may sit anywhere inside a fragment-A expression (`[a for x in y] + z`, `([a for x in y], w)`).
-/
import Pfb.C05.FragB
namespace Pfb.C05
open Pfb Pfb.PyCore

/-- the single generator `for x in it if c1 … if ck` (plain-name target) of a fragment-G comprehension -/
def genParts : List Gen → Option (Str × Expr × List Expr)
  | [.mk (.name x) it ifs] => some (x, it, ifs)
  | _ => none

/-- number of element expressions of a comprehension: `key, value` for a dict comprehension, one otherwise -/
def compArity : CompKind → Nat
  | .dict => 2
  | _ => 1

/-- a comprehension of fragment G -/
def compOK (k : CompKind) (elts : List Expr) (gens : List Gen) : Bool :=
  match genParts gens with
  | some (x, it, ifs) =>
    simpleName x && fragBExpr false it && fragBExprs false ifs && fragBExprs false elts && (elts.length == compArity k)
  | none => false

mutual
  /-- expressions of fragment G: fragment A with comprehensions as additional leaves -/
  def fragGExpr : Expr → Bool
    | .name n => simpleName n
    | .const => true
    | .bool _ => true
    | .str _ => true
    | .binop l r => fragGExpr l && fragGExpr r
    | .ifExp t a b => fragGExpr t && fragGExpr a && fragGExpr b
    | .tuple es => fragGExprs es
    | .list es => fragGExprs es
    | .subscript v i => fragGExpr v && fragGExpr i
    | .comp k elts gens => compOK k elts gens
    | _ => false
  def fragGExprs : List Expr → Bool
    | [] => true
    | e :: es => fragGExpr e && fragGExprs es
end

/-- `n` is not the comprehension variable `x` -/
def notVar (x n : Str) : Bool := n != x

/-- the names a comprehension `… for x in it if …` looks up in the enclosing (module) scope: every name of the
    iterable, and the names of the conditions and of the elements other than the comprehension variable -/
def compGlobals (elts : List Expr) (gens : List Gen) : List Str :=
  match genParts gens with
  | some (x, it, ifs) => loadsOf it ++ (loadsOfs ifs ++ loadsOfs elts).filter (notVar x)
  | none => []

mutual
  /-- the names an expression of fragment G looks up in the module scope (globals, then builtins), in evaluation order -/
  def globalsOf : Expr → List Str
    | .name n => [n]
    | .binop l r => globalsOf l ++ globalsOf r
    | .ifExp t a b => globalsOf t ++ globalsOf a ++ globalsOf b
    | .tuple es => globalsOfs es
    | .list es => globalsOfs es
    | .subscript v i => globalsOf v ++ globalsOf i
    | .comp _ elts gens => compGlobals elts gens
    | _ => []
  def globalsOfs : List Expr → List Str
    | [] => []
    | e :: es => globalsOf e ++ globalsOfs es
end

/-- an iterable that certainly yields at least one item in the reference semantics: a non-empty list / tuple display,
    or the universal dummy `_K` (iterating it yields one dummy) -/
def nonEmptyLit : Expr → Bool
  | .list (_ :: _) => true
  | .tuple (_ :: _) => true
  | .const => true
  | _ => false

/-- every name of the comprehension is certainly looked up when its evaluation succeeds: no condition, no conditional
    expression, and the body runs at least once -/
def compPlain (elts : List Expr) (gens : List Gen) : Bool :=
  match genParts gens with
  | some (_, it, ifs) => ifs.isEmpty && noIfExpr it && noIfExprs elts && nonEmptyLit it
  | none => false

mutual
  /-- every name of the expression is certainly looked up when its evaluation succeeds -/
  def plainG : Expr → Bool
    | .ifExp _ _ _ => false
    | .binop l r => plainG l && plainG r
    | .tuple es => plainGs es
    | .list es => plainGs es
    | .subscript v i => plainG v && plainG i
    | .comp _ elts gens => compPlain elts gens
    | _ => true
  def plainGs : List Expr → Bool
    | [] => true
    | e :: es => plainG e && plainGs es
end

/-- module-level statements of fragment G -/
def fragGStmt : Stmt → Bool
  | .expr e => fragGExpr e
  | .assign ts e => (match singleName ts with | some x => simpleName x | none => false) && fragGExpr e
  | .pass => true
  | .import_ names => names.all (importAliasOK false)
  | .importFrom _ names => names.all fromAliasOK
  | .located _ s => fragGStmt s
  | _ => false

def fragG (prog : List Stmt) : Bool := prog.all fragGStmt

/-- precision: every read is executed (no conditional expression, comprehension bodies run at least once) and there
    is no `__all__ = [...]` -/
def plainStmtG : Stmt → Bool
  | .expr e => plainG e
  | .assign ts e => plainG e && (singleName ts != some "__all__".toList)
  | .located _ s => plainStmtG s
  | _ => true

end Pfb.C05
