/-
  C05, clause "lambda and comprehension variables" — fragment G.

  Fragment G (`Pfb.C05.FragG`) = fragment B without dotted names (straight-line module-level code: expression
  statements, single-name assignments, `pass`, `import m [as a]`, `from m import x [as y]`) whose expressions may
  contain comprehensions of all four kinds

      [elt for x in it]    {elt for x in it}    (elt for x in it)    {key: value for x in it}

  with one generator, a plain-name target, any number of conditions (`… for x in it if c1 if c2`), and `it` / `elt` /
  `key` / `value` / `c1` … expressions of fragment A (no nested comprehension).  The comprehension may sit anywhere
  inside a fragment-A expression.

  What the two models do there (and the theorems below relate):
  * reference run (`evalComp`): the iterable is evaluated in the module scope BEFORE the comprehension frame exists;
    `x` lives in a fresh cell of a function-like frame and never reaches the globals; the elements see `x` in that
    frame and everything else in globals/builtins; with no item the conditions and elements are never evaluated, after a
    falsy condition the remaining conditions and the elements are not evaluated for that item;
  * analysis (`cExpr` of `.comp`): unchanged tree `push ; visit it ; store x ; visit ifs ; visit elts ; pop` (everything
    inside the new scope), with the `compScope` repair `visit it ; push ; store x ; visit ifs ; visit elts ; pop`; the
    popped scope is dropped.

  The theorems hold for every `fx` (unchanged tree and every combination of repairs), every registry, builtins scope,
  caller namespaces, fuel and every initial run-time state that agrees with the namespaces.
-/
import Pfb.C05.LemmasG
import Pfb.C05.Props
namespace Pfb.C05
open Pfb Pfb.PyCore

/-- **C05_sound_fragG.**  On fragment G every global name whose lookup raises NameError in the reference run — at
    statement level, in the iterable of a comprehension, in one of its conditions, or inside its element expression(s) — is reported by
    `findMissingFx` (the name itself: the fragment has no dotted names).  Hypotheses: the program is in fragment G; the
    initial run-time state binds exactly the names of the builtins scope and the caller namespaces (`Agree`); the
    builtins namespace is not a `_ClassScope` (as for fragment C). -/
theorem C05_sound_fragG (fx : Fixes) (reg : Registry) (builtins : Scope) (ns : List Scope) (prog : List Stmt)
    (s0 : XState) (fuel : Nat) (hfr : fragG prog = true) (hag : Agree builtins ns s0) (hb : builtins.isClass = false) :
    ∀ n ∈ (runProgram fuel prog [] s0).1.ne, n ∈ findMissingFx fx reg builtins ns prog := by
  intro n hn
  rw [runProgram_ne] at hn
  obtain ⟨m, hm, hmn⟩ := (stmtsG fx reg prog fuel s0 (initState builtins ns) 0 hfr (corrG_init builtins ns s0 hag hb)).1 n hn
  unfold findMissingFx analyzeFx
  rw [mem_sortedSet, List.mem_map]
  exact ⟨m, finishDeferred_mono reg _ m hm, hmn⟩

/-- **C05_precise_fragG.**  On the part of fragment G where every read is certainly executed — no conditional
    expression, no `__all__ = [...]`, and every comprehension has no condition and iterates over a non-empty list /
    tuple display or the dummy `_K`, so that its body runs at least once (`plainStmtG`) — if the reference run completes, nothing is
    reported.  In particular a comprehension variable read by the element expression is never reported.
    Without the non-emptiness condition the statement is false: `witness_comp_empty_iter`; with a (falsy) condition
    likewise: `witness_comp_false_cond`. -/
theorem C05_precise_fragG (fx : Fixes) (reg : Registry) (builtins : Scope) (ns : List Scope) (prog : List Stmt)
    (s0 : XState) (fuel : Nat) (hfr : fragG prog = true) (hpl : prog.all plainStmtG = true)
    (hag : Agree builtins ns s0) (hb : builtins.isClass = false)
    (hok : (runProgram fuel prog [] s0).2 = .ok ()) :
    findMissingFx fx reg builtins ns prog = [] := by
  obtain ⟨fl, hfl⟩ := runProgram_ok fuel prog s0 hok
  obtain ⟨_, hp⟩ := (stmtsG fx reg prog fuel s0 (initState builtins ns) 0 hfr (corrG_init builtins ns s0 hag hb)).2 fl hfl
  obtain ⟨hm, hd⟩ := hp hpl
  unfold findMissingFx analyzeFx
  rw [finishDeferred_nil reg _ (by rw [hd]; rfl), hm]
  rfl

/-- **fragB_sub_fragG.**  Every program of fragment B without dotted names (hence every program of fragment A) is a
    program of fragment G: `C05_sound_fragG` extends `C05_sound_fragB` at `D = false`. -/
theorem fragB_sub_fragG (prog : List Stmt) (h : fragB false prog = true) : fragG prog = true := fragB_G h
example : fragB false exProg = true ∧ fragG exProg = true := by decide

/-! ### the hypotheses are satisfiable by non-trivial inputs, and the conclusions are not empty there -/
section Example
/-- `import pa` ; `ys = [_K, a]` ; `zs = [(y, a, q) for y in ys if (y, pa)]` ; `w = {k: len for k in (zs, _K)}` ; `y`
    — `q` is bound nowhere (NameError inside the element of the list comprehension); the later module-level read of
    the comprehension variable `y` is reported too (the run does not get that far) -/
def exProgG : List Stmt :=
  [.located 1 (.import_ [⟨"pa".toList, none⟩]),
   .located 2 (.assign [.name "ys".toList] (.list [.const, .name "a".toList])),
   .located 3 (.assign [.name "zs".toList]
      (.comp .list [.tuple [.name "y".toList, .name "a".toList, .name "q".toList]]
        [.mk (.name "y".toList) (.name "ys".toList) [.tuple [.name "y".toList, .name "pa".toList]]])),
   .located 4 (.assign [.name "w".toList]
      (.comp .dict [.name "k".toList, .name "len".toList] [.mk (.name "k".toList) (.tuple [.name "zs".toList, .const]) []])),
   .located 5 (.expr (.name "y".toList))]
example : fragG exProgG = true := by decide
example : fragB false exProgG = false := by decide
example : Agree exBuiltins exNs (mkState exBuiltins exNs) := agree_mk _ _ (by decide) (by decide)
example : exBuiltins.isClass = false := rfl
example : (runProgram 100 exProgG [] (mkState exBuiltins exNs)).1.ne = ["q".toList] := by decide +kernel
example : findMissing {} exBuiltins exNs exProgG = ["q".toList, "y".toList] := by decide +kernel
example : findMissingFx allFixes {} exBuiltins exNs exProgG = ["q".toList, "y".toList] := by decide +kernel

/-- precision: `import pa` ; `ys = [_K, a]` ; `zs = [(y, a, pa) for y in (ys, _K)] + ys` ; `w = {y: len for y in [zs]}` ;
    `g = (y for y in _K)` ; `t = {(y, w) for y in (g, g)}` — all four kinds, the variable `y` re-used; the run completes
    and nothing is reported -/
def exProgG2 : List Stmt :=
  [.located 1 (.import_ [⟨"pa".toList, none⟩]),
   .located 2 (.assign [.name "ys".toList] (.list [.const, .name "a".toList])),
   .located 3 (.assign [.name "zs".toList]
      (.binop (.comp .list [.tuple [.name "y".toList, .name "a".toList, .name "pa".toList]]
                [.mk (.name "y".toList) (.tuple [.name "ys".toList, .const]) []])
              (.name "ys".toList))),
   .located 4 (.assign [.name "w".toList]
      (.comp .dict [.name "y".toList, .name "len".toList] [.mk (.name "y".toList) (.list [.name "zs".toList]) []])),
   .located 5 (.assign [.name "g".toList] (.comp .gen [.name "y".toList] [.mk (.name "y".toList) .const []])),
   .located 6 (.assign [.name "t".toList]
      (.comp .set [.tuple [.name "y".toList, .name "w".toList]] [.mk (.name "y".toList) (.tuple [.name "g".toList, .name "g".toList]) []]))]
example : fragG exProgG2 = true ∧ exProgG2.all plainStmtG = true := by decide
example : isOk (runProgram 100 exProgG2 [] (mkState exBuiltins exNs)).2 = true := by decide +kernel
example : findMissing {} exBuiltins exNs exProgG2 = [] := by decide +kernel
example : findMissingFx allFixes {} exBuiltins exNs exProgG2 = [] := by decide +kernel
end Example

/-! ### witnesses -/
section WitnessG
/-- the computation ended with `NameError: name 'n' is not defined` -/
def raisesName {α} (r : Except Exc α) (n : Str) : Bool :=
  match r with
  | .error (.nameError m) => m == n
  | _ => false

/-- `[x for x in [_K]]` ; `x` -/
def wLeak : List Stmt :=
  [.located 1 (.expr (.comp .list [.name "x".toList] [.mk (.name "x".toList) (.list [.const]) []])),
   .located 2 (.expr (.name "x".toList))]

/-- **witness_comp_var_no_leak.**  The comprehension variable does not leak to module level, and both models agree on
    it: the program `[x for x in [_K]]` ; `x` is in fragment G, the comprehension itself succeeds (its element reads the
    variable `x`), the later module-level read of `x` raises NameError in the reference run, and the analysis — of the
    unchanged tree and with all repairs — reports exactly `x`. -/
theorem witness_comp_var_no_leak :
    fragG wLeak = true ∧
    isOk (runProgram 100 (wLeak.take 1) [] (mkState exBuiltins exNs)).2 = true ∧
    findMissing {} exBuiltins exNs (wLeak.take 1) = [] ∧
    (runProgram 100 wLeak [] (mkState exBuiltins exNs)).1.ne = ["x".toList] ∧
    raisesName (runProgram 100 wLeak [] (mkState exBuiltins exNs)).2 "x".toList = true ∧
    findMissing {} exBuiltins exNs wLeak = ["x".toList] ∧
    findMissingFx allFixes {} exBuiltins exNs wLeak = ["x".toList] := by decide +kernel

/-- `[y for x in []]` -/
def wEmptyIter : List Stmt :=
  [.located 1 (.expr (.comp .list [.name "y".toList] [.mk (.name "x".toList) (.list []) []]))]

/-- **witness_comp_empty_iter.**  Precision needs the body of every comprehension to run: `[y for x in []]` is in
    fragment G and has no conditional expression, but its iterable is empty (`plainStmtG` fails); the run completes
    without any NameError (the element is never evaluated) while the analysis reports `y`.  The real
    `find_missing_imports("[y for x in []]\n", [{}])` reports `y` as well and CPython runs the statement without error:
    inherent to a static analysis, not a defect. -/
theorem witness_comp_empty_iter :
    fragG wEmptyIter = true ∧ wEmptyIter.all plainStmtG = false ∧
    isOk (runProgram 100 wEmptyIter [] (mkState exBuiltins exNs)).2 = true ∧
    (runProgram 100 wEmptyIter [] (mkState exBuiltins exNs)).1.ne = [] ∧
    findMissing {} exBuiltins exNs wEmptyIter = ["y".toList] ∧
    findMissingFx allFixes {} exBuiltins exNs wEmptyIter = ["y".toList] := by decide +kernel

/-- `[_K for x in [_K] if False if y]` -/
def wFalseCond : List Stmt :=
  [.located 1 (.expr (.comp .list [.const] [.mk (.name "x".toList) (.list [.const]) [.bool false, .name "y".toList]]))]

/-- **witness_comp_false_cond.**  Precision needs every condition to hold (the theorem excludes conditions altogether):
    in `[_K for x in [_K] if False if y]` the second condition is never evaluated; the run completes, the analysis
    reports `y` (as the real `find_missing_imports` does). -/
theorem witness_comp_false_cond :
    fragG wFalseCond = true ∧ wFalseCond.all plainStmtG = false ∧
    isOk (runProgram 100 wFalseCond [] (mkState exBuiltins exNs)).2 = true ∧
    findMissing {} exBuiltins exNs wFalseCond = ["y".toList] ∧
    findMissingFx allFixes {} exBuiltins exNs wFalseCond = ["y".toList] := by decide +kernel

/-- `x = _K` ; `[_K for x in x]` … and without the first statement -/
def wIterOuter : List Stmt :=
  [.located 1 (.assign [.name "x".toList] .const),
   .located 2 (.expr (.comp .list [.const] [.mk (.name "x".toList) (.name "x".toList) []]))]

/-- **witness_comp_iter_outer_scope.**  The iterable is evaluated in the enclosing scope, before the variable exists:
    `[_K for x in x]` with a global `x` runs and nothing is reported; without the global the read of `x` in the iterable
    raises NameError and is reported — by the unchanged tree (which visits the iterable inside the new, still empty,
    scope) and with the `compScope` repair (which visits it outside). -/
theorem witness_comp_iter_outer_scope :
    fragG wIterOuter = true ∧
    isOk (runProgram 100 wIterOuter [] (mkState exBuiltins exNs)).2 = true ∧
    findMissing {} exBuiltins exNs wIterOuter = [] ∧
    findMissingFx allFixes {} exBuiltins exNs wIterOuter = [] ∧
    (runProgram 100 (wIterOuter.drop 1) [] (mkState exBuiltins exNs)).1.ne = ["x".toList] ∧
    findMissing {} exBuiltins exNs (wIterOuter.drop 1) = ["x".toList] ∧
    findMissingFx allFixes {} exBuiltins exNs (wIterOuter.drop 1) = ["x".toList] := by decide +kernel
end WitnessG

/-! ### lambdas (no theorem: `decide`-checked agreement of the two models on the behaviour a theorem would have to cover)

`visit_Lambda` = `visit_FunctionDef` without decorators and name: parameters are stored in a new scope, the body is visited
in a further scope with `_in_FunctionDef` set, i.e. its loads are DEFERRED to the end of the module; the reference run
builds a closure whose body runs when (and only if) it is called.  A simulation proof needs the closure machinery of
fragment C (`Pfb.C05.LemmasC/D`) redone for expression bodies; it is not done here. -/
section LambdaWitness
def lamP (p : String) (body : Expr) : Expr := .lambda (.mk [.mk p.toList none] [] none [] [] none) body

/-- `f = lambda p: (p, q)` — then `f(_K)`;  `f = lambda p: p` ; `p` -/
def wLam : List Stmt := [.located 1 (.assign [nm "f"] (lamP "p" (.tuple [nm "p", nm "q"])))]
def wLamCalls : List Stmt := [.located 2 (.expr (.call (nm "f") [.const]))]
def wLam2 : List Stmt := [.located 1 (.assign [nm "f"] (lamP "p" (nm "p"))), .located 2 (.expr (nm "p"))]

/-- **witness_lambda_param_local.**  The parameter of a lambda is local to it in both models: calling `lambda p: (p, q)`
    raises NameError on `q` only and only `q` is reported; after `f = lambda p: p` a module-level read of `p` raises
    NameError and is reported. -/
theorem witness_lambda_param_local :
    (runProgram 100 wLam wLamCalls (mkState exBuiltins exNs)).1.ne = ["q".toList] ∧
    findMissing {} exBuiltins exNs (wLam ++ wLamCalls) = ["q".toList] ∧
    (runProgram 100 wLam2 [] (mkState exBuiltins exNs)).1.ne = ["p".toList] ∧
    findMissing {} exBuiltins exNs wLam2 = ["p".toList] := by decide +kernel

/-- `f = lambda: late` ; `late = _K` — then `f()`;  `(lambda: late)()` ; `late = _K` -/
def wLam3 : List Stmt := [.located 1 (.assign [nm "f"] (.lambda noArgs (nm "late"))), .located 2 (.assign [nm "late"] .const)]
def wLam3Calls : List Stmt := [.located 3 (.expr (.call (nm "f") []))]
def wLam4 : List Stmt := [.located 1 (.expr (.call (.lambda noArgs (nm "late")) [])), .located 2 (.assign [nm "late"] .const)]

/-- **witness_lambda_body_deferred.**  The body of a lambda is checked against the scopes as they are at the END of the
    module: a name bound after the lambda is not reported, and a call after the last statement finds it bound.  The
    same deferral makes the analysis miss the NameError of a lambda that is called BEFORE the name is bound,
    `(lambda: late)()` ; `late = _K` (run: NameError on `late`, `early` flag set; analysis, with all repairs: nothing;
    the real `find_missing_imports` returns `[]` too) — the "function runs before the end of the module" exclusion
    (`CallsAtEnd`) of the target statement, which a lambda theorem would need as a hypothesis. -/
theorem witness_lambda_body_deferred :
    isOk (runProgram 100 wLam3 wLam3Calls (mkState exBuiltins exNs)).2 = true ∧
    findMissing {} exBuiltins exNs (wLam3 ++ wLam3Calls) = [] ∧
    (runProgram 100 wLam4 [] (mkState exBuiltins exNs)).1.ne = ["late".toList] ∧
    (runProgram 100 wLam4 [] (mkState exBuiltins exNs)).1.early = true ∧
    findMissing {} exBuiltins exNs wLam4 = [] ∧
    findMissingFx allFixes {} exBuiltins exNs wLam4 = [] := by decide +kernel
end LambdaWitness

end Pfb.C05
