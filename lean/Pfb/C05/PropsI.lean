/-
  C05, fragment I — class bodies whose names are invisible outside (and to methods).

  Fragment I = fragment B without dotted names + module-level `class C: <body>` (no bases, no decorators), the body
  consisting of single-name assignments, expression statements and `pass` over fragment-B expressions (no methods).

  Proved for ALL programs of the fragment, all namespaces, registries, fuel, and for the unchanged code as well as for
  the code with any of the proposed repairs (`fx`):
    * `C05_sound_fragI`   — every global name whose lookup raises NameError in the reference run (at module level or in a
                            class body) is reported by `findMissing`, provided `selfFree [] prog`: no class name is read in
                            its own body or by an earlier statement (`witness_self_body`, `witness_self_before`: necessary);
    * `C05_precise_fragI` — without conditional expressions and `__all__`, if the run completes nothing is reported;
    * `fragB_sub_fragI`   — fragment B (`D = false`) is the class-free part of fragment I, where `selfFree` holds trivially.
  Python facts about class scopes, as `decide` witnesses on the two models (the real code agrees, see notes in the report):
    * `witness_class_local`  — `class C: x = _K` then `x` at module level: NameError `x`, reported;
    * `witness_class_lookup` — a class-body read sees earlier class-body bindings, then globals, then builtins;
    * `witness_self_body` / `witness_self_before` — the class's own name is unbound while its body runs / before the
      definition, and the analysis does NOT report it (known finding D9d);
    * `witness_method`       — a method body does not see class-level names (`return a` raises NameError `a` when called),
      and `a` is reported.  Methods are outside the proved fragment.
-/
import Pfb.C05.LemmasI
import Pfb.C05.Props
namespace Pfb.C05
open Pfb Pfb.PyCore

/-- **C05_sound_fragI.**  For every program of fragment I in which no class name is read in its own body or before its
    definition (`selfFree [] prog`), every registry, builtins scope (not a class scope), caller namespaces and every initial
    run-time state that binds exactly the names bound in those namespaces: every global name whose lookup raises NameError
    in the reference run — at module level or inside a class body — is reported by `findMissing`. -/
theorem C05_sound_fragI (fx : Fixes) (reg : Registry) (builtins : Scope) (ns : List Scope) (prog : List Stmt)
    (s0 : XState) (fuel : Nat) (hfr : fragI prog = true) (hsf : selfFree [] prog = true) (hag : Agree builtins ns s0)
    (hb : builtins.isClass = false) :
    ∀ n ∈ (runProgram fuel prog [] s0).1.ne, n ∈ findMissingFx fx reg builtins ns prog := by
  intro n hn
  obtain ⟨m, hm, hmn⟩ := sound_fragI fx reg prog fuel s0 (initState builtins ns) hfr hsf (corrI_init builtins ns s0 hag hb) n hn
  unfold findMissingFx analyzeFx
  rw [mem_sortedSet, List.mem_map]
  exact ⟨m, hm, hmn⟩

/-- **C05_precise_fragI.**  On fragment I without conditional expressions and `__all__` (at module level and in class
    bodies), if the reference run completes (every read was executed and succeeded) nothing is reported. -/
theorem C05_precise_fragI (fx : Fixes) (reg : Registry) (builtins : Scope) (ns : List Scope) (prog : List Stmt)
    (s0 : XState) (fuel : Nat) (hfr : fragI prog = true) (hsf : selfFree [] prog = true)
    (hpl : prog.all plainStmtI = true) (hag : Agree builtins ns s0) (hb : builtins.isClass = false)
    (hok : (runProgram fuel prog [] s0).2 = .ok ()) :
    findMissingFx fx reg builtins ns prog = [] := by
  unfold findMissingFx analyzeFx
  rw [precise_fragI fx reg prog fuel s0 (initState builtins ns) hfr hsf hpl (corrI_init builtins ns s0 hag hb) rfl rfl hok]
  rfl

/-! ### fragment B (`D = false`) is the class-free part of fragment I -/

theorem className_fragB : ∀ s : Stmt, fragBStmt false s = true → className s = none
  | .located _ s, h => by simp only [className]; exact className_fragB s (by simpa [fragBStmt] using h)
  | .classDef _ _ _ _, h => by simp [fragBStmt] at h
  | .expr _, _ => rfl
  | .assign _ _, _ => rfl
  | .pass, _ => rfl
  | .augAssign _ _, _ => rfl
  | .annAssign _ _ _, _ => rfl
  | .import_ _, _ => rfl
  | .importFrom _ _, _ => rfl
  | .funcDef _ _ _ _ _, _ => rfl
  | .for_ _ _ _ _, _ => rfl
  | .while_ _ _ _, _ => rfl
  | .if_ _ _ _, _ => rfl
  | .with_ _ _, _ => rfl
  | .try_ _ _ _ _, _ => rfl
  | .return_ _, _ => rfl
  | .raise_ _, _ => rfl
  | .delete _, _ => rfl
  | .global_ _, _ => rfl
  | .nonlocal_ _, _ => rfl

theorem selfFree_fragB : ∀ (prog : List Stmt) (R : List Str), fragB false prog = true → selfFree R prog = true
  | [], _, _ => rfl
  | s :: r, R, h => by
    simp only [fragB, List.all_cons, Bool.and_eq_true] at h
    simp only [selfFree, className_fragB s h.1, Bool.true_and]
    exact selfFree_fragB r _ (by simpa [fragB] using h.2)

/-- a program of fragment B without dotted names is a program of fragment I, satisfies `selfFree`, and is plain in the
    sense of fragment I iff it is plain in the sense of fragment B -/
theorem fragB_sub_fragI (prog : List Stmt) (h : fragB false prog = true) :
    fragI prog = true ∧ selfFree [] prog = true ∧ (prog.all plainStmtB = true → prog.all plainStmtI = true) := by
  refine ⟨?_, selfFree_fragB prog [] h, fun hp => ?_⟩
  · simp only [fragB, fragI, List.all_eq_true] at h ⊢
    intro s hs; simp [fragIStmt, h s hs]
  · simp only [fragB, List.all_eq_true] at h hp ⊢
    intro s hs; rw [plainI_B s (h s hs)]; exact hp s hs

/-- fragment I really extends fragment B: a class definition is in I and not in B -/
example : fragI [.classDef "C".toList [] [.pass] []] = true ∧ fragB false [.classDef "C".toList [] [.pass] []] = false := by decide

/-! ### the hypotheses are satisfiable by a non-trivial input, and the conclusion is not empty there -/
section ExampleI

theorem isOk_unit {r : Except Exc Unit} (h : isOk r = true) : r = .ok () := by
  cases r with
  | error e => simp [isOk] at h
  | ok u => rfl

/-- `g = _K; class C: a = _K; b = a + g; len; e = (zz, a)` / `class D: y = C` / `q = a` (`a` is bound in the caller's namespace `exNs`)  -/
def exProgI : List Stmt :=
  [st 1 (.assign [nm "g"] .const),
   st 2 (.classDef "C".toList [] [st 3 (.assign [nm "a"] .const), st 4 (.assign [nm "b"] (.binop (nm "a") (nm "g"))),
      st 5 (.expr (nm "len")), st 6 (.assign [nm "e"] (.tuple [nm "zz", nm "a"]))] []),
   st 7 (.classDef "D".toList [] [st 8 (.assign [nm "y"] (nm "C"))] []),
   st 9 (.assign [nm "q"] (nm "a"))]

example : fragI exProgI = true ∧ selfFree [] exProgI = true ∧ fragB false exProgI = false := by decide
example : Agree exBuiltins exNs (mkState exBuiltins exNs) := agree_mk _ _ (by decide) (by decide)
example : exBuiltins.isClass = false := rfl
example : (runProgram 100 exProgI [] (mkState exBuiltins exNs)).1.ne = ["zz".toList] := by decide +kernel
example : findMissing {} exBuiltins exNs exProgI = ["zz".toList] := by decide +kernel

/-- the same program without the read of `zz`: the run completes up to the last statement … -/
def exProgI2 : List Stmt :=
  [st 1 (.assign [nm "g"] .const),
   st 2 (.classDef "C".toList [] [st 3 (.assign [nm "a"] .const), st 4 (.assign [nm "b"] (.binop (nm "a") (nm "g"))),
      st 5 (.expr (nm "len")), st 6 (.assign [nm "e"] (.tuple [nm "g", nm "a"]))] []),
   st 7 (.classDef "D".toList [] [st 8 (.assign [nm "y"] (nm "C"))] [])]

example : fragI exProgI2 = true ∧ selfFree [] exProgI2 = true ∧ exProgI2.all plainStmtI = true := by decide
example : (runProgram 100 exProgI2 [] (mkState exBuiltins exNs)).2 = .ok () := isOk_unit (by decide +kernel)
example : findMissing {} exBuiltins exNs exProgI2 = [] := by decide +kernel
/-- … and with a module-level read of the class-level name `b` after it: NameError, reported -/
example : (runProgram 100 (exProgI2 ++ [st 9 (.assign [nm "q"] (nm "b"))]) [] (mkState exBuiltins exNs)).1.ne = ["b".toList] := by
  decide +kernel
example : findMissing {} exBuiltins exNs (exProgI2 ++ [st 9 (.assign [nm "q"] (nm "b"))]) = ["b".toList] := by decide +kernel

end ExampleI

/-! ### Python's class scopes on the two models -/
section WitnessI

def kB : Scope := { items := [("_K".toList, .obj 1000), ("len".toList, .obj 1001)] }
def kS : XState := mkState kB [{}]

/-- (1) `class C: x = _K` / `x`: a class-body assignment does not bind a module-level name -/
def wLocal : List Stmt := [st 1 (.classDef "C".toList [] [st 2 (.assign [nm "x"] .const)] []), st 3 (.expr (nm "x"))]
theorem witness_class_local : fragI wLocal = true ∧ selfFree [] wLocal = true ∧
    (runProgram 100 wLocal [] kS).1.ne = ["x".toList] ∧ findMissing {} kB [{}] wLocal = ["x".toList] := by decide +kernel

/-- (2) `g = _K` / `class C: a = _K; b = a; c = g; d = len; e = zz`: class namespace, then globals, then builtins -/
def wLookup : List Stmt := [st 1 (.assign [nm "g"] .const),
  st 2 (.classDef "C".toList [] [st 3 (.assign [nm "a"] .const), st 4 (.assign [nm "b"] (nm "a")), st 5 (.assign [nm "c"] (nm "g")),
     st 6 (.assign [nm "d"] (nm "len")), st 7 (.assign [nm "e"] (nm "zz"))] [])]
theorem witness_class_lookup : fragI wLookup = true ∧ selfFree [] wLookup = true ∧
    (runProgram 100 wLookup [] kS).1.ne = ["zz".toList] ∧ findMissing {} kB [{}] wLookup = ["zz".toList] := by decide +kernel

/-- (3a) `class C: x = C` (`Props.wD`): the class's own name is not bound while its body runs; the analysis drops the read.
    The program is in fragment I, only `selfFree` fails: the hypothesis of `C05_sound_fragI` cannot be omitted. -/
theorem witness_self_body : fragI wD = true ∧ selfFree [] wD = false ∧
    (runProgram 100 wD [] kS).1.ne = ["C".toList] ∧ findMissing {} kB [{}] wD = [] := by decide +kernel

/-- (3b) `D` / `class D: pass` (`Props.wD2`): a read of the name before the class definition is dropped as well -/
theorem witness_self_before : fragI wD2 = true ∧ selfFree [] wD2 = false ∧
    (runProgram 100 wD2 [] kS).1.ne = ["D".toList] ∧ findMissing {} kB [{}] wD2 = [] := by decide +kernel

/-- (4) `class C: a = _K; def m(self): return a` / `C.m(_K)`: a method body does not see class-level names -/
def wMethod : List Stmt := [st 1 (.classDef "C".toList [] [st 2 (.assign [nm "a"] .const),
   st 3 (.funcDef "m".toList (.mk [.mk "self".toList none] [] none [] [] none) [st 4 (.return_ (some (nm "a")))] [] none)] [])]
def wMethodCalls : List Stmt := [st 5 (.expr (.call (.attr (nm "C") "m".toList) [.const]))]
theorem witness_method : fragI wMethod = false ∧
    (runProgram 100 wMethod wMethodCalls kS).1.ne = ["a".toList] ∧
    findMissing {} kB [{}] (wMethod ++ wMethodCalls) = ["a".toList] := by decide +kernel

/-- … whereas the same read directly in the class body succeeds (the run completes, nothing is reported) -/
def wMethodInline : List Stmt := [st 1 (.classDef "C".toList [] [st 2 (.assign [nm "a"] .const), st 3 (.assign [nm "r"] (nm "a"))] [])]
theorem witness_method_inline : fragI wMethodInline = true ∧ (runProgram 100 wMethodInline [] kS).2 = .ok () ∧
    findMissing {} kB [{}] wMethodInline = [] :=
  ⟨by decide, isOk_unit (by decide +kernel), by decide +kernel⟩

end WitnessI

end Pfb.C05
