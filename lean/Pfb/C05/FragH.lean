/-
  Pfb.C05.FragH — fragment H of the mini-Python: fragment C (fragment B + module-level `def`s with straight-line
  bodies that are called only by the statements after the last module-level statement) extended by

  (1) positional parameters with DEFAULT values

        def f(p1, …, pk, q1=e1, …, qm=em): <straight-line body>

      where `e1 … em` are fragment-B expressions.  Python evaluates them once, when the `def` statement is executed,
      in the ENCLOSING (module) scope, before the function's name is bound; `visit_arguments` visits them under
      `_UpScopeCtx` (the stack without the freshly pushed argument scope) with `_in_FunctionDef` still false, i.e. as
      ordinary, immediately checked module-level loads;

  (2) module-level assignments of lambdas

        g = lambda p1, …, pk, q1=e1, …, qm=em: <fragment-B expression>

      `visit_Lambda` = `visit_FunctionDef` without decorators, return annotation, own name and `setLine`: the
      parameters are stored in a new scope, the body expression is visited in a further scope with `_in_FunctionDef`
      set, so its loads are DEFERRED to the end of the module (`_visit_Load_defered` twice, `clone_top`,
      `_finish_deferred_load_checks`).  The reference run builds a closure whose body runs when it is called.

  As in fragment C the functions are called only by the trailing `calls` (`fragCall`).
-/
import Pfb.C05.FragB
namespace Pfb.C05
open Pfb Pfb.PyCore

/-- `def name(p1, …, pk [= defaults for the last parameters]): body` — no annotations, decorators, `*args`/`**kw`,
    keyword-only parameters; the defaults are fragment-B expressions, at most one per parameter (Python's grammar) -/
def fragDefH (D : Bool) : Stmt → Bool
  | .located _ s => fragDefH D s
  | .funcDef name (.mk params defaults none [] [] none) body [] none =>
    simpleName name && params.all simpleParam && fragBExprs D defaults && decide (defaults.length ≤ params.length)
      && body.all (fbodyStmt D)
  | _ => false

/-- `g = lambda p1, …, pk [= defaults]: e` with `e` (and the defaults) fragment-B expressions -/
def fragLam (D : Bool) : Stmt → Bool
  | .located _ s => fragLam D s
  | .assign [.name g] (.lambda (.mk params defaults none [] [] none) e) =>
    simpleName g && params.all simpleParam && fragBExprs D defaults && decide (defaults.length ≤ params.length)
      && fragBExpr D e
  | _ => false

def fragHStmt (D : Bool) (s : Stmt) : Bool := fragBStmt D s || fragDefH D s || fragLam D s

def fragH (D : Bool) (prog : List Stmt) : Bool := prog.all (fragHStmt D)

/-- no conditional expression among the default values of a `def` / of an assigned lambda (every read of a default is
    executed when the statement is) -/
def plainDefaults : Stmt → Bool
  | .located _ s => plainDefaults s
  | .funcDef _ (.mk _ defaults _ _ _ _) _ _ _ => noIfExprs defaults
  | .assign _ (.lambda (.mk _ defaults _ _ _ _) _) => noIfExprs defaults
  | _ => true

/-- precision: no conditional expression at module level (default values included) and no `__all__ = [...]` -/
def plainStmtH (s : Stmt) : Bool := plainStmtB s && plainDefaults s

end Pfb.C05
