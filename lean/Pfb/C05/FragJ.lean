/-
  Pfb.C05.FragJ — fragment J of the mini-Python: fragment I (fragment B without dotted names + module-level classes whose
  bodies are single-name assignments, expression statements and `pass`) extended by METHODS

      class C:                     (no bases, no decorators)
          x = e
          def m(p1, …, pk):        (no defaults, no annotations, no decorators, no `*args` / `**kw`)
              <straight-line body of fragment C: x = e | e | pass | return [e]>

  and by trailing statements (run after the last module-level statement) that call a method through its class:

      C.m(e1, …, ek)               with `C` the name of a class the program defines, `e1 … ek` fragment-B expressions.

  What the fragment is about (Python): the body of a method does NOT see the names bound in the class body — a read of a
  non-local name in a method goes to the globals, then the builtins, when the method RUNS (so module-level names bound
  after the class statement are visible).
  What the analysis does (`visit_FunctionDef` inside `visit_ClassDef`): a new scope for the arguments (which also gets
  `__class__`, because `_in_class_def` is set), the body in a further scope built by `_with_new_scope(
  include_class_scopes=False, unhide_classdef=True)`: the `_ClassScope` is filtered out and the shared `_class_delayed`
  dict (the names of the module-level classes seen so far) is put in front; `_in_FunctionDef` is set, so the loads of the
  body are DEFERRED (`clone_top`) and checked by `_finish_deferred_load_checks` against the final module-level scope.  The
  method's own name is stored into the class scope only (`if not self._in_class_def: self._visit_Store(node.name)`).
-/
import Pfb.C05.FragI
namespace Pfb.C05
open Pfb Pfb.PyCore

/-- the name `visit_FunctionDef` stores into the argument scope of a method -/
def dunderCls : Str := "__class__".toList

/-- statements of a class body of fragment J: those of fragment I, or a method (`fragDef false`: `def m(p1, …, pk): body`
    with a straight-line body, no defaults, annotations, decorators) -/
def clsBodyStmtJ (s : Stmt) : Bool := clsBodyStmt s || fragDef false s

/-- `class name: body` without bases and decorators, possibly under `located` -/
def fragClassJ : Stmt → Bool
  | .located _ s => fragClassJ s
  | .classDef name [] body [] => simpleName name && body.all clsBodyStmtJ
  | _ => false

def fragJStmt (s : Stmt) : Bool := fragBStmt false s || fragClassJ s

def fragJ (prog : List Stmt) : Bool := prog.all fragJStmt

/-- the names of the classes a program defines at module level -/
def classNames : List Stmt → List Str
  | [] => []
  | s :: r => (match className s with | some C => [C] | none => []) ++ classNames r

/-- a trailing call `C.m(e1, …, ek)` of a method through a class of `Cs` (the classes the program defines) -/
def fragCallJ (Cs : List Str) : Stmt → Bool
  | .located _ s => fragCallJ Cs s
  | .expr (.call (.attr (.name C) m) args) => Cs.contains C && simpleName C && simpleName m && fragBExprs false args
  | _ => false

/-- the method definition a statement is (`located` wrappers removed) -/
def methodOf : Stmt → Option (List Param × List Stmt)
  | .located _ s => methodOf s
  | .funcDef _ (.mk ps _ _ _ _ _) body _ _ => some (ps, body)
  | _ => none

/-- the methods (parameters, body) defined in a class body -/
def methodsOfBody (body : List Stmt) : List (List Param × List Stmt) := body.filterMap methodOf

/-- the body of the class a statement defines -/
def classBodyOf : Stmt → List Stmt
  | .located _ s => classBodyOf s
  | .classDef _ _ body _ => body
  | _ => []

/-- all methods of all module-level classes of a program -/
def methodsOf : List Stmt → List (List Param × List Stmt)
  | [] => []
  | s :: r => methodsOfBody (classBodyOf s) ++ methodsOf r

end Pfb.C05
