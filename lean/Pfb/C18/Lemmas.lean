/-
  Pfb.C18.Lemmas — helper lemmas for the C18 theorems:
  `split('.')`/`'.'.join` algebra, prefix tests, the `re.sub` scan.
-/
import Pfb.C18.Model
namespace Pfb.C18
open Pfb

/-! ### splitDot / joinDot -/

theorem splitDot_ne_nil (s : Str) : splitDot s ≠ [] := by
  induction s with
  | nil => simp [splitDot]
  | cons c cs ih =>
    unfold splitDot
    split
    · simp
    · split <;> simp

theorem joinDot_cons_ne (l : Str) (ls : List Str) (h : ls ≠ []) :
    joinDot (l :: ls) = l ++ '.' :: joinDot ls := by
  cases ls with
  | nil => exact absurd rfl h
  | cons a as => rfl

@[simp] theorem joinDot_splitDot (s : Str) : joinDot (splitDot s) = s := by
  induction s with
  | nil => simp [splitDot, joinDot]
  | cons c cs ih =>
    unfold splitDot
    split
    · rename_i h
      rw [joinDot_cons_ne _ _ (splitDot_ne_nil cs), ih]; simp [h]
    · have hne := splitDot_ne_nil cs
      split
      · rename_i h; exact absurd h hne
      · rename_i l ls h
        rw [h] at ih
        cases ls with
        | nil => simp [joinDot] at ih ⊢; exact ih
        | cons a as =>
          rw [joinDot_cons_ne _ _ (by simp)] at ih ⊢
          simp [← ih]

theorem splitDot_append_dot (a b : Str) : splitDot (a ++ '.' :: b) = splitDot a ++ splitDot b := by
  induction a with
  | nil => simp [splitDot]
  | cons c cs ih =>
    by_cases hc : c = '.'
    · simp [splitDot, hc, ih]
    · have hne := splitDot_ne_nil cs
      simp only [List.cons_append, splitDot, hc, if_false, ih]
      cases h : splitDot cs with
      | nil => exact absurd h hne
      | cons l ls => simp

theorem joinDot_append (a b : List Str) (ha : a ≠ []) (hb : b ≠ []) :
    joinDot (a ++ b) = joinDot a ++ '.' :: joinDot b := by
  induction a with
  | nil => exact absurd rfl ha
  | cons x xs ih =>
    cases xs with
    | nil => simp [joinDot_cons_ne _ _ hb, joinDot]
    | cons y ys =>
      have e1 : joinDot (x :: y :: ys ++ b) = x ++ '.' :: joinDot (y :: ys ++ b) := rfl
      have e2 : joinDot (x :: y :: ys) = x ++ '.' :: joinDot (y :: ys) := rfl
      rw [e1, e2, ih (by simp)]
      simp

theorem splitDot_of_no_dot (p : Str) (h : '.' ∉ p) : splitDot p = [p] := by
  induction p with
  | nil => simp [splitDot]
  | cons c cs ih =>
    simp only [List.mem_cons, not_or] at h
    have hc : c ≠ '.' := fun e => h.1 e.symm
    simp [splitDot, hc, ih h.2]

theorem splitDot_joinDot (ps : List Str) (hne : ps ≠ []) (h : ∀ p ∈ ps, '.' ∉ p) :
    splitDot (joinDot ps) = ps := by
  induction ps with
  | nil => exact absurd rfl hne
  | cons x xs ih =>
    cases xs with
    | nil => simpa [joinDot] using splitDot_of_no_dot x (h x (by simp))
    | cons y ys =>
      rw [joinDot_cons_ne _ _ (by simp), splitDot_append_dot, splitDot_of_no_dot x (h x (by simp)),
        ih (by simp) (fun p hp => h p (by simp [hp]))]
      simp

/-- "the dotted path is OLD or begins with OLD followed by a dot" is the component-prefix test. -/
theorem under_iff (o f : Str) :
    splitDot o <+: splitDot f ↔ (f = o ∨ (o ++ ['.']) <+: f) := by
  constructor
  · rintro ⟨t, ht⟩
    by_cases htn : t = []
    · subst htn
      left
      have := congrArg joinDot ht
      simpa using this.symm
    · right
      have := congrArg joinDot ht
      rw [joinDot_append _ _ (splitDot_ne_nil o) htn] at this
      simp at this
      exact ⟨joinDot t, by simp [← this]⟩
  · rintro (rfl | ⟨r, hr⟩)
    · exact List.prefix_refl _
    · have : f = o ++ '.' :: r := by simp [← hr]
      rw [this, splitDot_append_dot]
      exact List.prefix_append _ _

/-! ### prefix test by `take` -/

theorem take_eq_iff_prefix {α} (p l : List α) : l.take p.length = p ↔ p <+: l := by
  rw [List.prefix_iff_eq_take]
  exact eq_comm


/-! ### lastOr -/

@[simp] theorem lastOr_nil (p : Option Char) : lastOr p [] = p := rfl

theorem lastOr_cons (p : Option Char) (c : Char) (l : Str) : lastOr p (c :: l) = lastOr (some c) l := by
  cases l with
  | nil => simp [lastOr]
  | cons d ds =>
    simp only [lastOr, List.getLast?_cons_cons]
    cases h : (d :: ds).getLast? with
    | none => simp [List.getLast?_eq_none_iff] at h
    | some x => rfl

theorem lastOr_append (p : Option Char) (a b : Str) : lastOr p (a ++ b) = lastOr (lastOr p a) b := by
  induction a generalizing p with
  | nil => simp
  | cons c cs ih => rw [List.cons_append, lastOr_cons, lastOr_cons, ih]

theorem lastOr_ne_nil (p : Option Char) (l : Str) (h : l ≠ []) : lastOr p l = l.getLast? := by
  unfold lastOr
  cases hl : l.getLast? with
  | none => simp [List.getLast?_eq_none_iff] at hl; exact absurd hl h
  | some c => rfl

/-! ### the scan -/

theorem scan_skip (g : Bool) (K V : Str) :
    ∀ (s : Str) (n : Nat) (prev : Option Char), n ≤ s.length →
      scan g K V n prev s = scan g K V 0 (lastOr prev (s.take n)) (s.drop n) := by
  intro s
  induction s with
  | nil => intro n prev h; simp at h; subst h; simp
  | cons c cs ih =>
    intro n prev h
    cases n with
    | zero => simp
    | succ n =>
      have h' : n ≤ cs.length := by simpa using h
      rw [scan, ih n (some c) h']
      simp [lastOr_cons]

theorem matchAt_prefix {g : Bool} {K : Str} {prev : Option Char} {s : Str}
    (h : matchAt g K prev s = true) : K <+: s := by
  unfold matchAt at h
  split at h
  · simp at h
  · simp only [Bool.and_eq_true] at h
    exact List.isPrefixOf_iff_prefix.mp h.1.2

theorem matchAt_ne_nil {g : Bool} {K : Str} {prev : Option Char} {s : Str}
    (h : matchAt g K prev s = true) : K ≠ [] := by
  intro hK; subst hK; simp [matchAt] at h

/-- one step of the scan at a matching position -/
theorem scan_match (g : Bool) (K V : Str) (prev : Option Char) (s : Str)
    (h : matchAt g K prev s = true) :
    scan g K V 0 prev s = V ++ scan g K V 0 (lastOr prev K) (s.drop K.length) := by
  obtain ⟨q, hq⟩ := matchAt_prefix h
  have hK := matchAt_ne_nil h
  cases K with
  | nil => exact absurd rfl hK
  | cons k K' =>
    subst hq
    have h' : matchAt g (k :: K') prev (k :: (K' ++ q)) = true := by simpa using h
    rw [show (k :: K') ++ q = k :: (K' ++ q) from rfl, scan, if_pos h']
    simp only [List.length_cons, Nat.add_sub_cancel]
    rw [scan_skip g (k :: K') V (K' ++ q) K'.length (some k) (by simp)]
    simp [lastOr_cons]

theorem scan_nomatch (g : Bool) (K V : Str) (prev : Option Char) (c : Char) (cs : Str)
    (h : matchAt g K prev (c :: cs) = false) :
    scan g K V 0 prev (c :: cs) = c :: scan g K V 0 (some c) cs := by
  simp [scan, h]

/-- No match starts inside a stretch of non-word characters (the key begins with a word character). -/
theorem scan_nonword_run (g : Bool) (K V : Str) (k : Char) (K' : Str) (hK : K = k :: K') (hk : isW k = true) :
    ∀ (r s' : Str) (prev : Option Char), (∀ x ∈ r, isW x = false) →
      scan g K V 0 prev (r ++ s') = r ++ scan g K V 0 (lastOr prev r) s' := by
  intro r
  induction r with
  | nil => intro s' prev _; simp
  | cons x xs ih =>
    intro s' prev hr
    have hx : isW x = false := hr x (by simp)
    have hm : matchAt g K prev (x :: (xs ++ s')) = false := by
      subst hK
      have : k ≠ x := by intro e; subst e; simp [hk] at hx
      simp [matchAt, List.isPrefixOf, this]
    rw [List.cons_append, scan_nomatch _ _ _ _ _ _ hm, ih s' (some x) (fun y hy => hr y (by simp [hy])),
      lastOr_cons]
    simp

/-- No match starts after a word character (the key begins with a word character). -/
theorem scan_word_run (g : Bool) (K V : Str) (k : Char) (K' : Str) (hK : K = k :: K') (hk : isW k = true) :
    ∀ (r s' : Str) (prev : Option Char), wOpt prev = true → (∀ x ∈ r, isW x = true) →
      scan g K V 0 prev (r ++ s') = r ++ scan g K V 0 (lastOr prev r) s' := by
  intro r
  induction r with
  | nil => intro s' prev _ _; simp
  | cons x xs ih =>
    intro s' prev hp hr
    have hm : matchAt g K prev (x :: (xs ++ s')) = false := by
      subst hK
      simp [matchAt, hp, hk]
    rw [List.cons_append, scan_nomatch _ _ _ _ _ _ hm,
      ih s' (some x) (by simpa [wOpt] using hr x (by simp)) (fun y hy => hr y (by simp [hy])), lastOr_cons]
    simp

/-! ### runs -/

theorem runs_step (c : Char) (cs : Str) :
    runs (c :: cs) = match runs cs with
      | [] => [[c]]
      | [] :: rs => [c] :: rs
      | (d :: r) :: rs => if isW c = isW d then (c :: d :: r) :: rs else [c] :: (d :: r) :: rs := by
  simp only [runs]
  cases runs cs with
  | nil => rfl
  | cons r rs =>
    cases r with
    | nil => rfl
    | cons d r => simp

/-- first run and the rest -/
theorem runs_cons (c : Char) (cs : Str) :
    runs (c :: cs) = (c :: cs.takeWhile (fun d => isW d == isW c)) ::
      runs (cs.dropWhile (fun d => isW d == isW c)) := by
  induction cs generalizing c with
  | nil => simp [runs]
  | cons d ds ih =>
    rw [runs_step c (d :: ds), ih d]
    by_cases h : isW c = isW d
    · simp [h]
    · have h' : ¬ isW d = isW c := fun e => h e.symm
      simp [h, h', ih d]

theorem flatten_runs (s : Str) : (runs s).flatten = s := by
  induction s with
  | nil => simp [runs]
  | cons c cs ih =>
    rw [runs_step]
    split
    · rename_i h; rw [h] at ih; simp at ih; simp [ih]
    · rename_i rs h; rw [h] at ih; simp at ih; simp [ih]
    · rename_i d r rs h
      rw [h] at ih
      split <;> simp at ih ⊢ <;> exact ih

theorem runs_eq_nil_iff (s : Str) : runs s = [] ↔ s = [] := by
  cases s with
  | nil => simp [runs]
  | cons c cs => simp [runs_cons]

/-- class alternation of adjacent runs, every run non-empty -/
def Alt : List Str → Prop
  | [] => True
  | [r] => r ≠ []
  | r1 :: r2 :: rs => r1 ≠ [] ∧ wOpt r1.getLast? ≠ wOpt r2.head? ∧ Alt (r2 :: rs)

theorem Alt_tail {r : Str} {rs : List Str} (h : Alt (r :: rs)) : Alt rs := by
  cases rs with
  | nil => trivial
  | cons a as => exact h.2.2

theorem Alt_head_ne {r : Str} {rs : List Str} (h : Alt (r :: rs)) : r ≠ [] := by
  cases rs with
  | nil => exact h
  | cons a as => exact h.1

theorem Alt_junction {a : List Str} {p : Str} {ps : List Str} (ha : a ≠ []) (h : Alt (a ++ p :: ps)) :
    ∃ rl, a.getLast? = some rl ∧ wOpt rl.getLast? ≠ wOpt p.head? ∧ p ≠ [] := by
  induction a with
  | nil => exact absurd rfl ha
  | cons x xs ih =>
    cases xs with
    | nil =>
      refine ⟨x, by simp, ?_, ?_⟩
      · exact h.2.1
      · exact Alt_head_ne h.2.2
    | cons y ys =>
      obtain ⟨rl, h1, h2⟩ := ih (by simp) (Alt_tail h)
      exact ⟨rl, by simpa [List.getLast?_cons_cons] using h1, h2⟩

theorem takeWhile_class (c : Char) (cs : Str) :
    ∀ x ∈ c :: cs.takeWhile (fun d => isW d == isW c), isW x = isW c := by
  intro x hx
  simp only [List.mem_cons] at hx
  rcases hx with rfl | hx
  · rfl
  · have := List.all_eq_true.mp (List.all_takeWhile (l := cs) (p := fun d => isW d == isW c)) x hx
    simpa using this

theorem dropWhile_head (c : Char) (cs : Str) :
    ∀ d ∈ (cs.dropWhile (fun d => isW d == isW c)).head?, isW d ≠ isW c := by
  intro d hd
  have := List.head?_dropWhile_not (fun d => isW d == isW c) cs
  simp only [Option.mem_def] at hd
  rw [hd] at this
  simpa using this

theorem getLast?_class (c : Char) (tw : Str) (h : ∀ x ∈ c :: tw, isW x = isW c) :
    wOpt (c :: tw).getLast? = isW c := by
  have hne : c :: tw ≠ [] := by simp
  rw [List.getLast?_eq_some_getLast hne]
  simp only [wOpt]
  exact h _ (List.getLast_mem hne)

theorem runs_alt : ∀ (n : Nat) (s : Str), s.length ≤ n → Alt (runs s) := by
  intro n
  induction n with
  | zero => intro s h; simp at h; subst h; simp [runs, Alt]
  | succ n ih =>
    intro s h
    cases s with
    | nil => simp [runs, Alt]
    | cons c cs =>
      rw [runs_cons]
      have hlen : (cs.dropWhile (fun d => isW d == isW c)).length ≤ n := by
        have := (List.dropWhile_sublist (l := cs) (fun d => isW d == isW c)).length_le
        simp at h; omega
      have ih' := ih _ hlen
      cases hd : cs.dropWhile (fun d => isW d == isW c) with
      | nil => simp [runs, Alt]
      | cons d ds =>
        rw [hd] at ih'
        rw [runs_cons] at ih' ⊢
        refine ⟨by simp, ?_, ih'⟩
        rw [getLast?_class c _ (takeWhile_class c cs)]
        have := dropWhile_head c cs d (by simp [hd])
        simpa [wOpt] using fun e => this e.symm

theorem runs_append (a b : Str) (h : a = [] ∨ b = [] ∨ wOpt a.getLast? ≠ wOpt b.head?) :
    runs (a ++ b) = runs a ++ runs b := by
  induction a with
  | nil => simp [runs]
  | cons c a' ih =>
    rcases h with h | h | h
    · simp at h
    · subst h; simp [runs]
    · cases a' with
      | nil =>
        cases b with
        | nil => simp [runs]
        | cons d b' =>
          have hcd : ¬ isW c = isW d := by simpa [wOpt] using h
          rw [List.cons_append, List.nil_append, runs_step c (d :: b'), runs_cons d b']
          simp [hcd, runs]
      | cons e a'' =>
        have ih' := ih (Or.inr (Or.inr (by simpa [List.getLast?_cons_cons] using h)))
        rw [List.cons_append, runs_step c ((e :: a'') ++ b), ih', runs_step c (e :: a''), runs_cons e a'']
        simp only [List.cons_append]
        split <;> rfl


/-! ### the token-level scan -/

theorem tokScan_skip (g : Bool) (KT : List Str) (V : Str) :
    ∀ (ts : List Str) (n : Nat) (prev : Option Char), n ≤ ts.length →
      tokScan g KT V n prev ts = tokScan g KT V 0 (lastOr prev (ts.take n).flatten) (ts.drop n) := by
  intro ts
  induction ts with
  | nil => intro n prev h; simp at h; subst h; simp
  | cons t ts ih =>
    intro n prev h
    cases n with
    | zero => simp
    | succ n =>
      have h' : n ≤ ts.length := by simpa using h
      rw [tokScan, ih n _ h']
      simp [lastOr_append]

theorem tokScan_match (g : Bool) (KT : List Str) (V : Str) (prev : Option Char) (ts : List Str)
    (hne : KT ≠ []) (hp : KT <+: ts) (hg : (g && prev == some '.') = false) :
    tokScan g KT V 0 prev ts = V ++ tokScan g KT V 0 (lastOr prev KT.flatten) (ts.drop KT.length) := by
  obtain ⟨rest, hr⟩ := hp
  cases KT with
  | nil => exact absurd rfl hne
  | cons t KT' =>
    subst hr
    have hpre : (t :: KT').isPrefixOf (t :: (KT' ++ rest)) = true :=
      List.isPrefixOf_iff_prefix.mpr ⟨rest, rfl⟩
    rw [show (t :: KT') ++ rest = t :: (KT' ++ rest) from rfl, tokScan]
    simp only [hpre, hg, Bool.not_false, Bool.and_self, if_true, List.length_cons, Nat.add_sub_cancel]
    rw [tokScan_skip g (t :: KT') V (KT' ++ rest) KT'.length _ (by simp)]
    simp [lastOr_append]

theorem tokScan_nomatch (g : Bool) (KT : List Str) (V : Str) (prev : Option Char) (t : Str) (ts : List Str)
    (h : (KT.isPrefixOf (t :: ts) && !(g && prev == some '.')) = false) :
    tokScan g KT V 0 prev (t :: ts) = t ++ tokScan g KT V 0 (lastOr prev t) ts := by
  rw [tokScan, if_neg (by rw [h]; simp)]

theorem getLast?_flatten_runs (K : Str) (hK : K ≠ []) :
    ∃ rl, (runs K).getLast? = some rl ∧ rl.getLast? = K.getLast? ∧ rl ≠ [] := by
  have halt := runs_alt K.length K (Nat.le_refl _)
  have hne : runs K ≠ [] := fun e => hK ((runs_eq_nil_iff K).mp e)
  have hfl := flatten_runs K
  obtain ⟨ini, rl, hsplit⟩ : ∃ ini rl, runs K = ini ++ [rl] :=
    ⟨(runs K).dropLast, (runs K).getLast hne, (List.dropLast_concat_getLast hne).symm⟩
  have hrl : rl ≠ [] := by
    rw [hsplit] at halt
    cases ini with
    | nil => exact halt
    | cons a as =>
      obtain ⟨_, _, _, h3⟩ := Alt_junction (a := a :: as) (p := rl) (ps := []) (by simp) halt
      exact h3
  refine ⟨rl, by simp [hsplit], ?_, hrl⟩
  rw [← hfl, hsplit]
  simp [List.getLast?_append, List.getLast?_eq_some_getLast hrl]

/-- At the start of the text or after a non-word character: `\bK\b` matches here iff the runs of `K`
    are a prefix of the remaining runs. -/
theorem prefix_runs_iff (K : Str) (k : Char) (K' : Str) (hK : K = k :: K') (hl : wOpt K.getLast? = true)
    (s : Str) :
    (K <+: s ∧ wOpt (s.drop K.length).head? = false) ↔ runs K <+: runs s := by
  have hKne : K ≠ [] := by simp [hK]
  constructor
  · rintro ⟨⟨q, hq⟩, hb⟩
    subst hq
    simp at hb
    rw [runs_append K q (Or.inr (by
      by_cases hqn : q = []
      · exact Or.inl hqn
      · right; rw [hl, hb]; simp))]
    exact List.prefix_append _ _
  · rintro ⟨post, hp⟩
    have hs : s = K ++ post.flatten := by
      have := congrArg List.flatten hp
      rw [List.flatten_append, flatten_runs, flatten_runs] at this
      exact this.symm
    refine ⟨⟨post.flatten, hs.symm⟩, ?_⟩
    rw [hs]; simp
    cases post with
    | nil => simp [wOpt]
    | cons p ps =>
      have halt := runs_alt s.length s (Nat.le_refl _)
      rw [← hp] at halt
      have hne : runs K ≠ [] := fun e => hKne ((runs_eq_nil_iff K).mp e)
      obtain ⟨rl, h1, h2, h3⟩ := Alt_junction hne halt
      obtain ⟨rl', h1', h2', _⟩ := getLast?_flatten_runs K hKne
      rw [h1] at h1'; cases h1'
      rw [h2', hl] at h2
      cases p with
      | nil => exact absurd rfl h3
      | cons d ds =>
        simp [wOpt] at h2 ⊢
        simpa using h2

theorem matchAt_eq_tok (g : Bool) (K : Str) (k : Char) (K' : Str) (hK : K = k :: K') (hk : isW k = true)
    (hl : wOpt K.getLast? = true) (prev : Option Char) (hp : wOpt prev = false) (s : Str) :
    matchAt g K prev s = ((runs K).isPrefixOf (runs s) && !(g && prev == some '.')) := by
  have hiff := prefix_runs_iff K k K' hK hl s
  rw [Bool.eq_iff_iff]
  subst hK
  simp only [matchAt, hp, hk, hl, Bool.and_eq_true, bne_iff_ne, ne_eq, Bool.not_eq_true', List.isPrefixOf_iff_prefix,
    Bool.false_eq_true, not_false_eq_true, true_and]
  rw [← hiff]
  constructor
  · rintro ⟨⟨h1, h2⟩, h3⟩
    refine ⟨⟨h2, ?_⟩, h1⟩
    cases h : wOpt (List.drop (k :: K').length s).head? <;> simp_all
  · rintro ⟨⟨h1, h2⟩, h3⟩
    refine ⟨⟨h3, h1⟩, ?_⟩
    rw [h2]; simp

theorem scan_eq_tokScan (g : Bool) (K V : Str) (k : Char) (K' : Str) (hK : K = k :: K') (hk : isW k = true)
    (hl : wOpt K.getLast? = true) :
    ∀ (n : Nat) (s : Str), s.length ≤ n → ∀ prev : Option Char, (wOpt prev = true → wOpt s.head? = false) →
      scan g K V 0 prev s = tokScan g (runs K) V 0 prev (runs s) := by
  have hKne : K ≠ [] := by simp [hK]
  have hRK : runs K ≠ [] := fun e => hKne ((runs_eq_nil_iff K).mp e)
  intro n
  induction n with
  | zero => intro s h; simp at h; subst h; intro prev _; simp [runs, scan, tokScan]
  | succ n ih =>
    intro s hlen prev hinv
    cases s with
    | nil => simp [runs, scan, tokScan]
    | cons c cs =>
      have hsplit : cs = cs.takeWhile (fun d => isW d == isW c) ++ cs.dropWhile (fun d => isW d == isW c) :=
        (List.takeWhile_append_dropWhile).symm
      have hcls := takeWhile_class c cs
      have hdw := dropWhile_head c cs
      have hdwlen : (cs.dropWhile (fun d => isW d == isW c)).length ≤ n := by
        have := (List.dropWhile_sublist (l := cs) (fun d => isW d == isW c)).length_le
        simp at hlen; omega
      generalize htw : cs.takeWhile (fun d => isW d == isW c) = tw at *
      generalize hdw' : cs.dropWhile (fun d => isW d == isW c) = dw at *
      have hlast : wOpt (lastOr prev (c :: tw)) = isW c := by
        rw [lastOr_ne_nil _ _ (by simp)]; exact getLast?_class c tw hcls
      rw [runs_cons, htw, hdw']
      by_cases hc : isW c = true
      · -- a word run: a match can only start at its first character
        have hprev : wOpt prev = false := by
          cases h : wOpt prev with
          | false => rfl
          | true => have := hinv h; simp [wOpt, hc] at this
        have hinv' : wOpt (lastOr prev (c :: tw)) = true → wOpt dw.head? = false := by
          intro _
          cases hh : dw.head? with
          | none => rfl
          | some d => have := hdw d (by simp [hh]); simp [wOpt]; simpa [hc] using this
        by_cases hm : matchAt g K prev (c :: cs) = true
        · have hm2 := hm
          rw [matchAt_eq_tok g K k K' hK hk hl prev hprev, runs_cons, htw, hdw'] at hm2
          simp only [Bool.and_eq_true, Bool.not_eq_true'] at hm2
          obtain ⟨q, hq⟩ := matchAt_prefix hm
          have hqhead : wOpt q.head? = false := by
            have := (prefix_runs_iff K k K' hK hl (c :: cs)).mpr
              (by rw [runs_cons, htw, hdw']; exact List.isPrefixOf_iff_prefix.mp hm2.1)
            rw [← hq] at this; simpa using this.2
          have hruns : (c :: tw) :: runs dw = runs K ++ runs q := by
            have := runs_cons c cs
            rw [htw, hdw'] at this
            rw [← this, ← hq]
            exact runs_append K q (by
              by_cases hqn : q = []
              · exact Or.inr (Or.inl hqn)
              · right; right; rw [hl, hqhead]; simp)
          rw [scan_match g K V prev (c :: cs) hm,
            tokScan_match g (runs K) V prev _ hRK (List.isPrefixOf_iff_prefix.mp hm2.1) hm2.2,
            flatten_runs, hruns, List.drop_left, ← hq, List.drop_left]
          congr 1
          apply ih
          · have : (K ++ q).length = (c :: cs).length := by rw [hq]
            have hkl : 0 < K.length := by subst hK; simp
            simp at this hlen; omega
          · intro _; exact hqhead
        · have hm' : matchAt g K prev (c :: cs) = false := by simpa using hm
          have hm2 := hm'
          rw [matchAt_eq_tok g K k K' hK hk hl prev hprev, runs_cons, htw, hdw'] at hm2
          rw [scan_nomatch g K V prev c cs hm', tokScan_nomatch g (runs K) V prev _ _ hm2, hsplit,
            scan_word_run g K V k K' hK hk tw dw (some c) (by simpa [wOpt] using hc)
              (fun x hx => by rw [hcls x (by simp [hx])]; exact hc),
            ← lastOr_cons prev c tw]
          simp only [List.cons_append]
          congr 2
          exact ih dw hdwlen _ hinv'
      · -- a non-word run: no match starts in it
        have hc' : isW c = false := by simpa using hc
        have hnp : ((runs K).isPrefixOf ((c :: tw) :: runs dw) && !(g && prev == some '.')) = false := by
          subst hK
          rw [runs_cons]
          have : k ≠ c := by intro e; subst e; simp [hk] at hc'
          simp [List.isPrefixOf, this]
        rw [tokScan_nomatch g (runs K) V prev _ _ hnp, show c :: cs = (c :: tw) ++ dw by rw [hsplit]; simp,
          scan_nonword_run g K V k K' hK hk (c :: tw) dw prev (fun x hx => by rw [hcls x hx]; exact hc')]
        congr 1
        apply ih dw hdwlen
        intro h; rw [hlast, hc'] at h; exact absurd h (by simp)

/-- `re.sub(r"\bK\b", V, s)` is the token-level replacement on maximal runs. -/
theorem wordReplace_eq_tokReplace (g : Bool) (K V s : Str) (hh : wOpt K.head? = true) (hl : wOpt K.getLast? = true) :
    wordReplace g K V s = tokReplace g (runs K) V (runs s) := by
  cases K with
  | nil => simp [wOpt] at hh
  | cons k K' =>
    exact scan_eq_tokScan g (k :: K') V k K' rfl (by simpa [wOpt] using hh) hl s.length s (Nat.le_refl _) none
      (by simp [wOpt])

end Pfb.C18
