/-
  Pfb.C18.Model — import renaming.

  * `Imp.replace`      `Import.replace`            (_importstmt.py, "def replace")
  * `Imp.split`        `Import.split`              (_importstmt.py, "def split")
  * `Imp.fromSplit`    `Import.from_split`
  * `transformImport`  the memoised closure `transform_import` of
                       `transform_imports` (_imports2s.py): a left fold of
                       `replace` over `transformations.items()` — dict
                       insertion order (for `--transform`: command-line order;
                       for `__canonical_imports__`: `ImportMap._data`, i.e. the
                       order of the dict literal(s), `ImportMap._merge` order).
  * `wordReplace`      `re.sub("\\b%s\\b" % re.escape(k), v, s)` as the leftmost
                       non-overlapping scan `re.sub` performs, with Python's `\b`
                       (`\w` on one side, not on the other; the outside of the
                       text counts as non-word).  `guard := true` is the variant
                       `"(?<!\\.)\\b%s\\b"` proposed in fixes/C18-D3.diff.
  * `transformText`    the `for k, v in transformations.items()` loop of
                       `transform_block`.
  * `ignoreShadowed`   `ImportSet._from_imports(..., ignore_shadowed=True)`.
  * `transformBlocks`  the block loop of `transform_imports`.

  Dotted names are Python `str`s (`List Char`); `splitDot` is `str.split('.')`,
  `joinDot` is `'.'.join`.  The component-level core (`replaceC`) works on
  `List Str`.

  `\w`: the model's `isW` is Python's `\w` (for `str` patterns: alphanumeric code
  points and `_`) on a modelled alphabet — ASCII, U+0080..U+017F, Greek,
  CJK Unified Ideographs — and is compared with `re` code point by code point
  by the correspondence check; text outside that alphabet is not sent.  The
  combining marks and connector punctuation that may continue an identifier
  but are not `\w` (2450 code points, e.g. U+0902, U+00B7) are known finding
  C18-D5.

  `re.sub` expands backslash escapes in the replacement; replacements here are
  dotted identifiers (no backslash), for which the template is literal.
-/
import Pfb.Basic
namespace Pfb.C18
open Pfb

/-! ### `str.split('.')` / `'.'.join` -/

/-- `s.split('.')` — always non-empty. -/
def splitDot : Str → List Str
  | [] => [[]]
  | c :: cs =>
    if c = '.' then [] :: splitDot cs
    else match splitDot cs with
      | [] => [[c]]
      | l :: ls => (c :: l) :: ls

/-- `'.'.join(parts)` -/
def joinDot : List Str → Str
  | [] => []
  | [l] => l
  | l :: l' :: ls => l ++ '.' :: joinDot (l' :: ls)

/-! ### `Import` -/

structure Imp where
  fullname : Str
  importAs : Str
deriving DecidableEq, Repr

/-- Component-level core of `Import.replace`: `(fullname_parts, import_as_parts)`.
    `parts[:n] != prefix_parts` → unchanged; slice assignment `parts[:n] = repl`. -/
def replaceC (f a old new : List Str) : List Str × List Str :=
  if f.take old.length ≠ old then (f, a)
  else
    (new ++ f.drop old.length,
     if a.take old.length = old then new ++ a.drop old.length else a)

/-- `Import.replace(prefix, replacement)` exactly as coded. -/
def Imp.replace (imp : Imp) (pre repl : Str) : Imp :=
  let pp := splitDot pre
  let fp := splitDot imp.fullname
  if fp.take pp.length ≠ pp then imp
  else
    let r := replaceC fp (splitDot imp.importAs) pp (splitDot repl)
    ⟨joinDot r.1, joinDot r.2⟩

/-- `ImportSplit(module_name, member_name, import_as)` -/
structure Split where
  moduleName : Option Str
  memberName : Str
  importAs : Option Str
deriving DecidableEq, Repr

/-- The `for level, char in enumerate(qname): if char != '.': break` loop: index of the
    first non-dot character; if there is none, the last index (0 for the empty string). -/
def levelOf : Str → Nat
  | [] => 0
  | c :: cs => if c ≠ '.' then 0 else match cs with
    | [] => 0
    | _ :: _ => 1 + levelOf cs

/-- `q.rsplit('.', 1)` for a `q` that contains a dot: (before the last dot, after it). -/
def rsplitDot (q : Str) : Str × Str :=
  let parts := splitDot q
  (joinDot parts.dropLast, parts.getLast?.getD [])

def Imp.split (imp : Imp) : Split :=
  if imp.importAs = imp.fullname then ⟨none, imp.fullname, none⟩
  else
    let level := levelOf imp.fullname
    let pre := imp.fullname.take level
    let q := imp.fullname.drop level
    let mm : Str × Str := if '.' ∈ q then rsplitDot q else ([], q)
    let moduleName := pre ++ mm.1
    let ia := if imp.importAs = mm.2 then none else some imp.importAs
    ⟨if moduleName = [] then none else some moduleName, mm.2, ia⟩

def Imp.fromSplit (s : Split) : Imp :=
  let ia := s.importAs.getD s.memberName
  match s.moduleName with
  | none => ⟨s.memberName, ia⟩
  | some m => ⟨m ++ (if m.getLast? = some '.' then [] else ['.']) ++ s.memberName, ia⟩

/-- The name the printed statement binds: `import_as` if present, else `member_name`. -/
def Split.boundName (s : Split) : Str := s.importAs.getD s.memberName

/-! ### the rename map -/

abbrev RMap := List (Str × Str)

/-- `for k, v in transformations.items(): imp = imp.replace(k, v)` -/
def transformImport (m : RMap) (imp : Imp) : Imp :=
  m.foldl (fun i kv => i.replace kv.1 kv.2) imp

/-! ### `re.sub(r"\bK\b", V, text)` -/

/-- Python `\w` for `str` patterns (`ch.isalnum() or ch == '_'`, Unicode 15.0), exact on the *modelled
    alphabet*: ASCII, Latin-1 Supplement + Latin Extended-A (U+0080..U+017F), Greek and Coptic
    (U+0370..U+03FF) and CJK Unified Ideographs (U+4E00..U+9FFF).  The correspondence check compares this
    predicate with `re` on every code point of these blocks and sends no text outside them. -/
def isW (c : Char) : Bool :=
  let n := c.toNat
  c.isAlphanum || c = '_'
  || n = 0xAA || (0xB2 ≤ n && n ≤ 0xB3) || n = 0xB5 || (0xB9 ≤ n && n ≤ 0xBA) || (0xBC ≤ n && n ≤ 0xBE)
  || (0xC0 ≤ n && n ≤ 0xD6) || (0xD8 ≤ n && n ≤ 0xF6) || (0xF8 ≤ n && n ≤ 0x17F)
  || (0x370 ≤ n && n ≤ 0x374) || (0x376 ≤ n && n ≤ 0x377) || (0x37A ≤ n && n ≤ 0x37D) || n = 0x37F
  || n = 0x386 || (0x388 ≤ n && n ≤ 0x38A) || n = 0x38C || (0x38E ≤ n && n ≤ 0x3A1)
  || (0x3A3 ≤ n && n ≤ 0x3F5) || (0x3F7 ≤ n && n ≤ 0x3FF)
  || (0x4E00 ≤ n && n ≤ 0x9FFF)

/-- is the code point inside the modelled alphabet? -/
def inAlphabet (c : Char) : Bool :=
  let n := c.toNat
  n < 0x180 || (0x370 ≤ n && n ≤ 0x3FF) || (0x4E00 ≤ n && n ≤ 0x9FFF)

def wOpt : Option Char → Bool
  | none => false
  | some c => isW c

/-- Does `\bK\b` match at the beginning of `s`, the character before being `prev`?
    With `guard`, additionally `(?<!\.)`. -/
def matchAt (guard : Bool) (K : Str) (prev : Option Char) (s : Str) : Bool :=
  match K with
  | [] => false
  | k :: _ =>
    (wOpt prev != isW k)
    && !(guard && prev == some '.')
    && K.isPrefixOf s
    && (wOpt K.getLast? != wOpt (s.drop K.length).head?)

/-- The scan of `re.sub`: `skip` characters of a match are still to be consumed. -/
def scan (g : Bool) (K V : Str) : Nat → Option Char → Str → Str
  | _, _, [] => []
  | skip + 1, _, c :: cs => scan g K V skip (some c) cs
  | 0, prev, c :: cs =>
    if matchAt g K prev (c :: cs) then V ++ scan g K V (K.length - 1) (some c) cs
    else c :: scan g K V 0 (some c) cs

def wordReplace (g : Bool) (K V s : Str) : Str := scan g K V 0 none s

/-- `for k, v in transformations.items(): s = re.sub(..., v, s)` -/
def transformText (g : Bool) (m : RMap) (s : Str) : Str :=
  m.foldl (fun t kv => wordReplace g kv.1 kv.2 t) s

/-! ### blocks -/

/-- dict key used by `ImportSet._from_imports(ignore_shadowed=True)`: the import itself
    for star imports, `import_as` otherwise (a `str` key never equals an `Import` key). -/
def shadowKey (i : Imp) : Option Str × Option Imp :=
  if i.importAs = ['*'] then (none, some i) else (some i.importAs, none)

/-- `d[key] = imp` on an insertion-ordered dict. -/
def dictSet (d : List ((Option Str × Option Imp) × Imp)) (k : Option Str × Option Imp) (v : Imp) :
    List ((Option Str × Option Imp) × Imp) :=
  match d with
  | [] => [(k, v)]
  | (k', v') :: rest => if k' = k then (k', v) :: rest else (k', v') :: dictSet rest k v

def ignoreShadowed (imps : List Imp) : List Imp :=
  (imps.foldl (fun d i => dictSet d (shadowKey i) i) []).map (·.2)

inductive Block where
  | imports (imps : List Imp)
  | text (s : Str)
deriving Repr

def transformBlocks (g : Bool) (m : RMap) : List Block → List Block
  | [] => []
  | .imports imps :: bs => .imports (ignoreShadowed (imps.map (transformImport m))) :: transformBlocks g m bs
  | .text s :: bs => .text (transformText g m s) :: transformBlocks g m bs

/-! ### repaired variants (fixes/C18-H1.diff: single pass; fixes/C18-H3.diff: licensed body rename)

  H1: every import is renamed once, by the entry with the longest key (most components) that is a dotted
  prefix of its path (`transform_import`), and the body is scanned once with one alternation pattern,
  longest key first (`pattern.sub`).  H3 (on top of H1): an alias that would become dotted is kept, and
  only the entries that renamed the local name of some import of the file (at any depth) are applied to
  the body. -/

/-- number of components of a key -/
def compLen (k : Str) : Nat := (splitDot k).length

/-- The `for parts, k in key_parts` loop of the repaired `transform_import`: the entry with the most
    components among those whose key is a component prefix of `f` (the first such in dict order). -/
def bestMatch (m : RMap) (f : Str) : Option (Str × Str) :=
  m.foldl (fun best kv =>
    if (splitDot kv.1).isPrefixOf (splitDot f) &&
        (match best with
         | none => true
         | some b => decide (compLen b.1 < compLen kv.1)) then some kv else best) none

/-- H3: `from glob import glob` renamed by `glob => utils.glob`: an alias cannot be dotted; keep it. -/
def keepAlias (orig res : Imp) : Imp :=
  if res.importAs ≠ orig.importAs ∧ res.importAs ≠ res.fullname ∧ '.' ∈ res.importAs then
    ⟨res.fullname, orig.importAs⟩
  else res

/-- repaired `transform_import` (`lic`: with H3) -/
def transformImport1 (lic : Bool) (m : RMap) (imp : Imp) : Imp :=
  match bestMatch m imp.fullname with
  | none => imp
  | some kv => if lic then keepAlias imp (imp.replace kv.1 kv.2) else imp.replace kv.1 kv.2

/-- H3: does renaming `imp` rename its local name?  Then its entry is applied to the body. -/
def licensedKey (m : RMap) (imp : Imp) : Option Str :=
  match bestMatch m imp.fullname with
  | none => none
  | some kv =>
    let r := imp.replace kv.1 kv.2
    if r.importAs ≠ imp.importAs ∧ ¬ (r.importAs ≠ r.fullname ∧ '.' ∈ r.importAs) then some kv.1 else none

/-- the alternation `(?:k1|k2|...)`, longest key first: the longest key that matches here -/
def bestKeyAt (g : Bool) (keys : RMap) (prev : Option Char) (s : Str) : Option (Str × Str) :=
  keys.foldl (fun best kv =>
    if matchAt g kv.1 prev s &&
        (match best with
         | none => true
         | some b => decide (b.1.length < kv.1.length)) then some kv else best) none

/-- one scan of the text with the alternation pattern -/
def scanAlt (g : Bool) (keys : RMap) : Nat → Option Char → Str → Str
  | _, _, [] => []
  | skip + 1, _, c :: cs => scanAlt g keys skip (some c) cs
  | 0, prev, c :: cs =>
    match bestKeyAt g keys prev (c :: cs) with
    | some kv => kv.2 ++ scanAlt g keys (kv.1.length - 1) (some c) cs
    | none => c :: scanAlt g keys 0 (some c) cs

def transformText1 (g : Bool) (keys : RMap) (s : Str) : Str := scanAlt g keys 0 none s

/-- which tree: dot guard (C18-D3, applied), single pass (H1), licensed body (H3) -/
structure Variant where
  guard : Bool
  single : Bool
  licensed : Bool

def blockImports : List Block → List Imp
  | [] => []
  | .imports imps :: bs => imps ++ blockImports bs
  | .text _ :: bs => blockImports bs

/-- `nested`: the imports that are not module-level statements (they are text to pyflyby, but H3 looks at them
    to decide which entries rename a local name) -/
def bodyKeys (v : Variant) (m : RMap) (nested : List Imp) (bs : List Block) : RMap :=
  if v.licensed then
    let ks := (blockImports bs ++ nested).filterMap (licensedKey m)
    m.filter fun kv => ks.contains kv.1
  else m

def transformBlocksV (v : Variant) (m : RMap) (nested : List Imp) (all bs : List Block) : List Block :=
  match bs with
  | [] => []
  | .imports imps :: rest =>
    .imports (ignoreShadowed (imps.map (if v.single then transformImport1 v.licensed m else transformImport m)))
      :: transformBlocksV v m nested all rest
  | .text s :: rest =>
    .text (if v.single then transformText1 v.guard (bodyKeys v m nested all) s
           else transformText v.guard (bodyKeys v m nested all) s)
      :: transformBlocksV v m nested all rest

/-! ### tokenisation into maximal word / non-word runs (specification side) -/

/-- Maximal runs of `\w` / non-`\w` characters. -/
def runs : Str → List Str
  | [] => []
  | c :: cs =>
    match runs cs with
    | [] => [[c]]
    | [] :: rs => [c] :: rs
    | (d :: r) :: rs => if isW c = isW d then (c :: d :: r) :: rs else [c] :: (d :: r) :: rs

/-- the character before the next position after consuming `l` -/
def lastOr (prev : Option Char) (l : Str) : Option Char :=
  match l.getLast? with
  | some c => some c
  | none => prev

/-- Token-level leftmost non-overlapping replacement of the token sequence `KT` by `V`;
    `prev` is the last character of the previous token (needed only by the dot guard). -/
def tokScan (g : Bool) (KT : List Str) (V : Str) : Nat → Option Char → List Str → Str
  | _, _, [] => []
  | skip + 1, prev, t :: ts => tokScan g KT V skip (lastOr prev t) ts
  | 0, prev, t :: ts =>
    if KT.isPrefixOf (t :: ts) && !(g && prev == some '.') then
      V ++ tokScan g KT V (KT.length - 1) (lastOr prev t) ts
    else t ++ tokScan g KT V 0 (lastOr prev t) ts

def tokReplace (g : Bool) (KT : List Str) (V : Str) (ts : List Str) : Str := tokScan g KT V 0 none ts

/-! ### a minimal meaning of imports under an aliasing universe -/

/-- An import universe: what a dotted path denotes. -/
abbrev Universe (Obj : Type) := List Str → Option Obj

/-- `new` aliases `old`: every path through `new` denotes what the path through `old` denotes. -/
def Aliases {Obj : Type} (u : Universe Obj) (old new : List Str) : Prop :=
  ∀ rest, u (new ++ rest) = u (old ++ rest)

/-- What a dotted reference `ref` denotes in a program whose only binding is the import
    `(fullname, importAs)` (component lists): the reference must go through the local name. -/
def lookup {Obj : Type} (u : Universe Obj) (f a ref : List Str) : Option Obj :=
  if a.isPrefixOf ref then u (f ++ ref.drop a.length) else none

/-- The rewriting the body receives for one dotted reference (component view of the whole-word,
    start-of-chain replacement). -/
def renameRef (old new ref : List Str) : List Str :=
  if old.isPrefixOf ref then new ++ ref.drop old.length else ref

end Pfb.C18
