/-
  Pfb.C18.Props — property C18 "Import renaming is prefix-exact and keeps local
  names bound", over the model in `Pfb.C18.Model`.

  Component level (`List Str` = the result of `str.split('.')`):
    C18_exact, C18_keeps_local, C18_renames_together
  String level (`Import.replace` / `Import.split` as coded):
    C18_under_iff, C18_exact_str, C18_keeps_local_str, C18_split_binds, C18_as_iff,
    C18_alias_wellformed_partial
  Body text (`re.sub(r"\bK\b", V, text)`):
    C18_wordReplace_spec, C18_wordReplace_ident, C18_ref_rewritten
  Maps (several entries, nested prefixes, iteration order):
    C18_no_match_unchanged, C18_first_match, C18_fullname_components, C18_alias_invariant,
    C18_lookup_preserved
  Witnesses (`decide`): the character-prefix traps, the nested-map orders, and the
  excluded regions (known findings C18-D1, -D2, -D3).
-/
import Pfb.C18.Lemmas
namespace Pfb.C18
open Pfb

/-! ## 1. prefix-exactness, component level -/

/-- `Import.replace` changes the import iff OLD is a *component* prefix of the full name (and NEW differs
    from OLD); then the full name is NEW followed by the remaining components; otherwise nothing changes. -/
theorem C18_exact (f a old new : List Str) :
    (replaceC f a old new ≠ (f, a) ↔ (old <+: f ∧ new ≠ old)) ∧
    (old <+: f → (replaceC f a old new).1 = new ++ f.drop old.length) ∧
    (¬ old <+: f → replaceC f a old new = (f, a)) := by
  have key : ∀ l : List Str, old <+: l → old ++ l.drop old.length = l := by
    rintro l ⟨t, rfl⟩; simp
  refine ⟨?_, ?_, ?_⟩
  · constructor
    · intro h
      by_cases hp : old <+: f
      · refine ⟨hp, ?_⟩
        rintro rfl
        apply h
        unfold replaceC
        rw [if_neg (by simpa [take_eq_iff_prefix] using hp)]
        by_cases ha : a.take new.length = new
        · rw [if_pos ha, key f hp, key a ((take_eq_iff_prefix _ _).mp ha)]
        · rw [if_neg ha, key f hp]
      · exfalso; apply h
        unfold replaceC
        rw [if_pos (by simpa [take_eq_iff_prefix] using hp)]
    · rintro ⟨hp, hne⟩ h
      unfold replaceC at h
      rw [if_neg (by simpa [take_eq_iff_prefix] using hp)] at h
      have h1 := congrArg Prod.fst h
      simp only at h1
      conv at h1 => rhs; rw [← key f hp]
      exact hne (List.append_cancel_right h1)
  · intro hp
    unfold replaceC
    rw [if_neg (by simpa [take_eq_iff_prefix] using hp)]
  · intro hp
    unfold replaceC
    rw [if_pos (by simpa [take_eq_iff_prefix] using hp)]

example : replaceC [['a'], ['b'], ['c']] [['c']] [['a'], ['b']] [['x']] = ([['x'], ['c']], [['c']]) := by decide

/-- The local name is untouched unless OLD is a component prefix of it. -/
theorem C18_keeps_local (f a old new : List Str) (h : ¬ old <+: a) : (replaceC f a old new).2 = a := by
  unfold replaceC
  split
  · rfl
  · simp only
    rw [if_neg (by simpa [take_eq_iff_prefix] using h)]

example : ¬ [['a'], ['b']] <+: [['b']] := by decide

/-- When the import is rewritten and the local name begins with OLD, the local name is rewritten by
    the same substitution as the full name. -/
theorem C18_renames_together (f a old new : List Str) (hf : old <+: f) (ha : old <+: a) :
    replaceC f a old new = (new ++ f.drop old.length, new ++ a.drop old.length) := by
  unfold replaceC
  rw [if_neg (by simpa [take_eq_iff_prefix] using hf), if_pos ((take_eq_iff_prefix _ _).mpr ha)]

example : [['a']] <+: [['a'], ['b']] ∧ [['a']] <+: [['a'], ['b']] := by decide

/-! ## 2. string level: `Import.replace`, `Import.split` as coded -/

/-- "the dotted path is OLD or begins with OLD followed by a dot" = component prefix of the `split('.')`s. -/
theorem C18_under_iff (o f : Str) : splitDot o <+: splitDot f ↔ (f = o ∨ (o ++ ['.']) <+: f) := under_iff o f

/-- never a mere character prefix: `foo` / `foobar`, `a.b` / `a.bc` -/
theorem trap_foo_foobar :
    ['f','o','o'] <+: ['f','o','o','b','a','r'] ∧ ¬ splitDot ['f','o','o'] <+: splitDot ['f','o','o','b','a','r'] ∧
    (Imp.mk ['f','o','o','b','a','r'] ['f','o','o','b','a','r']).replace ['f','o','o'] ['q'] =
      Imp.mk ['f','o','o','b','a','r'] ['f','o','o','b','a','r'] := by decide

theorem trap_ab_abc :
    ['a','.','b'] <+: ['a','.','b','c'] ∧ ¬ splitDot ['a','.','b'] <+: splitDot ['a','.','b','c'] ∧
    (Imp.mk ['a','.','b','c'] ['a','.','b','c']).replace ['a','.','b'] ['z'] = Imp.mk ['a','.','b','c'] ['a','.','b','c'] ∧
    (Imp.mk ['a','.','b','.','c'] ['c']).replace ['a','.','b'] ['z'] = Imp.mk ['z','.','c'] ['c'] := by decide

theorem splitDot_no_dot (s : Str) : ∀ p ∈ splitDot s, '.' ∉ p := by
  induction s with
  | nil => simp [splitDot]
  | cons c cs ih =>
    unfold splitDot
    split
    · intro p hp
      simp at hp
      rcases hp with rfl | hp
      · simp
      · exact ih p hp
    · rename_i hc
      split
      · intro p hp; simp at hp; subst hp; simp; exact fun h => hc h.symm
      · rename_i a as h
        intro p hp
        simp at hp
        rw [h] at ih
        rcases hp with rfl | hp
        · have := ih a (by simp)
          simp; exact ⟨fun h => hc h.symm, this⟩
        · exact ih p (by simp [hp])

/-- `Import.replace` on strings, in the property's own words. -/
theorem C18_exact_str (imp : Imp) (o n : Str) :
    (imp.fullname = o → (imp.replace o n).fullname = n) ∧
    (∀ r, imp.fullname = o ++ '.' :: r → (imp.replace o n).fullname = n ++ '.' :: r) ∧
    (¬ (imp.fullname = o ∨ (o ++ ['.']) <+: imp.fullname) → imp.replace o n = imp) := by
  refine ⟨?_, ?_, ?_⟩
  · intro h
    unfold Imp.replace
    simp only [h, List.take_length, ne_eq, not_true_eq_false, if_false]
    rw [(C18_exact _ _ _ _).2.1 (List.prefix_refl _)]
    simp
  · intro r h
    have hp : splitDot o <+: splitDot imp.fullname := (under_iff o _).mpr (Or.inr ⟨r, by simp [h]⟩)
    unfold Imp.replace
    simp only
    rw [if_neg (by simpa [take_eq_iff_prefix] using hp), (C18_exact _ _ _ _).2.1 hp, h, splitDot_append_dot]
    simp only [List.drop_left]
    rw [joinDot_append _ _ (splitDot_ne_nil n) (splitDot_ne_nil r)]
    simp
  · intro h
    have hp : ¬ splitDot o <+: splitDot imp.fullname := fun hp => h ((under_iff o _).mp hp)
    unfold Imp.replace
    simp only
    rw [if_pos (by simpa [take_eq_iff_prefix] using hp)]

example : (Imp.mk ['a','a','.','b','b','.','c'] ['c']).replace ['a','a','.','b','b'] ['x','.','y'] =
    Imp.mk ['x','.','y','.','c'] ['c'] := by decide

/-- The local name survives every rename whose OLD is not a dotted prefix of it ... -/
theorem C18_keeps_local_str (imp : Imp) (o n : Str)
    (h : ¬ (imp.importAs = o ∨ (o ++ ['.']) <+: imp.importAs)) :
    (imp.replace o n).importAs = imp.importAs := by
  have hp : ¬ splitDot o <+: splitDot imp.importAs := fun hp => h ((under_iff o _).mp hp)
  unfold Imp.replace
  simp only
  split
  · rfl
  · simp only
    rw [C18_keeps_local _ _ _ _ hp]
    simp

/-- ... and the statement that is printed (`Import.split`) binds exactly the `Import`'s local name:
    `import_as` when it is present, else `member_name`. -/
theorem getD_ite_as (a m : Str) : (if a = m then none else some a).getD m = a := by
  split <;> simp_all

theorem C18_split_binds (imp : Imp) : imp.split.boundName = imp.importAs := by
  unfold Imp.split Split.boundName
  by_cases h : imp.importAs = imp.fullname
  · simp [h]
  · simp only [h, if_false]
    exact getD_ite_as _ _

/-- `as` is emitted exactly when it is needed. -/
theorem C18_as_iff (imp : Imp) :
    imp.split.importAs = none ↔ (imp.importAs = imp.fullname ∨ imp.importAs = imp.split.memberName) := by
  unfold Imp.split
  by_cases h : imp.importAs = imp.fullname
  · simp [h]
  · simp only [h, if_false, false_or]
    split <;> simp_all

/-- keeps-local, end to end: after a rename whose OLD is not a prefix of the local name, the printed
    statement still binds the local name the code uses (adding `as` when the member name differs). -/
theorem C18_keeps_local_printed (imp : Imp) (o n : Str)
    (h : ¬ (imp.importAs = o ∨ (o ++ ['.']) <+: imp.importAs)) :
    (imp.replace o n).split.boundName = imp.importAs := by
  rw [C18_split_binds, C18_keeps_local_str imp o n h]

example : ((Imp.mk ['a','.','b'] ['b']).replace ['a','.','b'] ['x','.','y']).split =
    ⟨some ['x'], ['y'], some ['b']⟩ := by decide

/-- Partial well-formedness of the alias (full statement — "the alias of a from- or aliased import is never
    dotted" — fails on the unchanged code, see `D1_witness`): an undotted local name stays undotted when NEW is
    undotted or OLD is not the local name. -/
theorem C18_alias_wellformed_partial (imp : Imp) (o n : Str) (ha : '.' ∉ imp.importAs)
    (h : '.' ∉ n ∨ imp.importAs ≠ o) : '.' ∉ (imp.replace o n).importAs := by
  by_cases hu : imp.importAs = o ∨ (o ++ ['.']) <+: imp.importAs
  · rcases hu with hu | ⟨r, hr⟩
    · rcases h with h | h
      · unfold Imp.replace
        simp only
        split
        · exact ha
        · simp only
          unfold replaceC
          split
          · simp; exact ha
          · simp only [hu, List.take_length, if_true, List.drop_length, List.append_nil, joinDot_splitDot]
            exact h
      · exact absurd hu h
    · exfalso; apply ha; rw [← hr]; simp
  · rw [C18_keeps_local_str imp o n hu]; exact ha

example : '.' ∉ ((Imp.mk ['m','.','a'] ['a']).replace ['a'] ['z']).importAs := by decide

/-- C18-D1 (known finding): `from qg import qg` renamed by qg -> zu.qg gets a dotted alias. -/
theorem D1_witness :
    ((Imp.mk ['q','g','.','q','g'] ['q','g']).replace ['q','g'] ['z','u','.','q','g']).split =
      ⟨some ['z','u','.','q','g'], ['q','g'], some ['z','u','.','q','g']⟩ := by decide

/-! ## 3. the body: `re.sub(r"\bK\b", V, text)` -/

/-- Specification of the regex scan against the tokenisation into maximal `\w` / non-`\w` runs: for a key
    that begins and ends with a word character (every dotted identifier), the scan is the leftmost
    non-overlapping replacement of the token sequence `runs K`; nothing else is touched.  With
    `g = true` (fixes/C18-D3.diff) occurrences whose previous character is a dot are skipped. -/
theorem C18_wordReplace_spec (g : Bool) (K V s : Str) (hh : wOpt K.head? = true) (hl : wOpt K.getLast? = true) :
    wordReplace g K V s = tokReplace g (runs K) V (runs s) :=
  wordReplace_eq_tokReplace g K V s hh hl

theorem runs_word (K : Str) (hne : K ≠ []) (hw : ∀ c ∈ K, isW c = true) : runs K = [K] := by
  cases K with
  | nil => exact absurd rfl hne
  | cons k K' =>
    have hall : ∀ x ∈ K', (fun d => isW d == isW k) x = true := by
      intro x hx; simp [hw x (by simp [hx]), hw k (by simp)]
    have h1 : K'.takeWhile (fun d => isW d == isW k) = K' := by
      have := List.takeWhile_append_of_pos (p := fun d => isW d == isW k) (l₁ := K') (l₂ := []) hall
      simpa using this
    have h2 : K'.dropWhile (fun d => isW d == isW k) = [] := by
      have := List.dropWhile_append_of_pos (p := fun d => isW d == isW k) (l₁ := K') (l₂ := []) hall
      simpa using this
    rw [runs_cons, h1, h2]; simp [runs]

theorem tokScan_single (K V : Str) :
    ∀ (ts : List Str) (prev : Option Char),
      tokScan false [K] V 0 prev ts = (ts.map (fun t => if t = K then V else t)).flatten := by
  intro ts
  induction ts with
  | nil => intro prev; simp [tokScan]
  | cons t ts ih =>
    intro prev
    by_cases h : t = K
    · subst h
      rw [tokScan]
      simp [List.isPrefixOf, ih]
    · have h' : ¬ K = t := fun e => h e.symm
      rw [tokScan]
      simp [List.isPrefixOf, h, h', ih]

/-- For a single identifier `K`: exactly the maximal word-runs equal to `K` are replaced — an identifier that
    merely starts with `K` (`foobar` for `foo`) is a different run and stays. -/
theorem C18_wordReplace_ident (K V s : Str) (hne : K ≠ []) (hw : ∀ c ∈ K, isW c = true) :
    wordReplace false K V s = ((runs s).map (fun t => if t = K then V else t)).flatten := by
  have hh : wOpt K.head? = true := by
    cases K with
    | nil => exact absurd rfl hne
    | cons k K' => simpa [wOpt] using hw k (by simp)
  have hl : wOpt K.getLast? = true := by
    rw [List.getLast?_eq_some_getLast hne]
    simpa [wOpt] using hw _ (List.getLast_mem hne)
  rw [wordReplace_eq_tokReplace false K V s hh hl, runs_word K hne hw]
  exact tokScan_single K V (runs s) none

example : wordReplace false ['f','o','o'] ['q'] ['f','o','o','b','a','r','.','x',' ','f','o','o','.','y'] =
    ['f','o','o','b','a','r','.','x',' ','q','.','y'] := by decide

/-- an identifier: non-empty, word characters only -/
def IsIdent (p : Str) : Prop := p ≠ [] ∧ ∀ c ∈ p, isW c = true

theorem joinDot_head (ps : List Str) (hne : ps ≠ []) (hid : ∀ p ∈ ps, IsIdent p) :
    wOpt (joinDot ps).head? = true := by
  cases ps with
  | nil => exact absurd rfl hne
  | cons p ps' =>
    obtain ⟨hp, hw⟩ := hid p (by simp)
    cases p with
    | nil => exact absurd rfl hp
    | cons c cs =>
      have : (joinDot ((c :: cs) :: ps')).head? = some c := by
        cases ps' with
        | nil => simp [joinDot]
        | cons q qs => simp [joinDot]
      rw [this]; simpa [wOpt] using hw c (by simp)

theorem joinDot_getLast (ps : List Str) (hne : ps ≠ []) (hid : ∀ p ∈ ps, IsIdent p) :
    wOpt (joinDot ps).getLast? = true := by
  induction ps with
  | nil => exact absurd rfl hne
  | cons p ps' ih =>
    cases ps' with
    | nil =>
      obtain ⟨hp, hw⟩ := hid p (by simp)
      simp only [joinDot]
      rw [List.getLast?_eq_some_getLast hp]
      simpa [wOpt] using hw _ (List.getLast_mem hp)
    | cons q qs =>
      have := ih (by simp) (fun x hx => hid x (by simp [hx]))
      rw [joinDot_cons_ne _ _ (by simp), List.getLast?_append]
      have hne2 : ('.' :: joinDot (q :: qs)).getLast? = (joinDot (q :: qs)).getLast? := by
        cases hj : joinDot (q :: qs) with
        | nil =>
          have := joinDot_head (q :: qs) (by simp) (fun x hx => hid x (by simp [hx]))
          rw [hj] at this; simp [wOpt] at this
        | cons a as => simp [List.getLast?_cons_cons]
      rw [hne2]
      cases hj : (joinDot (q :: qs)).getLast? with
      | none => rw [hj] at this; simp [wOpt] at this
      | some x => rw [hj] at this; simpa using this

/-- A reference to the local name `a` (followed by anything that does not continue the identifier) is rewritten,
    at its head, to exactly the renamed local name of `C18_renames_together`; scanning then goes on behind it. -/
theorem C18_ref_rewritten (g : Bool) (old new a : List Str) (post : Str)
    (hold : old ≠ []) (hnew : new ≠ [])
    (hid : ∀ p ∈ old, IsIdent p) (hpre : old <+: a) (hpost : wOpt post.head? = false) :
    ∃ rest, joinDot a = joinDot old ++ rest ∧
      joinDot (new ++ a.drop old.length) = joinDot new ++ rest ∧
      wordReplace g (joinDot old) (joinDot new) (joinDot a ++ post) =
        joinDot new ++ scan g (joinDot old) (joinDot new) 0 (lastOr none (joinDot old)) (rest ++ post) := by
  obtain ⟨r, hr⟩ := hpre
  subst hr
  refine ⟨if r = [] then [] else '.' :: joinDot r, ?_, ?_, ?_⟩
  · by_cases h : r = []
    · simp [h]
    · simp [h, joinDot_append _ _ hold h]
  · by_cases h : r = []
    · simp [h]
    · simp [h, joinDot_append _ _ hnew h]
  · have hj : joinDot (old ++ r) = joinDot old ++ (if r = [] then [] else '.' :: joinDot r) := by
      by_cases h : r = []
      · simp [h]
      · simp [h, joinDot_append _ _ hold h]
    have hK1 := joinDot_head old hold hid
    have hK2 := joinDot_getLast old hold hid
    have hm : matchAt g (joinDot old) none (joinDot old ++ ((if r = [] then [] else '.' :: joinDot r) ++ post)) = true := by
      cases hK : joinDot old with
      | nil => rw [hK] at hK1; simp [wOpt] at hK1
      | cons k K' =>
        rw [hK] at hK1 hK2
        have hk : isW k = true := by simpa [wOpt] using hK1
        have hnext : wOpt ((if r = [] then [] else '.' :: joinDot r) ++ post).head? = false := by
          by_cases h : r = []
          · simp [h, hpost]
          · simp only [h, if_false, List.cons_append, List.head?_cons, wOpt]; decide
        have hp : (k :: K').isPrefixOf ((k :: K') ++ ((if r = [] then [] else '.' :: joinDot r) ++ post)) = true :=
          List.isPrefixOf_iff_prefix.mpr ⟨_, rfl⟩
        unfold matchAt
        simp only [List.drop_left, hK2, hnext, hk, hp]
        simp [wOpt]
    unfold wordReplace
    rw [hj, List.append_assoc, scan_match g _ _ none _ hm]
    simp

example : wordReplace false ['a','.','b'] ['x'] ['a','.','b','.','c','(',')'] = ['x','.','c','(',')'] := by decide

/-! ## 4. maps with several entries -/

theorem transformImport_cons (kv : Str × Str) (m : RMap) (imp : Imp) :
    transformImport (kv :: m) imp = transformImport m (imp.replace kv.1 kv.2) := rfl

theorem transformImport_append (m1 m2 : RMap) (imp : Imp) :
    transformImport (m1 ++ m2) imp = transformImport m2 (transformImport m1 imp) := by
  simp [transformImport, List.foldl_append]

/-- An import none of whose OLDs is a dotted prefix of its path is returned unchanged, whatever the map. -/
theorem C18_no_match_unchanged (m : RMap) (imp : Imp)
    (h : ∀ kv ∈ m, ¬ (imp.fullname = kv.1 ∨ (kv.1 ++ ['.']) <+: imp.fullname)) :
    transformImport m imp = imp := by
  induction m with
  | nil => rfl
  | cons kv m ih =>
    rw [transformImport_cons, (C18_exact_str imp kv.1 kv.2).2.2 (h kv (by simp))]
    exact ih (fun x hx => h x (by simp [hx]))

/-- Iteration order decides between nested entries: the first entry (in dict order) whose OLD matches is applied;
    a later entry applies only if its OLD is a dotted prefix of the *rewritten* path. -/
theorem C18_first_match (pre post : RMap) (k v : Str) (imp : Imp)
    (hpre : ∀ kv ∈ pre, ¬ (imp.fullname = kv.1 ∨ (kv.1 ++ ['.']) <+: imp.fullname))
    (hpost : ∀ kv ∈ post, ¬ ((imp.replace k v).fullname = kv.1 ∨ (kv.1 ++ ['.']) <+: (imp.replace k v).fullname)) :
    transformImport (pre ++ (k, v) :: post) imp = imp.replace k v := by
  rw [transformImport_append, C18_no_match_unchanged pre imp hpre, transformImport_cons,
    C18_no_match_unchanged post _ hpost]

/-- `a.b -> x`, `a.b.c -> y` as coded: whichever comes first in the dict wins for `a.b.c.d`. -/
theorem nested_order_witness :
    transformImport [(['a','.','b'], ['x']), (['a','.','b','.','c'], ['y'])] ⟨['a','.','b','.','c','.','d'], ['d']⟩
      = ⟨['x','.','c','.','d'], ['d']⟩ ∧
    transformImport [(['a','.','b','.','c'], ['y']), (['a','.','b'], ['x'])] ⟨['a','.','b','.','c','.','d'], ['d']⟩
      = ⟨['y','.','d'], ['d']⟩ ∧
    transformText false [(['a','.','b'], ['x']), (['a','.','b','.','c'], ['y'])] ['a','.','b','.','c','.','d']
      = ['x','.','c','.','d'] ∧
    transformText false [(['a','.','b','.','c'], ['y']), (['a','.','b'], ['x'])] ['a','.','b','.','c','.','d']
      = ['y','.','d'] := by decide

/-- Component view of the full name after one `replace`. -/
theorem replace_fullname_components (imp : Imp) (o n : Str) :
    splitDot (imp.replace o n).fullname =
      (replaceC (splitDot imp.fullname) (splitDot imp.fullname) (splitDot o) (splitDot n)).1 := by
  unfold Imp.replace replaceC
  simp only
  split
  · rfl
  · simp only
    apply splitDot_joinDot
    · simp [splitDot_ne_nil]
    · intro p hp
      simp only [List.mem_append] at hp
      rcases hp with hp | hp
      · exact splitDot_no_dot n p hp
      · exact splitDot_no_dot _ p (List.mem_of_mem_drop hp)

/-! ### prefix-exactness for whole maps

  `transform_imports` applies the entries one after the other, in dict iteration order, each to the result of
  the previous ones (not "longest match", not "first match only").  For maps whose NEWs are not dotted-prefix
  related to a *later* OLD this is: the first entry in dict order whose OLD is a dotted prefix of the path is
  applied, once; every other import is untouched. -/

/-- component-prefix relatedness of two dotted names -/
def Related (a b : Str) : Prop := splitDot a <+: splitDot b ∨ splitDot b <+: splitDot a

/-- no NEW is dotted-prefix related to the OLD of an entry that comes later in the dict -/
def NonInterfering : RMap → Prop
  | [] => True
  | kv :: rest => (∀ kv' ∈ rest, ¬ Related kv'.1 kv.2) ∧ NonInterfering rest

def relatedB (a b : Str) : Bool :=
  (splitDot a).isPrefixOf (splitDot b) || (splitDot b).isPrefixOf (splitDot a)

/-- executable form of `NonInterfering` (the driver reports it for every map the oracle accepts) -/
def nonInterferingB : RMap → Bool
  | [] => true
  | kv :: rest => rest.all (fun kv' => !relatedB kv'.1 kv.2) && nonInterferingB rest

theorem nonInterferingB_iff (m : RMap) : nonInterferingB m = true ↔ NonInterfering m := by
  induction m with
  | nil => simp [nonInterferingB, NonInterfering]
  | cons kv rest ih =>
    simp only [nonInterferingB, NonInterfering, Bool.and_eq_true, List.all_eq_true, ih, Related, relatedB,
      Bool.not_eq_true', Bool.or_eq_false_iff, not_or, ← List.isPrefixOf_iff_prefix, Bool.not_eq_true]

/-- the first entry (dict order) whose OLD is a dotted prefix of `f` -/
def firstMatch (m : RMap) (f : Str) : Option (Str × Str) :=
  m.find? fun kv => (splitDot kv.1).isPrefixOf (splitDot f)

theorem prefix_comparable {α} {a b c : List α} (ha : a <+: c) (hb : b <+: c) : a <+: b ∨ b <+: a := by
  rcases Nat.le_total a.length b.length with h | h
  · exact Or.inl (List.prefix_of_prefix_length_le ha hb h)
  · exact Or.inr (List.prefix_of_prefix_length_le hb ha h)

/-- C18_exact for maps: under `NonInterfering`, the result of the whole fold is the import itself when no OLD
    is a dotted prefix of its path, and otherwise `Import.replace` by the first such entry in dict order —
    whatever other entries exist (siblings such as `util`/`utils`, nested ones such as `a`/`a.b`), wherever
    they stand. -/
theorem C18_exact_map (m : RMap) (hm : NonInterfering m) (imp : Imp) :
    transformImport m imp =
      match firstMatch m imp.fullname with
      | none => imp
      | some kv => imp.replace kv.1 kv.2 := by
  induction m generalizing imp with
  | nil => rfl
  | cons kv rest ih =>
    rw [transformImport_cons]
    by_cases hp : splitDot kv.1 <+: splitDot imp.fullname
    · have hfm : firstMatch (kv :: rest) imp.fullname = some kv := by
        simp [firstMatch, List.find?, List.isPrefixOf_iff_prefix.mpr hp]
      rw [hfm]
      simp only
      apply C18_no_match_unchanged
      intro kv' hkv' hu
      have h1 : splitDot kv'.1 <+: splitDot (imp.replace kv.1 kv.2).fullname := (under_iff _ _).mpr hu
      rw [replace_fullname_components, (C18_exact _ _ _ _).2.1 hp] at h1
      have h2 : splitDot kv.2 <+: splitDot kv.2 ++ List.drop (splitDot kv.1).length (splitDot imp.fullname) :=
        List.prefix_append _ _
      exact hm.1 kv' hkv' (prefix_comparable h1 h2)
    · have hne : ¬ (imp.fullname = kv.1 ∨ (kv.1 ++ ['.']) <+: imp.fullname) :=
        fun h => hp ((under_iff _ _).mpr h)
      rw [(C18_exact_str imp kv.1 kv.2).2.2 hne, ih hm.2]
      have : firstMatch (kv :: rest) imp.fullname = firstMatch rest imp.fullname := by
        have hb : (splitDot kv.1).isPrefixOf (splitDot imp.fullname) = false := by
          rw [Bool.eq_false_iff]; intro h; exact hp (List.isPrefixOf_iff_prefix.mp h)
        simp [firstMatch, List.find?, hb]
      rw [this]

/-- ... and the entry found is one whose OLD is the path or the path up to a dot — never a character prefix. -/
theorem firstMatch_under (m : RMap) (f : Str) (kv : Str × Str) (h : firstMatch m f = some kv) :
    kv ∈ m ∧ (f = kv.1 ∨ (kv.1 ++ ['.']) <+: f) := by
  unfold firstMatch at h
  refine ⟨List.mem_of_find?_eq_some h, ?_⟩
  have := List.find?_some h
  exact (under_iff _ _).mp (List.isPrefixOf_iff_prefix.mp this)

/-- sibling keys that are character prefixes of one another with parallel values (`ut -> c.ut`, `uts -> c.uts`),
    in both dict orders: `uts.q` is renamed by the `uts` entry, `ut.q` by the `ut` entry, `utx` by neither. -/
theorem sibling_witness :
    transformImport [(['u','t'], ['c','.','u','t']), (['u','t','s'], ['c','.','u','t','s'])] ⟨['u','t','s','.','q'], ['q']⟩
      = ⟨['c','.','u','t','s','.','q'], ['q']⟩ ∧
    transformImport [(['u','t','s'], ['c','.','u','t','s']), (['u','t'], ['c','.','u','t'])] ⟨['u','t','s'], ['u','t','s']⟩
      = ⟨['c','.','u','t','s'], ['c','.','u','t','s']⟩ ∧
    transformImport [(['u','t'], ['c','.','u','t']), (['u','t','s'], ['c','.','u','t','s'])] ⟨['u','t','.','q'], ['q']⟩
      = ⟨['c','.','u','t','.','q'], ['q']⟩ ∧
    transformImport [(['u','t'], ['c','.','u','t']), (['u','t','s'], ['c','.','u','t','s'])] ⟨['u','t','x'], ['u','t','x']⟩
      = ⟨['u','t','x'], ['u','t','x']⟩ ∧
    transformText false [(['u','t'], ['c','.','u','t']), (['u','t','s'], ['c','.','u','t','s'])]
        ['u','t','s','.','q',' ','u','t','.','q',' ','u','t','x'] =
        ['c','.','u','t','s','.','q',' ','c','.','u','t','.','q',' ','u','t','x'] := by decide

example : NonInterfering [(['u','t'], ['c','.','u','t']), (['u','t','s'], ['c','.','u','t','s'])] := by
  refine ⟨?_, ?_, trivial⟩
  · intro kv' h; simp at h; subst h; unfold Related; decide
  · intro kv' h; simp at h

/-- the fold on component lists -/
def transformC (m : List (List Str × List Str)) (f : List Str) : List Str :=
  m.foldl (fun f kv => (replaceC f f kv.1 kv.2).1) f

theorem C18_fullname_components (m : RMap) (imp : Imp) :
    splitDot (transformImport m imp).fullname =
      transformC (m.map fun kv => (splitDot kv.1, splitDot kv.2)) (splitDot imp.fullname) := by
  induction m generalizing imp with
  | nil => rfl
  | cons kv m ih =>
    rw [transformImport_cons, ih]
    simp only [List.map_cons, transformC, List.foldl_cons]
    rw [replace_fullname_components]

/-- In a universe where every NEW aliases its OLD, the object an import's path denotes is the same after the
    whole fold — for every map, nested or not, in every iteration order. -/
theorem C18_alias_invariant {Obj : Type} (u : Universe Obj) (m : List (List Str × List Str))
    (hal : ∀ kv ∈ m, Aliases u kv.1 kv.2) (f rest : List Str) :
    u (transformC m f ++ rest) = u (f ++ rest) := by
  induction m generalizing f with
  | nil => rfl
  | cons kv m ih =>
    simp only [transformC, List.foldl_cons]
    have := ih (fun x hx => hal x (by simp [hx])) (replaceC f f kv.1 kv.2).1
    simp only [transformC] at this
    rw [this]
    by_cases hp : kv.1 <+: f
    · rw [(C18_exact f f kv.1 kv.2).2.1 hp]
      obtain ⟨t, ht⟩ := hp
      subst ht
      simp only [List.drop_left, List.append_assoc]
      exact hal kv (by simp) (t ++ rest)
    · rw [(C18_exact f f kv.1 kv.2).2.2 hp]

/-- One import, one reference through its local name: the renamed reference, looked up through the renamed
    import, denotes the same object — provided OLD reaches the reference only through the local name
    (the property's program domain). -/
theorem C18_lookup_preserved {Obj : Type} (u : Universe Obj) (f a old new ref : List Str)
    (hal : Aliases u old new) (href : a <+: ref)
    (hdom : (old <+: f ∧ old <+: a) ∨ ¬ old <+: ref) :
    lookup u (replaceC f a old new).1 (replaceC f a old new).2 (renameRef old new ref) = lookup u f a ref := by
  obtain ⟨attrs, rfl⟩ := href
  rcases hdom with ⟨hf, ha⟩ | hnr
  · rw [C18_renames_together f a old new hf ha]
    obtain ⟨rf, rfl⟩ := hf
    obtain ⟨ra, rfl⟩ := ha
    have h1 : old.isPrefixOf (old ++ (ra ++ attrs)) = true := by
      rw [List.isPrefixOf_iff_prefix]; exact ⟨ra ++ attrs, rfl⟩
    have h2 : (new ++ ra).isPrefixOf (new ++ (ra ++ attrs)) = true := by
      rw [List.isPrefixOf_iff_prefix]; exact ⟨attrs, by simp⟩
    have h3 : (old ++ ra).isPrefixOf (old ++ (ra ++ attrs)) = true := by
      rw [List.isPrefixOf_iff_prefix]; exact ⟨attrs, by simp⟩
    simp only [lookup, renameRef, List.drop_left, List.append_assoc]
    simp only [h1, h3, if_true, h2]
    have e1 : List.drop (new ++ ra).length (new ++ (ra ++ attrs)) = attrs := by
      rw [← List.append_assoc, List.drop_left]
    have e2 : List.drop (old ++ ra).length (old ++ (ra ++ attrs)) = attrs := by
      rw [← List.append_assoc, List.drop_left]
    rw [e1, e2]
    exact hal (rf ++ attrs)
  · have hna : ¬ old <+: a := fun ⟨t, ht⟩ => hnr ⟨t ++ attrs, by simp [← ht]⟩
    have h1 : old.isPrefixOf (a ++ attrs) = false := by
      rw [Bool.eq_false_iff]; intro h; exact hnr (List.isPrefixOf_iff_prefix.mp h)
    rw [C18_keeps_local f a old new hna]
    simp only [renameRef, h1]
    by_cases hf : old <+: f
    · rw [(C18_exact f a old new).2.1 hf]
      obtain ⟨rf, rfl⟩ := hf
      have h3 : a.isPrefixOf (a ++ attrs) = true := by
        rw [List.isPrefixOf_iff_prefix]; exact ⟨attrs, rfl⟩
      simp only [lookup, h3, if_true, List.drop_left, List.append_assoc, Bool.false_eq_true, if_false]
      exact hal (rf ++ attrs)
    · rw [(C18_exact f a old new).2.2 hf]
      simp

/-- outside that domain the reference breaks (`import a` + `a.b.x` with `a.b -> n`; `from m import a` + `a.x`
    with `a -> n`): the renamed reference no longer goes through any local name. -/
theorem lookup_domain_witness :
    renameRef [['a'], ['b']] [['n']] [['a'], ['b'], ['x']] = [['n'], ['x']] ∧
    (replaceC [['a']] [['a']] [['a'], ['b']] [['n']]) = ([['a']], [['a']]) ∧
    ¬ [['a']] <+: [['n'], ['x']] ∧
    renameRef [['a']] [['n']] [['a'], ['x']] = [['n'], ['x']] ∧
    (replaceC [['m'], ['a']] [['a']] [['a']] [['n']]) = ([['m'], ['a']], [['a']]) := by decide

/-! ## 5. excluded regions on the unchanged code (known findings), proved on the model -/

/-- C18-D2: nested map `{qa.mod: zn.y, qa: zz}` in this order and `from qa.mod import value as qa`:
    the alias stays `qa` while the body's `qa` becomes `zz`. -/
theorem D2_witness :
    transformImport [(['q','a','.','m','o','d'], ['z','n','.','y']), (['q','a'], ['z','z'])]
        ⟨['q','a','.','m','o','d','.','v'], ['q','a']⟩ = ⟨['z','n','.','y','.','v'], ['q','a']⟩ ∧
    transformText false [(['q','a','.','m','o','d'], ['z','n','.','y']), (['q','a'], ['z','z'])]
        ['p','(','q','a',')'] = ['p','(','z','z',')'] := by decide

/-- C18-D3: `{qp.cc: zy.qp, qp: zy.yy}`: the import becomes `zy.qp.b2`, the body reference `zy.zy.yy.b2`;
    with the dot guard of fixes/C18-D3.diff import and body agree. -/
theorem D3_witness :
    transformImport [(['q','p','.','c','c'], ['z','y','.','q','p']), (['q','p'], ['z','y','.','y','y'])]
        ⟨['q','p','.','c','c','.','b','2'], ['q','p','.','c','c','.','b','2']⟩
      = ⟨['z','y','.','q','p','.','b','2'], ['z','y','.','q','p','.','b','2']⟩ ∧
    transformText false [(['q','p','.','c','c'], ['z','y','.','q','p']), (['q','p'], ['z','y','.','y','y'])]
        ['q','p','.','c','c','.','b','2','.','f'] = ['z','y','.','z','y','.','y','y','.','b','2','.','f'] ∧
    transformText true [(['q','p','.','c','c'], ['z','y','.','q','p']), (['q','p'], ['z','y','.','y','y'])]
        ['q','p','.','c','c','.','b','2','.','f'] = ['z','y','.','q','p','.','b','2','.','f'] := by decide

/-- C18-D3b: `import qa.qa` with `{qa: zn}`. -/
theorem D3b_witness :
    transformImport [(['q','a'], ['z','n'])] ⟨['q','a','.','q','a'], ['q','a','.','q','a']⟩
      = ⟨['z','n','.','q','a'], ['z','n','.','q','a']⟩ ∧
    transformText false [(['q','a'], ['z','n'])] ['q','a','.','q','a','.','f'] = ['z','n','.','z','n','.','f'] ∧
    transformText true [(['q','a'], ['z','n'])] ['q','a','.','q','a','.','f'] = ['z','n','.','q','a','.','f'] := by decide

/-- C18-D7: `import qa.b` + body `qa . b.f` with `{qa.b: zn}` (with and without the dot guard): the import
is renamed, the spaced reference is not; the unspaced one is. -/
theorem D7_witness :
    transformImport [(['q','a','.','b'], ['z','n'])] ⟨['q','a','.','b'], ['q','a','.','b']⟩
      = ⟨['z','n'], ['z','n']⟩ ∧
    transformText false [(['q','a','.','b'], ['z','n'])] ['q','a',' ','.',' ','b','.','f'] = ['q','a',' ','.',' ','b','.','f'] ∧
    transformText true [(['q','a','.','b'], ['z','n'])] ['q','a',' ','.',' ','b','.','f'] = ['q','a',' ','.',' ','b','.','f'] ∧
    transformText true [(['q','a','.','b'], ['z','n'])] ['q','a','.','b',' ','.',' ','f'] = ['z','n',' ','.',' ','f'] := by decide

end Pfb.C18
