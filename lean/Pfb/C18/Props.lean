import Pfb.C18.Model
