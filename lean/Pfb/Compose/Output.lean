/-
  Pfb.Compose.Output — the rewriters' output *text*: block structure (Pfb.Blocks)
  rendered with the import formatter (Pfb.C11), i.e.
  `SourceToSourceFileImportsTransformation.pretty_print` =
  `FileText.concatenate([block.pretty_print(params) for block in blocks])`.

  With this the correspondence check compares the model's full output text with
  the implementation's, and C01 can be stated at the level of characters:
  the texts of the input's non-import statements occur in the output, in order,
  untouched (`C01_output_embeds`), and everything between them is produced by
  the import formatter or is one of the tool's own "\n" separators.
-/
import Pfb.Blocks.Lemmas
import Pfb.C01.Props
import Pfb.C11.Model
namespace Pfb.Compose
open Pfb Pfb.Blocks

def toC11 (i : Blocks.Imp) : C11.Imp := ⟨i.fullname, i.importAs⟩

/-- `block.pretty_print(params)` -/
def renderBlock (st : St) (p : C11.Params) : Block → Except C11.Err Str
  | .verbatim ss _ => .ok (stmtsText ss)
  | .imports id _ _ _ _ set =>
    match C11.pretty (set.map toC11) p with
    | .ok t => if t = [] ∧ id ∈ st.nlIfEmpty then .ok ['\n'] else .ok t
    | .error e => .error e

def renderBlocks (st : St) (p : C11.Params) : List Block → Except C11.Err (List Str)
  | [] => .ok []
  | b :: bs =>
    match renderBlock st p b with
    | .error e => .error e
    | .ok t =>
      match renderBlocks st p bs with
      | .error e => .error e
      | .ok ts => .ok (t :: ts)

/-- the tool's output text -/
def output (st : St) (p : C11.Params) : Except C11.Err Str :=
  match renderBlocks st p st.blocks with
  | .ok ts => .ok ts.flatten
  | .error e => .error e

/-- `ts` occur in `s` in this order as disjoint substrings -/
inductive Embeds : List Str → Str → Prop
  | nil (s : Str) : Embeds [] s
  | cons (t : Str) (ts : List Str) (pre rest : Str) : Embeds ts rest → Embeds (t :: ts) (pre ++ t ++ rest)

theorem Embeds.prepend (ts : List Str) (s pre : Str) (h : Embeds ts s) : Embeds ts (pre ++ s) := by
  cases h with
  | nil => exact .nil _
  | cons t ts' p rest hr =>
    have : pre ++ (p ++ t ++ rest) = (pre ++ p) ++ t ++ rest := by simp
    rw [this]; exact .cons t ts' (pre ++ p) rest hr

theorem Embeds.single (t : Str) : Embeds [t] t := by
  have := Embeds.cons t [] [] [] (.nil [])
  simpa using this

/-- a statement list's texts are embedded in their own concatenation followed by anything -/
theorem embeds_stmts (ss : List Stmt) (rest : Str) (ts : List Str) (h : Embeds ts rest) :
    Embeds (ss.map (·.text) ++ ts) (stmtsText ss ++ rest) := by
  induction ss with
  | nil => simpa [stmtsText] using h
  | cons s ss ih =>
    have : stmtsText (s :: ss) ++ rest = [] ++ s.text ++ (stmtsText ss ++ rest) := by
      simp [stmtsText]
    rw [this]
    exact .cons s.text _ [] _ ih

theorem renderBlocks_embeds (st : St) (p : C11.Params) (bs : List Block) (ts : List Str)
    (h : renderBlocks st p bs = .ok ts) :
    Embeds ((origStmts bs).map (·.text)) ts.flatten := by
  induction bs generalizing ts with
  | nil => simp [renderBlocks] at h; subst h; exact .nil _
  | cons b bs ih =>
    unfold renderBlocks at h
    split at h
    · cases h
    · rename_i t ht
      split at h
      · cases h
      · rename_i ts' hts
        cases h
        have ih' := ih ts' hts
        cases b with
        | verbatim ss ins =>
          simp only [renderBlock] at ht
          cases ht
          cases ins with
          | false =>
            simp only [origStmts, List.map_append, List.flatten_cons]
            exact embeds_stmts ss _ _ ih'
          | true =>
            simp only [origStmts, List.flatten_cons]
            exact Embeds.prepend _ _ _ ih'
        | imports id s l e bl set =>
          simp only [origStmts, List.flatten_cons]
          exact Embeds.prepend _ _ _ ih'

/-- **C01_output_embeds** — character-level frame property of tidy-imports: for
    every input, scan result, database, flag triple and formatting configuration,
    if the tool produces output text at all, the texts of the input's non-import
    statements occur in it untouched and in their original order. -/
theorem C01_output_embeds (ss : List Stmt) (scan : Scan) (known mandatory : List Blocks.Imp) (fl : Flags)
    (p : C11.Params) (st : St) (out : Str)
    (h : fixStage2 ss scan known mandatory fl = .ok st) (ho : output st p = .ok out) :
    Embeds ((ss.filter (fun s => !s.isImport)).map (·.text)) out := by
  unfold output at ho
  split at ho
  · rename_i ts hts
    cases ho
    have := renderBlocks_embeds st p st.blocks ts hts
    rwa [C01.C01_frame_tidy ss scan known mandatory fl st h] at this
  · cases ho

/-- the same for reformat-imports -/
theorem C01_output_embeds_reformat (ss : List Stmt) (p : C11.Params) (out : Str)
    (ho : output (reformat ss) p = .ok out) :
    Embeds ((ss.filter (fun s => !s.isImport)).map (·.text)) out := by
  unfold output at ho
  split at ho
  · rename_i ts hts
    cases ho
    have := renderBlocks_embeds _ p _ ts hts
    rwa [C01.C01_frame_reformat ss] at this
  · cases ho

end Pfb.Compose
