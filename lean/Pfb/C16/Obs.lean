/-
  Pfb.C16.Obs — observational equality of the reloaded namespace with the fresh import (`C16_obs_partial`).

  `obsEq h1 h2 n a b` : the objects `a` (in heap `h1`) and `b` (in `h2`) have equal observations up to depth `n` (atoms:
  type and value; dicts: same keys, pointwise; functions: name, code, defaults, doc, free variables, `__dict__`, cells;
  classes: name, slots, bases, attribute table; …).  `ObsEq` = for every depth (bisimilarity; no acyclicity needed).

  Proved about the model's own `lp` / `xreload` (Model.lean), for every fuel and every combination of repairs:
    lp_atomOld      livepatch(atom, x) writes nothing and returns x
    lp_dict_obs     a dict of atoms is patched in place into a dict ObsEq to the new one      (functional: lp_dictAtoms)
    lp_func_obs     a flat function: result ObsEq to the new function; identity kept when      (functional: lp_flatFunc)
                    `patchable` and `funcCompat` hold; only the function, its dict, its cells are written
    C16_obs_partial a successful xreload of a `flatModule`: the old namespace binds the scratch namespace's names
                    (+ `__loadtime__`) to objects ObsEq to the fresh ones
  The invariants are a footprint (`∀ j ∉ F, heap'[j]? = heap[j]?`) and a cache invariant (`CacheOK`), which is what the
  frame theorem `lp_frame` of Lemmas.lean does not give.
-/
import Pfb.C16.Props
namespace Pfb.C16
open Pfb

/-! ## Observational equality -/

/-- two association lists have the same keys and pointwise related values -/
def obsTable (f : Id → Id → Bool) (e e' : List (Str × Id)) : Bool :=
  (akeys e ++ akeys e').all (fun k =>
    match alookup k e, alookup k e' with
    | some x, some y => f x y
    | none, none => true
    | _, _ => false)

def obsList (f : Id → Id → Bool) : List Id → List Id → Bool
  | [], [] => true
  | a :: as, b :: bs => f a b && obsList f as bs
  | _, _ => false

def obsOpt (f : Id → Id → Bool) : Option Id → Option Id → Bool
  | none, none => true
  | some a, some b => f a b
  | _, _ => false

/-- equality of the observations of depth `< n` -/
def obsEq (h1 h2 : List Obj) : Nat → Id → Id → Bool
  | 0, _, _ => true
  | n + 1, a, b =>
    match h1[a]?, h2[b]? with
    | some (.atom t v), some (.atom t' v') => t == t' && v == v'
    | some (.dict e), some (.dict e') => obsTable (obsEq h1 h2 n) e e'
    | some (.func nm _ c d dc di ce fv), some (.func nm' _ c' d' dc' di' ce' fv') =>
      nm == nm' && c == c' && d == d' && dc == dc' && fv == fv' && obsEq h1 h2 n di di' && obsList (obsEq h1 h2 n) ce ce'
    | some (.cell x), some (.cell y) => obsEq h1 h2 n x y
    | some (.cls nm _ sl bs ats), some (.cls nm' _ sl' bs' ats') =>
      nm == nm' && sl == sl' && obsList (obsEq h1 h2 n) bs bs' && obsTable (obsEq h1 h2 n) ats ats'
    | some (.inst c d sl), some (.inst c' d' sl') =>
      obsEq h1 h2 n c c' && obsOpt (obsEq h1 h2 n) d d' && obsTable (obsEq h1 h2 n) sl sl'
    | some (.meth f s), some (.meth f' s') => obsEq h1 h2 n f f' && obsEq h1 h2 n s s'
    | some (.smeth f), some (.smeth f') => obsEq h1 h2 n f f'
    | some (.cmeth f), some (.cmeth f') => obsEq h1 h2 n f f'
    | some (.module d), some (.module d') => obsEq h1 h2 n d d'
    | none, none => true
    | _, _ => false

def ObsEq (h1 : List Obj) (a : Id) (h2 : List Obj) (b : Id) : Prop := ∀ n, obsEq h1 h2 n a b = true

theorem obsList_refl {f : Id → Id → Bool} (hf : ∀ x, f x x = true) : ∀ l, obsList f l l = true
  | [] => rfl
  | a :: r => by simp [obsList, hf a, obsList_refl hf r]

theorem obsTable_of_lookup_eq {f : Id → Id → Bool} (hf : ∀ x, f x x = true) {e e' : List (Str × Id)}
    (h : ∀ k, alookup k e = alookup k e') : obsTable f e e' = true := by
  unfold obsTable
  rw [List.all_eq_true]
  intro k _
  rw [h k]
  cases alookup k e' with
  | none => rfl
  | some x => exact hf x

theorem obsEq_refl (h : List Obj) : ∀ n a, obsEq h h n a a = true := by
  intro n
  induction n with
  | zero => intro a; rfl
  | succ n ih =>
    intro a
    unfold obsEq
    cases ha : h[a]? with
    | none => rfl
    | some o =>
      cases o with
      | atom t v => simp
      | dict e => exact obsTable_of_lookup_eq ih (fun _ => rfl)
      | func nm m c d dc di ce fv => simp [ih, obsList_refl ih]
      | cell x => exact ih x
      | cls nm m sl bs ats => simp [obsList_refl ih, obsTable_of_lookup_eq ih (fun _ => rfl)]
      | inst c d sl =>
        simp only [ih, Bool.true_and, obsTable_of_lookup_eq ih (fun _ => rfl), Bool.and_true]
        cases d with
        | none => rfl
        | some x => exact ih x
      | meth f s => simp [ih]
      | smeth f => exact ih f
      | cmeth f => exact ih f
      | module d => exact ih d

theorem ObsEq.refl (h : List Obj) (a : Id) : ObsEq h a h a := fun n => obsEq_refl h n a


/-! ## basic facts about `lp` -/

def isAtomAt (h : List Obj) (i : Id) : Bool := match h[i]? with | some (.atom ..) => true | _ => false

theorem isAtomAt_iff {h : List Obj} {i : Id} : isAtomAt h i = true ↔ ∃ t v, h[i]? = some (.atom t v) := by
  unfold isAtomAt
  constructor
  · intro hh; split at hh
    · rename_i t v he; exact ⟨t, v, he⟩
    · cases hh
  · rintro ⟨t, v, he⟩; rw [he]

theorem lp_same {cx : Ctx} {fuel : Nat} {am : Bool} {vs : List Id} {a : Id} {s s' : St} {r : Id}
    (h : lp cx fuel am vs a a s = .ok (r, s')) : r = a ∧ s' = s := by
  cases fuel with
  | zero => unfold lp at h; exact (fail_ok.mp h).elim
  | succ n =>
    unfold lp at h
    simp only [if_true, pure_eq] at h
    exact pure_ok.mp h

theorem cacheGet_ok {k : Id × Id} {s s1 : St} {c : Option Id} (h : cacheGet k s = .ok (c, s1)) :
    s1 = s ∧ c = (s.cache.find? (fun e => e.1 = k)).map (·.2) := by
  unfold cacheGet at h; cases h; exact ⟨rfl, rfl⟩

/-- every cache entry either belongs to an object already written (`W`) or says "an atom is replaced by the new object" -/
def CacheOK (h0 : List Obj) (W : List Id) (s : St) : Prop :=
  ∀ e ∈ s.cache, e.1.1 ∈ W ∨ (isAtomAt h0 e.1.1 = true ∧ e.2 = e.1.2)

theorem CacheOK.mono {h0 : List Obj} {W W' : List Id} {s : St} (sub : ∀ i, i ∈ W → i ∈ W') (h : CacheOK h0 W s) :
    CacheOK h0 W' s := fun e he => (h e he).imp (sub _) id

theorem CacheOK.hit {h0 : List Obj} {W : List Id} {s : St} {k : Id × Id} {r : Id} (h : CacheOK h0 W s)
    (hk : (s.cache.find? (fun e => e.1 = k)).map (·.2) = some r) (hW : k.1 ∉ W) : r = k.2 := by
  cases hf : s.cache.find? (fun e => e.1 = k) with
  | none => rw [hf] at hk; cases hk
  | some e =>
    rw [hf] at hk; simp at hk
    have hm := List.mem_of_find?_eq_some hf
    have hp := List.find?_some hf
    simp at hp
    rcases h e hm with h1 | h1
    · rw [hp] at h1; exact (hW h1).elim
    · rw [← hk, h1.2, hp]

theorem typeClassOf_nil {o : Obj} {i : Id} (hk : o.kind ≠ .inst) : typeClassOf [] o i = none := by
  cases o <;> simp [typeClassOf, dynOf, Obj.kind] at hk ⊢

theorem resolveKind_atomOld {cx : Ctx} {rec : Rec} {vs : List Id} {o nw : Id} {s : St} {t v : Str} {x : Obj}
    (hdyn : cx.dyn = []) (ho : s.heap[o]? = some (.atom t v)) (hn : s.heap[nw]? = some x) :
    ∃ k, resolveKind cx rec vs o nw false s = .ok (k, s) ∧ (k = none ∨ k = some .atom) := by
  unfold resolveKind
  simp only [bind_eq, pure_eq, M.bind, getObj_eq ho, getObj_eq hn, getSt, hdyn]
  split
  · exact ⟨none, rfl, Or.inl rfl⟩
  · split
    · exact ⟨none, rfl, Or.inl rfl⟩
    · simp only [Bool.false_eq_true, if_false]
      split
      · exact ⟨_, rfl, Or.inr rfl⟩
      · rw [typeClassOf_nil (by simp [Obj.kind])]
        exact ⟨none, rfl, Or.inl rfl⟩


theorem resolveKind_new_exists {cx : Ctx} {rec : Rec} {vs : List Id} {o nw : Id} {am : Bool} {s s' : St} {k : Option Kind}
    (h : resolveKind cx rec vs o nw am s = .ok (k, s')) : ∃ x, s.heap[nw]? = some x := by
  unfold resolveKind at h
  simp only [bind_eq] at h
  obtain ⟨a, s1, h1, h2⟩ := bind_ok.mp h
  obtain ⟨rfl, _⟩ := getObj_ok h1
  obtain ⟨b, s2, h3, _⟩ := bind_ok.mp h2
  obtain ⟨rfl, hb⟩ := getObj_ok h3
  exact ⟨b, hb⟩

/-- `livepatch(old, new)` where `old` is an atom (an object whose type the module does not define): nothing is written
    and the result is the new object. -/
theorem lp_atomOld {cx : Ctx} {fuel : Nat} {vs : List Id} {o nw : Id} {s s' : St} {r : Id} {t v : Str}
    {h0 : List Obj} {W : List Id} (hdyn : cx.dyn = []) (ho : s.heap[o]? = some (.atom t v))
    (hA : isAtomAt h0 o = true) (hvs : o ∉ vs) (hW : o ∉ W) (hc : CacheOK h0 W s)
    (h : lp cx fuel false vs o nw s = .ok (r, s')) : r = nw ∧ s'.heap = s.heap ∧ CacheOK h0 W s' := by
  by_cases hne : o = nw
  · subst hne
    obtain ⟨rfl, rfl⟩ := lp_same h
    exact ⟨rfl, rfl, hc⟩
  cases fuel with
  | zero => unfold lp at h; exact (fail_ok.mp h).elim
  | succ n =>
    unfold lp at h
    have hc' : vs.contains o = false := by simpa using hvs
    simp only [hne, if_false, hc', bind_eq, pure_eq, Bool.false_eq_true] at h
    obtain ⟨c0, s1, h1, h2⟩ := bind_ok.mp h
    obtain ⟨rfl, hc0⟩ := cacheGet_ok h1
    cases c0 with
    | some r' =>
      simp only at h2
      obtain ⟨rfl, rfl⟩ := pure_ok.mp h2
      exact ⟨hc.hit hc0.symm hW, rfl, hc⟩
    | none =>
      simp only at h2
      obtain ⟨r1, s2, h3, h4⟩ := bind_ok.mp h2
      obtain ⟨u, s3, h5, h6⟩ := bind_ok.mp h4
      obtain ⟨hr, hs⟩ := pure_ok.mp h6
      subst hs hr
      unfold cachePut at h5
      cases h5
      unfold dispatch at h3
      simp only [bind_eq, pure_eq] at h3
      obtain ⟨kd, s4, h7, h8⟩ := bind_ok.mp h3
      obtain ⟨x, hx⟩ := resolveKind_new_exists h7
      · obtain ⟨k, hk, hk'⟩ := resolveKind_atomOld (rec := lp cx n false) (vs := vs ++ [o]) hdyn ho hx
        rw [hk] at h7; cases h7
        have hres : r = nw ∧ s2 = s1 := by
          rcases hk' with rfl | rfl
          · simp only at h8; exact pure_ok.mp h8
          · simp only at h8
            unfold lpObject at h8
            simp only [bind_eq, pure_eq] at h8
            obtain ⟨oo, s5, h9, h10⟩ := bind_ok.mp h8
            rw [getObj_eq ho] at h9; cases h9
            simp only at h10
            exact pure_ok.mp h10
        obtain ⟨rfl, rfl⟩ := hres
        refine ⟨rfl, rfl, ?_⟩
        intro e he
        simp only [List.mem_cons] at he
        rcases he with rfl | he
        · exact Or.inr ⟨hA, rfl⟩
        · exact hc e he


/-! ## association lists after the two set-difference loops -/

theorem alookup_foldl_aset (k : Str) (g : Str → Id) (ks : List Str) (e : List (Str × Id)) :
    alookup k (ks.foldl (fun e x => aset x (g x) e) e) = if k ∈ ks then some (g k) else alookup k e := by
  induction ks generalizing e with
  | nil => simp
  | cons a r ih =>
    simp only [List.foldl_cons]
    rw [ih, alookup_aset]
    by_cases h1 : k ∈ r
    · simp [h1]
    · by_cases h2 : a = k
      · subst h2; simp [h1]
      · simp [h1, h2, Ne.symm h2]

theorem alookup_foldl_adel (k : Str) (ks : List Str) (e : List (Str × Id)) :
    alookup k (ks.foldl (fun e x => adel x e) e) = if k ∈ ks then none else alookup k e := by
  induction ks generalizing e with
  | nil => simp
  | cons a r ih =>
    simp only [List.foldl_cons]
    rw [ih, alookup_adel]
    by_cases h1 : k ∈ r
    · simp [h1]
    · by_cases h2 : a = k
      · subst h2; simp [h1]
      · simp [h1, h2, Ne.symm h2]

theorem alookup_none_of_hasKey {k : Str} {e : List (Str × Id)} (h : hasKey k e = false) : alookup k e = none := by
  unfold hasKey at h; cases hh : alookup k e with
  | none => rfl
  | some v => rw [hh] at h; cases h

/-- the entries of the old dict after "add the new names" and "delete the removed names" -/
theorem alookup_sync (k : Str) (eo en : List (Str × Id)) :
    alookup k (((akeys eo).filter (fun k => !hasKey k en)).foldl (fun e x => adel x e)
      (((akeys en).filter (fun k => !hasKey k eo)).foldl (fun e x => aset x ((alookup x en).getD 0) e) eo))
      = if hasKey k en then (if hasKey k eo then alookup k eo else alookup k en) else none := by
  rw [alookup_foldl_adel, alookup_foldl_aset (g := fun x => (alookup x en).getD 0)]
  by_cases a : hasKey k en = true <;> by_cases b : hasKey k eo = true
  · simp [List.mem_filter, mem_akeys, a, b]
  · have b' : hasKey k eo = false := by simpa using b
    simp only [List.mem_filter, mem_akeys, a, b', Bool.not_true, Bool.false_eq_true, and_false, if_false,
      Bool.not_false, and_self, if_true]
    unfold hasKey at a
    cases hh : alookup k en with
    | none => rw [hh] at a; cases a
    | some v => rfl
  · have a' : hasKey k en = false := by simpa using a
    simp [List.mem_filter, mem_akeys, a', b]
  · have a' : hasKey k en = false := by simpa using a
    have b' : hasKey k eo = false := by simpa using b
    simp [List.mem_filter, mem_akeys, a', b', alookup_none_of_hasKey b']

/-! ## characterisation of the dict handler -/

theorem forEach_inv_list {f : α → M Unit} (P : List α → St → Prop)
    (hstep : ∀ x L s s', P (x :: L) s → f x s = .ok ((), s') → P L s') :
    ∀ (L : List α) (s s' : St), P L s → forEach f L s = .ok ((), s') → P [] s' := by
  intro L
  induction L with
  | nil =>
    intro s s' hp h
    unfold forEach at h
    obtain ⟨_, rfl⟩ := pure_ok.mp h
    exact hp
  | cons x xs ih =>
    intro s s' hp h
    unfold forEach at h
    simp only [bind_eq] at h
    obtain ⟨u, s1, h1, h2⟩ := bind_ok.mp h
    exact ih s1 s' (hstep x xs s s1 hp h1) h2

theorem forEach_updDict_cache (old : Id) (g : Str → List (Str × Id) → List (Str × Id)) :
    ∀ (ks : List Str) (s s' : St), forEach (fun k => updDict old (g k)) ks s = .ok ((), s') → s'.cache = s.cache := by
  intro ks
  induction ks with
  | nil =>
    intro s s' h
    unfold forEach at h
    obtain ⟨_, rfl⟩ := pure_ok.mp h
    rfl
  | cons k ks ih =>
    intro s s' h
    unfold forEach at h
    simp only [bind_eq] at h
    obtain ⟨u, s1, h1, h2⟩ := bind_ok.mp h
    obtain ⟨e', _, rfl⟩ := updDict_ok h1
    exact (ih _ _ h2).trans rfl

theorem lpDictStep_ok {rec : Rec} {vs : List Id} {d nd : Id} {x : Str} {s s' : St}
    (h : lpDictStep rec vs d nd x s = .ok ((), s')) :
    ∃ e en ov nv r s1, s.heap[d]? = some (.dict e) ∧ s.heap[nd]? = some (.dict en) ∧ alookup x e = some ov ∧
      alookup x en = some nv ∧ rec vs ov nv s = .ok (r, s1) ∧
      ((r = ov ∧ s' = s1) ∨
       (r ≠ ov ∧ ∃ e1, s1.heap[d]? = some (.dict e1) ∧ s' = { s1 with heap := s1.heap.set d (.dict (aset x r e1)) })) := by
  unfold lpDictStep at h
  simp only [bind_eq, pure_eq] at h
  obtain ⟨o, s1, h1, h2⟩ := bind_ok.mp h
  obtain ⟨rfl, ho⟩ := getObj_ok h1
  obtain ⟨n, s2, h3, h4⟩ := bind_ok.mp h2
  obtain ⟨rfl, hn⟩ := getObj_ok h3
  cases o with
  | dict e =>
    cases n with
    | dict en =>
      simp only at h4
      cases hov : alookup x e with
      | none => simp only [hov] at h4; exact (fail_ok.mp h4).elim
      | some ov =>
        cases hnv : alookup x en with
        | none => simp only [hov, hnv] at h4; exact (fail_ok.mp h4).elim
        | some nv =>
          simp only [hov, hnv] at h4
          obtain ⟨r, s3, h5, h6⟩ := bind_ok.mp h4
          refine ⟨e, en, ov, nv, r, s3, ho, hn, hov, hnv, h5, ?_⟩
          split at h6
          · rename_i hr
            obtain ⟨_, rfl⟩ := pure_ok.mp h6
            exact Or.inl ⟨hr, rfl⟩
          · rename_i hr
            obtain ⟨e1, he1, rfl⟩ := updDict_ok h6
            exact Or.inr ⟨hr, e1, he1, rfl⟩
    | _ => exact (fail_ok.mp h4).elim
  | _ => exact (fail_ok.mp h4).elim

/-- the names `_livepatch__dict` recurses on -/
def commonKeys (eo en : List (Str × Id)) : List Str :=
  sortStrs ((akeys eo).filter (fun k => hasKey k en)).eraseDups

theorem mem_commonKeys {k : Str} {eo en : List (Str × Id)} :
    k ∈ commonKeys eo en ↔ hasKey k eo = true ∧ hasKey k en = true := by
  unfold commonKeys
  rw [mem_sortStrs, List.mem_eraseDups, List.mem_filter, mem_akeys]

theorem lpDict_ok {rec : Rec} {vs : List Id} {d nd : Id} {s s' : St} {r : Id} {eo en : List (Str × Id)}
    (hd : s.heap[d]? = some (.dict eo)) (hn : s.heap[nd]? = some (.dict en))
    (h : lpDict rec vs d nd s = .ok (r, s')) :
    r = d ∧ ∃ s2 e2, s2.cache = s.cache ∧ s2.heap[d]? = some (.dict e2) ∧ (∀ j, j ≠ d → s2.heap[j]? = s.heap[j]?) ∧
      (∀ k, alookup k e2 = if hasKey k en then (if hasKey k eo then alookup k eo else alookup k en) else none) ∧
      forEach (lpDictStep rec vs d nd) (commonKeys eo en) s2 = .ok ((), s') := by
  unfold lpDict at h
  simp only [bind_eq, pure_eq] at h
  obtain ⟨o, s1, h1, h2⟩ := bind_ok.mp h
  rw [getObj_eq hd] at h1; cases h1
  obtain ⟨n, s2, h3, h4⟩ := bind_ok.mp h2
  rw [getObj_eq hn] at h3; cases h3
  simp only at h4
  obtain ⟨u1, s3, h5, h6⟩ := bind_ok.mp h4
  obtain ⟨u2, s4, h7, h8⟩ := bind_ok.mp h6
  obtain ⟨u3, s5, h9, h10⟩ := bind_ok.mp h8
  obtain ⟨hr, hs⟩ := pure_ok.mp h10
  subst hs
  have p1 := forEach_updDict d (fun k => aset k ((alookup k en).getD 0)) _ s eo hd s3 h5
  have p2 := forEach_updDict d (fun k => adel k) _ s3 _ p1.1 s4 h7
  refine ⟨hr, s4, _, ?_, p2.1, ?_, ?_, h9⟩
  · rw [forEach_updDict_cache _ _ _ _ _ h7, forEach_updDict_cache _ _ _ _ _ h5]
  · intro j hj
    rw [p2.2 j hj, p1.2 j hj]
  · intro k
    exact alookup_sync k eo en


/-! ## `livepatch` of a dict whose values are atoms -/

theorem lp_run {cx : Ctx} {fuel : Nat} {am : Bool} {vs : List Id} {o nw : Id} {s s' : St} {r : Id}
    (hne : o ≠ nw) (hvs : o ∉ vs) (hmiss : s.cache.find? (fun e => e.1 = (o, nw)) = none)
    (h : lp cx fuel am vs o nw s = .ok (r, s')) :
    ∃ n s2, fuel = n + 1 ∧ dispatch cx (lp cx n false) (vs ++ [o]) o nw am s = .ok (r, s2) ∧
      s' = { s2 with cache := ((o, nw), r) :: s2.cache } := by
  cases fuel with
  | zero => unfold lp at h; exact (fail_ok.mp h).elim
  | succ n =>
    unfold lp at h
    have hc' : vs.contains o = false := by simpa using hvs
    simp only [hne, if_false, hc', bind_eq, pure_eq, Bool.false_eq_true] at h
    obtain ⟨c0, s1, h1, h2⟩ := bind_ok.mp h
    rw [cacheGet_miss hmiss] at h1
    cases h1
    simp only at h2
    obtain ⟨r1, s2, h3, h4⟩ := bind_ok.mp h2
    obtain ⟨u, s3, h5, h6⟩ := bind_ok.mp h4
    obtain ⟨hr, hs⟩ := pure_ok.mp h6
    subst hs hr
    unfold cachePut at h5
    cases h5
    exact ⟨n, s2, rfl, h3, rfl⟩

theorem CacheOK.miss {h0 : List Obj} {W : List Id} {s : St} {o nw : Id} (h : CacheOK h0 W s) (hW : o ∉ W)
    (hA : isAtomAt h0 o = false) : s.cache.find? (fun e => e.1 = (o, nw)) = none := by
  cases hf : s.cache.find? (fun e => e.1 = (o, nw)) with
  | none => rfl
  | some e =>
    have hm := List.mem_of_find?_eq_some hf
    have hp := List.find?_some hf
    simp at hp
    rcases h e hm with h1 | h1
    · rw [hp] at h1; exact (hW h1).elim
    · rw [hp] at h1; simp only at h1; rw [hA] at h1; cases h1.1

/-- the atoms of the initial heap are still there -/
def AtomsKept (h0 h : List Obj) : Prop := ∀ (j : Id) (t v : Str), h0[j]? = some (Obj.atom t v) → h[j]? = some (Obj.atom t v)

theorem AtomsKept.frame {h0 h h' : List Obj} {F : List Id} (hk : AtomsKept h0 h)
    (hF : ∀ j, j ∈ F → isAtomAt h0 j = false) (hfr : ∀ j, j ∉ F → h'[j]? = h[j]?) : AtomsKept h0 h' := by
  intro j t v hj
  have : j ∉ F := by
    intro hjF
    have := hF j hjF
    unfold isAtomAt at this; rw [hj] at this; cases this
  rw [hfr j this]; exact hk j t v hj

theorem AtomsKept.notAtom {h0 h : List Obj} (hk : AtomsKept h0 h) {j : Id} {o : Obj} (hj : h[j]? = some o)
    (hna : o.kind ≠ .atom) : isAtomAt h0 j = false := by
  cases hh : isAtomAt h0 j with
  | false => rfl
  | true =>
    obtain ⟨t, v, he⟩ := isAtomAt_iff.mp hh
    rw [hk j t v he] at hj; cases hj
    exact (hna rfl).elim

theorem dynOf_nil (i : Id) : dynOf [] i = none := rfl

/-- **lp_dict_obs** (functional form).  `livepatch(old_dict, new_dict)` where every value of the old dict is an atom,
    not cut short: the old dict is returned; when the call returns it maps every key to exactly the object the new
    dict maps it to; no other object has been written; the cache invariant is kept. -/
theorem lp_dictAtoms {cx : Ctx} {fuel : Nat} {vs : List Id} {d nd : Id} {s s' : St} {r : Id}
    {ed en : List (Str × Id)} {h0 : List Obj} {W : List Id}
    (hdyn : cx.dyn = []) (hAK : AtomsKept h0 s.heap)
    (hWA : ∀ j, j ∈ W → isAtomAt h0 j = false) (hvsA : ∀ j, j ∈ vs → isAtomAt h0 j = false)
    (hd : s.heap[d]? = some (.dict ed)) (hn : s.heap[nd]? = some (.dict en))
    (hne : d ≠ nd) (hvs : d ∉ vs) (hdW : d ∉ W) (hc : CacheOK h0 W s)
    (hat : ∀ k a, alookup k ed = some a → isAtomAt h0 a = true)
    (h : lp cx fuel false vs d nd s = .ok (r, s')) :
    r = d ∧ (∃ e', s'.heap[d]? = some (.dict e') ∧ ∀ k, alookup k e' = alookup k en) ∧
      (∀ j, j ≠ d → s'.heap[j]? = s.heap[j]?) ∧ CacheOK h0 (d :: W) s' := by
  have hdA : isAtomAt h0 d = false := hAK.notAtom hd (by simp [Obj.kind])
  obtain ⟨n, s2, rfl, hdisp, rfl⟩ := lp_run hne hvs (hc.miss hdW hdA) h
  unfold dispatch at hdisp
  simp only [bind_eq, pure_eq] at hdisp
  obtain ⟨k, s4, h7, h8⟩ := bind_ok.mp hdisp
  rw [resolveKind_dict hd hn (by rw [hdyn]; rfl)] at h7
  cases h7
  simp only at h8
  obtain ⟨hr, s3, e3, hc3, hd3, hfr3, he3, hloop⟩ := lpDict_ok hd hn h8
  -- the loop over the common names
  let P : List Str → St → Prop := fun L t =>
    t.heap[nd]? = some (.dict en) ∧ (∀ j, j ≠ d → t.heap[j]? = s.heap[j]?) ∧ CacheOK h0 W t ∧
    ∃ e, t.heap[d]? = some (.dict e) ∧
      ∀ k, alookup k e = alookup k en ∨ (k ∈ L ∧ ∃ a, alookup k e = some a ∧ isAtomAt h0 a = true)
  have hP0 : P (commonKeys ed en) s3 := by
    refine ⟨by rw [hfr3 nd (Ne.symm hne)]; exact hn, hfr3, fun e he => hc e (by rw [← hc3]; exact he), e3, hd3, fun k => ?_⟩
    rw [he3 k]
    by_cases a : hasKey k en = true
    · by_cases b : hasKey k ed = true
      · simp only [a, b, if_true]
        right
        refine ⟨mem_commonKeys.mpr ⟨b, a⟩, ?_⟩
        unfold hasKey at b
        cases hh : alookup k ed with
        | none => rw [hh] at b; cases b
        | some v => exact ⟨v, rfl, hat k v hh⟩
      · left; simp [a, b]
    · left
      have a' : hasKey k en = false := by simpa using a
      simp [a', alookup_none_of_hasKey a']
  have hstep : ∀ x L t t', P (x :: L) t → lpDictStep (lp cx n false) (vs ++ [d]) d nd x t = .ok ((), t') → P L t' := by
    intro x L t t' ⟨pn, pfr, pc, e, pe, pk⟩ hst
    obtain ⟨e', en', ov, nv, r1, t1, qe, qn, qov, qnv, qrec, qfin⟩ := lpDictStep_ok hst
    rw [pe] at qe; cases qe
    rw [pn] at qn; cases qn
    have hAKt : AtomsKept h0 t.heap :=
      hAK.frame (F := [d]) (by intro j hj; simp at hj; subst hj; exact hdA) (by intro j hj; exact pfr j (by simpa using hj))
    -- what the recursive call did
    have hrec : r1 = nv ∧ t1.heap = t.heap ∧ CacheOK h0 W t1 := by
      rcases pk x with hx | ⟨_, a, ha, haA⟩
      · rw [qov, qnv] at hx; cases hx
        obtain ⟨rfl, rfl⟩ := lp_same qrec
        exact ⟨rfl, rfl, pc⟩
      · rw [qov] at ha; cases ha
        obtain ⟨t0, v0, hov0⟩ := isAtomAt_iff.mp haA
        have hovs : ov ∉ vs ++ [d] := by
          intro hm
          rcases List.mem_append.mp hm with hm | hm
          · rw [hvsA ov hm] at haA; cases haA
          · simp at hm; subst hm; rw [hdA] at haA; cases haA
        have hoW : ov ∉ W := by
          intro hm; rw [hWA ov hm] at haA; cases haA
        exact lp_atomOld hdyn (hAKt ov t0 v0 hov0) haA hovs hoW pc qrec
    obtain ⟨rfl, ht1, pc1⟩ := hrec
    have keyUpd : ∀ k, (alookup k (aset x r1 e) = alookup k en) ∨ (k ∈ L ∧ ∃ a, alookup k (aset x r1 e) = some a ∧ isAtomAt h0 a = true) := by
      intro k
      rw [alookup_aset]
      by_cases hxk : x = k
      · subst hxk; left; simp [qnv]
      · simp only [hxk, if_false]
        rcases pk k with hk | ⟨hkL, hk⟩
        · exact Or.inl hk
        · right
          refine ⟨?_, hk⟩
          simp only [List.mem_cons] at hkL
          rcases hkL with rfl | hkL
          · exact (hxk rfl).elim
          · exact hkL
    rcases qfin with ⟨hro, rfl⟩ | ⟨hro, e1, he1, rfl⟩
    · refine ⟨by rw [ht1]; exact pn, by rw [ht1]; exact pfr, pc1, e, by rw [ht1]; exact pe, fun k => ?_⟩
      have := keyUpd k
      rw [alookup_aset] at this
      by_cases hxk : x = k
      · subst hxk; left; rw [qov, qnv, hro]
      · simpa [hxk] using this
    · rw [ht1, pe] at he1; cases he1
      refine ⟨?_, ?_, pc1, aset x r1 e, ?_, keyUpd⟩
      · show (t1.heap.set d _)[nd]? = _
        rw [List.getElem?_set_ne hne, ht1]; exact pn
      · intro j hj
        show (t1.heap.set d _)[j]? = _
        rw [List.getElem?_set_ne (Ne.symm hj), ht1]; exact pfr j hj
      · show (t1.heap.set d _)[d]? = _
        exact getElem?_set_self' (by rw [ht1]; exact pe)
  obtain ⟨_, qfr, qc, e, qe, qk⟩ := forEach_inv_list P hstep _ s3 s2 hP0 hloop
  refine ⟨hr, ⟨e, qe, fun k => ?_⟩, qfr, ?_⟩
  · rcases qk k with hk | ⟨hk, _⟩
    · exact hk
    · cases hk
  · intro c hcm
    simp only [List.mem_cons] at hcm
    rcases hcm with rfl | hcm
    · left; simp
    · exact (qc c hcm).imp (fun hh => List.mem_cons_of_mem _ hh) id


/-! ## closure cells whose contents are atoms -/

/-- pointwise: both are cells, and the contents are the same object or two atoms with the same type and value -/
def CellsRel (h : List Obj) : List Id → List Id → Prop
  | [], [] => True
  | ca :: as, cb :: bs =>
    (∃ x y, h[ca]? = some (.cell x) ∧ h[cb]? = some (.cell y) ∧
      (x = y ∨ ∃ t v, h[x]? = some (.atom t v) ∧ h[y]? = some (.atom t v))) ∧ CellsRel h as bs
  | _, _ => False

theorem CellsRel.frame {h h' : List Obj} {F : List Id} (hfr : ∀ j, j ∉ F → h'[j]? = h[j]?)
    (hat : ∀ (j : Id) (t v : Str), h[j]? = some (Obj.atom t v) → j ∉ F) :
    ∀ (ce nc : List Id), (∀ ca, ca ∈ ce → ca ∉ F) → (∀ cb, cb ∈ nc → cb ∉ F) → CellsRel h ce nc → CellsRel h' ce nc
  | [], [], _, _, _ => trivial
  | [], _ :: _, _, _, hr => hr.elim
  | _ :: _, [], _, _, hr => hr.elim
  | ca :: as, cb :: bs, hce, hnc, hr => by
    obtain ⟨⟨x, y, hx, hy, hxy⟩, hrest⟩ := hr
    refine ⟨⟨x, y, ?_, ?_, ?_⟩, CellsRel.frame hfr hat as bs (fun c hc => hce c (List.mem_cons_of_mem _ hc))
      (fun c hc => hnc c (List.mem_cons_of_mem _ hc)) hrest⟩
    · rw [hfr ca (hce ca List.mem_cons_self)]; exact hx
    · rw [hfr cb (hnc cb List.mem_cons_self)]; exact hy
    · rcases hxy with rfl | ⟨t, v, h1, h2⟩
      · exact Or.inl rfl
      · exact Or.inr ⟨t, v, by rw [hfr x (hat x t v h1)]; exact h1, by rw [hfr y (hat y t v h2)]; exact h2⟩

theorem CellsRel.isCell {h : List Obj} : ∀ (ce nc : List Id), CellsRel h ce nc → ∀ c, c ∈ ce → ∃ x, h[c]? = some (.cell x)
  | [], [], _, c, hc => by cases hc
  | [], _ :: _, hr, _, _ => hr.elim
  | _ :: _, [], hr, _, _ => hr.elim
  | ca :: as, cb :: bs, hr, c, hc => by
    obtain ⟨⟨x, y, hx, _, _⟩, hrest⟩ := hr
    simp only [List.mem_cons] at hc
    rcases hc with rfl | hc
    · exact ⟨x, hx⟩
    · exact CellsRel.isCell as bs hrest c hc

theorem CellsRel.length {h : List Obj} : ∀ (ce nc : List Id), CellsRel h ce nc → ce.length = nc.length
  | [], [], _ => rfl
  | [], _ :: _, hr => hr.elim
  | _ :: _, [], hr => hr.elim
  | _ :: as, _ :: bs, hr => by simp [CellsRel.length as bs hr.2]

theorem cellsRel_of_compat {dyn : List (Id × DynTy)} {h : List Obj} :
    ∀ (ce nc : List Id), cellsCompat dyn h ce nc = true → ce.length = nc.length →
      (∀ ca a, ca ∈ ce → h[ca]? = some (.cell a) → ∃ t v, h[a]? = some (.atom t v)) → CellsRel h ce nc
  | [], [], _, _, _ => trivial
  | [], _ :: _, _, hl, _ => by simp at hl
  | _ :: _, [], _, hl, _ => by simp at hl
  | ca :: as, cb :: bs, hc, hl, hat => by
    unfold cellsCompat at hc
    simp only [Bool.and_eq_true] at hc
    obtain ⟨hhead, htail⟩ := hc
    refine ⟨?_, cellsRel_of_compat as bs htail (by simpa using hl) (fun c a hc => hat c a (List.mem_cons_of_mem _ hc))⟩
    unfold cellContent at hhead
    cases hca : h[ca]? with
    | none => simp [hca] at hhead
    | some oa =>
      cases oa with
      | cell a =>
        cases hcb : h[cb]? with
        | none => simp [hca, hcb] at hhead
        | some ob =>
          cases ob with
          | cell b =>
            simp only [hca, hcb, Bool.and_eq_true, Bool.or_eq_true] at hhead
            obtain ⟨t, v, hav⟩ := hat ca a List.mem_cons_self hca
            refine ⟨a, b, rfl, rfl, ?_⟩
            rcases hhead.2 with hu | he
            · unfold updatable at hu; rw [hav] at hu; simp [Obj.kind] at hu
            · unfold cellEq at he
              simp only [Bool.or_eq_true, beq_iff_eq] at he
              rcases he with rfl | he
              · exact Or.inl rfl
              · rw [hav] at he
                cases hb : h[b]? with
                | none => rw [hb] at he; simp at he
                | some ob =>
                  rw [hb] at he
                  cases ob with
                  | atom t' v' =>
                    simp only [Bool.and_eq_true, beq_iff_eq] at he
                    obtain ⟨rfl, rfl⟩ := he
                    exact Or.inr ⟨t, v, hav, rfl⟩
                  | _ => simp at he
          | _ => simp [hca, hcb] at hhead
      | _ => simp [hca] at hhead

theorem updCell_ok {i v : Id} {s s' : St} {u : Unit} (h : updCell i v s = .ok (u, s')) :
    ∃ x, s.heap[i]? = some (.cell x) ∧ s' = { s with heap := s.heap.set i (.cell v) } := by
  unfold updCell at h
  split at h
  · rename_i x he; cases h; exact ⟨x, he, rfl⟩
  · cases h

theorem lpCells_atoms {cx : Ctx} {n : Nat} {vs : List Id} {h0 : List Obj} {W : List Id} (hdyn : cx.dyn = [])
    (hWA : ∀ j, j ∈ W → isAtomAt h0 j = false) (hvsA : ∀ j, j ∈ vs → isAtomAt h0 j = false) :
    ∀ (ce nc : List Id) (t t' : St), AtomsKept h0 t.heap → CacheOK h0 W t → ce.Nodup → (∀ cb, cb ∈ nc → cb ∉ ce) →
      (∀ ca a, ca ∈ ce → t.heap[ca]? = some (.cell a) → isAtomAt h0 a = true) →
      CellsRel t.heap ce nc → lpCells cx (lp cx n false) vs ce nc t = .ok ((), t') →
      (∀ j, j ∉ ce → t'.heap[j]? = t.heap[j]?) ∧ CacheOK h0 W t' ∧ CellsRel t'.heap ce nc
  | [], [], t, t', _, hc, _, _, _, _, h => by
    unfold lpCells at h
    obtain ⟨_, rfl⟩ := pure_ok.mp h
    exact ⟨fun _ _ => rfl, hc, trivial⟩
  | [], _ :: _, _, _, _, _, _, _, _, hr, _ => hr.elim
  | _ :: _, [], _, _, _, _, _, _, _, hr, _ => hr.elim
  | ca :: as, cb :: bs, t, t', hAK, hc, hnd, hnc, hat, hr, h => by
    obtain ⟨⟨x, y, hx, hy, hxy⟩, hrest⟩ := hr
    have hxA : isAtomAt h0 x = true := hat ca x List.mem_cons_self hx
    obtain ⟨tx, vx, hx0⟩ := isAtomAt_iff.mp hxA
    have hxt := hAK x tx vx hx0
    unfold lpCells at h
    simp only [bind_eq, pure_eq] at h
    obtain ⟨oc, s1, h1, h2⟩ := bind_ok.mp h
    rw [getObj_eq hx] at h1; cases h1
    obtain ⟨ocb, s2, h3, h4⟩ := bind_ok.mp h2
    rw [getObj_eq hy] at h3; cases h3
    simp only at h4
    obtain ⟨r, s3, h5, h6⟩ := bind_ok.mp h4
    have hxvs : x ∉ vs := fun hm => by rw [hvsA x hm] at hxA; cases hxA
    have hxW : x ∉ W := fun hm => by rw [hWA x hm] at hxA; cases hxA
    obtain ⟨hr, hs3, hc3⟩ := lp_atomOld hdyn hxt hxA hxvs hxW hc h5
    have hr2 : y = r := hr.symm
    subst hr2
    -- the state the tail runs in, and the head cell in it
    have key : ∃ t2 x', lpCells cx (lp cx n false) vs as bs t2 = .ok ((), t') ∧ CacheOK h0 W t2 ∧
        (∀ j, j ≠ ca → t2.heap[j]? = t.heap[j]?) ∧ t2.heap[ca]? = some (.cell x') ∧
        (x' = y ∨ x' = x) := by
      split at h6
      · obtain ⟨u, s4, h7, h8⟩ := bind_ok.mp h6
        obtain ⟨x0, hx0', rfl⟩ := updCell_ok h7
        refine ⟨_, y, h8, hc3, fun j hj => ?_, ?_, Or.inl rfl⟩
        · show (s3.heap.set ca _)[j]? = _
          rw [List.getElem?_set_ne (Ne.symm hj), hs3]
        · show (s3.heap.set ca _)[ca]? = _
          exact getElem?_set_self' hx0'
      · exact ⟨s3, x, h6, hc3, fun j _ => by rw [hs3], by rw [hs3]; exact hx, Or.inr rfl⟩
    obtain ⟨t2, x', htail, hc2, hfr2, hca2, hx'⟩ := key
    have hcaA : isAtomAt h0 ca = false := hAK.notAtom hx (by simp [Obj.kind])
    have hAK2 : AtomsKept h0 t2.heap :=
      hAK.frame (F := [ca]) (by intro j hj; simp at hj; subst hj; exact hcaA) (by intro j hj; exact hfr2 j (by simpa using hj))
    have hcaas : ca ∉ as := (List.nodup_cons.mp hnd).1
    have hatF : ∀ (j : Id) (t0 v0 : Str), t.heap[j]? = some (Obj.atom t0 v0) → j ∉ [ca] := by
      intro j t0 v0 hj hm
      simp at hm; subst hm
      rw [hx] at hj; cases hj
    have hrest2 : CellsRel t2.heap as bs :=
      CellsRel.frame (F := [ca]) (fun j hj => hfr2 j (by simpa using hj)) hatF as bs
        (fun c hc hm => by simp at hm; subst hm; exact hcaas hc)
        (fun c hc hm => by simp at hm; subst hm; exact hnc c (List.mem_cons_of_mem _ hc) List.mem_cons_self) hrest
    obtain ⟨hfr', hc', hrel'⟩ := lpCells_atoms hdyn hWA hvsA as bs t2 t' hAK2 hc2 (List.nodup_cons.mp hnd).2
      (fun c hc hm => hnc c (List.mem_cons_of_mem _ hc) (List.mem_cons_of_mem _ hm))
      (fun c a hc hca => hat c a (List.mem_cons_of_mem _ hc) (by
        rw [← hfr2 c (by rintro rfl; exact hcaas hc)]; exact hca)) hrest2 htail
    refine ⟨fun j hj => ?_, hc', ⟨x', y, ?_, ?_, ?_⟩, hrel'⟩
    · simp only [List.mem_cons, not_or] at hj
      rw [hfr' j hj.2, hfr2 j hj.1]
    · rw [hfr' ca hcaas]; exact hca2
    · have hcb1 : cb ∉ ca :: as := hnc cb List.mem_cons_self
      simp only [List.mem_cons, not_or] at hcb1
      rw [hfr' cb hcb1.2, hfr2 cb hcb1.1]; exact hy
    · -- atoms are not cells, so the contents are untouched
      have atomKeep : ∀ (j : Id) (t0 v0 : Str), t.heap[j]? = some (Obj.atom t0 v0) → t'.heap[j]? = some (Obj.atom t0 v0) := by
        intro j t0 v0 hj
        have hjca : j ≠ ca := by rintro rfl; rw [hx] at hj; cases hj
        have hjas : j ∉ as := by
          intro hm
          obtain ⟨x1, hx1⟩ := CellsRel.isCell as bs hrest j hm
          rw [hx1] at hj; cases hj
        rw [hfr' j hjas, hfr2 j hjca]; exact hj
      rcases hx' with rfl | rfl
      · exact Or.inl rfl
      · rcases hxy with rfl | ⟨t0, v0, h1, h2⟩
        · exact Or.inl rfl
        · exact Or.inr ⟨t0, v0, atomKeep _ _ _ h1, atomKeep _ _ _ h2⟩


/-! ## `livepatch` of a flat function -/

theorem resolveKind_funcOther {cx : Ctx} {rec : Rec} {vs : List Id} {fo nw : Id} {s : St} {x : Obj}
    {n m c d dc di ce fv} (hdyn : cx.dyn = []) (hfo : s.heap[fo]? = some (.func n m c d dc di ce fv))
    (hn : s.heap[nw]? = some x) (hk : x.kind ≠ .func) :
    resolveKind cx rec vs fo nw false s = .ok (none, s) := by
  have hst : sameType [] s.heap fo nw = false := by
    unfold sameType; rw [hfo, hn]
    cases x <;> simp [Obj.kind] at hk ⊢
  unfold resolveKind
  simp only [bind_eq, pure_eq, M.bind, getObj_eq hfo, getObj_eq hn, getSt, hdyn, hst]
  split
  · rfl
  · split
    · rfl
    · simp only [Bool.false_eq_true, if_false]
      rw [typeClassOf_nil (by simp [Obj.kind])]
      rfl

/-- what `_livepatch__function` writes when it patches `v`: the function, its `__dict__`, its cells -/
def fpOf (h : List Obj) (v : Id) : List Id :=
  match h[v]? with
  | some (.func _ _ _ _ _ di ce _) => v :: di :: ce
  | _ => []

/-- what a flat function pair looks like when `_livepatch__function` has patched it in place -/
def FuncPatched (h : List Obj) (fo fn : Id) : Prop :=
  ∃ n m m' c' d' dc' di ce fv nd nc e' en,
    h[fo]? = some (.func n m c' d' dc' di ce fv) ∧ h[fn]? = some (.func n m' c' d' dc' nd nc fv) ∧
    h[di]? = some (.dict e') ∧ h[nd]? = some (.dict en) ∧ (∀ k, alookup k e' = alookup k en) ∧ CellsRel h ce nc

/-- the old side of a flat function: its `__dict__` holds atoms only, its closure cells hold atoms -/
structure FlatFunc (h0 h : List Obj) (fo : Id) (F : List Id) : Prop where
  shape : ∃ n m c d dc di ce fv ed, h[fo]? = some (.func n m c d dc di ce fv) ∧ F = fo :: di :: ce ∧
    h[di]? = some (.dict ed) ∧ (∀ k a, alookup k ed = some a → isAtomAt h0 a = true) ∧
    (∀ ca, ca ∈ ce → ∃ a, h[ca]? = some (.cell a) ∧ isAtomAt h0 a = true)
  nodup : F.Nodup

/-- the new side is disjoint from what is written, and the new function's `__dict__` is a dict -/
def NewSideOK (h : List Obj) (nw : Id) (F : List Id) : Prop :=
  ∀ n' m' c' d' dc' nd nc fv', h[nw]? = some (.func n' m' c' d' dc' nd nc fv') →
    nw ∉ F ∧ nd ∉ F ∧ (∀ cb, cb ∈ nc → cb ∉ F) ∧ ∃ en, h[nd]? = some (.dict en)

set_option maxHeartbeats 800000 in
/-- **lp_func_obs** (functional form).  `livepatch(old_function, new)` for a flat old function, not cut short:
    only the function, its `__dict__` and its cells are written; either nothing happened and the new object is
    returned, or the old function is returned and is `FuncPatched`; the latter is what happens whenever the code's
    own conditions (`patchable`, `funcCompat`) hold. -/
theorem lp_flatFunc {cx : Ctx} {fuel : Nat} {vs : List Id} {fo nw : Id} {s s' : St} {r : Id}
    {h0 : List Obj} {W F : List Id}
    (hdyn : cx.dyn = []) (hAK : AtomsKept h0 s.heap)
    (hWA : ∀ j, j ∈ W → isAtomAt h0 j = false) (hvsA : ∀ j, j ∈ vs → isAtomAt h0 j = false)
    (hff : FlatFunc h0 s.heap fo F) (hnew : NewSideOK s.heap nw F)
    (hFvs : ∀ j, j ∈ F → j ∉ vs) (hFW : ∀ j, j ∈ F → j ∉ W) (hc : CacheOK h0 W s)
    (h : lp cx fuel false vs fo nw s = .ok (r, s')) :
    (∀ j, j ∉ F → s'.heap[j]? = s.heap[j]?) ∧ CacheOK h0 (F ++ W) s' ∧
    ((r = nw ∧ s'.heap = s.heap) ∨ (r = fo ∧ fo ≠ nw ∧ FuncPatched s'.heap fo nw ∧ fpOf s'.heap fo = F)) ∧
    (∀ n m c d dc di ce fv n' m' c' d' dc' nd nc fv', s.heap[fo]? = some (.func n m c d dc di ce fv) →
      s.heap[nw]? = some (.func n' m' c' d' dc' nd nc fv') → patchable cx m m' = true →
      funcCompat cx.dyn s.heap fo nw = true → r = fo) := by
  obtain ⟨⟨n, m, c, d, dc, di, ce, fv, ed, hfo, rfl, hdi, hed, hce⟩, hnd⟩ := hff
  have hfoA : isAtomAt h0 fo = false := hAK.notAtom hfo (by simp [Obj.kind])
  have hdiA : isAtomAt h0 di = false := hAK.notAtom hdi (by simp [Obj.kind])
  have hfoF : fo ∈ fo :: di :: ce := List.mem_cons_self
  have hdiF : di ∈ fo :: di :: ce := List.mem_cons_of_mem _ List.mem_cons_self
  have hceF : ∀ ca, ca ∈ ce → ca ∈ fo :: di :: ce := fun ca hca => List.mem_cons_of_mem _ (List.mem_cons_of_mem _ hca)
  have hnd' := List.nodup_cons.mp hnd
  have hnd'' := List.nodup_cons.mp hnd'.2
  have hfodi : fo ≠ di := fun e => hnd'.1 (e ▸ List.mem_cons_self)
  have hfoce : fo ∉ ce := fun hm => hnd'.1 (List.mem_cons_of_mem _ hm)
  have hdice : di ∉ ce := hnd''.1
  have cacheW : ∀ {t : St}, CacheOK h0 W t → CacheOK h0 ((fo :: di :: ce) ++ W) t :=
    fun hh => hh.mono (fun i hi => List.mem_append_right _ hi)
  by_cases hne : fo = nw
  · subst hne
    obtain ⟨rfl, rfl⟩ := lp_same h
    exact ⟨fun _ _ => rfl, cacheW hc, Or.inl ⟨rfl, rfl⟩, fun _ _ _ _ _ _ _ _ _ _ _ _ _ _ _ _ _ _ _ _ => rfl⟩
  obtain ⟨k, s2, rfl, hdisp, rfl⟩ := lp_run hne (hFvs fo hfoF) (hc.miss (hFW fo hfoF) hfoA) h
  have cachePush : ∀ {t : St} {r0 : Id}, CacheOK h0 ((fo :: di :: ce) ++ W) t →
      CacheOK h0 ((fo :: di :: ce) ++ W) { t with cache := ((fo, nw), r0) :: t.cache } := by
    intro t r0 hh e he
    simp only [List.mem_cons] at he
    rcases he with rfl | he
    · left; simp
    · exact hh e he
  unfold dispatch at hdisp
  simp only [bind_eq, pure_eq] at hdisp
  obtain ⟨kd, s4, h7, h8⟩ := bind_ok.mp hdisp
  obtain ⟨x, hx⟩ := resolveKind_new_exists h7
  -- the cases in which nothing is written
  have notPatched : r = nw → s2 = s → (∀ n m c d dc di ce fv n' m' c' d' dc' nd nc fv', s.heap[fo]? = some (.func n m c d dc di ce fv) →
      s.heap[nw]? = some (.func n' m' c' d' dc' nd nc fv') → patchable cx m m' = true →
      funcCompat cx.dyn s.heap fo nw = true → False) →
      (∀ j, j ∉ fo :: di :: ce → ({ s2 with cache := ((fo, nw), r) :: s2.cache } : St).heap[j]? = s.heap[j]?) ∧
      CacheOK h0 ((fo :: di :: ce) ++ W) { s2 with cache := ((fo, nw), r) :: s2.cache } ∧
      ((r = nw ∧ ({ s2 with cache := ((fo, nw), r) :: s2.cache } : St).heap = s.heap) ∨
        (r = fo ∧ fo ≠ nw ∧ FuncPatched ({ s2 with cache := ((fo, nw), r) :: s2.cache } : St).heap fo nw ∧
          fpOf ({ s2 with cache := ((fo, nw), r) :: s2.cache } : St).heap fo = fo :: di :: ce)) ∧
      (∀ n m c d dc di ce fv n' m' c' d' dc' nd nc fv', s.heap[fo]? = some (.func n m c d dc di ce fv) →
        s.heap[nw]? = some (.func n' m' c' d' dc' nd nc fv') → patchable cx m m' = true →
        funcCompat cx.dyn s.heap fo nw = true → r = fo) := by
    rintro rfl rfl habs
    exact ⟨fun _ _ => rfl, cachePush (cacheW hc), Or.inl ⟨rfl, rfl⟩,
      fun n m c d dc di ce fv n' m' c' d' dc' nd nc fv' a b c1 d1 => (habs n m c d dc di ce fv n' m' c' d' dc' nd nc fv' a b c1 d1).elim⟩
  by_cases hxk : x.kind = .func
  · cases x with
    | func n' m' c' d' dc' nd nc fv' =>
      rw [resolveKind_func hfo hx] at h7
      cases h7
      by_cases hp : patchable cx m m' = true
      · simp only [hp, if_true] at h8
        unfold lpFunction at h8
        simp only [bind_eq, pure_eq] at h8
        obtain ⟨o, s5, h9, h10⟩ := bind_ok.mp h8
        rw [getObj_eq hfo] at h9; cases h9
        obtain ⟨nn, s6, h11, h12⟩ := bind_ok.mp h10
        rw [getObj_eq hx] at h11; cases h11
        simp only at h12
        obtain ⟨t, s7, h13, h14⟩ := bind_ok.mp h12
        obtain ⟨e1, e2⟩ := getSt_ok h13
        rw [e1] at h14; rw [e2] at h14
        clear h13 e1 e2
        by_cases hcompat : funcCompat cx.dyn s.heap fo nw = true
        · simp only [hcompat, Bool.not_true, Bool.false_eq_true, if_false] at h14
          obtain ⟨hnwF, hndF, hncF, en, hnden⟩ := hnew _ _ _ _ _ _ _ _ hx
          -- name, free variables, cells from `funcCompat`
          have hcomp := hcompat
          unfold funcCompat at hcomp
          rw [hfo, hx] at hcomp
          simp only [Bool.and_eq_true, beq_iff_eq] at hcomp
          obtain ⟨⟨⟨hnn, hlen⟩, hfv⟩, hcc⟩ := hcomp
          subst hnn hfv
          have hrel0 : CellsRel s.heap ce nc := cellsRel_of_compat ce nc hcc hlen (fun ca a hca hcell => by
            obtain ⟨a', ha', haA⟩ := hce ca hca
            rw [hcell] at ha'; cases ha'
            obtain ⟨t0, v0, h00⟩ := isAtomAt_iff.mp haA
            exact ⟨t0, v0, hAK a t0 v0 h00⟩)
          unfold lpFunctionBody at h14
          simp only [bind_eq, pure_eq] at h14
          obtain ⟨u1, t1, g1, g2⟩ := bind_ok.mp h14
          obtain ⟨n0, m0, c0, d0, dc0, di0, ce0, fv0, he0, rfl⟩ := updFunc_ok g1
          rw [hfo] at he0; cases he0
          obtain ⟨rd, t2, g3, g4⟩ := bind_ok.mp g2
          obtain ⟨u3, t3, g5, g6⟩ := bind_ok.mp g4
          obtain ⟨hr, hs⟩ := pure_ok.mp g6
          have hr2 : fo = r := hr.symm
          have hs2 : t3 = s2 := hs.symm
          subst hr2 hs2
          -- state after `updFunc`
          have fr1 : ∀ j, j ≠ fo → (s.heap.set fo (.func n m c' d' dc' di ce fv))[j]? = s.heap[j]? :=
            fun j hj => List.getElem?_set_ne (Ne.symm hj)
          have hAK1 : AtomsKept h0 (s.heap.set fo (.func n m c' d' dc' di ce fv)) :=
            hAK.frame (F := [fo]) (by intro j hj; simp at hj; subst hj; exact hfoA) (by intro j hj; exact fr1 j (by simpa using hj))
          have hvsA' : ∀ j, j ∈ vs ++ [fo] → isAtomAt h0 j = false := by
            intro j hj
            rcases List.mem_append.mp hj with hj | hj
            · exact hvsA j hj
            · simp at hj; subst hj; exact hfoA
          have hdiv : di ∉ vs ++ [fo] := by
            intro hm
            rcases List.mem_append.mp hm with hm | hm
            · exact hFvs di hdiF hm
            · simp at hm; exact hfodi hm.symm
          -- the `__dict__`
          have hnddi : di ≠ nd := fun e => hndF (e ▸ hdiF)
          have hndfo : nd ≠ fo := fun e => hndF (e ▸ hfoF)
          obtain ⟨_, ⟨e', hde', hke'⟩, fr2, hc2⟩ := lp_dictAtoms (s := { s with heap := s.heap.set fo (.func n m c' d' dc' di ce fv) })
            hdyn hAK1 hWA hvsA' (by show (s.heap.set fo _)[di]? = _; rw [fr1 di (Ne.symm hfodi)]; exact hdi)
            (by show (s.heap.set fo _)[nd]? = _; rw [fr1 nd hndfo]; exact hnden) hnddi hdiv (hFW di hdiF) hc hed g3
          have hAK2 : AtomsKept h0 t2.heap :=
            hAK1.frame (F := [di]) (by intro j hj; simp at hj; subst hj; exact hdiA) (by intro j hj; exact fr2 j (by simpa using hj))
          have fr12 : ∀ j, j ≠ fo → j ≠ di → t2.heap[j]? = s.heap[j]? := fun j h1 h2 => by
            rw [fr2 j h2]; exact fr1 j h1
          -- the cells
          have hatF : ∀ (j : Id) (t0 v0 : Str), s.heap[j]? = some (Obj.atom t0 v0) → j ∉ [fo, di] := by
            intro j t0 v0 hj hm
            simp at hm
            rcases hm with rfl | rfl
            · rw [hfo] at hj; cases hj
            · rw [hdi] at hj; cases hj
          have hrel2 : CellsRel t2.heap ce nc :=
            CellsRel.frame (F := [fo, di]) (fun j hj => by simp at hj; exact fr12 j hj.1 hj.2) hatF ce nc
              (fun ca hca hm => by simp at hm; rcases hm with rfl | rfl; exact hfoce hca; exact hdice hca)
              (fun cb hcb hm => by simp at hm; rcases hm with rfl | rfl; exact hncF cb hcb hfoF; exact hncF cb hcb hdiF) hrel0
          have hWA2 : ∀ j, j ∈ di :: W → isAtomAt h0 j = false := by
            intro j hj; simp only [List.mem_cons] at hj
            rcases hj with rfl | hj
            · exact hdiA
            · exact hWA j hj
          obtain ⟨fr3, hc3, hrel3⟩ := lpCells_atoms hdyn hWA2 hvsA' ce nc t2 t3 hAK2 hc2 hnd''.2
            (fun cb hcb hm => hncF cb hcb (hceF cb hm))
            (fun ca a hca hcell => by
              obtain ⟨a', ha', haA⟩ := hce ca hca
              rw [fr12 ca (fun e => hfoce (e ▸ hca)) (fun e => hdice (e ▸ hca)), ha'] at hcell
              cases hcell; exact haA) hrel2 g5
          have hfo3 : t3.heap[fo]? = some (.func n m c' d' dc' di ce fv) := by
            rw [fr3 fo hfoce, fr2 fo hfodi]
            exact getElem?_set_self' hfo
          refine ⟨fun j hj => ?_, ?_, Or.inr ⟨rfl, hne, ?_, by show fpOf t3.heap fo = _; unfold fpOf; rw [hfo3]⟩,
            fun _ _ _ _ _ _ _ _ _ _ _ _ _ _ _ _ _ _ _ _ => rfl⟩
          · simp only [List.mem_cons, not_or] at hj
            show t3.heap[j]? = _
            rw [fr3 j hj.2.2, fr12 j hj.1 hj.2.1]
          · apply cachePush
            exact hc3.mono (fun i hi => by
              simp only [List.mem_cons] at hi
              rcases hi with rfl | hi
              · exact List.mem_append_left _ hdiF
              · exact List.mem_append_right _ hi)
          · refine ⟨n, m, m', c', d', dc', di, ce, fv, nd, nc, e', en, ?_, ?_, ?_, ?_, hke', hrel3⟩
            · show t3.heap[fo]? = _
              rw [fr3 fo hfoce, fr2 fo hfodi]
              exact getElem?_set_self' hfo
            · show t3.heap[nw]? = _
              rw [fr3 nw (fun hm => hnwF (hceF nw hm)), fr12 nw (Ne.symm hne) (fun e => hnwF (e ▸ hdiF))]; exact hx
            · show t3.heap[di]? = _
              rw [fr3 di hdice]; exact hde'
            · show t3.heap[nd]? = _
              rw [fr3 nd (fun hm => hndF (hceF nd hm)), fr12 nd hndfo (Ne.symm hnddi)]; exact hnden
        · have hcf : funcCompat cx.dyn s.heap fo nw = false := by simpa using hcompat
          simp only [hcf, Bool.not_false, if_true] at h14
          obtain ⟨hr, hs⟩ := pure_ok.mp h14
          refine notPatched hr hs (fun _ _ _ _ _ _ _ _ _ _ _ _ _ _ _ _ _ _ _ hcp => ?_)
          rw [hcf] at hcp; cases hcp
      · have hp' : patchable cx m m' = false := by simpa using hp
        simp only [hp', Bool.false_eq_true, if_false] at h8
        obtain ⟨hr, hs⟩ := pure_ok.mp h8
        refine notPatched hr hs (fun n1 m1 c1 d1 dc1 di1 ce1 fv1 n2 m2 c2 d2 dc2 nd2 nc2 fv2 a b hpp _ => ?_)
        rw [hfo] at a; cases a
        rw [hx] at b; cases b
        rw [hp'] at hpp; cases hpp
    | _ => simp [Obj.kind] at hxk
  · rw [resolveKind_funcOther hdyn hfo hx hxk] at h7
    cases h7
    simp only at h8
    obtain ⟨hr, hs⟩ := pure_ok.mp h8
    refine notPatched hr hs (fun n1 m1 c1 d1 dc1 di1 ce1 fv1 n2 m2 c2 d2 dc2 nd2 nc2 fv2 a b _ _ => ?_)
    rw [hx] at b; cases b
    exact hxk rfl


/-! ## from the functional statements to `ObsEq` -/

theorem obsEq_succ_cell {h1 h2 : List Obj} {n : Nat} {a b x y : Id} (ha : h1[a]? = some (.cell x))
    (hb : h2[b]? = some (.cell y)) : obsEq h1 h2 (n + 1) a b = obsEq h1 h2 n x y := by
  rw [obsEq, ha, hb]

theorem obsEq_succ_atom {h1 h2 : List Obj} {n : Nat} {a b : Id} {t v t' v' : Str} (ha : h1[a]? = some (.atom t v))
    (hb : h2[b]? = some (.atom t' v')) : obsEq h1 h2 (n + 1) a b = (t == t' && v == v') := by
  rw [obsEq, ha, hb]

theorem obsEq_succ_dict {h1 h2 : List Obj} {n : Nat} {a b : Id} {e e' : List (Str × Id)} (ha : h1[a]? = some (.dict e))
    (hb : h2[b]? = some (.dict e')) : obsEq h1 h2 (n + 1) a b = obsTable (obsEq h1 h2 n) e e' := by
  rw [obsEq, ha, hb]

theorem obsEq_succ_func {h1 h2 : List Obj} {n : Nat} {a b : Id} {nm m c d dc di ce fv nm' m' c' d' dc' di' ce' fv'}
    (ha : h1[a]? = some (.func nm m c d dc di ce fv)) (hb : h2[b]? = some (.func nm' m' c' d' dc' di' ce' fv')) :
    obsEq h1 h2 (n + 1) a b =
      (nm == nm' && c == c' && d == d' && dc == dc' && fv == fv' && obsEq h1 h2 n di di' && obsList (obsEq h1 h2 n) ce ce') := by
  rw [obsEq, ha, hb]

theorem obsEq_dict_of_lookup_eq {h : List Obj} {d nd : Id} {e' en : List (Str × Id)} (hd : h[d]? = some (.dict e'))
    (hn : h[nd]? = some (.dict en)) (hk : ∀ k, alookup k e' = alookup k en) : ObsEq h d h nd := by
  intro n
  cases n with
  | zero => rfl
  | succ n =>
    rw [obsEq_succ_dict hd hn]
    exact obsTable_of_lookup_eq (obsEq_refl h n) hk

theorem obsList_of_cellsRel {h : List Obj} (n : Nat) : ∀ (ce nc : List Id), CellsRel h ce nc → obsList (obsEq h h n) ce nc = true
  | [], [], _ => rfl
  | [], _ :: _, hr => hr.elim
  | _ :: _, [], hr => hr.elim
  | ca :: as, cb :: bs, hr => by
    obtain ⟨⟨x, y, hx, hy, hxy⟩, hrest⟩ := hr
    unfold obsList
    rw [obsList_of_cellsRel n as bs hrest, Bool.and_true]
    cases n with
    | zero => rfl
    | succ n =>
      rw [obsEq_succ_cell hx hy]
      rcases hxy with rfl | ⟨t, v, h1, h2⟩
      · exact obsEq_refl h n x
      · cases n with
        | zero => rfl
        | succ n => rw [obsEq_succ_atom h1 h2]; simp

theorem FuncPatched.obs {h : List Obj} {fo fn : Id} (hp : FuncPatched h fo fn) : ObsEq h fo h fn := by
  obtain ⟨n0, m, m', c', d', dc', di, ce, fv, nd, nc, e', en, hfo, hfn, hdi, hnd, hk, hrel⟩ := hp
  intro n
  cases n with
  | zero => rfl
  | succ n =>
    rw [obsEq_succ_func hfo hfn]
    simp only [beq_self_eq_true, Bool.true_and, Bool.and_eq_true]
    exact ⟨obsEq_dict_of_lookup_eq hdi hnd hk n, obsList_of_cellsRel n ce nc hrel⟩

/-- **lp_dict_obs.**  Livepatching a dict whose values are atoms yields — in place — a dict observationally equal to
    the new one. -/
theorem lp_dict_obs {cx : Ctx} {fuel : Nat} {vs : List Id} {d nd : Id} {s s' : St} {r : Id}
    {ed en : List (Str × Id)} {h0 : List Obj} {W : List Id}
    (hdyn : cx.dyn = []) (hAK : AtomsKept h0 s.heap)
    (hWA : ∀ j, j ∈ W → isAtomAt h0 j = false) (hvsA : ∀ j, j ∈ vs → isAtomAt h0 j = false)
    (hd : s.heap[d]? = some (.dict ed)) (hn : s.heap[nd]? = some (.dict en))
    (hne : d ≠ nd) (hvs : d ∉ vs) (hdW : d ∉ W) (hc : CacheOK h0 W s)
    (hat : ∀ k a, alookup k ed = some a → isAtomAt h0 a = true)
    (h : lp cx fuel false vs d nd s = .ok (r, s')) : r = d ∧ ObsEq s'.heap d s'.heap nd := by
  obtain ⟨hr, ⟨e', he', hk⟩, hfr, _⟩ := lp_dictAtoms hdyn hAK hWA hvsA hd hn hne hvs hdW hc hat h
  exact ⟨hr, obsEq_dict_of_lookup_eq he' (by rw [hfr nd (Ne.symm hne)]; exact hn) hk⟩

/-- **lp_func_obs.**  Livepatching a flat function: whatever is returned (the old function patched in place, or the new
    object) is observationally equal to the new function, and when the code's own conditions hold it is the old one. -/
theorem lp_func_obs {cx : Ctx} {fuel : Nat} {vs : List Id} {fo nw : Id} {s s' : St} {r : Id}
    {h0 : List Obj} {W F : List Id}
    (hdyn : cx.dyn = []) (hAK : AtomsKept h0 s.heap)
    (hWA : ∀ j, j ∈ W → isAtomAt h0 j = false) (hvsA : ∀ j, j ∈ vs → isAtomAt h0 j = false)
    (hff : FlatFunc h0 s.heap fo F) (hnew : NewSideOK s.heap nw F)
    (hFvs : ∀ j, j ∈ F → j ∉ vs) (hFW : ∀ j, j ∈ F → j ∉ W) (hc : CacheOK h0 W s)
    (h : lp cx fuel false vs fo nw s = .ok (r, s')) :
    ObsEq s'.heap r s'.heap nw ∧
    (∀ n m c d dc di ce fv n' m' c' d' dc' nd nc fv', s.heap[fo]? = some (.func n m c d dc di ce fv) →
      s.heap[nw]? = some (.func n' m' c' d' dc' nd nc fv') → patchable cx m m' = true →
      funcCompat cx.dyn s.heap fo nw = true → r = fo) := by
  obtain ⟨_, _, hres, hid⟩ := lp_flatFunc hdyn hAK hWA hvsA hff hnew hFvs hFW hc h
  refine ⟨?_, hid⟩
  rcases hres with ⟨rfl, _⟩ | ⟨rfl, _, hp, _⟩
  · exact ObsEq.refl _ _
  · exact hp.obs


/-! ## the flat module -/

def atomVals (h : List Obj) (e : List (Str × Id)) : Bool := e.all (fun p => isAtomAt h p.2)

/-- a function whose `__dict__` holds atoms only and whose closure cells hold atoms -/
def flatFuncB (h : List Obj) (v : Id) : Bool :=
  match h[v]? with
  | some (.func _ _ _ _ _ di ce _) =>
    (match h[di]? with | some (.dict ed) => atomVals h ed | _ => false) &&
    ce.all (fun ca => match h[ca]? with | some (.cell a) => isAtomAt h a | _ => false)
  | _ => false

/-- the objects written on account of the name `k` -/
def fpKey (h : List Obj) (eo en : List (Str × Id)) (k : Str) : List Id :=
  match alookup k eo, alookup k en with
  | some ov, some nv => if ov = nv then [] else fpOf h ov
  | _, _ => []

def writeSet (h : List Obj) (eo en : List (Str × Id)) : List Id := (commonKeys eo en).flatMap (fpKey h eo en)

/-- the new object (and, for a function, its `__dict__` and cells) is not among the objects written, and a new
    function's `__dict__` is a dict -/
def newSideB (h : List Obj) (Wt : List Id) (nv : Id) : Bool :=
  !Wt.contains nv &&
  match h[nv]? with
  | some (.func _ _ _ _ _ nd nc _) =>
    !Wt.contains nd && nc.all (fun cb => !Wt.contains cb) && (match h[nd]? with | some (.dict _) => true | _ => false)
  | _ => true

def entryOKB (h : List Obj) (eo en : List (Str × Id)) (Wt : List Id) (k : Str) : Bool :=
  match alookup k eo, alookup k en with
  | some ov, some nv => ov == nv || ((isAtomAt h ov || flatFuncB h ov) && newSideB h Wt nv)
  | _, _ => false

/-- **flatModule**: `Mo` (old) and `Mn` (scratch) are modules with namespaces `D ≠ N`; every name that survives is bound,
    on the old side, to the very same object as on the new side, to an atom, or to a flat function; the objects that
    will be written (`D` and, per flat function, the function, its `__dict__`, its cells) are pairwise distinct
    (**no aliasing**, D46), are not `Mo` / `N`, and no new object paired with them is among them.
    (`all (!isAtomAt)` is implied by the rest; it is kept to shorten the proof.) -/
def flatModule (h : List Obj) (Mo Mn : Id) : Bool :=
  match h[Mo]?, h[Mn]? with
  | some (.module D), some (.module N) =>
    match h[D]?, h[N]? with
    | some (.dict eo), some (.dict en) =>
      Mo != Mn && D != N &&
      decide (D :: writeSet h eo en).Nodup && !(D :: writeSet h eo en).contains N && !(D :: writeSet h eo en).contains Mo &&
      (writeSet h eo en).all (fun j => !isAtomAt h j) &&
      (commonKeys eo en).all (entryOKB h eo en (D :: writeSet h eo en))
    | _, _ => false
  | _, _ => false

theorem atomVals_lookup {h : List Obj} {e : List (Str × Id)} (ha : atomVals h e = true) {k : Str} {a : Id}
    (hk : alookup k e = some a) : isAtomAt h a = true := by
  induction e with
  | nil => simp [alookup] at hk
  | cons p r ih =>
    obtain ⟨k', v⟩ := p
    unfold atomVals at ha ih
    simp only [List.all_cons, Bool.and_eq_true] at ha
    unfold alookup at hk
    split at hk
    · cases hk; exact ha.1
    · exact ih ha.2 hk

theorem flatFunc_of_B {h0 h : List Obj} {fo : Id} (hb : flatFuncB h0 fo = true) (hnd : (fpOf h0 fo).Nodup)
    (hag : ∀ j, j ∈ fpOf h0 fo → h[j]? = h0[j]?) : FlatFunc h0 h fo (fpOf h0 fo) := by
  refine ⟨?_, hnd⟩
  unfold flatFuncB at hb
  unfold fpOf at hag ⊢
  cases hfo : h0[fo]? with
  | none => simp [hfo] at hb
  | some o =>
    cases o with
    | func n m c d dc di ce fv =>
      simp only [hfo, Bool.and_eq_true, List.all_eq_true] at hb hag
      obtain ⟨hdict, hcells⟩ := hb
      cases hdi : h0[di]? with
      | none => simp [hdi] at hdict
      | some od =>
        cases od with
        | dict ed =>
          simp only [hdi] at hdict
          refine ⟨n, m, c, d, dc, di, ce, fv, ed, ?_, by simp [hfo], ?_, fun k a hk => atomVals_lookup hdict hk, fun ca hca => ?_⟩
          · rw [hag fo List.mem_cons_self]; exact hfo
          · rw [hag di (List.mem_cons_of_mem _ List.mem_cons_self)]; exact hdi
          · have := hcells ca hca
            cases hc : h0[ca]? with
            | none => simp [hc] at this
            | some oc =>
              cases oc with
              | cell a =>
                simp only [hc] at this
                exact ⟨a, by rw [hag ca (List.mem_cons_of_mem _ (List.mem_cons_of_mem _ hca))]; exact hc, this⟩
              | _ => simp [hc] at this
        | _ => simp [hdi] at hdict
    | _ => simp [hfo] at hb

theorem newSide_of_B {h0 h : List Obj} {Wt F : List Id} {nv : Id} (hb : newSideB h0 Wt nv = true)
    (hsub : ∀ j, j ∈ F → j ∈ Wt) (hag : ∀ j, j ∉ Wt → h[j]? = h0[j]?) : nv ∉ Wt ∧ NewSideOK h nv F := by
  unfold newSideB at hb
  simp only [Bool.and_eq_true, Bool.not_eq_true', List.contains_eq_mem, decide_eq_false_iff_not] at hb
  obtain ⟨hnv, hrest⟩ := hb
  refine ⟨hnv, ?_⟩
  intro n' m' c' d' dc' nd nc fv' hx
  rw [hag nv hnv] at hx
  simp only [hx, Bool.and_eq_true, Bool.not_eq_true', List.contains_eq_mem, decide_eq_false_iff_not, List.all_eq_true] at hrest
  obtain ⟨⟨hnd, hnc⟩, hdict⟩ := hrest
  refine ⟨fun hm => hnv (hsub _ hm), fun hm => hnd (hsub _ hm), fun cb hcb hm => hnc cb hcb (hsub _ hm), ?_⟩
  cases hd : h0[nd]? with
  | none => simp [hd] at hdict
  | some o =>
    cases o with
    | dict en => exact ⟨en, by rw [hag nd hnd]; exact hd⟩
    | _ => simp [hd] at hdict

/-- positive frame: everything that was looked up outside `F` is still there -/
def Keeps (F : List Id) (h h' : List Obj) : Prop := ∀ (j : Id) (o : Obj), j ∉ F → h[j]? = some o → h'[j]? = some o

theorem CellsRel.keeps {h h' : List Obj} {F : List Id} (hfr : Keeps F h h')
    (hat : ∀ (j : Id) (t v : Str), h[j]? = some (Obj.atom t v) → j ∉ F) :
    ∀ (ce nc : List Id), (∀ ca, ca ∈ ce → ca ∉ F) → (∀ cb, cb ∈ nc → cb ∉ F) → CellsRel h ce nc → CellsRel h' ce nc
  | [], [], _, _, _ => trivial
  | [], _ :: _, _, _, hr => hr.elim
  | _ :: _, [], _, _, hr => hr.elim
  | ca :: as, cb :: bs, hce, hnc, hr => by
    obtain ⟨⟨x, y, hx, hy, hxy⟩, hrest⟩ := hr
    refine ⟨⟨x, y, hfr _ _ (hce ca List.mem_cons_self) hx, hfr _ _ (hnc cb List.mem_cons_self) hy, ?_⟩,
      CellsRel.keeps hfr hat as bs (fun c hc => hce c (List.mem_cons_of_mem _ hc))
      (fun c hc => hnc c (List.mem_cons_of_mem _ hc)) hrest⟩
    rcases hxy with rfl | ⟨t, v, h1, h2⟩
    · exact Or.inl rfl
    · exact Or.inr ⟨t, v, hfr _ _ (hat x t v h1) h1, hfr _ _ (hat y t v h2) h2⟩

theorem FuncPatched.keeps {h h' : List Obj} {F : List Id} {fo fn : Id} (hp : FuncPatched h fo fn) (hfr : Keeps F h h')
    (hat : ∀ (j : Id) (t v : Str), h[j]? = some (Obj.atom t v) → j ∉ F)
    (h1 : ∀ j, j ∈ fpOf h fo → j ∉ F) (h2 : ∀ j, j ∈ fpOf h fn → j ∉ F) : FuncPatched h' fo fn := by
  obtain ⟨n0, m, m', c', d', dc', di, ce, fv, nd, nc, e', en, hfo, hfn, hdi, hnd, hk, hrel⟩ := hp
  unfold fpOf at h1 h2
  rw [hfo] at h1; rw [hfn] at h2
  simp only [List.mem_cons, forall_eq_or_imp] at h1 h2
  exact ⟨n0, m, m', c', d', dc', di, ce, fv, nd, nc, e', en, hfr _ _ h1.1 hfo, hfr _ _ h2.1 hfn, hfr _ _ h1.2.1 hdi,
    hfr _ _ h2.2.1 hnd, hk, CellsRel.keeps hfr hat ce nc h1.2.2 h2.2.2 hrel⟩


theorem newSide_fp {h0 : List Obj} {Wt : List Id} {nv : Id} (hb : newSideB h0 Wt nv = true) :
    ∀ j, j ∈ fpOf h0 nv → j ∉ Wt := by
  unfold newSideB at hb
  simp only [Bool.and_eq_true, Bool.not_eq_true', List.contains_eq_mem, decide_eq_false_iff_not] at hb
  obtain ⟨hnv, hrest⟩ := hb
  unfold fpOf
  cases hx : h0[nv]? with
  | none => intro j hj; cases hj
  | some o =>
    cases o with
    | func n' m' c' d' dc' nd nc fv' =>
      simp only [hx, Bool.and_eq_true, Bool.not_eq_true', List.contains_eq_mem, decide_eq_false_iff_not, List.all_eq_true] at hrest
      intro j hj
      simp only [List.mem_cons] at hj
      rcases hj with rfl | rfl | hj
      · exact hnv
      · exact hrest.1.1
      · exact hrest.1.2 j hj
    | _ => intro j hj; cases hj

theorem fpOf_congr {h h' : List Obj} {v : Id} (hv : h'[v]? = h[v]?) : fpOf h' v = fpOf h v := by
  unfold fpOf; rw [hv]

theorem FuncPatched.lookups {h : List Obj} {fo fn : Id} (hp : FuncPatched h fo fn) :
    (∃ o, h[fo]? = some o) ∧ (∃ o, h[fn]? = some o) ∧ fo ∈ fpOf h fo := by
  obtain ⟨n0, m, m', c', d', dc', di, ce, fv, nd, nc, e', en, hfo, hfn, _⟩ := hp
  exact ⟨⟨_, hfo⟩, ⟨_, hfn⟩, by unfold fpOf; rw [hfo]; exact List.mem_cons_self⟩

/-- the state of a name after `_livepatch__dict` is through with it -/
def Done (Wt Wc : List Id) (eo en : List (Str × Id)) (t : List Obj) (e : List (Str × Id)) (k : Str) : Prop :=
  alookup k e = alookup k en ∨
  ∃ fo fn, alookup k e = some fo ∧ alookup k en = some fn ∧ alookup k eo = some fo ∧ fo ≠ fn ∧ FuncPatched t fo fn ∧
    (∀ j, j ∈ fpOf t fo → j ∈ Wc) ∧ (∀ j, j ∈ fpOf t fn → j ∉ Wt)

theorem Done.keeps {Wt Wc Wc' : List Id} {eo en e : List (Str × Id)} {t t' : List Obj} {F : List Id} {k : Str}
    (hd : Done Wt Wc eo en t e k) (hfr : Keeps F t t')
    (hat : ∀ (j : Id) (t0 v : Str), t[j]? = some (Obj.atom t0 v) → j ∉ F)
    (hF1 : ∀ j, j ∈ F → j ∉ Wc) (hF2 : ∀ j, j ∈ F → j ∈ Wt) (hsub : ∀ j, j ∈ Wc → j ∈ Wc') :
    Done Wt Wc' eo en t' e k := by
  rcases hd with hd | ⟨fo, fn, a1, a2, a3, a4, hp, a6, a7⟩
  · exact Or.inl hd
  · obtain ⟨⟨o1, ho1⟩, ⟨o2, ho2⟩, hmem⟩ := hp.lookups
    have hfoF : fo ∉ F := fun hm => hF1 fo hm (a6 fo hmem)
    have hfnF : fn ∉ F := fun hm => by
      have : fn ∈ fpOf t fn := by
        obtain ⟨n0, m, m', c', d', dc', di, ce, fv, nd, nc, e', en', hfo, hfn, _⟩ := hp
        unfold fpOf; rw [hfn]; exact List.mem_cons_self
      exact a7 fn this (hF2 fn hm)
    have e1 : fpOf t' fo = fpOf t fo := fpOf_congr (by rw [hfr fo o1 hfoF ho1, ho1])
    have e2 : fpOf t' fn = fpOf t fn := fpOf_congr (by rw [hfr fn o2 hfnF ho2, ho2])
    refine Or.inr ⟨fo, fn, a1, a2, a3, a4, hp.keeps hfr hat (fun j hj hm => hF1 j hm (a6 j hj)) (fun j hj hm => a7 j hj (hF2 j hm)), ?_, ?_⟩
    · rw [e1]; exact fun j hj => hsub j (a6 j hj)
    · rw [e2]; exact a7


theorem flatFuncB_mem {h : List Obj} {v : Id} (hb : flatFuncB h v = true) : v ∈ fpOf h v := by
  unfold flatFuncB at hb
  unfold fpOf
  cases hv : h[v]? with
  | none => simp [hv] at hb
  | some o =>
    cases o with
    | func n m c d dc di ce fv => exact List.mem_cons_self
    | _ => simp [hv] at hb

structure FlatCtx (cx : Ctx) (h0 : List Obj) (Mo D N : Id) (eo en : List (Str × Id)) : Prop where
  dyn : cx.dyn = []
  hD : h0[D]? = some (.dict eo)
  hN : h0[N]? = some (.dict en)
  hMo : ∃ d, h0[Mo]? = some (.module d)
  nodup : (D :: writeSet h0 eo en).Nodup
  hNW : N ∉ D :: writeSet h0 eo en
  hMoW : Mo ∉ D :: writeSet h0 eo en
  hWA : ∀ j, j ∈ writeSet h0 eo en → isAtomAt h0 j = false
  entry : ∀ k, k ∈ commonKeys eo en → entryOKB h0 eo en (D :: writeSet h0 eo en) k = true

def LoopInv (h0 : List Obj) (D : Id) (eo en : List (Str × Id)) (L : List Str) (t : St) : Prop :=
  (∀ k, k ∈ L → k ∈ commonKeys eo en) ∧ (L.flatMap (fpKey h0 eo en)).Nodup ∧
  ∃ Wc, (∀ j, j ∈ Wc → j ∈ writeSet h0 eo en ∧ j ∉ L.flatMap (fpKey h0 eo en)) ∧ CacheOK h0 Wc t ∧
    (∀ j, j ∉ Wc → j ≠ D → t.heap[j]? = h0[j]?) ∧
    ∃ e, t.heap[D]? = some (.dict e) ∧
      ∀ k, Done (D :: writeSet h0 eo en) Wc eo en t.heap e k ∨ (k ∈ L ∧ alookup k e = alookup k eo)

set_option maxHeartbeats 800000 in
theorem flatStep {cx : Ctx} {h0 : List Obj} {Mo D N : Id} {eo en : List (Str × Id)} (C : FlatCtx cx h0 Mo D N eo en)
    {n : Nat} {x : Str} {L : List Str} {t t' : St} (hI : LoopInv h0 D eo en (x :: L) t)
    (hst : lpDictStep (lp cx n false) ([Mo] ++ [D]) D N x t = .ok ((), t')) : LoopInv h0 D eo en L t' := by
  obtain ⟨hLc, hLn, Wc, hWc, hcache, hfr, e, he, hk⟩ := hI
  have hxc : x ∈ commonKeys eo en := hLc x List.mem_cons_self
  have hfx : ∀ j, j ∈ fpKey h0 eo en x → j ∈ writeSet h0 eo en :=
    fun j hj => List.mem_flatMap.mpr ⟨x, hxc, hj⟩
  have hDW : D ∉ writeSet h0 eo en := (List.nodup_cons.mp C.nodup).1
  rw [List.flatMap_cons, List.nodup_append] at hLn
  obtain ⟨hnx, hnL, hdisj⟩ := hLn
  have hDA : isAtomAt h0 D = false := by unfold isAtomAt; rw [C.hD]
  have hMoA : isAtomAt h0 Mo = false := by obtain ⟨d, hd⟩ := C.hMo; unfold isAtomAt; rw [hd]
  have hWcA : ∀ j, j ∈ Wc → isAtomAt h0 j = false := fun j hj => C.hWA j (hWc j hj).1
  have hAK : AtomsKept h0 t.heap := by
    intro j t0 v0 hj
    have hjA : isAtomAt h0 j = true := isAtomAt_iff.mpr ⟨t0, v0, hj⟩
    have h1 : j ∉ Wc := fun hm => by rw [hWcA j hm] at hjA; cases hjA
    have h2 : j ≠ D := by rintro rfl; rw [hDA] at hjA; cases hjA
    rw [hfr j h1 h2]; exact hj
  have hNWc : N ∉ Wc := fun hm => C.hNW (List.mem_cons_of_mem _ (hWc N hm).1)
  have hND : N ≠ D := fun e => C.hNW (e ▸ List.mem_cons_self)
  have heapN : t.heap[N]? = some (.dict en) := by rw [hfr N hNWc hND]; exact C.hN
  have hWtag : ∀ j, j ∉ D :: writeSet h0 eo en → t.heap[j]? = h0[j]? := by
    intro j hj
    simp only [List.mem_cons, not_or] at hj
    exact hfr j (fun hm => hj.2 (hWc j hm).1) hj.1
  obtain ⟨e', en', ov, nv, r1, t1, qe, qn, qov, qnv, qrec, qfin⟩ := lpDictStep_ok hst
  rw [he] at qe; cases qe
  rw [heapN] at qn; cases qn
  have hvsA : ∀ j, j ∈ [Mo] ++ [D] → isAtomAt h0 j = false := by
    intro j hj; simp at hj; rcases hj with rfl | rfl
    · exact hMoA
    · exact hDA
  -- what the recursive call did
  have summary : ∃ F, (∀ j, j ∈ F → j ∈ fpKey h0 eo en x) ∧ (∀ j, j ∉ F → t1.heap[j]? = t.heap[j]?) ∧
      CacheOK h0 (F ++ Wc) t1 ∧
      (r1 = nv ∨ (r1 = ov ∧ ov ≠ nv ∧ alookup x eo = some ov ∧ FuncPatched t1.heap ov nv ∧
        (∀ j, j ∈ fpOf t1.heap ov → j ∈ F) ∧ (∀ j, j ∈ fpOf t1.heap nv → j ∉ D :: writeSet h0 eo en))) := by
    have same : ov = nv → ∃ F, (∀ j, j ∈ F → j ∈ fpKey h0 eo en x) ∧ (∀ j, j ∉ F → t1.heap[j]? = t.heap[j]?) ∧
      CacheOK h0 (F ++ Wc) t1 ∧
      (r1 = nv ∨ (r1 = ov ∧ ov ≠ nv ∧ alookup x eo = some ov ∧ FuncPatched t1.heap ov nv ∧
        (∀ j, j ∈ fpOf t1.heap ov → j ∈ F) ∧ (∀ j, j ∈ fpOf t1.heap nv → j ∉ D :: writeSet h0 eo en))) := by
      rintro rfl
      obtain ⟨rfl, rfl⟩ := lp_same qrec
      exact ⟨[], fun j hj => (by cases hj), fun _ _ => rfl, (by simpa using hcache), Or.inl rfl⟩
    have hent := C.entry x hxc
    rcases hk x with hdone | ⟨_, hun⟩
    · rcases hdone with hd | ⟨fo, fn, a1, a2, a3, a4, hp, a6, a7⟩
      · rw [qov, qnv] at hd; cases hd; exact same rfl
      · exfalso
        have hfoWc : fo ∈ Wc := a6 fo hp.lookups.2.2
        unfold entryOKB at hent
        rw [a3, a2] at hent
        simp only [Bool.or_eq_true, Bool.and_eq_true, beq_iff_eq] at hent
        rcases hent with hh | ⟨hh, _⟩
        · exact a4 hh
        · rcases hh with hh | hh
          · rw [hWcA fo hfoWc] at hh; cases hh
          · have : fo ∈ fpKey h0 eo en x := by
              unfold fpKey; rw [a3, a2]; simp only [a4, if_false]; exact flatFuncB_mem hh
            exact (hWc fo hfoWc).2 (by rw [List.flatMap_cons]; exact List.mem_append_left _ this)
    · rw [qov] at hun
      have hov0 : alookup x eo = some ov := hun.symm
      by_cases hsame : ov = nv
      · exact same hsame
      unfold entryOKB at hent
      rw [hov0, qnv] at hent
      simp only [Bool.or_eq_true, Bool.and_eq_true, beq_iff_eq] at hent
      rcases hent with hh | ⟨hh, hnewB⟩
      · exact (hsame hh).elim
      have hfk : fpKey h0 eo en x = fpOf h0 ov := by unfold fpKey; rw [hov0, qnv]; simp [hsame]
      rcases hh with hat | hff
      · -- an atom
        obtain ⟨t0, v0, hov00⟩ := isAtomAt_iff.mp hat
        have hovs : ov ∉ [Mo] ++ [D] := fun hm => by rw [hvsA ov hm] at hat; cases hat
        have hoW : ov ∉ Wc := fun hm => by rw [hWcA ov hm] at hat; cases hat
        obtain ⟨hr, hh1, hc1⟩ := lp_atomOld C.dyn (hAK ov t0 v0 hov00) hat hovs hoW hcache qrec
        exact ⟨[], fun j hj => (by cases hj), fun _ _ => (by rw [hh1]), (by simpa using hc1), Or.inl hr⟩
      · -- a flat function
        have hFsub : ∀ j, j ∈ fpOf h0 ov → j ∈ writeSet h0 eo en := fun j hj => hfx j (by rw [hfk]; exact hj)
        have hFWc : ∀ j, j ∈ fpOf h0 ov → j ∉ Wc := fun j hj hm =>
          (hWc j hm).2 (by rw [List.flatMap_cons]; exact List.mem_append_left _ (by rw [hfk]; exact hj))
        have hFD : ∀ j, j ∈ fpOf h0 ov → j ≠ D := fun j hj e => hDW (e ▸ hFsub j hj)
        have hFF := flatFunc_of_B (h := t.heap) hff (by rw [← hfk]; exact hnx) (fun j hj => hfr j (hFWc j hj) (hFD j hj))
        obtain ⟨hnvW, hNS⟩ := newSide_of_B (h := t.heap) (F := fpOf h0 ov) hnewB
          (fun j hj => List.mem_cons_of_mem _ (hFsub j hj)) hWtag
        have hFvs : ∀ j, j ∈ fpOf h0 ov → j ∉ [Mo] ++ [D] := by
          intro j hj hm
          simp at hm
          rcases hm with rfl | rfl
          · exact C.hMoW (List.mem_cons_of_mem _ (hFsub _ hj))
          · exact hFD _ hj rfl
        obtain ⟨fr1, hc1, hres, _⟩ := lp_flatFunc C.dyn hAK hWcA hvsA hFF hNS hFvs hFWc hcache qrec
        refine ⟨fpOf h0 ov, fun j hj => by rw [hfk]; exact hj, fr1, hc1, ?_⟩
        rcases hres with ⟨hr, _⟩ | ⟨hr, hne', hp, hfp⟩
        · exact Or.inl hr
        · refine Or.inr ⟨hr, hne', hov0, hp, fun j hj => by rw [hfp] at hj; exact hj, ?_⟩
          have hnvF : nv ∉ fpOf h0 ov := fun hm => hnvW (List.mem_cons_of_mem _ (hFsub nv hm))
          rw [fpOf_congr (h := h0) (by rw [fr1 nv hnvF, hWtag nv hnvW])]
          exact newSide_fp hnewB
  obtain ⟨F, hF1, fr1, hc1, hres⟩ := summary
  have hFsub : ∀ j, j ∈ F → j ∈ writeSet h0 eo en := fun j hj => hfx j (hF1 j hj)
  have hFWc : ∀ j, j ∈ F → j ∉ Wc := fun j hj hm =>
    (hWc j hm).2 (by rw [List.flatMap_cons]; exact List.mem_append_left _ (hF1 j hj))
  have hFD : D ∉ F := fun hm => hDW (hFsub D hm)
  have hFL : ∀ j, j ∈ F → j ∉ L.flatMap (fpKey h0 eo en) := fun j hj hm => hdisj j (hF1 j hj) j hm rfl
  have heD1 : t1.heap[D]? = some (.dict e) := by rw [fr1 D hFD]; exact he
  -- atoms of the current heap are not written
  have hatDF : ∀ (j : Id) (t0 v : Str), t.heap[j]? = some (Obj.atom t0 v) → j ∉ D :: F := by
    intro j t0 v hj hm
    simp only [List.mem_cons] at hm
    rcases hm with rfl | hm
    · rw [he] at hj; cases hj
    · rw [hfr j (hFWc j hm) (fun e => hFD (e ▸ hm))] at hj
      have := C.hWA j (hFsub j hm)
      unfold isAtomAt at this; rw [hj] at this; cases this
  -- the final heap of the step
  have fin : ∃ e2, t'.heap[D]? = some (.dict e2) ∧ t'.cache = t1.cache ∧ (∀ j, j ≠ D → t'.heap[j]? = t1.heap[j]?) ∧
      ((r1 = ov ∧ e2 = e) ∨ (r1 ≠ ov ∧ e2 = aset x r1 e)) := by
    rcases qfin with ⟨hro, rfl⟩ | ⟨hro, e1, he1, rfl⟩
    · exact ⟨e, heD1, rfl, fun _ _ => rfl, Or.inl ⟨hro, rfl⟩⟩
    · rw [heD1] at he1; cases he1
      exact ⟨_, getElem?_set_self' heD1, rfl, fun j hj => List.getElem?_set_ne (Ne.symm hj), Or.inr ⟨hro, rfl⟩⟩
  obtain ⟨e2, he2, hcache2, fr2, hfin⟩ := fin
  have hkeeps : Keeps (D :: F) t.heap t'.heap := by
    intro j o hj ho
    simp only [List.mem_cons, not_or] at hj
    rw [fr2 j hj.1, fr1 j hj.2]; exact ho
  refine ⟨fun k hk' => hLc k (List.mem_cons_of_mem _ hk'), hnL, F ++ Wc, ?_, ?_, ?_, e2, he2, ?_⟩
  · intro j hj
    rcases List.mem_append.mp hj with hj | hj
    · exact ⟨hFsub j hj, hFL j hj⟩
    · exact ⟨(hWc j hj).1, fun hm => (hWc j hj).2 (by rw [List.flatMap_cons]; exact List.mem_append_right _ hm)⟩
  · intro c hc; exact hc1 c (by rw [← hcache2]; exact hc)
  · intro j hj hjD
    simp only [List.mem_append, not_or] at hj
    rw [fr2 j hjD, fr1 j hj.1]; exact hfr j hj.2 hjD
  · intro k
    by_cases hkx : k = x
    · subst hkx
      left
      rcases hres with hr | ⟨hr, hne', hov0, hp, hp1, hp2⟩
      · left
        rcases hfin with ⟨hro, rfl⟩ | ⟨_, rfl⟩
        · rw [qov, qnv, ← hro, hr]
        · rw [alookup_aset, hr]; simp [qnv]
      · right
        rcases hfin with ⟨_, rfl⟩ | ⟨hro, _⟩
        · refine ⟨ov, nv, qov, qnv, hov0, hne', ?_, ?_, ?_⟩
          · exact hp.keeps (F := [D]) (fun j o hj ho => by rw [fr2 j (by simpa using hj)]; exact ho)
              (fun j t0 v hj hm => by simp at hm; subst hm; rw [heD1] at hj; cases hj)
              (fun j hj hm => by simp at hm; subst hm; exact hFD (hp1 _ hj))
              (fun j hj hm => by simp at hm; subst hm; exact hp2 _ hj List.mem_cons_self)
          · obtain ⟨⟨o1, ho1⟩, _, hmem⟩ := hp.lookups
            have : ov ≠ D := fun e => hFD (e ▸ hp1 ov hmem)
            rw [fpOf_congr (h := t1.heap) (fr2 ov this)]
            exact fun j hj => List.mem_append_left _ (hp1 j hj)
          · obtain ⟨_, ⟨o2, ho2⟩, _⟩ := hp.lookups
            have hnvmem : nv ∈ fpOf t1.heap nv := by
              obtain ⟨n0, m, m', c', d', dc', di, ce, fv, nd, nc, e', en', hfo, hfn, _⟩ := hp
              unfold fpOf; rw [hfn]; exact List.mem_cons_self
            have : nv ≠ D := fun e => hp2 nv hnvmem (e ▸ List.mem_cons_self)
            rw [fpOf_congr (h := t1.heap) (fr2 nv this)]
            exact hp2
        · exact (hro hr).elim
    · rcases hk k with hd | ⟨hkL, hke⟩
      · left
        have hd' : Done (D :: writeSet h0 eo en) (F ++ Wc) eo en t'.heap e k :=
          hd.keeps hkeeps hatDF
            (fun j hj hm => by
              simp only [List.mem_cons] at hj
              rcases hj with rfl | hj
              · exact hDW (hWc _ hm).1
              · exact hFWc j hj hm)
            (fun j hj => by
              simp only [List.mem_cons] at hj
              rcases hj with rfl | hj
              · exact List.mem_cons_self
              · exact List.mem_cons_of_mem _ (hFsub j hj))
            (fun j hj => List.mem_append_right _ hj)
        rcases hfin with ⟨_, rfl⟩ | ⟨_, rfl⟩
        · exact hd'
        · rcases hd' with h1 | ⟨fo, fn, a1, a2, a3, a4, a5, a6, a7⟩
          · left; rw [alookup_aset]; simp [Ne.symm hkx, h1]
          · right; exact ⟨fo, fn, by rw [alookup_aset]; simp [Ne.symm hkx, a1], a2, a3, a4, a5, a6, a7⟩
      · right
        simp only [List.mem_cons] at hkL
        rcases hkL with rfl | hkL
        · exact (hkx rfl).elim
        · refine ⟨hkL, ?_⟩
          rcases hfin with ⟨_, rfl⟩ | ⟨_, rfl⟩
          · exact hke
          · rw [alookup_aset]; simp [Ne.symm hkx, hke]


theorem lp_flatDict {cx : Ctx} {h0 : List Obj} {Mo D N : Id} {eo en : List (Str × Id)} (C : FlatCtx cx h0 Mo D N eo en)
    (hne : D ≠ N) (hMoD : Mo ≠ D) {fuel : Nat} {s' : St} {r : Id}
    (h : lp cx fuel false [Mo] D N { heap := h0, cache := [] } = .ok (r, s')) :
    r = D ∧ (∀ j, j ∉ D :: writeSet h0 eo en → s'.heap[j]? = h0[j]?) ∧
    ∃ Wc e, (∀ j, j ∈ Wc → j ∈ writeSet h0 eo en) ∧ s'.heap[D]? = some (.dict e) ∧
      ∀ k, Done (D :: writeSet h0 eo en) Wc eo en s'.heap e k := by
  have hvs : D ∉ [Mo] := by simp; exact fun e => hMoD e.symm
  obtain ⟨n, s2, rfl, hdisp, rfl⟩ := lp_run (s := { heap := h0, cache := [] }) hne hvs rfl h
  unfold dispatch at hdisp
  simp only [bind_eq, pure_eq] at hdisp
  obtain ⟨k, s4, h7, h8⟩ := bind_ok.mp hdisp
  rw [resolveKind_dict (s := { heap := h0, cache := [] }) C.hD C.hN (by rw [C.dyn]; rfl)] at h7
  cases h7
  simp only at h8
  obtain ⟨hr, s3, e3, hc3, hd3, hfr3, he3, hloop⟩ := lpDict_ok (s := { heap := h0, cache := [] }) C.hD C.hN h8
  have hP0 : LoopInv h0 D eo en (commonKeys eo en) s3 := by
    refine ⟨fun _ hk => hk, (List.nodup_cons.mp C.nodup).2, [], fun j hj => (by cases hj), ?_, fun j _ hj => hfr3 j hj, e3, hd3, fun k => ?_⟩
    · intro c hc; rw [hc3] at hc; cases hc
    · by_cases a : hasKey k en = true
      · by_cases b : hasKey k eo = true
        · right; refine ⟨mem_commonKeys.mpr ⟨b, a⟩, ?_⟩; rw [he3 k]; simp [a, b]
        · left; left; rw [he3 k]; simp [a, b]
      · left; left
        have a' : hasKey k en = false := by simpa using a
        rw [he3 k]; simp [a', alookup_none_of_hasKey a']
  obtain ⟨_, _, Wc, hWc, _, hfr, e, he, hk⟩ :=
    forEach_inv_list (LoopInv h0 D eo en) (fun x L t t' hI hst => flatStep C hI hst) _ s3 s2 hP0 hloop
  refine ⟨hr, fun j hj => ?_, Wc, e, fun j hj => (hWc j hj).1, he, fun k => ?_⟩
  · simp only [List.mem_cons, not_or] at hj
    exact hfr j (fun hm => hj.2 (hWc j hm).1) hj.1
  · rcases hk k with hd | ⟨hm, _⟩
    · exact hd
    · cases hm

theorem obs_of_done {Wt Wc : List Id} {eo en e : List (Str × Id)} {h : List Obj} {D N : Id}
    (hD : h[D]? = some (.dict e)) (hN : h[N]? = some (.dict en)) (hk : ∀ k, Done Wt Wc eo en h e k) : ObsEq h D h N := by
  intro n
  cases n with
  | zero => rfl
  | succ n =>
    rw [obsEq_succ_dict hD hN]
    unfold obsTable
    rw [List.all_eq_true]
    intro k _
    rcases hk k with hd | ⟨fo, fn, a1, a2, _, _, hp, _, _⟩
    · rw [hd]
      cases alookup k en with
      | none => rfl
      | some v => exact obsEq_refl h n v
    · rw [a1, a2]; exact hp.obs n

theorem flatCtx_of_flatModule {cx : Ctx} {h0 : List Obj} {Mo Mn D N : Id} {eo en : List (Str × Id)}
    (hdyn : cx.dyn = []) (hMo : h0[Mo]? = some (.module D)) (hMn : h0[Mn]? = some (.module N))
    (hD : h0[D]? = some (.dict eo)) (hN : h0[N]? = some (.dict en)) (hf : flatModule h0 Mo Mn = true) :
    FlatCtx cx h0 Mo D N eo en ∧ Mo ≠ Mn ∧ D ≠ N := by
  unfold flatModule at hf
  simp only [hMo, hMn, hD, hN, Bool.and_eq_true, bne_iff_ne, ne_eq, decide_eq_true_eq, Bool.not_eq_true',
    List.contains_eq_mem, decide_eq_false_iff_not, List.all_eq_true] at hf
  obtain ⟨⟨⟨⟨⟨⟨h1, h2⟩, h3⟩, h4⟩, h5⟩, h6⟩, h7⟩ := hf
  exact ⟨⟨hdyn, hD, hN, ⟨D, hMo⟩, h3, h4, h5, fun j hj => by simpa using h6 j hj, h7⟩, h1, h2⟩

/-- the top-level call of `_xreload_module` on a flat module -/
theorem lp_module_obs {cx : Ctx} {h0 : List Obj} {Mo Mn D N : Id} {eo en : List (Str × Id)} {fuel : Nat} {s' : St} {r : Id}
    (hdyn : cx.dyn = []) (hMo : h0[Mo]? = some (.module D)) (hMn : h0[Mn]? = some (.module N))
    (hD : h0[D]? = some (.dict eo)) (hN : h0[N]? = some (.dict en)) (hf : flatModule h0 Mo Mn = true)
    (h : lp cx fuel true [] Mo Mn { heap := h0, cache := [] } = .ok (r, s')) :
    r = Mo ∧ s'.heap[Mo]? = some (.module D) ∧ s'.heap[N]? = some (.dict en) ∧
    ∃ Wc e, (∀ j, j ∈ Wc → j ∈ writeSet h0 eo en) ∧ s'.heap[D]? = some (.dict e) ∧
      ∀ k, Done (D :: writeSet h0 eo en) Wc eo en s'.heap e k := by
  obtain ⟨C, hMM, hDN⟩ := flatCtx_of_flatModule (cx := cx) hdyn hMo hMn hD hN hf
  have hMoD : Mo ≠ D := fun e => C.hMoW (e ▸ List.mem_cons_self)
  obtain ⟨n, s2, rfl, hdisp, rfl⟩ := lp_run (s := { heap := h0, cache := [] }) hMM (by simp) rfl h
  unfold dispatch at hdisp
  simp only [bind_eq, pure_eq] at hdisp
  obtain ⟨k, s4, h7, h8⟩ := bind_ok.mp hdisp
  rw [resolveKind_module (s := { heap := h0, cache := [] }) hMo hMn] at h7
  cases h7
  simp only at h8
  unfold lpModule at h8
  simp only [bind_eq, pure_eq] at h8
  obtain ⟨o, s5, h9, h10⟩ := bind_ok.mp h8
  rw [getObj_eq (s := { heap := h0, cache := [] }) hMo] at h9; cases h9
  obtain ⟨nn, s6, h11, h12⟩ := bind_ok.mp h10
  rw [getObj_eq (s := { heap := h0, cache := [] }) hMn] at h11; cases h11
  simp only at h12
  obtain ⟨rd, s7, h13, h14⟩ := bind_ok.mp h12
  obtain ⟨hrd, hfr, Wc, e, hWc, he, hk⟩ := lp_flatDict C hDN hMoD h13
  rw [hrd] at h14
  simp only [if_true] at h14
  obtain ⟨hr, hs⟩ := pure_ok.mp h14
  subst hs
  exact ⟨hr, by rw [hfr Mo C.hMoW]; exact hMo, by rw [hfr N C.hNW]; exact hN, Wc, e, hWc, he, hk⟩


/-- pointwise observational equality of two optional bindings in one heap -/
def ObsOpt (h : List Obj) : Option Id → Option Id → Prop
  | some x, some y => ObsEq h x h y
  | none, none => True
  | _, _ => False

/-- **C16_obs_partial.**  For every world and every scratch module such that the pair is a `flatModule` (old namespace:
    atoms, flat functions, or the very object the new namespace binds; no aliasing among the objects written; the new
    objects are not among them), with plain types (`dyn = []`), for every fuel and **every** combination of repairs:
    after a successful `_xreload_module` the result is the old module, and its namespace — the old dict object `D`,
    patched in place — binds exactly the names of the scratch namespace `N` (which is untouched) plus `__loadtime__`,
    each to an object observationally equal (`ObsEq`: bisimilar to every depth) to the one the fresh import binds. -/
theorem C16_obs_partial (w w' : World) (i : ReloadIn) (objs : List Obj) (m D N : Id) (eo en : List (Str × Id))
    (hc : i.compileOk = true) (ho : i.outcome = .ok objs) (hdyn : i.dyn = [])
    (hMo : (w.heap ++ objs)[i.module]? = some (.module D))
    (hMn : (w.heap ++ objs)[w.heap.length]? = some (.module N))
    (hD : (w.heap ++ objs)[D]? = some (.dict eo)) (hN : (w.heap ++ objs)[N]? = some (.dict en))
    (hflat : flatModule (w.heap ++ objs) i.module w.heap.length = true)
    (h : xreload w i = (w', .ok m)) :
    m = i.module ∧ ∃ e', w'.heap[D]? = some (.dict e') ∧ w'.heap[N]? = some (.dict en) ∧
      ∀ k, k ≠ loadtimeKey → ObsOpt w'.heap (alookup k e') (alookup k en) := by
  unfold xreload at h
  simp only [hc, ho, Bool.not_true, Bool.false_eq_true, if_false] at h
  split at h
  · cases h
  · rename_i r s hl
    obtain ⟨hr, hMo', hN', Wc, e, hWc, he, hk⟩ :=
      lp_module_obs (cx := { modname := some i.name, sysmods := aset i.name w.heap.length w.sysmods, fx := i.fx, dyn := i.dyn })
        hdyn hMo hMn hD hN hflat hl
    obtain ⟨C, _, hDN⟩ := flatCtx_of_flatModule
      (cx := { modname := some i.name, sysmods := aset i.name w.heap.length w.sysmods, fx := i.fx, dyn := i.dyn })
      hdyn hMo hMn hD hN hflat
    have hDW : D ∉ writeSet (w.heap ++ objs) eo en := (List.nodup_cons.mp C.nodup).1
    simp only [hMo'] at h
    split at h
    · rename_i u s2 hu
      obtain ⟨e2, he2, rfl⟩ := updDict_ok hu
      cases h
      have hlt : ∀ {j : Id} {o : Obj}, s.heap[j]? = some o → (s.heap ++ [i.mtime])[j]? = some o := by
        intro j o hj
        have hjl : j < s.heap.length := by
          rcases Nat.lt_or_ge j s.heap.length with hl | hl
          · exact hl
          · rw [List.getElem?_eq_none hl] at hj; cases hj
        rw [List.getElem?_append_left hjl]; exact hj
      rw [hlt he] at he2; cases he2
      have hkeeps : Keeps [D] s.heap ((s.heap ++ [i.mtime]).set D (.dict (aset loadtimeKey s.heap.length e))) := by
        intro j o hj ho
        have : D ≠ j := fun e => hj (by simp [e])
        rw [List.getElem?_set_ne this]; exact hlt ho
      refine ⟨rfl, aset loadtimeKey s.heap.length e, ?_, ?_, fun k hkl => ?_⟩
      · show ((s.heap ++ [i.mtime]).set D _)[D]? = _
        exact getElem?_set_self' (hlt he)
      · exact hkeeps N _ (by simp; exact fun e => hDN e.symm) hN'
      · show ObsOpt ((s.heap ++ [i.mtime]).set D _) _ _
        rw [alookup_aset]
        simp only [Ne.symm hkl, if_false]
        rcases hk k with hd | ⟨fo, fn, a1, a2, _, _, hp, a6, a7⟩
        · rw [hd]
          cases alookup k en with
          | none => trivial
          | some v => exact ObsEq.refl _ v
        · rw [a1, a2]
          exact (hp.keeps hkeeps
            (fun j t0 v hj hm => by simp at hm; subst hm; rw [he] at hj; cases hj)
            (fun j hj hm => by simp at hm; subst hm; exact hDW (hWc _ (a6 _ hj)))
            (fun j hj hm => by simp at hm; subst hm; exact a7 _ hj List.mem_cons_self)).obs
    · cases h


/-! ## the hypotheses are satisfiable, and they are the right ones -/
section Examples

def sf : Str := ['f']
def sg : Str := ['g']
def sg2 : Str := ['g', '2']
def sX : Str := ['X']
def sK : Str := ['K']
def sI : Str := ['i']

/-- old module `m`: `f` (a closure instance with one int cell and an attribute `f.a = 1`), `g`, `X = 1`, `K = None` -/
def wObs : World :=
  { heap := [ .module 1, .dict [(sf, 2), (sg, 6), (sX, 8), (sK, 9)],
              .func sf (some sM) 10 0 0 3 [4] [sY], .dict [(sa, 8)], .cell 5, .atom sI ['1'],
              .func sg (some sM) 11 0 0 7 [] [], .dict [], .atom sI ['1'], noneAtom ],
    sysmods := [(sM, 0)] }

/-- the scratch module: `f` has new code, defaults and attribute value (same closure shape and cell value), `g` is now a
    function with another `__name__` (replaced, not patched), `X = 2`, `K` is now a **class**, `h` is a new name -/
def newObs : List Obj :=
  [ .module 11, .dict [(sf, 12), (sg, 16), (sX, 18), (sK, 19), (sh, 16)],
    .func sf (some sM) 20 1 0 13 [14] [sY], .dict [(sa, 18)], .cell 15, .atom sI ['1'],
    .func sg2 (some sM) 21 0 0 17 [] [], .dict [], .atom sI ['2'],
    .cls sK (some sM) none [] [(docKey, 9)] ]

def inObs (fx : Fixes) : ReloadIn :=
  { name := sM, module := 0, compileOk := true, outcome := .ok newObs, mtime := .atom ['f'] ['1'], fuel := 20, fx := fx }

/-- all hypotheses of `C16_obs_partial` hold for the two-function / one-class pair (code as found and current tree) -/
example : flatModule (wObs.heap ++ newObs) 0 10 = true ∧ okIs (xreload wObs (inObs {})).2 0 = true ∧
    okIs (xreload wObs (inObs { d18 := true, d41 := true, d44 := true, d45 := true, d52 := true })).2 0 = true := by decide

/-- … and the theorem applied to it: `f` kept its identity (object 2) and is bisimilar to the fresh `f` (object 12) -/
example : bound (xreload wObs (inObs {})).1.heap 1 sf 2 = true ∧ ObsOpt (xreload wObs (inObs {})).1.heap (some 2) (some 12) := by
  obtain ⟨_, e', he', _, hk⟩ := C16_obs_partial wObs (xreload wObs (inObs {})).1 (inObs {}) newObs 0 1 11 _ _ rfl rfl rfl rfl rfl rfl rfl
    (by decide) (show xreload wObs (inObs {}) = ((xreload wObs (inObs {})).1, .ok 0) by rfl)
  have hb : bound (xreload wObs (inObs {})).1.heap 1 sf 2 = true := by decide
  refine ⟨hb, ?_⟩
  have := hk sf (by decide)
  have h2 : alookup sf e' = some 2 := by
    unfold bound at hb; rw [he'] at hb; simpa using hb
  rw [h2] at this
  exact this

/-- **D18** (`class C` / `class D(C)`): the pair is outside `flatModule` — classes are patched in place -/
theorem D18_not_flat : flatModule (w18.heap ++ new18) 0 5 = false := by decide

/-- … and tree-shaped observational equality cannot see D18 at all: after the reload of the code as found, the patched
    `D` (object 3) *is* `obsEq` to the fresh `D` (object 8) — its base is the scratch `C`, which looks like `C`.  What is
    wrong there is a relation *between* two bindings (`m.D.__bases__[0] is m.C`), which `isSubclass` in Props.lean
    observes (`D18_issubclass_false`). -/
theorem D18_invisible_to_obsEq :
    obsEq (xreload w18 (in18 {})).1.heap (xreload w18 (in18 {})).1.heap 10 3 8 = true := by decide

/-- **D17** (`cl = outer(1)` → `cl = outer(2)`): the pair *is* a `flatModule`, so by `C16_obs_partial` the namespace is
    observationally equal to the fresh import — the module binds the new object.  The defect is that the reference
    captured before the reload (object 2) is not: it differs from the fresh `cl` (object 8) at depth 3 (the cell's int),
    and `funcCompat`, the hypothesis of the identity clause (`lp_func_obs`, `C16_function`), is false. -/
theorem witness_D17_captured_ref_not_obs :
    flatModule (w17.heap ++ new17 ['2']) 0 6 = true ∧
    obsEq (xreload w17 (in17 ['2'])).1.heap (xreload w17 (in17 ['2'])).1.heap 4 2 8 = false ∧
    funcCompat [] (w17.heap ++ new17 ['2']) 2 8 = false := by decide

/-! D46: `def f(): A` / `g = f`  →  `def f(): A'` / `g = f` / `def f(): B'` — one old object paired with two new ones -/
def w46 : World :=
  { heap := [ .module 1, .dict [(sf, 2), (sg, 2)], .func sf (some sM) 100 0 0 3 [] [], .dict [] ],
    sysmods := [(sM, 0)] }
def new46 : List Obj :=
  [ .module 5, .dict [(sf, 6), (sg, 8)], .func sf (some sM) 200 0 0 7 [] [], .dict [],
    .func sf (some sM) 300 0 0 9 [] [], .dict [] ]
def in46 : ReloadIn :=
  { name := sM, module := 0, compileOk := true, outcome := .ok new46, mtime := .atom ['f'] ['1'], fuel := 20 }

/-- **D46**: the no-aliasing clause of `flatModule` is necessary — without it the reload succeeds and the namespace is
    *not* observationally equal to the fresh one (`m.f` has the code of the fresh `g`). -/
theorem witness_D46_aliasing_needed :
    flatModule (w46.heap ++ new46) 0 4 = false ∧ okIs (xreload w46 in46).2 0 = true ∧
    obsEq (xreload w46 in46).1.heap (xreload w46 in46).1.heap 3 1 5 = false := by decide

end Examples

end Pfb.C16
