/-
  Pfb.C16.Props — property theorems for C16 (xreload updates live references and is atomic when the new code fails).
  The model is `Pfb.C16.Model`; the frame invariant and the dict lemmas are in `Pfb.C16.Lemmas`.
  Every theorem holds for all heaps, all fuel values and all sixteen combinations of the repairs `Fixes` unless it
  names a flag.
-/
import Pfb.C16.Lemmas
namespace Pfb.C16
open Pfb

/-! ## Rollback -/

/-- **C16_rollback.**  If executing the new source raises at statement `stmt` — for every heap, every registry, every
    statement index and every list of objects the partial execution allocated — `_xreload_module` re-raises, the module
    registry is exactly what it was (also when the module was *absent* from it), and every object that existed before
    the attempt is untouched. -/
theorem C16_rollback (w : World) (i : ReloadIn) (stmt : Nat) (objs : List Obj)
    (hc : i.compileOk = true) (ho : i.outcome = .fail stmt objs) :
    (xreload w i).2 = .error (.execFailed stmt) ∧ (xreload w i).1.sysmods = w.sysmods ∧
      ∀ j, j < w.heap.length → (xreload w i).1.heap[j]? = w.heap[j]? := by
  unfold xreload
  simp only [hc, ho, Bool.not_true, Bool.false_eq_true, if_false]
  refine ⟨by trivial, restore_aset _ _ _, fun j hj => ?_⟩
  simp [List.getElem?_append_left hj]

/-- a source that does not compile: nothing at all happens -/
theorem C16_rollback_syntax (w : World) (i : ReloadIn) (hc : i.compileOk = false) :
    xreload w i = (w, .error .syntaxError) := by
  unfold xreload
  simp [hc]

/-- also when `livepatch` itself fails, the registry entry is restored (the *heap* is not: see the witness
    `livepatch_failure_not_atomic` below) -/
theorem C16_registry_restored (w : World) (i : ReloadIn) (objs : List Obj) (e : Err)
    (hc : i.compileOk = true) (ho : i.outcome = .ok objs)
    (hl : lp { modname := some i.name, sysmods := aset i.name w.heap.length w.sysmods, fx := i.fx, dyn := i.dyn } i.fuel true []
            i.module w.heap.length { heap := w.heap ++ objs, cache := [] } = .error e) :
    (xreload w i).2 = .error e ∧ (xreload w i).1.sysmods = w.sysmods := by
  unfold xreload
  simp only [hc, ho, Bool.not_true, Bool.false_eq_true, if_false, hl]
  exact ⟨by trivial, restore_aset _ _ _⟩

/-! ## The reload guard -/

/-- a file written at or after the load time is never skipped on account of the times -/
theorem reloadNeeded_of_le (loadtime mtime : Nat) (h : loadtime ≤ mtime) : reloadNeeded loadtime mtime = true := by
  unfold reloadNeeded; simp; omega

/-- … and only a file strictly older than the load time is -/
theorem reloadNeeded_iff (loadtime mtime : Nat) : reloadNeeded loadtime mtime = true ↔ loadtime ≤ mtime := by
  unfold reloadNeeded; simp

/-- **C16_second_edit_reloaded.**  A successful reload records `__loadtime__ := t` (the file's mtime).  Any later edit
    whose mtime `t'` is *equal to* or later than `t` and whose text differs is reloaded — in particular two edits within
    one timestamp tick of the file system. -/
theorem C16_second_edit_reloaded (w : World) (i : ReloadIn) (t t' : Nat) (h : t ≤ t') :
    xreloadGuarded w i t t' false = ((xreload w i).1, .ran (xreload w i).2) := by
  unfold xreloadGuarded
  simp [reloadNeeded_of_le t t' h]

/-- a file older than the load time, or an unchanged text, changes nothing at all -/
theorem C16_guard_skip_unchanged (w : World) (i : ReloadIn) (t t' : Nat) (same : Bool)
    (h : t' < t ∨ same = true) : (xreloadGuarded w i t t' same).1 = w := by
  unfold xreloadGuarded
  rcases h with h | h
  · have : reloadNeeded t t' = false := by unfold reloadNeeded; simp; omega
    simp [this]
  · subst h
    by_cases hn : reloadNeeded t t' = true <;> simp [hn]

/-! ## Names -/

/-- **C16_names.**  A successful `_xreload_module` — for every old heap, every scratch module the new source built,
    every fuel and every combination of repairs: the result is the old module object, the registry maps the name to
    it, and the old module's namespace has exactly the names of the scratch namespace (plus `__loadtime__`):
    names deleted from the source are gone, new names are there. -/
theorem C16_names (w w' : World) (i : ReloadIn) (objs : List Obj) (m D N : Id) (ed en : List (Str × Id))
    (hc : i.compileOk = true) (ho : i.outcome = .ok objs)
    (hMo : (w.heap ++ objs)[i.module]? = some (.module D))
    (hMn : (w.heap ++ objs)[w.heap.length]? = some (.module N))
    (hD : (w.heap ++ objs)[D]? = some (.dict ed)) (hN : (w.heap ++ objs)[N]? = some (.dict en))
    (hM : i.module ≠ w.heap.length) (hne : D ≠ N) (hdyn : dynOf i.dyn D = dynOf i.dyn N)
    (h : xreload w i = (w', .ok m)) :
    m = i.module ∧ alookup i.name w'.sysmods = some i.module ∧
      ∃ e', w'.heap[D]? = some (.dict e') ∧ ∀ k, hasKey k e' = (hasKey k en || decide (loadtimeKey = k)) := by
  unfold xreload at h
  simp only [hc, ho, Bool.not_true, Bool.false_eq_true, if_false] at h
  split at h
  · cases h
  · rename_i r s hl
    have key := lp_module_names (s := { heap := w.heap ++ objs, cache := [] }) hM hne rfl hMo hMn hD hN hdyn hl
    obtain ⟨hr, hMo', e', hD', hk⟩ := key
    simp only [hMo'] at h
    split at h
    · rename_i u s2 hu
      obtain ⟨e2, he2, rfl⟩ := updDict_ok hu
      cases h
      have hDlt : D < s.heap.length := by
        rcases Nat.lt_or_ge D s.heap.length with hl | hl
        · exact hl
        · rw [List.getElem?_eq_none hl] at hD'; cases hD'
      simp only [List.getElem?_append_left hDlt, hD'] at he2
      cases he2
      refine ⟨rfl, ?_, aset loadtimeKey s.heap.length e', ?_, fun k => ?_⟩
      · rw [alookup_aset]; simp [hr]
      · show ((s.heap ++ [i.mtime]).set D _)[D]? = _
        exact getElem?_set_self' (o := .dict e') (by rw [List.getElem?_append_left hDlt]; exact hD')
      · rw [hasKey_aset, hk k, Bool.or_comm]
    · cases h

/-! ## Functions -/

/-- **C16_function.**  `livepatch(old_func, new_func)` that is not cut short (not on the visit stack, not cached), for
    every heap, fuel and combination of repairs:
    * same name, same number of cells, same free variables and compatible cell contents (`funcCompat`, evaluated on
      the heap at the time of the call) ⇒ the *old* function object is returned, and — provided no bound method or
      classmethod wrapper shares it (`NoMethRef`) — when the whole call returns it still has its name, module, dict
      object and cells, with code, defaults and doc of the new function;
    * otherwise the *new* object is returned and the heap is untouched (this covers D17: a cell holding a changed
      non-updatable value makes `funcCompat` false);
    * a new function that belongs to another module is returned as is. -/
theorem C16_function {cx : Ctx} {fuel : Nat} {vs : List Id} {fo fn : Id} {s s' : St} {r : Id}
    {n m c d dc di ce fv n' m' c' d' dc' di' ce' fv'}
    (hne : fo ≠ fn) (hvs : fo ∉ vs) (hc : s.cache.find? (fun e => e.1 = (fo, fn)) = none)
    (hfo : s.heap[fo]? = some (.func n m c d dc di ce fv)) (hfn : s.heap[fn]? = some (.func n' m' c' d' dc' di' ce' fv'))
    (h : lp cx fuel false vs fo fn s = .ok (r, s')) :
    (patchable cx m m' = true → funcCompat cx.dyn s.heap fo fn = true →
        r = fo ∧ (NoMethRef s.heap fo → s'.heap[fo]? = some (.func n m c' d' dc' di ce fv))) ∧
    (patchable cx m m' = true → funcCompat cx.dyn s.heap fo fn = false → r = fn ∧ s'.heap = s.heap) ∧
    (patchable cx m m' = false → r = fn ∧ s'.heap = s.heap) := by
  cases fuel with
  | zero => unfold lp at h; exact (fail_ok.mp h).elim
  | succ k =>
    unfold lp at h
    have hc' : vs.contains fo = false := by simpa using hvs
    simp only [hne, if_false, hc', bind_eq, pure_eq, Bool.false_eq_true] at h
    obtain ⟨c0, s1, h1, h2⟩ := bind_ok.mp h
    rw [cacheGet_miss hc] at h1
    cases h1
    simp only at h2
    obtain ⟨r1, s2, h3, h4⟩ := bind_ok.mp h2
    obtain ⟨u, s3, h5, h6⟩ := bind_ok.mp h4
    obtain ⟨hr, hs⟩ := pure_ok.mp h6
    subst hs hr
    unfold cachePut at h5
    cases h5
    unfold dispatch at h3
    simp only [bind_eq, pure_eq] at h3
    obtain ⟨kd, s4, h7, h8⟩ := bind_ok.mp h3
    rw [resolveKind_func hfo hfn] at h7
    cases h7
    by_cases hsm : patchable cx m m' = true
    · simp only [hsm, if_true] at h8
      unfold lpFunction at h8
      simp only [bind_eq, pure_eq] at h8
      obtain ⟨o, s5, h9, h10⟩ := bind_ok.mp h8
      rw [getObj_eq hfo] at h9; cases h9
      obtain ⟨nn, s6, h11, h12⟩ := bind_ok.mp h10
      rw [getObj_eq hfn] at h11; cases h11
      simp only at h12
      obtain ⟨t, s7, h13, h14⟩ := bind_ok.mp h12
      obtain ⟨e1, e2⟩ := getSt_ok h13
      rw [e1] at h14; rw [e2] at h14
      clear h13 e1 e2
      by_cases hcompat : funcCompat cx.dyn s.heap fo fn = true
      · simp only [hcompat, Bool.not_true, Bool.false_eq_true, if_false] at h14
        refine ⟨fun _ _ => ?_, fun _ hf => ?_, fun hf => ?_⟩
        · unfold lpFunctionBody at h14
          simp only [bind_eq, pure_eq] at h14
          obtain ⟨u1, s8, h15, h16⟩ := bind_ok.mp h14
          have hrec : RecOK (lp cx k false) := fun vs o nw => lp_frame cx k false vs o nw
          have rest : Pres (vs ++ [fo]) (M.bind (lp cx k false (vs ++ [fo]) di di') fun _ =>
              M.bind (lpCells cx (lp cx k false) (vs ++ [fo]) ce ce') fun _ => M.pure fo) := by
            repeat' pres_step
            · exact hrec _ _ _
            · exact Pres.lpCells hrec (fun _ hi => hi) _ _
          have F2 := rest s8 _ _ h16
          have hres : r = fo := by
            obtain ⟨_, s9, _, h18⟩ := bind_ok.mp h16
            obtain ⟨_, s10, _, h20⟩ := bind_ok.mp h18
            exact (pure_ok.mp h20).1
          refine ⟨hres, fun nm => ?_⟩
          obtain ⟨n0, m0, c0, d0, dc0, di0, ce0, fv0, he0, hs8⟩ := updFunc_ok h15
          rw [hfo] at he0; cases he0
          have F1 : Frame [] s.heap s8.heap := updFunc_frame (Or.inl (by simp)) h15
          have hfo8 : s8.heap[fo]? = some (.func n m c' d' dc' di ce fv) := by
            rw [hs8]; exact getElem?_set_self' hfo
          rw [F2.keep fo (List.mem_append_right _ (List.mem_singleton.mpr rfl)) (prot_func hfo8 (F1.nomr fo nm))]
          exact hfo8
        · rw [hcompat] at hf; cases hf
        · rw [hsm] at hf; cases hf
      · have hcf : funcCompat cx.dyn s.heap fo fn = false := by simpa using hcompat
        simp only [hcf, Bool.not_false, if_true] at h14
        obtain ⟨hr, hs⟩ := pure_ok.mp h14
        rw [hs]
        refine ⟨fun _ hf => ?_, fun _ _ => ⟨hr, rfl⟩, fun hf => ?_⟩
        · rw [hcf] at hf; cases hf
        · rw [hsm] at hf; cases hf
    · have hsm' : patchable cx m m' = false := by simpa using hsm
      simp only [hsm', Bool.false_eq_true, if_false] at h8
      obtain ⟨hr, hs⟩ := pure_ok.mp h8
      rw [hs]
      refine ⟨fun hf _ => ?_, fun hf _ => ?_, fun _ => ⟨hr, rfl⟩⟩ <;> (rw [hsm'] at hf; cases hf)

/-! ## Classes -/

/-- **C16_class.**  `livepatch(old_class, new_class)` that is not cut short, for every heap, fuel and combination of
    repairs:
    * the `__slots__` entries are equal (`optValEq`) ⇒ the *old* class object is returned and, when the call returns,
      it has its own name/module/slot names, an attribute table whose key set is that of the new class (`clsTarget`:
      with repair D44 the `__dict__`/`__weakref__` descriptors are left as they were), and — for the code as found
      (`d18 = false`) — **the bases of the new class, verbatim**: these are objects of the scratch module (D18);
    * different `__slots__` ⇒ the new class is returned, heap untouched;  a class of another module ⇒ likewise. -/
theorem C16_class {cx : Ctx} {fuel : Nat} {vs : List Id} {co cn : Id} {s s' : St} {r : Id}
    {n m sl b a n' m' sl' b' a'}
    (hne : co ≠ cn) (hvs : co ∉ vs) (hc : s.cache.find? (fun e => e.1 = (co, cn)) = none)
    (hco : s.heap[co]? = some (.cls n m sl b a)) (hcn : s.heap[cn]? = some (.cls n' m' sl' b' a'))
    (hdyn : dynOf cx.dyn co = dynOf cx.dyn cn)
    (h : lp cx fuel false vs co cn s = .ok (r, s')) :
    (patchable cx m m' = true → optValEq s.heap (alookup slotsKey a) (alookup slotsKey a') = true →
        r = co ∧ ∃ b'' a'', s'.heap[co]? = some (.cls n m sl b'' a'') ∧ (∀ k, hasKey k a'' = clsTarget cx.fx a a' k) ∧
          (cx.fx.d18 = false → b'' = b')) ∧
    (patchable cx m m' = true → optValEq s.heap (alookup slotsKey a) (alookup slotsKey a') = false →
        r = cn ∧ s'.heap = s.heap) ∧
    (patchable cx m m' = false → r = cn ∧ s'.heap = s.heap) := by
  cases fuel with
  | zero => unfold lp at h; exact (fail_ok.mp h).elim
  | succ k =>
    unfold lp at h
    have hc' : vs.contains co = false := by simpa using hvs
    simp only [hne, if_false, hc', bind_eq, pure_eq, Bool.false_eq_true] at h
    obtain ⟨c0, s1, h1, h2⟩ := bind_ok.mp h
    rw [cacheGet_miss hc] at h1
    cases h1
    simp only at h2
    obtain ⟨r1, s2, h3, h4⟩ := bind_ok.mp h2
    obtain ⟨u, s3, h5, h6⟩ := bind_ok.mp h4
    obtain ⟨hr, hs⟩ := pure_ok.mp h6
    subst hs hr
    unfold cachePut at h5
    cases h5
    unfold dispatch at h3
    simp only [bind_eq, pure_eq] at h3
    obtain ⟨kd, s4, h7, h8⟩ := bind_ok.mp h3
    rw [resolveKind_cls hco hcn hdyn] at h7
    cases h7
    by_cases hsm : patchable cx m m' = true
    · simp only [hsm, if_true] at h8
      unfold lpClass at h8
      simp only [bind_eq, pure_eq] at h8
      obtain ⟨o, s5, h9, h10⟩ := bind_ok.mp h8
      rw [getObj_eq hco] at h9; cases h9
      obtain ⟨nn, s6, h11, h12⟩ := bind_ok.mp h10
      rw [getObj_eq hcn] at h11; cases h11
      simp only at h12
      obtain ⟨t, s7, h13, h14⟩ := bind_ok.mp h12
      obtain ⟨e1, e2⟩ := getSt_ok h13
      rw [e1] at h14; rw [e2] at h14
      clear h13 e1 e2
      by_cases hsl : optValEq s.heap (alookup slotsKey a) (alookup slotsKey a') = true
      · simp only [hsl, Bool.not_true, Bool.false_eq_true, if_false] at h14
        refine ⟨fun _ _ => ?main, fun _ hf => ?g2, fun hf => ?g3⟩
        case g2 => rw [hsl] at hf; cases hf
        case g3 => rw [hsm] at hf; cases hf
        have hrec : RecOK (lp cx k false) := fun vs o nw => lp_frame cx k false vs o nw
        have hin : co ∈ vs ++ [co] := List.mem_append_right _ (List.mem_singleton.mpr rfl)
        -- the two set-difference loops
        obtain ⟨u1, t1, g1, g2⟩ := bind_ok.mp h14
        obtain ⟨u2, t2, g3, g4⟩ := bind_ok.mp g2
        obtain ⟨bases, t3, g5, g6⟩ := bind_ok.mp g4
        obtain ⟨u4, t4, g7, g8⟩ := bind_ok.mp g6
        have p1 := forEach_cls (old := co) (n := n) (m := m) (sl := sl) (b := b) (delattrOf co) (fun k => adel k)
          (fun k s s' a ha hh => delattrOf_cls ha hh) _ s t1 a hco g1
        have p2 := forEach_cls (old := co) (n := n) (m := m) (sl := sl) (b := b)
          (fun k => setattrOf co k ((alookup k (if cx.fx.d44 then layoutFilter a' else a')).getD 0))
          (fun k => aset k ((alookup k (if cx.fx.d44 then layoutFilter a' else a')).getD 0))
          (fun k s s' a ha hh => setattrOf_cls ha hh) _ t1 t2 _ p1 g3
        -- the bases
        have p3 : t3.heap[co]? = t2.heap[co]? ∧ (cx.fx.d18 = false → bases = b') := by
          unfold classBases at g5
          cases hd : cx.fx.d18
          · simp only [hd, Bool.false_eq_true, if_false] at g5
            obtain ⟨e1, e2⟩ := pure_ok.mp g5
            rw [e1, e2]
            exact ⟨rfl, fun _ => rfl⟩
          · simp only [hd, if_true] at g5
            have F := Pres.lpBases (vs0 := vs ++ [co]) hrec (fun _ hi => hi) b b' t2 _ _ g5
            exact ⟨F.keep co hin (prot_cls p2), fun hh => by cases hh⟩
        obtain ⟨A2, hA2, hA2k⟩ : ∃ A2, t2.heap[co]? = some (.cls n m sl b A2) ∧
            ∀ x, hasKey x A2 = clsTarget cx.fx a a' x := ⟨_, p2, fun x => by
              have := cls_keys_sync cx.fx a a' x
              simp only [layoutFilter] at this ⊢
              exact this⟩
        obtain ⟨n0, m0, sl0, b0, a0, he, ht4⟩ := updClsBases_ok g7
        rw [p3.1, hA2] at he; cases he
        have p4 : t4.heap[co]? = some (.cls n m sl bases A2) := by
          rw [ht4]; exact getElem?_set_self' (by rw [p3.1]; exact hA2)
        -- __doc__, then the loop over the common names
        cases hdoc : alookup docKey (if cx.fx.d44 then layoutFilter a' else a') with
        | none => simp only [layoutFilter] at hdoc; simp only [layoutFilter, hdoc] at g8; exact (fail_ok.mp g8).elim
        | some dv =>
          simp only [layoutFilter] at hdoc
          simp only [layoutFilter, hdoc] at g8
          obtain ⟨u5, t5, g9, g10⟩ := bind_ok.mp g8
          obtain ⟨u6, t6, g11, g12⟩ := bind_ok.mp g10
          obtain ⟨hr, hs⟩ := pure_ok.mp g12
          have p5 := setattrOf_cls p4 g9
          have hna : ∀ x, hasKey x (if cx.fx.d44 then layoutFilter a' else a') = true → clsTarget cx.fx a a' x = true := by
            intro x hx
            unfold clsTarget
            cases hd : cx.fx.d44
            · simpa [hd] using hx
            · simp only [hd, if_true, hasKey_layoutFilter, Bool.and_eq_true, Bool.not_eq_true'] at hx
              simp [hx.1, hx.2]
          have hdocT : clsTarget cx.fx a a' docKey = true := by
            apply hna
            unfold hasKey; simp only [layoutFilter]; rw [hdoc]; rfl
          have inv5 : ClsInv co n m sl bases (clsTarget cx.fx a a') t5 := by
            refine ⟨_, p5, fun x => ?_⟩
            rw [hasKey_aset, hA2k x]
            by_cases e : docKey = x
            · subst e; simp [hdocT]
            · simp [e]
          have inv6 := forEach_inv_mem (I := ClsInv co n m sl bases (clsTarget cx.fx a a')) _ (fun x hx t t' hi hh => by
            have hx' := (mem_sortStrs _ _).mp hx
            rw [List.mem_eraseDups, List.mem_filter] at hx'
            have hxna : hasKey x (if cx.fx.d44 then layoutFilter a' else a') = true := by
              have := hx'.2
              simp only [Bool.and_eq_true] at this
              simpa [layoutFilter] using this.1.1.1.1
            exact lpSetattr_inv hrec hin (hna x hxna) t t' hi hh) t5 t6 inv5 g11
          obtain ⟨afin, hfin, hkeys⟩ := inv6
          rw [hs]
          exact ⟨hr, bases, afin, hfin, hkeys, p3.2⟩
      · have hsl' : optValEq s.heap (alookup slotsKey a) (alookup slotsKey a') = false := by simpa using hsl
        simp only [hsl', Bool.not_false, if_true] at h14
        obtain ⟨hr, hs⟩ := pure_ok.mp h14
        rw [hs]
        refine ⟨fun _ hf => ?g1, fun _ _ => ⟨hr, rfl⟩, fun hf => ?g3⟩
        case g1 => rw [hsl'] at hf; cases hf
        case g3 => rw [hsm] at hf; cases hf
    · have hsm' : patchable cx m m' = false := by simpa using hsm
      simp only [hsm', Bool.false_eq_true, if_false] at h8
      obtain ⟨hr, hs⟩ := pure_ok.mp h8
      rw [hs]
      refine ⟨fun hf _ => ?_, fun hf _ => ?_, fun _ => ⟨hr, rfl⟩⟩ <;> (rw [hsm'] at hf; cases hf)

/-! ## Witnesses (concrete heaps, evaluated by the kernel) -/
section Witness

/-- `issubclass(a, b)` over the heap -/
def isSubclass (h : List Obj) : Nat → Id → Id → Bool
  | 0, _, _ => false
  | n + 1, a, b =>
    a == b || match h[a]? with
      | some (.cls _ _ _ bases _) => bases.any (fun x => isSubclass h n x b)
      | _ => false

/-- the reload returned object `i` -/
def okIs (r : Except Err Id) (i : Id) : Bool := match r with | .ok j => j == i | .error _ => false
/-- the reload raised `e` -/
def errIs (r : Except Err Id) (e : Err) : Bool := match r with | .ok _ => false | .error e' => e' == e
/-- `d[k] is v` for the dict object `d` -/
def bound (h : List Obj) (d : Id) (k : Str) (v : Id) : Bool :=
  match h[d]? with | some (.dict e) => alookup k e == some v | _ => false

def sC : Str := ['C']
def sD : Str := ['D']
def sM : Str := ['m']
def sNone : Str := ['N']
def noneAtom : Obj := .atom sNone sNone

/-- old module `m`: `class C: pass` / `class D(C): pass` -/
def w18 : World :=
  { heap := [ .module 1, .dict [(sC, 2), (sD, 3)],
              .cls sC (some sM) none [] [(docKey, 4)], .cls sD (some sM) none [2] [(docKey, 4)], noneAtom ],
    sysmods := [(sM, 0)] }

/-- the scratch module built from the same source -/
def new18 : List Obj :=
  [ .module 6, .dict [(sC, 7), (sD, 8)],
    .cls sC (some sM) none [] [(docKey, 4)], .cls sD (some sM) none [7] [(docKey, 4)] ]

def in18 (fx : Fixes) : ReloadIn :=
  { name := sM, module := 0, compileOk := true, outcome := .ok new18, mtime := .atom ['f'] ['1'], fuel := 20, fx := fx }

/-- **D18** on the code as found: the reload succeeds, `m.C` and `m.D` keep their identity, and
    `issubclass(m.D, m.C)` is **False** — `D.__bases__` is the scratch module's `C`. -/
theorem D18_issubclass_false :
    okIs (xreload w18 (in18 {})).2 0 = true ∧
    bound (xreload w18 (in18 {})).1.heap 1 sC 2 = true ∧ bound (xreload w18 (in18 {})).1.heap 1 sD 3 = true ∧
    isSubclass (xreload w18 (in18 {})).1.heap 10 3 2 = false ∧
    isSubclass (xreload w18 (in18 {})).1.heap 10 3 7 = true := by decide

/-- with fixes/C16-D18.diff the same reload gives `issubclass(m.D, m.C) = True` -/
theorem D18_fixed_issubclass_true :
    okIs (xreload w18 (in18 { d18 := true })).2 0 = true ∧
    isSubclass (xreload w18 (in18 { d18 := true })).1.heap 10 3 2 = true := by decide

/-! D41: a slot that is set only on the new instance -/
def sS : Str := ['S']
def ss : Str := ['s']
def sa : Str := ['a']
def sb : Str := ['b']
def tupAtom : Obj := .atom ['t'] ['a', 'b']

def w41 : World :=
  { heap := [ .module 1, .dict [(sS, 2), (ss, 3)],
              .cls sS (some sM) (some [sa, sb]) [] [(docKey, 5), (slotsKey, 6)],
              .inst 2 none [(sa, 4)], .atom ['i'] ['1'], noneAtom, tupAtom ],
    sysmods := [(sM, 0)] }
def new41 : List Obj :=
  [ .module 8, .dict [(sS, 9), (ss, 10)],
    .cls sS (some sM) (some [sa, sb]) [] [(docKey, 5), (slotsKey, 11)],
    .inst 9 none [(sa, 4), (sb, 12)], tupAtom, .atom ['i'] ['2'] ]
def in41 (fx : Fixes) : ReloadIn :=
  { name := sM, module := 0, compileOk := true, outcome := .ok new41, mtime := .atom ['f'] ['1'], fuel := 20, fx := fx }

/-- **D41** on the code as found: a valid new source, and `xreload` raises TypeError (the registry is restored, the
    module is left half patched on the real code). -/
theorem D41_typeError :
    errIs (xreload w41 (in41 {})).2 .typeError = true ∧ (xreload w41 (in41 {})).1.sysmods = w41.sysmods := by decide

theorem D41_fixed :
    okIs (xreload w41 (in41 { d41 := true })).2 0 = true ∧
    (xreload w41 (in41 { d41 := true })).1.heap[3]? = some (.inst 2 none [(sa, 4), (sb, 12)]) := by decide

/-! D17 / `CellsCompatible`: a closure instance whose cell holds a changed int -/
def sCl : Str := ['c', 'l']
def sInner : Str := ['i', 'n']
def sY : Str := ['y']

def w17 : World :=
  { heap := [ .module 1, .dict [(sCl, 2)], .func sInner (some sM) 100 0 0 3 [4] [sY], .dict [], .cell 5, .atom ['i'] ['1'] ],
    sysmods := [(sM, 0)] }
def new17 (v : Str) : List Obj :=
  [ .module 7, .dict [(sCl, 8)], .func sInner (some sM) 100 0 0 9 [10] [sY], .dict [], .cell 11, .atom ['i'] v ]
def in17 (v : Str) : ReloadIn :=
  { name := sM, module := 0, compileOk := true, outcome := .ok (new17 v), mtime := .atom ['f'] ['1'], fuel := 20 }

/-- **D17**: `cl = outer(1)` → `cl = outer(2)`: name, number of cells and free variables are unchanged, yet the module
    gets the *new* function object and the old one (which other code still holds) is left with the old cell. -/
theorem D17_identity_lost :
    okIs (xreload w17 (in17 ['2'])).2 0 = true ∧ bound (xreload w17 (in17 ['2'])).1.heap 1 sCl 8 = true ∧
    (xreload w17 (in17 ['2'])).1.heap[2]? = w17.heap[2]? ∧ (xreload w17 (in17 ['2'])).1.heap[4]? = some (.cell 5) := by
  decide

/-- … whereas with an equal cell value the hypothesis `funcCompat` of `C16_function` holds and identity is kept -/
theorem D17_contrast_identity_kept :
    bound (xreload w17 (in17 ['1'])).1.heap 1 sCl 2 = true ∧ funcCompat [] (w17.heap ++ new17 ['1']) 2 8 = true ∧
    funcCompat [] (w17.heap ++ new17 ['2']) 2 8 = false := by decide

/-! D45: a cell holding a function that cannot be patched in place -/
def sh : Str := ['h']
def shf : Str := ['h', 'f']
def sL : Str := ['L']
def sL2 : Str := ['L', '2']
def sfn : Str := ['f', 'n']

def w45 : World :=
  { heap := [ .module 1, .dict [(sh, 2), (shf, 4)], .func sh (some sM) 1 0 0 3 [] [], .dict [],
              .func sL (some sM) 2 0 0 5 [6] [sfn], .dict [], .cell 2 ],
    sysmods := [(sM, 0)] }
def new45 : List Obj :=
  [ .module 8, .dict [(sh, 9), (shf, 11)], .func sL2 (some sM) 3 0 0 10 [] [], .dict [],
    .func sL (some sM) 4 0 0 12 [13] [sfn], .dict [], .cell 9 ]
def in45 (fx : Fixes) : ReloadIn :=
  { name := sM, module := 0, compileOk := true, outcome := .ok new45, mtime := .atom ['f'] ['1'], fuel := 20, fx := fx }

/-- **D45** on the code as found: `hf` keeps its identity and gets the new code, `h` is rebound to the new object,
    but `hf`'s cell still holds the *old* `h`. -/
theorem D45_stale_cell :
    bound (xreload w45 (in45 {})).1.heap 1 shf 4 = true ∧ bound (xreload w45 (in45 {})).1.heap 1 sh 9 = true ∧
    (xreload w45 (in45 {})).1.heap[4]? = some (.func sL (some sM) 4 0 0 5 [6] [sfn]) ∧
    (xreload w45 (in45 {})).1.heap[6]? = some (.cell 2) := by decide

theorem D45_fixed : (xreload w45 (in45 { d45 := true })).1.heap[6]? = some (.cell 9) := by decide


/-! Closure cells and the type lattice: `updatable` is by kind (isinstance), `sameType` by exact type -/
def hCell : List Obj :=
  [ .func ['f'] (some sM) 1 0 0 1 [2] [['c']], .dict [], .cell 3, .cls ['K'] (some sM) none [] [(docKey, 9)],
    .func ['f'] (some sM) 2 0 0 5 [6] [['c']], .dict [], .cell 7, .cls ['K'] (some sM) none [] [(docKey, 9)],
    .cell 10, noneAtom, .dict [(['a'], 9)], .cell 12, .dict [(['a'], 9), (['b'], 9)] ]

/-- a method whose `__class__` cell holds a class with a non-default metaclass (here both `ABCMeta`) is still patched in
    place — the updatable test is `isinstance(v, type)`, not `type(v) is type`; a *different* metaclass on the new side
    makes the cell incompatible (`type(old) != type(new)`) -/
theorem cell_metaclass_subclass_updatable :
    funcCompat [(3, .foreign ['A']), (7, .foreign ['A'])] hCell 0 4 = true ∧
    funcCompat [(3, .foreign ['A']), (7, .foreign ['E'])] hCell 0 4 = false ∧
    funcCompat [] hCell 0 4 = true ∧
    updatable hCell 3 = true := by decide

/-- likewise a cell holding an instance of a dict subclass (both `OrderedDict`) whose *contents differ* is updatable -/
theorem cell_dict_subclass_updatable :
    cellsCompat [(10, .foreign ['O']), (12, .foreign ['O'])] hCell [8] [11] = true ∧
    cellsCompat [(10, .foreign ['O']), (12, .foreign ['D'])] hCell [8] [11] = false := by decide

/-! ### the hypotheses of the theorems above are satisfiable by non-trivial inputs -/

/-- `C16_rollback`: a failure at statement 1 after the scratch module and one function were allocated, on the
    two-class heap; the conclusion instantiated -/
example :
    let i : ReloadIn := { in18 {} with outcome := .fail 1 [.module 6, .dict []] }
    (xreload w18 i).1.sysmods = w18.sysmods ∧ (xreload w18 i).1.heap[3]? = w18.heap[3]? :=
  let i : ReloadIn := { in18 {} with outcome := .fail 1 [.module 6, .dict []] }
  ⟨(C16_rollback w18 i 1 _ rfl rfl).2.1, (C16_rollback w18 i 1 _ rfl rfl).2.2 3 (by decide)⟩

/-- `C16_rollback` also when the module is absent from the registry -/
example : (xreload { w18 with sysmods := [] } { in18 {} with outcome := .fail 0 [] }).1.sysmods = [] :=
  (C16_rollback { w18 with sysmods := [] } { in18 {} with outcome := .fail 0 [] } 0 [] rfl rfl).2.1

/-- `C16_names`: all hypotheses hold for the two-class reload (old namespace object 1, scratch namespace object 6) -/
example :
    (w18.heap ++ new18)[(in18 {}).module]? = some (.module 1) ∧ (w18.heap ++ new18)[w18.heap.length]? = some (.module 6) ∧
    (w18.heap ++ new18)[1]? = some (.dict [(sC, 2), (sD, 3)]) ∧ (w18.heap ++ new18)[6]? = some (.dict [(sC, 7), (sD, 8)]) ∧
    okIs (xreload w18 (in18 {})).2 0 = true := by decide

def isOk (r : Except Err (Id × St)) : Bool := match r with | .ok _ => true | .error _ => false

/-- `C16_function`: a direct `livepatch(old_func, new_func, modname)` on the closure heap — both branches occur -/
example :
    isOk (lp { modname := some sM, sysmods := [] } 20 false [] 2 8 { heap := w17.heap ++ new17 ['1'], cache := [] }) = true ∧
    funcCompat [] (w17.heap ++ new17 ['1']) 2 8 = true ∧ patchable { modname := some sM, sysmods := [] } (some sM) (some sM) = true ∧
    isOk (lp { modname := some sM, sysmods := [] } 20 false [] 2 8 { heap := w17.heap ++ new17 ['2'], cache := [] }) = true ∧
    funcCompat [] (w17.heap ++ new17 ['2']) 2 8 = false := by decide

/-- `C16_class`: a direct `livepatch(old_D, new_D, modname)` on the two-class heap, slots equal -/
example :
    isOk (lp { modname := some sM, sysmods := [] } 20 false [] 3 8 { heap := w18.heap ++ new18, cache := [] }) = true ∧
    optValEq (w18.heap ++ new18) (alookup slotsKey [(docKey, 4)]) (alookup slotsKey [(docKey, 4)]) = true := by decide

end Witness


/-! ## Not proved: observational equality with a fresh import

Target (full strength, kept as a comment):

    C16_obs : for every old heap and scratch module, after a successful `xreload` the old namespace is bisimilar to the
              scratch namespace (same names; per name the two objects have equal labels — code/defaults/doc/name, atom
              values — and pairwise bisimilar children: function dicts and cell contents, class attributes and bases,
              dict entries, instance state).

It is false of the code as found (witnesses above: D18, D45; further families D42–D52 in known_findings/C16.json) and it
needs, beyond the frame theorem `lp_frame` (which protects the objects *on the visit stack*), a footprint lemma — that a
call `livepatch(o, n)` writes only objects reachable from `o` — plus the hypothesis that the pairing of old and new objects
along equal paths is one-to-one (D46).  What is proved instead are the per-object consequences the property names:
`C16_names` (names), `C16_function` (identity and code/defaults/doc), `C16_class` (identity, attribute names, bases),
`lp_dict_keys` (dict keys).  Observational equality itself is evaluated by the direct oracle of harness/c16.py on every
generated pair, against a real fresh import. -/

end Pfb.C16
