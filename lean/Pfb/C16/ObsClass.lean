/-
  Pfb.C16.ObsClass — observational equality after `xreload`, now with CLASSES (continuation of Obs.lean).

  All statements are about the model's own `lp` / `xreload` (Model.lean), for every fuel and every `Fixes`
  (code as found … current tree with d18/d41/d44/d45/d52); `cx.dyn = []` (plain metaclass / dict types) throughout.

    lp_flatClass             livepatch(old_class, new_class) for a `flatClassB` pair: only the class object and the
                             footprints of its methods (`fpCls`) are written; the result is the new class (heap
                             untouched) or the old class, `ClassPatched`; it is the old class iff `patchable`.
    lp_class_obs             … hence the result is `ObsEq` to the new class.
    C16_obs_partial_classes  `C16_obs_partial` with `flatModule` widened to `flatModuleC` (atoms, flat functions,
                             flat classes).
    C16_identity_kept        end-to-end identity clause: `patchable` ∧ `funcCompat` on the INITIAL heap ⇒ after a
                             successful `xreload` the name is still bound to the old function object, `ObsEq` to the
                             fresh one.  (`C16_identity_kept_flat`: the same for `flatModule`.)

  Which flags matter: none of the theorems needs a particular flag.  `d44` decides which names the attribute loop of
  `_livepatch__class` looks at (`oaF`, `loopKeys`, `keptKey`), so `flatClassB` / `flatModuleC` take the `Fixes`;
  `d18` is irrelevant *because* `flatClassB` demands a new class without in-module bases (D18, D18b are outside);
  `d52` enters through `patchable`; `d45` through `lp_flatFunc`; `d41` concerns instances (not covered).

  Hypothesis `keptKey` (explicit, decidable): the entries `_livepatch__class` never touches (`__dict__`, `__slots__`,
  the slot names; with d44 also `__weakref__`) must have equal values (`optValEq`) in both classes — the old class
  keeps its own layout descriptors, and `ObsEq` compares atoms by type and value.

  Proof architecture: one generic loop lemma (`gStep` / `gLoop`: "patch the entries of a table one by one", with
  footprint, cache invariant, identity tracking) instantiated twice — for the attribute loop of `_livepatch__class`
  (entries: atoms, flat functions) and for `_livepatch__dict` on the module namespace (entries: atoms, flat functions,
  flat classes; the class case calls `lp_flatClass`).
-/
import Pfb.C16.Obs
namespace Pfb.C16
open Pfb

/-! ## what a patched class looks like -/

/-- `a` is a function patched in place against `b` (`FuncPatched`); what was written for it lies in `P`, the new-side
    objects looked at lie outside `Wt` -/
def PatchedF (h : List Obj) (Wt : List Id) (a b : Id) (P : List Id) : Prop :=
  FuncPatched h a b ∧ (∀ j, j ∈ fpOf h a → j ∈ P) ∧ (∀ j, j ∈ fpOf h b → j ∉ Wt)

/-- two attribute-table entries that look the same: the same object, two atoms with equal type and value, or a function
    patched in place -/
def EntryRel (h : List Obj) (P Wt : List Id) : Option Id → Option Id → Prop
  | none, none => True
  | some a, some b => a = b ∨ (∃ t v, h[a]? = some (.atom t v) ∧ h[b]? = some (.atom t v)) ∨ PatchedF h Wt a b P
  | _, _ => False

/-- the old class `co` after `_livepatch__class` has patched it in place against `cn`: same name and slot names, no
    in-module bases on either side, attribute tables related entry by entry -/
def ClassPatched (h : List Obj) (Wt : List Id) (co cn : Id) (P : List Id) : Prop :=
  ∃ n m m' sl T na, h[co]? = some (.cls n m sl [] T) ∧ h[cn]? = some (.cls n m' sl [] na) ∧ co ∈ P ∧ cn ∉ Wt ∧
    ∀ k, EntryRel h P Wt (alookup k T) (alookup k na)

/-- a function or a class patched in place -/
def Patched (h : List Obj) (Wt : List Id) (o n : Id) (P : List Id) : Prop :=
  PatchedF h Wt o n P ∨ ClassPatched h Wt o n P

theorem FuncPatched.new_mem {h : List Obj} {fo fn : Id} (hp : FuncPatched h fo fn) : fn ∈ fpOf h fn := by
  obtain ⟨n0, m, m', c', d', dc', di, ce, fv, nd, nc, e', en', hfo, hfn, _⟩ := hp
  unfold fpOf; rw [hfn]; exact List.mem_cons_self

theorem PatchedF.mem {h : List Obj} {Wt : List Id} {o n : Id} {P : List Id} (hp : PatchedF h Wt o n P) : o ∈ P :=
  hp.2.1 _ hp.1.lookups.2.2

theorem Patched.mem {h : List Obj} {Wt : List Id} {o n : Id} {P : List Id} (hp : Patched h Wt o n P) : o ∈ P := by
  rcases hp with hf | ⟨_, _, _, _, _, _, _, _, h1, _, _⟩
  · exact hf.mem
  · exact h1

theorem PatchedF.keeps {h h' : List Obj} {F P Wt : List Id} {o n : Id} (hp : PatchedF h Wt o n P)
    (hfr : Keeps F h h') (hat : ∀ (j : Id) (t v : Str), h[j]? = some (Obj.atom t v) → j ∉ F)
    (hP : ∀ j, j ∈ P → j ∉ F) (hQ : ∀ j, j ∈ F → j ∈ Wt) : PatchedF h' Wt o n P := by
  obtain ⟨hf, h1, h2⟩ := hp
  obtain ⟨⟨o1, ho1⟩, ⟨o2, ho2⟩, hmem⟩ := hf.lookups
  have haF : o ∉ F := hP o (h1 o hmem)
  have hbF : n ∉ F := fun hm => h2 n hf.new_mem (hQ n hm)
  have e1 : fpOf h' o = fpOf h o := fpOf_congr (by rw [hfr o o1 haF ho1, ho1])
  have e2 : fpOf h' n = fpOf h n := fpOf_congr (by rw [hfr n o2 hbF ho2, ho2])
  refine ⟨hf.keeps hfr hat (fun j hj => hP j (h1 j hj)) (fun j hj hm => h2 j hj (hQ j hm)), ?_, ?_⟩
  · rw [e1]; exact h1
  · rw [e2]; exact h2

theorem EntryRel.keeps {h h' : List Obj} {F P Wt : List Id} (hfr : Keeps F h h')
    (hat : ∀ (j : Id) (t v : Str), h[j]? = some (Obj.atom t v) → j ∉ F)
    (hP : ∀ j, j ∈ P → j ∉ F) (hQ : ∀ j, j ∈ F → j ∈ Wt) :
    ∀ (x y : Option Id), EntryRel h P Wt x y → EntryRel h' P Wt x y
  | none, none, _ => trivial
  | none, some _, hr => hr.elim
  | some _, none, hr => hr.elim
  | some a, some b, hr => by
    rcases hr with rfl | ⟨t, v, h1, h2⟩ | hp
    · exact Or.inl rfl
    · exact Or.inr (Or.inl ⟨t, v, hfr _ _ (hat a t v h1) h1, hfr _ _ (hat b t v h2) h2⟩)
    · exact Or.inr (Or.inr (hp.keeps hfr hat hP hQ))

theorem ClassPatched.keeps {h h' : List Obj} {F P Wt : List Id} {co cn : Id} (hp : ClassPatched h Wt co cn P)
    (hfr : Keeps F h h') (hat : ∀ (j : Id) (t v : Str), h[j]? = some (Obj.atom t v) → j ∉ F)
    (hP : ∀ j, j ∈ P → j ∉ F) (hQ : ∀ j, j ∈ F → j ∈ Wt) : ClassPatched h' Wt co cn P := by
  obtain ⟨n, m, m', sl, T, na, hco, hcn, h1, h2, hk⟩ := hp
  exact ⟨n, m, m', sl, T, na, hfr _ _ (hP co h1) hco, hfr _ _ (fun hm => h2 (hQ cn hm)) hcn, h1, h2,
    fun k => EntryRel.keeps hfr hat hP hQ _ _ (hk k)⟩

theorem Patched.keeps {h h' : List Obj} {F P Wt : List Id} {o n : Id} (hp : Patched h Wt o n P)
    (hfr : Keeps F h h') (hat : ∀ (j : Id) (t v : Str), h[j]? = some (Obj.atom t v) → j ∉ F)
    (hP : ∀ j, j ∈ P → j ∉ F) (hQ : ∀ j, j ∈ F → j ∈ Wt) : Patched h' Wt o n P := by
  rcases hp with hf | hc
  · exact Or.inl (hf.keeps hfr hat hP hQ)
  · exact Or.inr (hc.keeps hfr hat hP hQ)

theorem PatchedF.mono {h : List Obj} {P P' Wt : List Id} {o n : Id} (hp : PatchedF h Wt o n P)
    (hP : ∀ j, j ∈ P → j ∈ P') : PatchedF h Wt o n P' :=
  ⟨hp.1, fun j hj => hP j (hp.2.1 j hj), hp.2.2⟩

theorem obsEq_succ_cls {h1 h2 : List Obj} {n : Nat} {a b : Id} {nm m sl bs ats nm' m' sl' bs' ats'}
    (ha : h1[a]? = some (.cls nm m sl bs ats)) (hb : h2[b]? = some (.cls nm' m' sl' bs' ats')) :
    obsEq h1 h2 (n + 1) a b =
      (nm == nm' && sl == sl' && obsList (obsEq h1 h2 n) bs bs' && obsTable (obsEq h1 h2 n) ats ats') := by
  rw [obsEq, ha, hb]

theorem EntryRel.obs {h : List Obj} {P Wt : List Id} (n : Nat) :
    ∀ (x y : Option Id), EntryRel h P Wt x y →
      (match x, y with
        | some a, some b => obsEq h h n a b
        | none, none => true
        | _, _ => false) = true
  | none, none, _ => rfl
  | none, some _, hr => hr.elim
  | some _, none, hr => hr.elim
  | some a, some b, hr => by
    rcases hr with rfl | ⟨t, v, h1, h2⟩ | ⟨hp, _, _⟩
    · exact obsEq_refl h n a
    · cases n with
      | zero => rfl
      | succ n => show obsEq h h (n + 1) a b = true; rw [obsEq_succ_atom h1 h2]; simp
    · exact hp.obs n

theorem ClassPatched.obs {h : List Obj} {co cn : Id} {P Wt : List Id} (hp : ClassPatched h Wt co cn P) :
    ObsEq h co h cn := by
  obtain ⟨n0, m, m', sl, T, na, hco, hcn, _, _, hk⟩ := hp
  intro n
  cases n with
  | zero => rfl
  | succ n =>
    rw [obsEq_succ_cls hco hcn]
    simp only [beq_self_eq_true, Bool.true_and, obsList]
    unfold obsTable
    rw [List.all_eq_true]
    intro k _
    exact EntryRel.obs n _ _ (hk k)

theorem Patched.obs {h : List Obj} {o n : Id} {P Wt : List Id} (hp : Patched h Wt o n P) : ObsEq h o h n := by
  rcases hp with ⟨hf, _, _⟩ | hc
  · exact hf.obs
  · exact hc.obs


/-! ## a generic "patch the entries of a table one by one" loop -/

/-- the state of a name once the loop is through with it -/
def DoneC (Pt : List Obj → Id → Id → List Id → Prop) (Wc : List Id) (eo en : List (Str × Id)) (t : List Obj) (e : List (Str × Id)) (k : Str) : Prop :=
  alookup k e = alookup k en ∨
  ∃ o n P, alookup k e = some o ∧ alookup k en = some n ∧ alookup k eo = some o ∧ o ≠ n ∧ Pt t o n P ∧
    (∀ j, j ∈ P → j ∈ Wc)

theorem DoneC.keeps {Pt : List Obj → Id → Id → List Id → Prop} {Wc Wc' : List Id} {eo en e : List (Str × Id)}
    {t t' : List Obj} {F : List Id} {k : Str}
    (hd : DoneC Pt Wc eo en t e k)
    (hpk : ∀ o n P, Pt t o n P → (∀ j, j ∈ P → j ∉ F) → Pt t' o n P)
    (hF1 : ∀ j, j ∈ F → j ∉ Wc) (hsub : ∀ j, j ∈ Wc → j ∈ Wc') :
    DoneC Pt Wc' eo en t' e k := by
  rcases hd with hd | ⟨o, n, P, a1, a2, a3, a4, hp, a6⟩
  · exact Or.inl hd
  · exact Or.inr ⟨o, n, P, a1, a2, a3, a4,
      hpk o n P hp (fun j hj hm => hF1 j hm (a6 j hj)),
      fun j hj => hsub j (a6 j hj)⟩

structure GLoop (cx : Ctx) (n : Nat) (h0 hs : List Obj) (vs : List Id) (H : Id)
    (View : List Obj → List (Str × Id) → Prop) (eo en : List (Str × Id)) (Ks : List Str) (fp : Str → List Id)
    (Wt W : List Id) (Pt : List Obj → Id → Id → List Id → Prop) (Kp : Str → Prop) (step : Str → M Unit) : Prop where
  pmem : ∀ (h : List Obj) (o n : Id) (P : List Id), Pt h o n P → o ∈ P
  pkeeps : ∀ (h h' : List Obj) (F : List Id) (o n : Id) (P : List Id), Pt h o n P → Keeps F h h' →
    (∀ (j : Id) (t v : Str), h[j]? = some (Obj.atom t v) → j ∉ F) → (∀ j, j ∈ P → j ∉ F) → (∀ j, j ∈ F → j ∈ Wt) → Pt h' o n P
  vcongr : ∀ (h h' : List Obj) (e : List (Str × Id)), h'[H]? = h[H]? → View h e → View h' e
  vnotAtom : ∀ (h : List Obj) (e : List (Str × Id)) (t v : Str), View h e → h[H]? ≠ some (Obj.atom t v)
  HnW : H ∉ Ks.flatMap fp
  sub : ∀ j, j ∈ Ks.flatMap fp → j ∈ Wt
  HWt : H ∈ Wt
  WA : ∀ j, j ∈ Ks.flatMap fp → isAtomAt h0 j = false
  WWA : ∀ j, j ∈ W → isAtomAt h0 j = false
  WW : ∀ j, j ∈ Ks.flatMap fp → j ∉ W
  hsag : ∀ j, (j ∈ Ks.flatMap fp ∨ j ∉ Wt) → hs[j]? = h0[j]?
  both : ∀ x, x ∈ Ks → ∃ ov nv, alookup x eo = some ov ∧ alookup x en = some nv
  ent : ∀ x ov nv, x ∈ Ks → alookup x eo = some ov → alookup x en = some nv → ov ≠ nv →
    isAtomAt h0 ov = true ∨ ov ∈ fp x
  hstep : ∀ x t t' e ov nv, x ∈ Ks → View t.heap e → alookup x e = some ov → alookup x en = some nv →
    (ov ≠ nv → alookup x eo = some ov) → AtomsKept h0 t.heap →
    (∀ j, (j ∈ fp x ∨ j ∉ Wt) → t.heap[j]? = h0[j]?) → step x t = .ok ((), t') →
    (ov = nv ∧ t' = t) ∨ (ov ≠ nv ∧ ∃ r1 t1, lp cx n false vs ov nv t = .ok (r1, t1) ∧
      ((r1 = ov ∧ t' = t1) ∨ (r1 ≠ ov ∧ ∀ e1, View t1.heap e1 → (t'.cache = t1.cache ∧
        (∀ j, j ≠ H → t'.heap[j]? = t1.heap[j]?) ∧ View t'.heap (aset x r1 e1)))))
  hsum : ∀ x t t1 Wc ov nv r1, x ∈ Ks → alookup x eo = some ov → alookup x en = some nv → ov ≠ nv →
    AtomsKept h0 t.heap → (∀ j, j ∈ Wc → isAtomAt h0 j = false) → (∀ j, j ∈ fp x → j ∉ Wc) → CacheOK h0 Wc t →
    (∀ j, (j ∈ fp x ∨ j ∉ Wt) → t.heap[j]? = h0[j]?) → lp cx n false vs ov nv t = .ok (r1, t1) →
    (∀ j, j ∉ fp x → t1.heap[j]? = t.heap[j]?) ∧ CacheOK h0 (fp x ++ Wc) t1 ∧
    (r1 = nv ∨ (r1 = ov ∧ ∃ P, Pt t1.heap ov nv P ∧ (∀ j, j ∈ P → j ∈ fp x))) ∧
    (Kp x → r1 = ov)

def GInv (h0 hs : List Obj) (H : Id) (View : List Obj → List (Str × Id) → Prop) (eo en est : List (Str × Id))
    (Ks : List Str) (fp : Str → List Id) (W : List Id) (Pt : List Obj → Id → Id → List Id → Prop) (Kp : Str → Prop)
    (L : List Str) (t : St) : Prop :=
  (∀ k, k ∈ L → k ∈ Ks) ∧ (L.flatMap fp).Nodup ∧
  ∃ Wc, (∀ j, j ∈ Wc → j ∈ Ks.flatMap fp ∧ j ∉ L.flatMap fp) ∧ CacheOK h0 (Wc ++ W) t ∧ AtomsKept h0 t.heap ∧
    (∀ j, j ∉ Wc → j ≠ H → t.heap[j]? = hs[j]?) ∧
    ∃ e, View t.heap e ∧ (∀ k, k ∉ Ks → alookup k e = alookup k est) ∧
      (∀ k, k ∈ Ks → DoneC Pt Wc eo en t.heap e k ∨ (k ∈ L ∧ alookup k e = alookup k eo)) ∧
      (∀ k, Kp k → alookup k e = alookup k eo)

set_option maxHeartbeats 800000 in
theorem gStep {cx : Ctx} {n : Nat} {h0 hs : List Obj} {vs : List Id} {H : Id}
    {View : List Obj → List (Str × Id) → Prop} {eo en est : List (Str × Id)} {Ks : List Str} {fp : Str → List Id}
    {Wt W : List Id} {Pt : List Obj → Id → Id → List Id → Prop} {Kp : Str → Prop} {step : Str → M Unit}
    (G : GLoop cx n h0 hs vs H View eo en Ks fp Wt W Pt Kp step) {x : Str} {L : List Str} {t t' : St}
    (hI : GInv h0 hs H View eo en est Ks fp W Pt Kp (x :: L) t) (hst : step x t = .ok ((), t')) :
    GInv h0 hs H View eo en est Ks fp W Pt Kp L t' := by
  obtain ⟨hLc, hLn, Wc, hWc, hcache, hAK, hfr, e, he, hnk, hk, hkp⟩ := hI
  have hxK : x ∈ Ks := hLc x List.mem_cons_self
  have hfx : ∀ j, j ∈ fp x → j ∈ Ks.flatMap fp := fun j hj => List.mem_flatMap.mpr ⟨x, hxK, hj⟩
  rw [List.flatMap_cons, List.nodup_append] at hLn
  obtain ⟨hnx, hnL, hdisj⟩ := hLn
  have hLc' : ∀ k, k ∈ L → k ∈ Ks := fun k hk' => hLc k (List.mem_cons_of_mem _ hk')
  have hWcL : ∀ j, j ∈ Wc → j ∉ L.flatMap fp := fun j hj hm =>
    (hWc j hj).2 (by rw [List.flatMap_cons]; exact List.mem_append_right _ hm)
  have hFWc : ∀ j, j ∈ fp x → j ∉ Wc := fun j hj hm =>
    (hWc j hm).2 (by rw [List.flatMap_cons]; exact List.mem_append_left _ hj)
  have hHWc : H ∉ Wc := fun hm => G.HnW (hWc H hm).1
  have hFD : H ∉ fp x := fun hm => G.HnW (hfx H hm)
  have hWcWA : ∀ j, j ∈ Wc ++ W → isAtomAt h0 j = false := by
    intro j hj
    rcases List.mem_append.mp hj with hj | hj
    · exact G.WA j (hWc j hj).1
    · exact G.WWA j hj
  have hFWcW : ∀ j, j ∈ fp x → j ∉ Wc ++ W := by
    intro j hj hm
    rcases List.mem_append.mp hm with hm | hm
    · exact hFWc j hj hm
    · exact G.WW j (hfx j hj) hm
  have hag : ∀ j, (j ∈ fp x ∨ j ∉ Wt) → t.heap[j]? = h0[j]? := by
    intro j hj
    have h1 : j ∉ Wc := by
      rcases hj with hj | hj
      · exact hFWc j hj
      · exact fun hm => hj (G.sub j (hWc j hm).1)
    have h2 : j ≠ H := by
      rcases hj with hj | hj
      · rintro rfl; exact hFD hj
      · rintro rfl; exact hj G.HWt
    rw [hfr j h1 h2]; exact G.hsag j (hj.imp (hfx j) id)
  have hHA : isAtomAt h0 H = false := by
    cases hh : isAtomAt h0 H with
    | false => rfl
    | true =>
      obtain ⟨t0, v0, h00⟩ := isAtomAt_iff.mp hh
      exact (G.vnotAtom _ _ t0 v0 he (hAK H t0 v0 h00)).elim
  -- a step that changes nothing
  have trivialStep : t' = t → alookup x e = alookup x en →
      GInv h0 hs H View eo en est Ks fp W Pt Kp L t' := by
    rintro rfl hxe
    refine ⟨hLc', hnL, Wc, fun j hj => ⟨(hWc j hj).1, hWcL j hj⟩, hcache, hAK, hfr, e, he, hnk, fun k hkK => ?_, hkp⟩
    by_cases hkx : k = x
    · subst hkx; exact Or.inl (Or.inl hxe)
    · rcases hk k hkK with hd | ⟨hkL, hke⟩
      · exact Or.inl hd
      · simp only [List.mem_cons] at hkL
        rcases hkL with rfl | hkL
        · exact (hkx rfl).elim
        · exact Or.inr ⟨hkL, hke⟩
  obtain ⟨ov0, nv, hov0, hnv⟩ := G.both x hxK
  -- the current entry of `x`
  have cur : alookup x e = some nv ∨ (alookup x e = some ov0 ∧ ov0 ≠ nv) := by
    rcases hk x hxK with hd | ⟨_, hun⟩
    · rcases hd with hd | ⟨o, n', P, a1, a2, a3, a4, hp, a6⟩
      · left; rw [hd, hnv]
      · exfalso
        rw [hov0] at a3; cases a3
        rw [hnv] at a2; cases a2
        have hoWc : ov0 ∈ Wc := a6 _ (G.pmem _ _ _ _ hp)
        rcases G.ent x ov0 nv hxK hov0 hnv a4 with hat | hin
        · rw [G.WA ov0 (hWc _ hoWc).1] at hat; cases hat
        · exact hFWc _ hin hoWc
    · by_cases hsame : ov0 = nv
      · left; rw [hun, hov0, hsame]
      · right; exact ⟨by rw [hun, hov0], hsame⟩
  rcases cur with hcur | ⟨hcur, hne⟩
  · rcases G.hstep x t t' e nv nv hxK he hcur hnv (fun hh => (hh rfl).elim) hAK hag hst with ⟨_, rfl⟩ | ⟨hh, _⟩
    · exact trivialStep rfl (by rw [hcur, hnv])
    · exact (hh rfl).elim
  rcases G.hstep x t t' e ov0 nv hxK he hcur hnv (fun _ => hov0) hAK hag hst with ⟨hh, _⟩ | ⟨_, r1, t1, qrec, qfin⟩
  · exact (hne hh).elim
  obtain ⟨fr1, hc1, hres, hkeep⟩ := G.hsum x t t1 (Wc ++ W) ov0 nv r1 hxK hov0 hnv hne hAK hWcWA hFWcW hcache hag qrec
  have hFL : ∀ j, j ∈ fp x → j ∉ L.flatMap fp := fun j hj hm => hdisj j hj j hm rfl
  have heD1 : View t1.heap e := G.vcongr _ _ _ (fr1 H hFD) he
  have hatDF : ∀ (j : Id) (t0 v : Str), t.heap[j]? = some (Obj.atom t0 v) → j ∉ H :: fp x := by
    intro j t0 v hj hm
    simp only [List.mem_cons] at hm
    rcases hm with rfl | hm
    · exact G.vnotAtom _ _ t0 v he hj
    · rw [hag j (Or.inl hm)] at hj
      have := G.WA j (hfx j hm)
      unfold isAtomAt at this; rw [hj] at this; cases this
  have fin : ∃ e2, View t'.heap e2 ∧ t'.cache = t1.cache ∧ (∀ j, j ≠ H → t'.heap[j]? = t1.heap[j]?) ∧
      ((r1 = ov0 ∧ e2 = e) ∨ (r1 ≠ ov0 ∧ e2 = aset x r1 e)) := by
    rcases qfin with ⟨hro, rfl⟩ | ⟨hro, hq⟩
    · exact ⟨e, heD1, rfl, fun _ _ => rfl, Or.inl ⟨hro, rfl⟩⟩
    · obtain ⟨hca, hfr2, hv⟩ := hq e heD1
      exact ⟨_, hv, hca, hfr2, Or.inr ⟨hro, rfl⟩⟩
  obtain ⟨e2, he2, hcache2, fr2, hfin⟩ := fin
  have hkeeps : Keeps (H :: fp x) t.heap t'.heap := by
    intro j o hj ho
    simp only [List.mem_cons, not_or] at hj
    rw [fr2 j hj.1, fr1 j hj.2]; exact ho
  have hAK' : AtomsKept h0 t'.heap := by
    refine hAK.frame (F := H :: fp x) ?_ ?_
    · intro j hj
      simp only [List.mem_cons] at hj
      rcases hj with rfl | hj
      · exact hHA
      · exact G.WA j (hfx j hj)
    · intro j hj
      simp only [List.mem_cons, not_or] at hj
      rw [fr2 j hj.1, fr1 j hj.2]
  refine ⟨hLc', hnL, fp x ++ Wc, ?_, ?_, hAK', ?_, e2, he2, ?_, ?_, ?_⟩
  · intro j hj
    rcases List.mem_append.mp hj with hj | hj
    · exact ⟨hfx j hj, hFL j hj⟩
    · exact ⟨(hWc j hj).1, hWcL j hj⟩
  · intro c hc
    have := hc1 c (by rw [← hcache2]; exact hc)
    simpa [List.append_assoc] using this
  · intro j hj hjD
    simp only [List.mem_append, not_or] at hj
    rw [fr2 j hjD, fr1 j hj.1]; exact hfr j hj.2 hjD
  · intro k hkK
    have hkx : k ≠ x := fun e => hkK (e ▸ hxK)
    rcases hfin with ⟨_, rfl⟩ | ⟨_, rfl⟩
    · exact hnk k hkK
    · rw [alookup_aset]; simp only [Ne.symm hkx, if_false]; exact hnk k hkK
  · intro k hkK
    by_cases hkx : k = x
    · subst hkx
      left
      rcases hres with hr | ⟨hr, P, hp, hp1⟩
      · left
        rcases hfin with ⟨hro, rfl⟩ | ⟨_, rfl⟩
        · rw [hcur, hnv, ← hro, hr]
        · rw [alookup_aset, hr]; simp [hnv]
      · right
        rcases hfin with ⟨_, rfl⟩ | ⟨hro, _⟩
        · refine ⟨ov0, nv, P, hcur, hnv, hov0, hne, ?_, fun j hj => List.mem_append_left _ (hp1 j hj)⟩
          refine G.pkeeps _ _ [H] _ _ _ hp (fun j o hj ho => by rw [fr2 j (by simpa using hj)]; exact ho)
            (fun j t0 v hj hm => by
              simp at hm; subst hm
              exact G.vnotAtom _ _ t0 v heD1 hj)
            (fun j hj hm => by simp at hm; subst hm; exact hFD (hp1 _ hj))
            (fun j hj => by simp at hj; subst hj; exact G.HWt)
        · exact (hro hr).elim
    · rcases hk k hkK with hd | ⟨hkL, hke⟩
      · left
        have hd' : DoneC Pt (fp x ++ Wc) eo en t'.heap e k :=
          hd.keeps (fun o n' P hp hPF => G.pkeeps _ _ (H :: fp x) _ _ _ hp hkeeps hatDF hPF
            (fun j hj => by
              simp only [List.mem_cons] at hj
              rcases hj with rfl | hj
              · exact G.HWt
              · exact G.sub j (hfx j hj)))
            (fun j hj hm => by
              simp only [List.mem_cons] at hj
              rcases hj with rfl | hj
              · exact hHWc hm
              · exact hFWc j hj hm)
            (fun j hj => List.mem_append_right _ hj)
        rcases hfin with ⟨_, rfl⟩ | ⟨_, rfl⟩
        · exact hd'
        · rcases hd' with h1 | ⟨o, n', P, a1, a2, a3, a4, a5, a6⟩
          · left; rw [alookup_aset]; simp [Ne.symm hkx, h1]
          · right; exact ⟨o, n', P, by rw [alookup_aset]; simp [Ne.symm hkx, a1], a2, a3, a4, a5, a6⟩
      · right
        simp only [List.mem_cons] at hkL
        rcases hkL with rfl | hkL
        · exact (hkx rfl).elim
        · refine ⟨hkL, ?_⟩
          rcases hfin with ⟨_, rfl⟩ | ⟨_, rfl⟩
          · exact hke
          · rw [alookup_aset]; simp [Ne.symm hkx, hke]
  · intro k hkp'
    by_cases hkx : k = x
    · subst hkx
      have hr := hkeep hkp'
      rcases hfin with ⟨_, rfl⟩ | ⟨hro, _⟩
      · exact hkp k hkp'
      · exact (hro hr).elim
    · rcases hfin with ⟨_, rfl⟩ | ⟨_, rfl⟩
      · exact hkp k hkp'
      · rw [alookup_aset]; simp only [Ne.symm hkx, if_false]; exact hkp k hkp'

/-- the whole loop -/
theorem gLoop {cx : Ctx} {n : Nat} {h0 hs : List Obj} {vs : List Id} {H : Id}
    {View : List Obj → List (Str × Id) → Prop} {eo en est : List (Str × Id)} {Ks : List Str} {fp : Str → List Id}
    {Wt W : List Id} {Pt : List Obj → Id → Id → List Id → Prop} {Kp : Str → Prop} {step : Str → M Unit}
    (G : GLoop cx n h0 hs vs H View eo en Ks fp Wt W Pt Kp step) {t t' : St}
    (hI : GInv h0 hs H View eo en est Ks fp W Pt Kp Ks t) (hl : forEach step Ks t = .ok ((), t')) :
    GInv h0 hs H View eo en est Ks fp W Pt Kp [] t' :=
  forEach_inv_list (GInv h0 hs H View eo en est Ks fp W Pt Kp) (fun _ _ _ _ hI hst => gStep G hI hst) Ks t t' hI hl



/-! ## one entry: an atom or a flat function (with the identity clause) -/

theorem cellPair_mono {h0 h : List Obj} (hAK : AtomsKept h0 h) {a b : Id} (haA : isAtomAt h0 a = true)
    (hc : (sameType [] h0 a b && (updatable h0 a || cellEq h0 a b)) = true) :
    (sameType [] h a b && (updatable h a || cellEq h a b)) = true := by
  obtain ⟨t, v, ha⟩ := isAtomAt_iff.mp haA
  cases hb : h0[b]? with
  | none => simp [sameType, ha, hb] at hc
  | some ob =>
    cases ob with
    | atom t' v' =>
      have ha' := hAK a t v ha
      have hb' := hAK b t' v' hb
      simp only [sameType, updatable, cellEq, ha, hb, Obj.kind] at hc
      simp only [sameType, updatable, cellEq, ha', hb', Obj.kind]
      exact hc
    | _ => simp [sameType, ha, hb, Obj.kind] at hc

theorem cellsCompat_mono {h0 h : List Obj} (hAK : AtomsKept h0 h) :
    ∀ (ce nc : List Id), (∀ ca, ca ∈ ce → h[ca]? = h0[ca]?) → (∀ cb, cb ∈ nc → h[cb]? = h0[cb]?) →
      (∀ ca, ca ∈ ce → ∃ a, h0[ca]? = some (.cell a) ∧ isAtomAt h0 a = true) →
      cellsCompat [] h0 ce nc = true → cellsCompat [] h ce nc = true
  | [], _, _, _, _, _ => by unfold cellsCompat; rfl
  | _ :: _, [], _, _, _, _ => by unfold cellsCompat; rfl
  | ca :: as, cb :: bs, hce, hnc, hat, hc => by
    unfold cellsCompat at hc ⊢
    simp only [Bool.and_eq_true] at hc ⊢
    obtain ⟨hhead, htail⟩ := hc
    refine ⟨?_, cellsCompat_mono hAK as bs (fun c hc => hce c (List.mem_cons_of_mem _ hc))
      (fun c hc => hnc c (List.mem_cons_of_mem _ hc)) (fun c hc => hat c (List.mem_cons_of_mem _ hc)) htail⟩
    obtain ⟨a, hca, haA⟩ := hat ca List.mem_cons_self
    unfold cellContent at hhead ⊢
    rw [hce ca List.mem_cons_self, hnc cb List.mem_cons_self]
    rw [hca] at hhead ⊢
    cases hcb : h0[cb]? with
    | none => simp [hcb] at hhead
    | some ob =>
      cases ob with
      | cell b =>
        simp only [hcb] at hhead ⊢
        exact cellPair_mono hAK haA hhead
      | _ => simp [hcb] at hhead

theorem funcCompat_mono {h0 h : List Obj} (hAK : AtomsKept h0 h) {ov nv : Id}
    {n m c d dc di ce fv n' m' c' d' dc' nd nc fv'}
    (hfo : h0[ov]? = some (.func n m c d dc di ce fv)) (hfn : h0[nv]? = some (.func n' m' c' d' dc' nd nc fv'))
    (hov : h[ov]? = h0[ov]?) (hnv : h[nv]? = h0[nv]?)
    (hce : ∀ ca, ca ∈ ce → h[ca]? = h0[ca]?) (hnc : ∀ cb, cb ∈ nc → h[cb]? = h0[cb]?)
    (hat : ∀ ca, ca ∈ ce → ∃ a, h0[ca]? = some (.cell a) ∧ isAtomAt h0 a = true)
    (hc : funcCompat [] h0 ov nv = true) : funcCompat [] h ov nv = true := by
  unfold funcCompat at hc ⊢
  rw [hov, hnv]
  rw [hfo, hfn] at hc ⊢
  simp only [Bool.and_eq_true] at hc ⊢
  exact ⟨hc.1, cellsCompat_mono hAK ce nc hce hnc hat hc.2⟩

/-- the code's own conditions for keeping the identity of a function, on the initial heap -/
def keepIdB (cx : Ctx) (h0 : List Obj) (ov nv : Id) : Bool :=
  match h0[ov]?, h0[nv]? with
  | some (.func _ m _ _ _ _ _ _), some (.func _ m' _ _ _ _ _ _) => patchable cx m m' && funcCompat [] h0 ov nv
  | _, _ => false

theorem fpOf_atom {h : List Obj} {v : Id} (hv : isAtomAt h v = true) : fpOf h v = [] := by
  obtain ⟨t, w, hh⟩ := isAtomAt_iff.mp hv
  unfold fpOf; rw [hh]

set_option maxHeartbeats 800000 in
theorem summary_af {cx : Ctx} {n : Nat} {h0 : List Obj} {vs Wt Wc : List Id} {t t1 : St} {ov nv r1 : Id}
    (hdyn : cx.dyn = []) (hAK : AtomsKept h0 t.heap) (hWcA : ∀ j, j ∈ Wc → isAtomAt h0 j = false)
    (hvsA : ∀ j, j ∈ vs → isAtomAt h0 j = false)
    (hent : (isAtomAt h0 ov || flatFuncB h0 ov) = true) (hnew : newSideB h0 Wt nv = true)
    (hnd : (fpOf h0 ov).Nodup) (hsub : ∀ j, j ∈ fpOf h0 ov → j ∈ Wt) (hFWc : ∀ j, j ∈ fpOf h0 ov → j ∉ Wc)
    (hFvs : ∀ j, j ∈ fpOf h0 ov → j ∉ vs)
    (hag : ∀ j, (j ∈ fpOf h0 ov ∨ j ∉ Wt) → t.heap[j]? = h0[j]?) (hc : CacheOK h0 Wc t)
    (h : lp cx n false vs ov nv t = .ok (r1, t1)) :
    (∀ j, j ∉ fpOf h0 ov → t1.heap[j]? = t.heap[j]?) ∧ CacheOK h0 (fpOf h0 ov ++ Wc) t1 ∧
    (r1 = nv ∨ (r1 = ov ∧ ∃ P, PatchedF t1.heap Wt ov nv P ∧ (∀ j, j ∈ P → j ∈ fpOf h0 ov))) ∧
    (keepIdB cx h0 ov nv = true → r1 = ov) := by
  simp only [Bool.or_eq_true] at hent
  rcases hent with hat | hff
  · obtain ⟨t0, v0, hov00⟩ := isAtomAt_iff.mp hat
    have hovs : ov ∉ vs := fun hm => by rw [hvsA ov hm] at hat; cases hat
    have hoW : ov ∉ Wc := fun hm => by rw [hWcA ov hm] at hat; cases hat
    obtain ⟨hr, hh1, hc1⟩ := lp_atomOld hdyn (hAK ov t0 v0 hov00) hat hovs hoW hc h
    refine ⟨fun _ _ => by rw [hh1], hc1.mono (fun i hi => List.mem_append_right _ hi), Or.inl hr, fun hk => ?_⟩
    unfold keepIdB at hk; rw [hov00] at hk; cases hk
  · have hFF := flatFunc_of_B (h := t.heap) hff hnd (fun j hj => hag j (Or.inl hj))
    obtain ⟨hnvW, hNS⟩ := newSide_of_B (h := t.heap) (F := fpOf h0 ov) hnew hsub (fun j hj => hag j (Or.inr hj))
    obtain ⟨fr1, hc1, hres, hid⟩ := lp_flatFunc hdyn hAK hWcA hvsA hFF hNS hFvs hFWc hc h
    have hnvF : nv ∉ fpOf h0 ov := fun hm => hnvW (hsub nv hm)
    refine ⟨fr1, hc1, ?_, fun hk => ?_⟩
    · rcases hres with ⟨hr, _⟩ | ⟨hr, hne', hp, hfp⟩
      · exact Or.inl hr
      · refine Or.inr ⟨hr, fpOf h0 ov, ⟨hp, fun j hj => by rw [hfp] at hj; exact hj, fun j hj => ?_⟩,
          fun _ hj => hj⟩
        rw [fpOf_congr (h := h0) (by rw [fr1 nv hnvF, hag nv (Or.inr hnvW)])] at hj
        exact newSide_fp hnew j hj
    · unfold keepIdB at hk
      cases hfo : h0[ov]? with
      | none => simp [hfo] at hk
      | some oo =>
        cases oo with
        | func n0 m c d dc di ce fv =>
          cases hfn : h0[nv]? with
          | none => simp [hfo, hfn] at hk
          | some on =>
            cases on with
            | func n' m' c' d' dc' nd nc fv' =>
              simp only [hfo, hfn, Bool.and_eq_true] at hk
              have hfpo : fpOf h0 ov = ov :: di :: ce := by unfold fpOf; rw [hfo]
              have hfpn : fpOf h0 nv = nv :: nd :: nc := by unfold fpOf; rw [hfn]
              have hovt : t.heap[ov]? = h0[ov]? := hag ov (Or.inl (by rw [hfpo]; exact List.mem_cons_self))
              have hnvt : t.heap[nv]? = h0[nv]? := hag nv (Or.inr hnvW)
              have hcet : ∀ ca, ca ∈ ce → t.heap[ca]? = h0[ca]? := fun ca hca =>
                hag ca (Or.inl (by rw [hfpo]; exact List.mem_cons_of_mem _ (List.mem_cons_of_mem _ hca)))
              have hnct : ∀ cb, cb ∈ nc → t.heap[cb]? = h0[cb]? := fun cb hcb =>
                hag cb (Or.inr (newSide_fp hnew cb (by rw [hfpn]; exact List.mem_cons_of_mem _ (List.mem_cons_of_mem _ hcb))))
              have hatc : ∀ ca, ca ∈ ce → ∃ a, h0[ca]? = some (.cell a) ∧ isAtomAt h0 a = true := by
                intro ca hca
                unfold flatFuncB at hff
                simp only [hfo, Bool.and_eq_true, List.all_eq_true] at hff
                have := hff.2 ca hca
                cases hcc : h0[ca]? with
                | none => simp [hcc] at this
                | some oc =>
                  cases oc with
                  | cell a => simp only [hcc] at this; exact ⟨a, rfl, this⟩
                  | _ => simp [hcc] at this
              have hcomp := funcCompat_mono hAK hfo hfn hovt hnvt hcet hnct hatc hk.2
              exact hid _ _ _ _ _ _ _ _ _ _ _ _ _ _ _ _ (by rw [hovt]; exact hfo) (by rw [hnvt]; exact hfn) hk.1
                (by rw [hdyn]; exact hcomp)
            | _ => simp [hfo, hfn] at hk
        | _ => simp [hfo] at hk


/-! ## `_livepatch__class` on a flat class -/

theorem alookup_layoutFilter (k : Str) (l : List (Str × Id)) :
    alookup k (layoutFilter l) = if special k then none else alookup k l := by
  induction l with
  | nil => simp [layoutFilter, alookup]
  | cons p r ih =>
    obtain ⟨x, v⟩ := p
    unfold layoutFilter at ih ⊢
    by_cases hx : (x != dictKey && x != weakrefKey) = true
    · simp only [List.filter, hx]
      by_cases e : x = k
      · subst e
        have : special x = false := by
          unfold special; simp only [bne_iff_ne, ne_eq, Bool.and_eq_true] at hx
          simp [hx.1, hx.2]
        simp [alookup, this]
      · simp only [alookup, e, if_false]; exact ih
    · have hx' : (x != dictKey && x != weakrefKey) = false := by simpa using hx
      simp only [List.filter, hx']
      by_cases e : x = k
      · subst e
        have : special x = true := by
          unfold special
          cases h1 : (x == dictKey) <;> cases h2 : (x == weakrefKey) <;> simp_all [bne]
        rw [ih]; simp [this]
      · simp only [alookup, e, if_false]; exact ih

/-- the attribute table `_livepatch__class` works with -/
def oaF (fx : Fixes) (a : List (Str × Id)) : List (Str × Id) := if fx.d44 then layoutFilter a else a

theorem alookup_oaF (fx : Fixes) (k : Str) (a : List (Str × Id)) :
    alookup k (oaF fx a) = if fx.d44 && special k then none else alookup k a := by
  unfold oaF
  cases fx.d44
  · simp
  · simp [alookup_layoutFilter]

theorem hasKey_oaF (fx : Fixes) (k : Str) (a : List (Str × Id)) :
    hasKey k (oaF fx a) = (!(fx.d44 && special k) && hasKey k a) := by
  unfold hasKey; rw [alookup_oaF]
  cases (fx.d44 && special k) <;> simp

/-- the names the attribute loop of `_livepatch__class` recurses on -/
def loopKeys (fx : Fixes) (osl : Option (List Str)) (oa0 na0 : List (Str × Id)) : List Str :=
  sortStrs (((akeys (oaF fx oa0)).filter (fun k => hasKey k (oaF fx na0) && !(osl.getD []).contains k
      && k != slotsKey && k != dictKey && k != docKey)).eraseDups)

theorem mem_loopKeys {fx : Fixes} {osl : Option (List Str)} {oa0 na0 : List (Str × Id)} {k : Str} :
    k ∈ loopKeys fx osl oa0 na0 ↔ hasKey k (oaF fx oa0) = true ∧ hasKey k (oaF fx na0) = true ∧
      (osl.getD []).contains k = false ∧ k ≠ slotsKey ∧ k ≠ dictKey ∧ k ≠ docKey := by
  unfold loopKeys
  rw [mem_sortStrs, List.mem_eraseDups, List.mem_filter, mem_akeys]
  simp only [Bool.and_eq_true, Bool.not_eq_true', bne_iff_ne, ne_eq, and_assoc]

/-- neither a `staticmethod` nor a `classmethod` wrapper (and present) -/
def plainAt (h : List Obj) (i : Id) : Bool :=
  match h[i]? with
  | some (.smeth _) => false
  | some (.cmeth _) => false
  | some _ => true
  | none => false

theorem getattrOf_plain {owner : Id} {name : Str} {s : St} {n m sl b a raw}
    (ho : s.heap[owner]? = some (.cls n m sl b a)) (hl : alookup name a = some raw) (hp : plainAt s.heap raw = true) :
    getattrOf owner name s = .ok (some raw, s) := by
  unfold plainAt at hp
  unfold getattrOf
  cases hr : s.heap[raw]? with
  | none => simp [hr] at hp
  | some o =>
    simp only [bind_eq, pure_eq, M.bind, getObj_eq ho, hl, getObj_eq hr]
    cases o <;> simp [hr] at hp ⊢ <;> rfl

theorem setattrOf_cls_full {old : Id} {name : Str} {v : Id} {s s' : St} {n m sl b a}
    (hco : s.heap[old]? = some (.cls n m sl b a)) (h : setattrOf old name v s = .ok ((), s')) :
    s' = { s with heap := s.heap.set old (.cls n m sl b (aset name v a)) } := by
  unfold setattrOf at h
  simp only [bind_eq] at h
  obtain ⟨o, s1, h1, h2⟩ := bind_ok.mp h
  rw [getObj_eq hco] at h1; cases h1
  simp only at h2
  split at h2
  · exact (fail_ok.mp h2).elim
  · obtain ⟨n0, m0, sl0, b0, a0, he, rfl⟩ := updClsAttrs_ok h2
    rw [hco] at he; cases he
    rfl

theorem delattrOf_cls_full {old : Id} {name : Str} {s s' : St} {n m sl b a}
    (hco : s.heap[old]? = some (.cls n m sl b a)) (h : delattrOf old name s = .ok ((), s')) :
    s' = { s with heap := s.heap.set old (.cls n m sl b (adel name a)) } := by
  unfold delattrOf at h
  simp only [bind_eq] at h
  obtain ⟨o, s1, h1, h2⟩ := bind_ok.mp h
  rw [getObj_eq hco] at h1; cases h1
  simp only at h2
  split at h2
  · exact (fail_ok.mp h2).elim
  · obtain ⟨n0, m0, sl0, b0, a0, he, rfl⟩ := updClsAttrs_ok h2
    rw [hco] at he; cases he
    rfl

/-- a loop of attribute writes on one class: table folded, cache and every other object untouched -/
theorem forEach_cls_full {old : Id} {n m sl b} (f : Str → M Unit) (g : Str → List (Str × Id) → List (Str × Id))
    (hf : ∀ k (s s' : St) a, s.heap[old]? = some (.cls n m sl b a) → f k s = .ok ((), s') →
            s' = { s with heap := s.heap.set old (.cls n m sl b (g k a)) }) :
    ∀ (ks : List Str) (s s' : St) (a : List (Str × Id)), s.heap[old]? = some (.cls n m sl b a) →
      forEach f ks s = .ok ((), s') →
      s'.heap[old]? = some (.cls n m sl b (ks.foldl (fun e k => g k e) a)) ∧ s'.cache = s.cache ∧
        ∀ j, j ≠ old → s'.heap[j]? = s.heap[j]? := by
  intro ks
  induction ks with
  | nil =>
    intro s s' a ha h
    unfold forEach at h
    obtain ⟨_, rfl⟩ := pure_ok.mp h
    exact ⟨ha, rfl, fun _ _ => rfl⟩
  | cons k ks ih =>
    intro s s' a ha h
    unfold forEach at h
    simp only [bind_eq] at h
    obtain ⟨u, s1, h1, h2⟩ := bind_ok.mp h
    have e1 := hf k s s1 a ha h1
    subst e1
    obtain ⟨q1, q2, q3⟩ := ih _ s' (g k a) (getElem?_set_self' ha) h2
    refine ⟨q1, q2, fun j hj => ?_⟩
    rw [q3 j hj]
    exact List.getElem?_set_ne (Ne.symm hj)

/-- one round of the attribute loop on plain entries -/
theorem lpSetattr_ok {rec : Rec} {vs : List Id} {old new : Id} {x : Str} {t t' : St}
    {n m sl b e n' m' sl' b' en} {ov nv : Id}
    (hold : t.heap[old]? = some (.cls n m sl b e)) (hnew : t.heap[new]? = some (.cls n' m' sl' b' en))
    (hov : alookup x e = some ov) (hnv : alookup x en = some nv)
    (hpn : plainAt t.heap nv = true) (hpo : ov ≠ nv → plainAt t.heap ov = true)
    (h : lpSetattr rec vs old new x t = .ok ((), t')) :
    (ov = nv ∧ t' = t) ∨ (ov ≠ nv ∧ ∃ r1 t1, rec vs ov nv t = .ok (r1, t1) ∧
      ((r1 = ov ∧ t' = t1) ∨ (r1 ≠ ov ∧ ∀ e1, t1.heap[old]? = some (.cls n m sl b e1) →
         t' = { t1 with heap := t1.heap.set old (.cls n m sl b (aset x r1 e1)) }))) := by
  have hpo' : plainAt t.heap ov = true := by
    by_cases hs : ov = nv
    · rw [hs]; exact hpn
    · exact hpo hs
  unfold lpSetattr at h
  simp only [bind_eq, pure_eq] at h
  obtain ⟨nv', s1, h1, h2⟩ := bind_ok.mp h
  rw [getattrOf_plain hnew hnv hpn] at h1; cases h1
  simp only at h2
  obtain ⟨tt, s2, h3, h4⟩ := bind_ok.mp h2
  obtain ⟨e1, e2⟩ := getSt_ok h3
  rw [e1] at h4; clear h3 e1 e2
  split at h4
  · exact (fail_ok.mp h4).elim
  · obtain ⟨ov', s3, h5, h6⟩ := bind_ok.mp h4
    rw [getattrOf_plain hold hov hpo'] at h5; cases h5
    simp only at h6
    split at h6
    · rename_i heq
      exact Or.inl ⟨heq.symm, (pure_ok.mp h6).2⟩
    · rename_i hneq
      obtain ⟨r, s4, h7, h8⟩ := bind_ok.mp h6
      refine Or.inr ⟨fun hh => hneq hh.symm, r, s4, h7, ?_⟩
      split at h8
      · rename_i hr
        exact Or.inl ⟨hr, (pure_ok.mp h8).2⟩
      · rename_i hr
        exact Or.inr ⟨hr, fun e1 he1 => setattrOf_cls_full he1 h8⟩


/-- what `livepatch(co, cn)` writes for a flat class: the class object and the footprints of its methods -/
def fpCls (h : List Obj) (fx : Fixes) (co cn : Id) : List Id :=
  match h[co]?, h[cn]? with
  | some (.cls _ _ sl _ oa0), some (.cls _ _ _ _ na0) => co :: (loopKeys fx sl oa0 na0).flatMap (fpKey h oa0 na0)
  | _, _ => []

/-- the names whose entries `_livepatch__class` never touches: the layout descriptors (with repair D44), `__dict__`,
    `__slots__` and the slot names -/
def keptKey (fx : Fixes) (sl : Option (List Str)) (k : Str) : Bool :=
  (fx.d44 && special k) || k == dictKey || k == slotsKey || (sl.getD []).contains k

/-- an attribute both classes have and the loop recurses on: the new entry is plain (no `staticmethod` / `classmethod`
    wrapper — D42) and outside the write set; the old entry is that very object, an atom, or a flat function -/
def clsEntryOKB (h : List Obj) (oa0 na0 : List (Str × Id)) (Wt : List Id) (k : Str) : Bool :=
  match alookup k oa0, alookup k na0 with
  | some ov, some nv =>
    !Wt.contains nv && plainAt h nv && (ov == nv || ((isAtomAt h ov || flatFuncB h ov) && newSideB h Wt nv))
  | _, _ => false

/-- **flat class pair**: same `__name__` and slot names; the new class has no in-module base (D18 / D18b are out);
    every common attribute is `clsEntryOKB`; the untouched entries (`keptKey`) have equal values; the objects written
    are pairwise distinct, not atoms, inside `Wt`, and the new class is outside `Wt`. -/
def flatClassB (h : List Obj) (fx : Fixes) (Wt : List Id) (co cn : Id) : Bool :=
  match h[co]?, h[cn]? with
  | some (.cls n _ sl _ oa0), some (.cls n' _ sl' b' na0) =>
    n == n' && sl == sl' && b'.isEmpty && !Wt.contains cn &&
    decide (fpCls h fx co cn).Nodup && (fpCls h fx co cn).all (fun j => Wt.contains j) &&
    ((loopKeys fx sl oa0 na0).flatMap (fpKey h oa0 na0)).all (fun j => !isAtomAt h j) &&
    (loopKeys fx sl oa0 na0).all (clsEntryOKB h oa0 na0 Wt) &&
    (akeys oa0 ++ akeys na0).all (fun k => !keptKey fx sl k || optValEq h (alookup k oa0) (alookup k na0))
  | _, _ => false

structure FlatCls (h0 : List Obj) (fx : Fixes) (Wt : List Id) (co cn : Id) (n : Str) (m m' : Option Str)
    (sl : Option (List Str)) (b : List Id) (oa0 na0 : List (Str × Id)) : Prop where
  hco : h0[co]? = some (.cls n m sl b oa0)
  hcn : h0[cn]? = some (.cls n m' sl [] na0)
  cnW : cn ∉ Wt
  nodup : (co :: (loopKeys fx sl oa0 na0).flatMap (fpKey h0 oa0 na0)).Nodup
  sub : ∀ j, j ∈ co :: (loopKeys fx sl oa0 na0).flatMap (fpKey h0 oa0 na0) → j ∈ Wt
  WA : ∀ j, j ∈ (loopKeys fx sl oa0 na0).flatMap (fpKey h0 oa0 na0) → isAtomAt h0 j = false
  entry : ∀ k, k ∈ loopKeys fx sl oa0 na0 → clsEntryOKB h0 oa0 na0 Wt k = true
  kept : ∀ k, keptKey fx sl k = true → optValEq h0 (alookup k oa0) (alookup k na0) = true

theorem flatCls_of_B {h0 : List Obj} {fx : Fixes} {Wt : List Id} {co cn : Id} (hf : flatClassB h0 fx Wt co cn = true) :
    ∃ n m m' sl b oa0 na0, FlatCls h0 fx Wt co cn n m m' sl b oa0 na0 ∧
      fpCls h0 fx co cn = co :: (loopKeys fx sl oa0 na0).flatMap (fpKey h0 oa0 na0) := by
  unfold flatClassB at hf
  cases hco : h0[co]? with
  | none => simp [hco] at hf
  | some o =>
    cases o with
    | cls n m sl b oa0 =>
      cases hcn : h0[cn]? with
      | none => simp [hco, hcn] at hf
      | some o' =>
        cases o' with
        | cls n' m' sl' b' na0 =>
          have hfp : fpCls h0 fx co cn = co :: (loopKeys fx sl oa0 na0).flatMap (fpKey h0 oa0 na0) := by
            unfold fpCls; rw [hco, hcn]
          simp only [hco, hcn, hfp, Bool.and_eq_true, beq_iff_eq, List.isEmpty_iff, Bool.not_eq_true',
            List.contains_eq_mem, decide_eq_false_iff_not, decide_eq_true_eq, List.all_eq_true] at hf
          obtain ⟨⟨⟨⟨⟨⟨⟨⟨h1, h2⟩, h3⟩, h4⟩, h5⟩, h6⟩, h7⟩, h8⟩, h9⟩ := hf
          subst h1 h2 h3
          refine ⟨n, m, m', sl, b, oa0, na0, ⟨hco, hcn, h4, h5, fun j hj => by simpa using h6 j hj, h7, h8, fun k hk => ?_⟩, hfp⟩
          by_cases hm : k ∈ akeys oa0 ++ akeys na0
          · have := h9 k hm
            rw [hk] at this
            simpa using this
          · simp only [List.mem_append, mem_akeys, not_or, Bool.not_eq_true] at hm
            rw [alookup_none_of_hasKey hm.1, alookup_none_of_hasKey hm.2]; rfl
        | _ => simp [hco, hcn] at hf
    | _ => simp [hco] at hf

theorem nodup_flatMap_mem {α β : Type} {f : α → List β} : ∀ {l : List α}, (l.flatMap f).Nodup → ∀ {x}, x ∈ l → (f x).Nodup
  | [], _, _, hx => by cases hx
  | a :: r, h, x, hx => by
    rw [List.flatMap_cons, List.nodup_append] at h
    simp only [List.mem_cons] at hx
    rcases hx with rfl | hx
    · exact h.1
    · exact nodup_flatMap_mem h.2.1 hx

theorem valEq_entryRel {h0 h : List Obj} {P Wt : List Id} (hAK : AtomsKept h0 h) :
    ∀ (x y : Option Id), optValEq h0 x y = true → EntryRel h P Wt x y
  | none, none, _ => trivial
  | none, some _, hv => by simp [optValEq] at hv
  | some _, none, hv => by simp [optValEq] at hv
  | some a, some b, hv => by
    unfold optValEq valEq at hv
    simp only [Bool.or_eq_true, beq_iff_eq] at hv
    rcases hv with rfl | hv
    · exact Or.inl rfl
    · cases ha : h0[a]? with
      | none => simp [ha] at hv
      | some oa =>
        cases oa with
        | atom t v =>
          cases hb : h0[b]? with
          | none => simp [ha, hb] at hv
          | some ob =>
            cases ob with
            | atom t' v' =>
              simp only [ha, hb, Bool.and_eq_true, beq_iff_eq] at hv
              obtain ⟨rfl, rfl⟩ := hv
              exact Or.inr (Or.inl ⟨t, v, hAK a t v ha, hAK b t v hb⟩)
            | _ => simp [ha, hb] at hv
        | _ => simp [ha] at hv

theorem optValEq_mono {h0 h : List Obj} (hAK : AtomsKept h0 h) :
    ∀ (x y : Option Id), optValEq h0 x y = true → optValEq h x y = true
  | none, none, _ => rfl
  | none, some _, hv => by simp [optValEq] at hv
  | some _, none, hv => by simp [optValEq] at hv
  | some a, some b, hv => by
    unfold optValEq valEq at hv ⊢
    simp only [Bool.or_eq_true, beq_iff_eq] at hv ⊢
    rcases hv with rfl | hv
    · exact Or.inl rfl
    · right
      cases ha : h0[a]? with
      | none => simp [ha] at hv
      | some oa =>
        cases oa with
        | atom t v =>
          cases hb : h0[b]? with
          | none => simp [ha, hb] at hv
          | some ob =>
            cases ob with
            | atom t' v' =>
              simp only [ha, hb] at hv
              rw [hAK a t v ha, hAK b t' v' hb]
              exact hv
            | _ => simp [ha, hb] at hv
        | _ => simp [ha] at hv

theorem plainAt_congr {h h' : List Obj} {i : Id} (hi : h'[i]? = h[i]?) : plainAt h' i = plainAt h i := by
  unfold plainAt; rw [hi]


/-- the attribute table of the old class when the attribute loop starts -/
def syncTable (fx : Fixes) (oa0 na0 : List (Str × Id)) : List (Str × Id) :=
  ((akeys (oaF fx na0)).filter (fun k => !hasKey k (oaF fx oa0))).foldl
    (fun e k => aset k ((alookup k (oaF fx na0)).getD 0) e)
    (((akeys (oaF fx oa0)).filter (fun k => !hasKey k (oaF fx na0))).foldl (fun e k => adel k e) oa0)

def startTable (fx : Fixes) (oa0 na0 : List (Str × Id)) (dv : Id) : List (Str × Id) :=
  aset docKey dv (syncTable fx oa0 na0)

theorem alookup_startTable (fx : Fixes) (oa0 na0 : List (Str × Id)) (dv : Id) (k : Str) :
    alookup k (startTable fx oa0 na0 dv) = if docKey = k then some dv else
      if (hasKey k (oaF fx na0) && !hasKey k (oaF fx oa0)) = true then alookup k (oaF fx na0)
      else if (hasKey k (oaF fx oa0) && !hasKey k (oaF fx na0)) = true then none else alookup k oa0 := by
  unfold startTable syncTable
  rw [alookup_aset, alookup_foldl_aset (g := fun x => (alookup x (oaF fx na0)).getD 0), alookup_foldl_adel]
  by_cases hd : docKey = k
  · simp [hd]
  · simp only [hd, if_false, List.mem_filter, mem_akeys, Bool.not_eq_true', Bool.and_eq_true]
    by_cases a : hasKey k (oaF fx na0) = true
    · by_cases b : hasKey k (oaF fx oa0) = true
      · simp [a, b]
      · have b' : hasKey k (oaF fx oa0) = false := by simpa using b
        simp only [a, b', and_self, if_true]
        unfold hasKey at a
        cases hh : alookup k (oaF fx na0) with
        | none => rw [hh] at a; cases a
        | some v => rfl
    · have a' : hasKey k (oaF fx na0) = false := by simpa using a
      simp [a']

theorem EntryRel.rfl' {h : List Obj} {P Wt : List Id} : ∀ (x : Option Id), EntryRel h P Wt x x
  | none => trivial
  | some _ => Or.inl rfl

theorem startTable_rel {h0 h : List Obj} {fx : Fixes} {Wt P : List Id} {sl : Option (List Str)}
    {oa0 na0 : List (Str × Id)} {dv : Id}
    (hAK : AtomsKept h0 h) (hdoc : alookup docKey (oaF fx na0) = some dv)
    (hkept : ∀ k, keptKey fx sl k = true → optValEq h0 (alookup k oa0) (alookup k na0) = true)
    {k : Str} (hk : k ∉ loopKeys fx sl oa0 na0) :
    EntryRel h P Wt (alookup k (startTable fx oa0 na0 dv)) (alookup k na0) := by
  rw [alookup_startTable]
  by_cases hd : docKey = k
  · subst hd
    simp only [if_true]
    rw [alookup_oaF, docKey_not_special] at hdoc
    simp only [Bool.and_false, Bool.false_eq_true, if_false] at hdoc
    rw [hdoc]; exact Or.inl rfl
  · simp only [hd, if_false]
    by_cases hA : (fx.d44 && special k) = true
    · have h1 : hasKey k (oaF fx oa0) = false := by rw [hasKey_oaF, hA]; rfl
      have h2 : hasKey k (oaF fx na0) = false := by rw [hasKey_oaF, hA]; rfl
      simp only [h1, h2, Bool.false_and, Bool.false_eq_true, if_false]
      exact valEq_entryRel hAK _ _ (hkept k (by unfold keptKey; rw [hA]; rfl))
    · have hA' : (fx.d44 && special k) = false := by simpa using hA
      have e2 : alookup k (oaF fx na0) = alookup k na0 := by rw [alookup_oaF, hA']; rfl
      have k1 : hasKey k (oaF fx oa0) = hasKey k oa0 := by rw [hasKey_oaF, hA']; rfl
      have k2 : hasKey k (oaF fx na0) = hasKey k na0 := by rw [hasKey_oaF, hA']; rfl
      rw [k1, k2, e2]
      cases ho : hasKey k oa0 <;> cases hn : hasKey k na0
      · simp only [Bool.false_and, Bool.false_eq_true, if_false]
        rw [alookup_none_of_hasKey ho, alookup_none_of_hasKey hn]; trivial
      · simp only [Bool.not_false, Bool.and_self, if_true]
        exact EntryRel.rfl' _
      · simp only [Bool.not_true, Bool.false_eq_true, if_false, Bool.not_false, Bool.and_self, if_true]
        rw [alookup_none_of_hasKey hn]; trivial
      · simp only [Bool.not_true, Bool.and_false, Bool.false_eq_true, if_false]
        apply valEq_entryRel hAK _ _ (hkept k ?_)
        rw [mem_loopKeys, k1, k2, ho, hn] at hk
        simp only [true_and, not_and] at hk
        unfold keptKey
        by_cases c1 : (sl.getD []).contains k = true
        · have c1' : k ∈ sl.getD [] := by simpa using c1
          simp [c1']
        · by_cases c2 : k = slotsKey
          · simp [c2]
          · by_cases c3 : k = dictKey
            · simp [c3]
            · exact ((hk (by simpa using c1) c2 c3) (fun e => hd e.symm)).elim

theorem isAtomAt_plain {h : List Obj} {i : Id} (hi : isAtomAt h i = true) : plainAt h i = true := by
  obtain ⟨t, v, hh⟩ := isAtomAt_iff.mp hi
  unfold plainAt; rw [hh]

theorem flatFuncB_plain {h : List Obj} {i : Id} (hi : flatFuncB h i = true) : plainAt h i = true := by
  unfold flatFuncB at hi
  unfold plainAt
  cases hv : h[i]? with
  | none => simp [hv] at hi
  | some o => cases o <;> simp [hv] at hi ⊢


theorem hasKey_oaF_lookup {fx : Fixes} {k : Str} {a : List (Str × Id)} (h : hasKey k (oaF fx a) = true) :
    ∃ v, alookup k a = some v := by
  rw [hasKey_oaF] at h
  simp only [Bool.and_eq_true] at h
  have := h.2
  unfold hasKey at this
  cases hh : alookup k a with
  | none => rw [hh] at this; cases this
  | some v => exact ⟨v, rfl⟩

theorem clsEntry_decode {h0 : List Obj} {oa0 na0 : List (Str × Id)} {Wt : List Id} {x : Str} {ov nv : Id}
    (he : clsEntryOKB h0 oa0 na0 Wt x = true) (hov : alookup x oa0 = some ov) (hnv : alookup x na0 = some nv) :
    nv ∉ Wt ∧ plainAt h0 nv = true ∧
      (ov = nv ∨ ((isAtomAt h0 ov || flatFuncB h0 ov) = true ∧ newSideB h0 Wt nv = true)) := by
  unfold clsEntryOKB at he
  rw [hov, hnv] at he
  simp only [Bool.and_eq_true, Bool.not_eq_true', List.contains_eq_mem, decide_eq_false_iff_not, Bool.or_eq_true,
    beq_iff_eq] at he
  refine ⟨he.1.1, he.1.2, ?_⟩
  rcases he.2 with h | h
  · exact Or.inl h
  · exact Or.inr ⟨by simpa using h.1, h.2⟩

set_option maxHeartbeats 800000 in
/-- **lp_flatClass** (functional form).  `livepatch(old_class, new_class)` for a flat class pair, not cut short: only the
    class object and the footprints of its methods (`fpCls`) are written; either nothing happened and the new class is
    returned, or the old class is returned and is `ClassPatched`; the latter happens exactly when the code's own
    module test (`patchable`) passes. -/
theorem lp_flatClass {cx : Ctx} {fuel : Nat} {vs : List Id} {co cn : Id} {s s' : St} {r : Id}
    {h0 : List Obj} {W Wt : List Id}
    (hdyn : cx.dyn = []) (hAK : AtomsKept h0 s.heap)
    (hWA : ∀ j, j ∈ W → isAtomAt h0 j = false) (hvsA : ∀ j, j ∈ vs → isAtomAt h0 j = false)
    (hfc : flatClassB h0 cx.fx Wt co cn = true)
    (hag : ∀ j, (j ∈ fpCls h0 cx.fx co cn ∨ j ∉ Wt) → s.heap[j]? = h0[j]?)
    (hFvs : ∀ j, j ∈ fpCls h0 cx.fx co cn → j ∉ vs) (hFW : ∀ j, j ∈ fpCls h0 cx.fx co cn → j ∉ W)
    (hc : CacheOK h0 W s)
    (h : lp cx fuel false vs co cn s = .ok (r, s')) :
    (∀ j, j ∉ fpCls h0 cx.fx co cn → s'.heap[j]? = s.heap[j]?) ∧ CacheOK h0 (fpCls h0 cx.fx co cn ++ W) s' ∧
    ((r = cn ∧ s'.heap = s.heap) ∨
      (r = co ∧ co ≠ cn ∧ ClassPatched s'.heap Wt co cn (fpCls h0 cx.fx co cn))) ∧
    (∀ n m sl b a n' m' sl' b' a', h0[co]? = some (.cls n m sl b a) → h0[cn]? = some (.cls n' m' sl' b' a') →
      patchable cx m m' = true → r = co) := by
  obtain ⟨n, m, m', sl, b, oa0, na0, FC, hfp⟩ := flatCls_of_B hfc
  rw [hfp] at hag hFvs hFW ⊢
  have hcoF : co ∈ co :: (loopKeys cx.fx sl oa0 na0).flatMap (fpKey h0 oa0 na0) := List.mem_cons_self
  have hWSF : ∀ j, j ∈ (loopKeys cx.fx sl oa0 na0).flatMap (fpKey h0 oa0 na0) →
      j ∈ co :: (loopKeys cx.fx sl oa0 na0).flatMap (fpKey h0 oa0 na0) := fun j hj => List.mem_cons_of_mem _ hj
  have hco : s.heap[co]? = some (.cls n m sl b oa0) := by rw [hag co (Or.inl hcoF)]; exact FC.hco
  have hcn : s.heap[cn]? = some (.cls n m' sl [] na0) := by rw [hag cn (Or.inr FC.cnW)]; exact FC.hcn
  have hcoA : isAtomAt h0 co = false := by unfold isAtomAt; rw [FC.hco]
  have hcoWt : co ∈ Wt := FC.sub co hcoF
  have hne : co ≠ cn := fun e => FC.cnW (e ▸ hcoWt)
  have hnd' := List.nodup_cons.mp FC.nodup
  obtain ⟨k, s2, rfl, hdisp, rfl⟩ := lp_run hne (hFvs co hcoF) (hc.miss (hFW co hcoF) hcoA) h
  have cacheW : ∀ {t : St}, CacheOK h0 W t →
      CacheOK h0 ((co :: (loopKeys cx.fx sl oa0 na0).flatMap (fpKey h0 oa0 na0)) ++ W) t :=
    fun hh => hh.mono (fun i hi => List.mem_append_right _ hi)
  have cachePush : ∀ {t : St} {r0 : Id},
      CacheOK h0 ((co :: (loopKeys cx.fx sl oa0 na0).flatMap (fpKey h0 oa0 na0)) ++ W) t →
      CacheOK h0 ((co :: (loopKeys cx.fx sl oa0 na0).flatMap (fpKey h0 oa0 na0)) ++ W)
        { t with cache := ((co, cn), r0) :: t.cache } := by
    intro t r0 hh e he
    simp only [List.mem_cons] at he
    rcases he with rfl | he
    · left; simp
    · exact hh e he
  unfold dispatch at hdisp
  simp only [bind_eq, pure_eq] at hdisp
  obtain ⟨kd, s4, h7, h8⟩ := bind_ok.mp hdisp
  rw [resolveKind_cls hco hcn (by rw [hdyn]; rfl)] at h7
  cases h7
  by_cases hp' : patchable cx m m' = false
  · simp only [hp', Bool.false_eq_true, if_false] at h8
    obtain ⟨rfl, rfl⟩ := pure_ok.mp h8
    refine ⟨fun _ _ => rfl, cachePush (cacheW hc), Or.inl ⟨rfl, rfl⟩, ?_⟩
    intro n1 m1 sl1 b1 a1 n2 m2 sl2 b2 a2 e1 e2 hpp
    rw [FC.hco] at e1; cases e1
    rw [FC.hcn] at e2; cases e2
    rw [hp'] at hpp; cases hpp
  have hp : patchable cx m m' = true := by simpa using hp'
  simp only [hp, if_true] at h8
  unfold lpClass at h8
  simp only [bind_eq, pure_eq] at h8
  obtain ⟨o, s5, h9, h10⟩ := bind_ok.mp h8
  rw [getObj_eq hco] at h9; cases h9
  obtain ⟨nn, s6, h11, h12⟩ := bind_ok.mp h10
  rw [getObj_eq hcn] at h11; cases h11
  simp only at h12
  obtain ⟨t, s7, h13, h14⟩ := bind_ok.mp h12
  obtain ⟨e1, e2⟩ := getSt_ok h13
  rw [e1] at h14; rw [e2] at h14
  clear h13 e1 e2
  have hsl : optValEq s.heap (alookup slotsKey oa0) (alookup slotsKey na0) = true :=
    optValEq_mono hAK _ _ (FC.kept slotsKey (by simp [keptKey]))
  simp only [hsl, Bool.not_true, Bool.false_eq_true, if_false] at h14
  obtain ⟨u1, t1, g1, g2⟩ := bind_ok.mp h14
  obtain ⟨u2, t2, g3, g4⟩ := bind_ok.mp g2
  obtain ⟨bases, t3, g5, g6⟩ := bind_ok.mp g4
  obtain ⟨u4, t4, g7, g8⟩ := bind_ok.mp g6
  have p1 := forEach_cls_full (old := co) (n := n) (m := m) (sl := sl) (b := b) (delattrOf co) (fun k => adel k)
    (fun k s s' a ha hh => delattrOf_cls_full ha hh) _ s t1 oa0 hco g1
  have p2 := forEach_cls_full (old := co) (n := n) (m := m) (sl := sl) (b := b)
    (fun k => setattrOf co k ((alookup k (oaF cx.fx na0)).getD 0))
    (fun k => aset k ((alookup k (oaF cx.fx na0)).getD 0))
    (fun k s s' a ha hh => setattrOf_cls_full ha hh) _ t1 t2 _ p1.1 g3
  have p3 : bases = [] ∧ t3 = t2 := by
    unfold classBases at g5
    cases hd : cx.fx.d18
    · simp only [hd, Bool.false_eq_true, if_false] at g5; exact pure_ok.mp g5
    · simp only [hd, if_true] at g5; unfold lpBases at g5; exact pure_ok.mp g5
  obtain ⟨rfl, rfl⟩ := p3
  obtain ⟨n0, m0, sl0, b0, a0, he, ht4⟩ := updClsBases_ok g7
  rw [p2.1] at he; cases he
  cases hdoc : alookup docKey (oaF cx.fx na0) with
  | none =>
    simp only [oaF, layoutFilter] at hdoc
    simp only [hdoc] at g8
    exact (fail_ok.mp g8).elim
  | some dv =>
    have hdoc' := hdoc
    simp only [oaF, layoutFilter] at hdoc'
    simp only [hdoc'] at g8
    obtain ⟨u5, t5, g9, g10⟩ := bind_ok.mp g8
    obtain ⟨u6, t6, g11, g12⟩ := bind_ok.mp g10
    obtain ⟨hr, hs⟩ := pure_ok.mp g12
    have hr' := hr.symm
    have hs' := hs.symm
    subst hr' hs'
    have p4 : t4.heap[co]? = some (.cls n m sl [] (syncTable cx.fx oa0 na0)) := by rw [ht4]; exact getElem?_set_self' p2.1
    have p5 := setattrOf_cls_full p4 g9
    have hT : t5.heap[co]? = some (.cls n m sl [] (startTable cx.fx oa0 na0 dv)) := by
      rw [p5]; exact getElem?_set_self' p4
    have fr5 : ∀ j, j ≠ co → t5.heap[j]? = s.heap[j]? := by
      intro j hj
      rw [p5]
      show (t4.heap.set co _)[j]? = _
      rw [List.getElem?_set_ne (Ne.symm hj), ht4]
      show (t3.heap.set co _)[j]? = _
      rw [List.getElem?_set_ne (Ne.symm hj), p2.2.2 j hj, p1.2.2 j hj]
    have cache5 : t5.cache = s.cache := by
      rw [p5, ht4]
      show t3.cache = _
      rw [p2.2.1, p1.2.1]
    clear p5 ht4 p4 g9 g7 g3 g1 g8 g10 g6 g4 g2 h14 h12 h10 h8 hdisp
    have hvsA' : ∀ j, j ∈ vs ++ [co] → isAtomAt h0 j = false := by
      intro j hj
      rcases List.mem_append.mp hj with hj | hj
      · exact hvsA j hj
      · simp at hj; subst hj; exact hcoA
    have G : GLoop cx k h0 t5.heap (vs ++ [co]) co (fun hh e => hh[co]? = some (.cls n m sl [] e)) oa0 na0
        (loopKeys cx.fx sl oa0 na0) (fpKey h0 oa0 na0) Wt W (fun hh o n' P => PatchedF hh Wt o n' P) (fun _ => False)
        (lpSetattr (lp cx k false) (vs ++ [co]) co cn) := by
      refine { pmem := ?_, pkeeps := ?_, vcongr := ?_, vnotAtom := ?_, HnW := hnd'.1, sub := ?_, HWt := hcoWt,
               WA := FC.WA, WWA := hWA, WW := ?_, hsag := ?_, both := ?_, ent := ?_, hstep := ?_, hsum := ?_ }
      · exact fun _ _ _ _ hp => hp.mem
      · exact fun _ _ _ _ _ _ hp hfr hat hP hQ => hp.keeps hfr hat hP hQ
      · intro hh hh' e heq hv
        show hh'[co]? = _
        rw [heq]; exact hv
      · intro hh e t0 v hv habs
        rw [hv] at habs; cases habs
      · exact fun j hj => FC.sub j (hWSF j hj)
      · exact fun j hj => hFW j (hWSF j hj)
      · intro j hj
        have hjco : j ≠ co := by
          rcases hj with hj | hj
          · rintro rfl; exact hnd'.1 hj
          · rintro rfl; exact hj hcoWt
        rw [fr5 j hjco]; exact hag j (hj.imp (hWSF j) id)
      · intro x hx
        rw [mem_loopKeys] at hx
        obtain ⟨ov, hov⟩ := hasKey_oaF_lookup hx.1
        obtain ⟨nv, hnv⟩ := hasKey_oaF_lookup hx.2.1
        exact ⟨ov, nv, hov, hnv⟩
      · intro x ov nv hx hov hnv hne'
        obtain ⟨_, _, hcase⟩ := clsEntry_decode (FC.entry x hx) hov hnv
        rcases hcase with heq | ⟨hent, _⟩
        · exact (hne' heq).elim
        · simp only [Bool.or_eq_true] at hent
          rcases hent with hat | hff
          · exact Or.inl hat
          · right
            have hfk : fpKey h0 oa0 na0 x = fpOf h0 ov := by unfold fpKey; rw [hov, hnv]; simp [hne']
            rw [hfk]; exact flatFuncB_mem hff
      · intro x t t' e ov nv hx hv hov hnv hovo hAKt hagt hst
        have hcnt : t.heap[cn]? = some (.cls n m' sl [] na0) := by rw [hagt cn (Or.inr FC.cnW)]; exact FC.hcn
        have hx' := hx
        rw [mem_loopKeys] at hx'
        obtain ⟨ov0, hov0⟩ := hasKey_oaF_lookup hx'.1
        obtain ⟨hnvW, hpn, hcase⟩ := clsEntry_decode (FC.entry x hx) hov0 hnv
        have hpnt : plainAt t.heap nv = true := by rw [plainAt_congr (hagt nv (Or.inr hnvW))]; exact hpn
        have hpot : ov ≠ nv → plainAt t.heap ov = true := by
          intro hne'
          have hovx := hovo hne'
          obtain ⟨_, _, hcase'⟩ := clsEntry_decode (FC.entry x hx) hovx hnv
          rcases hcase' with heq | ⟨hent, _⟩
          · exact (hne' heq).elim
          · simp only [Bool.or_eq_true] at hent
            rcases hent with hat | hff
            · obtain ⟨t0, v0, h00⟩ := isAtomAt_iff.mp hat
              unfold plainAt; rw [hAKt ov t0 v0 h00]
            · have hfk : fpKey h0 oa0 na0 x = fpOf h0 ov := by unfold fpKey; rw [hovx, hnv]; simp [hne']
              rw [plainAt_congr (hagt ov (Or.inl (by rw [hfk]; exact flatFuncB_mem hff)))]
              exact flatFuncB_plain hff
        rcases lpSetattr_ok hv hcnt hov hnv hpnt hpot hst with h1 | ⟨hne', r1, t1', hrec, hfin⟩
        · exact Or.inl h1
        · refine Or.inr ⟨hne', r1, t1', hrec, ?_⟩
          rcases hfin with h2 | ⟨hro, hq⟩
          · exact Or.inl h2
          · refine Or.inr ⟨hro, fun e1 he1 => ?_⟩
            have := hq e1 he1
            subst this
            exact ⟨rfl, fun j hj => List.getElem?_set_ne (Ne.symm hj), getElem?_set_self' he1⟩
      · intro x t t1' Wc ov nv r1 hx hov hnv hne' hAKt hWcA hFWc hct hagt hrec
        obtain ⟨hnvW, hpn, hcase⟩ := clsEntry_decode (FC.entry x hx) hov hnv
        rcases hcase with heq | ⟨hent, hnew⟩
        · exact (hne' heq).elim
        have hfk : fpKey h0 oa0 na0 x = fpOf h0 ov := by unfold fpKey; rw [hov, hnv]; simp [hne']
        rw [hfk] at hFWc hagt ⊢
        have hfx : ∀ j, j ∈ fpOf h0 ov → j ∈ (loopKeys cx.fx sl oa0 na0).flatMap (fpKey h0 oa0 na0) :=
          fun j hj => List.mem_flatMap.mpr ⟨x, hx, by rw [hfk]; exact hj⟩
        obtain ⟨q1, q2, q3, _⟩ := summary_af (cx := cx) hdyn hAKt hWcA hvsA' hent hnew
          (by rw [← hfk]; exact nodup_flatMap_mem hnd'.2 hx) (fun j hj => FC.sub j (hWSF j (hfx j hj))) hFWc
          (fun j hj hm => by
            rcases List.mem_append.mp hm with hm | hm
            · exact hFvs j (hWSF j (hfx j hj)) hm
            · simp at hm; subst hm; exact hnd'.1 (hfx _ hj))
          hagt hct hrec
        exact ⟨q1, q2, q3, fun hf => hf.elim⟩
    have hAK5 : AtomsKept h0 t5.heap :=
      hAK.frame (F := [co]) (by intro j hj; simp at hj; subst hj; exact hcoA)
        (by intro j hj; exact fr5 j (by simpa using hj))
    have I0 : GInv h0 t5.heap co (fun hh e => hh[co]? = some (.cls n m sl [] e)) oa0 na0 (startTable cx.fx oa0 na0 dv)
        (loopKeys cx.fx sl oa0 na0) (fpKey h0 oa0 na0) W (fun hh o n' P => PatchedF hh Wt o n' P) (fun _ => False)
        (loopKeys cx.fx sl oa0 na0) t5 := by
      refine ⟨fun _ hk => hk, hnd'.2, [], fun j hj => (by cases hj), ?_, hAK5, fun _ _ _ => rfl,
        startTable cx.fx oa0 na0 dv, hT, fun _ _ => rfl, fun x hx => Or.inr ⟨hx, ?_⟩, fun _ hf => hf.elim⟩
      · intro c hc'
        rw [cache5] at hc'
        simpa using hc c hc'
      · rw [alookup_startTable]
        rw [mem_loopKeys] at hx
        have : docKey ≠ x := fun e => hx.2.2.2.2.2 e.symm
        simp [this, hx.1, hx.2.1]
    obtain ⟨_, _, Wc, hWc, hcF, hAKF, hfrF, e, heF, hnkF, hkF, _⟩ := gLoop G I0 g11
    have hWcS : ∀ j, j ∈ Wc → j ∈ (loopKeys cx.fx sl oa0 na0).flatMap (fpKey h0 oa0 na0) := fun j hj => (hWc j hj).1
    refine ⟨fun j hj => ?_, cachePush (hcF.mono ?_), Or.inr ⟨rfl, hne, ?_⟩, fun _ _ _ _ _ _ _ _ _ _ _ _ _ => rfl⟩
    · simp only [List.mem_cons, not_or] at hj
      show t6.heap[j]? = _
      rw [hfrF j (fun hm => hj.2 (hWcS j hm)) hj.1, fr5 j hj.1]
    · intro i hi
      rcases List.mem_append.mp hi with hi | hi
      · exact List.mem_append_left _ (hWSF i (hWcS i hi))
      · exact List.mem_append_right _ hi
    · show ClassPatched t6.heap Wt co cn _
      have hcn6 : t6.heap[cn]? = some (.cls n m' sl [] na0) := by
        rw [hfrF cn (fun hm => FC.cnW (FC.sub cn (hWSF cn (hWcS cn hm)))) (Ne.symm hne), fr5 cn (Ne.symm hne)]
        exact hcn
      refine ⟨n, m, m', sl, e, na0, heF, hcn6, hcoF, FC.cnW, fun x => ?_⟩
      by_cases hx : x ∈ loopKeys cx.fx sl oa0 na0
      · rcases hkF x hx with (hd | ⟨o, n', P, a1, a2, a3, a4, hpp, a6⟩) | ⟨hm, _⟩
        · rw [hd]; exact EntryRel.rfl' _
        · rw [a1, a2]
          exact Or.inr (Or.inr (hpp.mono (fun j hj => hWSF j (hWcS j (a6 j hj)))))
        · cases hm
      · rw [hnkF x hx]
        exact startTable_rel hAKF hdoc FC.kept hx


/-- **lp_class_obs.**  Livepatching a flat class pair: whatever is returned (the old class patched in place, or the new
    class) is observationally equal to the new class; it is the old class — identity kept — exactly when the code's
    module test passes; only the class object and its methods' footprints are written. -/
theorem lp_class_obs {cx : Ctx} {fuel : Nat} {vs : List Id} {co cn : Id} {s s' : St} {r : Id}
    {h0 : List Obj} {W Wt : List Id}
    (hdyn : cx.dyn = []) (hAK : AtomsKept h0 s.heap)
    (hWA : ∀ j, j ∈ W → isAtomAt h0 j = false) (hvsA : ∀ j, j ∈ vs → isAtomAt h0 j = false)
    (hfc : flatClassB h0 cx.fx Wt co cn = true)
    (hag : ∀ j, (j ∈ fpCls h0 cx.fx co cn ∨ j ∉ Wt) → s.heap[j]? = h0[j]?)
    (hFvs : ∀ j, j ∈ fpCls h0 cx.fx co cn → j ∉ vs) (hFW : ∀ j, j ∈ fpCls h0 cx.fx co cn → j ∉ W)
    (hc : CacheOK h0 W s)
    (h : lp cx fuel false vs co cn s = .ok (r, s')) :
    ObsEq s'.heap r s'.heap cn ∧ (∀ j, j ∉ fpCls h0 cx.fx co cn → s'.heap[j]? = s.heap[j]?) ∧
    (∀ n m sl b a n' m' sl' b' a', h0[co]? = some (.cls n m sl b a) → h0[cn]? = some (.cls n' m' sl' b' a') →
      patchable cx m m' = true → r = co) := by
  obtain ⟨hfr, _, hres, hid⟩ := lp_flatClass hdyn hAK hWA hvsA hfc hag hFvs hFW hc h
  refine ⟨?_, hfr, hid⟩
  rcases hres with ⟨rfl, _⟩ | ⟨rfl, _, hp⟩
  · exact ObsEq.refl _ _
  · exact hp.obs


/-! ## the module with classes -/

/-- the objects written on account of one pair of values: a class → `fpCls`, otherwise `fpOf` -/
def fpValC (h : List Obj) (fx : Fixes) (ov nv : Id) : List Id :=
  match h[ov]? with
  | some (.cls _ _ _ _ _) => fpCls h fx ov nv
  | _ => fpOf h ov

def fpKeyC (h : List Obj) (fx : Fixes) (eo en : List (Str × Id)) (k : Str) : List Id :=
  match alookup k eo, alookup k en with
  | some ov, some nv => if ov = nv then [] else fpValC h fx ov nv
  | _, _ => []

def writeSetC (h : List Obj) (fx : Fixes) (eo en : List (Str × Id)) : List Id :=
  (commonKeys eo en).flatMap (fpKeyC h fx eo en)

def entryOKC (h : List Obj) (fx : Fixes) (eo en : List (Str × Id)) (Wt : List Id) (k : Str) : Bool :=
  match alookup k eo, alookup k en with
  | some ov, some nv =>
    ov == nv || ((isAtomAt h ov || flatFuncB h ov) && newSideB h Wt nv) || flatClassB h fx Wt ov nv
  | _, _ => false

/-- **flatModuleC**: `flatModule` widened — a surviving name may also be bound to a flat class pair (`flatClassB`) -/
def flatModuleC (h : List Obj) (fx : Fixes) (Mo Mn : Id) : Bool :=
  match h[Mo]?, h[Mn]? with
  | some (.module D), some (.module N) =>
    match h[D]?, h[N]? with
    | some (.dict eo), some (.dict en) =>
      Mo != Mn && D != N &&
      decide (D :: writeSetC h fx eo en).Nodup && !(D :: writeSetC h fx eo en).contains N &&
      !(D :: writeSetC h fx eo en).contains Mo &&
      (writeSetC h fx eo en).all (fun j => !isAtomAt h j) &&
      (commonKeys eo en).all (entryOKC h fx eo en (D :: writeSetC h fx eo en))
    | _, _ => false
  | _, _ => false

structure FlatCtxC (cx : Ctx) (h0 : List Obj) (Mo D N : Id) (eo en : List (Str × Id)) : Prop where
  dyn : cx.dyn = []
  hD : h0[D]? = some (.dict eo)
  hN : h0[N]? = some (.dict en)
  hMo : ∃ d, h0[Mo]? = some (.module d)
  nodup : (D :: writeSetC h0 cx.fx eo en).Nodup
  hNW : N ∉ D :: writeSetC h0 cx.fx eo en
  hMoW : Mo ∉ D :: writeSetC h0 cx.fx eo en
  hWA : ∀ j, j ∈ writeSetC h0 cx.fx eo en → isAtomAt h0 j = false
  entry : ∀ k, k ∈ commonKeys eo en → entryOKC h0 cx.fx eo en (D :: writeSetC h0 cx.fx eo en) k = true

theorem flatCtxC_of_flatModuleC {cx : Ctx} {h0 : List Obj} {Mo Mn D N : Id} {eo en : List (Str × Id)}
    (hdyn : cx.dyn = []) (hMo : h0[Mo]? = some (.module D)) (hMn : h0[Mn]? = some (.module N))
    (hD : h0[D]? = some (.dict eo)) (hN : h0[N]? = some (.dict en)) (hf : flatModuleC h0 cx.fx Mo Mn = true) :
    FlatCtxC cx h0 Mo D N eo en ∧ Mo ≠ Mn ∧ D ≠ N := by
  unfold flatModuleC at hf
  simp only [hMo, hMn, hD, hN, Bool.and_eq_true, bne_iff_ne, ne_eq, decide_eq_true_eq, Bool.not_eq_true',
    List.contains_eq_mem, decide_eq_false_iff_not, List.all_eq_true] at hf
  obtain ⟨⟨⟨⟨⟨⟨h1, h2⟩, h3⟩, h4⟩, h5⟩, h6⟩, h7⟩ := hf
  exact ⟨⟨hdyn, hD, hN, ⟨D, hMo⟩, h3, h4, h5, fun j hj => by simpa using h6 j hj, h7⟩, h1, h2⟩

/-- the names whose function object must survive the reload: the code's own conditions hold on the initial heap -/
def KeepName (cx : Ctx) (h0 : List Obj) (eo en : List (Str × Id)) (x : Str) : Prop :=
  ∃ ov nv, alookup x eo = some ov ∧ alookup x en = some nv ∧ keepIdB cx h0 ov nv = true

theorem entryC_decode {h0 : List Obj} {fx : Fixes} {eo en : List (Str × Id)} {Wt : List Id} {x : Str} {ov nv : Id}
    (he : entryOKC h0 fx eo en Wt x = true) (hov : alookup x eo = some ov) (hnv : alookup x en = some nv)
    (hne : ov ≠ nv) :
    ((isAtomAt h0 ov || flatFuncB h0 ov) = true ∧ newSideB h0 Wt nv = true ∧ fpKeyC h0 fx eo en x = fpOf h0 ov) ∨
    (flatClassB h0 fx Wt ov nv = true ∧ fpKeyC h0 fx eo en x = fpCls h0 fx ov nv) := by
  unfold entryOKC at he
  rw [hov, hnv] at he
  simp only [Bool.or_eq_true, Bool.and_eq_true, beq_iff_eq] at he
  have hfk : fpKeyC h0 fx eo en x = fpValC h0 fx ov nv := by unfold fpKeyC; rw [hov, hnv]; simp [hne]
  rcases he with (h | h) | h
  · exact (hne h).elim
  · left
    refine ⟨by simpa using h.1, h.2, ?_⟩
    rw [hfk]
    unfold fpValC
    rcases h.1 with hat | hff
    · obtain ⟨t, v, hh⟩ := isAtomAt_iff.mp hat; rw [hh]
    · unfold flatFuncB at hff
      cases hv : h0[ov]? with
      | none => simp [hv] at hff
      | some o => cases o <;> simp [hv] at hff ⊢
  · right
    refine ⟨h, ?_⟩
    rw [hfk]
    unfold fpValC
    unfold flatClassB at h
    cases hv : h0[ov]? with
    | none => simp [hv] at h
    | some o => cases o <;> simp [hv] at h ⊢

theorem flatClassB_mem {h0 : List Obj} {fx : Fixes} {Wt : List Id} {co cn : Id} (h : flatClassB h0 fx Wt co cn = true) :
    co ∈ fpCls h0 fx co cn ∧ (∃ n m sl b a, h0[co]? = some (.cls n m sl b a)) := by
  obtain ⟨n, m, m', sl, b, oa0, na0, FC, hfp⟩ := flatCls_of_B h
  exact ⟨by rw [hfp]; exact List.mem_cons_self, n, m, sl, b, oa0, FC.hco⟩

set_option maxHeartbeats 800000 in
theorem moduleLoop {cx : Ctx} {h0 : List Obj} {Mo D N : Id} {eo en : List (Str × Id)} (C : FlatCtxC cx h0 Mo D N eo en)
    (n : Nat) {hs : List Obj} (hhs : ∀ j, j ≠ D → hs[j]? = h0[j]?) :
    GLoop cx n h0 hs ([Mo] ++ [D]) D (fun hh e => hh[D]? = some (.dict e)) eo en (commonKeys eo en)
      (fpKeyC h0 cx.fx eo en) (D :: writeSetC h0 cx.fx eo en) []
      (fun hh o n' P => Patched hh (D :: writeSetC h0 cx.fx eo en) o n' P) (KeepName cx h0 eo en)
      (lpDictStep (lp cx n false) ([Mo] ++ [D]) D N) := by
  have hDW : D ∉ writeSetC h0 cx.fx eo en := (List.nodup_cons.mp C.nodup).1
  have hndW := (List.nodup_cons.mp C.nodup).2
  have hDA : isAtomAt h0 D = false := by unfold isAtomAt; rw [C.hD]
  have hMoA : isAtomAt h0 Mo = false := by obtain ⟨d, hd⟩ := C.hMo; unfold isAtomAt; rw [hd]
  have hvsA : ∀ j, j ∈ [Mo] ++ [D] → isAtomAt h0 j = false := by
    intro j hj; simp at hj; rcases hj with rfl | rfl
    · exact hMoA
    · exact hDA
  have hfxW : ∀ x, x ∈ commonKeys eo en → ∀ j, j ∈ fpKeyC h0 cx.fx eo en x → j ∈ writeSetC h0 cx.fx eo en :=
    fun x hx j hj => List.mem_flatMap.mpr ⟨x, hx, hj⟩
  have hvsF : ∀ x, x ∈ commonKeys eo en → ∀ j, j ∈ fpKeyC h0 cx.fx eo en x → j ∉ [Mo] ++ [D] := by
    intro x hx j hj hm
    simp at hm
    rcases hm with rfl | rfl
    · exact C.hMoW (List.mem_cons_of_mem _ (hfxW x hx _ hj))
    · exact hDW (hfxW x hx _ hj)
  refine { pmem := ?_, pkeeps := ?_, vcongr := ?_, vnotAtom := ?_, HnW := hDW, sub := ?_, HWt := List.mem_cons_self,
           WA := C.hWA, WWA := ?_, WW := ?_, hsag := ?_, both := ?_, ent := ?_, hstep := ?_, hsum := ?_ }
  · exact fun _ _ _ _ hp => hp.mem
  · exact fun _ _ _ _ _ _ hp hfr hat hP hQ => hp.keeps hfr hat hP hQ
  · intro hh hh' e heq hv
    show hh'[D]? = _
    rw [heq]; exact hv
  · intro hh e t0 v hv habs
    rw [hv] at habs; cases habs
  · exact fun j hj => List.mem_cons_of_mem _ hj
  · intro j hj; cases hj
  · intro j _ hj; cases hj
  · intro j hj
    apply hhs
    rcases hj with hj | hj
    · rintro rfl; exact hDW hj
    · rintro rfl; exact hj List.mem_cons_self
  · intro x hx
    obtain ⟨h1, h2⟩ := mem_commonKeys.mp hx
    unfold hasKey at h1 h2
    cases ho : alookup x eo with
    | none => rw [ho] at h1; cases h1
    | some ov =>
      cases hn : alookup x en with
      | none => rw [hn] at h2; cases h2
      | some nv => exact ⟨ov, nv, rfl, rfl⟩
  · intro x ov nv hx hov hnv hne
    rcases entryC_decode (C.entry x hx) hov hnv hne with ⟨hent, _, hfk⟩ | ⟨hcl, hfk⟩
    · simp only [Bool.or_eq_true] at hent
      rcases hent with hat | hff
      · exact Or.inl hat
      · right; rw [hfk]; exact flatFuncB_mem hff
    · right; rw [hfk]; exact (flatClassB_mem hcl).1
  · intro x t t' e ov nv hx hv hov hnv hovo hAKt hagt hst
    have heapN : t.heap[N]? = some (.dict en) := by rw [hagt N (Or.inr C.hNW)]; exact C.hN
    obtain ⟨e', en', ov', nv', r1, t1, qe, qn, qov, qnv, qrec, qfin⟩ := lpDictStep_ok hst
    rw [hv] at qe; cases qe
    rw [heapN] at qn; cases qn
    rw [hov] at qov; cases qov
    rw [hnv] at qnv; cases qnv
    by_cases hsame : ov = nv
    · left
      subst hsame
      obtain ⟨rfl, rfl⟩ := lp_same qrec
      rcases qfin with ⟨_, rfl⟩ | ⟨hro, _⟩
      · exact ⟨rfl, rfl⟩
      · exact (hro rfl).elim
    · refine Or.inr ⟨hsame, r1, t1, qrec, ?_⟩
      rcases qfin with h2 | ⟨hro, e1, he1, rfl⟩
      · exact Or.inl h2
      · refine Or.inr ⟨hro, fun e1' he1' => ?_⟩
        rw [he1] at he1'; cases he1'
        exact ⟨rfl, fun j hj => List.getElem?_set_ne (Ne.symm hj), getElem?_set_self' he1⟩
  · intro x t t1 Wc ov nv r1 hx hov hnv hne hAKt hWcA hFWc hct hagt hrec
    rcases entryC_decode (C.entry x hx) hov hnv hne with ⟨hent, hnew, hfk⟩ | ⟨hcl, hfk⟩
    · rw [hfk] at hFWc hagt ⊢
      have hfx : ∀ j, j ∈ fpOf h0 ov → j ∈ writeSetC h0 cx.fx eo en := fun j hj => hfxW x hx j (by rw [hfk]; exact hj)
      obtain ⟨q1, q2, q3, q4⟩ := summary_af (cx := cx) C.dyn hAKt hWcA hvsA hent hnew
        (by rw [← hfk]; exact nodup_flatMap_mem hndW hx) (fun j hj => List.mem_cons_of_mem _ (hfx j hj)) hFWc
        (fun j hj => hvsF x hx j (by rw [hfk]; exact hj)) hagt hct hrec
      refine ⟨q1, q2, ?_, fun hk => ?_⟩
      · rcases q3 with h1 | ⟨h1, P, hp, hP⟩
        · exact Or.inl h1
        · exact Or.inr ⟨h1, P, Or.inl hp, hP⟩
      · obtain ⟨ov', nv', a1, a2, a3⟩ := hk
        rw [hov] at a1; cases a1
        rw [hnv] at a2; cases a2
        exact q4 a3
    · rw [hfk] at hFWc hagt ⊢
      have hfx : ∀ j, j ∈ fpCls h0 cx.fx ov nv → j ∈ writeSetC h0 cx.fx eo en :=
        fun j hj => hfxW x hx j (by rw [hfk]; exact hj)
      obtain ⟨q1, q2, q3, _⟩ := lp_flatClass C.dyn hAKt hWcA hvsA hcl hagt
        (fun j hj => hvsF x hx j (by rw [hfk]; exact hj)) hFWc hct hrec
      refine ⟨q1, q2, ?_, fun hk => ?_⟩
      · rcases q3 with ⟨h1, _⟩ | ⟨h1, _, hp⟩
        · exact Or.inl h1
        · exact Or.inr ⟨h1, _, Or.inr hp, fun _ hj => hj⟩
      · exfalso
        obtain ⟨ov', nv', a1, a2, a3⟩ := hk
        rw [hov] at a1; cases a1
        obtain ⟨_, n0, m0, sl0, b0, a0, hh⟩ := flatClassB_mem hcl
        unfold keepIdB at a3
        rw [hh] at a3
        cases a3


theorem lp_flatDictC {cx : Ctx} {h0 : List Obj} {Mo D N : Id} {eo en : List (Str × Id)} (C : FlatCtxC cx h0 Mo D N eo en)
    (hne : D ≠ N) (hMoD : Mo ≠ D) {fuel : Nat} {s' : St} {r : Id}
    (h : lp cx fuel false [Mo] D N { heap := h0, cache := [] } = .ok (r, s')) :
    r = D ∧ (∀ j, j ∉ D :: writeSetC h0 cx.fx eo en → s'.heap[j]? = h0[j]?) ∧
    ∃ Wc e, (∀ j, j ∈ Wc → j ∈ writeSetC h0 cx.fx eo en) ∧ s'.heap[D]? = some (.dict e) ∧
      (∀ k, DoneC (fun hh o n' P => Patched hh (D :: writeSetC h0 cx.fx eo en) o n' P) Wc eo en s'.heap e k) ∧
      (∀ k, KeepName cx h0 eo en k → alookup k e = alookup k eo) := by
  have hvs : D ∉ [Mo] := by simp; exact fun e => hMoD e.symm
  obtain ⟨n, s2, rfl, hdisp, rfl⟩ := lp_run (s := { heap := h0, cache := [] }) hne hvs rfl h
  unfold dispatch at hdisp
  simp only [bind_eq, pure_eq] at hdisp
  obtain ⟨k, s4, h7, h8⟩ := bind_ok.mp hdisp
  rw [resolveKind_dict (s := { heap := h0, cache := [] }) C.hD C.hN (by rw [C.dyn]; rfl)] at h7
  cases h7
  simp only at h8
  obtain ⟨hr, s3, e3, hc3, hd3, hfr3, he3, hloop⟩ := lpDict_ok (s := { heap := h0, cache := [] }) C.hD C.hN h8
  have hDA : isAtomAt h0 D = false := by unfold isAtomAt; rw [C.hD]
  have G := moduleLoop C n (hs := s3.heap) hfr3
  have hcommon : ∀ x, x ∈ commonKeys eo en → alookup x e3 = alookup x eo := by
    intro x hx
    obtain ⟨a, b⟩ := mem_commonKeys.mp hx
    rw [he3 x]; simp [a, b]
  have I0 : GInv h0 s3.heap D (fun hh e => hh[D]? = some (.dict e)) eo en e3 (commonKeys eo en)
      (fpKeyC h0 cx.fx eo en) [] (fun hh o n' P => Patched hh (D :: writeSetC h0 cx.fx eo en) o n' P)
      (KeepName cx h0 eo en) (commonKeys eo en) s3 := by
    refine ⟨fun _ hk => hk, (List.nodup_cons.mp C.nodup).2, [], fun j hj => (by cases hj), ?_, ?_, fun _ _ _ => rfl,
      e3, hd3, fun _ _ => rfl, fun x hx => Or.inr ⟨hx, hcommon x hx⟩, ?_⟩
    · intro c hc; rw [hc3] at hc; cases hc
    · have hAK0 : AtomsKept h0 h0 := fun j t v hj => hj
      exact hAK0.frame (F := [D]) (by intro j hj; simp at hj; subst hj; exact hDA)
        (by intro j hj; exact hfr3 j (by simpa using hj))
    · rintro x ⟨ov, nv, a1, a2, _⟩
      apply hcommon
      exact mem_commonKeys.mpr ⟨by unfold hasKey; rw [a1]; rfl, by unfold hasKey; rw [a2]; rfl⟩
  obtain ⟨_, _, Wc, hWc, _, _, hfr, e, he, hnk, hk, hkp⟩ := gLoop G I0 hloop
  refine ⟨hr, fun j hj => ?_, Wc, e, fun j hj => (hWc j hj).1, he, fun x => ?_, hkp⟩
  · simp only [List.mem_cons, not_or] at hj
    show s2.heap[j]? = _
    rw [hfr j (fun hm => hj.2 (hWc j hm).1) hj.1, hfr3 j hj.1]
  · by_cases hx : x ∈ commonKeys eo en
    · rcases hk x hx with hd | ⟨hm, _⟩
      · exact hd
      · cases hm
    · left
      rw [hnk x hx, he3 x]
      by_cases a : hasKey x en = true
      · by_cases b : hasKey x eo = true
        · exact (hx (mem_commonKeys.mpr ⟨b, a⟩)).elim
        · simp [a, b]
      · have a' : hasKey x en = false := by simpa using a
        simp [a', alookup_none_of_hasKey a']

/-- the top-level call of `_xreload_module` on a flat module with classes -/
theorem lp_module_obsC {cx : Ctx} {h0 : List Obj} {Mo Mn D N : Id} {eo en : List (Str × Id)} {fuel : Nat} {s' : St} {r : Id}
    (hdyn : cx.dyn = []) (hMo : h0[Mo]? = some (.module D)) (hMn : h0[Mn]? = some (.module N))
    (hD : h0[D]? = some (.dict eo)) (hN : h0[N]? = some (.dict en)) (hf : flatModuleC h0 cx.fx Mo Mn = true)
    (h : lp cx fuel true [] Mo Mn { heap := h0, cache := [] } = .ok (r, s')) :
    r = Mo ∧ s'.heap[Mo]? = some (.module D) ∧ s'.heap[N]? = some (.dict en) ∧
    ∃ Wc e, (∀ j, j ∈ Wc → j ∈ writeSetC h0 cx.fx eo en) ∧ s'.heap[D]? = some (.dict e) ∧
      (∀ k, DoneC (fun hh o n' P => Patched hh (D :: writeSetC h0 cx.fx eo en) o n' P) Wc eo en s'.heap e k) ∧
      (∀ k, KeepName cx h0 eo en k → alookup k e = alookup k eo) := by
  obtain ⟨C, hMM, hDN⟩ := flatCtxC_of_flatModuleC (cx := cx) hdyn hMo hMn hD hN hf
  have hMoD : Mo ≠ D := fun e => C.hMoW (e ▸ List.mem_cons_self)
  obtain ⟨n, s2, rfl, hdisp, rfl⟩ := lp_run (s := { heap := h0, cache := [] }) hMM (by simp) rfl h
  unfold dispatch at hdisp
  simp only [bind_eq, pure_eq] at hdisp
  obtain ⟨k, s4, h7, h8⟩ := bind_ok.mp hdisp
  rw [resolveKind_module (s := { heap := h0, cache := [] }) hMo hMn] at h7
  cases h7
  simp only at h8
  unfold lpModule at h8
  simp only [bind_eq, pure_eq] at h8
  obtain ⟨o, s5, h9, h10⟩ := bind_ok.mp h8
  rw [getObj_eq (s := { heap := h0, cache := [] }) hMo] at h9; cases h9
  obtain ⟨nn, s6, h11, h12⟩ := bind_ok.mp h10
  rw [getObj_eq (s := { heap := h0, cache := [] }) hMn] at h11; cases h11
  simp only at h12
  obtain ⟨rd, s7, h13, h14⟩ := bind_ok.mp h12
  obtain ⟨hrd, hfr, Wc, e, hWc, he, hk, hkp⟩ := lp_flatDictC C hDN hMoD h13
  rw [hrd] at h14
  simp only [if_true] at h14
  obtain ⟨hr, hs⟩ := pure_ok.mp h14
  subst hs
  exact ⟨hr, by rw [hfr Mo C.hMoW]; exact hMo, by rw [hfr N C.hNW]; exact hN, Wc, e, hWc, he, hk, hkp⟩

/-- the `Ctx` under which `_xreload_module` calls `livepatch` -/
def reloadCtx (w : World) (i : ReloadIn) : Ctx :=
  { modname := some i.name, sysmods := aset i.name w.heap.length w.sysmods, fx := i.fx, dyn := i.dyn }

/-- what `C16_obs_partial_classes` and `C16_identity_kept` share: the namespace after a successful reload -/
theorem xreload_flatC (w w' : World) (i : ReloadIn) (objs : List Obj) (m D N : Id) (eo en : List (Str × Id))
    (hc : i.compileOk = true) (ho : i.outcome = .ok objs) (hdyn : i.dyn = [])
    (hMo : (w.heap ++ objs)[i.module]? = some (.module D))
    (hMn : (w.heap ++ objs)[w.heap.length]? = some (.module N))
    (hD : (w.heap ++ objs)[D]? = some (.dict eo)) (hN : (w.heap ++ objs)[N]? = some (.dict en))
    (hflat : flatModuleC (w.heap ++ objs) i.fx i.module w.heap.length = true)
    (h : xreload w i = (w', .ok m)) :
    m = i.module ∧ ∃ e', w'.heap[D]? = some (.dict e') ∧ w'.heap[N]? = some (.dict en) ∧
      (∀ k, k ≠ loadtimeKey → ObsOpt w'.heap (alookup k e') (alookup k en)) ∧
      (∀ k, k ≠ loadtimeKey → KeepName (reloadCtx w i) (w.heap ++ objs) eo en k → alookup k e' = alookup k eo) := by
  unfold xreload at h
  simp only [hc, ho, Bool.not_true, Bool.false_eq_true, if_false] at h
  split at h
  · cases h
  · rename_i r s hl
    obtain ⟨hr, hMo', hN', Wc, e, hWc, he, hk, hkp⟩ :=
      lp_module_obsC (cx := reloadCtx w i) hdyn hMo hMn hD hN hflat hl
    obtain ⟨C, _, hDN⟩ := flatCtxC_of_flatModuleC (cx := reloadCtx w i) hdyn hMo hMn hD hN hflat
    have hDW : D ∉ writeSetC (w.heap ++ objs) i.fx eo en := (List.nodup_cons.mp C.nodup).1
    simp only [hMo'] at h
    split at h
    · rename_i u s2 hu
      obtain ⟨e2, he2, rfl⟩ := updDict_ok hu
      cases h
      have hlt : ∀ {j : Id} {o : Obj}, s.heap[j]? = some o → (s.heap ++ [i.mtime])[j]? = some o := by
        intro j o hj
        have hjl : j < s.heap.length := by
          rcases Nat.lt_or_ge j s.heap.length with hl | hl
          · exact hl
          · rw [List.getElem?_eq_none hl] at hj; cases hj
        rw [List.getElem?_append_left hjl]; exact hj
      rw [hlt he] at he2; cases he2
      have hkeeps : Keeps [D] s.heap ((s.heap ++ [i.mtime]).set D (.dict (aset loadtimeKey s.heap.length e))) := by
        intro j o hj ho
        have : D ≠ j := fun e => hj (by simp [e])
        rw [List.getElem?_set_ne this]; exact hlt ho
      refine ⟨rfl, aset loadtimeKey s.heap.length e, ?_, ?_, fun k hkl => ?_, fun k hkl hkn => ?_⟩
      · show ((s.heap ++ [i.mtime]).set D _)[D]? = _
        exact getElem?_set_self' (hlt he)
      · exact hkeeps N _ (by simp; exact fun e => hDN e.symm) hN'
      · show ObsOpt ((s.heap ++ [i.mtime]).set D _) _ _
        rw [alookup_aset]
        simp only [Ne.symm hkl, if_false]
        rcases hk k with hd | ⟨o, n', P, a1, a2, _, _, hp, a6⟩
        · rw [hd]
          cases alookup k en with
          | none => trivial
          | some v => exact ObsEq.refl _ v
        · rw [a1, a2]
          exact (hp.keeps hkeeps
            (fun j t0 v hj hm => by simp at hm; subst hm; rw [he] at hj; cases hj)
            (fun j hj hm => by simp at hm; subst hm; exact hDW (hWc _ (a6 _ hj)))
            (fun j hj => by simp at hj; subst hj; exact List.mem_cons_self)).obs
      · rw [alookup_aset]
        simp only [Ne.symm hkl, if_false]
        exact hkp k hkn
    · cases h

/-- **C16_obs_partial_classes.**  `C16_obs_partial` with `flatModule` widened to `flatModuleC` (names bound to atoms,
    flat functions or flat classes): after a successful `_xreload_module` the result is the old module and its
    namespace — the old dict `D`, patched in place — binds exactly the names of the scratch namespace `N` (untouched)
    plus `__loadtime__`, each to an object `ObsEq` to the one the fresh import binds.  Every fuel, every `Fixes`. -/
theorem C16_obs_partial_classes (w w' : World) (i : ReloadIn) (objs : List Obj) (m D N : Id) (eo en : List (Str × Id))
    (hc : i.compileOk = true) (ho : i.outcome = .ok objs) (hdyn : i.dyn = [])
    (hMo : (w.heap ++ objs)[i.module]? = some (.module D))
    (hMn : (w.heap ++ objs)[w.heap.length]? = some (.module N))
    (hD : (w.heap ++ objs)[D]? = some (.dict eo)) (hN : (w.heap ++ objs)[N]? = some (.dict en))
    (hflat : flatModuleC (w.heap ++ objs) i.fx i.module w.heap.length = true)
    (h : xreload w i = (w', .ok m)) :
    m = i.module ∧ ∃ e', w'.heap[D]? = some (.dict e') ∧ w'.heap[N]? = some (.dict en) ∧
      ∀ k, k ≠ loadtimeKey → ObsOpt w'.heap (alookup k e') (alookup k en) := by
  obtain ⟨h1, e', h2, h3, h4, _⟩ := xreload_flatC w w' i objs m D N eo en hc ho hdyn hMo hMn hD hN hflat h
  exact ⟨h1, e', h2, h3, h4⟩

/-- **C16_identity_kept.**  The end-to-end identity clause for functions: in a `flatModuleC` pair, if the name `k` is
    bound to the function `fo` before and to the function `fn` in the scratch module, and the code's own conditions
    hold for the pair **on the initial heap** (`patchable`: the module test; `funcCompat`: same name, closure shape and
    compatible cell contents), then after a successful `_xreload_module` the name is still bound to the *old* object
    `fo`, and that object is `ObsEq` to the fresh `fn`. -/
theorem C16_identity_kept (w w' : World) (i : ReloadIn) (objs : List Obj) (m D N : Id) (eo en : List (Str × Id))
    (k : Str) (fo fn : Id) {nm mo c d dc di ce fv nm' mo' c' d' dc' di' ce' fv'}
    (hc : i.compileOk = true) (ho : i.outcome = .ok objs) (hdyn : i.dyn = [])
    (hMo : (w.heap ++ objs)[i.module]? = some (.module D))
    (hMn : (w.heap ++ objs)[w.heap.length]? = some (.module N))
    (hD : (w.heap ++ objs)[D]? = some (.dict eo)) (hN : (w.heap ++ objs)[N]? = some (.dict en))
    (hflat : flatModuleC (w.heap ++ objs) i.fx i.module w.heap.length = true)
    (hk : k ≠ loadtimeKey) (hko : alookup k eo = some fo) (hkn : alookup k en = some fn)
    (hfo : (w.heap ++ objs)[fo]? = some (.func nm mo c d dc di ce fv))
    (hfn : (w.heap ++ objs)[fn]? = some (.func nm' mo' c' d' dc' di' ce' fv'))
    (hpatch : patchable (reloadCtx w i) mo mo' = true) (hcompat : funcCompat [] (w.heap ++ objs) fo fn = true)
    (h : xreload w i = (w', .ok m)) :
    ∃ e', w'.heap[D]? = some (.dict e') ∧ alookup k e' = some fo ∧ ObsEq w'.heap fo w'.heap fn := by
  obtain ⟨_, e', h2, _, h4, h5⟩ := xreload_flatC w w' i objs m D N eo en hc ho hdyn hMo hMn hD hN hflat h
  have hkeep : KeepName (reloadCtx w i) (w.heap ++ objs) eo en k :=
    ⟨fo, fn, hko, hkn, by unfold keepIdB; rw [hfo, hfn]; simp [hpatch, hcompat]⟩
  have hb := h5 k hk hkeep
  rw [hko] at hb
  refine ⟨e', h2, hb, ?_⟩
  have := h4 k hk
  rw [hb, hkn] at this
  exact this


/-! ### `flatModule` is a special case of `flatModuleC` -/

theorem flatMap_congr' {α β : Type} {f g : α → List β} : ∀ {l : List α}, (∀ x, x ∈ l → f x = g x) → l.flatMap f = l.flatMap g
  | [], _ => rfl
  | a :: r, h => by
    rw [List.flatMap_cons, List.flatMap_cons, h a List.mem_cons_self,
      flatMap_congr' (fun x hx => h x (List.mem_cons_of_mem _ hx))]

theorem fpKeyC_eq_of_entryOKB {h : List Obj} {fx : Fixes} {eo en : List (Str × Id)} {Wt : List Id} {k : Str}
    (he : entryOKB h eo en Wt k = true) : fpKeyC h fx eo en k = fpKey h eo en k := by
  unfold entryOKB at he
  unfold fpKeyC fpKey
  cases ho : alookup k eo with
  | none => rfl
  | some ov =>
    cases hn : alookup k en with
    | none => rfl
    | some nv =>
      simp only [ho, hn, Bool.or_eq_true, Bool.and_eq_true, beq_iff_eq] at he ⊢
      by_cases hs : ov = nv
      · simp [hs]
      · simp only [hs, if_false]
        rcases he with he | he
        · exact (hs he).elim
        · unfold fpValC
          rcases he.1 with hat | hff
          · obtain ⟨t, v, hh⟩ := isAtomAt_iff.mp hat; rw [hh]
          · unfold flatFuncB at hff
            cases hv : h[ov]? with
            | none => simp [hv] at hff
            | some o => cases o <;> simp [hv] at hff ⊢

theorem flatModuleC_of_flatModule {h : List Obj} {fx : Fixes} {Mo Mn : Id} (hf : flatModule h Mo Mn = true) :
    flatModuleC h fx Mo Mn = true := by
  unfold flatModule at hf
  unfold flatModuleC
  split at hf
  · rename_i D N hMo hMn
    rw [hMo, hMn]
    simp only
    split at hf
    · rename_i eo en hD hN
      rw [hD, hN]
      simp only
      simp only [Bool.and_eq_true, List.all_eq_true] at hf ⊢
      obtain ⟨⟨⟨⟨⟨⟨h1, h2⟩, h3⟩, h4⟩, h5⟩, h6⟩, h7⟩ := hf
      have hW : writeSetC h fx eo en = writeSet h eo en := by
        unfold writeSetC writeSet
        exact flatMap_congr' (fun x hx => fpKeyC_eq_of_entryOKB (h7 x hx))
      rw [hW]
      refine ⟨⟨⟨⟨⟨⟨h1, h2⟩, h3⟩, h4⟩, h5⟩, h6⟩, fun x hx => ?_⟩
      have := h7 x hx
      unfold entryOKB at this
      unfold entryOKC
      cases ho : alookup x eo with
      | none => simp [ho] at this
      | some ov =>
        cases hn : alookup x en with
        | none => simp [ho, hn] at this
        | some nv =>
          simp only [ho, hn] at this ⊢
          rw [this]; rfl
    · cases hf
  · cases hf

/-- `C16_identity_kept` for the modules of `C16_obs_partial` (`flatModule`: atoms and flat functions only) -/
theorem C16_identity_kept_flat (w w' : World) (i : ReloadIn) (objs : List Obj) (m D N : Id) (eo en : List (Str × Id))
    (k : Str) (fo fn : Id) {nm mo c d dc di ce fv nm' mo' c' d' dc' di' ce' fv'}
    (hc : i.compileOk = true) (ho : i.outcome = .ok objs) (hdyn : i.dyn = [])
    (hMo : (w.heap ++ objs)[i.module]? = some (.module D))
    (hMn : (w.heap ++ objs)[w.heap.length]? = some (.module N))
    (hD : (w.heap ++ objs)[D]? = some (.dict eo)) (hN : (w.heap ++ objs)[N]? = some (.dict en))
    (hflat : flatModule (w.heap ++ objs) i.module w.heap.length = true)
    (hk : k ≠ loadtimeKey) (hko : alookup k eo = some fo) (hkn : alookup k en = some fn)
    (hfo : (w.heap ++ objs)[fo]? = some (.func nm mo c d dc di ce fv))
    (hfn : (w.heap ++ objs)[fn]? = some (.func nm' mo' c' d' dc' di' ce' fv'))
    (hpatch : patchable (reloadCtx w i) mo mo' = true) (hcompat : funcCompat [] (w.heap ++ objs) fo fn = true)
    (h : xreload w i = (w', .ok m)) :
    ∃ e', w'.heap[D]? = some (.dict e') ∧ alookup k e' = some fo ∧ ObsEq w'.heap fo w'.heap fn :=
  C16_identity_kept w w' i objs m D N eo en k fo fn hc ho hdyn hMo hMn hD hN (flatModuleC_of_flatModule hflat)
    hk hko hkn hfo hfn hpatch hcompat h


/-! ## the hypotheses are satisfiable, and they are the right ones -/
section ExamplesC

def allFixes : Fixes := { d18 := true, d41 := true, d44 := true, d45 := true, d52 := true }

def ssm : Str := ['s', 'm']

/-- old module `m`: `class K` with a class attribute `a = 1` and two methods `f`, `g`; `X = 1`; a function `h` -/
def wC : World :=
  { heap := [ .module 1, .dict [(sK, 2), (sX, 9), (sh, 11)],
              .cls sK (some sM) none [] [(docKey, 10), (sa, 8), (sf, 3), (sg, 6)],
              .func sf (some sM) 10 0 0 4 [] [], .dict [], .atom sI ['0'],
              .func sg (some sM) 11 0 0 7 [] [], .dict [], .atom sI ['1'], .atom sI ['1'], noneAtom,
              .func sh (some sM) 12 0 0 12 [] [], .dict [] ],
    sysmods := [(sM, 0)] }

/-- the scratch module: both methods of `K` have new code (`f` also new defaults), `K.a = 2`, `X = 2`, `h` has new code -/
def newC : List Obj :=
  [ .module 14, .dict [(sK, 15), (sX, 22), (sh, 23)],
    .cls sK (some sM) none [] [(docKey, 10), (sa, 21), (sf, 16), (sg, 19)],
    .func sf (some sM) 20 1 0 17 [] [], .dict [], .atom sI ['0'],
    .func sg (some sM) 21 0 0 20 [] [], .dict [], .atom sI ['2'], .atom sI ['2'],
    .func sh (some sM) 22 0 0 24 [] [], .dict [] ]

def inC (fx : Fixes) : ReloadIn :=
  { name := sM, module := 0, compileOk := true, outcome := .ok newC, mtime := .atom ['f'] ['1'], fuel := 20, fx := fx }

/-- the class pair `K` (object 2) / fresh `K` (object 15) satisfies `flatClassB`, code as found and current tree -/
example : flatClassB (wC.heap ++ newC) {} (fpCls (wC.heap ++ newC) {} 2 15) 2 15 = true ∧
    flatClassB (wC.heap ++ newC) allFixes (fpCls (wC.heap ++ newC) allFixes 2 15) 2 15 = true ∧
    fpCls (wC.heap ++ newC) allFixes 2 15 = [2, 3, 4, 6, 7] := by decide

/-- `lp_class_obs` applied to a direct `livepatch(K, K')`: all hypotheses hold, `K` keeps its identity and is bisimilar
    to the fresh class -/
example : ∀ r s', lp { modname := some sM, sysmods := [], fx := allFixes } 20 false [] 2 15
      { heap := wC.heap ++ newC, cache := [] } = .ok (r, s') → r = 2 ∧ ObsEq s'.heap 2 s'.heap 15 := by
  intro r s' h
  obtain ⟨h1, _, h3⟩ := lp_class_obs (cx := { modname := some sM, sysmods := [], fx := allFixes })
    (h0 := wC.heap ++ newC) (W := []) (Wt := fpCls (wC.heap ++ newC) allFixes 2 15)
    rfl (fun j t v hj => hj) (fun j hj => by cases hj) (fun j hj => by cases hj) (by decide) (fun _ _ => rfl)
    (fun j _ hj => by cases hj) (fun j _ hj => by cases hj) (fun e he => by cases he) h
  have hr : r = 2 := h3 _ _ _ _ _ _ _ _ _ _ rfl rfl (by decide)
  subst hr
  exact ⟨rfl, h1⟩

/-- … and the call does return -/
example : isOk (lpRun { modname := some sM, sysmods := [], fx := allFixes } 20 false (wC.heap ++ newC) 2 15) = true := by
  decide

/-- all hypotheses of `C16_obs_partial_classes` / `C16_identity_kept` hold for the module pair (both trees) -/
example : flatModuleC (wC.heap ++ newC) {} 0 13 = true ∧ okIs (xreload wC (inC {})).2 0 = true ∧
    flatModuleC (wC.heap ++ newC) allFixes 0 13 = true ∧ okIs (xreload wC (inC allFixes)).2 0 = true := by decide

/-- `C16_obs_partial_classes` applied: `K` is still object 2 and is bisimilar to the fresh `K` (object 15) -/
example : bound (xreload wC (inC allFixes)).1.heap 1 sK 2 = true ∧
    ObsOpt (xreload wC (inC allFixes)).1.heap (some 2) (some 15) := by
  obtain ⟨_, e', he', _, hk⟩ := C16_obs_partial_classes wC (xreload wC (inC allFixes)).1 (inC allFixes) newC 0 1 14 _ _
    rfl rfl rfl rfl rfl rfl rfl (by decide)
    (show xreload wC (inC allFixes) = ((xreload wC (inC allFixes)).1, .ok 0) by rfl)
  have hb : bound (xreload wC (inC allFixes)).1.heap 1 sK 2 = true := by decide
  refine ⟨hb, ?_⟩
  have := hk sK (by decide)
  have h2 : alookup sK e' = some 2 := by
    unfold bound at hb; rw [he'] at hb; simpa using hb
  rw [h2] at this
  exact this

/-- `C16_identity_kept` applied: after the reload `h` is still the old function object 11 -/
example : ∃ e', (xreload wC (inC allFixes)).1.heap[1]? = some (.dict e') ∧ alookup sh e' = some 11 ∧
    ObsEq (xreload wC (inC allFixes)).1.heap 11 (xreload wC (inC allFixes)).1.heap 23 :=
  C16_identity_kept wC (xreload wC (inC allFixes)).1 (inC allFixes) newC 0 1 14 _ _ sh 11 23
    rfl rfl rfl rfl rfl rfl rfl (by decide) (by decide) rfl rfl rfl rfl (by decide) (by decide)
    (show xreload wC (inC allFixes) = ((xreload wC (inC allFixes)).1, .ok 0) by rfl)

/-- `C16_identity_kept_flat` applied to the pair of `C16_obs_partial`'s example: the closure instance `f` (object 2) is
    still bound, and bisimilar to the fresh `f` (object 12) -/
example : ∃ e', (xreload wObs (inObs {})).1.heap[1]? = some (.dict e') ∧ alookup sf e' = some 2 ∧
    ObsEq (xreload wObs (inObs {})).1.heap 2 (xreload wObs (inObs {})).1.heap 12 :=
  C16_identity_kept_flat wObs (xreload wObs (inObs {})).1 (inObs {}) newObs 0 1 11 _ _ sf 2 12
    rfl rfl rfl rfl rfl rfl rfl (by decide) (by decide) rfl rfl rfl rfl (by decide) (by decide)
    (show xreload wObs (inObs {}) = ((xreload wObs (inObs {})).1, .ok 0) by rfl)

/-! D42: `class K: def sm(self, x=1)`  →  `class K: @staticmethod def sm(x=1)` -/
def w42 : World :=
  { heap := [ .module 1, .dict [(sK, 2)], .cls sK (some sM) none [] [(docKey, 5), (ssm, 3)],
              .func ssm (some sM) 10 0 0 4 [] [], .dict [], noneAtom ],
    sysmods := [(sM, 0)] }
def new42 : List Obj :=
  [ .module 7, .dict [(sK, 8)], .cls sK (some sM) none [] [(docKey, 5), (ssm, 9)],
    .smeth 10, .func ssm (some sM) 20 0 0 11 [] [], .dict [] ]
def in42 (fx : Fixes) : ReloadIn :=
  { name := sM, module := 0, compileOk := true, outcome := .ok new42, mtime := .atom ['f'] ['1'], fuel := 20, fx := fx }

/-- **D42** (method kind changed) violates the hypotheses — `clsEntryOKB` asks for a plain new entry — and it has to:
    the reload succeeds, `K` keeps its identity, but `K.__dict__['sm']` is still a plain function where the fresh class
    has a `staticmethod` wrapper, so the namespaces are *not* observationally equal (both trees). -/
theorem witness_D42_outside_flatClass :
    flatClassB (w42.heap ++ new42) allFixes (fpCls (w42.heap ++ new42) allFixes 2 8) 2 8 = false ∧
    flatModuleC (w42.heap ++ new42) allFixes 0 6 = false ∧ flatModuleC (w42.heap ++ new42) {} 0 6 = false ∧
    okIs (xreload w42 (in42 allFixes)).2 0 = true ∧ bound (xreload w42 (in42 allFixes)).1.heap 1 sK 2 = true ∧
    obsEq (xreload w42 (in42 allFixes)).1.heap (xreload w42 (in42 allFixes)).1.heap 3 1 7 = false ∧
    obsEq (xreload w42 (in42 {})).1.heap (xreload w42 (in42 {})).1.heap 3 1 7 = false := by decide

/-- **D18** (`class C` / `class D(C)`) violates the hypotheses: the new `D` has an in-module base -/
theorem witness_D18_outside_flatClass :
    flatClassB (w18.heap ++ new18) {} (fpCls (w18.heap ++ new18) {} 3 8) 3 8 = false ∧
    flatClassB (w18.heap ++ new18) allFixes (fpCls (w18.heap ++ new18) allFixes 3 8) 3 8 = false ∧
    flatModuleC (w18.heap ++ new18) {} 0 5 = false ∧ flatModuleC (w18.heap ++ new18) allFixes 0 5 = false ∧
    -- while `C` alone (no in-module base) is a flat class pair
    flatClassB (w18.heap ++ new18) allFixes (fpCls (w18.heap ++ new18) allFixes 2 7) 2 7 = true := by decide

end ExamplesC

end Pfb.C16
