/-
  Pfb.C16.Model — `livepatch` and `_xreload_module`
  (lib/python/pyflyby/_livepatch.py:164-530, 619-730) over an abstract object heap.

  Heap: `List Obj`, an object's id is its index.  Objects:
    func   name, __module__, tokens for __code__/__defaults__/__doc__, id of __dict__, ids of the closure cells,
           co_freevars
    cell   a closure cell: id of its content
    cls    name, __module__, names in __slots__ (if any), ids of the bases that are heap classes, the class __dict__
           as an association list name -> id of the *raw* entry
    dict   association list key -> id
    inst   id of its class, id of its __dict__ (if it has one), the slots that are set
    meth   bound method (__func__, __self__);   smeth / cmeth: staticmethod / classmethod wrapper in a class dict
    module id of its __dict__
    atom   anything else (ints, strings, lists, tuples, property objects, descriptors, code ...): type name and a
           canonical value used only for `==` in the closure-cell check.  Its type is never defined by the module
           being reloaded.

  What is NOT modelled (the harness does not generate it and skips the correspondence check when it meets it):
  `__livepatch__` / `__reload_update__` hooks, metaclasses other than `type`, dict subclasses, user `__eq__` on cell
  values, empty closure cells, `modname=None` for instances of foreign types, C3 linearisation (attribute search along
  the bases is depth-first, which coincides with the MRO for the single-inheritance chains and simple diamonds the
  generator produces), and CPython's refusal of some `__bases__` assignments (layout conflicts).

  Follows the code that exists: the two-argument `setattr` of `_livepatch__object` is a `typeError`, writing or
  deleting the `__dict__` descriptor of a class is an `attributeError`, bases are copied from the new class verbatim,
  results of livepatching cell contents are discarded, `_livepatch__method` bypasses the visit stack and the cache.
-/
import Pfb.Basic
namespace Pfb.C16
open Pfb

abbrev Id := Nat

inductive Obj where
  | func (name : Str) (modn : Option Str) (code defaults doc : Nat) (dict : Id) (cells : List Id) (freevars : List Str)
  | cls (name : Str) (modn : Option Str) (slots : Option (List Str)) (bases : List Id) (attrs : List (Str × Id))
  | dict (entries : List (Str × Id))
  | inst (cls : Id) (dict : Option Id) (slots : List (Str × Id))
  | meth (func self : Id)
  | smeth (func : Id)
  | cmeth (func : Id)
  | module (dict : Id)
  | cell (content : Id)
  | atom (ty : Str) (val : Str)
  deriving Repr, DecidableEq, Inhabited

inductive Kind where
  | func | cls | dict | inst | meth | smeth | cmeth | module | cell | atom
  deriving Repr, DecidableEq, Inhabited

def Obj.kind : Obj → Kind
  | .func .. => .func | .cls .. => .cls | .dict .. => .dict | .inst .. => .inst | .meth .. => .meth
  | .smeth .. => .smeth | .cmeth .. => .cmeth | .module .. => .module | .cell .. => .cell | .atom .. => .atom

inductive Err where
  | fuel            -- model ran out of fuel (never on the inputs of the correspondence check)
  | stuck           -- the heap is not of the modelled shape (dangling id, wrong kind)
  | keyError | assertion | typeError | attributeError | syntaxError
  | execFailed (stmt : Nat)
  deriving Repr, DecidableEq, Inhabited

/-! ### association lists (Python dicts with string keys) -/

def alookup (k : Str) : List (Str × Id) → Option Id
  | [] => none
  | (k', v) :: r => if k' = k then some v else alookup k r

/-- `d[k] = v`: replace the first binding, or append. -/
def aset (k : Str) (v : Id) : List (Str × Id) → List (Str × Id)
  | [] => [(k, v)]
  | (k', v') :: r => if k' = k then (k, v) :: r else (k', v') :: aset k v r

/-- `del d[k]` -/
def adel (k : Str) (l : List (Str × Id)) : List (Str × Id) := l.filter (fun p => p.1 ≠ k)

def akeys (l : List (Str × Id)) : List Str := l.map (·.1)

def hasKey (k : Str) (l : List (Str × Id)) : Bool := (alookup k l).isSome

/-- `sorted(names)` — insertion sort by code points (Python's `str` order). -/
def insertSorted (k : Str) : List Str → List Str
  | [] => [k]
  | a :: r => if strLe k a then k :: a :: r else a :: insertSorted k r

def sortStrs : List Str → List Str
  | [] => []
  | a :: r => insertSorted a (sortStrs r)

/-! ### state and the monad -/

structure St where
  heap : List Obj
  cache : List ((Id × Id) × Id)
  deriving Repr, Inhabited

/-- Which of the proposed repairs (fixes/C16-*.diff) the tree under test contains.  All `false` = the code as found. -/
structure Fixes where
  d18 : Bool := false     -- bases of a patched class are mapped through livepatch / the cache
  d41 : Bool := false     -- `setattr(oldobj, name, getattr(newobj, name))` for a slot only set on the new instance
  d44 : Bool := false     -- the `__dict__` / `__weakref__` descriptors are left alone by `_livepatch__class`
  d45 : Bool := false     -- a cell whose content could not be patched in place is re-pointed to the new content
  d52 : Bool := false     -- an *old* object that belongs to another module is never modified
  deriving Repr, Inhabited, DecidableEq

/-- The *exact* type of an object when it is not the default one of its kind: a class whose metaclass is not `type`
    (abc.ABCMeta, enum.EnumMeta, a metaclass defined in the reloaded module), a dict whose type is a dict subclass
    (OrderedDict, defaultdict, Counter).  `Obj.kind` is the root of the lattice (`isinstance(x, type)`,
    `isinstance(x, dict)`), `DynTy` the leaf (`type(x)`).  Types never change while livepatch runs, so the table is
    read-only context. -/
inductive DynTy where
  | foreign (name : Str)      -- a type that does not belong to the module being reloaded
  | heap (c : Id)             -- a class object of the heap (e.g. an in-module metaclass)
  deriving Repr, DecidableEq, Inhabited

def dynOf (dyn : List (Id × DynTy)) (i : Id) : Option DynTy := (dyn.find? (fun e => e.1 = i)).map (·.2)

structure Ctx where
  modname : Option Str
  sysmods : List (Str × Id)      -- sys.modules while livepatch runs
  fx : Fixes := {}
  dyn : List (Id × DynTy) := []
  deriving Repr, Inhabited

def M (α : Type) := St → Except Err (α × St)

@[inline] def M.pure (a : α) : M α := fun s => .ok (a, s)
@[inline] def M.bind (m : M α) (f : α → M β) : M β := fun s =>
  match m s with
  | .ok (a, s') => f a s'
  | .error e => .error e

instance : Monad M where
  pure := M.pure
  bind := M.bind

def fail (e : Err) : M α := fun _ => .error e

def getSt : M St := fun s => .ok (s, s)

def getObj (i : Id) : M Obj := fun s =>
  match s.heap[i]? with
  | some o => .ok (o, s)
  | none => .error .stuck

def alloc (o : Obj) : M Id := fun s => .ok (s.heap.length, { s with heap := s.heap ++ [o] })

/-- `classmethod.__get__`: a fresh bound method for the classmethod wrapper `raw` -/
def allocBound (raw owner : Id) : M Id := fun s =>
  match s.heap[raw]? with
  | some (.cmeth f) => .ok (s.heap.length, { s with heap := s.heap ++ [.meth f owner] })
  | _ => .error .stuck

def cacheGet (k : Id × Id) : M (Option Id) := fun s =>
  .ok ((s.cache.find? (fun e => e.1 = k)).map (·.2), s)

def cachePut (k : Id × Id) (r : Id) : M Unit := fun s => .ok ((), { s with cache := (k, r) :: s.cache })

/-- the only writers: each touches one object and keeps its kind -/
def updDict (i : Id) (f : List (Str × Id) → List (Str × Id)) : M Unit := fun s =>
  match s.heap[i]? with
  | some (.dict e) => .ok ((), { s with heap := s.heap.set i (.dict (f e)) })
  | _ => .error .stuck

def updFunc (i : Id) (code defaults doc : Nat) : M Unit := fun s =>
  match s.heap[i]? with
  | some (.func n m _ _ _ d c fv) => .ok ((), { s with heap := s.heap.set i (.func n m code defaults doc d c fv) })
  | _ => .error .stuck

def updClsAttrs (i : Id) (f : List (Str × Id) → List (Str × Id)) : M Unit := fun s =>
  match s.heap[i]? with
  | some (.cls n m sl b a) => .ok ((), { s with heap := s.heap.set i (.cls n m sl b (f a)) })
  | _ => .error .stuck

def updClsBases (i : Id) (bases : List Id) : M Unit := fun s =>
  match s.heap[i]? with
  | some (.cls n m sl _ a) => .ok ((), { s with heap := s.heap.set i (.cls n m sl bases a) })
  | _ => .error .stuck

def updCell (i : Id) (v : Id) : M Unit := fun s =>
  match s.heap[i]? with
  | some (.cell _) => .ok ((), { s with heap := s.heap.set i (.cell v) })
  | _ => .error .stuck

def updInstSlots (i : Id) (f : List (Str × Id) → List (Str × Id)) : M Unit := fun s =>
  match s.heap[i]? with
  | some (.inst c d sl) => .ok ((), { s with heap := s.heap.set i (.inst c d (f sl)) })
  | _ => .error .stuck

/-- `for x in xs: f x` -/
def forEach (f : α → M Unit) : List α → M Unit
  | [] => pure ()
  | x :: xs => do f x; forEach f xs

/-! ### pure helpers over the heap -/

/-- `type(a) is type(b)` -/
def sameType (dyn : List (Id × DynTy)) (h : List Obj) (a b : Id) : Bool :=
  match h[a]?, h[b]? with
  | some (.inst c _ _), some (.inst c' _ _) => c == c'
  | some (.atom t _), some (.atom t' _) => t == t'
  | some (.cls ..), some (.cls ..) => dynOf dyn a == dynOf dyn b        -- same metaclass
  | some (.dict _), some (.dict _) => dynOf dyn a == dynOf dyn b        -- same dict (sub)class
  | some x, some y => x.kind == y.kind && x.kind != .inst && x.kind != .atom
  | _, _ => false

/-- `_get_definition_module(obj)` -/
def defModule (h : List Obj) (i : Id) : Option Str :=
  match h[i]? with
  | some (.func _ m ..) => m
  | some (.cls _ m ..) => m
  | some (.meth f _) => match h[f]? with
    | some (.func _ m ..) => m
    | _ => none
  | _ => none

/-- `isinstance(v, (FunctionType, MethodType, type, dict))` — by *kind*, i.e. including every subclass: a class with any
    metaclass, an instance of any dict subclass.  (It deliberately does not look at the exact type `dynOf`.) -/
def updatable (h : List Obj) (i : Id) : Bool :=
  match h[i]? with
  | some o => o.kind == .func || o.kind == .meth || o.kind == .cls || o.kind == .dict
  | none => false

/-- `a is b or a == b` for cell contents of equal type that are not updatable -/
def cellEq (h : List Obj) (a b : Id) : Bool :=
  a == b || match h[a]?, h[b]? with
    | some (.atom t v), some (.atom t' v') => t == t' && v == v'
    | _, _ => false

/-- the closure check loop of `_livepatch__function` -/
def cellContent (h : List Obj) (c : Id) : Option Id :=
  match h[c]? with
  | some (.cell v) => some v
  | _ => none

def cellsCompat (dyn : List (Id × DynTy)) (h : List Obj) : List Id → List Id → Bool
  | ca :: as, cb :: bs =>
    (match cellContent h ca, cellContent h cb with
     | some a, some b => sameType dyn h a b && (updatable h a || cellEq h a b)
     | _, _ => false) && cellsCompat dyn h as bs
  | _, _ => true

/-- all the conditions under which `_livepatch__function` patches in place -/
def funcCompat (dyn : List (Id × DynTy)) (h : List Obj) (old new : Id) : Bool :=
  match h[old]?, h[new]? with
  | some (.func n _ _ _ _ _ c fv), some (.func n' _ _ _ _ _ c' fv') =>
    n == n' && c.length == c'.length && fv == fv' && cellsCompat dyn h c c'
  | _, _ => false

/-- first class, searching depth-first along the bases, whose own dict has `key` (stands for the MRO lookup) -/
def findAttrCls (h : List Obj) (key : Str) : Nat → List Id → Option Id
  | 0, _ => none
  | _ + 1, [] => none
  | n + 1, c :: rest =>
    match h[c]? with
    | some (.cls _ _ _ bases attrs) =>
      if hasKey key attrs then some c else findAttrCls h key n (bases ++ rest)
    | _ => findAttrCls h key n rest

def searchFuel (h : List Obj) : Nat := (h.length + 2) * (h.length + 2)

def slotsKey : Str := ['_', '_', 's', 'l', 'o', 't', 's', '_', '_']   -- "__slots__"
def dictKey : Str := ['_', '_', 'd', 'i', 'c', 't', '_', '_']   -- "__dict__"
def docKey : Str := ['_', '_', 'd', 'o', 'c', '_', '_']   -- "__doc__"
def loadtimeKey : Str := ['_', '_', 'l', 'o', 'a', 'd', 't', 'i', 'm', 'e', '_', '_']   -- "__loadtime__"

/-- `obj.__slots__` through the class: (id of the `__slots__` value, the slot names) -/
def instSlots (h : List Obj) (c : Id) : Option (Id × List Str) :=
  match findAttrCls h slotsKey (searchFuel h) [c] with
  | some k => match h[k]? with
    | some (.cls _ _ sl _ attrs) => match alookup slotsKey attrs with
      | some v => some (v, sl.getD [])
      | none => none
    | _ => none
  | none => none

/-- `a == b` for two `__slots__` values (atoms) -/
def valEq (h : List Obj) (a b : Id) : Bool :=
  a == b || match h[a]?, h[b]? with
    | some (.atom t v), some (.atom t' v') => t == t' && v == v'
    | _, _ => false

def optValEq (h : List Obj) : Option Id → Option Id → Bool
  | none, none => true
  | some a, some b => valEq h a b
  | _, _ => false

/-! ### attribute access (`getattr` / `setattr` as `_livepatch__setattr` uses them) -/

/-- `getattr(owner, name)` where `name` is in the owner's own class dict / a set slot.
    `none` = AttributeError. -/
def getattrOf (owner : Id) (name : Str) : M (Option Id) := do
  let o ← getObj owner
  match o with
  | .cls _ _ _ _ attrs =>
    match alookup name attrs with
    | none => pure none
    | some raw => do
      let r ← getObj raw
      match r with
      | .smeth f => pure (some f)
      | .cmeth _ => do
        let m ← allocBound raw owner     -- a fresh bound method on every access
        pure (some m)
      | _ => pure (some raw)
  | .inst _ _ sl => pure (alookup name sl)
  | _ => fail .stuck

def setattrOf (owner : Id) (name : Str) (v : Id) : M Unit := do
  let o ← getObj owner
  match o with
  | .cls .. => if name = dictKey then fail .attributeError else updClsAttrs owner (aset name v)
  | .inst .. => updInstSlots owner (aset name v)
  | _ => fail .stuck

def delattrOf (owner : Id) (name : Str) : M Unit := do
  let o ← getObj owner
  match o with
  | .cls .. => if name = dictKey then fail .attributeError else updClsAttrs owner (adel name)
  | .inst .. => updInstSlots owner (adel name)
  | _ => fail .stuck

def memberDescriptorTy : Str := ['b', 'u', 'i', 'l', 't', 'i', 'n', 's', '.', 'm', 'e', 'm', 'b', 'e', 'r', '_', 'd', 'e', 's', 'c', 'r', 'i', 'p', 't', 'o', 'r']   -- "builtins.member_descriptor"

def isMemberDescriptor (h : List Obj) (i : Id) : Bool :=
  match h[i]? with
  | some (.atom t _) => t == memberDescriptorTy
  | _ => false

/-! ### the handlers; `rec vs old new` is the recursive `livepatch(old, new, visit_stack=vs)` -/

abbrev Rec := List Id → Id → Id → M Id

/-- `_livepatch__setattr` -/
def lpSetattr (rec : Rec) (vs : List Id) (old new : Id) (name : Str) : M Unit := do
  let nv ← getattrOf new name
  match nv with
  | none => fail .attributeError
  | some newval => do
    let s ← getSt
    if isMemberDescriptor s.heap newval then fail .assertion else do
    let ov ← getattrOf old name
    match ov with
    | none => setattrOf old name newval
    | some oldval =>
      if newval = oldval then pure () else do
      let r ← rec vs oldval newval
      if r = oldval then pure () else setattrOf old name r

/-- `_livepatch__dict` -/
def lpDictStep (rec : Rec) (vs : List Id) (old new : Id) (name : Str) : M Unit := do
  let o ← getObj old
  let n ← getObj new
  match o, n with
  | .dict eo, .dict en =>
    match alookup name eo, alookup name en with
    | some ov, some nv => do
      let r ← rec vs ov nv
      if r = ov then pure () else updDict old (aset name r)
    | _, _ => fail .keyError
  | _, _ => fail .stuck

def lpDict (rec : Rec) (vs : List Id) (old new : Id) : M Id := do
  let o ← getObj old
  let n ← getObj new
  match o, n with
  | .dict eo, .dict en => do
    forEach (fun k => updDict old (aset k ((alookup k en).getD 0))) ((akeys en).filter (fun k => !hasKey k eo))
    forEach (fun k => updDict old (adel k)) ((akeys eo).filter (fun k => !hasKey k en))
    forEach (lpDictStep rec vs old new) (sortStrs ((akeys eo).filter (fun k => hasKey k en)).eraseDups)
    pure old
  | _, _ => fail .stuck

/-- `_livepatch__function` -/
def lpCells (cx : Ctx) (rec : Rec) (vs : List Id) : List Id → List Id → M Unit
  | ca :: as, cb :: bs => do
    let oc ← getObj ca
    let nc ← getObj cb
    match oc, nc with
    | .cell a, .cell b => do
      let r ← rec vs a b        -- the code as found discards the result
      if cx.fx.d45 && r != a then do
        updCell ca r
        lpCells cx rec vs as bs
      else lpCells cx rec vs as bs
    | _, _ => fail .stuck
  | _, _ => pure ()

def lpFunctionBody (cx : Ctx) (rec : Rec) (vs : List Id) (old : Id) (ncode ndef ndoc od nd : Nat)
    (oc nc : List Id) : M Id := do
  updFunc old ncode ndef ndoc
  let _ ← rec vs od nd
  lpCells cx rec vs oc nc
  pure old

def lpFunction (cx : Ctx) (rec : Rec) (vs : List Id) (old new : Id) : M Id := do
  let o ← getObj old
  let n ← getObj new
  match o, n with
  | .func _ _ _ _ _ od oc _, .func _ _ ncode ndef ndoc nd nc _ => do
    let s ← getSt
    if !funcCompat cx.dyn s.heap old new then pure new else lpFunctionBody cx rec vs old ncode ndef ndoc od nd oc nc
  | _, _ => fail .stuck

/-- `_livepatch__method`: goes straight to `_livepatch__function` (no visit-stack check, no cache) -/
def lpMethod (cx : Ctx) (rec : Rec) (vs : List Id) (old new : Id) : M Id := do
  let o ← getObj old
  let n ← getObj new
  match o, n with
  | .meth fo _, .meth fn _ => do
    let _ ← lpFunction cx rec vs fo fn
    pure old
  | _, _ => fail .stuck

/-- `_livepatch__class` -/
def weakrefKey : Str := ['_', '_', 'w', 'e', 'a', 'k', 'r', 'e', 'f', '_', '_']   -- "__weakref__"

/-- fixes/C16-D18.diff: `_livepatch__bases` — each new base that has a namesake among the old bases is livepatched
    with it; otherwise a class already livepatched (found in the cache by the id of the new class) is used. -/
def sameNameCls (h : List Obj) (nb : Id) (ob : Id) : Bool :=
  match h[nb]?, h[ob]? with
  | some (.cls n m ..), some (.cls n' m' ..) => n == n' && m == m'
  | _, _ => false

def lpBases (rec : Rec) (vs : List Id) (oldBases : List Id) : List Id → M (List Id)
  | [] => pure []
  | nb :: rest => do
    let s ← getSt
    match oldBases.find? (sameNameCls s.heap nb) with
    | some ob => do
      let r ← rec vs ob nb
      let rs ← lpBases rec vs oldBases rest
      pure (r :: rs)
    | none => do
      let r := ((s.cache.find? (fun e => e.1.2 = nb)).map (·.2)).getD nb
      let rs ← lpBases rec vs oldBases rest
      pure (r :: rs)

/-- the value assigned to `oldclass.__bases__` -/
def classBases (cx : Ctx) (rec : Rec) (vs : List Id) (ob nb : List Id) : M (List Id) :=
  if cx.fx.d18 then lpBases rec vs ob nb else pure nb

def lpClass (cx : Ctx) (rec : Rec) (vs : List Id) (old new : Id) : M Id := do
  let o ← getObj old
  let n ← getObj new
  match o, n with
  | .cls _ _ osl ob oa0, .cls _ _ _ nb na0 => do
    let s ← getSt
    if !optValEq s.heap (alookup slotsKey oa0) (alookup slotsKey na0) then pure new else do
    -- fixes/C16-D44.diff: the layout descriptors are neither added, removed nor updated
    let oa := if cx.fx.d44 then oa0.filter (fun p => p.1 != dictKey && p.1 != weakrefKey) else oa0
    let na := if cx.fx.d44 then na0.filter (fun p => p.1 != dictKey && p.1 != weakrefKey) else na0
    forEach (delattrOf old) ((akeys oa).filter (fun k => !hasKey k na))
    forEach (fun k => setattrOf old k ((alookup k na).getD 0)) ((akeys na).filter (fun k => !hasKey k oa))
    let bases ← classBases cx rec vs ob nb
    updClsBases old bases
    match alookup docKey na with
    | none => fail .stuck
    | some d => do
      setattrOf old docKey d
      forEach (lpSetattr rec vs old new)
        (sortStrs (((akeys oa).filter (fun k => hasKey k na && !(osl.getD []).contains k
                      && k != slotsKey && k != dictKey && k != docKey)).eraseDups))
      pure old
  | _, _ => fail .stuck

/-- the slots loop of `_livepatch__object` -/
def lpSlotStep (cx : Ctx) (rec : Rec) (vs : List Id) (old new : Id) (name : Str) : M Unit := do
  let o ← getObj old
  let n ← getObj new
  match o, n with
  | .inst _ _ so, .inst _ _ sn =>
    match hasKey name so, hasKey name sn with
    | true, true => lpSetattr rec vs old new name
    | true, false => delattrOf old name
    | false, true =>          -- the code as found: setattr(oldobj, getattr(newobj, name)) -> TypeError
      if cx.fx.d41 then setattrOf old name ((alookup name sn).getD 0) else fail .typeError
    | false, false => pure ()
  | _, _ => fail .stuck

/-- `_livepatch__object` -/
def lpObject (cx : Ctx) (rec : Rec) (vs : List Id) (old new : Id) : M Id := do
  let o ← getObj old
  match o with
  | .inst c od _ => do
    let co ← getObj c
    match co with
    | .cls _ cm _ _ _ =>
      if cx.modname.isSome && cm != cx.modname then pure new else do
      let s ← getSt
      match instSlots s.heap c with
      | some (sv, _) => do
        let n ← getObj new
        match n with
        | .inst c' _ _ =>
          match instSlots s.heap c' with
          | none => fail .attributeError
          | some (sv', names') =>
            if !valEq s.heap sv sv' then fail .assertion else do
            forEach (lpSlotStep cx rec vs old new) names'
            pure old
        | _ => fail .stuck
      | none =>
        match od with
        | some d => do
          let n ← getObj new
          match n with
          | .inst _ (some d') _ => do
            let _ ← rec vs d d'
            pure old
          | .inst _ none _ => fail .attributeError
          | _ => fail .stuck
        | none => pure new
    | _ => fail .stuck
  | _ => pure new      -- an object whose type is not defined by the module being reloaded

/-- `_livepatch__module` -/
def lpModule (rec : Rec) (vs : List Id) (old new : Id) : M Id := do
  let o ← getObj old
  let n ← getObj new
  match o, n with
  | .module d, .module d' => do
    let r ← rec vs d d'
    if r = d then pure old else fail .assertion
  | _, _ => fail .stuck

/-- the class object that is `type(obj)`, when it lives in the heap: an instance's class, a class's in-module
    metaclass, a dict-subclass instance's in-module class -/
def typeClassOf (dyn : List (Id × DynTy)) (o : Obj) (i : Id) : Option Id :=
  match o with
  | .inst c _ _ => some c
  | _ => match dynOf dyn i with
    | some (.heap c) => some c
    | _ => none

/-- which handler `do_livepatch` picks; `none` = give up and return `new` -/
def resolveKind (cx : Ctx) (rec : Rec) (vs : List Id) (old new : Id) (assumeModule : Bool) : M (Option Kind) := do
  let o ← getObj old
  let n ← getObj new
  let s ← getSt
  if cx.modname.isSome && (defModule s.heap new).isSome && defModule s.heap new != cx.modname then pure none
  else if cx.fx.d52 && (cx.modname.isSome && (defModule s.heap old).isSome && defModule s.heap old != cx.modname) then pure none
  else if assumeModule then pure (some .module)
  else if sameType cx.dyn s.heap old new then pure (some o.kind)
  else match typeClassOf cx.dyn o old, typeClassOf cx.dyn n new with
    | some c, some c' => do
      let co ← getObj c
      let cn ← getObj c'
      match co, cn with
      | .cls nmo mo _ _ _, .cls nmn mn _ _ _ =>
        if nmo = nmn && mo = mn && mn.isSome && mn = cx.modname then
          match alookup (mn.getD []) cx.sysmods with
          | none => fail .keyError
          | some m => do
            let mo' ← getObj m
            match mo' with
            | .module md => do
              let mdo ← getObj md
              match mdo with
              | .dict e =>
                if alookup nmn e = some c' then do
                  let r ← rec vs c c'
                  if r = c then pure (some o.kind) else pure none
                else pure none
              | _ => fail .stuck
            | _ => fail .stuck
        else pure none
      | _, _ => fail .stuck
    | _, _ => pure none

def dispatch (cx : Ctx) (rec : Rec) (vs : List Id) (old new : Id) (assumeModule : Bool) : M Id := do
  let k ← resolveKind cx rec vs old new assumeModule
  match k with
  | none => pure new
  | some .dict => lpDict rec vs old new
  | some .func => lpFunction cx rec vs old new
  | some .meth => lpMethod cx rec vs old new
  | some .cls => lpClass cx rec vs old new
  | some .module => lpModule rec vs old new
  | some _ => lpObject cx rec vs old new

/-- `livepatch(old, new, modname, visit_stack, cache, assume_type)` without hooks -/
def lp (cx : Ctx) : Nat → Bool → List Id → Id → Id → M Id
  | 0, _, _, _, _ => fail .fuel
  | fuel + 1, assumeModule, vs, old, new =>
    if old = new then pure new
    else if vs.contains old then pure old
    else do
      let c ← cacheGet (old, new)
      match c with
      | some r => pure r
      | none => do
        let r ← dispatch cx (lp cx fuel false) (vs ++ [old]) old new assumeModule
        cachePut (old, new) r
        pure r

/-- public entry: `livepatch(old, new, modname)` with a fresh cache and an empty visit stack -/
def livepatch (cx : Ctx) (fuel : Nat) (h : List Obj) (old new : Id) : Except Err (Id × List Obj) :=
  match lp cx fuel false [] old new { heap := h, cache := [] } with
  | .ok (r, s) => .ok (r, s.heap)
  | .error e => .error e

/-! ### `_xreload_module` from the point where the source is known to have changed -/

structure World where
  heap : List Obj
  sysmods : List (Str × Id)
  deriving Repr, Inhabited

/-- What executing the new source in the scratch module does: it only allocates.  `objs` always starts with the
    scratch module object (`types.ModuleType(name)` is created before `exec`). -/
inductive ExecOutcome where
  | ok (objs : List Obj)
  | fail (stmt : Nat) (objs : List Obj)
  deriving Repr, Inhabited

structure ReloadIn where
  name : Str
  module : Id                 -- the module object being reloaded
  compileOk : Bool            -- `compile(source ...)` succeeds
  outcome : ExecOutcome
  mtime : Obj                 -- the float stored into `__loadtime__`
  fuel : Nat
  fx : Fixes := {}
  dyn : List (Id × DynTy) := []
  deriving Repr, Inhabited

def restore (name : Str) (saved : Option Id) (sm : List (Str × Id)) : List (Str × Id) :=
  match saved with
  | none => adel name sm
  | some m => aset name m sm

/-- returns the world afterwards (always) and the result / the exception -/
def xreload (w : World) (i : ReloadIn) : World × Except Err Id :=
  if !i.compileOk then (w, .error .syntaxError) else
  let saved := alookup i.name w.sysmods
  let newMod := w.heap.length
  match i.outcome with
  | .fail stmt objs =>
    -- sys.modules[name] = new_mod; exec raises; sys.modules restored
    let sm1 := aset i.name newMod w.sysmods
    ({ heap := w.heap ++ objs, sysmods := restore i.name saved sm1 }, .error (.execFailed stmt))
  | .ok objs =>
    let sm1 := aset i.name newMod w.sysmods
    let h1 := w.heap ++ objs
    let cx : Ctx := { modname := some i.name, sysmods := sm1, fx := i.fx, dyn := i.dyn }
    match lp cx i.fuel true [] i.module newMod { heap := h1, cache := [] } with
    | .error e => ({ heap := h1, sysmods := restore i.name saved sm1 }, .error e)   -- heap of the failed attempt is lost to the model
    | .ok (r, s) =>
      let sm2 := aset i.name r sm1
      -- module.__loadtime__ = mtime
      match s.heap[i.module]? with
      | some (.module d) =>
        let t := s.heap.length
        match (updDict d (aset loadtimeKey t)) { s with heap := s.heap ++ [i.mtime] } with
        | .ok (_, s') => ({ heap := s'.heap, sysmods := sm2 }, .ok i.module)
        | .error e => ({ heap := s.heap, sysmods := sm2 }, .error e)
      | _ => ({ heap := s.heap, sysmods := sm2 }, .error .stuck)

/-! ### the "does the file need reloading" guard of `_xreload_module` (force = False) -/

/-- `if old_loadtime > mtime: return None` — a reload is skipped on account of the times only when the module was
    loaded *strictly later* than the file was last written.  `loadtime` is `module.__loadtime__` (the mtime of the file
    at the last successful reload) or the process start time; both in nanoseconds. -/
def reloadNeeded (loadtime mtime : Nat) : Bool := !(decide (loadtime > mtime))

inductive Guarded where
  | notModified                       -- returned None without reading the file
  | sameText                          -- file re-read, text equal to linecache's copy: returned the module
  | ran (r : Except Err Id)           -- the reload was attempted
  deriving Repr, Inhabited

/-- `_xreload_module(module, filename)`: the guard, then `xreload` -/
def xreloadGuarded (w : World) (i : ReloadIn) (loadtime mtime : Nat) (sameText : Bool) : World × Guarded :=
  if !reloadNeeded loadtime mtime then (w, .notModified)
  else if sameText then (w, .sameText)
  else ((xreload w i).1, .ran (xreload w i).2)


/-- variant that also returns the heap when livepatch itself fails (to state that this failure is *not* rolled back) -/
def lpRun (cx : Ctx) (fuel : Nat) (assumeModule : Bool) (h : List Obj) (old new : Id) : Except Err (Id × St) :=
  lp cx fuel assumeModule [] old new { heap := h, cache := [] }

end Pfb.C16
