/-
  Pfb.C16.Lemmas — the frame invariant of `livepatch`:

  while `livepatch(old, new, visit_stack = vs)` runs (any depth of recursion, any heap, any of the four repairs),
    * the heap only grows and no object changes its kind,
    * every object on the visit stack `vs` that is *protected* is left exactly as it was,
  where protected = not a closure cell, and not a function that is the `__func__` of some (class)method object
  (`_livepatch__method` patches `__func__` without consulting the visit stack).
-/
import Pfb.C16.Model
namespace Pfb.C16
open Pfb

/-! ### monad plumbing -/

@[simp] theorem bind_eq (m : M α) (f : α → M β) : (m >>= f) = M.bind m f := rfl
@[simp] theorem pure_eq (a : α) : (pure a : M α) = M.pure a := rfl

theorem bind_ok {m : M α} {f : α → M β} {s : St} {b : β} {s'' : St} :
    M.bind m f s = .ok (b, s'') ↔ ∃ a s', m s = .ok (a, s') ∧ f a s' = .ok (b, s'') := by
  unfold M.bind
  constructor
  · intro h
    split at h
    · rename_i a s' hm; exact ⟨a, s', hm, h⟩
    · cases h
  · rintro ⟨a, s', hm, hf⟩
    rw [hm]; exact hf

theorem pure_ok {a b : α} {s s' : St} : M.pure a s = .ok (b, s') ↔ b = a ∧ s' = s := by
  unfold M.pure
  constructor
  · intro h; cases h; exact ⟨rfl, rfl⟩
  · rintro ⟨rfl, rfl⟩; rfl

theorem fail_ok {e : Err} {b : α} {s s' : St} : (fail e : M α) s = .ok (b, s') ↔ False := by
  unfold fail; constructor
  · intro h; cases h
  · intro h; cases h

/-! ### the invariant -/

/-- no bound method and no classmethod wrapper in the heap has `g` as its function -/
def NoMethRef (h : List Obj) (g : Id) : Prop :=
  ∀ (j : Id) (o : Obj), h[j]? = some o → (∀ s, o ≠ Obj.meth g s) ∧ o ≠ Obj.cmeth g

/-- objects that nothing but `livepatch(thisObject, …)` itself writes to -/
def Prot (h : List Obj) (i : Id) : Prop :=
  ∃ o : Obj, h[i]? = some o ∧ o.kind ≠ Kind.cell ∧ (o.kind = Kind.func → NoMethRef h i)

structure Frame (vs : List Id) (h h' : List Obj) : Prop where
  len : h.length ≤ h'.length
  kind : ∀ (i : Id) (o : Obj), h[i]? = some o → ∃ o' : Obj, h'[i]? = some o' ∧ o'.kind = o.kind
  keep : ∀ i, i ∈ vs → Prot h i → h'[i]? = h[i]?
  nomr : ∀ g, NoMethRef h g → NoMethRef h' g

theorem Frame.refl (vs : List Id) (h : List Obj) : Frame vs h h :=
  ⟨Nat.le_refl _, fun _ o ho => ⟨o, ho, rfl⟩, fun _ _ _ => rfl, fun _ hg => hg⟩

theorem Prot.transfer {vs : List Id} {h h' : List Obj} (F : Frame vs h h') {i : Id} (hi : i ∈ vs) (p : Prot h i) :
    Prot h' i := by
  have e := F.keep i hi p
  obtain ⟨o, ho, p1, p2⟩ := p
  exact ⟨o, by rw [e]; exact ho, p1, fun hk => F.nomr i (p2 hk)⟩

theorem Frame.trans {vs : List Id} {h h' h'' : List Obj} (F : Frame vs h h') (G : Frame vs h' h'') : Frame vs h h'' := by
  refine ⟨Nat.le_trans F.len G.len, ?_, ?_, fun g hg => G.nomr g (F.nomr g hg)⟩
  · intro i o ho
    obtain ⟨o', ho', k'⟩ := F.kind i o ho
    obtain ⟨o'', ho'', k''⟩ := G.kind i o' ho'
    exact ⟨o'', ho'', k''.trans k'⟩
  · intro i hi p
    rw [G.keep i hi (Prot.transfer F hi p), F.keep i hi p]

theorem Frame.mono {vs vs' : List Id} {h h' : List Obj} (sub : ∀ i, i ∈ vs → i ∈ vs') (F : Frame vs' h h') :
    Frame vs h h' :=
  ⟨F.len, F.kind, fun i hi p => F.keep i (sub i hi) p, F.nomr⟩

/-- an object may be written if it is off the stack or unprotected -/
def Wr (vs : List Id) (h : List Obj) (i : Id) : Prop := i ∉ vs ∨ ¬ Prot h i

theorem Frame.set {vs : List Id} {h : List Obj} {i : Id} {o o' : Obj} (ho : h[i]? = some o) (hk : o'.kind = o.kind)
    (hm : o'.kind ≠ .meth ∧ o'.kind ≠ .cmeth) (w : Wr vs h i) : Frame vs h (h.set i o') := by
  have hlt : i < h.length := by
    rcases Nat.lt_or_ge i h.length with hl | hl
    · exact hl
    · rw [List.getElem?_eq_none hl] at ho; cases ho
  refine ⟨by simp, ?_, ?_, ?_⟩
  · intro j oj hj
    by_cases e : i = j
    · subst e
      rw [ho] at hj; cases hj
      exact ⟨o', by simp [hlt], hk⟩
    · exact ⟨oj, by rw [List.getElem?_set_ne e]; exact hj, rfl⟩
  · intro j hj p
    have e : i ≠ j := by
      intro e; subst e
      rcases w with w | w
      · exact w hj
      · exact w p
    rw [List.getElem?_set_ne e]
  · intro g hg j oj hj
    by_cases e : i = j
    · subst e
      simp [hlt] at hj
      subst hj
      refine ⟨fun s hs => ?_, fun hs => ?_⟩
      · rw [hs] at hm; exact hm.1 rfl
      · rw [hs] at hm; exact hm.2 rfl
    · rw [List.getElem?_set_ne e] at hj
      exact hg j oj hj

theorem Frame.push_meth {vs : List Id} {h : List Obj} {f s j : Id} (hc : h[j]? = some (.cmeth f)) :
    Frame vs h (h ++ [.meth f s]) := by
  refine ⟨by simp, ?_, ?_, ?_⟩
  · intro i o ho
    have hlt : i < h.length := by
      rcases Nat.lt_or_ge i h.length with hl | hl
      · exact hl
      · rw [List.getElem?_eq_none hl] at ho; cases ho
    exact ⟨o, by rw [List.getElem?_append_left hlt]; exact ho, rfl⟩
  · intro i _ p
    obtain ⟨o, ho, _⟩ := p
    have hlt : i < h.length := by
      rcases Nat.lt_or_ge i h.length with hl | hl
      · exact hl
      · rw [List.getElem?_eq_none hl] at ho; cases ho
    rw [List.getElem?_append_left hlt]
  · intro g hg i o ho
    rcases Nat.lt_or_ge i h.length with hl | hl
    · rw [List.getElem?_append_left hl] at ho; exact hg i o ho
    · have hf : f ≠ g := by
        intro e; subst e
        exact (hg j _ hc).2 rfl
      have : o = .meth f s := by
        by_cases e : i = h.length
        · subst e; simp at ho; exact ho.symm
        · have hgt : h.length < i := Nat.lt_of_le_of_ne hl (Ne.symm e)
          rw [List.getElem?_eq_none] at ho; cases ho; simp; omega
      subst this
      refine ⟨fun s' hs => ?_, fun hs => ?_⟩
      · cases hs; exact hf rfl
      · cases hs


/-! ### computations that keep the frame -/

def Pres (vs : List Id) (m : M α) : Prop := ∀ s a s', m s = .ok (a, s') → Frame vs s.heap s'.heap

theorem Pres.pure {vs : List Id} (a : α) : Pres vs (M.pure a) := by
  intro s b s' h
  obtain ⟨_, rfl⟩ := pure_ok.mp h
  exact Frame.refl _ _

theorem Pres.pure' {vs : List Id} (a : α) : Pres vs (Pure.pure a : M α) := Pres.pure a

theorem Pres.fail {vs : List Id} (e : Err) : Pres vs (fail e : M α) := by
  intro s b s' h
  exact (fail_ok.mp h).elim

theorem Pres.bind {vs : List Id} {m : M α} {f : α → M β} (hm : Pres vs m) (hf : ∀ a, Pres vs (f a)) :
    Pres vs (M.bind m f) := by
  intro s b s'' h
  obtain ⟨a, s', h1, h2⟩ := bind_ok.mp h
  exact (hm s a s' h1).trans (hf a s' b s'' h2)

theorem Pres.bind' {vs : List Id} {m : M α} {f : α → M β} (hm : Pres vs m) (hf : ∀ a, Pres vs (f a)) :
    Pres vs (m >>= f) := Pres.bind hm hf

theorem Pres.mono {vs vs' : List Id} {m : M α} (sub : ∀ i, i ∈ vs → i ∈ vs') (h : Pres vs' m) : Pres vs m :=
  fun s a s' e => (h s a s' e).mono sub

theorem Pres.getObj {vs : List Id} (i : Id) : Pres vs (getObj i) := by
  intro s a s' h
  unfold C16.getObj at h
  split at h
  · cases h; exact Frame.refl _ _
  · cases h

theorem Pres.getSt {vs : List Id} : Pres vs getSt := by
  intro s a s' h
  unfold C16.getSt at h
  cases h; exact Frame.refl _ _

theorem Pres.cacheGet {vs : List Id} (k : Id × Id) : Pres vs (cacheGet k) := by
  intro s a s' h
  unfold C16.cacheGet at h
  cases h; exact Frame.refl _ _

theorem Pres.cachePut {vs : List Id} (k : Id × Id) (r : Id) : Pres vs (cachePut k r) := by
  intro s a s' h
  unfold C16.cachePut at h
  cases h; exact Frame.refl _ _

theorem Pres.forEach {vs : List Id} {f : α → M Unit} (hf : ∀ x, Pres vs (f x)) : ∀ xs, Pres vs (forEach f xs)
  | [] => by unfold C16.forEach; exact Pres.pure' ()
  | x :: xs => by
    unfold C16.forEach
    exact Pres.bind' (hf x) (fun _ => Pres.forEach hf xs)

/-- state-dependent versions of the writers -/
theorem updDict_frame {vs : List Id} {i : Id} {f} {s s' : St} {a : Unit} (w : Wr vs s.heap i)
    (h : updDict i f s = .ok (a, s')) : Frame vs s.heap s'.heap := by
  unfold updDict at h
  split at h
  · rename_i e he
    cases h
    exact Frame.set he rfl (by simp [Obj.kind]) w
  · cases h

theorem updFunc_frame {vs : List Id} {i : Id} {c d dc : Nat} {s s' : St} {a : Unit} (w : Wr vs s.heap i)
    (h : updFunc i c d dc s = .ok (a, s')) : Frame vs s.heap s'.heap := by
  unfold updFunc at h
  split at h
  · rename_i he
    cases h
    exact Frame.set he rfl (by simp [Obj.kind]) w
  · cases h

theorem updClsAttrs_frame {vs : List Id} {i : Id} {f} {s s' : St} {a : Unit} (w : Wr vs s.heap i)
    (h : updClsAttrs i f s = .ok (a, s')) : Frame vs s.heap s'.heap := by
  unfold updClsAttrs at h
  split at h
  · rename_i he
    cases h
    exact Frame.set he rfl (by simp [Obj.kind]) w
  · cases h

theorem updClsBases_frame {vs : List Id} {i : Id} {b} {s s' : St} {a : Unit} (w : Wr vs s.heap i)
    (h : updClsBases i b s = .ok (a, s')) : Frame vs s.heap s'.heap := by
  unfold updClsBases at h
  split at h
  · rename_i he
    cases h
    exact Frame.set he rfl (by simp [Obj.kind]) w
  · cases h

theorem updInstSlots_frame {vs : List Id} {i : Id} {f} {s s' : St} {a : Unit} (w : Wr vs s.heap i)
    (h : updInstSlots i f s = .ok (a, s')) : Frame vs s.heap s'.heap := by
  unfold updInstSlots at h
  split at h
  · rename_i he
    cases h
    exact Frame.set he rfl (by simp [Obj.kind]) w
  · cases h

/-- a closure cell is never protected, so it may always be written -/
theorem Pres.updCell {vs : List Id} (i v : Id) : Pres vs (updCell i v) := by
  intro s a s' h
  unfold C16.updCell at h
  split at h
  · rename_i c he
    cases h
    refine Frame.set he rfl (by simp [Obj.kind]) (Or.inr ?_)
    rintro ⟨o, ho, hk, _⟩
    rw [he] at ho; cases ho
    exact hk rfl
  · cases h

theorem Pres.updDict {vs : List Id} {i : Id} (hi : i ∉ vs) (f) : Pres vs (updDict i f) :=
  fun _ _ _ h => updDict_frame (Or.inl hi) h
theorem Pres.updClsAttrs {vs : List Id} {i : Id} (hi : i ∉ vs) (f) : Pres vs (updClsAttrs i f) :=
  fun _ _ _ h => updClsAttrs_frame (Or.inl hi) h
theorem Pres.updClsBases {vs : List Id} {i : Id} (hi : i ∉ vs) (b) : Pres vs (updClsBases i b) :=
  fun _ _ _ h => updClsBases_frame (Or.inl hi) h
theorem Pres.updInstSlots {vs : List Id} {i : Id} (hi : i ∉ vs) (f) : Pres vs (updInstSlots i f) :=
  fun _ _ _ h => updInstSlots_frame (Or.inl hi) h

/-- one step of structural decomposition of a `Pres` goal -/
macro "pres_step" : tactic => `(tactic| first
  | exact Pres.pure' _ | exact Pres.pure _ | exact Pres.fail _ | exact Pres.getObj _ | exact Pres.getSt
  | exact Pres.cacheGet _ | exact Pres.cachePut _ _ | exact Pres.updCell _ _
  | apply Pres.bind' | apply Pres.bind | intro _ | split)

end Pfb.C16
