/-
  Pfb.C16.Lemmas — the frame invariant of `livepatch`:

  while `livepatch(old, new, visit_stack = vs)` runs (any depth of recursion, any heap, any of the four repairs),
    * the heap only grows and no object changes its kind,
    * every object on the visit stack `vs` that is *protected* is left exactly as it was,
  where protected = not a closure cell, and not a function that is the `__func__` of some (class)method object
  (`_livepatch__method` patches `__func__` without consulting the visit stack).
-/
import Pfb.C16.Model
namespace Pfb.C16
open Pfb

/-! ### monad plumbing -/

@[simp] theorem bind_eq (m : M α) (f : α → M β) : (m >>= f) = M.bind m f := rfl
@[simp] theorem pure_eq (a : α) : (pure a : M α) = M.pure a := rfl

theorem bind_ok {m : M α} {f : α → M β} {s : St} {b : β} {s'' : St} :
    M.bind m f s = .ok (b, s'') ↔ ∃ a s', m s = .ok (a, s') ∧ f a s' = .ok (b, s'') := by
  unfold M.bind
  constructor
  · intro h
    split at h
    · rename_i a s' hm; exact ⟨a, s', hm, h⟩
    · cases h
  · rintro ⟨a, s', hm, hf⟩
    rw [hm]; exact hf

theorem pure_ok {a b : α} {s s' : St} : M.pure a s = .ok (b, s') ↔ b = a ∧ s' = s := by
  unfold M.pure
  constructor
  · intro h; cases h; exact ⟨rfl, rfl⟩
  · rintro ⟨rfl, rfl⟩; rfl

theorem fail_ok {e : Err} {b : α} {s s' : St} : (fail e : M α) s = .ok (b, s') ↔ False := by
  unfold fail; constructor
  · intro h; cases h
  · intro h; cases h

/-! ### the invariant -/

/-- no bound method and no classmethod wrapper in the heap has `g` as its function -/
def NoMethRef (h : List Obj) (g : Id) : Prop :=
  ∀ (j : Id) (o : Obj), h[j]? = some o → (∀ s, o ≠ Obj.meth g s) ∧ o ≠ Obj.cmeth g

/-- objects that nothing but `livepatch(thisObject, …)` itself writes to -/
def Prot (h : List Obj) (i : Id) : Prop :=
  ∃ o : Obj, h[i]? = some o ∧ o.kind ≠ Kind.cell ∧ (o.kind = Kind.func → NoMethRef h i)

structure Frame (vs : List Id) (h h' : List Obj) : Prop where
  len : h.length ≤ h'.length
  kind : ∀ (i : Id) (o : Obj), h[i]? = some o → ∃ o' : Obj, h'[i]? = some o' ∧ o'.kind = o.kind
  keep : ∀ i, i ∈ vs → Prot h i → h'[i]? = h[i]?
  nomr : ∀ g, NoMethRef h g → NoMethRef h' g

theorem Frame.refl (vs : List Id) (h : List Obj) : Frame vs h h :=
  ⟨Nat.le_refl _, fun _ o ho => ⟨o, ho, rfl⟩, fun _ _ _ => rfl, fun _ hg => hg⟩

theorem Prot.transfer {vs : List Id} {h h' : List Obj} (F : Frame vs h h') {i : Id} (hi : i ∈ vs) (p : Prot h i) :
    Prot h' i := by
  have e := F.keep i hi p
  obtain ⟨o, ho, p1, p2⟩ := p
  exact ⟨o, by rw [e]; exact ho, p1, fun hk => F.nomr i (p2 hk)⟩

theorem Frame.trans {vs : List Id} {h h' h'' : List Obj} (F : Frame vs h h') (G : Frame vs h' h'') : Frame vs h h'' := by
  refine ⟨Nat.le_trans F.len G.len, ?_, ?_, fun g hg => G.nomr g (F.nomr g hg)⟩
  · intro i o ho
    obtain ⟨o', ho', k'⟩ := F.kind i o ho
    obtain ⟨o'', ho'', k''⟩ := G.kind i o' ho'
    exact ⟨o'', ho'', k''.trans k'⟩
  · intro i hi p
    rw [G.keep i hi (Prot.transfer F hi p), F.keep i hi p]

theorem Frame.mono {vs vs' : List Id} {h h' : List Obj} (sub : ∀ i, i ∈ vs → i ∈ vs') (F : Frame vs' h h') :
    Frame vs h h' :=
  ⟨F.len, F.kind, fun i hi p => F.keep i (sub i hi) p, F.nomr⟩

/-- an object may be written if it is off the stack or unprotected -/
def Wr (vs : List Id) (h : List Obj) (i : Id) : Prop := i ∉ vs ∨ ¬ Prot h i

theorem Frame.set {vs : List Id} {h : List Obj} {i : Id} {o o' : Obj} (ho : h[i]? = some o) (hk : o'.kind = o.kind)
    (hm : o'.kind ≠ .meth ∧ o'.kind ≠ .cmeth) (w : Wr vs h i) : Frame vs h (h.set i o') := by
  have hlt : i < h.length := by
    rcases Nat.lt_or_ge i h.length with hl | hl
    · exact hl
    · rw [List.getElem?_eq_none hl] at ho; cases ho
  refine ⟨by simp, ?_, ?_, ?_⟩
  · intro j oj hj
    by_cases e : i = j
    · subst e
      rw [ho] at hj; cases hj
      exact ⟨o', by simp [hlt], hk⟩
    · exact ⟨oj, by rw [List.getElem?_set_ne e]; exact hj, rfl⟩
  · intro j hj p
    have e : i ≠ j := by
      intro e; subst e
      rcases w with w | w
      · exact w hj
      · exact w p
    rw [List.getElem?_set_ne e]
  · intro g hg j oj hj
    by_cases e : i = j
    · subst e
      simp [hlt] at hj
      subst hj
      refine ⟨fun s hs => ?_, fun hs => ?_⟩
      · rw [hs] at hm; exact hm.1 rfl
      · rw [hs] at hm; exact hm.2 rfl
    · rw [List.getElem?_set_ne e] at hj
      exact hg j oj hj

theorem Frame.push_meth {vs : List Id} {h : List Obj} {f s j : Id} (hc : h[j]? = some (.cmeth f)) :
    Frame vs h (h ++ [.meth f s]) := by
  refine ⟨by simp, ?_, ?_, ?_⟩
  · intro i o ho
    have hlt : i < h.length := by
      rcases Nat.lt_or_ge i h.length with hl | hl
      · exact hl
      · rw [List.getElem?_eq_none hl] at ho; cases ho
    exact ⟨o, by rw [List.getElem?_append_left hlt]; exact ho, rfl⟩
  · intro i _ p
    obtain ⟨o, ho, _⟩ := p
    have hlt : i < h.length := by
      rcases Nat.lt_or_ge i h.length with hl | hl
      · exact hl
      · rw [List.getElem?_eq_none hl] at ho; cases ho
    rw [List.getElem?_append_left hlt]
  · intro g hg i o ho
    rcases Nat.lt_or_ge i h.length with hl | hl
    · rw [List.getElem?_append_left hl] at ho; exact hg i o ho
    · have hf : f ≠ g := by
        intro e; subst e
        exact (hg j _ hc).2 rfl
      have : o = .meth f s := by
        by_cases e : i = h.length
        · subst e; simp at ho; exact ho.symm
        · have hgt : h.length < i := Nat.lt_of_le_of_ne hl (Ne.symm e)
          rw [List.getElem?_eq_none] at ho; cases ho; simp; omega
      subst this
      refine ⟨fun s' hs => ?_, fun hs => ?_⟩
      · cases hs; exact hf rfl
      · cases hs


/-! ### computations that keep the frame -/

def Pres (vs : List Id) (m : M α) : Prop := ∀ s a s', m s = .ok (a, s') → Frame vs s.heap s'.heap

theorem Pres.pure {vs : List Id} (a : α) : Pres vs (M.pure a) := by
  intro s b s' h
  obtain ⟨_, rfl⟩ := pure_ok.mp h
  exact Frame.refl _ _

theorem Pres.pure' {vs : List Id} (a : α) : Pres vs (Pure.pure a : M α) := Pres.pure a

theorem Pres.fail {vs : List Id} (e : Err) : Pres vs (fail e : M α) := by
  intro s b s' h
  exact (fail_ok.mp h).elim

theorem Pres.bind {vs : List Id} {m : M α} {f : α → M β} (hm : Pres vs m) (hf : ∀ a, Pres vs (f a)) :
    Pres vs (M.bind m f) := by
  intro s b s'' h
  obtain ⟨a, s', h1, h2⟩ := bind_ok.mp h
  exact (hm s a s' h1).trans (hf a s' b s'' h2)

theorem Pres.bind' {vs : List Id} {m : M α} {f : α → M β} (hm : Pres vs m) (hf : ∀ a, Pres vs (f a)) :
    Pres vs (m >>= f) := Pres.bind hm hf

theorem Pres.mono {vs vs' : List Id} {m : M α} (sub : ∀ i, i ∈ vs → i ∈ vs') (h : Pres vs' m) : Pres vs m :=
  fun s a s' e => (h s a s' e).mono sub

theorem Pres.getObj {vs : List Id} (i : Id) : Pres vs (getObj i) := by
  intro s a s' h
  unfold C16.getObj at h
  split at h
  · cases h; exact Frame.refl _ _
  · cases h

theorem Pres.getSt {vs : List Id} : Pres vs getSt := by
  intro s a s' h
  unfold C16.getSt at h
  cases h; exact Frame.refl _ _

theorem Pres.cacheGet {vs : List Id} (k : Id × Id) : Pres vs (cacheGet k) := by
  intro s a s' h
  unfold C16.cacheGet at h
  cases h; exact Frame.refl _ _

theorem Pres.cachePut {vs : List Id} (k : Id × Id) (r : Id) : Pres vs (cachePut k r) := by
  intro s a s' h
  unfold C16.cachePut at h
  cases h; exact Frame.refl _ _

theorem Pres.forEach {vs : List Id} {f : α → M Unit} (hf : ∀ x, Pres vs (f x)) : ∀ xs, Pres vs (forEach f xs)
  | [] => by unfold C16.forEach; exact Pres.pure' ()
  | x :: xs => by
    unfold C16.forEach
    exact Pres.bind' (hf x) (fun _ => Pres.forEach hf xs)

/-- state-dependent versions of the writers -/
theorem updDict_frame {vs : List Id} {i : Id} {f} {s s' : St} {a : Unit} (w : Wr vs s.heap i)
    (h : updDict i f s = .ok (a, s')) : Frame vs s.heap s'.heap := by
  unfold updDict at h
  split at h
  · rename_i e he
    cases h
    exact Frame.set he rfl (by simp [Obj.kind]) w
  · cases h

theorem updFunc_frame {vs : List Id} {i : Id} {c d dc : Nat} {s s' : St} {a : Unit} (w : Wr vs s.heap i)
    (h : updFunc i c d dc s = .ok (a, s')) : Frame vs s.heap s'.heap := by
  unfold updFunc at h
  split at h
  · rename_i he
    cases h
    exact Frame.set he rfl (by simp [Obj.kind]) w
  · cases h

theorem updClsAttrs_frame {vs : List Id} {i : Id} {f} {s s' : St} {a : Unit} (w : Wr vs s.heap i)
    (h : updClsAttrs i f s = .ok (a, s')) : Frame vs s.heap s'.heap := by
  unfold updClsAttrs at h
  split at h
  · rename_i he
    cases h
    exact Frame.set he rfl (by simp [Obj.kind]) w
  · cases h

theorem updClsBases_frame {vs : List Id} {i : Id} {b} {s s' : St} {a : Unit} (w : Wr vs s.heap i)
    (h : updClsBases i b s = .ok (a, s')) : Frame vs s.heap s'.heap := by
  unfold updClsBases at h
  split at h
  · rename_i he
    cases h
    exact Frame.set he rfl (by simp [Obj.kind]) w
  · cases h

theorem updInstSlots_frame {vs : List Id} {i : Id} {f} {s s' : St} {a : Unit} (w : Wr vs s.heap i)
    (h : updInstSlots i f s = .ok (a, s')) : Frame vs s.heap s'.heap := by
  unfold updInstSlots at h
  split at h
  · rename_i he
    cases h
    exact Frame.set he rfl (by simp [Obj.kind]) w
  · cases h

/-- a closure cell is never protected, so it may always be written -/
theorem Pres.updCell {vs : List Id} (i v : Id) : Pres vs (updCell i v) := by
  intro s a s' h
  unfold C16.updCell at h
  split at h
  · rename_i c he
    cases h
    refine Frame.set he rfl (by simp [Obj.kind]) (Or.inr ?_)
    rintro ⟨o, ho, hk, _⟩
    rw [he] at ho; cases ho
    exact hk rfl
  · cases h

theorem Pres.updDict {vs : List Id} {i : Id} (hi : i ∉ vs) (f) : Pres vs (updDict i f) :=
  fun _ _ _ h => updDict_frame (Or.inl hi) h
theorem Pres.updClsAttrs {vs : List Id} {i : Id} (hi : i ∉ vs) (f) : Pres vs (updClsAttrs i f) :=
  fun _ _ _ h => updClsAttrs_frame (Or.inl hi) h
theorem Pres.updClsBases {vs : List Id} {i : Id} (hi : i ∉ vs) (b) : Pres vs (updClsBases i b) :=
  fun _ _ _ h => updClsBases_frame (Or.inl hi) h
theorem Pres.updInstSlots {vs : List Id} {i : Id} (hi : i ∉ vs) (f) : Pres vs (updInstSlots i f) :=
  fun _ _ _ h => updInstSlots_frame (Or.inl hi) h

/-- one step of structural decomposition of a `Pres` goal (reducible transparency: never unfold a handler) -/
macro "pres_step" : tactic => `(tactic| with_reducible first
  | exact Pres.pure' _ | exact Pres.pure _ | exact Pres.fail _ | exact Pres.getObj _ | exact Pres.getSt
  | exact Pres.cacheGet _ | exact Pres.cachePut _ _ | exact Pres.updCell _ _
  | apply Pres.bind' | apply Pres.bind | intro _ | split)


/-! ### attribute access -/

theorem Pres.allocBound {vs : List Id} (raw owner : Id) : Pres vs (allocBound raw owner) := by
  intro s a s' h
  unfold C16.allocBound at h
  split at h
  · rename_i f hc
    cases h
    exact Frame.push_meth hc
  · cases h

theorem Pres.getattrOf {vs : List Id} (owner : Id) (name : Str) : Pres vs (getattrOf owner name) := by
  unfold C16.getattrOf
  repeat' pres_step
  exact Pres.allocBound _ _

theorem Pres.setattrOf {vs : List Id} {owner : Id} (hi : owner ∉ vs) (name : Str) (v : Id) :
    Pres vs (setattrOf owner name v) := by
  unfold C16.setattrOf
  repeat' pres_step
  · exact Pres.updClsAttrs hi _
  · exact Pres.updInstSlots hi _

theorem Pres.delattrOf {vs : List Id} {owner : Id} (hi : owner ∉ vs) (name : Str) :
    Pres vs (delattrOf owner name) := by
  unfold C16.delattrOf
  repeat' pres_step
  · exact Pres.updClsAttrs hi _
  · exact Pres.updInstSlots hi _

/-! ### conditional preservation: the state satisfies `P` when the computation starts -/

def PresIf (vs : List Id) (P : St → Prop) (m : M α) : Prop :=
  ∀ s a s', P s → m s = .ok (a, s') → Frame vs s.heap s'.heap

theorem PresIf.of_pres {vs : List Id} {P : St → Prop} {m : M α} (h : Pres vs m) : PresIf vs P m :=
  fun s a s' _ e => h s a s' e

theorem PresIf.to_pres {vs : List Id} {P : St → Prop} {m : M α} (hP : ∀ s, P s) (h : PresIf vs P m) : Pres vs m :=
  fun s a s' e => h s a s' (hP s) e

theorem PresIf.weaken {vs : List Id} {P Q : St → Prop} {m : M α} (hPQ : ∀ s, P s → Q s) (h : PresIf vs Q m) :
    PresIf vs P m :=
  fun s a s' p e => h s a s' (hPQ s p) e

theorem getObj_ok {i : Id} {s s' : St} {o : Obj} (h : getObj i s = .ok (o, s')) : s' = s ∧ s.heap[i]? = some o := by
  unfold C16.getObj at h; split at h
  · rename_i o' ho'; cases h; exact ⟨rfl, ho'⟩
  · cases h

theorem getSt_ok {s s' t : St} (h : getSt s = .ok (t, s')) : s' = s ∧ t = s := by
  unfold C16.getSt at h; cases h; exact ⟨rfl, rfl⟩

theorem PresIf.bind_getObj {vs : List Id} {P : St → Prop} {i : Id} {f : Obj → M β}
    (hf : ∀ o, PresIf vs (fun s => P s ∧ s.heap[i]? = some o) (f o)) : PresIf vs P (getObj i >>= f) := by
  intro s b s'' p h
  obtain ⟨o, s1, h1, h2⟩ := bind_ok.mp h
  obtain ⟨rfl, ho⟩ := getObj_ok h1
  exact hf o s1 b s'' ⟨p, ho⟩ h2

theorem PresIf.bind_getSt {vs : List Id} {P : St → Prop} {f : St → M β}
    (hf : ∀ t, PresIf vs (fun s => P s ∧ t = s) (f t)) : PresIf vs P (getSt >>= f) := by
  intro s b s'' p h
  obtain ⟨t, s1, h1, h2⟩ := bind_ok.mp h
  obtain ⟨rfl, rfl⟩ := getSt_ok h1
  exact hf _ _ b s'' ⟨p, rfl⟩ h2

theorem PresIf.bind_first {vs : List Id} {P : St → Prop} {m : M α} {f : α → M β} (hm : PresIf vs P m)
    (hf : ∀ a, Pres vs (f a)) : PresIf vs P (m >>= f) := by
  intro s b s'' p h
  obtain ⟨a, s1, h1, h2⟩ := bind_ok.mp h
  exact (hm s a s1 p h1).trans (hf a s1 b s'' h2)

/-! ### the handlers -/

/-- the recursive call keeps the frame of whatever stack it is given -/
def RecOK (rec : Rec) : Prop := ∀ vs old new, Pres vs (rec vs old new)

section handlers
variable {cx : Ctx} {rec : Rec} {vs0 vs : List Id} {old : Id}

macro "pres_close" hrec:ident sub:ident hi:ident : tactic => `(tactic| first
  | exact Pres.mono $sub ($hrec _ _ _)
  | exact Pres.setattrOf $hi _ _ | exact Pres.delattrOf $hi _ | exact Pres.getattrOf _ _
  | exact Pres.updDict $hi _ | exact Pres.updClsBases $hi _ | exact Pres.updClsAttrs $hi _
  | exact Pres.updInstSlots $hi _)

theorem Pres.lpSetattr (hrec : RecOK rec) (sub : ∀ i, i ∈ vs0 → i ∈ vs) (hi : old ∉ vs0) (new : Id) (name : Str) :
    Pres vs0 (lpSetattr rec vs old new name) := by
  unfold C16.lpSetattr
  repeat' pres_step
  all_goals pres_close hrec sub hi

theorem Pres.lpDictStep (hrec : RecOK rec) (sub : ∀ i, i ∈ vs0 → i ∈ vs) (hi : old ∉ vs0) (new : Id) (name : Str) :
    Pres vs0 (lpDictStep rec vs old new name) := by
  unfold C16.lpDictStep
  repeat' pres_step
  all_goals pres_close hrec sub hi

theorem Pres.lpDict (hrec : RecOK rec) (sub : ∀ i, i ∈ vs0 → i ∈ vs) (hi : old ∉ vs0) (new : Id) :
    Pres vs0 (lpDict rec vs old new) := by
  unfold C16.lpDict
  repeat' (first | pres_step | apply Pres.forEach)
  all_goals first | pres_close hrec sub hi | exact Pres.lpDictStep hrec sub hi _ _

theorem Pres.lpCells (hrec : RecOK rec) (sub : ∀ i, i ∈ vs0 → i ∈ vs) :
    ∀ as bs, Pres vs0 (lpCells cx rec vs as bs) := by
  intro as
  induction as with
  | nil => intro bs; unfold C16.lpCells; exact Pres.pure' ()
  | cons a as ih =>
    intro bs
    cases bs with
    | nil => unfold C16.lpCells; exact Pres.pure' ()
    | cons b bs =>
      unfold C16.lpCells
      repeat' pres_step
      all_goals first | exact Pres.mono sub (hrec _ _ _) | exact ih _

theorem lpFunctionBody_presIf (hrec : RecOK rec) (sub : ∀ i, i ∈ vs0 → i ∈ vs) (c d dc od nd : Nat) (oc nc : List Id) :
    PresIf vs0 (fun s => ∀ o, s.heap[old]? = some o → o.kind = .func → Wr vs0 s.heap old)
      (lpFunctionBody cx rec vs old c d dc od nd oc nc) := by
  intro s a s' p h
  unfold lpFunctionBody at h
  simp only [bind_eq] at h
  obtain ⟨u, s1, h1, h2⟩ := bind_ok.mp h
  have w : Wr vs0 s.heap old := by
    unfold updFunc at h1
    split at h1
    · rename_i he; exact p _ he rfl
    · cases h1
  refine (updFunc_frame w h1).trans ?_
  have rest : Pres vs0 (M.bind (rec vs od nd) fun _ => M.bind (lpCells cx rec vs oc nc) fun _ => M.pure old) := by
    repeat' pres_step
    · exact Pres.mono sub (hrec _ _ _)
    · exact Pres.lpCells hrec sub _ _
  exact rest s1 a s' h2

theorem lpFunction_presIf (hrec : RecOK rec) (sub : ∀ i, i ∈ vs0 → i ∈ vs) (new : Id) :
    PresIf vs0 (fun s => ∀ o, s.heap[old]? = some o → o.kind = .func → Wr vs0 s.heap old)
      (lpFunction cx rec vs old new) := by
  unfold C16.lpFunction
  apply PresIf.bind_getObj; intro o
  apply PresIf.bind_getObj; intro n
  split
  · apply PresIf.bind_getSt; intro t
    split
    · exact PresIf.of_pres (Pres.pure' _)
    · exact PresIf.weaken (fun s p => p.1.1.1) (lpFunctionBody_presIf hrec sub _ _ _ _ _ _ _)
  · exact PresIf.of_pres (Pres.fail _)

theorem Pres.lpFunction (hrec : RecOK rec) (sub : ∀ i, i ∈ vs0 → i ∈ vs) (hi : old ∉ vs0) (new : Id) :
    Pres vs0 (lpFunction cx rec vs old new) :=
  PresIf.to_pres (fun _ _ _ _ => Or.inl hi) (lpFunction_presIf hrec sub new)

/-- `_livepatch__method` may write a function that is on the visit stack — but only an unprotected one -/
theorem Pres.lpMethod (hrec : RecOK rec) (sub : ∀ i, i ∈ vs0 → i ∈ vs) (old new : Id) :
    Pres vs0 (lpMethod cx rec vs old new) := by
  apply PresIf.to_pres (P := fun _ => True) (fun _ => trivial)
  unfold C16.lpMethod
  apply PresIf.bind_getObj; intro o
  apply PresIf.bind_getObj; intro n
  split
  · rename_i fo so fn sn
    apply PresIf.bind_first
    · apply PresIf.weaken _ (lpFunction_presIf hrec sub fn)
      intro s p of hof _
      refine Or.inr ?_
      rintro ⟨o', ho', _, hnm⟩
      rw [hof] at ho'; cases ho'
      have := hnm (by assumption)
      exact (this old _ p.1.2).1 so rfl
    · intro _; exact Pres.pure' _
  · exact PresIf.of_pres (Pres.fail _)

end handlers

section handlers2
variable {cx : Ctx} {rec : Rec} {vs0 vs : List Id} {old : Id}

theorem Pres.lpBases (hrec : RecOK rec) (sub : ∀ i, i ∈ vs0 → i ∈ vs) (obs : List Id) :
    ∀ nbs, Pres vs0 (lpBases rec vs obs nbs) := by
  intro nbs
  induction nbs with
  | nil => unfold C16.lpBases; exact Pres.pure' _
  | cons nb rest ih =>
    unfold C16.lpBases
    repeat' pres_step
    all_goals first | exact Pres.mono sub (hrec _ _ _) | exact ih

theorem Pres.classBases (hrec : RecOK rec) (sub : ∀ i, i ∈ vs0 → i ∈ vs) (obs nbs : List Id) :
    Pres vs0 (classBases cx rec vs obs nbs) := by
  unfold C16.classBases
  split
  · exact Pres.lpBases hrec sub _ _
  · exact Pres.pure' _

theorem Pres.lpClass (hrec : RecOK rec) (sub : ∀ i, i ∈ vs0 → i ∈ vs) (hi : old ∉ vs0) (new : Id) :
    Pres vs0 (lpClass cx rec vs old new) := by
  unfold C16.lpClass
  repeat' (first | pres_step | apply Pres.forEach)
  all_goals first | pres_close hrec sub hi | exact Pres.lpSetattr hrec sub hi _ _ | exact Pres.classBases hrec sub _ _

theorem Pres.lpSlotStep (hrec : RecOK rec) (sub : ∀ i, i ∈ vs0 → i ∈ vs) (hi : old ∉ vs0) (new : Id) (name : Str) :
    Pres vs0 (lpSlotStep cx rec vs old new name) := by
  unfold C16.lpSlotStep
  repeat' pres_step
  all_goals first | pres_close hrec sub hi | exact Pres.lpSetattr hrec sub hi _ _

theorem Pres.lpObject (hrec : RecOK rec) (sub : ∀ i, i ∈ vs0 → i ∈ vs) (hi : old ∉ vs0) (new : Id) :
    Pres vs0 (lpObject cx rec vs old new) := by
  unfold C16.lpObject
  repeat' (first | pres_step | apply Pres.forEach)
  all_goals first | pres_close hrec sub hi | exact Pres.lpSlotStep hrec sub hi _ _

theorem Pres.lpModule (hrec : RecOK rec) (sub : ∀ i, i ∈ vs0 → i ∈ vs) (old new : Id) :
    Pres vs0 (lpModule rec vs old new) := by
  unfold C16.lpModule
  repeat' pres_step
  all_goals exact Pres.mono sub (hrec _ _ _)

theorem Pres.resolveKind (hrec : RecOK rec) (sub : ∀ i, i ∈ vs0 → i ∈ vs) (old new : Id) (am : Bool) :
    Pres vs0 (resolveKind cx rec vs old new am) := by
  unfold C16.resolveKind
  repeat' pres_step
  all_goals exact Pres.mono sub (hrec _ _ _)

theorem Pres.dispatch (hrec : RecOK rec) (sub : ∀ i, i ∈ vs0 → i ∈ vs) (hi : old ∉ vs0) (new : Id) (am : Bool) :
    Pres vs0 (dispatch cx rec vs old new am) := by
  unfold C16.dispatch
  apply Pres.bind' (Pres.resolveKind hrec sub _ _ _)
  intro k
  split
  · exact Pres.pure' _
  · exact Pres.lpDict hrec sub hi _
  · exact Pres.lpFunction hrec sub hi _
  · exact Pres.lpMethod hrec sub _ _
  · exact Pres.lpClass hrec sub hi _
  · exact Pres.lpModule hrec sub _ _
  · exact Pres.lpObject hrec sub hi _

end handlers2

/-- **The frame theorem.**  `livepatch(old, new, visit_stack=vs)` — whatever the heap, the fuel, the repairs — only
    grows the heap, never changes the kind of an object, and leaves every protected object on `vs` untouched. -/
theorem lp_frame (cx : Ctx) : ∀ (fuel : Nat) (am : Bool) (vs : List Id) (old new : Id), Pres vs (lp cx fuel am vs old new) := by
  intro fuel
  induction fuel with
  | zero => intro am vs old new; unfold lp; exact Pres.fail _
  | succ n ih =>
    intro am vs old new
    unfold lp
    split
    · exact Pres.pure' _
    · split
      · exact Pres.pure' _
      · rename_i hc
        have hi : old ∉ vs := by simpa using hc
        have hrec : RecOK (lp cx n false) := fun vs o nw => ih false vs o nw
        repeat' pres_step
        exact Pres.dispatch hrec (fun i h => List.mem_append_left _ h) hi _ _



/-! ### association lists -/

theorem alookup_aset (k k' : Str) (v : Id) (l : List (Str × Id)) :
    alookup k (aset k' v l) = if k' = k then some v else alookup k l := by
  induction l with
  | nil => simp [aset, alookup]
  | cons p r ih =>
    obtain ⟨a, b⟩ := p
    unfold aset
    by_cases h1 : a = k'
    · subst h1
      simp only [if_true]
      by_cases h2 : a = k
      · simp [alookup, h2]
      · simp [alookup, h2]
    · simp only [h1, if_false]
      by_cases h2 : a = k
      · subst h2
        simp [alookup, Ne.symm h1]
      · simp [alookup, h2, ih]

theorem alookup_adel (k k' : Str) (l : List (Str × Id)) :
    alookup k (adel k' l) = if k' = k then none else alookup k l := by
  induction l with
  | nil => simp [adel, alookup]
  | cons p r ih =>
    obtain ⟨a, b⟩ := p
    unfold adel at ih ⊢
    by_cases h1 : a = k'
    · subst h1
      simp only [List.filter, ne_eq, not_true_eq_false, decide_false]
      rw [ih]
      by_cases h2 : a = k
      · simp [h2]
      · simp [alookup, h2]
    · simp only [List.filter, ne_eq, h1, not_false_eq_true, decide_true]
      by_cases h2 : a = k
      · subst h2
        simp [alookup, Ne.symm h1]
      · simp only [alookup, h2, if_false]
        simpa using ih

theorem hasKey_aset (k k' : Str) (v : Id) (l : List (Str × Id)) :
    hasKey k (aset k' v l) = (decide (k' = k) || hasKey k l) := by
  unfold hasKey; rw [alookup_aset]; by_cases h : k' = k <;> simp [h]

theorem hasKey_adel (k k' : Str) (l : List (Str × Id)) :
    hasKey k (adel k' l) = (!decide (k' = k) && hasKey k l) := by
  unfold hasKey; rw [alookup_adel]; by_cases h : k' = k <;> simp [h]

theorem mem_akeys (k : Str) (l : List (Str × Id)) : k ∈ akeys l ↔ hasKey k l = true := by
  induction l with
  | nil => simp [akeys, hasKey, alookup]
  | cons p r ih =>
    obtain ⟨a, b⟩ := p
    unfold akeys at ih ⊢
    unfold hasKey at ih ⊢
    by_cases h : a = k
    · simp [alookup, h]
    · simp [alookup, h, ih, Ne.symm h]

/-- key set after the two set-difference loops of `_livepatch__dict` / `_livepatch__class` -/
def addKeys (eo en : List (Str × Id)) : List (Str × Id) :=
  ((akeys en).filter (fun k => !hasKey k eo)).foldl (fun e k => aset k ((alookup k en).getD 0) e) eo

def delKeys (eo en : List (Str × Id)) (e : List (Str × Id)) : List (Str × Id) :=
  ((akeys eo).filter (fun k => !hasKey k en)).foldl (fun e k => adel k e) e

theorem hasKey_foldl_aset (k : Str) (g : Str → Id) (ks : List Str) (e : List (Str × Id)) :
    hasKey k (ks.foldl (fun e k => aset k (g k) e) e) = (decide (k ∈ ks) || hasKey k e) := by
  induction ks generalizing e with
  | nil => simp
  | cons a r ih =>
    simp only [List.foldl_cons]
    rw [ih, hasKey_aset]
    by_cases h : a = k
    · simp [h]
    · simp [h, Ne.symm h]

theorem hasKey_foldl_adel (k : Str) (ks : List Str) (e : List (Str × Id)) :
    hasKey k (ks.foldl (fun e k => adel k e) e) = (!decide (k ∈ ks) && hasKey k e) := by
  induction ks generalizing e with
  | nil => simp
  | cons a r ih =>
    simp only [List.foldl_cons]
    rw [ih, hasKey_adel]
    by_cases h : a = k
    · simp [h]
    · simp [h, Ne.symm h]

theorem hasKey_sync (k : Str) (eo en : List (Str × Id)) :
    hasKey k (delKeys eo en (addKeys eo en)) = hasKey k en := by
  unfold delKeys addKeys
  rw [hasKey_foldl_adel, hasKey_foldl_aset]
  have h1 : decide (k ∈ (akeys en).filter (fun k => !hasKey k eo)) = (hasKey k en && !hasKey k eo) := by
    by_cases a : hasKey k en = true <;> by_cases b : hasKey k eo = true <;>
      simp [List.mem_filter, mem_akeys, a, b]
  have h2 : decide (k ∈ (akeys eo).filter (fun k => !hasKey k en)) = (hasKey k eo && !hasKey k en) := by
    by_cases a : hasKey k en = true <;> by_cases b : hasKey k eo = true <;>
      simp [List.mem_filter, mem_akeys, a, b]
  rw [h1, h2]
  cases hasKey k en <;> cases hasKey k eo <;> rfl


/-! ### `_livepatch__dict`: afterwards the old dict has exactly the new dict's keys -/

theorem updDict_ok {i : Id} {f} {s s' : St} {a : Unit} (h : updDict i f s = .ok (a, s')) :
    ∃ e, s.heap[i]? = some (.dict e) ∧ s' = { s with heap := s.heap.set i (.dict (f e)) } := by
  unfold updDict at h
  split at h
  · rename_i e he; cases h; exact ⟨e, he, rfl⟩
  · cases h

theorem getElem?_set_self' {h : List Obj} {i : Id} {o o' : Obj} (ho : h[i]? = some o) : (h.set i o')[i]? = some o' := by
  have hlt : i < h.length := by
    rcases Nat.lt_or_ge i h.length with hl | hl
    · exact hl
    · rw [List.getElem?_eq_none hl] at ho; cases ho
  simp [hlt]

theorem forEach_updDict (old : Id) (g : Str → List (Str × Id) → List (Str × Id)) :
    ∀ (ks : List Str) (s : St) (e : List (Str × Id)), s.heap[old]? = some (.dict e) →
      ∀ s', forEach (fun k => updDict old (g k)) ks s = .ok ((), s') →
        s'.heap[old]? = some (.dict (ks.foldl (fun e k => g k e) e)) ∧ (∀ j, j ≠ old → s'.heap[j]? = s.heap[j]?) := by
  intro ks
  induction ks with
  | nil =>
    intro s e he s' h
    unfold forEach at h
    obtain ⟨_, rfl⟩ := pure_ok.mp h
    exact ⟨he, fun _ _ => rfl⟩
  | cons k ks ih =>
    intro s e he s' h
    unfold forEach at h
    simp only [bind_eq] at h
    obtain ⟨u, s1, h1, h2⟩ := bind_ok.mp h
    obtain ⟨e', he', rfl⟩ := updDict_ok h1
    rw [he] at he'; cases he'
    have := ih _ (g k e) (by simpa using getElem?_set_self' he) s' h2
    refine ⟨this.1, fun j hj => ?_⟩
    rw [this.2 j hj]
    simp [List.getElem?_set_ne (Ne.symm hj)]

theorem forEach_inv {I : St → Prop} {f : α → M Unit} (hf : ∀ x s s', I s → f x s = .ok ((), s') → I s') :
    ∀ (xs : List α) (s s' : St), I s → forEach f xs s = .ok ((), s') → I s' := by
  intro xs
  induction xs with
  | nil =>
    intro s s' hi h
    unfold forEach at h
    obtain ⟨_, rfl⟩ := pure_ok.mp h
    exact hi
  | cons x xs ih =>
    intro s s' hi h
    unfold forEach at h
    simp only [bind_eq] at h
    obtain ⟨u, s1, h1, h2⟩ := bind_ok.mp h
    exact ih s1 s' (hf x s s1 hi h1) h2

/-- `old` is a dict with the key set of `en` -/
def DictKeys (old : Id) (en : List (Str × Id)) (s : St) : Prop :=
  ∃ e, s.heap[old]? = some (.dict e) ∧ ∀ k, hasKey k e = hasKey k en

theorem prot_dict {h : List Obj} {i : Id} {e} (he : h[i]? = some (.dict e)) : Prot h i :=
  ⟨_, he, by simp [Obj.kind], by simp [Obj.kind]⟩

theorem lpDictStep_keys {rec : Rec} {vs : List Id} {old new : Id} (hrec : RecOK rec) (hin : old ∈ vs)
    (en : List (Str × Id)) (name : Str) (s s' : St) (hk : DictKeys old en s)
    (h : lpDictStep rec vs old new name s = .ok ((), s')) : DictKeys old en s' := by
  obtain ⟨e, he, hke⟩ := hk
  unfold lpDictStep at h
  simp only [bind_eq, pure_eq] at h
  obtain ⟨o, s1, h1, h2⟩ := bind_ok.mp h
  obtain ⟨rfl, ho⟩ := getObj_ok h1
  rw [he] at ho; cases ho
  obtain ⟨n, s2, h3, h4⟩ := bind_ok.mp h2
  obtain ⟨rfl, hn⟩ := getObj_ok h3
  cases n with
  | dict en' =>
    simp only at h4
    cases hov : alookup name e with
    | none => simp only [hov] at h4; exact (fail_ok.mp h4).elim
    | some ov =>
      cases hnv : alookup name en' with
      | none => simp only [hov, hnv] at h4; exact (fail_ok.mp h4).elim
      | some nv =>
        simp only [hov, hnv] at h4
        obtain ⟨r, s3, h5, h6⟩ := bind_ok.mp h4
        have F := hrec vs ov nv _ _ _ h5
        have keep : s3.heap[old]? = some (.dict e) := by rw [F.keep old hin (prot_dict he)]; exact he
        split at h6
        · obtain ⟨_, rfl⟩ := pure_ok.mp h6
          exact ⟨e, keep, hke⟩
        · obtain ⟨e', he', rfl⟩ := updDict_ok h6
          rw [keep] at he'; cases he'
          refine ⟨aset name r e, by simpa using getElem?_set_self' keep, fun k => ?_⟩
          rw [hasKey_aset, ← hke k]
          by_cases hnk : name = k
          · subst hnk; simp [hasKey, hov]
          · simp [hnk]
  | _ => exact (fail_ok.mp h4).elim

/-- **Names.**  Whatever the heap and whatever the nested calls do: when `_livepatch__dict(old, new)` returns (it runs
    with `old` on the visit stack, as `livepatch` calls it), it returns `old`, and `old` is a dict whose key set is the
    key set `new` had on entry — deleted names are gone, new names are there. -/
theorem lpDict_keys {rec : Rec} {vs : List Id} {old new : Id} (hrec : RecOK rec) (hin : old ∈ vs)
    {s s' : St} {r : Id} {en : List (Str × Id)} (hn : s.heap[new]? = some (.dict en))
    (h : lpDict rec vs old new s = .ok (r, s')) :
    r = old ∧ ∃ e', s'.heap[old]? = some (.dict e') ∧ ∀ k, hasKey k e' = hasKey k en := by
  unfold lpDict at h
  simp only [bind_eq, pure_eq] at h
  obtain ⟨o, s1, h1, h2⟩ := bind_ok.mp h
  obtain ⟨rfl, ho⟩ := getObj_ok h1
  obtain ⟨n, s2, h3, h4⟩ := bind_ok.mp h2
  obtain ⟨rfl, hn'⟩ := getObj_ok h3
  rw [hn] at hn'; cases hn'
  cases o with
  | dict eo =>
    simp only at h4
    obtain ⟨u1, s3, h5, h6⟩ := bind_ok.mp h4
    obtain ⟨u2, s4, h7, h8⟩ := bind_ok.mp h6
    obtain ⟨u3, s5, h9, h10⟩ := bind_ok.mp h8
    obtain ⟨hr, hs⟩ := pure_ok.mp h10
    subst hs
    refine ⟨hr, ?_⟩
    have p1 := forEach_updDict old (fun k => aset k ((alookup k en).getD 0)) _ s2 eo ho s3 h5
    have p2 := forEach_updDict old (fun k => adel k) _ s3 _ p1.1 s4 h7
    have inv4 : DictKeys old en s4 := ⟨_, p2.1, fun k => hasKey_sync k eo en⟩
    exact forEach_inv (fun x t t' => lpDictStep_keys hrec hin en x t t') _ s4 _ inv4 h9
  | _ => exact (fail_ok.mp h4).elim



theorem getObj_eq {i : Id} {s : St} {o : Obj} (h : s.heap[i]? = some o) : getObj i s = .ok (o, s) := by
  unfold getObj; rw [h]

theorem sameType_func {dyn : List (Id × DynTy)} {h : List Obj} {a b : Id} {n m c d dc di ce fv n' m' c' d' dc' di' ce' fv'}
    (ha : h[a]? = some (.func n m c d dc di ce fv)) (hb : h[b]? = some (.func n' m' c' d' dc' di' ce' fv')) :
    sameType dyn h a b = true := by
  unfold sameType; rw [ha, hb]; rfl

theorem sameType_dict {dyn : List (Id × DynTy)} {h : List Obj} {a b : Id} {e e'}
    (ha : h[a]? = some (.dict e)) (hb : h[b]? = some (.dict e')) :
    sameType dyn h a b = (dynOf dyn a == dynOf dyn b) := by
  unfold sameType; rw [ha, hb]

theorem sameType_cls {dyn : List (Id × DynTy)} {h : List Obj} {a b : Id} {n m sl bs aa n' m' sl' bs' aa'}
    (ha : h[a]? = some (.cls n m sl bs aa)) (hb : h[b]? = some (.cls n' m' sl' bs' aa')) :
    sameType dyn h a b = (dynOf dyn a == dynOf dyn b) := by
  unfold sameType; rw [ha, hb]

theorem resolveKind_dict {cx : Ctx} {rec : Rec} {vs : List Id} {D N : Id} {s : St} {ed en : List (Str × Id)}
    (hD : s.heap[D]? = some (.dict ed)) (hN : s.heap[N]? = some (.dict en))
    (hdyn : dynOf cx.dyn D = dynOf cx.dyn N) :
    resolveKind cx rec vs D N false s = .ok (some .dict, s) := by
  unfold resolveKind
  simp [M.bind, getObj_eq hD, getObj_eq hN, getSt, defModule, hN, hD, sameType_dict hD hN, hdyn, Obj.kind, M.pure]

theorem cacheGet_miss {k : Id × Id} {s : St} (h : s.cache.find? (fun e => e.1 = k) = none) :
    cacheGet k s = .ok (none, s) := by
  unfold cacheGet; rw [h]; rfl

/-- **C16_names** at the level of `livepatch(old_dict, new_dict)`: for every heap, fuel and set of repairs, if the call
    is not cut short (not on the visit stack, not cached) and returns, the old dict has exactly the new dict's keys. -/
theorem lp_dict_keys {cx : Ctx} {fuel : Nat} {vs : List Id} {D N : Id} {s s' : St} {r : Id}
    {ed en : List (Str × Id)} (hne : D ≠ N) (hvs : D ∉ vs) (hc : s.cache.find? (fun e => e.1 = (D, N)) = none)
    (hD : s.heap[D]? = some (.dict ed)) (hN : s.heap[N]? = some (.dict en))
    (hdyn : dynOf cx.dyn D = dynOf cx.dyn N)
    (h : lp cx fuel false vs D N s = .ok (r, s')) :
    r = D ∧ ∃ e', s'.heap[D]? = some (.dict e') ∧ ∀ k, hasKey k e' = hasKey k en := by
  cases fuel with
  | zero => unfold lp at h; exact (fail_ok.mp h).elim
  | succ n =>
    unfold lp at h
    have hc' : vs.contains D = false := by simpa using hvs
    simp only [hne, if_false, hc', bind_eq, pure_eq, Bool.false_eq_true] at h
    obtain ⟨c, s1, h1, h2⟩ := bind_ok.mp h
    rw [cacheGet_miss hc] at h1
    cases h1
    simp only at h2
    obtain ⟨r1, s2, h3, h4⟩ := bind_ok.mp h2
    obtain ⟨u, s3, h5, h6⟩ := bind_ok.mp h4
    obtain ⟨hr, hs⟩ := pure_ok.mp h6
    subst hs hr
    unfold cachePut at h5
    cases h5
    unfold dispatch at h3
    simp only [bind_eq, pure_eq] at h3
    obtain ⟨k, s4, h7, h8⟩ := bind_ok.mp h3
    rw [resolveKind_dict hD hN hdyn] at h7
    cases h7
    simp only at h8
    exact lpDict_keys (s' := s2) (fun vs o nw => lp_frame cx n false vs o nw) (List.mem_append_right _ (List.mem_singleton.mpr rfl)) hN h8


theorem resolveKind_module {cx : Ctx} {rec : Rec} {vs : List Id} {Mo Mn D N : Id} {s : St}
    (hMo : s.heap[Mo]? = some (.module D)) (hMn : s.heap[Mn]? = some (.module N)) :
    resolveKind cx rec vs Mo Mn true s = .ok (some .module, s) := by
  unfold resolveKind
  simp [M.bind, getObj_eq hMo, getObj_eq hMn, getSt, defModule, hMn, hMo, M.pure]

theorem prot_module {h : List Obj} {i d : Id} (he : h[i]? = some (.module d)) : Prot h i :=
  ⟨_, he, by simp [Obj.kind], by simp [Obj.kind]⟩

/-- the top-level call of `_xreload_module`: `livepatch(module, new_mod, name, assume_type=ModuleType)` -/
theorem lp_module_names {cx : Ctx} {fuel : Nat} {Mo Mn D N : Id} {s s' : St} {r : Id} {ed en : List (Str × Id)}
    (hM : Mo ≠ Mn) (hne : D ≠ N) (hc : s.cache = [])
    (hMo : s.heap[Mo]? = some (.module D)) (hMn : s.heap[Mn]? = some (.module N))
    (hD : s.heap[D]? = some (.dict ed)) (hN : s.heap[N]? = some (.dict en))
    (hdyn : dynOf cx.dyn D = dynOf cx.dyn N)
    (h : lp cx fuel true [] Mo Mn s = .ok (r, s')) :
    r = Mo ∧ s'.heap[Mo]? = some (.module D) ∧
      ∃ e', s'.heap[D]? = some (.dict e') ∧ ∀ k, hasKey k e' = hasKey k en := by
  cases fuel with
  | zero => unfold lp at h; exact (fail_ok.mp h).elim
  | succ n =>
    unfold lp at h
    simp only [hM, if_false, List.contains_nil, bind_eq, pure_eq, Bool.false_eq_true] at h
    obtain ⟨c, s1, h1, h2⟩ := bind_ok.mp h
    rw [cacheGet_miss (by rw [hc]; rfl)] at h1
    cases h1
    simp only at h2
    obtain ⟨r1, s2, h3, h4⟩ := bind_ok.mp h2
    obtain ⟨u, s3, h5, h6⟩ := bind_ok.mp h4
    obtain ⟨hr, hs⟩ := pure_ok.mp h6
    subst hs hr
    unfold cachePut at h5
    cases h5
    unfold dispatch at h3
    simp only [bind_eq, pure_eq] at h3
    obtain ⟨k, s4, h7, h8⟩ := bind_ok.mp h3
    rw [resolveKind_module hMo hMn] at h7
    cases h7
    simp only at h8
    unfold lpModule at h8
    simp only [bind_eq, pure_eq] at h8
    obtain ⟨o, s5, h9, h10⟩ := bind_ok.mp h8
    rw [getObj_eq hMo] at h9; cases h9
    obtain ⟨nn, s6, h11, h12⟩ := bind_ok.mp h10
    rw [getObj_eq hMn] at h11; cases h11
    simp only at h12
    obtain ⟨rd, s7, h13, h14⟩ := bind_ok.mp h12
    have hDM : D ∉ ([] ++ [Mo] : List Id) := by
      simp only [List.nil_append, List.mem_singleton]
      intro e; subst e; rw [hMo] at hD; cases hD
    have key := lp_dict_keys hne hDM (by rw [hc]; rfl) hD hN hdyn h13
    have Fd := lp_frame cx n false ([] ++ [Mo]) D N _ _ _ h13
    have keepM : s7.heap[Mo]? = some (.module D) := by
      rw [Fd.keep Mo (by simp) (prot_module hMo)]; exact hMo
    rw [key.1] at h14
    simp only [if_true] at h14
    obtain ⟨hr, hs⟩ := pure_ok.mp h14
    subst hs
    exact ⟨hr, keepM, key.2⟩


/-! ### helpers for the property theorems -/

theorem aset_aset_restore (k : Str) (v m : Id) (l : List (Str × Id)) (h : alookup k l = some m) :
    aset k m (aset k v l) = l := by
  induction l with
  | nil => simp [alookup] at h
  | cons p r ih =>
    obtain ⟨a, b⟩ := p
    unfold alookup at h
    by_cases e : a = k
    · subst e
      simp only [if_true] at h
      cases h
      simp [aset]
    · simp only [e, if_false] at h
      simp [aset, e, ih h]

theorem adel_aset_restore (k : Str) (v : Id) (l : List (Str × Id)) (h : alookup k l = none) :
    adel k (aset k v l) = l := by
  induction l with
  | nil => simp [aset, adel]
  | cons p r ih =>
    obtain ⟨a, b⟩ := p
    unfold alookup at h
    by_cases e : a = k
    · simp [e] at h
    · simp only [e, if_false] at h
      have := ih h
      unfold adel at this ⊢
      simp only [aset, e, if_false, List.filter, ne_eq, not_false_eq_true, decide_true]
      congr 1

theorem restore_aset (k : Str) (v : Id) (l : List (Str × Id)) : restore k (alookup k l) (aset k v l) = l := by
  unfold restore
  cases h : alookup k l with
  | none => exact adel_aset_restore k v l h
  | some m => exact aset_aset_restore k v m l h

/-- the new object is defined by the module being reloaded (or its origin is unknown / no module given) -/
def sameModule (cx : Ctx) (m' : Option Str) : Bool := !(cx.modname.isSome && m'.isSome && m' != cx.modname)

/-- `livepatch` may patch `old` (of module `m`) with `new` (of module `m'`) in place: the new object belongs to the
    module being reloaded and — with repair D52 — so does the old one -/
def patchable (cx : Ctx) (m m' : Option Str) : Bool := sameModule cx m' && (!cx.fx.d52 || sameModule cx m)

theorem resolveKind_func {cx : Ctx} {rec : Rec} {vs : List Id} {fo fn : Id} {s : St}
    {n m c d dc di ce fv n' m' c' d' dc' di' ce' fv'}
    (hfo : s.heap[fo]? = some (.func n m c d dc di ce fv)) (hfn : s.heap[fn]? = some (.func n' m' c' d' dc' di' ce' fv')) :
    resolveKind cx rec vs fo fn false s = .ok (if patchable cx m m' then some .func else none, s) := by
  have hdn : defModule s.heap fn = m' := by unfold defModule; rw [hfn]
  have hdo : defModule s.heap fo = m := by unfold defModule; rw [hfo]
  unfold resolveKind patchable sameModule
  simp only [bind_eq, pure_eq, M.bind, getObj_eq hfo, getObj_eq hfn, getSt, hdn, hdo, sameType_func hfo hfn, Obj.kind]
  cases hA : (cx.modname.isSome && m'.isSome && m' != cx.modname) <;>
    cases hB : (cx.modname.isSome && m.isSome && m != cx.modname) <;>
    cases h52 : cx.fx.d52 <;> simp <;> rfl

theorem updFunc_ok {i : Id} {c d dc : Nat} {s s' : St} {a : Unit} (h : updFunc i c d dc s = .ok (a, s')) :
    ∃ n m c0 d0 dc0 di ce fv, s.heap[i]? = some (.func n m c0 d0 dc0 di ce fv) ∧
      s' = { s with heap := s.heap.set i (.func n m c d dc di ce fv) } := by
  unfold updFunc at h
  split at h
  · rename_i n m c0 d0 dc0 di ce fv he; cases h; exact ⟨n, m, c0, d0, dc0, di, ce, fv, he, rfl⟩
  · cases h

theorem prot_func {h : List Obj} {i : Id} {n m c d dc di ce fv} (he : h[i]? = some (.func n m c d dc di ce fv))
    (nm : NoMethRef h i) : Prot h i :=
  ⟨_, he, by simp [Obj.kind], fun _ => nm⟩

theorem updClsAttrs_ok {i : Id} {f} {s s' : St} {u : Unit} (h : updClsAttrs i f s = .ok (u, s')) :
    ∃ n m sl b a, s.heap[i]? = some (.cls n m sl b a) ∧ s' = { s with heap := s.heap.set i (.cls n m sl b (f a)) } := by
  unfold updClsAttrs at h
  split at h
  · rename_i n m sl b a he; cases h; exact ⟨n, m, sl, b, a, he, rfl⟩
  · cases h

theorem updClsBases_ok {i : Id} {bs} {s s' : St} {u : Unit} (h : updClsBases i bs s = .ok (u, s')) :
    ∃ n m sl b a, s.heap[i]? = some (.cls n m sl b a) ∧ s' = { s with heap := s.heap.set i (.cls n m sl bs a) } := by
  unfold updClsBases at h
  split at h
  · rename_i n m sl b a he; cases h; exact ⟨n, m, sl, b, a, he, rfl⟩
  · cases h

theorem setattrOf_cls {old : Id} {name : Str} {v : Id} {s s' : St} {n m sl b a}
    (hco : s.heap[old]? = some (.cls n m sl b a)) (h : setattrOf old name v s = .ok ((), s')) :
    s'.heap[old]? = some (.cls n m sl b (aset name v a)) := by
  unfold setattrOf at h
  simp only [bind_eq] at h
  obtain ⟨o, s1, h1, h2⟩ := bind_ok.mp h
  rw [getObj_eq hco] at h1; cases h1
  simp only at h2
  split at h2
  · exact (fail_ok.mp h2).elim
  · obtain ⟨n0, m0, sl0, b0, a0, he, rfl⟩ := updClsAttrs_ok h2
    rw [hco] at he; cases he
    exact getElem?_set_self' hco

theorem delattrOf_cls {old : Id} {name : Str} {s s' : St} {n m sl b a}
    (hco : s.heap[old]? = some (.cls n m sl b a)) (h : delattrOf old name s = .ok ((), s')) :
    s'.heap[old]? = some (.cls n m sl b (adel name a)) := by
  unfold delattrOf at h
  simp only [bind_eq] at h
  obtain ⟨o, s1, h1, h2⟩ := bind_ok.mp h
  rw [getObj_eq hco] at h1; cases h1
  simp only at h2
  split at h2
  · exact (fail_ok.mp h2).elim
  · obtain ⟨n0, m0, sl0, b0, a0, he, rfl⟩ := updClsAttrs_ok h2
    rw [hco] at he; cases he
    exact getElem?_set_self' hco

/-- a loop of attribute writes on one class folds over its attribute table -/
theorem forEach_cls {old : Id} {n m sl b} (f : Str → M Unit) (g : Str → List (Str × Id) → List (Str × Id))
    (hf : ∀ k s s' a, s.heap[old]? = some (.cls n m sl b a) → f k s = .ok ((), s') →
            s'.heap[old]? = some (.cls n m sl b (g k a))) :
    ∀ (ks : List Str) (s s' : St) (a : List (Str × Id)), s.heap[old]? = some (.cls n m sl b a) →
      forEach f ks s = .ok ((), s') → s'.heap[old]? = some (.cls n m sl b (ks.foldl (fun e k => g k e) a)) := by
  intro ks
  induction ks with
  | nil =>
    intro s s' a ha h
    unfold forEach at h
    obtain ⟨_, rfl⟩ := pure_ok.mp h
    exact ha
  | cons k ks ih =>
    intro s s' a ha h
    unfold forEach at h
    simp only [bind_eq] at h
    obtain ⟨u, s1, h1, h2⟩ := bind_ok.mp h
    exact ih s1 s' _ (hf k s s1 a ha h1) h2

theorem mem_insertSorted (x k : Str) (l : List Str) : x ∈ insertSorted k l ↔ x = k ∨ x ∈ l := by
  induction l with
  | nil => simp [insertSorted]
  | cons a r ih =>
    unfold insertSorted
    split
    · simp
    · simp [ih]; constructor
      · rintro (h | h | h)
        · exact Or.inr (Or.inl h)
        · exact Or.inl h
        · exact Or.inr (Or.inr h)
      · rintro (h | h | h)
        · exact Or.inr (Or.inl h)
        · exact Or.inl h
        · exact Or.inr (Or.inr h)

theorem mem_sortStrs (x : Str) (l : List Str) : x ∈ sortStrs l ↔ x ∈ l := by
  induction l with
  | nil => simp [sortStrs]
  | cons a r ih => unfold sortStrs; rw [mem_insertSorted, ih]; simp

theorem forEach_inv_mem {I : St → Prop} {f : α → M Unit} :
    ∀ (xs : List α) (_ : ∀ x, x ∈ xs → ∀ s s', I s → f x s = .ok ((), s') → I s') (s s' : St),
      I s → forEach f xs s = .ok ((), s') → I s' := by
  intro xs
  induction xs with
  | nil =>
    intro _ s s' hi h
    unfold forEach at h
    obtain ⟨_, rfl⟩ := pure_ok.mp h
    exact hi
  | cons x xs ih =>
    intro hf s s' hi h
    unfold forEach at h
    simp only [bind_eq] at h
    obtain ⟨u, s1, h1, h2⟩ := bind_ok.mp h
    exact ih (fun y hy => hf y (List.mem_cons_of_mem _ hy)) s1 s' (hf x (List.mem_cons_self) s s1 hi h1) h2

theorem prot_cls {h : List Obj} {i : Id} {n m sl b a} (he : h[i]? = some (.cls n m sl b a)) : Prot h i :=
  ⟨_, he, by simp [Obj.kind], by simp [Obj.kind]⟩

/-- invariant of the attribute loop of `_livepatch__class`: the class keeps name, module, slots and the bases just
    installed, and its attribute table has the key set `T` -/
def ClsInv (old : Id) (n : Str) (m : Option Str) (sl : Option (List Str)) (bs : List Id) (T : Str → Bool) (s : St) : Prop :=
  ∃ a, s.heap[old]? = some (.cls n m sl bs a) ∧ ∀ k, hasKey k a = T k

theorem getattrOf_cls_none {old : Id} {name : Str} {s s' : St} {n m sl b a}
    (hco : s.heap[old]? = some (.cls n m sl b a)) (h : getattrOf old name s = .ok (none, s')) : hasKey name a = false := by
  unfold getattrOf at h
  simp only [bind_eq, pure_eq] at h
  obtain ⟨o, s1, h1, h2⟩ := bind_ok.mp h
  rw [getObj_eq hco] at h1; cases h1
  simp only at h2
  cases hl : alookup name a with
  | none => simp [hasKey, hl]
  | some raw =>
    simp only [hl] at h2
    obtain ⟨rr, s2, h3, h4⟩ := bind_ok.mp h2
    cases rr with
    | cmeth f =>
      simp only at h4
      obtain ⟨mm, s3, h5, h6⟩ := bind_ok.mp h4
      obtain ⟨e, _⟩ := pure_ok.mp h6
      cases e
    | _ =>
      simp only at h4
      obtain ⟨e, _⟩ := pure_ok.mp h4
      cases e

theorem lpSetattr_inv {rec : Rec} {vs : List Id} {old new : Id} {name : Str} {n m sl bs} {T : Str → Bool}
    (hrec : RecOK rec) (hin : old ∈ vs) (hname : T name = true) (s s' : St)
    (hi : ClsInv old n m sl bs T s) (h : lpSetattr rec vs old new name s = .ok ((), s')) : ClsInv old n m sl bs T s' := by
  obtain ⟨a, ha, hk⟩ := hi
  have setk : ∀ v k, hasKey k (aset name v a) = T k := by
    intro v k
    rw [hasKey_aset, hk k]
    by_cases e : name = k
    · subst e; simp [hname]
    · simp [e]
  unfold lpSetattr at h
  simp only [bind_eq, pure_eq] at h
  obtain ⟨nv, s1, h1, h2⟩ := bind_ok.mp h
  have F1 := Pres.getattrOf (vs := vs) new name s nv s1 h1
  have ha1 : s1.heap[old]? = some (.cls n m sl bs a) := by rw [F1.keep old hin (prot_cls ha)]; exact ha
  cases nv with
  | none => exact (fail_ok.mp h2).elim
  | some newval =>
    simp only at h2
    obtain ⟨t, s2, h3, h4⟩ := bind_ok.mp h2
    obtain ⟨e1, e2⟩ := getSt_ok h3
    rw [e1] at h4; clear h3 e1 e2
    split at h4
    · exact (fail_ok.mp h4).elim
    · obtain ⟨ov, s3, h5, h6⟩ := bind_ok.mp h4
      have F2 := Pres.getattrOf (vs := vs) old name s1 ov s3 h5
      have ha3 : s3.heap[old]? = some (.cls n m sl bs a) := by rw [F2.keep old hin (prot_cls ha1)]; exact ha1
      cases ov with
      | none =>
        simp only at h6
        exact ⟨_, setattrOf_cls ha3 h6, setk _⟩
      | some oldval =>
        simp only at h6
        split at h6
        · obtain ⟨_, rfl⟩ := pure_ok.mp h6
          exact ⟨a, ha3, hk⟩
        · obtain ⟨r, s4, h7, h8⟩ := bind_ok.mp h6
          have F3 := hrec vs oldval newval s3 r s4 h7
          have ha4 : s4.heap[old]? = some (.cls n m sl bs a) := by rw [F3.keep old hin (prot_cls ha3)]; exact ha3
          split at h8
          · obtain ⟨_, rfl⟩ := pure_ok.mp h8
            exact ⟨a, ha4, hk⟩
          · exact ⟨_, setattrOf_cls ha4 h8, setk _⟩

/-- `__dict__` / `__weakref__` -/
def special (k : Str) : Bool := k == dictKey || k == weakrefKey

/-- the attribute names a livepatched class ends up with: those of the new class — except that with repair D44 the
    two layout descriptors stay as they were -/
def clsTarget (fx : Fixes) (a a' : List (Str × Id)) (k : Str) : Bool :=
  if fx.d44 && special k then hasKey k a else hasKey k a'

def layoutFilter (l : List (Str × Id)) : List (Str × Id) := l.filter (fun p => p.1 != dictKey && p.1 != weakrefKey)

theorem hasKey_layoutFilter (k : Str) (l : List (Str × Id)) : hasKey k (layoutFilter l) = (!special k && hasKey k l) := by
  induction l with
  | nil => simp [layoutFilter, hasKey, alookup]
  | cons p r ih =>
    obtain ⟨x, v⟩ := p
    unfold layoutFilter at ih ⊢
    unfold hasKey at ih ⊢
    by_cases hx : (x != dictKey && x != weakrefKey) = true
    · simp only [List.filter, hx]
      by_cases e : x = k
      · subst e
        have : special x = false := by
          unfold special; simp only [bne_iff_ne, ne_eq, Bool.and_eq_true, decide_eq_true_eq] at hx
          simp [hx.1, hx.2]
        simp [alookup, this]
      · simp only [alookup, e, if_false]; exact ih
    · have hx' : (x != dictKey && x != weakrefKey) = false := by simpa using hx
      simp only [List.filter, hx']
      by_cases e : x = k
      · subst e
        have : special x = true := by
          unfold special
          cases h1 : (x == dictKey) <;> cases h2 : (x == weakrefKey) <;> simp_all [bne]
        simp [alookup, this, ih]
      · simp only [alookup, e, if_false]; exact ih

theorem cls_keys_sync (fx : Fixes) (a a' : List (Str × Id)) (k : Str) :
    hasKey k
      (((akeys (if fx.d44 then layoutFilter a' else a')).filter
          (fun k => !hasKey k (if fx.d44 then layoutFilter a else a))).foldl
        (fun e k => aset k ((alookup k (if fx.d44 then layoutFilter a' else a')).getD 0) e)
        (((akeys (if fx.d44 then layoutFilter a else a)).filter
            (fun k => !hasKey k (if fx.d44 then layoutFilter a' else a'))).foldl (fun e k => adel k e) a))
      = clsTarget fx a a' k := by
  rw [hasKey_foldl_aset, hasKey_foldl_adel]
  unfold clsTarget
  cases hd : fx.d44
  · simp only [Bool.false_eq_true, if_false, Bool.false_and]
    by_cases x : hasKey k a = true <;> by_cases y : hasKey k a' = true <;>
      simp [List.mem_filter, mem_akeys, x, y]
  · simp only [if_true, Bool.true_and]
    by_cases z : special k = true <;> by_cases x : hasKey k a = true <;> by_cases y : hasKey k a' = true <;>
      simp [List.mem_filter, mem_akeys, hasKey_layoutFilter, x, y, z]

theorem resolveKind_cls {cx : Ctx} {rec : Rec} {vs : List Id} {co cn : Id} {s : St}
    {n m sl b a n' m' sl' b' a'}
    (hco : s.heap[co]? = some (.cls n m sl b a)) (hcn : s.heap[cn]? = some (.cls n' m' sl' b' a'))
    (hdyn : dynOf cx.dyn co = dynOf cx.dyn cn) :
    resolveKind cx rec vs co cn false s = .ok (if patchable cx m m' then some .cls else none, s) := by
  have hdn : defModule s.heap cn = m' := by unfold defModule; rw [hcn]
  have hdo : defModule s.heap co = m := by unfold defModule; rw [hco]
  unfold resolveKind patchable sameModule
  simp only [bind_eq, pure_eq, M.bind, getObj_eq hco, getObj_eq hcn, getSt, hdn, hdo, sameType_cls hco hcn, hdyn, Obj.kind]
  cases hA : (cx.modname.isSome && m'.isSome && m' != cx.modname) <;>
    cases hB : (cx.modname.isSome && m.isSome && m != cx.modname) <;>
    cases h52 : cx.fx.d52 <;> simp <;> rfl

theorem docKey_not_special : special docKey = false := by decide

end Pfb.C16
