/-
  Pfb.C14.Props — property theorems for C14 (enabling and disabling the auto-importer is
  reversible and idempotent) over the model `Pfb.Hooks.Model`.

  All theorems quantify over *every* list of operations (enable with or without the
  even_if_previously_errored flag and with any `_enable_*` step raising, disable, load/unload/reload
  of the extension, hook invocations with any outcome) — induction over the list through the
  invariant `Pfb.Hooks.Inv`, no enumeration — and over every starting shell that pyflyby has not
  touched (`Start`: the fresh shell, or a shell whose joinpoints already hold somebody else's values).

  `cfg.resetDisabler` selects the variant of `_enable_reset_hook`: `false` is the unchanged tree
  (D3: the reset transformer is appended to `input_transformers_cleanup` without a disabler),
  `true` the tree with fixes/C14-D3.diff.  The full statements need `resetDisabler = true`;
  the `_partial` ones hold for both variants and say exactly what survives of the property;
  the `Witness` section proves the negation of the full statements on the unchanged variant.

  `Op.freshImporter` (embedded shells, where every API call reaches a new AutoImporter) is excluded
  by `NoFresh`; what goes wrong there is the last witness.

  The model is tied to the code by harness/c14.py (real IPython shell, op sequences, snapshots).
-/
import Pfb.Hooks.Lemmas
namespace Pfb.C14
open Pfb.Hooks

/-- no operation of the run comes from an embedded shell's throw-away importer, and none is a third-party step
    (those are covered by the `_foreign` theorems below) -/
def Plain (ops : List Op) : Prop := ∀ op ∈ ops, op.notPlain = false

instance (ops : List Op) : Decidable (Plain ops) := by unfold Plain; infer_instance

/-- no operation of the run comes from an embedded shell's throw-away importer, and no third-party step takes
    pyflyby's *own* entries out of a hook list (see `removal_*` below for those) -/
def NoFresh (ops : List Op) : Prop := ∀ op ∈ ops, op.isFresh = false ∧ op.removesPf = false

instance (ops : List Op) : Decidable (NoFresh ops) := by unfold NoFresh; infer_instance

theorem reach_inv (cfg : Cfg) {s : St} (hs : Start s) {ops : List Op} (h : Plain ops) :
    Inv cfg s.sh (run cfg s ops) :=
  inv_run hs.clean ops s (hs.inv cfg) h

/-! ## Reversible -/

/-- **C14_reversible.**  From a state `s` in which the importer is off (any reachable one: see
    `C14_disabled_is_start`), run any operations; whenever the importer is off again, every joinpoint and
    both hook lists hold exactly the values they held in `s` — in particular after the `disable` that
    matches an `enable`.  Needs the D3 repair. -/
theorem C14_reversible (cfg : Cfg) (hfix : cfg.resetDisabler = true) (s : St) (hs : Start s)
    (ops : List Op) (hops : Plain ops) (hoff : (run cfg s ops).ai.state = .disabled) :
    (run cfg s ops).sh.jp = s.sh.jp ∧ (run cfg s ops).sh.ast = s.sh.ast ∧
    (run cfg s ops).sh.cleanup = s.sh.cleanup ∧ (run cfg s ops).ai.disablers = [] := by
  have hi := reach_inv cfg hs hops
  have hl := hi.leaks
  rw [hi.disabled_undo hoff] at hl
  obtain ⟨leak, e, _, r⟩ := hl.cleanup
  refine ⟨hl.jp, hl.ast, by rw [e, r hfix, List.append_nil], ?_⟩
  rcases hi.phase with ⟨_, h2⟩ | ⟨h1, _⟩
  · exact h2
  · rw [hoff] at h1; cases h1

/-- Both variants: joinpoints and AST transformers are restored; the cleanup list is restored up to
    reset transformers appended at its end. -/
theorem C14_reversible_partial (cfg : Cfg) (s : St) (hs : Start s)
    (ops : List Op) (hops : Plain ops) (hoff : (run cfg s ops).ai.state = .disabled) :
    (run cfg s ops).sh.jp = s.sh.jp ∧ (run cfg s ops).sh.ast = s.sh.ast ∧
    (∃ leak, (run cfg s ops).sh.cleanup = s.sh.cleanup ++ leak ∧ ∀ e ∈ leak, e.isPf = true) ∧
    (run cfg s ops).ai.disablers = [] := by
  have hi := reach_inv cfg hs hops
  have hl := hi.leaks
  rw [hi.disabled_undo hoff] at hl
  obtain ⟨leak, e, p, _⟩ := hl.cleanup
  refine ⟨hl.jp, hl.ast, ⟨leak, e, p⟩, ?_⟩
  rcases hi.phase with ⟨_, h2⟩ | ⟨h1, _⟩
  · exact h2
  · rw [hoff] at h1; cases h1

/-- Every reachable state with the importer off is again a legitimate starting point (so the two
    theorems above apply between *any* two such states of a history, e.g. the state before an `enable`
    and the state after the matching `disable`). -/
theorem C14_disabled_is_start (cfg : Cfg) (s : St) (hs : Start s)
    (ops : List Op) (hops : Plain ops) (hoff : (run cfg s ops).ai.state = .disabled) :
    Start (run cfg s ops) := by
  obtain ⟨ej, ea, _, hd⟩ := C14_reversible_partial cfg s hs ops hops hoff
  refine ⟨hoff, hd, (reach_inv cfg hs hops).fresh, ⟨?_, ?_⟩⟩
  · rw [ej]; exact hs.clean.jp
  · rw [ea]; exact hs.clean.ast

example : Start St.init := start_init
example : Plain [Op.enable false none, .invoke .astVisit .ok, .disable, .loadExt (some 4), .reloadExt none] := by decide

/-! ## Installed exactly once -/

theorem depth_of_noAspect {v : Val} (h : v.hasAspect = false) : v.depth = 0 := by
  cases v <;> simp_all [Val.hasAspect, Val.depth]

theorem count_isPf_clean {l : List Entry} (h : ∀ e ∈ l, e.isPf = false) : count Entry.isPf l = 0 := by
  simp only [count, List.length_eq_zero_iff, List.filter_eq_nil_iff]
  intro e he; simp [h e he]

theorem count_append_pf (l : List Entry) (i : Nat) : count Entry.isPf (l ++ [.pf i]) = count Entry.isPf l + 1 := by
  simp [count, List.filter_append, List.filter_cons, Entry.isPf]

/-- Both variants: in every reachable state each joinpoint carries at most one pyflyby wrapper and
    `ast_transformers` at most one pyflyby transformer. -/
theorem C14_once_partial (cfg : Cfg) (s : St) (hs : Start s) (ops : List Op) (hops : Plain ops) :
    (∀ j, ((run cfg s ops).sh.jp j).depth ≤ 1) ∧ count Entry.isPf (run cfg s ops).sh.ast ≤ 1 := by
  have hi := reach_inv cfg hs hops
  rcases hi.phase with ⟨h1, _⟩ | ⟨_, _, shp⟩
  · obtain ⟨ej, ea⟩ := inv_jp_disabled hi h1
    refine ⟨fun j => ?_, ?_⟩
    · rw [ej, depth_of_noAspect (hs.clean.jp j)]; exact Nat.zero_le _
    · rw [ea, count_isPf_clean hs.clean.ast]; exact Nat.zero_le _
  · refine ⟨fun j => ?_, ?_⟩
    · obtain ⟨i, e⟩ := shp.jp j
      rw [e, hi.leaks.jp]
      simp [Val.depth, depth_of_noAspect (hs.clean.jp j)]
    · obtain ⟨i, hm, e⟩ := shp.ast
      rw [count_erase_pf hm, ← e, hi.leaks.ast, count_isPf_clean hs.clean.ast]; exact Nat.le_refl _

/-- **C14_once.**  With the D3 repair the same holds for `input_transformers_cleanup`. -/
theorem C14_once (cfg : Cfg) (hfix : cfg.resetDisabler = true) (s : St) (hs : Start s)
    (hcl : ∀ e ∈ s.sh.cleanup, e.isPf = false) (ops : List Op) (hops : Plain ops) :
    (∀ j, ((run cfg s ops).sh.jp j).depth ≤ 1) ∧ count Entry.isPf (run cfg s ops).sh.ast ≤ 1 ∧
    count Entry.isPf (run cfg s ops).sh.cleanup ≤ 1 := by
  obtain ⟨a, b⟩ := C14_once_partial cfg s hs ops hops
  refine ⟨a, b, ?_⟩
  have hi := reach_inv cfg hs hops
  obtain ⟨leak, e, _, r⟩ := hi.leaks.cleanup
  rw [r hfix, List.append_nil] at e
  rcases hi.phase with ⟨h1, _⟩ | ⟨_, _, shp⟩
  · rw [hi.disabled_undo h1] at e
    rw [e, count_isPf_clean hcl]; exact Nat.zero_le _
  · obtain ⟨i, hm, e2⟩ := shp.cleanup
    simp only [hfix, if_true] at e2
    rw [count_erase_pf hm, ← e2, e, count_isPf_clean hcl]; exact Nat.le_refl _

/-! ## No accumulating residue -/

/-- the part of `size` the unchanged tree keeps bounded -/
def sizeNC (st : St) : Nat :=
  (JP.all.map fun j => (st.sh.jp j).depth).sum + st.sh.ast.length + st.ai.disablers.length

theorem sum_depth_le (f : JP → Val) (h : ∀ j, (f j).depth ≤ 1) : (JP.all.map fun j => (f j).depth).sum ≤ 7 := by
  simp only [JP.all, List.map_cons, List.map_nil, List.sum_cons, List.sum_nil]
  have := h .ofind; have := h .prun; have := h .globalMatches; have := h .attrMatches
  have := h .safeExecfile; have := h .debugger; have := h .runWithDebugger
  omega

/-- Both variants: wrappers, AST transformers and disablers stay bounded, whatever the history. -/
theorem C14_no_residue_partial (cfg : Cfg) (s : St) (hs : Start s) (ops : List Op) (hops : Plain ops) :
    sizeNC (run cfg s ops) ≤ s.sh.ast.length + 17 := by
  have hi := reach_inv cfg hs hops
  obtain ⟨hd, _⟩ := C14_once_partial cfg s hs ops hops
  have h7 := sum_depth_le _ hd
  unfold sizeNC
  rcases hi.phase with ⟨h1, h2⟩ | ⟨_, _, shp⟩
  · obtain ⟨_, ea⟩ := inv_jp_disabled hi h1
    rw [h2, ea]; simp; omega
  · obtain ⟨i, hm, e⟩ := shp.ast
    have hn := shp.ndis
    rw [length_erase_pf hm, ← e, hi.leaks.ast, hn]
    cases cfg.resetDisabler <;> simp <;> omega

/-- **C14_no_residue.**  With the D3 repair the whole state is bounded independently of the history:
    at most 7 wrappers, one entry per hook list and 9 disablers on top of what the shell held. -/
theorem C14_no_residue (cfg : Cfg) (hfix : cfg.resetDisabler = true) (s : St) (hs : Start s)
    (ops : List Op) (hops : Plain ops) :
    size (run cfg s ops) ≤ size s + 18 := by
  have hi := reach_inv cfg hs hops
  have hp := C14_no_residue_partial cfg s hs ops hops
  obtain ⟨leak, e, _, r⟩ := hi.leaks.cleanup
  rw [r hfix, List.append_nil] at e
  have hc : (run cfg s ops).sh.cleanup.length ≤ s.sh.cleanup.length + 1 := by
    rcases hi.phase with ⟨h1, _⟩ | ⟨_, _, shp⟩
    · rw [hi.disabled_undo h1] at e; rw [e]; omega
    · obtain ⟨i, hm, e2⟩ := shp.cleanup
      simp only [hfix, if_true] at e2
      rw [length_erase_pf hm, ← e2, e]; exact Nat.le_refl _
  unfold size
  unfold sizeNC at hp
  omega

/-! ## Refinement to the two-state reference machine -/

/-- **C14_two_state.**  Whether the importer is on, whether IPython considers the extension loaded
    and whether an earlier error blocks a silent re-enable evolve exactly as in the reference machine
    `refStep` over {off, on} — for every history. -/
theorem C14_two_state (cfg : Cfg) (s : St) (hs : Start s) :
    ∀ (ops : List Op), Plain ops → abs (run cfg s ops) = ops.foldl (refStep cfg) (abs s) := by
  intro ops hops
  have key : ∀ (ops : List Op) (st : St), Inv cfg s.sh st → Plain ops →
      abs (run cfg st ops) = ops.foldl (refStep cfg) (abs st) := by
    intro ops
    induction ops with
    | nil => intro st _ _; rfl
    | cons op ops ih =>
      intro st hi h
      simp only [run, List.foldl_cons]
      have hop := h op List.mem_cons_self
      rw [← abs_step hi hs.clean op hop]
      exact ih _ (inv_step hi hs.clean op hop) (fun o ho => h o (List.mem_cons_of_mem _ ho))
  exact key ops s (hs.inv cfg) hops

/-- **C14_cell_behaviour.**  In every reachable state a cell that reads a known name is auto-imported
    iff the reference machine says "on": while on, pyflyby's AST transformer is installed and the
    importer is healthy; while off no pyflyby transformer is in `ast_transformers` and the cell is
    processed by IPython alone. -/
theorem C14_cell_behaviour (cfg : Cfg) (s : St) (hs : Start s) (ops : List Op) (hops : Plain ops) :
    cellAutoImports (run cfg s ops) = (abs (run cfg s ops)).enabled ∧
    ((abs (run cfg s ops)).enabled = false → ∀ h, h ≠ HookId.resetCleanup → installed (run cfg s ops).sh h = false) := by
  have hi := reach_inv cfg hs hops
  rcases hi.state_cases with hd | he
  · refine ⟨?_, fun _ h hne => inv_installed_disabled hi hs.clean hd h hne⟩
    simp [cellAutoImports, inv_installed_disabled hi hs.clean hd .astVisit (by simp), abs, hd]
  · have herr : (run cfg s ops).ai.errored = false := by
      rcases hi.phase with ⟨h1, _⟩ | ⟨_, h2, _⟩
      · rw [he] at h1; cases h1
      · exact h2
    refine ⟨?_, ?_⟩
    · simp [cellAutoImports, inv_installed_enabled hi he .astVisit, abs, he, herr]
    · intro hf; simp [abs, he] at hf

/-! ## Third-party steps between enable and disable

`Op.foreign f`: another extension / the user rebinds `ip.ast_transformers` or the cleanup-transformer list
to a new list object, appends or removes its own entries (`Pfb.Hooks.Foreign`).  The code's removers act on
the list bound at the time `disable` runs, so they commute with all of these; the theorems below extend
reversibility, exactly-once and no-residue to histories with arbitrary such steps anywhere (D3 repair
assumed — the unchanged tree leaks for the reason proved above).  `foreignBase s.sh ops` is the shell the
third-party steps alone would have produced.  Foreign *advice on top of a pyflyby wrapper* is not in the
model: `Aspect.unadvise` then declines to unadvise ("seems modified") — see notes/C14.md. -/

theorem reach_inv_foreign (cfg : Cfg) (hfix : cfg.resetDisabler = true) {s : St} (hs : Start s) {ops : List Op}
    (h : NoFresh ops) :
    Inv cfg (foreignBase s.sh ops) (run cfg s ops) ∧ Clean (foreignBase s.sh ops) :=
  inv_run_foreign hfix ops s.sh s hs.clean (hs.inv cfg) h

/-- **C14_reversible_foreign.**  Whenever the importer is off, joinpoints and both hook lists are exactly
    what the third-party steps of the history would have made of the start shell without pyflyby: nothing of
    pyflyby is left, every foreign entry survives, in order. -/
theorem C14_reversible_foreign (cfg : Cfg) (hfix : cfg.resetDisabler = true) (s : St) (hs : Start s)
    (ops : List Op) (hops : NoFresh ops) (hoff : (run cfg s ops).ai.state = .disabled) :
    (run cfg s ops).sh.jp = (foreignBase s.sh ops).jp ∧ (run cfg s ops).sh.ast = (foreignBase s.sh ops).ast ∧
    (run cfg s ops).sh.cleanup = (foreignBase s.sh ops).cleanup ∧ (run cfg s ops).ai.disablers = [] := by
  obtain ⟨hi, _⟩ := reach_inv_foreign cfg hfix hs hops
  have hl := hi.leaks
  rw [hi.disabled_undo hoff] at hl
  obtain ⟨leak, e, _, r⟩ := hl.cleanup
  refine ⟨hl.jp, hl.ast, by rw [e, r hfix, List.append_nil], ?_⟩
  rcases hi.phase with ⟨_, h2⟩ | ⟨h1, _⟩
  · exact h2
  · rw [hoff] at h1; cases h1

theorem foreignBase_cleanup_noPf : ∀ (ops : List Op) (b : Shell), (∀ e ∈ b.cleanup, e.isPf = false) →
    ∀ e ∈ (foreignBase b ops).cleanup, e.isPf = false := by
  intro ops
  induction ops with
  | nil => intro b h; exact h
  | cons op ops ih =>
    intro b h
    cases op with
    | foreign f =>
      simp only [foreignBase]
      apply ih
      cases f with
      | addCleanup k =>
        intro e he
        simp only [applyForeign, List.mem_append, List.mem_singleton] at he
        rcases he with he | he
        · exact h e he
        · subst he; rfl
      | rmCleanup k => exact fun e he => h e (List.mem_of_mem_erase he)
      | rebindAst => exact h
      | rebindCleanup => exact h
      | addAst k => exact h
      | rmAst k => exact h
      | other => exact h
      | clearAst => exact h
      | dropPfAst => exact h
      | dropPfCleanup => exact fun e he => h e (List.mem_filter.mp he).1
    | enable e f => exact ih b h
    | disable => exact ih b h
    | loadExt f => exact ih b h
    | unloadExt => exact ih b h
    | reloadExt f => exact ih b h
    | invoke hk o => exact ih b h
    | freshImporter => exact ih b h

/-- **C14_no_residue_foreign.**  Whenever the importer is off — whatever was rebound, added or removed in
    between — no pyflyby hook at all is reachable from IPython (no wrapper on a joinpoint, no pyflyby entry
    in the lists bound now), so a cell is processed by IPython alone. -/
theorem C14_no_residue_foreign (cfg : Cfg) (hfix : cfg.resetDisabler = true) (s : St) (hs : Start s)
    (hcl : ∀ e ∈ s.sh.cleanup, e.isPf = false)
    (ops : List Op) (hops : NoFresh ops) (hoff : (run cfg s ops).ai.state = .disabled) :
    (∀ h, installed (run cfg s ops).sh h = false) ∧ cellAutoImports (run cfg s ops) = false := by
  obtain ⟨hi, hc⟩ := reach_inv_foreign cfg hfix hs hops
  obtain ⟨_, _, ecl, _⟩ := C14_reversible_foreign cfg hfix s hs ops hops hoff
  have hall : ∀ h, installed (run cfg s ops).sh h = false := by
    intro h
    by_cases hr : h = .resetCleanup
    · subst hr
      simp only [installed, ecl]
      rw [List.any_eq_false]
      intro e he; simp [foreignBase_cleanup_noPf ops s.sh hcl e he]
    · exact inv_installed_disabled hi hc hoff h hr
  exact ⟨hall, by simp [cellAutoImports, hall]⟩

theorem filter_nonPf_of_erase {l : List Entry} {i : Nat} (hm : Entry.pf i ∈ l)
    (hc : ∀ e ∈ l.erase (.pf i), e.isPf = false) :
    l.filter (fun e => !e.isPf) = l.erase (.pf i) := by
  induction l with
  | nil => cases hm
  | cons a l ih =>
    by_cases ha : a = .pf i
    · subst ha
      simp only [List.erase_cons_head] at hc ⊢
      have hpf : (Entry.pf i).isPf = true := rfl
      rw [List.filter_cons]
      simp only [hpf, Bool.not_true, Bool.false_eq_true, if_false]
      exact List.filter_eq_self.mpr (fun e he => by simp [hc e he])
    · have hm' : Entry.pf i ∈ l := by
        rcases List.mem_cons.mp hm with h | h
        · exact absurd h.symm ha
        · exact h
      have hne : (a == Entry.pf i) = false := by simpa using ha
      rw [List.erase_cons_tail (by simpa using ha)] at hc ⊢
      have hca : a.isPf = false := hc a List.mem_cons_self
      rw [List.filter_cons]
      simp only [hca, Bool.not_false, if_true]
      rw [ih hm' (fun e he => hc e (List.mem_cons_of_mem _ he))]

/-- **C14_once_foreign / foreign entries survive.**  In *every* reachable state (importer on or off) each
    joinpoint carries at most one wrapper, each list at most one pyflyby entry, and the non-pyflyby entries of
    both lists are exactly, and in the order, what the third-party steps alone would have produced. -/
theorem C14_once_foreign (cfg : Cfg) (hfix : cfg.resetDisabler = true) (s : St) (hs : Start s)
    (hcl : ∀ e ∈ s.sh.cleanup, e.isPf = false) (ops : List Op) (hops : NoFresh ops) :
    (∀ j, ((run cfg s ops).sh.jp j).depth ≤ 1) ∧
    count Entry.isPf (run cfg s ops).sh.ast ≤ 1 ∧ count Entry.isPf (run cfg s ops).sh.cleanup ≤ 1 ∧
    (run cfg s ops).sh.ast.filter (fun e => !e.isPf) = (foreignBase s.sh ops).ast ∧
    (run cfg s ops).sh.cleanup.filter (fun e => !e.isPf) = (foreignBase s.sh ops).cleanup := by
  obtain ⟨hi, hc⟩ := reach_inv_foreign cfg hfix hs hops
  have hbcl := foreignBase_cleanup_noPf ops s.sh hcl
  obtain ⟨leak, ecl, _, r⟩ := hi.leaks.cleanup
  rw [r hfix, List.append_nil] at ecl
  rcases hi.phase with ⟨h1, _⟩ | ⟨_, _, shp⟩
  · obtain ⟨ej, ea⟩ := inv_jp_disabled hi h1
    rw [hi.disabled_undo h1] at ecl
    refine ⟨fun j => ?_, ?_, ?_, ?_, ?_⟩
    · rw [ej, depth_of_noAspect (hc.jp j)]; exact Nat.zero_le _
    · rw [ea, count_isPf_clean hc.ast]; exact Nat.zero_le _
    · rw [ecl, count_isPf_clean hbcl]; exact Nat.zero_le _
    · rw [ea]; exact List.filter_eq_self.mpr (fun e he => by simp [hc.ast e he])
    · rw [ecl]; exact List.filter_eq_self.mpr (fun e he => by simp [hbcl e he])
  · obtain ⟨i, hm, e⟩ := shp.ast
    obtain ⟨k, hmc, ec⟩ := shp.cleanup
    simp only [hfix, if_true] at ec
    have hea : (run cfg s ops).sh.ast.erase (.pf i) = (foreignBase s.sh ops).ast := by rw [← e, hi.leaks.ast]
    have hec : (run cfg s ops).sh.cleanup.erase (.pf k) = (foreignBase s.sh ops).cleanup := by rw [← ec, ecl]
    refine ⟨fun j => ?_, ?_, ?_, ?_, ?_⟩
    · obtain ⟨i', e'⟩ := shp.jp j
      rw [e', hi.leaks.jp]
      simp [Val.depth, depth_of_noAspect (hc.jp j)]
    · rw [count_erase_pf hm, hea, count_isPf_clean hc.ast]; exact Nat.le_refl _
    · rw [count_erase_pf hmc, hec, count_isPf_clean hbcl]; exact Nat.le_refl _
    · rw [filter_nonPf_of_erase hm (by rw [hea]; exact hc.ast), hea]
    · rw [filter_nonPf_of_erase hmc (by rw [hec]; exact hbcl), hec]

/-- an instance: rebind, a foreign transformer appended while enabled, then disable -/
example :
    (run Cfg.repaired St.init [.enable false none, .foreign .rebindAst, .foreign (.addAst 7), .foreign .rebindCleanup,
      .disable]).sh.ast = [.ext 7] := by decide
example : NoFresh [Op.enable false none, .foreign .rebindAst, .foreign (.addAst 7), .disable, .foreign (.rmAst 7)] := by
  decide

/-! ## The error-withdrawn state and its exits; third parties removing pyflyby's own entries -/

theorem run_snoc (cfg : Cfg) (s : St) (ops : List Op) (op : Op) :
    run cfg s (ops ++ [op]) = step cfg (run cfg s ops) op := by
  simp [run, List.foldl_append]

/-- **C14_error_withdrawn_exits.**  After an internal error the importer is off *and* marked errored (third
    state of the reference machine, reached by `Op.invoke h (.raises k)` — see `C14_two_state`).  From any such
    reachable state: plain `enable()` refuses; `enable(even_if_previously_errored=True)` and `%reload_ext`
    switch it on again with every hook installed (a cell auto-imports); `%load_ext` does so unless IPython
    considers the extension loaded already, in which case it is a no-op. -/
theorem C14_error_withdrawn_exits (cfg : Cfg) (s : St) (hs : Start s) (ops : List Op) (hops : Plain ops)
    (hoff : (run cfg s ops).ai.state = .disabled) (herr : (run cfg s ops).ai.errored = true) :
    (step cfg (run cfg s ops) (.enable false none)) = run cfg s ops ∧
    cellAutoImports (step cfg (run cfg s ops) (.enable true none)) = true ∧
    cellAutoImports (step cfg (run cfg s ops) (.reloadExt none)) = true ∧
    ((run cfg s ops).sh.loaded = false → cellAutoImports (step cfg (run cfg s ops) (.loadExt none)) = true) ∧
    ((run cfg s ops).sh.loaded = true → step cfg (run cfg s ops) (.loadExt none) = run cfg s ops) := by
  have hi := reach_inv cfg hs hops
  have on_of (op : Op) (hp : op.notPlain = false)
      (hen : (refStep cfg (abs (run cfg s ops)) op).enabled = true) :
      cellAutoImports (step cfg (run cfg s ops) op) = true := by
    have hops' : Plain (ops ++ [op]) := by
      intro o ho
      rcases List.mem_append.mp ho with h | h
      · exact hops o h
      · simp at h; subst h; exact hp
    have hc := (C14_cell_behaviour cfg s hs (ops ++ [op]) hops').1
    rw [run_snoc] at hc
    rw [hc, abs_step hi hs.clean op hp]
    exact hen
  refine ⟨?_, ?_, ?_, ?_, ?_⟩
  · simp [step, enable, hoff, herr]
  · exact on_of _ (by simp [Op.notPlain, Op.isFresh, Op.isForeign]) (by simp [refStep, refEnable, abs, hoff])
  · apply on_of _ (by simp [Op.notPlain, Op.isFresh, Op.isForeign])
    simp only [refStep, abs, hoff]
    split <;> simp [refEnable]
  · intro hl
    exact on_of _ (by simp [Op.notPlain, Op.isFresh, Op.isForeign]) (by simp [refStep, refEnable, abs, hoff, hl])
  · intro hl
    simp [step, loadExt, hl]

/-- **C14_recovers_after_removal.**  A third party may also take pyflyby's *own* entries out of the hook lists
    (clear `ip.ast_transformers`, filter pyflyby's transformers away).  The disablers then find nothing to
    remove (`list.remove` → ValueError, swallowed) and still commute with that step, so the next `disable`
    lands in a legitimate start state whose lists are exactly what the third-party steps produce — no
    error, nothing sticky — and every theorem above applies again from there (in particular a further
    `enable` installs every hook and cells auto-import).  Steps between the removal and that `disable` are
    not covered by a theorem (checked by K/O only). -/
theorem C14_recovers_after_removal (cfg : Cfg) (hfix : cfg.resetDisabler = true) (s : St) (hs : Start s)
    (ops : List Op) (hops : NoFresh ops) (f : Foreign) :
    let st' := disable (step cfg (run cfg s ops) (.foreign f))
    Start st' ∧ st'.ai.errored = (run cfg s ops).ai.errored ∧
    st'.sh.jp = (foreignBase s.sh ops).jp ∧ st'.sh.ast = (applyForeign f (foreignBase s.sh ops)).ast ∧
    st'.sh.cleanup = (applyForeign f (foreignBase s.sh ops)).cleanup := by
  obtain ⟨hi, hc⟩ := reach_inv_foreign cfg hfix hs hops
  have hl := hi.leaks
  obtain ⟨leak, ecl, _, r⟩ := hl.cleanup
  rw [r hfix, List.append_nil] at ecl
  -- the shell `disable` produces: the disablers applied to the shell after the foreign step
  have hsh : (disable (step cfg (run cfg s ops) (.foreign f))).sh = applyForeign f (undo (run cfg s ops)) := by
    rcases hi.phase with ⟨h1, h2⟩ | ⟨h1, _, _⟩
    · simp [step, disable, h1, undo, h2]
    · simp only [step, disable, h1, reduceCtorEq, if_false]
      exact foldr_applyD_applyForeign _ _ _
  have hjp : (applyForeign f (undo (run cfg s ops))).jp = (foreignBase s.sh ops).jp := by
    rw [applyForeign_jp]; exact hl.jp
  have hast : (applyForeign f (undo (run cfg s ops))).ast = (applyForeign f (foreignBase s.sh ops)).ast := by
    have := hl.ast; cases f <;> simp [applyForeign, this]
  have hcl : (applyForeign f (undo (run cfg s ops))).cleanup = (applyForeign f (foreignBase s.sh ops)).cleanup := by
    cases f <;> simp [applyForeign, ecl]
  have hclean := applyForeign_clean f _ hc
  simp only
  refine ⟨⟨disable_state _, ?_, ?_, ⟨?_, ?_⟩⟩, ?_, by rw [hsh, hjp], by rw [hsh, hast], by rw [hsh, hcl]⟩
  · rcases hi.phase with ⟨h1, h2⟩ | ⟨h1, _, _⟩
    · simp [step, disable, h1, h2]
    · simp [step, disable, h1]
  · have hf := applyForeign_fresh f _ _ hi.fresh
    rcases hi.phase with ⟨h1, h2⟩ | ⟨h1, _, _⟩
    · simpa [step, disable, h1] using hf
    · simp only [step, disable, h1, reduceCtorEq, if_false]
      exact foldr_applyD_fresh _ _ _ hf
  · intro j; rw [hsh, hjp]; rw [← applyForeign_jp f]; exact hclean.jp j
  · intro e he; rw [hsh, hast] at he; exact hclean.ast e he
  · simp [step, disable_errored]

/-- the seeded scenario on the model: clear the list while enabled, disable, enable again -/
example :
    cellAutoImports (run Cfg.repaired St.init
      [.enable false none, .foreign .clearAst, .disable, .enable false none]) = true ∧
    (run Cfg.repaired St.init [.enable false none, .foreign .clearAst, .disable]).ai.errored = false := by decide

/-! ## Witness: the unchanged tree (D3) and embedded shells -/

section Witness

def cycle : List Op := [.enable false none, .disable]

/-- one enable/disable cycle on the unchanged tree, from any start -/
theorem cycle_unchanged (cfg : Cfg) (hr : cfg.resetDisabler = false) (s : St) (hs : Start s)
    (he : s.ai.errored = false) :
    Start (run cfg s cycle) ∧ (run cfg s cycle).ai.errored = false ∧
    (run cfg s cycle).sh.cleanup = s.sh.cleanup ++ [.pf s.next] := by
  have hoff : (run cfg s cycle).ai.state = .disabled := by
    simp only [run, cycle, List.foldl_cons, List.foldl_nil, step]; exact disable_state _
  have hst := C14_disabled_is_start cfg s hs cycle (by decide) hoff
  refine ⟨hst, ?_, ?_⟩
  · simp only [run, cycle, List.foldl_cons, List.foldl_nil, step, disable_errored]
    have := congrArg Ref.errored (abs_enable (hs.inv cfg) false none)
    simpa [abs, refEnable, hs.state, he] using this
  · simp only [run, cycle, List.foldl_cons, List.foldl_nil, step]
    unfold enable
    simp only [hs.state, ne_eq, not_true_eq_false, if_false, he, Bool.false_and, Bool.false_eq_true]
    rw [runSteps_full cfg _ (by intro j; exact hs.clean.jp j)]
    simp only [Bool.false_eq_true, if_false]
    have hu := undo_enabledSt cfg { s with ai := { s.ai with errored := false, state := .enabling } }
      hs.fresh hs.nodis
    simp only [disable, reduceCtorEq, if_false]
    simp only [undo] at hu
    rw [hu]
    simp [afterCycle, hr]

/-- **D3, for every number of cycles**: on the unchanged tree `n` enable/disable cycles leave `n`
    reset transformers behind — the state is *not* bounded independently of the history. -/
theorem D3_leak_unbounded (cfg : Cfg) (hr : cfg.resetDisabler = false) (n : Nat) :
    (run cfg St.init (List.replicate n cycle).flatten).sh.cleanup.length = 4 + n := by
  have key : ∀ (n : Nat) (s : St), Start s → s.ai.errored = false →
      (run cfg s (List.replicate n cycle).flatten).sh.cleanup.length = s.sh.cleanup.length + n := by
    intro n
    induction n with
    | zero => intro s _ _; rfl
    | succ n ih =>
      intro s hs he
      obtain ⟨h1, h2, h3⟩ := cycle_unchanged cfg hr s hs he
      have : run cfg s (List.replicate (n + 1) cycle).flatten =
          run cfg (run cfg s cycle) (List.replicate n cycle).flatten := by
        simp [run, List.replicate_succ, List.foldl_append]
      rw [this, ih _ h1 h2, h3]
      simp; omega
  have := key n St.init start_init rfl
  simpa [St.init, Shell.plain, Nat.add_comm] using this

/-- negation of `C14_reversible` on the unchanged tree: enable, disable -/
theorem D3_witness_not_reversible :
    (run Cfg.unchanged St.init [.enable false none, .disable]).ai.state = .disabled ∧
    (run Cfg.unchanged St.init [.enable false none, .disable]).sh.cleanup ≠ St.init.sh.cleanup := by
  decide

/-- negation of `C14_once` on the unchanged tree: enable, disable, enable -/
theorem D3_witness_not_once :
    count Entry.isPf (run Cfg.unchanged St.init [.enable false none, .disable, .enable false none]).sh.cleanup = 2 := by
  decide

/-- the same two inputs on the repaired variant -/
example : (run Cfg.repaired St.init [.enable false none, .disable]).sh.cleanup = St.init.sh.cleanup := by decide
example : count Entry.isPf (run Cfg.repaired St.init [.enable false none, .disable, .enable false none]).sh.cleanup = 1 := by
  decide

/-- embedded shell: every call reaches a fresh importer, so `disable` undoes nothing and a second
    `enable` stacks a second AST transformer (even with the D3 repair) -/
theorem embedded_witness_never_disabled :
    installed (run Cfg.repaired St.init [.freshImporter, .enable false none, .freshImporter, .disable]).sh .astVisit = true ∧
    count Entry.isPf (run Cfg.repaired St.init
      [.freshImporter, .enable false none, .freshImporter, .enable false none]).sh.ast = 2 := by
  decide

end Witness

end Pfb.C14
