/-
  Pfb.C14.PreInitProps — C14 for histories that start before `app.initialize()` (model: Pfb.Hooks.PreInit).

  * `PreInit_app_reversible`  for every op list (enable/disable before initialisation, `initialize`, any ops of the
      shell-level model afterwards): whenever the importer is off, `app.init_shell` and `app.initialize_subcommand`
      are back to their start values and no app-level disabler is left;
  * `PreInit_app_once`        each of the two carries at most one pyflyby wrapper, always;
  * `PreInit_disabled_stays_disabled`  initialising an application whose importer is off (e.g. enable; disable before
      initialisation) installs nothing and leaves the importer DISABLED;
  * `PreInit_shell_untouched` before initialisation the importer is DISABLED or ENABLING and nothing of the shell-level
      state changes;
  * `PreInit_paths_agree`     finishing a pending enable at `init_shell` = `enable()` on the initialised shell;
  * `runA_sh_st`              after initialisation the shell-level state evolves exactly as in `Pfb.Hooks.run`, so every
      theorem of Pfb.C14.Props applies to it.
-/
import Pfb.Hooks.PreInit
import Pfb.Hooks.Lemmas
namespace Pfb.C14
open Pfb.Hooks

/-! ## `flush`, `settle` keep everything but the two slots -/

theorem applyAD_st (d : ADis) (a : App) : (applyAD d a).st = a.st ∧ (applyAD d a).inited = a.inited
    ∧ (applyAD d a).adis = a.adis := by
  cases d with
  | unadvise j p w =>
    simp only [applyAD]
    split
    · cases j <;> simp [App.setSlot]
    · simp

theorem foldr_applyAD_st (ds : List ADis) (a : App) :
    (ds.foldr applyAD a).st = a.st ∧ (ds.foldr applyAD a).inited = a.inited := by
  induction ds with
  | nil => simp
  | cons d ds ih =>
    simp only [List.foldr_cons]
    have h := applyAD_st d (ds.foldr applyAD a)
    exact ⟨h.1.trans ih.1, h.2.1.trans ih.2⟩

theorem flush_st (a : App) : (flush a).st = a.st := by
  unfold flush; exact (foldr_applyAD_st a.adis a).1

theorem flush_inited (a : App) : (flush a).inited = a.inited := by
  unfold flush; exact (foldr_applyAD_st a.adis a).2

theorem flush_adis (a : App) : (flush a).adis = [] := by
  unfold flush; rfl

theorem settle_st (a : App) : (settle a).st = a.st := by
  unfold settle; split
  · exact flush_st a
  · rfl

/-! ## The app-level invariant -/

/-- either nothing is installed on the application, or the importer is on (ENABLING / ENABLED) and holds exactly
    the two wrappers it created, with their unadvise functions at the bottom of the disabler stack -/
def AInv (s0 t0 : Val) (a : App) : Prop :=
  (a.adis = [] ∧ a.initShell = s0 ∧ a.initSub = t0) ∨
  (a.st.ai.state ≠ .disabled ∧ ∃ n m,
      a.adis = [ADis.unadvise .initShell s0 (.adv n s0), ADis.unadvise .initSub t0 (.adv m t0)]
      ∧ a.initShell = .adv n s0 ∧ a.initSub = .adv m t0)

/-- the same without the condition on the state (`flush` does not look at the importer) -/
def AShape (s0 t0 : Val) (a : App) : Prop :=
  (a.adis = [] ∧ a.initShell = s0 ∧ a.initSub = t0) ∨
  (∃ n m, a.adis = [ADis.unadvise .initShell s0 (.adv n s0), ADis.unadvise .initSub t0 (.adv m t0)]
      ∧ a.initShell = .adv n s0 ∧ a.initSub = .adv m t0)

theorem AInv.shape {s0 t0 : Val} {a : App} (h : AInv s0 t0 a) : AShape s0 t0 a := by
  rcases h with h | ⟨_, n, m, h⟩
  · exact Or.inl h
  · exact Or.inr ⟨n, m, h⟩

theorem flush_of_shape {s0 t0 : Val} {a : App} (h : AShape s0 t0 a) :
    (flush a).adis = [] ∧ (flush a).initShell = s0 ∧ (flush a).initSub = t0 := by
  rcases h with ⟨h1, h2, h3⟩ | ⟨n, m, h1, h2, h3⟩
  · unfold flush; simp [h1, h2, h3]
  · unfold flush
    simp [h1, applyAD, App.slot, App.setSlot, h2, h3]

theorem AInv_flush {s0 t0 : Val} {a : App} (h : AShape s0 t0 a) : AInv s0 t0 (flush a) :=
  Or.inl (flush_of_shape h)

/-- replacing the importer/shell part and settling keeps the invariant -/
theorem AInv_settle {s0 t0 : Val} {a : App} (h : AInv s0 t0 a) (st' : St) :
    AInv s0 t0 (settle { a with st := st' }) := by
  have hs : AShape s0 t0 { a with st := st' } := h.shape
  unfold settle
  split
  · exact AInv_flush hs
  · rename_i hne
    rcases h with h | ⟨_, n, m, h1, h2, h3⟩
    · exact Or.inl h
    · exact Or.inr ⟨hne, n, m, h1, h2, h3⟩

theorem AInv_setSt {s0 t0 : Val} {a : App} (h : AInv s0 t0 a) (st' : St) (hne : st'.ai.state ≠ .disabled) :
    AInv s0 t0 { a with st := st' } := by
  rcases h with h | ⟨_, n, m, h1, h2, h3⟩
  · exact Or.inl h
  · exact Or.inr ⟨hne, n, m, h1, h2, h3⟩

theorem AInv_inited {s0 t0 : Val} {a : App} (h : AInv s0 t0 a) (b : Bool) : AInv s0 t0 { a with inited := b } := h

/-! ## Each op keeps the invariant -/

theorem AInv_preEnable {s0 t0 : Val} (hs : s0.hasAspect = false) (ht : t0.hasAspect = false) {a : App}
    (h : AInv s0 t0 a) (even : Bool) : AInv s0 t0 (preEnable even a) := by
  unfold preEnable
  split
  · exact h
  · rename_i hd
    split
    · exact h
    · rcases h with ⟨h1, h2, h3⟩ | ⟨hne, _⟩
      · refine Or.inr ⟨?_, a.st.next, a.st.next + 1, ?_, ?_, ?_⟩ <;>
          simp [adviseApp, App.slot, App.setSlot, h1, h2, h3, hs, ht]
      · exact absurd (by simpa using hd) hne

theorem AInv_disableA {s0 t0 : Val} {a : App} (h : AInv s0 t0 a) : AInv s0 t0 (disableA a) := by
  unfold disableA
  split
  · exact h
  · exact AInv_flush (a := { a with st := disable a.st }) h.shape

theorem AInv_continueEnable {s0 t0 : Val} {a : App} (h : AInv s0 t0 a) (cfg : Cfg) (fail : Option Nat) :
    AInv s0 t0 (continueEnable cfg fail a) := by
  unfold continueEnable
  split
  · exact h
  · split
    rename_i st2 failed _
    split
    · exact AInv_flush (a := { a with st := _ }) h.shape
    · exact AInv_setSt h _ (by simp)

theorem AInv_initApp {s0 t0 : Val} {a : App} (h : AInv s0 t0 a) (cfg : Cfg) (fail : Option Nat) :
    AInv s0 t0 (initApp cfg fail a) := by
  unfold initApp
  split
  · exact h
  · split
    · exact AInv_continueEnable (AInv_inited h true) cfg fail
    · exact AInv_inited h true

theorem AInv_stepA {s0 t0 : Val} (hs : s0.hasAspect = false) (ht : t0.hasAspect = false) {a : App}
    (h : AInv s0 t0 a) (cfg : Cfg) (op : AOp) : AInv s0 t0 (stepA cfg a op) := by
  cases op with
  | preEnable even =>
    simp only [stepA]
    split
    · exact AInv_settle h _
    · exact AInv_preEnable hs ht h even
  | disable => exact AInv_disableA h
  | init fail => exact AInv_initApp h cfg fail
  | sh op =>
    cases op <;> simp only [stepA] <;> first
      | exact AInv_settle h _
      | exact AInv_settle (AInv_settle h _) _

theorem AInv_runA {s0 t0 : Val} (hs : s0.hasAspect = false) (ht : t0.hasAspect = false) (cfg : Cfg) :
    ∀ (ops : List AOp) (a : App), AInv s0 t0 a → AInv s0 t0 (runA cfg a ops) := by
  intro ops
  induction ops with
  | nil => intro a h; exact h
  | cons o os ih => intro a h; exact ih _ (AInv_stepA hs ht h cfg o)

/-- a start state: nothing installed on the application -/
structure StartA (a : App) : Prop where
  adis : a.adis = []
  shellSlot : a.initShell.hasAspect = false
  subSlot : a.initSub.hasAspect = false

theorem startA_init : StartA App.init := ⟨rfl, rfl, rfl⟩

theorem StartA.inv {a : App} (h : StartA a) : AInv a.initShell a.initSub a := Or.inl ⟨h.adis, rfl, rfl⟩

/-! ## The property theorems -/

/-- **Reversible** (application level): after ANY history — enable / disable calls before `app.initialize()`,
    the initialisation, any ops afterwards, failing enables and hook errors included — whenever the importer is off,
    `app.init_shell` and `app.initialize_subcommand` hold their pre-enable values again and none of their
    unadvise functions is left on `_disablers`. -/
theorem PreInit_app_reversible (cfg : Cfg) (a : App) (hs : StartA a) (ops : List AOp)
    (hoff : (runA cfg a ops).st.ai.state = .disabled) :
    (runA cfg a ops).initShell = a.initShell ∧ (runA cfg a ops).initSub = a.initSub ∧ (runA cfg a ops).adis = [] := by
  rcases AInv_runA hs.shellSlot hs.subSlot cfg ops a hs.inv with ⟨h1, h2, h3⟩ | ⟨hne, _⟩
  · exact ⟨h2, h3, h1⟩
  · exact absurd hoff hne

theorem depth_of_noAspect {v : Val} (h : v.hasAspect = false) : v.depth = 0 := by
  cases v <;> simp_all [Val.hasAspect, Val.depth]

/-- **Exactly once** (application level): at every point of every history each of the two attributes carries at
    most one pyflyby wrapper. -/
theorem PreInit_app_once (cfg : Cfg) (a : App) (hs : StartA a) (ops : List AOp) :
    (runA cfg a ops).initShell.depth ≤ 1 ∧ (runA cfg a ops).initSub.depth ≤ 1 := by
  have d1 := depth_of_noAspect hs.shellSlot
  have d2 := depth_of_noAspect hs.subSlot
  rcases AInv_runA hs.shellSlot hs.subSlot cfg ops a hs.inv with ⟨_, h2, h3⟩ | ⟨_, n, m, _, h2, h3⟩
  · rw [h2, h3]; omega
  · rw [h2, h3]; simp [Val.depth, d1, d2]

/-- **A disabled importer stays disabled through the initialisation**: after any history on the uninitialised
    application that ends with the importer off (e.g. `enable; disable`), `app.initialize()` only creates the shell:
    no pyflyby code continues the enable, the state stays DISABLED, the shell-level state is untouched. -/
theorem PreInit_disabled_stays_disabled (cfg : Cfg) (a : App) (hs : StartA a) (ops : List AOp) (fail : Option Nat)
    (hoff : (runA cfg a ops).st.ai.state = .disabled) :
    initApp cfg fail (runA cfg a ops) = { runA cfg a ops with inited := true } := by
  obtain ⟨h1, _, _⟩ := PreInit_app_reversible cfg a hs ops hoff
  unfold initApp
  split
  · rename_i hi
    cases hb : runA cfg a ops with
    | mk st inited s1 s2 ad => simp_all
  · simp [h1, hs.shellSlot]

/-! ## Before the initialisation nothing of the shell-level state changes -/

inductive AOp.isPre : AOp → Prop
  | preEnable (even : Bool) : AOp.isPre (.preEnable even)
  | disable : AOp.isPre .disable

theorem adviseApp_st (a : App) (j : AJP) :
    (adviseApp a j).st.sh = a.st.sh ∧ (adviseApp a j).st.ai = a.st.ai ∧ (adviseApp a j).inited = a.inited := by
  by_cases h : (a.slot j).hasAspect
  · simp [adviseApp, h]
  · cases j <;> simp [adviseApp, h, App.setSlot]

/-- Before `app.initialize()`: the importer is DISABLED or ENABLING (never ENABLED), the shell-level joinpoints, hook
    lists and disablers are untouched. -/
theorem PreInit_shell_untouched (cfg : Cfg) (ops : List AOp) (hpre : ∀ o ∈ ops, AOp.isPre o) :
    ∀ (a : App), a.inited = false → a.st.ai.disablers = [] →
      (a.st.ai.state = .disabled ∨ a.st.ai.state = .enabling) →
      let a' := runA cfg a ops
      a'.inited = false ∧ a'.st.sh = a.st.sh ∧ a'.st.ai.disablers = [] ∧ a'.st.ai.astT = a.st.ai.astT ∧
      (a'.st.ai.state = .disabled ∨ a'.st.ai.state = .enabling) := by
  induction ops with
  | nil => intro a hi hd hst; exact ⟨hi, rfl, hd, rfl, hst⟩
  | cons o os ih =>
    intro a hi hd hst
    have ho := hpre o (by simp)
    have hrest : ∀ o' ∈ os, AOp.isPre o' := fun o' h' => hpre o' (by simp [h'])
    -- one step
    have key : (stepA cfg a o).inited = false ∧ (stepA cfg a o).st.sh = a.st.sh ∧ (stepA cfg a o).st.ai.disablers = []
        ∧ (stepA cfg a o).st.ai.astT = a.st.ai.astT
        ∧ ((stepA cfg a o).st.ai.state = .disabled ∨ (stepA cfg a o).st.ai.state = .enabling) := by
      cases ho with
      | preEnable even =>
        have hstep : stepA cfg a (.preEnable even) = preEnable even a := by simp [stepA, hi]
        rw [hstep]
        unfold preEnable
        split
        · exact ⟨hi, rfl, hd, rfl, hst⟩
        · split
          · exact ⟨hi, rfl, hd, rfl, hst⟩
          · have h1 := adviseApp_st (adviseApp { a with st := { a.st with ai := { a.st.ai with errored := false, state := .enabling } } } .initShell) .initSub
            have h2 := adviseApp_st { a with st := { a.st with ai := { a.st.ai with errored := false, state := .enabling } } } .initShell
            refine ⟨?_, ?_, ?_, ?_, ?_⟩
            · rw [h1.2.2, h2.2.2]; exact hi
            · rw [h1.1, h2.1]
            · rw [h1.2.1, h2.2.1]; exact hd
            · rw [h1.2.1, h2.2.1]
            · right; rw [h1.2.1, h2.2.1]
      | disable =>
        simp only [stepA]
        unfold disableA
        split
        · exact ⟨hi, rfl, hd, rfl, hst⟩
        · rename_i hne
          rw [flush_st, flush_inited]
          refine ⟨hi, ?_, ?_, ?_, ?_⟩ <;> simp [disable, hne, hd]
    obtain ⟨k1, k2, k3, k4, k5⟩ := key
    have := ih hrest (stepA cfg a o) k1 k3 k5
    simp only [runA, List.foldl_cons] at this ⊢
    obtain ⟨r1, r2, r3, r4, r5⟩ := this
    exact ⟨r1, r2.trans k2, r3, r4.trans k4, r5⟩

/-! ## The two enable paths agree; after initialisation the shell-level model takes over -/

/-- Finishing a pending enable from the `init_shell` advice produces exactly the importer/shell state that
    `enable()` produces on the initialised shell (for every failure index of the enable steps). -/
theorem PreInit_paths_agree (cfg : Cfg) (fail : Option Nat) (a : App)
    (hst : a.st.ai.state = .enabling) (herr : a.st.ai.errored = false) :
    (continueEnable cfg fail a).st
      = enable cfg true fail { a.st with ai := { a.st.ai with state := .disabled } } := by
  have e1 : ({ a.st with ai := { ({ a.st.ai with state := EState.disabled } : Importer) with
                errored := false, state := .enabling } } : St) = a.st := by
    cases hs : a.st with
    | mk sh ai next =>
      cases hai : ai with
      | mk state errored disablers astT =>
        simp_all
  unfold continueEnable enable
  simp only [hst, ne_eq, not_true_eq_false, ↓reduceIte, Bool.and_false, Bool.false_eq_true, Bool.not_true,
    reduceCtorEq, not_false_eq_true]
  rw [e1]
  split
  · rw [flush_st]
  · rfl

theorem reloadExt_eq (cfg : Cfg) (fail : Option Nat) (st : St) :
    reloadExt cfg fail st = loadExt cfg fail (if st.sh.loaded then unloadExt st else st) := by
  unfold reloadExt
  by_cases h : st.sh.loaded
  · have hu : (unloadExt st).sh.loaded = false := by simp [unloadExt, h]
    simp [h, loadExt, hu]
  · simp [h]

/-- After initialisation a shell-level op changes the importer/shell part exactly as in `Pfb.Hooks.step`. -/
theorem stepA_sh_st (cfg : Cfg) (a : App) (op : Op) : (stepA cfg a (.sh op)).st = step cfg a.st op := by
  cases op <;> simp only [stepA, settle_st, step]
  rw [reloadExt_eq]

/-- ... hence for whole histories: every theorem of `Pfb.C14.Props` about `run` applies to the importer/shell part
    of an application that was enabled before it was initialised. -/
theorem runA_sh_st (cfg : Cfg) (ops : List Op) (a : App) :
    (runA cfg a (ops.map AOp.sh)).st = run cfg a.st ops := by
  induction ops generalizing a with
  | nil => rfl
  | cons o os ih =>
    simp only [List.map_cons, runA, List.foldl_cons, run] at ih ⊢
    rw [ih, stepA_sh_st]

/-! ## Witnesses: the hypotheses are satisfiable, the statements are not vacuous -/

/-- `enable; disable` before the initialisation, then `initialize; enable`: ENABLED with all hooks, and the app
    attributes are untouched while off -/
example :
    let a := runA Cfg.repaired App.init [.preEnable false, .disable, .init none]
    a.st.ai.state = .disabled ∧ a.initShell = .unset ∧ a.inited = true
      ∧ (runA Cfg.repaired a [.sh (.enable false none)]).st.ai.state = .enabled := by decide

/-- the ordinary start-up: `enable` before the initialisation → ENABLING with two disablers → ENABLED with 11 -/
example :
    (runA Cfg.repaired App.init [.preEnable false]).st.ai.state = .enabling
      ∧ (runA Cfg.repaired App.init [.preEnable false]).ndis = 2
      ∧ (runA Cfg.repaired App.init [.preEnable false, .init none]).st.ai.state = .enabled
      ∧ (runA Cfg.repaired App.init [.preEnable false, .init none]).ndis = 11
      ∧ (runA Cfg.repaired App.init [.preEnable false, .init none, .disable]).initShell = .unset := by decide

end Pfb.C14
