/-
  Pfb.C02.Props — property theorems for C02 (rewriting imports never changes what
  the program does): the import-block part.

  `reformat-imports` replaces a block of import statements `L` (source order) by
  some ordering `P` of `ImportSet(L, ignore_shadowed=True)` (sorted, merged by
  module — any permutation is covered).  Executing a block binds names; the last
  import that binds a name wins.  **C02_block_env**: for every block in which two
  imports that bind the same name under *different* `import_as` keys bind it to
  the same object (`Consistent`), every name has the same value after `P` as
  after `L`, whatever the environment before.  The excluded blocks are exactly
  the D10 family (`from x import a` + `import a.b`), witnessed below.

  What is *not* proved here: that a removed import is really unused (that is the
  scope analysis, C05's model) and CPython's import semantics themselves
  (loading side effects are outside the property's domain); both are covered by
  the side-by-side execution oracle.
-/
import Pfb.Blocks.Lemmas
import Pfb.C03.Props
namespace Pfb.C02
open Pfb Pfb.Blocks

/-- An abstract semantics of import statements: which names an import binds
    (`names`; for a non-star import exactly the first component of `import_as`,
    for a star import the module's export list — a parameter) and to what
    (`obj`). -/
structure Sem (Obj : Type) where
  starNames : Imp → List Str
  obj : Imp → Str → Obj

def boundName (i : Imp) : Str := (splitDots i.importAs).headD []

def binds {Obj} (sem : Sem Obj) (n : Str) (i : Imp) : Bool :=
  if isStar i then (sem.starNames i).contains n else boundName i = n

/-- value of `n` after executing the imports of `L` in order on top of `env` -/
def after {Obj} (sem : Sem Obj) (L : List Imp) (env : Str → Option Obj) (n : Str) : Option Obj :=
  match L.reverse.find? (binds sem n) with
  | some i => some (sem.obj i n)
  | none => env n

/-- step-by-step execution: each import overwrites the names it binds -/
def execOne {Obj} (sem : Sem Obj) (env : Str → Option Obj) (i : Imp) : Str → Option Obj :=
  fun n => if binds sem n i then some (sem.obj i n) else env n

theorem find?_append_singleton {α} (p : α → Bool) (A : List α) (i : α) :
    (A ++ [i]).find? p = match A.find? p with
      | some a => some a
      | none => if p i then some i else none := by
  induction A with
  | nil => simp [List.find?_cons]; split <;> simp_all
  | cons a as ih =>
    simp only [List.cons_append, List.find?_cons]
    cases h : p a <;> simp [ih]

theorem after_cons {Obj} (sem : Sem Obj) (i : Imp) (L : List Imp) (env : Str → Option Obj) :
    after sem (i :: L) env = after sem L (execOne sem env i) := by
  funext n
  unfold after execOne
  rw [List.reverse_cons, find?_append_singleton]
  cases h : L.reverse.find? (binds sem n) with
  | some a => simp
  | none =>
    simp only []
    by_cases hb : binds sem n i = true
    · simp [hb]
    · simp [hb]

theorem after_eq_foldl {Obj} (sem : Sem Obj) (L : List Imp) (env : Str → Option Obj) :
    after sem L env = L.foldl (execOne sem) env := by
  induction L generalizing env with
  | nil => funext n; simp [after]
  | cons i L ih => rw [after_cons, ih]; rfl

/-- two imports of the block that bind the same name under different keys (or
    through a star) bind it to the same object -/
def Consistent {Obj} (sem : Sem Obj) (L : List Imp) : Prop :=
  ∀ i ∈ L, ∀ j ∈ L, ∀ n, binds sem n i = true → binds sem n j = true →
    (isStar i = true ∨ isStar j = true ∨ i.importAs ≠ j.importAs) → sem.obj i n = sem.obj j n

def keyIs (k : Str) (i : Imp) : Bool := !isStar i && i.importAs = k

/-! #### facts about `fromImportsShadow` -/

theorem addShadow_mem (acc : List Imp) (i x : Imp) (h : x ∈ addShadow acc i) : x ∈ acc ∨ x = i := by
  unfold addShadow at h
  split at h
  · split at h
    · left; exact h
    · simp at h; exact h
  · split at h
    · simp only [List.mem_map] at h
      obtain ⟨y, hy, rfl⟩ := h
      split
      · right; rfl
      · left; exact hy
    · simp at h; exact h

theorem shadow_subset (L : List Imp) : ∀ x ∈ fromImportsShadow L, x ∈ L := by
  unfold fromImportsShadow
  have : ∀ acc : List Imp, ∀ x ∈ L.foldl addShadow acc, x ∈ acc ∨ x ∈ L := by
    induction L with
    | nil => intro acc x hx; left; exact hx
    | cons i L ih =>
      intro acc x hx
      simp only [List.foldl_cons] at hx
      rcases ih _ x hx with h | h
      · rcases addShadow_mem acc i x h with h | h
        · left; exact h
        · right; simp [h]
      · right; simp [h]
  intro x hx
  rcases this [] x hx with h | h
  · simp at h
  · exact h

/-- invariant of the fold: every non-star member is the last import with its key
    seen so far; every star seen so far is a member; every key seen so far has a
    member -/
structure ShadowInv (L acc : List Imp) : Prop where
  last : ∀ j ∈ acc, isStar j = false → L.reverse.find? (keyIs j.importAs) = some j
  stars : ∀ i ∈ L, isStar i = true → i ∈ acc
  keys : ∀ i ∈ L, isStar i = false → ∃ j ∈ acc, isStar j = false ∧ j.importAs = i.importAs

theorem shadowInv_step (L acc : List Imp) (i : Imp) (h : ShadowInv L acc) :
    ShadowInv (L ++ [i]) (addShadow acc i) := by
  have hrev : (L ++ [i]).reverse = i :: L.reverse := by simp
  constructor
  · intro j hj sj
    rw [hrev, List.find?_cons]
    unfold addShadow at hj
    by_cases hs : isStar i = true
    · have hk : keyIs j.importAs i = false := by simp [keyIs, hs]
      rw [hk]
      rw [if_pos hs] at hj
      split at hj
      · exact h.last j hj sj
      · simp at hj
        rcases hj with hj | rfl
        · exact h.last j hj sj
        · simp [hs] at sj
    · have hs' : isStar i = false := by simpa using hs
      rw [if_neg hs] at hj
      split at hj
      · simp only [List.mem_map] at hj
        obtain ⟨y, hy, hyj⟩ := hj
        by_cases c : (!isStar y && decide (y.importAs = i.importAs)) = true
        · rw [if_pos c] at hyj
          subst hyj
          simp [keyIs, hs']
        · rw [if_neg c] at hyj
          subst hyj
          have hne : keyIs y.importAs i = false := by
            simp [keyIs, hs']
            intro heq
            apply c
            simp [sj, heq]
          rw [hne]
          exact h.last y hy sj
      · rename_i hany
        simp at hj
        rcases hj with hj | rfl
        · have hne : keyIs j.importAs i = false := by
            simp [keyIs, hs']
            intro heq
            simp at hany
            exact hany j hj sj heq.symm
          rw [hne]
          exact h.last j hj sj
        · simp [keyIs, hs']
  · intro x hx sx
    simp at hx
    unfold addShadow
    rcases hx with hx | rfl
    · have hm := h.stars x hx sx
      split
      · split
        · exact hm
        · simp [hm]
      · split
        · simp only [List.mem_map]
          refine ⟨x, hm, ?_⟩
          simp [sx]
        · simp [hm]
    · rw [if_pos sx]
      split
      · assumption
      · simp
  · intro x hx sx
    simp at hx
    unfold addShadow
    by_cases hs : isStar i = true
    · rw [if_pos hs]
      rcases hx with hx | rfl
      · obtain ⟨j, hj, sj, hk⟩ := h.keys x hx sx
        split
        · exact ⟨j, hj, sj, hk⟩
        · exact ⟨j, by simp [hj], sj, hk⟩
      · simp [hs] at sx
    · have hs' : isStar i = false := by simpa using hs
      rw [if_neg hs]
      rcases hx with hx | rfl
      · obtain ⟨j, hj, sj, hk⟩ := h.keys x hx sx
        split
        · by_cases c : (!isStar j && decide (j.importAs = i.importAs)) = true
          · refine ⟨i, ?_, hs', ?_⟩
            · simp only [List.mem_map]; exact ⟨j, hj, by simp [c]⟩
            · simp at c; rw [← c.2, hk]
          · refine ⟨j, ?_, sj, hk⟩
            simp only [List.mem_map]; exact ⟨j, hj, by simp [c]⟩
        · exact ⟨j, by simp [hj], sj, hk⟩
      · split
        · rename_i hany
          simp at hany
          obtain ⟨y, hy, sy, hyk⟩ := hany
          refine ⟨x, ?_, hs', rfl⟩
          simp only [List.mem_map]
          exact ⟨y, hy, by simp [sy, hyk]⟩
        · exact ⟨x, by simp, hs', rfl⟩

theorem shadowInv (L : List Imp) : ShadowInv L (fromImportsShadow L) := by
  unfold fromImportsShadow
  have : ∀ (pre L : List Imp) (acc : List Imp), ShadowInv pre acc →
      ShadowInv (pre ++ L) (L.foldl addShadow acc) := by
    intro pre L
    induction L generalizing pre with
    | nil => intro acc h; simpa using h
    | cons i L ih =>
      intro acc h
      have := ih (pre ++ [i]) (addShadow acc i) (shadowInv_step pre acc i h)
      simpa using this
  have h0 : ShadowInv [] [] := ⟨by simp, by simp, by simp⟩
  simpa using this [] L [] h0

/-! #### the theorem -/

theorem find?_weaker {α} (p q : α → Bool) (R : List α) (a : α)
    (hqp : ∀ x, q x = true → p x = true) (hf : R.find? p = some a) (hq : q a = true) :
    R.find? q = some a := by
  induction R with
  | nil => simp at hf
  | cons x xs ih =>
    simp only [List.find?_cons] at hf ⊢
    by_cases hpx : p x = true
    · simp [hpx] at hf; subst hf; simp [hq]
    · have hqx : q x = false := by
        cases h : q x with
        | false => rfl
        | true => exact absurd (hqp x h) hpx
      simp only [hpx, hqx] at hf ⊢
      exact ih hf

theorem binds_of_key {Obj} (sem : Sem Obj) (i j : Imp) (n : Str)
    (si : isStar i = false) (sj : isStar j = false) (hk : i.importAs = j.importAs)
    (hb : binds sem n i = true) : binds sem n j = true := by
  unfold binds boundName at *
  simp [si, sj] at hb ⊢
  rw [← hk]; exact hb

/-- **C02_block_env** — re-rendering a block of imports (dedup keeping the last
    binding per `import_as`, any order) leaves every name bound to the same
    object, for every block in which imports that share a bound name under
    different keys agree on the object. -/
theorem C02_block_env {Obj} (sem : Sem Obj) (L P : List Imp)
    (hperm : P.Perm (fromImportsShadow L)) (H : Consistent sem L)
    (env : Str → Option Obj) (n : Str) :
    after sem P env n = after sem L env n := by
  have inv := shadowInv L
  have hsub := shadowInv L |>.last
  have memP : ∀ x, x ∈ P ↔ x ∈ fromImportsShadow L := fun x => hperm.mem_iff
  unfold after
  cases hL : L.reverse.find? (binds sem n) with
  | none =>
    -- nobody in L binds n, hence nobody in P
    have hnone : ∀ x ∈ L, binds sem n x = false := by
      intro x hx
      have := List.find?_eq_none.mp hL x (by simpa using hx)
      simpa using this
    have : P.reverse.find? (binds sem n) = none := by
      apply List.find?_eq_none.mpr
      intro x hx
      have hxP : x ∈ P := by simpa using hx
      have := hnone x (shadow_subset L x ((memP x).mp hxP))
      simp [this]
    simp [this]
  | some iL =>
    have hiL_mem : iL ∈ L := by
      have := List.mem_of_find?_eq_some hL; simpa using this
    have hiL_b : binds sem n iL = true := List.find?_some hL
    -- some member of P binds n
    have hex : ∃ x ∈ P, binds sem n x = true := by
      by_cases s : isStar iL = true
      · exact ⟨iL, (memP iL).mpr (inv.stars iL hiL_mem s), hiL_b⟩
      · have s' : isStar iL = false := by simpa using s
        obtain ⟨j, hj, sj, hk⟩ := inv.keys iL hiL_mem s'
        exact ⟨j, (memP j).mpr hj, binds_of_key sem iL j n s' sj hk.symm hiL_b⟩
    cases hP : P.reverse.find? (binds sem n) with
    | none =>
      obtain ⟨x, hx, hb⟩ := hex
      have := List.find?_eq_none.mp hP x (by simpa using hx)
      simp [hb] at this
    | some iP =>
      simp only []
      congr 1
      have hiP_memP : iP ∈ P := by
        have := List.mem_of_find?_eq_some hP; simpa using this
      have hiP_S : iP ∈ fromImportsShadow L := (memP iP).mp hiP_memP
      have hiP_L : iP ∈ L := shadow_subset L iP hiP_S
      have hiP_b : binds sem n iP = true := List.find?_some hP
      by_cases sP : isStar iP = true
      · exact H iP hiP_L iL hiL_mem n hiP_b hiL_b (Or.inl sP)
      by_cases sL : isStar iL = true
      · exact H iP hiP_L iL hiL_mem n hiP_b hiL_b (Or.inr (Or.inl sL))
      by_cases hk : iP.importAs = iL.importAs
      · -- both non-star with the same key: they are the same import
        have sP' : isStar iP = false := by simpa using sP
        have sL' : isStar iL = false := by simpa using sL
        have h1 : L.reverse.find? (keyIs iP.importAs) = some iP := inv.last iP hiP_S sP'
        have h2 : L.reverse.find? (keyIs iP.importAs) = some iL := by
          apply find?_weaker (binds sem n) (keyIs iP.importAs) L.reverse iL _ hL
          · simp [keyIs, sL', hk]
          · intro x hx
            simp [keyIs] at hx
            exact binds_of_key sem iP x n sP' hx.1 hx.2.symm hiP_b
        rw [h1] at h2
        cases h2; rfl
      · exact H iP hiP_L iL hiL_mem n hiP_b hiL_b (Or.inr (Or.inr hk))

/-- Corollary in the step-by-step reading: executing the re-rendered block
    statement by statement gives the same environment as executing the original. -/
theorem C02_block_env_exec {Obj} (sem : Sem Obj) (L P : List Imp)
    (hperm : P.Perm (fromImportsShadow L)) (H : Consistent sem L) (env : Str → Option Obj) :
    P.foldl (execOne sem) env = L.foldl (execOne sem) env := by
  rw [← after_eq_foldl, ← after_eq_foldl]
  funext n
  exact C02_block_env sem L P hperm H env n

/-! ### Witness: the excluded family (D10) really breaks the conclusion -/

def semD10 : Sem String :=
  { starNames := fun _ => [],
    obj := fun i _ => String.ofList i.fullname }

def d10Block : List Imp := [⟨"x.a".toList, "a".toList⟩, ⟨"a.b".toList, "a.b".toList⟩]
/-- what `get_statements` emits: plain imports first -/
def d10Sorted : List Imp := [⟨"a.b".toList, "a.b".toList⟩, ⟨"x.a".toList, "a".toList⟩]

example : fromImportsShadow d10Block = d10Block := by decide
example : d10Sorted.Perm (fromImportsShadow d10Block) := by
  have : fromImportsShadow d10Block = d10Block := by decide
  rw [this]; exact List.Perm.swap _ _ _
/-- after the original block `a` is the package `a`; after the sorted block it is `x.a` -/
theorem C02_d10_witness :
    after semD10 d10Block (fun _ => none) "a".toList ≠ after semD10 d10Sorted (fun _ => none) "a".toList := by
  decide

/-! ### Non-vacuity: a consistent block with shadowing and a shared package name -/

def okBlock : List Imp :=
  [⟨"pa.f".toList, "f".toList⟩, ⟨"pa.s1".toList, "pa.s1".toList⟩, ⟨"pb.f".toList, "f".toList⟩,
   ⟨"pa.s2".toList, "pa.s2".toList⟩]

def semOk : Sem String :=
  { starNames := fun _ => [],
    obj := fun i n => if i.importAs = i.fullname then String.ofList n else String.ofList i.fullname }

example : fromImportsShadow okBlock
    = [⟨"pb.f".toList, "f".toList⟩, ⟨"pa.s1".toList, "pa.s1".toList⟩, ⟨"pa.s2".toList, "pa.s2".toList⟩] := by decide
example : after semOk okBlock (fun _ => none) "f".toList = some "pb.f" := by decide
example : after semOk okBlock (fun _ => none) "pa".toList = some "pa" := by decide

end Pfb.C02
