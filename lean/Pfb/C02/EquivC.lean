/-
  Pfb.C02.EquivC — property C02 (rewriting imports never changes what the program does), the reformat-imports half on
  the REFERENCE SEMANTICS `Pfb.PyCore.Exec`, lifted from fragment B (`Pfb.C02.Equiv`) to FRAGMENT C
  (`Pfb.C05.FragB.fragC`): straight-line module level + module-level `def f(p1..pk): <straight-line body>` + the calls
  `f(e1..ek)` after the last module-level statement (`runProgram F body calls`).  The reads made by function bodies are
  deferred to the trailing calls; the theorems below cover them.

  How it is put together
  * §1  values of fragment C (`validC`: function objects may sit in the globals and in cells).
  * §2  frame property `GF`: an import statement reads neither the globals nor the function table nor the cells and
        writes the globals only by assignments — so `importStmt_spec` of `Pfb.C02.Equiv` (proved under `MInv`, which
        forbids function objects in the globals) transfers to states with function objects (`importStmt_specC`, §3).
  * §4  the simulation relation `PG D M M' s s'` of two runs (globals up to module numbering, same builtins, same
        closures, same records, pointwise related cells), `CR` = related results of two computations.
  * §5  expressions in any non-class scope (`evalRelC`), §6 function bodies (`stmtRelF`, `stmtsRelF`),
        §7 calling a closure (`callBody_rel`: THE KEY LEMMA — executing a function body in two related states gives
        related results), §8 the trailing calls, §9 module level (`stmtRelM`, `reorder_coreC`,
        **`C02_reorder_equiv_fragC`**), §10 **`C02_late_import_read_by_function`** + computed witness.
-/
import Pfb.C02.Equiv
import Pfb.C05.LemmasD
namespace Pfb.C02
open Pfb Pfb.PyCore Pfb.C05

/-! ## 1. values of fragment C: function objects are allowed -/

mutual
  /-- a value of fragment C (no class objects) whose module numbers are all below `n`; function numbers are free -/
  def validC (n : Nat) : RVal → Bool
    | .seq vs => validCs n vs
    | .mod i => decide (i < n)
    | .cls _ => false
    | _ => true
  def validCs (n : Nat) : List RVal → Bool
    | [] => true
    | v :: vs => validC n v && validCs n vs
end

mutual
  theorem absVal_extC {M M2 : List ModObj} (h : Ext M M2) : ∀ v, validC M.length v = true → absVal M2 v = absVal M v
    | .opq, _ => rfl
    | .rigid, _ => rfl
    | .none, _ => rfl
    | .bool _, _ => rfl
    | .func _, _ => rfl
    | .cls _, hv => by simp [validC] at hv
    | .mod i, hv => by
      simp only [validC, decide_eq_true_eq] at hv
      simp only [absVal, h.2 i hv]
    | .seq vs, hv => by
      simp only [validC] at hv
      simp only [absVal, absVals_extC h vs hv]
  theorem absVals_extC {M M2 : List ModObj} (h : Ext M M2) : ∀ vs, validCs M.length vs = true → absVals M2 vs = absVals M vs
    | [], _ => rfl
    | v :: vs, hv => by
      simp only [validCs, Bool.and_eq_true] at hv
      simp only [absVals, absVal_extC h v hv.1, absVals_extC h vs hv.2]
end

mutual
  theorem validC_mono {n n2 : Nat} (h : n ≤ n2) : ∀ v, validC n v = true → validC n2 v = true
    | .opq, _ => rfl
    | .rigid, _ => rfl
    | .none, _ => rfl
    | .bool _, _ => rfl
    | .func _, _ => rfl
    | .cls _, hv => by simp [validC] at hv
    | .mod i, hv => by
      simp only [validC, decide_eq_true_eq] at hv ⊢; omega
    | .seq vs, hv => by
      simp only [validC] at hv ⊢; exact validCs_mono h vs hv
  theorem validCs_mono {n n2 : Nat} (h : n ≤ n2) : ∀ vs, validCs n vs = true → validCs n2 vs = true
    | [], _ => rfl
    | v :: vs, hv => by
      simp only [validCs, Bool.and_eq_true] at hv ⊢
      exact ⟨validC_mono h v hv.1, validCs_mono h vs hv.2⟩
end

mutual
  theorem validC_of_validV {n : Nat} : ∀ v, validV n v = true → validC n v = true
    | .opq, _ => rfl
    | .rigid, _ => rfl
    | .none, _ => rfl
    | .bool _, _ => rfl
    | .func _, hv => by simp [validV] at hv
    | .cls _, hv => by simp [validV] at hv
    | .mod i, hv => by simpa [validV, validC] using hv
    | .seq vs, hv => by
      simp only [validV] at hv; simp only [validC]; exact validCs_of_validVs vs hv
  theorem validCs_of_validVs {n : Nat} : ∀ vs, validVs n vs = true → validCs n vs = true
    | [], _ => rfl
    | v :: vs, hv => by
      simp only [validVs, Bool.and_eq_true] at hv
      simp only [validCs, Bool.and_eq_true]
      exact ⟨validC_of_validV v hv.1, validCs_of_validVs vs hv.2⟩
end

theorem validCs_append (n : Nat) (a b : List RVal) : validCs n (a ++ b) = (validCs n a && validCs n b) := by
  induction a with
  | nil => simp [validCs]
  | cons x xs ih => simp [validCs, ih, Bool.and_assoc]

/-! ## 2. import statements do not read the globals, the function table or the cells -/

/-- replace the three components that an import statement does not read -/
def put (s : XState) (g : List (Str × RVal)) (fs : List Closure) (cs : List (Option RVal)) : XState :=
  { s with globals := g, funcs := fs, cells := cs }

def base (s : XState) : XState := put s [] [] []

theorem put_base (s : XState) : put (base s) s.globals s.funcs s.cells = s := rfl
theorem put_put (s : XState) (g g2 fs fs2 cs cs2) : put (put s g fs cs) g2 fs2 cs2 = put s g2 fs2 cs2 := rfl

/-- a sequence of writes to the globals -/
def applyW (wr : List (Str × RVal)) (g : List (Str × RVal)) : List (Str × RVal) :=
  wr.foldl (fun g x => assocSet x.1 x.2 g) g

/-- the last value written to `k` -/
def lookupW : List (Str × RVal) → Str → Option RVal
  | [], _ => none
  | (n, v) :: wr, k => match lookupW wr k with
    | some w => some w
    | none => if k = n then some v else none

theorem assocGet_applyW (k : Str) : ∀ (wr : List (Str × RVal)) (g : List (Str × RVal)),
    assocGet k (applyW wr g) = match lookupW wr k with | some w => some w | none => assocGet k g
  | [], g => rfl
  | (n, v) :: wr, g => by
    show assocGet k (applyW wr (assocSet n v g)) = _
    rw [assocGet_applyW k wr, lookupW]
    cases lookupW wr k with
    | some w => rfl
    | none =>
      simp only [assocGet_assocSet]
      split <;> rfl

/-- **frame property**: the computation reads neither the globals nor the function table nor the cells, and its only
    writes to them are assignments `globals[n] = v` (the list `wr`, which does not depend on the three components) -/
def GF {α} (m : X α) : Prop :=
  ∀ s, ∃ wr, ∀ g fs cs, m (put s g fs cs) = (put (m s).1 (applyW wr g) fs cs, (m s).2)

theorem GF.bind {α β} {m : X α} {k : α → X β} (h1 : GF m) (h2 : ∀ a, GF (k a)) : GF (m >>= k) := by
  intro s
  obtain ⟨wr1, e1⟩ := h1 s
  cases hm : m s with
  | mk t r =>
    rw [hm] at e1
    cases r with
    | ok a =>
      obtain ⟨wr2, e2⟩ := h2 a t
      refine ⟨wr1 ++ wr2, fun g fs cs => ?_⟩
      simp only [X.bind_def, e1, hm]
      rw [e2]
      simp [applyW, List.foldl_append]
    | error e =>
      refine ⟨wr1, fun g fs cs => ?_⟩
      simp only [X.bind_def, e1, hm]

theorem GF.ofPure {α} (a : α) : GF (pure a : X α) := fun _ => ⟨[], fun _ _ _ => rfl⟩
theorem GF.ofRaiseOther {α} : GF (raiseOther : X α) := fun _ => ⟨[], fun _ _ _ => rfl⟩
theorem GF.ofThrow {α} (e : Exc) : GF (X.throw e : X α) := fun _ => ⟨[], fun _ _ _ => rfl⟩
theorem GF.setLine (l : Nat) : GF (X.modify (fun st => { st with line := l })) := fun _ => ⟨[], fun _ _ _ => rfl⟩

theorem GF.ofBindImport (n : Str) (v : RVal) (idx : Nat) : GF (bindImport {} n v idx) :=
  fun _ => ⟨[(n, v)], fun _ _ _ => rfl⟩

theorem GF.ofLoadModule (d : Str) : GF (loadModule d) := by
  intro s
  refine ⟨[], fun g fs cs => ?_⟩
  unfold loadModule
  simp only [put, applyW, List.foldl_nil]
  split
  · rfl
  · split
    · rfl
    · split
      · rfl
      · split <;> rfl

theorem GF.ofImportChain : ∀ (L : List (List Str)) (top : Option Nat), GF (importChain L top)
  | [], top => GF.ofPure _
  | a :: L, top => by
    rw [importChain_cons]
    refine GF.bind (GF.ofLoadModule _) (fun id => ?_)
    split
    · exact GF.ofPure _
    · exact GF.ofImportChain L _

theorem GF.ofBindAlias (a : Alias) (tl : Option Nat × Option Nat) (idx : Nat) : GF (bindAlias {} a tl idx) := by
  unfold bindAlias
  split
  · exact GF.ofBindImport _ _ _
  · exact GF.ofBindImport _ _ _
  · exact GF.ofRaiseOther

theorem GF.ofFromValue (m : Str) (leaf : Nat) (a : Alias) : GF (fun s => fromValue s m leaf a s) := by
  intro s
  have hinner : GF (fromValue s m leaf a) := by
    unfold fromValue
    split
    · exact GF.ofPure _
    · split
      · exact GF.bind (GF.ofLoadModule _) (fun id => GF.ofPure _)
      · exact GF.ofRaiseOther
  obtain ⟨wr, e⟩ := hinner s
  exact ⟨wr, fun g fs cs => e g fs cs⟩

theorem GF.ofImportAliases : ∀ (f idx : Nat) (names : List Alias), GF (importAliases f {} idx names)
  | 0, _, _ => by rw [importAliases]; exact GF.ofThrow _
  | _ + 1, _, [] => by rw [importAliases]; exact GF.ofPure _
  | f + 1, idx, a :: r => by
    rw [importAliases]
    refine GF.bind (GF.ofImportChain _ _) (fun tl => ?_)
    refine GF.bind (GF.ofBindAlias a tl idx) (fun _ => ?_)
    exact GF.ofImportAliases f (idx + 1) r

theorem GF.ofImportFromAliases (m : Str) (leaf : Nat) : ∀ (f idx : Nat) (names : List Alias),
    GF (importFromAliases f {} m leaf idx names)
  | 0, _, _ => by rw [importFromAliases]; exact GF.ofThrow _
  | _ + 1, _, [] => by rw [importFromAliases]; exact GF.ofPure _
  | f + 1, idx, a :: r => by
    have : importFromAliases (f + 1) {} m leaf idx (a :: r) =
        ((fun s => fromValue s m leaf a s) >>= fun v => (bindImport {} (aliasBinds a) v idx >>=
          fun _ => importFromAliases f {} m leaf (idx + 1) r)) := by
      rw [importFromAliases]; rfl
    rw [this]
    refine GF.bind (GF.ofFromValue m leaf a) (fun v => ?_)
    refine GF.bind (GF.ofBindImport _ _ _) (fun _ => ?_)
    exact GF.ofImportFromAliases m leaf f (idx + 1) r

theorem GF.ofImport : ∀ (st : Stmt) (f : Nat), isImport st = true → GF (execStmt f {} st)
  | _, 0, _ => by rw [execStmt]; exact GF.ofThrow _
  | .import_ names, f + 1, _ => by
    rw [execStmt]
    exact GF.bind (GF.ofImportAliases f 0 names) (fun _ => GF.ofPure _)
  | .importFrom m names, f + 1, _ => by
    rw [execStmt]
    refine GF.bind (GF.ofImportChain _ _) (fun tl => ?_)
    split
    · exact GF.bind (GF.ofImportFromAliases m _ f 0 names) (fun _ => GF.ofPure _)
    · exact GF.ofRaiseOther
  | .located l st, f + 1, hi => by
    rw [execStmt]
    exact GF.bind (GF.setLine l) (fun _ => GF.ofImport st f hi)
  | .expr _, _ + 1, hi => by cases hi
  | .assign _ _, _ + 1, hi => by cases hi
  | .augAssign _ _, _ + 1, hi => by cases hi
  | .annAssign _ _ _, _ + 1, hi => by cases hi
  | .funcDef _ _ _ _ _, _ + 1, hi => by cases hi
  | .classDef _ _ _ _, _ + 1, hi => by cases hi
  | .for_ _ _ _ _, _ + 1, hi => by cases hi
  | .while_ _ _ _, _ + 1, hi => by cases hi
  | .if_ _ _ _, _ + 1, hi => by cases hi
  | .with_ _ _, _ + 1, hi => by cases hi
  | .try_ _ _ _ _, _ + 1, hi => by cases hi
  | .return_ _, _ + 1, hi => by cases hi
  | .pass, _ + 1, hi => by cases hi
  | .raise_ _, _ + 1, hi => by cases hi
  | .delete _, _ + 1, hi => by cases hi
  | .global_ _, _ + 1, hi => by cases hi
  | .nonlocal_ _, _ + 1, hi => by cases hi

/-! ## 3. the invariant of fragment C and the effect of an import statement under it -/

/-- the module-table invariant `MInv` on the state without globals, plus: every global is a value of fragment C -/
structure MInvC (s : XState) : Prop where
  tab : MInv (base s)
  gv : ∀ n v, assocGet n s.globals = some v → validC s.mods.length v = true

theorem MInv.dropG {s : XState} (h : MInv s) (fs : List Closure) (cs : List (Option RVal)) : MInv (put s [] fs cs) :=
  ⟨h.wf1, h.wf2, h.canon, h.closed, fun _ _ hk => by cases hk⟩

theorem MInvC.ofMInv {s : XState} (h : MInv s) : MInvC s :=
  ⟨h.dropG [] [], fun n v hk => validC_of_validV v (h.gv n v hk)⟩

theorem foldl_aStep_base : ∀ (A : List Atom) (g : Str → Option AVal) (k : Str),
    A.foldl aStep g k = match A.foldl aStep (fun _ => none) k with | some v => some v | none => g k
  | [], g, k => rfl
  | x :: A, g, k => by
    simp only [List.foldl_cons]
    rw [foldl_aStep_base A (aStep g x) k, foldl_aStep_base A (aStep (fun _ => none) x) k]
    cases A.foldl aStep (fun _ => none) k with
    | some v => rfl
    | none =>
      simp only [aStep]
      split <;> rfl

/-- the effect of (part of) an import statement in fragment C -/
structure IResC (s s1 : XState) (atoms : List Atom) (loads : List Str) : Prop where
  inv : MInvC s1
  obs : SameObs s s1
  ext : Ext s.mods s1.mods
  loaded : ∀ d', isLoaded s1 d' = (isLoaded s d' || loads.contains d')
  glob : absG s1 = atoms.foldl aStep (absG s)
  funcs : s1.funcs = s.funcs
  cells : s1.cells = s.cells

theorem importStmt_specC (st : Stmt) (f : Nat) (s : XState) (hinv : MInvC s) (hi : isImport st = true)
    (hok : importOK st = true) (hf : needI st ≤ f) :
    ∃ s1, execStmt f {} st s = (s1, .ok .normal) ∧ IResC s s1 (stmtAtoms st) (stmtLoads st) := by
  obtain ⟨b1, hb, r⟩ := importStmt_spec st f (base s) hinv.tab hi hok hf
  obtain ⟨wr, e⟩ := GF.ofImport st f hi (base s)
  rw [hb] at e
  have e1 := e s.globals s.funcs s.cells
  rw [put_base] at e1
  have e0 := e [] [] []
  have hb0 : put (base s) [] [] [] = base s := rfl
  rw [hb0, hb] at e0
  have hg0 : b1.globals = applyW wr [] := by
    have := congrArg (fun p => p.1.globals) e0
    simpa [put] using this
  refine ⟨_, e1, ?_⟩
  have hlook : ∀ k, assocGet k (applyW wr s.globals) =
      match assocGet k b1.globals with | some w => some w | none => assocGet k s.globals := by
    intro k
    rw [assocGet_applyW, hg0, assocGet_applyW]
    cases lookupW wr k <;> rfl
  have hext : Ext s.mods b1.mods := r.ext
  refine ⟨⟨(r.inv.dropG [] []), ?_⟩, ⟨r.obs.1, r.obs.2, r.obs.3, r.obs.4, r.obs.5⟩, hext, r.loaded, ?_, rfl, rfl⟩
  · intro k v hk
    simp only [put] at hk ⊢
    rw [hlook] at hk
    cases hb1 : assocGet k b1.globals with
    | some w =>
      rw [hb1] at hk
      have hwv : w = v := by simpa using hk
      subst hwv
      exact validC_of_validV _ (r.inv.gv k w hb1)
    | none =>
      rw [hb1] at hk
      exact validC_mono hext.1 v (hinv.gv k v hk)
  · funext k
    rw [foldl_aStep_base]
    have hgb : absG b1 = (stmtAtoms st).foldl aStep (fun _ => none) := by
      rw [r.glob]; rfl
    rw [← hgb]
    show (assocGet k (applyW wr s.globals)).map (absVal b1.mods) = _
    rw [hlook]
    simp only [absG]
    cases hb1 : assocGet k b1.globals with
    | some w => rfl
    | none =>
      simp only [Option.map_none]
      cases hs : assocGet k s.globals with
      | none => rfl
      | some v =>
        simp only [Option.map_some]
        rw [absVal_extC hext v (hinv.gv k v hs)]

/-! ## 4. two runs side by side in fragment C -/

def VRC (M M' : List ModObj) (v v' : RVal) : Prop :=
  validC M.length v = true ∧ validC M'.length v' = true ∧ absVal M v = absVal M' v'
def VRCs (M M' : List ModObj) (vs vs' : List RVal) : Prop :=
  validCs M.length vs = true ∧ validCs M'.length vs' = true ∧ absVals M vs = absVals M' vs'

/-- related contents of a cell -/
def ORel (M M' : List ModObj) : Option RVal → Option RVal → Prop
  | none, none => True
  | some v, some v' => VRC M M' v v'
  | _, _ => False

theorem VRC.inv {M M' : List ModObj} {v v' : RVal} (h : VRC M M' v v') :
    match v with
    | .opq => v' = .opq
    | .rigid => v' = .rigid
    | .none => v' = .none
    | .bool b => v' = .bool b
    | .seq vs => ∃ vs', v' = .seq vs' ∧ VRCs M M' vs vs'
    | .func i => v' = .func i
    | .cls _ => False
    | .mod i => ∃ j, v' = .mod j ∧ i < M.length ∧ j < M'.length ∧ nm M i = nm M' j := by
  obtain ⟨h1, h2, h3⟩ := h
  cases v <;> cases v' <;> simp [absVal, validC] at h1 h2 h3 ⊢
  · exact h3.symm
  · exact ⟨h1, h2, h3⟩
  · exact h3.symm
  · exact ⟨h1, h2, h3⟩

theorem VRC.isOM {M M' : List ModObj} {v v' : RVal} (h : VRC M M' v v') : isOM v = isOM v' := by
  have hi := h.inv
  cases v <;> simp only at hi
  · subst hi; rfl
  · subst hi; rfl
  · subst hi; rfl
  · subst hi; rfl
  · obtain ⟨_, rfl, _⟩ := hi; rfl
  · subst hi; rfl
  · obtain ⟨_, rfl, _⟩ := hi; rfl

theorem VRC.seqOf {M M' : List ModObj} {v v' : RVal} (h : VRC M M' v v') :
    match seqOf v, seqOf v' with
    | some x, some y => VRCs M M' x y
    | none, none => True
    | _, _ => False := by
  have hi := h.inv
  cases v <;> simp only at hi
  · subst hi; trivial
  · subst hi; trivial
  · subst hi; trivial
  · subst hi; trivial
  · obtain ⟨_, rfl, h2⟩ := hi; exact h2
  · subst hi; trivial
  · obtain ⟨_, rfl, _⟩ := hi; trivial

theorem VRC.ofSeq {M M' : List ModObj} {x y : List RVal} (h : VRCs M M' x y) : VRC M M' (.seq x) (.seq y) := by
  obtain ⟨h1, h2, h3⟩ := h
  exact ⟨by simpa [validC] using h1, by simpa [validC] using h2, by simp [absVal, h3]⟩

theorem VRCs.append {M M' : List ModObj} {x x' y y' : List RVal} (h1 : VRCs M M' x x') (h2 : VRCs M M' y y') :
    VRCs M M' (x ++ y) (x' ++ y') :=
  ⟨by rw [validCs_append, h1.1, h2.1]; rfl, by rw [validCs_append, h1.2.1, h2.2.1]; rfl,
   by rw [absVals_append, absVals_append, h1.2.2, h2.2.2]⟩

theorem VRCs.cons {M M' : List ModObj} {v v' : RVal} {x x' : List RVal} (h1 : VRC M M' v v') (h2 : VRCs M M' x x') :
    VRCs M M' (v :: x) (v' :: x') :=
  ⟨by simp [validCs, h1.1, h2.1], by simp [validCs, h1.2.1, h2.2.1], by simp [absVals, h1.2.2, h2.2.2]⟩

theorem VRCs.nil (M M' : List ModObj) : VRCs M M' [] [] := ⟨rfl, rfl, rfl⟩

theorem VRC.truthy {M M' : List ModObj} {v v' : RVal} (h : VRC M M' v v') : truthy v = truthy v' := by
  have hi := h.inv
  cases v <;> simp only at hi
  · subst hi; rfl
  · subst hi; rfl
  · subst hi; rfl
  · subst hi; rfl
  · obtain ⟨vs', rfl, h2⟩ := hi
    rename_i vs
    have := h2.2.2
    cases vs <;> cases vs' <;> simp [absVals] at this <;> rfl
  · subst hi; rfl
  · obtain ⟨_, rfl, _⟩ := hi; rfl

theorem VRC.opq (M M' : List ModObj) : VRC M M' .opq .opq := ⟨rfl, rfl, rfl⟩
theorem VRC.rigid (M M' : List ModObj) : VRC M M' .rigid .rigid := ⟨rfl, rfl, rfl⟩
theorem VRC.none (M M' : List ModObj) : VRC M M' .none .none := ⟨rfl, rfl, rfl⟩
theorem VRC.bool (M M' : List ModObj) (b : Bool) : VRC M M' (.bool b) (.bool b) := ⟨rfl, rfl, rfl⟩
theorem VRC.func (M M' : List ModObj) (i : Nat) : VRC M M' (.func i) (.func i) := ⟨rfl, rfl, rfl⟩

/-- the table grew in both runs: related values stay related -/
theorem VRC.ext {M M' M2 M2' : List ModObj} {v v' : RVal} (h : VRC M M' v v') (e : Ext M M2) (e' : Ext M' M2') :
    VRC M2 M2' v v' :=
  ⟨validC_mono e.1 v h.1, validC_mono e'.1 v' h.2.1, by rw [absVal_extC e v h.1, absVal_extC e' v' h.2.1]; exact h.2.2⟩

theorem ORel.ext {M M' M2 M2' : List ModObj} {o o' : Option RVal} (h : ORel M M' o o') (e : Ext M M2) (e' : Ext M' M2') :
    ORel M2 M2' o o' := by
  cases o <;> cases o' <;> simp only [ORel] at h ⊢
  exact h.ext e e'

/-- the part of the state that neither expressions nor function bodies of fragment C change -/
structure SameCore (s t : XState) : Prop where
  mods : t.mods = s.mods
  loaded : t.loaded = s.loaded
  globals : t.globals = s.globals
  builtins : t.builtins = s.builtins
  funcs : t.funcs = s.funcs

theorem SameCore.refl (s : XState) : SameCore s s := ⟨rfl, rfl, rfl, rfl, rfl⟩

theorem MInvC.congr {s t : XState} (h : MInvC s) (c : SameCore s t) : MInvC t :=
  ⟨h.tab.congr c.mods c.loaded rfl, by rw [c.mods, c.globals]; exact h.gv⟩

/-- **the simulation relation of fragment C.**  Two states of two runs whose module tables are `M`, `M'`: same globals
    up to the numbering of the modules, same builtins, same function table (closures), same records, related cells;
    with dotted reads also the same set of loaded modules. -/
structure PG (D : Bool) (M M' : List ModObj) (s s' : XState) : Prop where
  m : s.mods = M
  m' : s'.mods = M'
  inv : MInvC s
  inv' : MInvC s'
  glob : absG s = absG s'
  builtins : s.builtins = s'.builtins
  funcs : s.funcs = s'.funcs
  shape : FunsShape D s
  log : LogEq s s'
  loaded : D = true → ∀ d, isLoaded s d = isLoaded s' d
  clen : s.cells.length = s'.cells.length
  cells : ∀ i, ORel M M' (s.cells.getD i none) (s'.cells.getD i none)

theorem PG.upd {D : Bool} {M M' : List ModObj} {s s' t t' : XState} (h : PG D M M' s s') (c : SameCore s t)
    (c' : SameCore s' t') (hl : LogEq t t') (hcl : t.cells.length = t'.cells.length)
    (hc : ∀ i, ORel M M' (t.cells.getD i none) (t'.cells.getD i none)) : PG D M M' t t' :=
  ⟨c.mods.trans h.m, c'.mods.trans h.m', h.inv.congr c, h.inv'.congr c',
   by rw [absG_congr c.mods c.globals, absG_congr c'.mods c'.globals]; exact h.glob,
   by rw [c.builtins, c'.builtins]; exact h.builtins, by rw [c.funcs, c'.funcs]; exact h.funcs,
   by unfold FunsShape; rw [c.funcs]; exact h.shape, hl,
   fun hd d => by simp only [isLoaded, c.loaded, c'.loaded]; exact h.loaded hd d, hcl, hc⟩

theorem PG.upd0 {D : Bool} {M M' : List ModObj} {s s' t t' : XState} (h : PG D M M' s s') (c : SameCore s t)
    (c' : SameCore s' t') (hl : LogEq t t') (e : t.cells = s.cells) (e' : t'.cells = s'.cells) : PG D M M' t t' :=
  h.upd c c' hl (by rw [e, e']; exact h.clen) (by rw [e, e']; exact h.cells)

/-- related results of two computations -/
def CR {α} (D : Bool) (M M' : List ModObj) (R : α → α → Prop) (r r' : XState × Except Exc α) : Prop :=
  PG D M M' r.1 r'.1 ∧
    match r.2, r'.2 with
    | .ok a, .ok a' => R a a'
    | .error e, .error e' => e = e'
    | _, _ => False

theorem CR.bind {α β} {D : Bool} {M M' : List ModObj} {R : α → α → Prop} {R2 : β → β → Prop} {s s' : XState}
    {m m' : X α} {f f' : α → X β} (h1 : CR D M M' R (m s) (m' s'))
    (h2 : ∀ t t' a a', PG D M M' t t' → R a a' → CR D M M' R2 (f a t) (f' a' t')) :
    CR D M M' R2 ((m >>= f) s) ((m' >>= f') s') := by
  rw [X.bind_def, X.bind_def]
  obtain ⟨a1, a2⟩ := h1
  cases hm : m s with
  | mk t r =>
    cases hm' : m' s' with
    | mk t' r' =>
      rw [hm, hm'] at a1 a2
      cases r with
      | ok a =>
        cases r' with
        | ok a' => exact h2 t t' a a' a1 a2
        | error e' => exact a2.elim
      | error e =>
        cases r' with
        | ok a' => exact a2.elim
        | error e' => exact ⟨a1, a2⟩

theorem CR.pure {α} {D : Bool} {M M' : List ModObj} {R : α → α → Prop} {s s' : XState} (a a' : α)
    (hg : PG D M M' s s') (h : R a a') : CR D M M' R ((Pure.pure a : X α) s) ((Pure.pure a' : X α) s') := ⟨hg, h⟩

theorem CR.raiseOther {α} {D : Bool} {M M' : List ModObj} {R : α → α → Prop} {s s' : XState} (hg : PG D M M' s s') :
    CR D M M' R ((raiseOther : X α) s) ((raiseOther : X α) s') :=
  ⟨hg.upd0 ⟨rfl, rfl, rfl, rfl, rfl⟩ ⟨rfl, rfl, rfl, rfl, rfl⟩ ⟨hg.log.1, hg.log.2.1, hg.log.2.2.1, rfl⟩ rfl rfl, rfl⟩

theorem CR.fuel {α} {D : Bool} {M M' : List ModObj} {R : α → α → Prop} {s s' : XState} (hg : PG D M M' s s') :
    CR D M M' R ((X.throw .fuel : X α) s) ((X.throw .fuel : X α) s') := ⟨hg, rfl⟩

theorem CR.mono {α} {D : Bool} {M M' : List ModObj} {R R' : α → α → Prop} {r r' : XState × Except Exc α}
    (h : CR D M M' R r r') (hr : ∀ a a', R a a' → R' a a') : CR D M M' R' r r' := by
  obtain ⟨a1, a4⟩ := h
  refine ⟨a1, ?_⟩
  cases h1 : r.2 <;> cases h2 : r'.2 <;> rw [h1, h2] at a4 <;> simp only at a4 ⊢
  · exact a4
  · exact hr _ _ a4

theorem sameCore_noteUse (n : Str) (s : XState) : SameCore s (noteUse n s) := by
  unfold noteUse; split <;> exact ⟨rfl, rfl, rfl, rfl, rfl⟩
theorem cells_noteUse (n : Str) (s : XState) : (noteUse n s).cells = s.cells := by
  unfold noteUse; split <;> rfl

theorem globalLookup_relC {D : Bool} {M M' : List ModObj} {s s' : XState} (n : Str) (h : PG D M M' s s') :
    CR D M M' (VRC M M') (globalLookup n s) (globalLookup n s') := by
  have hg := congrFun h.glob n
  unfold absG at hg
  unfold globalLookup
  cases h1 : assocGet n s.globals with
  | some v =>
    cases h2 : assocGet n s'.globals with
    | some v' =>
      rw [h1, h2] at hg
      simp only [Option.map_some, Option.some.injEq] at hg
      refine ⟨h.upd0 (sameCore_noteUse n s) (sameCore_noteUse n s') (logEq_noteUse n h.log) (cells_noteUse n s)
        (cells_noteUse n s'), ?_, ?_, ?_⟩
      · rw [← h.m]; exact h.inv.gv n v h1
      · rw [← h.m']; exact h.inv'.gv n v' h2
      · rw [← h.m, ← h.m']; exact hg
    | none => rw [h1, h2] at hg; simp at hg
  | none =>
    cases h2 : assocGet n s'.globals with
    | some v' => rw [h1, h2] at hg; simp at hg
    | none =>
      simp only [← h.builtins]
      split
      · refine ⟨h, ?_⟩
        show VRC M M' (if n = "_K".toList then RVal.opq else RVal.rigid)
          (if n = "_K".toList then RVal.opq else RVal.rigid)
        split
        · exact VRC.opq M M'
        · exact VRC.rigid M M'
      · have hl := h.log
        refine ⟨h.upd0 ⟨rfl, rfl, rfl, rfl, rfl⟩ ⟨rfl, rfl, rfl, rfl, rfl⟩ ⟨?_, hl.2.1, hl.2.2.1, hl.2.2.2⟩ rfl rfl, rfl⟩
        show addOnce n s.ne = addOnce n s'.ne
        rw [hl.1]

theorem cellLookup_rel {D : Bool} {M M' : List ModObj} {s s' : XState} (n : Str) (i : Nat) (h : PG D M M' s s') :
    CR D M M' (VRC M M') (cellLookup n i s) (cellLookup n i s') := by
  have hc := h.cells i
  unfold cellLookup
  cases h1 : s.cells.getD i none <;> cases h2 : s'.cells.getD i none <;> rw [h1, h2] at hc <;> simp only [ORel] at hc
  · have hl := h.log
    refine ⟨h.upd0 ⟨rfl, rfl, rfl, rfl, rfl⟩ ⟨rfl, rfl, rfl, rfl, rfl⟩ ⟨hl.1, hl.2.1, ?_, hl.2.2.2⟩ rfl rfl, rfl⟩
    show addOnce n s.lne = addOnce n s'.lne
    rw [hl.2.2.1]
  · exact ⟨h, hc⟩

/-- module level or a function body (not a class body) -/
def noCls (ctx : Ctx) : Bool := match ctx.kind with | .cls _ => false | _ => true

theorem readName_rel {D : Bool} {M M' : List ModObj} {s s' : XState} (ctx : Ctx) (hctx : noCls ctx = true) (n : Str)
    (h : PG D M M' s s') : CR D M M' (VRC M M') (readName ctx n s) (readName ctx n s') := by
  obtain ⟨kind, frames⟩ := ctx
  cases kind with
  | module => exact globalLookup_relC n h
  | func =>
    simp only [readName]
    cases frameLookup n frames with
    | some i => exact cellLookup_rel n i h
    | none => exact globalLookup_relC n h
  | cls l => cases hctx

theorem getAttr_relC {D : Bool} {M M' : List ModObj} {s s' : XState} {v v' : RVal} (a : Str) (h : PG D M M' s s')
    (hD : D = true) (hv : VRC M M' v v') : CR D M M' (VRC M M') (getAttr v a s) (getAttr v' a s') := by
  have hi := hv.inv
  cases v with
  | opq =>
    simp only at hi; subst hi
    exact CR.pure (R := VRC M M') RVal.opq RVal.opq h (VRC.opq M M')
  | rigid => simp only at hi; subst hi; exact CR.raiseOther h
  | none => simp only at hi; subst hi; exact CR.raiseOther h
  | bool b => simp only at hi; subst hi; exact CR.raiseOther h
  | seq vs => simp only at hi; obtain ⟨vs', rfl, _⟩ := hi; exact CR.raiseOther h
  | func i => simp only at hi; subst hi; exact CR.raiseOther h
  | cls i => exact hi.elim
  | mod i =>
    simp only at hi
    obtain ⟨j, rfl, hi1, hj1, hnm⟩ := hi
    have hl := h.log
    rw [← h.m] at hi1 hnm; rw [← h.m'] at hj1 hnm
    obtain ⟨m, hm⟩ : ∃ m, s.mods[i]? = some m := ⟨s.mods[i], by simp [hi1]⟩
    obtain ⟨m', hm'⟩ : ∃ m', s'.mods[j]? = some m' := ⟨s'.mods[j], by simp [hj1]⟩
    have hname : m.name = m'.name := by simpa [nm, hm, hm'] using hnm
    have hc := h.inv.tab.canon i m a hm
    have hc' := h.inv'.tab.canon j m' a hm'
    have hr := (h.inv.tab.wf2 i m hm).2
    have hr' := (h.inv'.tab.wf2 j m' hm').2
    have hld := h.loaded hD (m.name ++ '.' :: a)
    rw [← hname] at hc'
    show CR _ _ _ _ (getModAttr i a s) (getModAttr j a s')
    simp only [getModAttr, hm, hm']
    rw [hc, hc']
    by_cases hmem : universeMembers.contains a = true
    · simp only [hmem, if_true]
      exact ⟨h, VRC.opq M M'⟩
    · simp only [hmem, if_false, Bool.false_eq_true]
      have hraise : CR D M M' (VRC M M')
          (if m.registry = true then (raiseAttr (m.name ++ '.' :: a) : X RVal) s else (raiseOther : X RVal) s)
          (if m'.registry = true then (raiseAttr (m'.name ++ '.' :: a) : X RVal) s' else (raiseOther : X RVal) s') := by
        rw [hr, hr', ← hname]
        simp only [if_true]
        refine ⟨h.upd0 ⟨rfl, rfl, rfl, rfl, rfl⟩ ⟨rfl, rfl, rfl, rfl, rfl⟩ ⟨hl.1, ?_, hl.2.2.1, hl.2.2.2⟩ rfl rfl, rfl⟩
        show addOnce _ s.ae = addOnce _ s'.ae
        rw [hl.2.1]
      by_cases hs : isSubmodName a = true
      · simp only [hs, if_true]
        have hld' : (assocGet (m.name ++ '.' :: a) s.loaded).isSome = (assocGet (m.name ++ '.' :: a) s'.loaded).isSome := hld
        cases hk : assocGet (m.name ++ '.' :: a) (base s).loaded with
        | some c =>
          cases hk' : assocGet (m.name ++ '.' :: a) (base s').loaded with
          | some c' =>
            simp only [Option.map_some]
            obtain ⟨cm, hcm, hcn⟩ := h.inv.tab.wf1 _ c hk
            obtain ⟨cm', hcm', hcn'⟩ := h.inv'.tab.wf1 _ c' hk'
            refine ⟨h, ?_, ?_, ?_⟩
            · rw [← h.m]; simp [validC]; exact lt_of_getElem?_some hcm
            · rw [← h.m']; simp [validC]; exact lt_of_getElem?_some hcm'
            · rw [← h.m, ← h.m']
              have e1 : (base s).mods = s.mods := rfl
              have e2 : (base s').mods = s'.mods := rfl
              rw [e1] at hcm; rw [e2] at hcm'
              simp [absVal, nm, hcm, hcm', hcn, hcn']
          | none =>
            have e1 : (base s).loaded = s.loaded := rfl
            have e2 : (base s').loaded = s'.loaded := rfl
            rw [e1] at hk; rw [e2] at hk'
            rw [hk, hk'] at hld'; cases hld'
        | none =>
          cases hk' : assocGet (m.name ++ '.' :: a) (base s').loaded with
          | some c' =>
            have e1 : (base s).loaded = s.loaded := rfl
            have e2 : (base s').loaded = s'.loaded := rfl
            rw [e1] at hk; rw [e2] at hk'
            rw [hk, hk'] at hld'; cases hld'
          | none => simp only [Option.map_none]; exact hraise
      · simp only [hs, if_false, Bool.false_eq_true]; exact hraise

theorem binop_relC {D : Bool} {M M' : List ModObj} {s s' : XState} {a a' b b' : RVal} (h : PG D M M' s s')
    (ha : VRC M M' a a') (hb : VRC M M' b b') : CR D M M' (VRC M M') (binop a b s) (binop a' b' s') := by
  rw [binop_eq, binop_eq, ← ha.isOM, ← hb.isOM]
  by_cases hc : (isOM a || isOM b) = true
  · rw [if_pos hc, if_pos hc]; exact CR.pure _ _ h (VRC.opq M M')
  · rw [if_neg hc, if_neg hc]
    have h1 := ha.seqOf
    have h2 := hb.seqOf
    cases e1 : seqOf a <;> cases e1' : seqOf a' <;> rw [e1, e1'] at h1 <;> try exact h1.elim
    · exact CR.raiseOther h
    · cases e2 : seqOf b <;> cases e2' : seqOf b' <;> rw [e2, e2'] at h2 <;> try exact h2.elim
      · exact CR.raiseOther h
      · exact CR.pure _ _ h (VRC.ofSeq (h1.append h2))

theorem subscriptGet_relC {D : Bool} {M M' : List ModObj} {s s' : XState} {a a' : RVal} (h : PG D M M' s s')
    (ha : VRC M M' a a') : CR D M M' (VRC M M') (subscriptGet a s) (subscriptGet a' s') := by
  rw [subscriptGet_eq, subscriptGet_eq, ← ha.isOM]
  by_cases hc : isOM a = true
  · rw [if_pos hc]; exact CR.pure _ _ h (VRC.opq M M')
  · rw [if_neg hc]; exact CR.raiseOther h

/-! ## 5. expressions of fragment B in any scope, two runs side by side -/

/-- the two runs have the same fuel (then they run out of it at the same point), or both have enough -/
def FOK (n f f' : Nat) : Prop := f = f' ∨ (n ≤ f ∧ n ≤ f')

theorem FOK.sub {n m g g' : Nat} (h : FOK n (g + 1) (g' + 1)) (hm : m + 1 ≤ n) : FOK m g g' := by
  rcases h with h | h
  · exact .inl (by omega)
  · exact .inr (by omega)

theorem needE_pos (e : Expr) : 1 ≤ needE e := by cases e <;> simp [needE]
theorem needEs_pos (es : List Expr) : 1 ≤ needEs es := by cases es <;> simp [needEs]

theorem evalRelC (D : Bool) (M M' : List ModObj) (ctx : Ctx) (hctx : noCls ctx = true) : ∀ (f : Nat),
    (∀ e f' s s', fragBExpr D e = true → FOK (needE e) f f' → PG D M M' s s' →
      CR D M M' (VRC M M') (evalExpr f ctx e s) (evalExpr f' ctx e s')) ∧
    (∀ es f' s s', fragBExprs D es = true → FOK (needEs es) f f' → PG D M M' s s' →
      CR D M M' (VRCs M M') (evalExprs f ctx es s) (evalExprs f' ctx es s')) := by
  intro f
  induction f with
  | zero =>
    constructor
    · intro e f' s s' _ hf hg
      have hp := needE_pos e
      have : f' = 0 := by rcases hf with h | h <;> omega
      subst this
      rw [evalExpr]; exact CR.fuel hg
    · intro es f' s s' _ hf hg
      have hp := needEs_pos es
      have : f' = 0 := by rcases hf with h | h <;> omega
      subst this
      rw [evalExprs]; exact CR.fuel hg
  | succ f ih =>
    obtain ⟨ihe, ihes⟩ := ih
    constructor
    · intro e f' s s' hfr hf hg
      have hp := needE_pos e
      obtain ⟨f', rfl⟩ : ∃ g, f' = g + 1 := ⟨f' - 1, by rcases hf with h | h <;> omega⟩
      cases e with
      | name n => simp only [evalExpr]; exact readName_rel ctx hctx n hg
      | attr b a =>
        obtain ⟨hb, hD⟩ := fragB_attr_inner hfr
        simp only [needE] at hf
        simp only [evalExpr]
        refine CR.bind (ihe b f' s s' hb (hf.sub (Nat.le_refl _)) hg) ?_
        intro t t' v v' hg2 hv
        exact getAttr_relC a hg2 hD hv
      | const => simp only [evalExpr]; exact CR.pure _ _ hg (VRC.opq M M')
      | bool b => simp only [evalExpr]; exact CR.pure _ _ hg (VRC.bool M M' b)
      | str _ => simp only [evalExpr]; exact CR.pure _ _ hg (VRC.rigid M M')
      | binop l r =>
        simp only [fragBExpr, Bool.and_eq_true] at hfr
        simp only [needE] at hf
        simp only [evalExpr]
        refine CR.bind (ihe l f' s s' hfr.1 (hf.sub (by omega)) hg) ?_
        intro t t' a a' hg2 ha
        refine CR.bind (ihe r f' t t' hfr.2 (hf.sub (by omega)) hg2) ?_
        intro u u' b b' hg3 hb
        exact binop_relC hg3 ha hb
      | subscript v i =>
        simp only [fragBExpr, Bool.and_eq_true] at hfr
        simp only [needE] at hf
        simp only [evalExpr]
        refine CR.bind (ihe v f' s s' hfr.1 (hf.sub (by omega)) hg) ?_
        intro t t' a a' hg2 ha
        refine CR.bind (ihe i f' t t' hfr.2 (hf.sub (by omega)) hg2) ?_
        intro u u' b b' hg3 _
        exact subscriptGet_relC hg3 ha
      | tuple es =>
        simp only [fragBExpr] at hfr
        simp only [needE] at hf
        simp only [evalExpr]
        refine CR.bind (ihes es f' s s' hfr (hf.sub (Nat.le_refl _)) hg) ?_
        intro t t' vs vs' hg2 hvs
        exact CR.pure _ _ hg2 (VRC.ofSeq hvs)
      | list es =>
        simp only [fragBExpr] at hfr
        simp only [needE] at hf
        simp only [evalExpr]
        refine CR.bind (ihes es f' s s' hfr (hf.sub (Nat.le_refl _)) hg) ?_
        intro t t' vs vs' hg2 hvs
        exact CR.pure _ _ hg2 (VRC.ofSeq hvs)
      | ifExp c a b =>
        simp only [fragBExpr, Bool.and_eq_true] at hfr
        simp only [needE] at hf
        simp only [evalExpr]
        refine CR.bind (ihe c f' s s' hfr.1.1 (hf.sub (by omega)) hg) ?_
        intro t t' tv tv' hg2 htv
        rw [← htv.truthy]
        by_cases hc : truthy tv = true
        · rw [if_pos hc, if_pos hc]
          exact ihe a f' t t' hfr.1.2 (hf.sub (by omega)) hg2
        · rw [if_neg hc, if_neg hc]
          exact ihe b f' t t' hfr.2 (hf.sub (by omega)) hg2
      | call _ _ => simp [fragBExpr] at hfr
      | lambda _ _ => simp [fragBExpr] at hfr
      | comp _ _ _ => simp [fragBExpr] at hfr
    · intro es f' s s' hfr hf hg
      have hp := needEs_pos es
      obtain ⟨f', rfl⟩ : ∃ g, f' = g + 1 := ⟨f' - 1, by rcases hf with h | h <;> omega⟩
      cases es with
      | nil => simp only [evalExprs]; exact CR.pure _ _ hg (VRCs.nil M M')
      | cons e es =>
        simp only [fragBExprs, Bool.and_eq_true] at hfr
        simp only [needEs] at hf
        simp only [evalExprs]
        refine CR.bind (ihe e f' s s' hfr.1 (hf.sub (by omega)) hg) ?_
        intro t t' v v' hg2 hv
        refine CR.bind (ihes es f' t t' hfr.2 (hf.sub (by omega)) hg2) ?_
        intro u u' vs vs' hg3 hvs
        exact CR.pure _ _ hg3 (VRCs.cons hv hvs)

/-! ## 6. function bodies: executing a body in two related states gives related results -/

def FlowR (M M' : List ModObj) : Flow → Flow → Prop
  | .normal, .normal => True
  | .ret v, .ret v' => VRC M M' v v'
  | _, _ => False

theorem getD_set_opt (l : List (Option RVal)) (i j : Nat) (o : Option RVal) :
    (l.set i o).getD j none = if i = j ∧ i < l.length then o else l.getD j none := by
  simp only [List.getD_eq_getElem?_getD, List.getElem?_set]
  by_cases hij : i = j
  · subst hij
    by_cases hl : i < l.length
    · simp [hl]
    · simp [hl]
  · simp [hij]

theorem PG.setCell {D : Bool} {M M' : List ModObj} {s s' : XState} (h : PG D M M' s s') (i : Nat) {o o' : Option RVal}
    (ho : ORel M M' o o') :
    PG D M M' { s with cells := s.cells.set i o } { s' with cells := s'.cells.set i o' } := by
  refine h.upd ⟨rfl, rfl, rfl, rfl, rfl⟩ ⟨rfl, rfl, rfl, rfl, rfl⟩ h.log (by simp [h.clen]) ?_
  intro j
  simp only [getD_set_opt, h.clen]
  split
  · exact ho
  · exact h.cells j

theorem assignAll_relF {D : Bool} {M M' : List ModObj} (fr : Frame) (f : Nat) (x : Str) {v v' : RVal} {s s' : XState}
    (hx : assocGet x fr ≠ none) (hv : VRC M M' v v') (hg : PG D M M' s s') :
    CR D M M' (fun _ _ => True) (assignAll f (fctx fr) [.name x] v s) (assignAll f (fctx fr) [.name x] v' s') := by
  match f with
  | 0 => rw [assignAll]; exact CR.fuel hg
  | 1 => simp only [assignAll, bindTarget, X.bind_def]; exact CR.fuel hg
  | f + 2 =>
    cases hgx : assocGet x fr with
    | none => exact absurd hgx hx
    | some i =>
      simp only [assignAll, bindTarget, bindName, fctx, X.bind_def, List.headD, hgx, Pfb.PyCore.setCell, X.modify, X.pure_def]
      exact ⟨hg.setCell i (o := some v) (o' := some v') hv, trivial⟩

theorem PG.setLine {D : Bool} {M M' : List ModObj} {s s' : XState} (h : PG D M M' s s') (l : Nat) :
    PG D M M' { s with line := l } { s' with line := l } :=
  h.upd0 ⟨rfl, rfl, rfl, rfl, rfl⟩ ⟨rfl, rfl, rfl, rfl, rfl⟩ h.log rfl rfl

theorem noCls_fctx (fr : Frame) : noCls (fctx fr) = true := rfl

/-- **one statement of a function body, executed in two related states (same fuel), gives related results** -/
theorem stmtRelF (D : Bool) (M M' : List ModObj) (fr : Frame) : ∀ (st : Stmt) (f : Nat) (s s' : XState),
    fbodyStmt D st = true → (∀ x ∈ boundStmt st, assocGet x fr ≠ none) → PG D M M' s s' →
    CR D M M' (FlowR M M') (execStmt f (fctx fr) st s) (execStmt f (fctx fr) st s')
  | st, 0, s, s', _, _, hg => by rw [execStmt]; exact CR.fuel hg
  | .expr e, f + 1, s, s', hfr, _, hg => by
    simp only [execStmt]
    refine CR.bind ((evalRelC D M M' (fctx fr) rfl f).1 e f s s' (by simpa [fbodyStmt] using hfr) (.inl rfl) hg) ?_
    intro t t' _ _ hg2 _
    exact CR.pure (R := FlowR M M') Flow.normal Flow.normal hg2 trivial
  | .assign ts e, f + 1, s, s', hfr, hfrm, hg => by
    simp only [fbodyStmt, Bool.and_eq_true] at hfr
    cases hsn : singleName ts with
    | none => rw [hsn] at hfr; simp at hfr
    | some x =>
      have hts := singleName_eq hsn; subst hts
      have hx : assocGet x fr ≠ none := hfrm x (by simp [boundStmt, targetsNames, targetNames])
      simp only [execStmt]
      refine CR.bind ((evalRelC D M M' (fctx fr) rfl f).1 e f s s' hfr.2 (.inl rfl) hg) ?_
      intro t t' v v' hg2 hv
      refine CR.bind (assignAll_relF fr f x hx hv hg2) ?_
      intro u u' _ _ hg3 _
      exact CR.pure (R := FlowR M M') Flow.normal Flow.normal hg3 trivial
  | .pass, f + 1, s, s', _, _, hg => by
    simp only [execStmt]; exact CR.pure (R := FlowR M M') Flow.normal Flow.normal hg trivial
  | .return_ none, f + 1, s, s', _, _, hg => by
    simp only [execStmt]; exact CR.pure (R := FlowR M M') (Flow.ret .none) (Flow.ret .none) hg (VRC.none M M')
  | .return_ (some e), f + 1, s, s', hfr, _, hg => by
    simp only [execStmt]
    refine CR.bind ((evalRelC D M M' (fctx fr) rfl f).1 e f s s' (by simpa [fbodyStmt] using hfr) (.inl rfl) hg) ?_
    intro t t' v v' hg2 hv
    exact CR.pure (R := FlowR M M') (Flow.ret v) (Flow.ret v') hg2 hv
  | .located l st, f + 1, s, s', hfr, hfrm, hg => by
    rw [execStmt]
    exact stmtRelF D M M' fr st f { s with line := l } { s' with line := l } (by simpa [fbodyStmt] using hfr) (by simpa [boundStmt] using hfrm) (hg.setLine l)
  | .augAssign _ _, _ + 1, _, _, hfr, _, _ => by simp [fbodyStmt] at hfr
  | .annAssign _ _ _, _ + 1, _, _, hfr, _, _ => by simp [fbodyStmt] at hfr
  | .import_ _, _ + 1, _, _, hfr, _, _ => by simp [fbodyStmt] at hfr
  | .importFrom _ _, _ + 1, _, _, hfr, _, _ => by simp [fbodyStmt] at hfr
  | .funcDef _ _ _ _ _, _ + 1, _, _, hfr, _, _ => by simp [fbodyStmt] at hfr
  | .classDef _ _ _ _, _ + 1, _, _, hfr, _, _ => by simp [fbodyStmt] at hfr
  | .for_ _ _ _ _, _ + 1, _, _, hfr, _, _ => by simp [fbodyStmt] at hfr
  | .while_ _ _ _, _ + 1, _, _, hfr, _, _ => by simp [fbodyStmt] at hfr
  | .if_ _ _ _, _ + 1, _, _, hfr, _, _ => by simp [fbodyStmt] at hfr
  | .with_ _ _, _ + 1, _, _, hfr, _, _ => by simp [fbodyStmt] at hfr
  | .try_ _ _ _ _, _ + 1, _, _, hfr, _, _ => by simp [fbodyStmt] at hfr
  | .raise_ _, _ + 1, _, _, hfr, _, _ => by simp [fbodyStmt] at hfr
  | .delete _, _ + 1, _, _, hfr, _, _ => by simp [fbodyStmt] at hfr
  | .global_ _, _ + 1, _, _, hfr, _, _ => by simp [fbodyStmt] at hfr
  | .nonlocal_ _, _ + 1, _, _, hfr, _, _ => by simp [fbodyStmt] at hfr

/-- **a function body, executed in two related states, gives related results** (states and returned value) -/
theorem stmtsRelF (D : Bool) (M M' : List ModObj) (fr : Frame) : ∀ (body : List Stmt) (f : Nat) (s s' : XState),
    body.all (fbodyStmt D) = true → (∀ x ∈ boundStmts body, assocGet x fr ≠ none) → PG D M M' s s' →
    CR D M M' (FlowR M M') (execStmts f (fctx fr) body s) (execStmts f (fctx fr) body s')
  | body, 0, s, s', _, _, hg => by rw [execStmts]; exact CR.fuel hg
  | [], f + 1, s, s', _, _, hg => by
    simp only [execStmts]; exact CR.pure (R := FlowR M M') Flow.normal Flow.normal hg trivial
  | st :: r, f + 1, s, s', hfr, hfrm, hg => by
    simp only [List.all_cons, Bool.and_eq_true] at hfr
    simp only [boundStmts, List.mem_append] at hfrm
    simp only [execStmts]
    refine CR.bind (stmtRelF D M M' fr st f s s' hfr.1 (fun x hx => hfrm x (.inl hx)) hg) ?_
    intro t t' fl fl' hg2 hfl
    cases fl <;> cases fl' <;> simp only [FlowR] at hfl
    · exact stmtsRelF D M M' fr r f t t' hfr.2 (fun x hx => hfrm x (.inr hx)) hg2
    · exact CR.pure (R := FlowR M M') _ _ hg2 hfl

/-! ## 7. calling a closure of fragment C in two related states -/

theorem VRCs.inv {M M' : List ModObj} {vs vs' : List RVal} (h : VRCs M M' vs vs') :
    match vs, vs' with
    | [], [] => True
    | v :: r, v' :: r' => VRC M M' v v' ∧ VRCs M M' r r'
    | _, _ => False := by
  obtain ⟨h1, h2, h3⟩ := h
  cases vs <;> cases vs' <;> simp [absVals, validCs] at h1 h2 h3 ⊢
  exact ⟨⟨h1.1, h2.1, h3.1⟩, ⟨h1.2, h2.2, h3.2⟩⟩

theorem VRCs.length {M M' : List ModObj} : ∀ {vs vs' : List RVal}, VRCs M M' vs vs' → vs'.length = vs.length
  | [], [], _ => rfl
  | [], _ :: _, h => h.inv.elim
  | _ :: _, [], h => h.inv.elim
  | _ :: r, _ :: r', h => by simp [VRCs.length (vs := r) (vs' := r') h.inv.2]

theorem VRCs.getD {M M' : List ModObj} : ∀ {vs vs' : List RVal} (i : Nat), VRCs M M' vs vs' →
    VRC M M' (vs.getD i .none) (vs'.getD i .none)
  | [], [], _, _ => VRC.none M M'
  | [], _ :: _, _, h => h.inv.elim
  | _ :: _, [], _, h => h.inv.elim
  | _ :: _, _ :: _, 0, h => h.inv.1
  | _ :: r, _ :: r', i + 1, h => by
    simpa using VRCs.getD (vs := r) (vs' := r') i h.inv.2

theorem VRCs.drop {M M' : List ModObj} : ∀ {vs vs' : List RVal} (i : Nat), VRCs M M' vs vs' →
    VRCs M M' (vs.drop i) (vs'.drop i)
  | _, _, 0, h => h
  | [], [], _ + 1, _ => VRCs.nil M M'
  | [], _ :: _, _ + 1, h => h.inv.elim
  | _ :: _, [], _ + 1, h => h.inv.elim
  | _ :: r, _ :: r', i + 1, h => by
    simpa using VRCs.drop (vs := r) (vs' := r') i h.inv.2

theorem dummyCall_rel {M M' : List ModObj} {avs avs' : List RVal} (h : VRCs M M' avs avs') :
    VRC M M' (dummyCall avs) (dummyCall avs') := by
  cases avs with
  | nil =>
    cases avs' with
    | nil => exact VRC.opq M M'
    | cons _ _ => exact h.inv.elim
  | cons v r =>
    cases avs' with
    | nil => exact h.inv.elim
    | cons v' r' =>
      obtain ⟨hv, hr⟩ := h.inv
      cases r with
      | nil =>
        cases r' with
        | nil =>
          have hi := hv.inv
          cases v <;> simp only at hi
          · subst hi; exact VRC.opq M M'
          · subst hi; exact VRC.opq M M'
          · subst hi; exact VRC.opq M M'
          · subst hi; exact VRC.opq M M'
          · obtain ⟨_, rfl, _⟩ := hi; exact VRC.opq M M'
          · subst hi; exact VRC.func M M' _
          · obtain ⟨_, rfl, _⟩ := hi; exact VRC.opq M M'
        | cons _ _ => exact hr.inv.elim
      | cons w r2 =>
        cases r' with
        | nil => exact hr.inv.elim
        | cons w' r2' => cases v <;> cases v' <;> exact VRC.opq M M'

theorem noteCall_eq (s : XState) : ∃ b, noteCall s = ({ s with early := b }, .ok ()) := by
  unfold noteCall X.modify
  cases s with
  | mk g b c f cl cs m l ne ae lne line o u atEnd early oth =>
    cases atEnd
    · exact ⟨true, rfl⟩
    · exact ⟨early, rfl⟩

theorem noteCall_rel {D : Bool} {M M' : List ModObj} {s s' : XState} (hg : PG D M M' s s') :
    CR D M M' (fun _ _ => True) (noteCall s) (noteCall s') := by
  obtain ⟨b, e⟩ := noteCall_eq s
  obtain ⟨b', e'⟩ := noteCall_eq s'
  rw [e, e']
  exact ⟨hg.upd0 ⟨rfl, rfl, rfl, rfl, rfl⟩ ⟨rfl, rfl, rfl, rfl, rfl⟩ hg.log rfl rfl, trivial⟩

theorem getD_append_nones (l r : List (Option RVal)) (hr : ∀ x ∈ r, x = none) (i : Nat) :
    (l ++ r).getD i none = l.getD i none := by
  simp only [List.getD_eq_getElem?_getD, List.getElem?_append]
  by_cases h : i < l.length
  · simp [h]
  · simp only [h, if_false]
    have h2 : l[i]? = none := List.getElem?_eq_none (by omega)
    rw [h2]
    cases h3 : r[i - l.length]? with
    | none => rfl
    | some x => simp [hr x (List.mem_of_getElem? h3)]

theorem mem_map_none {α} (L : List α) : ∀ x ∈ L.map (fun _ => (none : Option RVal)), x = none := by
  intro x hx
  obtain ⟨_, _, rfl⟩ := List.mem_map.mp hx
  rfl

theorem allocCells_rel {D : Bool} {M M' : List ModObj} {s s' : XState} (names : List Str) (hg : PG D M M' s s') :
    CR D M M' (fun fr fr' => fr = fr' ∧ ∀ x, assocGet x fr = none ↔ x ∉ names) (allocCells names s) (allocCells names s') := by
  have e : allocCells names s' =
      ({ s' with cells := s'.cells ++ ((names.eraseDups.zipIdx).map (fun (n, i) => (n, s.cells.length + i))).map (fun _ => none) },
       .ok ((names.eraseDups.zipIdx).map (fun (n, i) => (n, s.cells.length + i)))) := by
    unfold allocCells; rw [hg.clen]
  have e0 : allocCells names s =
      ({ s with cells := s.cells ++ ((names.eraseDups.zipIdx).map (fun (n, i) => (n, s.cells.length + i))).map (fun _ => none) },
       .ok ((names.eraseDups.zipIdx).map (fun (n, i) => (n, s.cells.length + i)))) := rfl
  rw [e0, e]
  refine ⟨hg.upd ⟨rfl, rfl, rfl, rfl, rfl⟩ ⟨rfl, rfl, rfl, rfl, rfl⟩ hg.log (by simp [hg.clen]) ?_, rfl, fun x => ?_⟩
  · intro i
    simp only
    rw [getD_append_nones _ _ (mem_map_none _), getD_append_nones _ _ (mem_map_none _)]
    exact hg.cells i
  · rw [assocGet_frame, List.zipIdx_map_fst, List.mem_eraseDups]

theorem bindCells_rel {D : Bool} {M M' : List ModObj} (fr : Frame) {α} (nmf : α → Str) (g g' : α → RVal) :
    ∀ (L : List α), (∀ p ∈ L, VRC M M' (g p) (g' p)) → ∀ (s s' : XState), PG D M M' s s' →
    CR D M M' (fun _ _ => True) (bindCells fr (L.map (fun p => (nmf p, g p))) s)
      (bindCells fr (L.map (fun p => (nmf p, g' p))) s')
  | [], _, s, s', hg => ⟨hg, trivial⟩
  | p :: L, hv, s, s', hg => by
    simp only [List.map_cons]
    rw [bindCells, bindCells]
    have ih := bindCells_rel (D := D) fr nmf g g' L (fun q hq => hv q (by simp [hq]))
    cases hgx : assocGet (nmf p) fr with
    | none => exact ih s s' hg
    | some i =>
      exact ih _ _ (hg.setCell i (o := some (g p)) (o' := some (g' p)) (hv p (by simp)))

/-- the part of `callFunc` that runs once the arity has been checked -/
def callTail (f : Nat) (c : Closure) (avs : List RVal) : X RVal := do
  let np := c.params.length
  let nreq := np - c.ndefaults
  let kws ← kwonlyValues c.kwonly
  let fr ← allocCells c.locals
  let pos := (c.params.zipIdx).map (fun (n, i) => (n, if i < avs.length then avs.getD i .none else c.defaults.getD (i - nreq) .none))
  bindCells fr pos
  bindCells fr kws
  (match c.vararg with | some v => bindCells fr [(v, .seq (avs.drop np))] | none => pure ())
  (match c.kwarg with | some v => bindCells fr [(v, .seq [])] | none => pure ())
  let ctx : Ctx := { kind := .func, frames := fr :: c.env }
  match c.body with
  | .expr e => evalExpr f ctx e
  | .stmts b => do
    let fl ← execStmts f ctx b
    match fl with
    | .ret v => pure v
    | .normal => pure .none

theorem callBody_eq (f : Nat) (c : Closure) (avs : List RVal) : callBody f c avs = (noteCall >>= fun _ =>
    if avs.length < c.params.length - c.ndefaults then raiseOther
    else if avs.length > c.params.length ∧ c.vararg.isNone then raiseOther
    else callTail f c avs) := rfl

def retOf : Flow → RVal
  | .ret v => v
  | .normal => .none

theorem callTail_def (f : Nat) (ps : List Param) (body : List Stmt) (avs : List RVal) :
    callTail f (defClosure ps body) avs =
      (allocCells (defClosure ps body).locals >>= fun fr =>
        bindCells fr (((paramNames ps).zipIdx).map
          (fun p => (p.1, if p.2 < avs.length then avs.getD p.2 .none else RVal.none))) >>= fun _ =>
        execStmts f (fctx fr) body >>= fun fl => match fl with | .ret v => pure v | .normal => pure .none) := by
  rfl


theorem callTail_rel {D : Bool} {M M' : List ModObj} (f : Nat) (ps : List Param) (body : List Stmt)
    (hb : body.all (fbodyStmt D) = true) {avs avs' : List RVal} (ha : VRCs M M' avs avs') {s s' : XState}
    (hg : PG D M M' s s') :
    CR D M M' (VRC M M') (callTail f (defClosure ps body) avs s) (callTail f (defClosure ps body) avs' s') := by
  rw [callTail_def, callTail_def]
  refine CR.bind (allocCells_rel _ hg) ?_
  rintro t t' fr _ hg2 ⟨rfl, hspec⟩
  have hlen := ha.length
  refine CR.bind (bindCells_rel fr Prod.fst _ _ _ ?_ t t' hg2) ?_
  · intro p _
    rw [hlen]
    split
    · exact ha.getD p.2
    · exact VRC.none M M'
  intro u u' _ _ hg3 _
  have hfrm : ∀ x ∈ boundStmts body, assocGet x fr ≠ none := by
    intro x hx hc
    exact (hspec x).mp hc ((mem_locals ps body x).mpr (List.mem_append_right _ hx))
  refine CR.bind (stmtsRelF D M M' fr body f u u' hb hfrm hg3) ?_
  intro w w' fl fl' hg4 hfl
  cases fl <;> cases fl' <;> simp only [FlowR] at hfl
  · exact CR.pure (R := VRC M M') RVal.none RVal.none hg4 (VRC.none M M')
  · exact CR.pure (R := VRC M M') _ _ hg4 hfl

/-- **calling a closure made by a `def` of fragment C in two related states with related arguments gives related
    results**: the body reads its globals through `readName`, its frame is local -/
theorem callBody_rel {D : Bool} {M M' : List ModObj} (f : Nat) (ps : List Param) (body : List Stmt)
    (hb : body.all (fbodyStmt D) = true) {avs avs' : List RVal} (ha : VRCs M M' avs avs') {s s' : XState}
    (hg : PG D M M' s s') :
    CR D M M' (VRC M M') (callBody f (defClosure ps body) avs s) (callBody f (defClosure ps body) avs' s') := by
  rw [callBody_eq, callBody_eq]
  refine CR.bind (noteCall_rel hg) ?_
  intro t t' _ _ hg2 _
  rw [ha.length]
  by_cases h1 : avs.length < (defClosure ps body).params.length - (defClosure ps body).ndefaults
  · rw [if_pos h1, if_pos h1]; exact CR.raiseOther hg2
  · rw [if_neg h1, if_neg h1]
    by_cases h2 : avs.length > (defClosure ps body).params.length ∧ (defClosure ps body).vararg.isNone
    · rw [if_pos h2, if_pos h2]; exact CR.raiseOther hg2
    · rw [if_neg h2, if_neg h2]
      exact callTail_rel f ps body hb ha hg2

theorem callFunc_rel {D : Bool} {M M' : List ModObj} (f id : Nat) {avs avs' : List RVal} (ha : VRCs M M' avs avs')
    {s s' : XState} (hg : PG D M M' s s') :
    CR D M M' (VRC M M') (callFunc f id avs s) (callFunc f id avs' s') := by
  match f with
  | 0 => rw [callFunc]; exact CR.fuel hg
  | f + 1 =>
    rw [callFunc_eq, callFunc_eq, ← hg.funcs]
    cases hc : s.funcs[id]? with
    | none => exact CR.raiseOther hg
    | some c =>
      obtain ⟨ps, body, rfl, hb⟩ := hg.shape c (List.mem_of_getElem? hc)
      exact callBody_rel f ps body hb ha hg

theorem callVal_rel {D : Bool} {M M' : List ModObj} (f : Nat) {fv fv' : RVal} (hv : VRC M M' fv fv')
    {avs avs' : List RVal} (ha : VRCs M M' avs avs') {s s' : XState} (hg : PG D M M' s s') :
    CR D M M' (VRC M M') (callVal f fv avs s) (callVal f fv' avs' s') := by
  match f with
  | 0 => rw [callVal]; exact CR.fuel hg
  | f + 1 =>
    have hi := hv.inv
    cases fv <;> simp only at hi
    · subst hi; simp only [callVal]; exact CR.pure _ _ hg (dummyCall_rel ha)
    · subst hi; simp only [callVal]; exact CR.raiseOther hg
    · subst hi; simp only [callVal]; exact CR.raiseOther hg
    · subst hi; simp only [callVal]; exact CR.raiseOther hg
    · obtain ⟨_, rfl, _⟩ := hi; simp only [callVal]; exact CR.raiseOther hg
    · subst hi; simp only [callVal]; exact callFunc_rel f _ ha hg
    · obtain ⟨_, rfl, _⟩ := hi; simp only [callVal]; exact CR.pure _ _ hg (dummyCall_rel ha)

/-! ## 8. the calls after the last module-level statement -/

/-- one trailing call `g(e1, …, ek)` in two related states (same fuel) -/
theorem callStmt_rel (D : Bool) (M M' : List ModObj) : ∀ (st : Stmt) (f : Nat) (s s' : XState), fragCall D st = true →
    PG D M M' s s' → CR D M M' (FlowR M M') (execStmt f {} st s) (execStmt f {} st s')
  | st, 0, s, s', _, hg => by rw [execStmt]; exact CR.fuel hg
  | .located l st, f + 1, s, s', hfr, hg => by
    rw [execStmt]
    exact callStmt_rel D M M' st f { s with line := l } { s' with line := l } (by simpa [fragCall] using hfr) (hg.setLine l)
  | .expr e, f + 1, s, s', hfr, hg => by
    obtain ⟨g, args, rfl, _, hargs⟩ := fragCall_expr hfr
    simp only [execStmt]
    refine CR.bind (R := VRC M M') ?_ (fun t t' _ _ hg2 _ => CR.pure (R := FlowR M M') Flow.normal Flow.normal hg2 trivial)
    match f with
    | 0 => rw [evalExpr]; exact CR.fuel hg
    | f + 1 =>
      simp only [evalExpr]
      refine CR.bind ((evalRelC D M M' {} rfl f).1 (.name g) f s s' (by simpa [fragBExpr]) (.inl rfl) hg) ?_
      intro t t' fv fv' hg2 hfv
      refine CR.bind ((evalRelC D M M' {} rfl f).2 args f t t' hargs (.inl rfl) hg2) ?_
      intro u u' avs avs' hg3 havs
      exact callVal_rel f hfv havs hg3
  | .assign _ _, _ + 1, _, _, hfr, _ => by simp [fragCall] at hfr
  | .augAssign _ _, _ + 1, _, _, hfr, _ => by simp [fragCall] at hfr
  | .annAssign _ _ _, _ + 1, _, _, hfr, _ => by simp [fragCall] at hfr
  | .import_ _, _ + 1, _, _, hfr, _ => by simp [fragCall] at hfr
  | .importFrom _ _, _ + 1, _, _, hfr, _ => by simp [fragCall] at hfr
  | .funcDef _ _ _ _ _, _ + 1, _, _, hfr, _ => by simp [fragCall] at hfr
  | .classDef _ _ _ _, _ + 1, _, _, hfr, _ => by simp [fragCall] at hfr
  | .for_ _ _ _ _, _ + 1, _, _, hfr, _ => by simp [fragCall] at hfr
  | .while_ _ _ _, _ + 1, _, _, hfr, _ => by simp [fragCall] at hfr
  | .if_ _ _ _, _ + 1, _, _, hfr, _ => by simp [fragCall] at hfr
  | .with_ _ _, _ + 1, _, _, hfr, _ => by simp [fragCall] at hfr
  | .try_ _ _ _ _, _ + 1, _, _, hfr, _ => by simp [fragCall] at hfr
  | .return_ _, _ + 1, _, _, hfr, _ => by simp [fragCall] at hfr
  | .pass, _ + 1, _, _, hfr, _ => by simp [fragCall] at hfr
  | .raise_ _, _ + 1, _, _, hfr, _ => by simp [fragCall] at hfr
  | .delete _, _ + 1, _, _, hfr, _ => by simp [fragCall] at hfr
  | .global_ _, _ + 1, _, _, hfr, _ => by simp [fragCall] at hfr
  | .nonlocal_ _, _ + 1, _, _, hfr, _ => by simp [fragCall] at hfr

theorem callsRel (D : Bool) (M M' : List ModObj) : ∀ (calls : List Stmt) (f : Nat) (s s' : XState),
    calls.all (fragCall D) = true → PG D M M' s s' →
    CR D M M' (FlowR M M') (execStmts f {} calls s) (execStmts f {} calls s')
  | calls, 0, s, s', _, hg => by rw [execStmts]; exact CR.fuel hg
  | [], f + 1, s, s', _, hg => by
    simp only [execStmts]; exact CR.pure (R := FlowR M M') Flow.normal Flow.normal hg trivial
  | st :: r, f + 1, s, s', hfr, hg => by
    simp only [List.all_cons, Bool.and_eq_true] at hfr
    simp only [execStmts]
    refine CR.bind (callStmt_rel D M M' st f s s' hfr.1 hg) ?_
    intro t t' fl fl' hg2 hfl
    cases fl <;> cases fl' <;> simp only [FlowR] at hfl
    · exact callsRel D M M' r f t t' hfr.2 hg2
    · exact CR.pure (R := FlowR M M') _ _ hg2 hfl

/-! ## 9. module level of fragment C, two runs side by side -/

/-- the simulation relation at module level: `PG` for the current module tables -/
def GoodC (D : Bool) (s s' : XState) : Prop := PG D s.mods s'.mods s s'

theorem PG.good {D : Bool} {M M' : List ModObj} {t t' : XState} (h : PG D M M' t t') : GoodC D t t' := by
  have e := h.m; have e' := h.m'
  subst e; subst e'; exact h

/-- fuel that suffices for a module-level statement of fragment C -/
def needSC : Stmt → Nat
  | .expr e => needE e + 1
  | .assign _ e => needE e + 3
  | .import_ names => names.length + 2
  | .importFrom _ names => names.length + 2
  | .funcDef _ _ _ _ _ => 3
  | .located _ s => needSC s + 1
  | _ => 1

def needSsC : List Stmt → Nat
  | [] => 1
  | st :: ss => needSC st + needSsC ss + 1

theorem needI_leC : ∀ st : Stmt, needI st ≤ needSC st
  | .located _ s => by simp only [needI, needSC]; have := needI_leC s; omega
  | .import_ _ => Nat.le_refl _
  | .importFrom _ _ => Nat.le_refl _
  | .expr _ => by simp [needI, needSC]
  | .assign _ _ => by simp [needI, needSC]
  | .augAssign _ _ => Nat.le_refl _
  | .annAssign _ _ _ => Nat.le_refl _
  | .funcDef _ _ _ _ _ => by simp [needI, needSC]
  | .classDef _ _ _ _ => Nat.le_refl _
  | .for_ _ _ _ _ => Nat.le_refl _
  | .while_ _ _ _ => Nat.le_refl _
  | .if_ _ _ _ => Nat.le_refl _
  | .with_ _ _ => Nat.le_refl _
  | .try_ _ _ _ _ => Nat.le_refl _
  | .return_ _ => Nat.le_refl _
  | .pass => Nat.le_refl _
  | .raise_ _ => Nat.le_refl _
  | .delete _ => Nat.le_refl _
  | .global_ _ => Nat.le_refl _
  | .nonlocal_ _ => Nat.le_refl _

theorem needSsC_append (a b : List Stmt) : needSsC (a ++ b) + 1 = needSsC a + needSsC b := by
  induction a with
  | nil => simp [needSsC]; omega
  | cons x xs ih => simp only [List.cons_append, needSsC]; omega

theorem needSsC_length (a : List Stmt) : a.length + 1 ≤ needSsC a := by
  induction a with
  | nil => simp [needSsC]
  | cons x xs ih => simp only [List.length_cons, needSsC]; omega

/-- related outcomes of one module-level statement (or a list) in the two runs -/
def SResC (D : Bool) (r r' : XState × Except Exc Flow) : Prop :=
  GoodC D r.1 r'.1 ∧ ((r.2 = .ok .normal ∧ r'.2 = .ok .normal) ∨ ∃ e, r.2 = .error e ∧ r'.2 = .error e)

theorem SResC.ofCR {D : Bool} {M M' : List ModObj} {r r' : XState × Except Exc Flow}
    (h : CR D M M' (fun a b => a = Flow.normal ∧ b = Flow.normal) r r') : SResC D r r' := by
  obtain ⟨a1, a2⟩ := h
  refine ⟨a1.good, ?_⟩
  cases h1 : r.2 <;> cases h2 : r'.2 <;> rw [h1, h2] at a2 <;> simp only at a2
  · exact .inr ⟨_, rfl, by rw [a2]⟩
  · exact .inl ⟨by rw [a2.1], by rw [a2.2]⟩

theorem PG.setG {D : Bool} {M M' : List ModObj} {s s' : XState} (h : PG D M M' s s') (x : Str) {v v' : RVal}
    (hv : VRC M M' v v') (o o' : List (Str × Nat × Nat)) (F F' : List Closure) (hFF : F = F')
    (hF : ∀ c ∈ F, ∃ ps body, c = defClosure ps body ∧ body.all (fbodyStmt D) = true) :
    PG D M M' { s with globals := assocSet x v s.globals, origins := o, funcs := F }
      { s' with globals := assocSet x v' s'.globals, origins := o', funcs := F' } := by
  refine ⟨h.m, h.m', ⟨h.inv.tab.congr rfl rfl rfl, ?_⟩, ⟨h.inv'.tab.congr rfl rfl rfl, ?_⟩, ?_, h.builtins, hFF, hF, h.log,
    h.loaded, h.clen, h.cells⟩
  · intro k w hk
    simp only [assocGet_assocSet] at hk
    split at hk
    · cases hk; show validC s.mods.length _ = true; rw [h.m]; exact hv.1
    · exact h.inv.gv k w hk
  · intro k w hk
    simp only [assocGet_assocSet] at hk
    split at hk
    · cases hk; show validC s'.mods.length _ = true; rw [h.m']; exact hv.2.1
    · exact h.inv'.gv k w hk
  · funext k
    have := congrFun h.glob k
    simp only [absG, assocGet_assocSet] at this ⊢
    split
    · simp only [Option.map_some, h.m, h.m', hv.2.2]
    · exact this

theorem execDef_ok (f : Nat) (s : XState) (name : Str) (ps : List Param) (body : List Stmt) (hps : ps.all simpleParam = true) :
    execStmt (f + 3) {} (.funcDef name (.mk ps [] none [] [] none) body [] none) s =
      ({ s with funcs := s.funcs ++ [defClosure ps body], globals := assocSet name (.func s.funcs.length) s.globals,
                origins := assocDel name s.origins }, .ok .normal) := by
  have hann := annotExprs_simple ps hps
  simp [execStmt, evalExprs, mkClosure, evalOptExprs, applyDecos, X.bind_def, X.pure_def, addFunc, bindName, X.modify,
    hann, annotExprs, zipOpt, defClosure]

theorem IResC.refl (s : XState) (h : MInvC s) : IResC s s [] [] :=
  ⟨h, SameObs.refl s, Ext.refl _, fun _ => by simp, rfl, rfl, rfl⟩

theorem IResC.trans {a b c : XState} {A B : List Atom} {L1 L2 : List Str} (h1 : IResC a b A L1) (h2 : IResC b c B L2) :
    IResC a c (A ++ B) (L1 ++ L2) :=
  ⟨h2.inv, h1.obs.trans h2.obs, h1.ext.trans h2.ext,
   fun d' => by rw [h2.loaded, h1.loaded]; simp [Bool.or_assoc],
   by rw [h2.glob, h1.glob, List.foldl_append], h2.funcs.trans h1.funcs, h2.cells.trans h1.cells⟩

/-- two import blocks with the same abstract effect, run from related states, end in related states -/
theorem GoodC.ofIResC {D : Bool} {s s' s1 s1' : XState} {A A' : List Atom} {L L' : List Str} (h : GoodC D s s')
    (h1 : IResC s s1 A L) (h2 : IResC s' s1' A' L') (hA : ∀ g, A.foldl aStep g = A'.foldl aStep g)
    (hL : D = true → ∀ d, L.contains d = L'.contains d) : GoodC D s1 s1' := by
  refine ⟨rfl, rfl, h1.inv, h2.inv, ?_, ?_, ?_, ?_, ⟨?_, ?_, ?_, ?_⟩, ?_, ?_, ?_⟩
  · rw [h1.glob, h2.glob, h.glob, hA]
  · rw [h1.obs.builtins, h2.obs.builtins]; exact h.builtins
  · rw [h1.funcs, h2.funcs]; exact h.funcs
  · unfold FunsShape; rw [h1.funcs]; exact h.shape
  · rw [h1.obs.ne, h2.obs.ne]; exact h.log.1
  · rw [h1.obs.ae, h2.obs.ae]; exact h.log.2.1
  · rw [h1.obs.lne, h2.obs.lne]; exact h.log.2.2.1
  · rw [h1.obs.other, h2.obs.other]; exact h.log.2.2.2
  · intro hD d; rw [h1.loaded, h2.loaded, h.loaded hD d, hL hD d]
  · rw [h1.cells, h2.cells]; exact h.clen
  · intro i; rw [h1.cells, h2.cells]; exact (h.cells i).ext h1.ext h2.ext

theorem fragCStmt_located (D : Bool) (l : Nat) (st : Stmt) : fragCStmt D (.located l st) = fragCStmt D st := by
  simp [fragCStmt, fragBStmt, fragDef]

/-- one module-level statement of fragment C whose imports succeed: run from related states with sufficient (possibly
    different) fuel, both runs end in related states with the same outcome -/
theorem stmtRelM (D : Bool) : ∀ (st : Stmt) (f f' : Nat) (s s' : XState), fragCStmt D st = true → importOK st = true →
    needSC st ≤ f → needSC st ≤ f' → GoodC D s s' → SResC D (execStmt f {} st s) (execStmt f' {} st s')
  | .expr e, f, f', s, s', hfr, _, hf, hf', hg => by
    obtain ⟨f, rfl⟩ : ∃ g, f = g + 1 := ⟨f - 1, by simp [needSC] at hf; omega⟩
    obtain ⟨f', rfl⟩ : ∃ g, f' = g + 1 := ⟨f' - 1, by simp [needSC] at hf'; omega⟩
    simp only [needSC] at hf hf'
    have hfe : fragBExpr D e = true := by simpa [fragCStmt, fragBStmt, fragDef] using hfr
    have hr := (evalRelC D s.mods s'.mods {} rfl f).1 e f' s s' hfe (.inr ⟨by omega, by omega⟩) hg
    simp only [execStmt]
    exact SResC.ofCR (CR.bind hr (fun t t' _ _ hg2 _ =>
      CR.pure (R := fun a b => a = Flow.normal ∧ b = Flow.normal) Flow.normal Flow.normal hg2 ⟨rfl, rfl⟩))
  | .assign ts e, f, f', s, s', hfr, _, hf, hf', hg => by
    obtain ⟨f, rfl⟩ : ∃ g, f = g + 3 := ⟨f - 3, by simp [needSC] at hf; omega⟩
    obtain ⟨f', rfl⟩ : ∃ g, f' = g + 3 := ⟨f' - 3, by simp [needSC] at hf'; omega⟩
    simp only [needSC] at hf hf'
    have hfr' : fragBStmt D (.assign ts e) = true := by simpa [fragCStmt, fragDef] using hfr
    simp only [fragBStmt, Bool.and_eq_true] at hfr'
    cases hsn : singleName ts with
    | none => rw [hsn] at hfr'; simp at hfr'
    | some x =>
      have hts := singleName_eq hsn
      subst hts
      have hr := (evalRelC D s.mods s'.mods {} rfl (f + 2)).1 e (f' + 2) s s' hfr'.2 (.inr ⟨by omega, by omega⟩) hg
      simp only [execStmt]
      refine SResC.ofCR (CR.bind hr (fun t t' v v' hg2 hv => ?_))
      simp only [X.bind_def, assignAll_name_ok, X.pure_def]
      exact ⟨hg2.setG x hv _ _ t.funcs t'.funcs hg2.funcs hg2.shape, rfl, rfl⟩
  | .pass, f, f', s, s', _, _, hf, hf', hg => by
    obtain ⟨f, rfl⟩ : ∃ g, f = g + 1 := ⟨f - 1, by simp [needSC] at hf; omega⟩
    obtain ⟨f', rfl⟩ : ∃ g, f' = g + 1 := ⟨f' - 1, by simp [needSC] at hf'; omega⟩
    exact ⟨hg, .inl ⟨rfl, rfl⟩⟩
  | .import_ names, f, f', s, s', _, hok, hf, hf', hg => by
    obtain ⟨s1, h1, r1⟩ := importStmt_specC (.import_ names) f s hg.inv rfl hok hf
    obtain ⟨s1', h1', r1'⟩ := importStmt_specC (.import_ names) f' s' hg.inv' rfl hok hf'
    rw [h1, h1']
    exact ⟨hg.ofIResC r1 r1' (fun _ => rfl) (fun _ _ => rfl), .inl ⟨rfl, rfl⟩⟩
  | .importFrom m names, f, f', s, s', _, hok, hf, hf', hg => by
    obtain ⟨s1, h1, r1⟩ := importStmt_specC (.importFrom m names) f s hg.inv rfl hok hf
    obtain ⟨s1', h1', r1'⟩ := importStmt_specC (.importFrom m names) f' s' hg.inv' rfl hok hf'
    rw [h1, h1']
    exact ⟨hg.ofIResC r1 r1' (fun _ => rfl) (fun _ _ => rfl), .inl ⟨rfl, rfl⟩⟩
  | .located l st, f, f', s, s', hfr, hok, hf, hf', hg => by
    obtain ⟨f, rfl⟩ : ∃ g, f = g + 1 := ⟨f - 1, by simp [needSC] at hf; omega⟩
    obtain ⟨f', rfl⟩ : ∃ g, f' = g + 1 := ⟨f' - 1, by simp [needSC] at hf'; omega⟩
    simp only [needSC] at hf hf'
    rw [fragCStmt_located] at hfr
    have := stmtRelM D st f f' { s with line := l } { s' with line := l } hfr hok (by omega) (by omega)
      (PG.setLine hg l)
    rw [execStmt, execStmt]
    exact this
  | .funcDef name a body decos ret, f, f', s, s', hfr, _, hf, hf', hg => by
    obtain ⟨f, rfl⟩ : ∃ g, f = g + 3 := ⟨f - 3, by simp [needSC] at hf; omega⟩
    obtain ⟨f', rfl⟩ : ∃ g, f' = g + 3 := ⟨f' - 3, by simp [needSC] at hf'; omega⟩
    have hfd : fragDef D (.funcDef name a body decos ret) = true := by simpa [fragCStmt, fragBStmt] using hfr
    obtain ⟨ps, rfl, rfl, rfl, _, hps, hb⟩ := fragDef_funcDef hfd
    rw [execDef_ok f s name ps body hps, execDef_ok f' s' name ps body hps]
    have hlen : s.funcs.length = s'.funcs.length := by rw [hg.funcs]
    refine ⟨PG.setG hg name (v := .func s.funcs.length) (v' := .func s'.funcs.length) ⟨rfl, rfl, by simp [absVal, hlen]⟩ _ _
      (s.funcs ++ [defClosure ps body]) (s'.funcs ++ [defClosure ps body]) (by rw [hg.funcs]) ?_, .inl ⟨rfl, rfl⟩⟩
    intro c hc
    rcases List.mem_append.mp hc with hc | hc
    · exact hg.shape c hc
    · simp only [List.mem_singleton] at hc
      exact ⟨ps, body, hc, hb⟩
  | .augAssign _ _, _, _, _, _, hfr, _, _, _, _ => by simp [fragCStmt, fragBStmt, fragDef] at hfr
  | .annAssign _ _ _, _, _, _, _, hfr, _, _, _, _ => by simp [fragCStmt, fragBStmt, fragDef] at hfr
  | .classDef _ _ _ _, _, _, _, _, hfr, _, _, _, _ => by simp [fragCStmt, fragBStmt, fragDef] at hfr
  | .for_ _ _ _ _, _, _, _, _, hfr, _, _, _, _ => by simp [fragCStmt, fragBStmt, fragDef] at hfr
  | .while_ _ _ _, _, _, _, _, hfr, _, _, _, _ => by simp [fragCStmt, fragBStmt, fragDef] at hfr
  | .if_ _ _ _, _, _, _, _, hfr, _, _, _, _ => by simp [fragCStmt, fragBStmt, fragDef] at hfr
  | .with_ _ _, _, _, _, _, hfr, _, _, _, _ => by simp [fragCStmt, fragBStmt, fragDef] at hfr
  | .try_ _ _ _ _, _, _, _, _, hfr, _, _, _, _ => by simp [fragCStmt, fragBStmt, fragDef] at hfr
  | .return_ _, _, _, _, _, hfr, _, _, _, _ => by simp [fragCStmt, fragBStmt, fragDef] at hfr
  | .raise_ _, _, _, _, _, hfr, _, _, _, _ => by simp [fragCStmt, fragBStmt, fragDef] at hfr
  | .delete _, _, _, _, _, hfr, _, _, _, _ => by simp [fragCStmt, fragBStmt, fragDef] at hfr
  | .global_ _, _, _, _, _, hfr, _, _, _, _ => by simp [fragCStmt, fragBStmt, fragDef] at hfr
  | .nonlocal_ _, _, _, _, _, hfr, _, _, _, _ => by simp [fragCStmt, fragBStmt, fragDef] at hfr

/-- a common prefix `pre` of two fragment-C programs run from related states: either both runs stop in `pre` with the
    same exception, or both get through it and continue with the rest from related states -/
theorem stmtsRelM_k (D : Bool) : ∀ (pre : List Stmt) (f f' : Nat) (s s' : XState) (k k' : List Stmt),
    fragC D pre = true → pre.all importOK = true → needSsC pre ≤ f → needSsC pre ≤ f' → GoodC D s s' →
    (∃ e t t', execStmts f {} (pre ++ k) s = (t, .error e) ∧ execStmts f' {} (pre ++ k') s' = (t', .error e) ∧ GoodC D t t') ∨
    (∃ t t', GoodC D t t' ∧ execStmts f {} (pre ++ k) s = execStmts (f - pre.length) {} k t ∧
      execStmts f' {} (pre ++ k') s' = execStmts (f' - pre.length) {} k' t')
  | [], f, f', s, s', k, k', _, _, _, _, hg => .inr ⟨s, s', hg, rfl, rfl⟩
  | st :: ss, f, f', s, s', k, k', hfr, hok, hf, hf', hg => by
    obtain ⟨f, rfl⟩ : ∃ g, f = g + 1 := ⟨f - 1, by simp [needSsC] at hf; omega⟩
    obtain ⟨f', rfl⟩ : ∃ g, f' = g + 1 := ⟨f' - 1, by simp [needSsC] at hf'; omega⟩
    simp only [needSsC] at hf hf'
    simp only [fragC, List.all_cons, Bool.and_eq_true] at hfr hok
    obtain ⟨hg1, hres⟩ := stmtRelM D st f f' s s' hfr.1 hok.1 (by omega) (by omega) hg
    simp only [List.cons_append, execStmts, X.bind_def]
    cases h1 : execStmt f {} st s with
    | mk t r =>
      cases h2 : execStmt f' {} st s' with
      | mk t' r' =>
        rw [h1, h2] at hg1 hres
        simp only at hg1 hres
        rcases hres with ⟨rfl, rfl⟩ | ⟨e, rfl, rfl⟩
        · simp only
          have := stmtsRelM_k D ss f f' t t' k k' hfr.2 hok.2 (by omega) (by omega) hg1
          simpa using this
        · exact .inl ⟨e, t, t', rfl, rfl, hg1⟩

theorem stmtsRelM (D : Bool) (ss : List Stmt) (f f' : Nat) (s s' : XState)
    (hfr : fragC D ss = true) (hok : ss.all importOK = true) (hf : needSsC ss ≤ f) (hf' : needSsC ss ≤ f')
    (hg : GoodC D s s') : SResC D (execStmts f {} ss s) (execStmts f' {} ss s') := by
  have hl := needSsC_length ss
  rcases stmtsRelM_k D ss f f' s s' [] [] hfr hok hf hf' hg with ⟨e, t, t', h1, h2, hg1⟩ | ⟨t, t', hg1, h1, h2⟩
  · simp only [List.append_nil] at h1 h2
    rw [h1, h2]; exact ⟨hg1, .inr ⟨e, rfl, rfl⟩⟩
  · simp only [List.append_nil] at h1 h2
    obtain ⟨g, hgf⟩ : ∃ g, f - ss.length = g + 1 := ⟨f - ss.length - 1, by omega⟩
    obtain ⟨g', hgf'⟩ : ∃ g, f' - ss.length = g + 1 := ⟨f' - ss.length - 1, by omega⟩
    rw [h1, h2, hgf, hgf']
    exact ⟨hg1, .inl ⟨rfl, rfl⟩⟩

/-- a block of import statements in fragment C binds its aliases in order and then continues with the rest -/
theorem execStmts_importsC : ∀ (blk : List Stmt) (f : Nat) (s : XState) (k : List Stmt), MInvC s →
    blk.all isImport = true → blk.all importOK = true → needSsC blk ≤ f →
    ∃ s1, IResC s s1 (blockAtoms blk) (blockLoads blk) ∧
      execStmts f {} (blk ++ k) s = execStmts (f - blk.length) {} k s1
  | [], f, s, k, hinv, _, _, _ => ⟨s, IResC.refl s hinv, rfl⟩
  | st :: ss, f, s, k, hinv, hi, hok, hf => by
    obtain ⟨f, rfl⟩ : ∃ g, f = g + 1 := ⟨f - 1, by simp [needSsC] at hf; omega⟩
    simp only [needSsC] at hf
    simp only [List.all_cons, Bool.and_eq_true] at hi hok
    have hn := needI_leC st
    obtain ⟨s1, h1, r1⟩ := importStmt_specC st f s hinv hi.1 hok.1 (by omega)
    obtain ⟨s2, r2, h2⟩ := execStmts_importsC ss f s1 k r1.inv hi.2 hok.2 (by omega)
    refine ⟨s2, by simpa [blockAtoms, blockLoads] using r1.trans r2, ?_⟩
    simp only [List.cons_append, execStmts, X.bind_def, h1]
    simpa using h2

theorem PG.atEnd {D : Bool} {M M' : List ModObj} {s s' : XState} (h : PG D M M' s s') :
    PG D M M' { s with atEnd := true } { s' with atEnd := true } :=
  h.upd0 ⟨rfl, rfl, rfl, rfl, rfl⟩ ⟨rfl, rfl, rfl, rfl, rfl⟩ h.log rfl rfl

/-- from related module-level runs to `SameRun` of the whole programs, trailing calls included -/
theorem SameRun.ofSResC {D : Bool} (F : Nat) (p p' calls : List Stmt) (s0 : XState)
    (hcalls : calls.all (fragCall D) = true)
    (h : SResC D (execStmts F {} p s0) (execStmts F {} p' s0)) :
    SameRun (runProgram F p calls s0) (runProgram F p' calls s0) := by
  obtain ⟨hg, hres⟩ := h
  unfold runProgram
  simp only [X.bind_def]
  cases h1 : execStmts F {} p s0 with
  | mk t r =>
    cases h2 : execStmts F {} p' s0 with
    | mk t' r' =>
      rw [h1, h2] at hg hres
      simp only at hg hres
      rcases hres with ⟨rfl, rfl⟩ | ⟨e, rfl, rfl⟩
      · simp only [X.modify]
        obtain ⟨hg2, hr2⟩ := callsRel D t.mods t'.mods calls F _ _ hcalls (PG.atEnd hg)
        cases h3 : execStmts F {} calls { t with atEnd := true } with
        | mk w r =>
          cases h4 : execStmts F {} calls { t' with atEnd := true } with
          | mk w' r' =>
            rw [h3, h4] at hg2 hr2
            simp only at hg2 hr2
            cases r <;> cases r' <;> simp only at hr2 ⊢
            · exact ⟨hg2.log.1, hg2.log.2.1, by rw [hr2], hg2.glob⟩
            · exact ⟨hg2.log.1, hg2.log.2.1, rfl, hg2.glob⟩
      · exact ⟨hg.log.1, hg.log.2.1, rfl, hg.glob⟩

theorem GoodC.refl (D : Bool) (s : XState) (h : MInvC s) (hfs : FunsShape D s) (hc : s.cells = []) : GoodC D s s :=
  ⟨rfl, rfl, h, h, rfl, rfl, rfl, hfs, ⟨rfl, rfl, rfl, rfl⟩, fun _ _ => rfl, rfl, fun i => by rw [hc]; trivial⟩

/-- **Core of C02 on the reference semantics, fragment C.**  Two programs of fragment C (straight-line module level,
    module-level `def`s with straight-line bodies, calls after the last statement) that differ in one block of import
    statements with the same effect on the abstract globals (`hA`) and, with dotted reads, the same loaded modules
    (`hL`).  The two runs — function bodies executed by the trailing calls included — raise the same NameErrors and
    AttributeErrors and end with the same outcome and the same globals. -/
theorem reorder_coreC (D : Bool) (pre blk blk' post calls : List Stmt) (s0 : XState) (F : Nat)
    (hfr : fragC D (pre ++ blk ++ post) = true) (hcalls : calls.all (fragCall D) = true)
    (hok : (pre ++ blk ++ post).all importOK = true) (hok' : (pre ++ blk' ++ post).all importOK = true)
    (hblk : blk.all isImport = true) (hblk' : blk'.all isImport = true)
    (hA : ∀ g, (blockAtoms blk).foldl aStep g = (blockAtoms blk').foldl aStep g)
    (hL : D = true → ∀ d, (blockLoads blk).contains d = (blockLoads blk').contains d)
    (hinv : MInvC s0) (hfs : FunsShape D s0) (hc : s0.cells = [])
    (hF : needSsC (pre ++ blk ++ post) ≤ F) (hF' : needSsC (pre ++ blk' ++ post) ≤ F) :
    SameRun (runProgram F (pre ++ blk ++ post) calls s0) (runProgram F (pre ++ blk' ++ post) calls s0) := by
  simp only [fragC, List.all_append, Bool.and_eq_true] at hfr hok hok'
  have e1 := needSsC_append (pre ++ blk) post
  have e2 := needSsC_append pre blk
  have e1' := needSsC_append (pre ++ blk') post
  have e2' := needSsC_append pre blk'
  have l1 := needSsC_length pre
  have l2 := needSsC_length blk
  have l2' := needSsC_length blk'
  have l3 := needSsC_length post
  apply SameRun.ofSResC (D := D) F _ _ calls s0 hcalls
  rw [List.append_assoc, List.append_assoc]
  rcases stmtsRelM_k D pre F F s0 s0 (blk ++ post) (blk' ++ post) hfr.1.1 hok.1.1 (by omega) (by omega)
    (GoodC.refl D s0 hinv hfs hc) with ⟨e, t, t', h1, h2, hg1⟩ | ⟨t, t', hg1, h1, h2⟩
  · rw [h1, h2]; exact ⟨hg1, .inr ⟨e, rfl, rfl⟩⟩
  · obtain ⟨s1, r1, h3⟩ := execStmts_importsC blk (F - pre.length) t post hg1.inv hblk hok.1.2 (by omega)
    obtain ⟨s1', r1', h3'⟩ := execStmts_importsC blk' (F - pre.length) t' post hg1.inv' hblk' hok'.1.2 (by omega)
    rw [h1, h2, h3, h3']
    exact stmtsRelM D post _ _ s1 s1' hfr.2 hok.2 (by omega) (by omega) (hg1.ofIResC r1 r1' hA hL)

/-- **C02_reorder_equiv_fragC.**  `C02_reorder_equiv_fragB` lifted to fragment C: the programs may contain module-level
    `def f(p1..pk): <straight-line body>` (before or after the import block) and are followed by `calls`; the reads
    made by the function bodies when the calls run are covered. -/
theorem C02_reorder_equiv_fragC (D : Bool) (pre blk blk' post calls : List Stmt) (s0 : XState) (F : Nat)
    (hfr : fragC D (pre ++ blk ++ post) = true) (hcalls : calls.all (fragCall D) = true)
    (hok : (pre ++ blk ++ post).all importOK = true) (hok' : (pre ++ blk' ++ post).all importOK = true)
    (hblk : blk.all isImport = true) (hblk' : blk'.all isImport = true)
    (hwf : (blockAtoms blk).all Atom.wf = true) (hwf' : (blockAtoms blk').all Atom.wf = true)
    (hperm : ((blockAtoms blk').map impOf).Perm (Blocks.fromImportsShadow ((blockAtoms blk).map impOf)))
    (hcons : Consistent execSem ((blockAtoms blk).map impOf))
    (hL : D = true → ∀ d, (blockLoads blk).contains d = (blockLoads blk').contains d)
    (hinv : MInvC s0) (hfs : FunsShape D s0) (hc : s0.cells = [])
    (hF : needSsC (pre ++ blk ++ post) ≤ F) (hF' : needSsC (pre ++ blk' ++ post) ≤ F) :
    SameRun (runProgram F (pre ++ blk ++ post) calls s0) (runProgram F (pre ++ blk' ++ post) calls s0) := by
  refine reorder_coreC D pre blk blk' post calls s0 F hfr hcalls hok hok' hblk hblk' ?_ hL hinv hfs hc hF hF'
  intro g
  have o1 := blockAtoms_ok blk (by simp only [List.all_append, Bool.and_eq_true] at hok; exact hok.1.2)
  have o2 := blockAtoms_ok blk' (by simp only [List.all_append, Bool.and_eq_true] at hok'; exact hok'.1.2)
  rw [← foldl_bridge _ g (fun x hx => ⟨o1 x hx, List.all_eq_true.mp hwf x hx⟩),
    ← foldl_bridge _ g (fun x hx => ⟨o2 x hx, List.all_eq_true.mp hwf' x hx⟩)]
  exact (C02_block_env_exec execSem _ _ hperm hcons g).symm

theorem minvC_empty : MInvC {} := MInvC.ofMInv minv_empty
theorem funsShape_empty (D : Bool) : FunsShape D {} := fun c hc => by cases hc

/-! ## 10. deferred reads: an import block placed after the `def` that reads the imported name -/

/-- **C02_late_import_read_by_function** (general form).  A module-level `def` whose body reads names that only a LATER
    import block binds (the read is deferred to the trailing call: the D19 / D32 situation): re-ordering /
    de-duplicating that later block does not change what the call at the end sees — the two runs raise the same
    NameErrors and AttributeErrors (in particular inside the function body), end with the same outcome and globals.
    Instance of `C02_reorder_equiv_fragC` with the `def` in `pre`. -/
theorem C02_late_import_read_by_function (D : Bool) (dpre blk blk' post calls : List Stmt) (l : Nat) (name : Str)
    (ps : List Param) (body : List Stmt) (s0 : XState) (F : Nat)
    (hfr : fragC D ((dpre ++ [Stmt.located l (.funcDef name (.mk ps [] none [] [] none) body [] none)]) ++ blk ++ post) = true)
    (hcalls : calls.all (fragCall D) = true)
    (hok : ((dpre ++ [Stmt.located l (.funcDef name (.mk ps [] none [] [] none) body [] none)]) ++ blk ++ post).all importOK = true)
    (hok' : ((dpre ++ [Stmt.located l (.funcDef name (.mk ps [] none [] [] none) body [] none)]) ++ blk' ++ post).all importOK = true)
    (hblk : blk.all isImport = true) (hblk' : blk'.all isImport = true)
    (hwf : (blockAtoms blk).all Atom.wf = true) (hwf' : (blockAtoms blk').all Atom.wf = true)
    (hperm : ((blockAtoms blk').map impOf).Perm (Blocks.fromImportsShadow ((blockAtoms blk).map impOf)))
    (hcons : Consistent execSem ((blockAtoms blk).map impOf))
    (hL : D = true → ∀ d, (blockLoads blk).contains d = (blockLoads blk').contains d)
    (hinv : MInvC s0) (hfs : FunsShape D s0) (hc : s0.cells = [])
    (hF : needSsC ((dpre ++ [Stmt.located l (.funcDef name (.mk ps [] none [] [] none) body [] none)]) ++ blk ++ post) ≤ F)
    (hF' : needSsC ((dpre ++ [Stmt.located l (.funcDef name (.mk ps [] none [] [] none) body [] none)]) ++ blk' ++ post) ≤ F) :
    SameRun
      (runProgram F ((dpre ++ [Stmt.located l (.funcDef name (.mk ps [] none [] [] none) body [] none)]) ++ blk ++ post) calls s0)
      (runProgram F ((dpre ++ [Stmt.located l (.funcDef name (.mk ps [] none [] [] none) body [] none)]) ++ blk' ++ post) calls s0) :=
  C02_reorder_equiv_fragC D _ blk blk' post calls s0 F hfr hcalls hok hok' hblk hblk' hwf hwf' hperm hcons hL hinv hfs hc hF hF'

section ExamplesC
private def alC (n : String) (as : Option String := none) : Alias := ⟨n.toList, as.map String.toList⟩

/-- `def f(p):` / `    y = pa.s1` / `    return q` — reads `pa.s1` and `q`, bound only by the later import block -/
def lateDef : List Stmt := [.located 1 (.funcDef "f".toList (.mk [.mk "p".toList none] [] none [] [] none)
  [.located 2 (.assign [.name "y".toList] (.attr (.name "pa".toList) "s1".toList)), .located 3 (.return_ (some (.name "q".toList)))]
  [] none)]
/-- `import pa.s1` / `from pb import m1 as q` -/
def lateBlk : List Stmt := [.located 4 (.import_ [alC "pa.s1"]), .located 5 (.importFrom "pb".toList [alC "m1" (some "q")])]
/-- the same block re-ordered (the module objects get different numbers) -/
def lateBlk' : List Stmt := [.located 4 (.importFrom "pb".toList [alC "m1" (some "q")]), .located 5 (.import_ [alC "pa.s1"])]
/-- `x = f` (a function object in the globals) -/
def latePost : List Stmt := [.located 6 (.assign [.name "x".toList] (.name "f".toList))]
/-- `f(pa)` after the last statement (a module object travels through a cell); `f(zz)` (NameError in the arguments) -/
def lateCalls : List Stmt := [.located 7 (.expr (.call (.name "f".toList) [.name "pa".toList])),
  .located 8 (.expr (.call (.name "f".toList) [.name "zz".toList]))]

/-- the hypotheses of `C02_late_import_read_by_function` / `C02_reorder_equiv_fragC` hold on the example … -/
theorem late_import_hyps :
    fragC true (lateDef ++ lateBlk ++ latePost) = true ∧ lateCalls.all (fragCall true) = true ∧
    (lateDef ++ lateBlk ++ latePost).all importOK = true ∧ (lateDef ++ lateBlk' ++ latePost).all importOK = true ∧
    lateBlk.all isImport = true ∧ lateBlk'.all isImport = true ∧
    (blockAtoms lateBlk).all Atom.wf = true ∧ (blockAtoms lateBlk').all Atom.wf = true ∧
    needSsC (lateDef ++ lateBlk ++ latePost) ≤ 40 ∧ needSsC (lateDef ++ lateBlk' ++ latePost) ≤ 40 := by decide

theorem late_import_perm :
    ((blockAtoms lateBlk').map impOf).Perm (Blocks.fromImportsShadow ((blockAtoms lateBlk).map impOf)) := by
  have : Blocks.fromImportsShadow ((blockAtoms lateBlk).map impOf) = (blockAtoms lateBlk).map impOf := by decide
  rw [this]; exact List.Perm.swap _ _ _

theorem late_import_cons : Consistent execSem ((blockAtoms lateBlk).map impOf) :=
  consistent_of_keys _ _ (by decide) (by decide)

theorem late_import_loads : ∀ d, (blockLoads lateBlk).contains d = (blockLoads lateBlk').contains d := by
  intro d
  have e1 : blockLoads lateBlk = ["pa".toList, "pa.s1".toList, "pb".toList] := by decide
  have e2 : blockLoads lateBlk' = ["pb".toList, "pa".toList, "pa.s1".toList] := by decide
  rw [e1, e2]
  simp only [List.contains_cons, List.contains_nil, Bool.or_false]
  generalize (d == "pa".toList) = a
  generalize (d == "pa.s1".toList) = b
  generalize (d == "pb".toList) = c
  cases a <;> cases b <;> cases c <;> rfl

/-- … so the theorem applies: **the call at the end sees the same thing for both orders of the later block** -/
theorem late_import_sameRun :
    SameRun (runProgram 40 (lateDef ++ lateBlk ++ latePost) lateCalls {})
      (runProgram 40 (lateDef ++ lateBlk' ++ latePost) lateCalls {}) := by
  obtain ⟨h1, h2, h3, h4, h5, h6, h7, h8, h9, h10⟩ := late_import_hyps
  exact C02_late_import_read_by_function true [] lateBlk lateBlk' latePost lateCalls 1 _ _ _ {} 40 h1 h2 h3 h4 h5 h6 h7 h8
    late_import_perm late_import_cons (fun _ => late_import_loads) minvC_empty (funsShape_empty true) rfl h9 h10

/-- what the call sees (computed): with the later block the body's reads of `pa.s1` and `q` succeed — the only
    NameError is `zz` from the second call's argument — whereas without the block the first call fails on `pa`:
    the deferred reads of the function body are served by the later import block. -/
theorem late_import_witness :
    (runProgram 40 (lateDef ++ lateBlk ++ latePost) lateCalls {}).1.ne = ["zz".toList] ∧
    (runProgram 40 (lateDef ++ lateBlk ++ latePost) lateCalls {}).1.ae = [] ∧
    (runProgram 40 (lateDef ++ lateBlk' ++ latePost) lateCalls {}).1.ne = ["zz".toList] ∧
    (runProgram 40 (lateDef ++ latePost) lateCalls {}).1.ne = ["pa".toList] ∧
    (runProgram 40 (lateDef ++ lateBlk ++ latePost) [.located 7 (.expr (.call (.name "f".toList) [.const]))] {}).2.toBool = true ∧
    (runProgram 40 (lateDef ++ latePost) [.located 7 (.expr (.call (.name "f".toList) [.const]))] {}).1.ne = ["pa".toList] := by
  decide +kernel


/-- the `def` may also come AFTER the import block (`post`): same conclusion from the same theorem -/
theorem def_after_block_sameRun :
    SameRun (runProgram 40 ([] ++ lateBlk ++ (lateDef ++ latePost)) lateCalls {})
      (runProgram 40 ([] ++ lateBlk' ++ (lateDef ++ latePost)) lateCalls {}) := by
  have h : fragC true ([] ++ lateBlk ++ (lateDef ++ latePost)) = true ∧
      ([] ++ lateBlk ++ (lateDef ++ latePost)).all importOK = true ∧
      ([] ++ lateBlk' ++ (lateDef ++ latePost)).all importOK = true ∧
      needSsC ([] ++ lateBlk ++ (lateDef ++ latePost)) ≤ 40 ∧ needSsC ([] ++ lateBlk' ++ (lateDef ++ latePost)) ≤ 40 := by
    decide
  obtain ⟨_, h2, _, _, h5, h6, h7, h8, _, _⟩ := late_import_hyps
  exact C02_reorder_equiv_fragC true [] lateBlk lateBlk' (lateDef ++ latePost) lateCalls {} 40 h.1 h2 h.2.1 h.2.2.1 h5 h6 h7 h8
    late_import_perm late_import_cons (fun _ => late_import_loads) minvC_empty (funsShape_empty true) rfl h.2.2.2.1 h.2.2.2.2

end ExamplesC

end Pfb.C02
