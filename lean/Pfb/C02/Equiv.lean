/-
  Pfb.C02.Equiv — property C02 (rewriting imports never changes what the program does), the reformat-imports half,
  stated on the REFERENCE SEMANTICS `Pfb.PyCore.Exec` (the one the C05 correspondence validates against CPython).

  `Pfb.C02.Props.C02_block_env` is about an abstract semantics `Sem` of import statements.  Here `Sem` is shown to be
  what `Exec` does: `execSem` is the instance extracted from `Exec`, `importStmt_spec` / `execStmts_imports` show that
  executing import statements binds exactly `aliasBinds a` per alias, in order, to a value determined by the alias
  alone (`Atom.val`), and `foldl_bridge` identifies that with `Sem`'s `execOne`.

  What an import statement reads: the module table (`loaded`, `mods`).  What it writes: `globals` (the bound names),
  `origins`, `line`, and the module table (modules loaded).  Module objects are numbered in load order, so two runs
  that import in different orders are compared up to that numbering: `absG` maps a global to its abstract value, in
  which a module is its dotted name.  The loading side effect is observable only through dotted reads (`pa.s1` is an
  AttributeError unless `pa.s1` was loaded): with `D = true` the theorems ask that both blocks load the same modules.

  Main theorems: `reorder_core`, `C02_swap_equiv_fragB` (a), `C02_drop_shadowed_equiv_fragB` (b),
  `C02_split_from_equiv_fragB` (c), `C02_reorder_equiv_fragB` (general, through `C02_block_env_exec`),
  witness `witness_d10_exec` / `witness_d10_not_same` (without `Consistent` the conclusion fails in `Exec` too).
-/
import Pfb.C02.Props
import Pfb.C05.LemmasB
namespace Pfb.C02
open Pfb Pfb.PyCore Pfb.C05

/-! ## 0. association lists, dotted names -/

theorem assocGet_append {β} (k : Str) (l r : List (Str × β)) :
    assocGet k (l ++ r) = match assocGet k l with | some v => some v | none => assocGet k r := by
  induction l with
  | nil => rfl
  | cons x xs ih =>
    obtain ⟨k', v'⟩ := x
    simp only [List.cons_append, assocGet]
    split
    · rfl
    · exact ih

theorem assocGet_single {β} (k d : Str) (v : β) : assocGet k [(d, v)] = if d = k then some v else none := rfl

theorem splitDots_snoc (d a : Str) (ha : a.contains '.' = false) : splitDots (d ++ '.' :: a) = splitDots d ++ [a] := by
  induction d with
  | nil =>
    show splitDots ('.' :: a) = splitDots [] ++ [a]
    rw [splitDots]; simp [splitDots_simple ha, splitDots]
  | cons c cs ih =>
    simp only [List.cons_append]
    rw [splitDots, splitDots]
    by_cases hc : c = '.'
    · simp [hc, ih]
    · simp only [hc, if_false, ih]
      cases h : splitDots cs with
      | nil => exact absurd h (splitDots_ne_nil cs)
      | cons l ls => simp

theorem isSubmodName_dotFree {a : Str} (h : isSubmodName a = true) : a.contains '.' = false := by
  unfold isSubmodName at h
  split at h
  · rename_i d ds
    simp only [List.all_eq_true] at h
    have : ∀ c ∈ ('s' :: d :: ds), c ≠ '.' := by
      intro c hc
      simp only [List.mem_cons] at hc
      rcases hc with rfl | hc
      · decide
      · have := h c (by simpa using hc)
        intro hcd; subst hcd; simp at this
    simp only [List.contains_eq_mem, decide_eq_false_iff_not]
    intro hm; exact this _ hm rfl
  · cases h

theorem isSubmodName_not_member {a : Str} (h : isSubmodName a = true) : universeMembers.contains a = false := by
  unfold isSubmodName at h
  split at h
  · simp [universeMembers]
  · cases h

/-! ## 1. abstract values: a module value is the *name* of the module, not its allocation number -/

inductive AVal
  | opq | rigid | none
  | bool (b : Bool)
  | seq (vs : List AVal)
  | func (id : Nat)
  | cls (id : Nat)
  | mod (name : Option Str)

/-- name of module number `i` of the module table -/
def nm (M : List ModObj) (i : Nat) : Option Str := M[i]?.map (·.name)

mutual
  def absVal (M : List ModObj) : RVal → AVal
    | .opq => .opq
    | .rigid => .rigid
    | .none => .none
    | .bool b => .bool b
    | .seq vs => .seq (absVals M vs)
    | .func i => .func i
    | .cls i => .cls i
    | .mod i => .mod (nm M i)
  def absVals (M : List ModObj) : List RVal → List AVal
    | [] => []
    | v :: vs => absVal M v :: absVals M vs
end

mutual
  /-- a value of the import fragment (no function or class objects) whose module numbers are all below `n` -/
  def validV (n : Nat) : RVal → Bool
    | .seq vs => validVs n vs
    | .mod i => decide (i < n)
    | .func _ => false
    | .cls _ => false
    | _ => true
  def validVs (n : Nat) : List RVal → Bool
    | [] => true
    | v :: vs => validV n v && validVs n vs
end

/-- the module table grew: old numbers keep their names -/
def Ext (M M2 : List ModObj) : Prop := M.length ≤ M2.length ∧ ∀ i, i < M.length → nm M2 i = nm M i

theorem Ext.refl (M : List ModObj) : Ext M M := ⟨Nat.le_refl _, fun _ _ => rfl⟩
theorem Ext.trans {A B C : List ModObj} (h1 : Ext A B) (h2 : Ext B C) : Ext A C :=
  ⟨Nat.le_trans h1.1 h2.1, fun i hi => (h2.2 i (Nat.lt_of_lt_of_le hi h1.1)).trans (h1.2 i hi)⟩

mutual
  theorem absVal_ext {M M2 : List ModObj} (h : Ext M M2) : ∀ v, validV M.length v = true → absVal M2 v = absVal M v
    | .opq, _ => rfl
    | .rigid, _ => rfl
    | .none, _ => rfl
    | .bool _, _ => rfl
    | .func _, hv => by simp [validV] at hv
    | .cls _, hv => by simp [validV] at hv
    | .mod i, hv => by
      simp only [validV, decide_eq_true_eq] at hv
      simp only [absVal, h.2 i hv]
    | .seq vs, hv => by
      simp only [validV] at hv
      simp only [absVal, absVals_ext h vs hv]
  theorem absVals_ext {M M2 : List ModObj} (h : Ext M M2) : ∀ vs, validVs M.length vs = true → absVals M2 vs = absVals M vs
    | [], _ => rfl
    | v :: vs, hv => by
      simp only [validVs, Bool.and_eq_true] at hv
      simp only [absVals, absVal_ext h v hv.1, absVals_ext h vs hv.2]
end

mutual
  theorem validV_mono {n n2 : Nat} (h : n ≤ n2) : ∀ v, validV n v = true → validV n2 v = true
    | .opq, _ => rfl
    | .rigid, _ => rfl
    | .none, _ => rfl
    | .bool _, _ => rfl
    | .func _, hv => by simp [validV] at hv
    | .cls _, hv => by simp [validV] at hv
    | .mod i, hv => by
      simp only [validV, decide_eq_true_eq] at hv ⊢; omega
    | .seq vs, hv => by
      simp only [validV] at hv ⊢; exact validVs_mono h vs hv
  theorem validVs_mono {n n2 : Nat} (h : n ≤ n2) : ∀ vs, validVs n vs = true → validVs n2 vs = true
    | [], _ => rfl
    | v :: vs, hv => by
      simp only [validVs, Bool.and_eq_true] at hv ⊢
      exact ⟨validV_mono h v hv.1, validVs_mono h vs hv.2⟩
end

theorem absVals_append (M : List ModObj) (a b : List RVal) : absVals M (a ++ b) = absVals M a ++ absVals M b := by
  induction a with
  | nil => rfl
  | cons x xs ih => simp [absVals, ih]

theorem validVs_append (n : Nat) (a b : List RVal) : validVs n (a ++ b) = (validVs n a && validVs n b) := by
  induction a with
  | nil => simp [validVs]
  | cons x xs ih => simp [validVs, ih, Bool.and_assoc]

/-! ## 2. the invariant of the module table -/

def isLoaded (s : XState) (d : Str) : Bool := (assocGet d s.loaded).isSome

/-- Invariant of the run-time state for programs that touch modules only through import statements:
    `loaded` and `mods` describe the same table, the attributes of a module are the universe's members plus
    one link per loaded direct sub-module, a loaded sub-module has a loaded parent, and every module number
    stored in the globals exists. -/
structure MInv (s : XState) : Prop where
  wf1 : ∀ d id, assocGet d s.loaded = some id → ∃ m, s.mods[id]? = some m ∧ m.name = d
  wf2 : ∀ (id : Nat) (m : ModObj), s.mods[id]? = some m → assocGet m.name s.loaded = some id ∧ m.registry = true
  canon : ∀ (id : Nat) (m : ModObj) (a : Str), s.mods[id]? = some m → assocGet a m.attrs =
      if universeMembers.contains a then some .opq
      else if isSubmodName a then (assocGet (m.name ++ '.' :: a) s.loaded).map RVal.mod else none
  closed : ∀ d a, a.contains '.' = false → isLoaded s (d ++ '.' :: a) = true → isLoaded s d = true
  gv : ∀ n v, assocGet n s.globals = some v → validV s.mods.length v = true

/-- the empty module table satisfies the invariant (whatever the globals hold, provided no module numbers) -/
theorem MInv.init (s : XState) (hm : s.mods = []) (hl : s.loaded = [])
    (hg : ∀ n v, assocGet n s.globals = some v → validV 0 v = true) : MInv s := by
  refine ⟨?_, ?_, ?_, ?_, ?_⟩
  · intro d id h; rw [hl] at h; cases h
  · intro id m h; rw [hm] at h; simp at h
  · intro id m a h; rw [hm] at h; simp at h
  · intro d a _ h; simp [isLoaded, hl, assocGet] at h
  · intro n v h; rw [hm]; exact hg n v h

/-- the fields an import statement neither reads nor writes, and the ones the comparison looks at -/
structure SameObs (s t : XState) : Prop where
  builtins : t.builtins = s.builtins
  ne : t.ne = s.ne
  ae : t.ae = s.ae
  lne : t.lne = s.lne
  other : t.otherRaised = s.otherRaised

theorem SameObs.refl (s : XState) : SameObs s s := ⟨rfl, rfl, rfl, rfl, rfl⟩
theorem SameObs.trans {a b c : XState} (h1 : SameObs a b) (h2 : SameObs b c) : SameObs a c :=
  ⟨h2.1.trans h1.1, h2.2.trans h1.2, h2.3.trans h1.3, h2.4.trans h1.4, h2.5.trans h1.5⟩

/-- parent part of a dotted name: `a.b.c ↦ [a, b]` -/
def parentParts (d : Str) : List Str := (splitDots d).dropLast

/-- `d = parent ++ "." ++ last` when `d` has a parent -/
theorem dotted_decomp (d : Str) (h : parentParts d ≠ []) :
    d = joinDots (parentParts d) ++ '.' :: (splitDots d).getLastD [] := by
  unfold parentParts at *
  have hne := splitDots_ne_nil d
  have h1 : (splitDots d).dropLast ++ [(splitDots d).getLastD []] = splitDots d := by
    rw [List.getLastD_eq_getLast?, List.getLast?_eq_some_getLast hne]
    exact List.dropLast_concat_getLast hne
  have h2 : joinDots ((splitDots d).dropLast ++ [(splitDots d).getLastD []]) = d := by
    rw [h1]; exact joinDots_splitDots d
  rw [joinDots_snoc _ _ h] at h2
  exact h2.symm

/-- a child name decomposes into its parent and the last component -/
theorem child_parent (d a : Str) (ha : a.contains '.' = false) :
    parentParts (d ++ '.' :: a) = splitDots d ∧ (splitDots (d ++ '.' :: a)).getLastD [] = a := by
  unfold parentParts
  rw [splitDots_snoc d a ha]
  simp

/-! ## 3. loading one module -/

def membersAttrs : List (Str × RVal) := universeMembers.map (fun a => (a, RVal.opq))
def newMod (d : Str) : ModObj := { name := d, attrs := membersAttrs }
def linkTo (a : Str) (id : Nat) (pm : ModObj) : ModObj := { pm with attrs := assocSet a (.mod id) pm.attrs }

theorem loadModule_old (s : XState) (d : Str) (id : Nat) (hl : assocGet d s.loaded = some id) :
    loadModule d s = (s, .ok id) := by
  unfold loadModule; rw [hl]

theorem loadModule_new_root (s : XState) (d : Str) (hl : assocGet d s.loaded = none)
    (hu : inUniverse (splitDots d) = true) (hroot : parentParts d = []) :
    loadModule d s = ({ s with mods := s.mods ++ [newMod d], loaded := s.loaded ++ [(d, s.mods.length)] }, .ok s.mods.length) := by
  unfold loadModule parentParts at *
  rw [hl]
  simp only [hu, Bool.not_true, Bool.false_eq_true, if_false]
  split
  · rfl
  · rename_i h; exact absurd hroot (by simpa using h)

theorem loadModule_new_child (s : XState) (d : Str) (p : Nat) (hl : assocGet d s.loaded = none)
    (hu : inUniverse (splitDots d) = true) (hne : parentParts d ≠ [])
    (hp : assocGet (joinDots (parentParts d)) s.loaded = some p) :
    loadModule d s = ({ s with mods := (s.mods ++ [newMod d]).modify p (linkTo ((splitDots d).getLastD []) s.mods.length),
                               loaded := s.loaded ++ [(d, s.mods.length)] }, .ok s.mods.length) := by
  unfold loadModule parentParts at *
  rw [hl]
  simp only [hu, Bool.not_true, Bool.false_eq_true, if_false]
  have : assocGet (joinDots (splitDots d).dropLast) (s.loaded ++ [(d, s.mods.length)]) = some p := by
    rw [assocGet_append, hp]
  rw [this]
  rfl

def attach (M : List ModObj) (m0 : ModObj) (pid : Option Nat) (f : ModObj → ModObj) : List ModObj :=
  match pid with | some p => (M ++ [m0]).modify p f | none => M ++ [m0]

theorem get_attach (M : List ModObj) (m0 : ModObj) (pid : Option Nat) (f : ModObj → ModObj)
    (hp : ∀ p, pid = some p → p < M.length) (j : Nat) :
    (attach M m0 pid f)[j]? =
      if j < M.length then M[j]?.map (fun m => if pid = some j then f m else m)
      else if j = M.length then some m0 else none := by
  cases pid with
  | none =>
    simp only [attach, List.getElem?_append]
    by_cases h : j < M.length
    · simp [h]
    · simp only [h, if_false]
      by_cases h2 : j = M.length
      · simp [h2]
      · simp [h2]; omega
  | some p =>
    have hpl := hp p rfl
    simp only [attach, List.getElem?_modify, List.getElem?_append]
    by_cases h : j < M.length
    · simp only [h, if_true, Option.some.injEq]
      cases M[j]? <;> simp
    · simp only [h, if_false]
      have hpj : p ≠ j := by omega
      by_cases h2 : j = M.length
      · simp [h2]; omega
      · simp [h2]; omega

theorem length_attach (M : List ModObj) (m0 : ModObj) (pid : Option Nat) (f : ModObj → ModObj) :
    (attach M m0 pid f).length = M.length + 1 := by
  cases pid <;> simp [attach, List.length_modify]

theorem assocGet_const_map (a : Str) (L : List Str) (v : RVal) :
    assocGet a (L.map (fun x => (x, v))) = if L.contains a then some v else none := by
  induction L with
  | nil => rfl
  | cons x xs ih =>
    simp only [List.map_cons, assocGet, List.contains_cons]
    by_cases h : x = a
    · subst h; simp
    · have h' : (a == x) = false := by simp; exact fun e => h e.symm
      simp [h, h', ih]

theorem lt_of_getElem?_some {α} {l : List α} {i : Nat} {a : α} (h : l[i]? = some a) : i < l.length := by
  rcases Nat.lt_or_ge i l.length with h1 | h1
  · exact h1
  · rw [List.getElem?_eq_none h1] at h; cases h

/-- what `loadModule d` has done when it returns `id` from state `s` to `s1` -/
structure LoadRes (s s1 : XState) (d : Str) (id : Nat) : Prop where
  inv : MInv s1
  obs : SameObs s s1
  globals : s1.globals = s.globals
  ext : Ext s.mods s1.mods
  got : assocGet d s1.loaded = some id
  keep : ∀ d' i, assocGet d' s.loaded = some i → assocGet d' s1.loaded = some i
  loaded : ∀ d', isLoaded s1 d' = (isLoaded s d' || decide (d' = d))

theorem LoadRes.name {s s1 : XState} {d : Str} {id : Nat} (h : LoadRes s s1 d id) : nm s1.mods id = some d := by
  obtain ⟨m, hm, hn⟩ := h.inv.wf1 d id h.got
  simp [nm, hm, hn]

theorem LoadRes.valid {s s1 : XState} {d : Str} {id : Nat} (h : LoadRes s s1 d id) : id < s1.mods.length := by
  obtain ⟨m, hm, _⟩ := h.inv.wf1 d id h.got
  exact lt_of_getElem?_some hm

theorem load_new (s : XState) (d : Str) (hinv : MInv s) (hl : assocGet d s.loaded = none)
    (hu : inUniverse (splitDots d) = true) (pid : Option Nat)
    (hpid : match pid with
      | some p => parentParts d ≠ [] ∧ assocGet (joinDots (parentParts d)) s.loaded = some p
      | none => parentParts d = []) :
    LoadRes s { s with mods := attach s.mods (newMod d) pid (linkTo ((splitDots d).getLastD []) s.mods.length),
                       loaded := s.loaded ++ [(d, s.mods.length)] } d s.mods.length := by
  -- abbreviations
  generalize hlast : (splitDots d).getLastD [] = last at *
  generalize hn : s.mods.length = n at *
  have hpn : ∀ p, pid = some p → p < s.mods.length := by
    intro p hp; subst hp
    obtain ⟨m, hm, _⟩ := hinv.wf1 _ p hpid.2
    exact lt_of_getElem?_some hm
  have hget := get_attach s.mods (newMod d) pid (linkTo last n) hpn
  rw [hn] at hget
  have hld : ∀ k, assocGet k (s.loaded ++ [(d, n)]) =
      match assocGet k s.loaded with | some v => some v | none => if d = k then some n else none := by
    intro k; rw [assocGet_append]; cases assocGet k s.loaded <;> simp [assocGet]
  -- decomposition of `d` when it has a parent
  have hdec : ∀ p, pid = some p → ∃ m, s.mods[p]? = some m ∧ d = m.name ++ '.' :: last ∧ isSubmodName last = true := by
    intro p hp; subst hp
    obtain ⟨hne, hpl⟩ := hpid
    obtain ⟨m, hm, hmn⟩ := hinv.wf1 _ p hpl
    refine ⟨m, hm, ?_, ?_⟩
    · rw [hmn, ← hlast]; exact dotted_decomp d hne
    · -- the last component of a non-root universe name is a sub-module name
      unfold parentParts at hne
      unfold inUniverse at hu
      cases hsp : splitDots d with
      | nil => exact absurd hsp (splitDots_ne_nil d)
      | cons r ps =>
        rw [hsp] at hu hne hlast
        simp only [Bool.and_eq_true, List.all_eq_true] at hu
        cases ps with
        | nil => simp at hne
        | cons q qs =>
          have hmem : last ∈ q :: qs := by
            rw [← hlast, List.getLastD_eq_getLast?]
            have : (r :: q :: qs).getLast? = (q :: qs).getLast? := by simp [List.getLast?_cons_cons]
            rw [this, List.getLast?_eq_some_getLast (by simp)]
            exact List.getLast_mem _
          exact hu.2 last hmem
  refine ⟨⟨?_, ?_, ?_, ?_, ?_⟩, ⟨rfl, rfl, rfl, rfl, rfl⟩, rfl, ⟨?_, ?_⟩, ?_, ?_, ?_⟩
  · -- wf1
    intro d' id h
    simp only [hld] at h
    cases ho : assocGet d' s.loaded with
    | some v =>
      rw [ho] at h
      have hvid : v = id := by simpa using h
      subst hvid
      obtain ⟨m, hm, hmn⟩ := hinv.wf1 d' v ho
      have hv : v < n := hn ▸ lt_of_getElem?_some hm
      refine ⟨if pid = some v then linkTo last n m else m, ?_, ?_⟩
      · simp only [hget, hv, if_true, hm, Option.map_some]
      · split <;> simp [linkTo, hmn]
    | none =>
      rw [ho] at h
      by_cases hd : d = d'
      · simp only [hd, if_true, Option.some.injEq] at h
        subst h; subst hd
        exact ⟨newMod d, by simp [hget], rfl⟩
      · simp [hd] at h
  · -- wf2
    intro j m' h
    simp only [hget] at h
    by_cases hj : j < n
    · simp only [hj, if_true] at h
      cases hm : s.mods[j]? with
      | none => rw [hm] at h; cases h
      | some m =>
        rw [hm] at h
        simp only [Option.map_some, Option.some.injEq] at h
        obtain ⟨h1, h2⟩ := hinv.wf2 j m hm
        have hname : m'.name = m.name ∧ m'.registry = m.registry := by
          rw [← h]; split <;> simp [linkTo]
        rw [hname.1, hname.2, hld, h1]
        exact ⟨rfl, h2⟩
    · simp only [hj, if_false] at h
      by_cases hj2 : j = n
      · simp only [hj2, if_true, Option.some.injEq] at h
        subst h
        simp [newMod, hld, hl, hj2]
      · simp [hj2] at h
  · -- canon
    intro j m' a h
    simp only [hget] at h
    by_cases hj : j < n
    · simp only [hj, if_true] at h
      cases hm : s.mods[j]? with
      | none => rw [hm] at h; cases h
      | some m =>
        rw [hm] at h
        simp only [Option.map_some, Option.some.injEq] at h
        have hc := hinv.canon j m a hm
        obtain ⟨hw, _⟩ := hinv.wf2 j m hm
        by_cases hpj : pid = some j
        · -- the parent: one more link
          obtain ⟨m2, hm2, hd, hsub⟩ := hdec j hpj
          rw [hm] at hm2; cases hm2
          simp only [hpj, if_true] at h
          subst h
          simp only [linkTo]
          by_cases ha : a = last
          · subst ha
            rw [assocGet_assocSet_eq, isSubmodName_not_member hsub, hsub, ← hd, hld, hl]
            simp
          · rw [assocGet_assocSet_ne ha, hc, hld]
            have : d ≠ m.name ++ '.' :: a := by
              rw [hd]; intro he
              have := List.append_cancel_left he
              simp at this; exact ha this.symm
            cases assocGet (m.name ++ '.' :: a) s.loaded <;> simp [this]
        · simp only [hpj, if_false] at h
          subst h
          rw [hc, hld]
          by_cases hs : isSubmodName a = true
          · cases hk : assocGet (m.name ++ '.' :: a) s.loaded with
            | some v => rfl
            | none =>
              have hda : d ≠ m.name ++ '.' :: a := by
                intro he
                have hcp := child_parent m.name a (isSubmodName_dotFree hs)
                rw [← he] at hcp
                cases pid with
                | none => simp only at hpid; rw [hpid] at hcp; exact splitDots_ne_nil _ hcp.1.symm
                | some p =>
                  simp only at hpid
                  rw [hcp.1, joinDots_splitDots, hw] at hpid
                  apply hpj; rw [← Option.some.inj hpid.2]
              simp [hda]
          · simp [hs]
    · simp only [hj, if_false] at h
      by_cases hj2 : j = n
      · simp only [hj2, if_true, Option.some.injEq] at h
        subst h
        simp only [newMod, membersAttrs, assocGet_const_map, List.contains_eq_mem, decide_eq_true_eq]
        by_cases hmem : a ∈ universeMembers
        · simp [hmem]
        · simp only [hmem, if_false]
          by_cases hs : isSubmodName a = true
          · simp only [hs, if_true, hld]
            have h1 : assocGet (d ++ '.' :: a) s.loaded = none := by
              cases hk : assocGet (d ++ '.' :: a) s.loaded with
              | none => rfl
              | some v =>
                have := hinv.closed d a (isSubmodName_dotFree hs) (by simp [isLoaded, hk])
                simp [isLoaded, hl] at this
            have h2 : d ≠ d ++ '.' :: a := by
              intro he
              have := congrArg List.length he
              simp at this
            simp [h1, h2]
          · simp [hs]
      · simp [hj2] at h
  · -- closed
    intro d' a ha h
    simp only [isLoaded, hld] at h ⊢
    cases hk : assocGet (d' ++ '.' :: a) s.loaded with
    | some v =>
      have := hinv.closed d' a ha (by simp [isLoaded, hk])
      simp only [isLoaded] at this
      cases hk2 : assocGet d' s.loaded with
      | some w => rfl
      | none => rw [hk2] at this; cases this
    | none =>
      rw [hk] at h
      by_cases hd : d = d' ++ '.' :: a
      · have hcp := child_parent d' a ha
        rw [← hd] at hcp
        cases pid with
        | none => simp only at hpid; rw [hpid] at hcp; exact absurd hcp.1.symm (splitDots_ne_nil _)
        | some p =>
          simp only at hpid
          rw [hcp.1, joinDots_splitDots] at hpid
          rw [hpid.2]; rfl
      · simp [hd] at h
  · -- gv
    intro k v h
    have := hinv.gv k v h
    simp only [length_attach]
    exact validV_mono (Nat.le_succ _) v this
  · simp [length_attach]
  · intro i hi
    simp only [nm, hget, hn ▸ hi, if_true]
    cases s.mods[i]? with
    | none => rfl
    | some m => simp only [Option.map_some]; split <;> simp [linkTo]
  · simp [hld, hl]
  · intro d' i h; simp [hld, h]
  · intro d'
    simp only [isLoaded, hld]
    cases assocGet d' s.loaded with
    | some v => simp
    | none =>
      by_cases hd : d = d'
      · simp [hd]
      · have : ¬ d' = d := fun e => hd e.symm
        simp [hd, this]

theorem LoadRes.ofEq (s : XState) (d : Str) (id : Nat) (hinv : MInv s) (hl : assocGet d s.loaded = some id) :
    LoadRes s s d id :=
  ⟨hinv, SameObs.refl s, rfl, Ext.refl _, hl, fun _ _ h => h, fun d' => by
    by_cases h : d' = d
    · subst h; simp [isLoaded, hl]
    · simp [h]⟩

theorem loadModule_spec (s : XState) (d : Str) (hinv : MInv s) (hu : inUniverse (splitDots d) = true)
    (hpar : parentParts d = [] ∨ isLoaded s (joinDots (parentParts d)) = true) :
    ∃ s1 id, loadModule d s = (s1, .ok id) ∧ LoadRes s s1 d id := by
  cases hl : assocGet d s.loaded with
  | some id => exact ⟨s, id, loadModule_old s d id hl, LoadRes.ofEq s d id hinv hl⟩
  | none =>
    by_cases hroot : parentParts d = []
    · refine ⟨_, _, loadModule_new_root s d hl hu hroot, ?_⟩
      exact load_new s d hinv hl hu none hroot
    · have hp : isLoaded s (joinDots (parentParts d)) = true := by
        rcases hpar with h | h
        · exact absurd h hroot
        · exact h
      unfold isLoaded at hp
      cases hq : assocGet (joinDots (parentParts d)) s.loaded with
      | none => rw [hq] at hp; cases hp
      | some p =>
        refine ⟨_, _, loadModule_new_child s d p hl hu hroot hq, ?_⟩
        exact load_new s d hinv hl hu (some p) ⟨hroot, hq⟩

/-! ## 4. `import a.b.c`: the chain of loads -/

def prefixesFrom (pre ps : List Str) : List (List Str) := (prefixes ps).map (pre ++ ·)

theorem prefixesFrom_cons (pre : List Str) (p : Str) (ps : List Str) :
    prefixesFrom pre (p :: ps) = (pre ++ [p]) :: prefixesFrom (pre ++ [p]) ps := by
  simp [prefixesFrom, prefixes, List.map_map, Function.comp_def]

theorem importChain_cons (a : List Str) (L : List (List Str)) (top : Option Nat) :
    importChain (a :: L) top = (do
      let id ← loadModule (joinDots a)
      if L = [] then pure (some (top.getD id), some id) else importChain L (some (top.getD id))) := by
  cases L with
  | nil => simp [importChain]
  | cons b c => simp [importChain]

theorem root_dotFree {r : Str} (h : universeRoots.contains r = true) : r.contains '.' = false := by
  simp only [universeRoots, List.contains_cons, List.contains_nil, Bool.or_false, Bool.or_eq_true, beq_iff_eq] at h
  rcases h with rfl | rfl <;> decide

theorem inUniverse_dotFree {parts : List Str} (h : inUniverse parts = true) : ∀ p ∈ parts, p.contains '.' = false := by
  cases parts with
  | nil => intro p hp; cases hp
  | cons r ps =>
    simp only [inUniverse, Bool.and_eq_true, List.all_eq_true] at h
    intro p hp
    rcases List.mem_cons.mp hp with rfl | hp
    · exact root_dotFree h.1
    · exact isSubmodName_dotFree (h.2 p hp)

theorem inUniverse_prefix {a b : List Str} (h : inUniverse (a ++ b) = true) (ha : a ≠ []) : inUniverse a = true := by
  cases a with
  | nil => exact absurd rfl ha
  | cons r ps =>
    simp only [List.cons_append, inUniverse, Bool.and_eq_true, List.all_append] at h ⊢
    exact ⟨h.1, h.2.1⟩

/-- the loads of a chain, as dotted names -/
def chainLoads (pre ps : List Str) : List Str := (prefixesFrom pre ps).map joinDots

structure ChainRes (s s1 : XState) (pre ps : List Str) (top : Option Nat) (res : Option Nat × Option Nat) : Prop where
  inv : MInv s1
  obs : SameObs s s1
  globals : s1.globals = s.globals
  ext : Ext s.mods s1.mods
  keep : ∀ d' i, assocGet d' s.loaded = some i → assocGet d' s1.loaded = some i
  loaded : ∀ d', isLoaded s1 d' = (isLoaded s d' || (chainLoads pre ps).contains d')
  leaf : ps ≠ [] → ∃ id, res.2 = some id ∧ assocGet (joinDots (pre ++ ps)) s1.loaded = some id
  top : match top with
    | some t => res.1 = some t
    | none => ∀ p ps', ps = p :: ps' → ∃ id, res.1 = some id ∧ assocGet (joinDots (pre ++ [p])) s1.loaded = some id

theorem importChain_spec : ∀ (ps pre : List Str) (s : XState) (top : Option Nat), MInv s →
    inUniverse (pre ++ ps) = true → (pre = [] ∨ isLoaded s (joinDots pre) = true) →
    ∃ s1 res, importChain (prefixesFrom pre ps) top s = (s1, .ok res) ∧ ChainRes s s1 pre ps top res
  | [], pre, s, top, hinv, _, _ => by
    refine ⟨s, (top, none), rfl, hinv, SameObs.refl s, rfl, Ext.refl _, fun _ _ h => h, ?_, fun h => absurd rfl h, ?_⟩
    · intro d'; simp [chainLoads, prefixesFrom, prefixes]
    · cases top with
      | some t => rfl
      | none => intro p ps' h; cases h
  | p :: ps, pre, s, top, hinv, hU, hpre => by
    have hU1 : inUniverse (pre ++ [p]) = true := by
      have : pre ++ p :: ps = (pre ++ [p]) ++ ps := by simp
      rw [this] at hU
      exact inUniverse_prefix hU (by simp)
    have hdf := inUniverse_dotFree hU1
    have hsp : splitDots (joinDots (pre ++ [p])) = pre ++ [p] := splitDots_joinDots _ (by simp) hdf
    have hpp : parentParts (joinDots (pre ++ [p])) = pre := by
      unfold parentParts; rw [hsp]; simp
    obtain ⟨s1, id, hload, hres⟩ := loadModule_spec s (joinDots (pre ++ [p])) hinv (by rw [hsp]; exact hU1)
      (by rw [hpp]; exact hpre)
    have hU2 : inUniverse ((pre ++ [p]) ++ ps) = true := by simpa using hU
    obtain ⟨s2, res, hch, hres2⟩ := importChain_spec ps (pre ++ [p]) s1 (some (top.getD id)) hres.inv hU2
      (Or.inr (by simp [isLoaded, hres.got]))
    have hloaded : ∀ d', isLoaded s2 d' = (isLoaded s d' || (chainLoads pre (p :: ps)).contains d') := by
      intro d'
      rw [hres2.loaded, hres.loaded]
      simp only [chainLoads, prefixesFrom_cons, List.map_cons, List.contains_cons, Bool.or_assoc]
      congr 1
      by_cases h : d' = joinDots (pre ++ [p]) <;> simp [h]
    rw [prefixesFrom_cons, importChain_cons, X.bind_def, hload]
    simp only
    by_cases hps : ps = []
    · subst hps
      rw [if_pos (show prefixesFrom (pre ++ [p]) [] = [] from rfl)]
      have hs2 : s2 = s1 := by
        have : importChain (prefixesFrom (pre ++ [p]) []) (some (top.getD id)) s1 = (s1, .ok (some (top.getD id), none)) := rfl
        rw [this] at hch; exact (Prod.mk.inj hch).1.symm
      subst hs2
      refine ⟨s2, _, rfl, hres.inv, hres.obs, hres.globals, hres.ext, hres.keep, hloaded, ?_, ?_⟩
      · intro _; exact ⟨id, rfl, hres.got⟩
      · cases top with
        | some t => rfl
        | none =>
          intro p' ps' h
          cases h
          exact ⟨id, rfl, hres.got⟩
    · have hne : prefixesFrom (pre ++ [p]) ps ≠ [] := by
        cases ps with
        | nil => exact absurd rfl hps
        | cons q qs => simp [prefixesFrom_cons]
      rw [if_neg hne]
      refine ⟨s2, res, hch, hres2.inv, hres.obs.trans hres2.obs, hres2.globals.trans hres.globals,
        hres.ext.trans hres2.ext, fun d' i h => hres2.keep d' i (hres.keep d' i h), hloaded, ?_, ?_⟩
      · intro _
        obtain ⟨lid, h1, h2⟩ := hres2.leaf hps
        exact ⟨lid, h1, by simpa using h2⟩
      · have ht := hres2.top
        simp only at ht
        cases top with
        | some t => simpa using ht
        | none =>
          intro p' ps' h
          cases h
          exact ⟨id, by simpa using ht, hres2.keep _ _ hres.got⟩

/-! ## 5. one imported name: what an alias binds, to what, and what it loads -/

/-- one alias of an import statement -/
inductive Atom
  | plain (a : Alias)              -- `import a.name [as a.asname]`
  | from_ (m : Str) (a : Alias)    -- `from m import a.name [as a.asname]`

def Atom.bound : Atom → Str
  | .plain a => aliasBinds a
  | .from_ _ a => aliasBinds a

/-- the import succeeds in the universe of `Exec` -/
def Atom.ok : Atom → Bool
  | .plain a => inUniverse (splitDots a.name)
  | .from_ m a => inUniverse (splitDots m) && (universeMembers.contains a.name || isSubmodName a.name)

/-- the object the alias binds its name to — a function of the alias alone -/
def Atom.val : Atom → AVal
  | .plain a => match a.asname with
    | some _ => .mod (some a.name)
    | none => .mod (some (aliasBinds a))
  | .from_ m a => if universeMembers.contains a.name then .opq else .mod (some (m ++ '.' :: a.name))

/-- the globals as a map from names to abstract values -/
def absG (s : XState) (n : Str) : Option AVal := (assocGet n s.globals).map (absVal s.mods)

/-- executing one alias on the abstract globals: the bound name is overwritten -/
def aStep (g : Str → Option AVal) (x : Atom) : Str → Option AVal :=
  fun k => if k = x.bound then some x.val else g k

theorem absG_ext {s s1 : XState} (hg : s1.globals = s.globals) (he : Ext s.mods s1.mods) (hinv : MInv s) :
    absG s1 = absG s := by
  funext k
  unfold absG
  rw [hg]
  cases h : assocGet k s.globals with
  | none => rfl
  | some v => simp only [Option.map_some]; rw [absVal_ext he v (hinv.gv k v h)]

/-- the effect of (part of) an import statement: `atoms` were bound in order, `loads` were loaded -/
structure IRes (s s1 : XState) (atoms : List Atom) (loads : List Str) : Prop where
  inv : MInv s1
  obs : SameObs s s1
  ext : Ext s.mods s1.mods
  keep : ∀ d' i, assocGet d' s.loaded = some i → assocGet d' s1.loaded = some i
  loaded : ∀ d', isLoaded s1 d' = (isLoaded s d' || loads.contains d')
  glob : absG s1 = atoms.foldl aStep (absG s)

theorem IRes.refl (s : XState) (h : MInv s) : IRes s s [] [] :=
  ⟨h, SameObs.refl s, Ext.refl _, fun _ _ h => h, fun _ => by simp, rfl⟩

theorem IRes.trans {a b c : XState} {A B : List Atom} {L1 L2 : List Str} (h1 : IRes a b A L1) (h2 : IRes b c B L2) :
    IRes a c (A ++ B) (L1 ++ L2) :=
  ⟨h2.inv, h1.obs.trans h2.obs, h1.ext.trans h2.ext, fun d' i h => h2.keep d' i (h1.keep d' i h),
   fun d' => by rw [h2.loaded, h1.loaded]; simp [Bool.or_assoc],
   by rw [h2.glob, h1.glob, List.foldl_append]⟩

theorem IRes.ofChain {s s1 : XState} {pre ps : List Str} {top : Option Nat} {res : Option Nat × Option Nat}
    (hinv : MInv s) (h : ChainRes s s1 pre ps top res) : IRes s s1 [] (chainLoads pre ps) :=
  ⟨h.inv, h.obs, h.ext, h.keep, h.loaded, absG_ext h.globals h.ext hinv⟩

theorem IRes.ofLoad {s s1 : XState} {d : Str} {id : Nat} (hinv : MInv s) (h : LoadRes s s1 d id) : IRes s s1 [] [d] :=
  ⟨h.inv, h.obs, h.ext, h.keep, fun d' => by rw [h.loaded]; simp, absG_ext h.globals h.ext hinv⟩

theorem MInv.congr {s t : XState} (h : MInv s) (hm : t.mods = s.mods) (hl : t.loaded = s.loaded) (hg : t.globals = s.globals) :
    MInv t := by
  refine ⟨?_, ?_, ?_, ?_, ?_⟩
  · rw [hm, hl]; exact h.wf1
  · rw [hm, hl]; exact h.wf2
  · rw [hm, hl]; exact h.canon
  · unfold isLoaded; rw [hl]; exact h.closed
  · rw [hm, hg]; exact h.gv

theorem assocGet_assocSet {β} (k n : Str) (v : β) (l : List (Str × β)) :
    assocGet k (assocSet n v l) = if k = n then some v else assocGet k l := by
  by_cases h : k = n
  · subst h; simp [assocGet_assocSet_eq]
  · simp [h, assocGet_assocSet_ne h]

/-- `bindImport` at module level: the name is (re)bound, nothing else that matters changes -/
theorem bindImport_spec (s : XState) (x : Atom) (v : RVal) (idx : Nat) (hinv : MInv s)
    (hv : validV s.mods.length v = true) (hval : absVal s.mods v = x.val) :
    ∃ s1, bindImport {} x.bound v idx s = (s1, .ok ()) ∧ IRes s s1 [x] [] := by
  refine ⟨{ s with globals := assocSet x.bound v s.globals, origins := assocSet x.bound (s.line, idx) s.origins }, rfl, ?_⟩
  refine ⟨⟨hinv.wf1, hinv.wf2, hinv.canon, hinv.closed, ?_⟩, ⟨rfl, rfl, rfl, rfl, rfl⟩, Ext.refl _, fun _ _ h => h,
    fun _ => by simp [isLoaded], ?_⟩
  · intro k w h
    simp only [assocGet_assocSet] at h
    split at h
    · cases h; exact hv
    · exact hinv.gv k w h
  · funext k
    simp only [List.foldl_cons, List.foldl_nil, aStep, absG, assocGet_assocSet]
    split
    · simp [hval]
    · rfl

theorem prefixesFrom_nil (ps : List Str) : prefixesFrom [] ps = prefixes ps := by
  simp [prefixesFrom]

/-- `import a.name [as n]` (one alias) -/
theorem plainAlias_spec (s : XState) (a : Alias) (idx : Nat) (hinv : MInv s) (hok : (Atom.plain a).ok = true) :
    ∃ s1, (importChain (prefixes (splitDots a.name)) none >>= fun tl => bindAlias {} a tl idx) s = (s1, .ok ()) ∧
      IRes s s1 [.plain a] (chainLoads [] (splitDots a.name)) := by
  simp only [Atom.ok] at hok
  obtain ⟨s1, res, hch, hres⟩ := importChain_spec (splitDots a.name) [] s none hinv (by simpa using hok) (Or.inl rfl)
  rw [prefixesFrom_nil] at hch
  rw [X.bind_def, hch]
  simp only
  have hne := splitDots_ne_nil a.name
  obtain ⟨lid, hl1, hl2⟩ := hres.leaf hne
  simp only [List.nil_append, joinDots_splitDots] at hl2
  have htop := hres.top
  simp only at htop
  cases hsp : splitDots a.name with
  | nil => exact absurd hsp hne
  | cons p ps =>
    obtain ⟨tid, ht1, ht2⟩ := htop p ps hsp
    simp only [List.nil_append, joinDots] at ht2
    have h1 := IRes.ofChain hinv hres
    obtain ⟨res1, res2⟩ := res
    simp only at hl1 ht1
    subst hl1; subst ht1
    unfold bindAlias
    cases has : a.asname with
    | some n =>
      simp only
      obtain ⟨m, hm, hmn⟩ := hres.inv.wf1 _ _ hl2
      have hb : (Atom.plain a).bound = n := by simp [Atom.bound, aliasBinds, has]
      obtain ⟨s2, hs2, hr2⟩ := bindImport_spec s1 (.plain a) (.mod lid) idx hres.inv
        (by simp [validV]; exact lt_of_getElem?_some hm)
        (by simp [absVal, Atom.val, has, nm, hm, hmn])
      rw [hb] at hs2
      exact ⟨s2, hs2, by simpa [hsp] using h1.trans hr2⟩
    | none =>
      simp only
      obtain ⟨m, hm, hmn⟩ := hres.inv.wf1 _ _ ht2
      have hb : aliasBinds a = p := by simp [aliasBinds, has, hsp]
      obtain ⟨s2, hs2, hr2⟩ := bindImport_spec s1 (.plain a) (.mod tid) idx hres.inv
        (by simp [validV]; exact lt_of_getElem?_some hm)
        (by simp [absVal, Atom.val, has, nm, hm, hmn, hb])
      exact ⟨s2, hs2, by simpa [hsp] using h1.trans hr2⟩

/-- the loads of `from m import a` beyond those of `m` itself -/
def fromExtra (m : Str) (a : Alias) : List Str :=
  if universeMembers.contains a.name then [] else [m ++ '.' :: a.name]

/-- `from m import a.name [as n]` (one alias), `m` already loaded as module number `leaf` -/
theorem fromAlias_spec (s : XState) (m : Str) (leaf : Nat) (a : Alias) (idx : Nat) (hinv : MInv s)
    (hleaf : assocGet m s.loaded = some leaf) (hok : (Atom.from_ m a).ok = true) :
    ∃ s1, (fromValue s m leaf a >>= fun v => bindImport {} (aliasBinds a) v idx) s = (s1, .ok ()) ∧
      IRes s s1 [.from_ m a] (fromExtra m a) ∧ assocGet m s1.loaded = some leaf := by
  simp only [Atom.ok, Bool.and_eq_true, Bool.or_eq_true] at hok
  obtain ⟨lm, hlm, hlmn⟩ := hinv.wf1 m leaf hleaf
  have hc := hinv.canon leaf lm a.name hlm
  rw [X.bind_def]
  unfold fromValue
  simp only [hlm, Option.map_some, Option.getD_some]
  by_cases hmem : universeMembers.contains a.name = true
  · have hmem' : a.name ∈ universeMembers := by simpa using hmem
    rw [hc]; simp only [hmem, if_true]
    obtain ⟨s2, hs2, hr2⟩ := bindImport_spec s (.from_ m a) .opq idx hinv rfl (by simp [absVal, Atom.val, hmem'])
    refine ⟨s2, hs2, by simpa [fromExtra, hmem'] using hr2, hr2.keep _ _ hleaf⟩
  · have hmem' : ¬ a.name ∈ universeMembers := by simpa using hmem
    have hsub : isSubmodName a.name = true := by
      rcases hok.2 with h | h
      · exact absurd h hmem
      · exact h
    rw [hc]; simp only [hmem, hsub, if_true, if_false, Bool.false_eq_true]
    rw [hlmn]
    cases hk : assocGet (m ++ '.' :: a.name) s.loaded with
    | some cid =>
      simp only [Option.map_some]
      obtain ⟨cm, hcm, hcmn⟩ := hinv.wf1 _ cid hk
      obtain ⟨s2, hs2, hr2⟩ := bindImport_spec s (.from_ m a) (.mod cid) idx hinv
        (by simp [validV]; exact lt_of_getElem?_some hcm)
        (by simp [absVal, Atom.val, hmem', nm, hcm, hcmn])
      refine ⟨s2, hs2, ⟨hr2.inv, hr2.obs, hr2.ext, hr2.keep, ?_, hr2.glob⟩, hr2.keep _ _ hleaf⟩
      intro d'
      rw [hr2.loaded]
      simp only [fromExtra, hmem, if_false, Bool.false_eq_true, List.contains_nil, Bool.or_false, List.contains_cons]
      by_cases hd : d' = m ++ '.' :: a.name
      · subst hd; simp [isLoaded, hk]
      · simp [hd]
    | none =>
      simp only [Option.map_none]
      have hcp := child_parent m a.name (isSubmodName_dotFree hsub)
      have hu : inUniverse (splitDots (m ++ '.' :: a.name)) = true := by
        rw [splitDots_snoc m a.name (isSubmodName_dotFree hsub)]
        have h1 := hok.1
        cases hsp : splitDots m with
        | nil => exact absurd hsp (splitDots_ne_nil m)
        | cons r ps =>
          rw [hsp] at h1
          simp only [inUniverse, Bool.and_eq_true, List.cons_append, List.all_append, List.all_cons, List.all_nil,
            Bool.and_true] at h1 ⊢
          exact ⟨h1.1, h1.2, hsub⟩
      obtain ⟨s1, cid, hload, hres⟩ := loadModule_spec s (m ++ '.' :: a.name) hinv hu
        (Or.inr (by rw [hcp.1, joinDots_splitDots]; simp [isLoaded, hleaf]))
      rw [X.bind_def, hload]
      simp only [X.pure_def]
      obtain ⟨s2, hs2, hr2⟩ := bindImport_spec s1 (.from_ m a) (.mod cid) idx hres.inv
        (by simp [validV]; exact hres.valid)
        (by simp [absVal, Atom.val, hmem', hres.name])
      refine ⟨s2, hs2, ?_, hr2.keep _ _ (hres.keep _ _ hleaf)⟩
      simpa [fromExtra, hmem'] using (IRes.ofLoad hinv hres).trans hr2

/-! ## 6. import statements -/

theorem X.bind_assoc {α β γ} (m : X α) (f : α → X β) (g : β → X γ) :
    (m >>= f) >>= g = m >>= fun a => f a >>= g := by
  funext s
  simp only [X.bind_def]
  cases h : m s with
  | mk s' r => cases r <;> rfl

def stmtAtoms : Stmt → List Atom
  | .import_ names => names.map .plain
  | .importFrom m names => names.map (.from_ m)
  | .located _ s => stmtAtoms s
  | _ => []

def stmtLoads : Stmt → List Str
  | .import_ names => names.flatMap (fun a => chainLoads [] (splitDots a.name))
  | .importFrom m names => chainLoads [] (splitDots m) ++ names.flatMap (fromExtra m)
  | .located _ s => stmtLoads s
  | _ => []

def isImport : Stmt → Bool
  | .import_ _ => true
  | .importFrom _ _ => true
  | .located _ s => isImport s
  | _ => false

/-- every alias of the import statement can be imported in the universe of `Exec` -/
def importOK : Stmt → Bool
  | .import_ names => names.all (fun a => (Atom.plain a).ok)
  | .importFrom m names => inUniverse (splitDots m) && names.all (fun a => (Atom.from_ m a).ok)
  | .located _ s => importOK s
  | _ => true

theorem importAliases_spec : ∀ (names : List Alias) (f idx : Nat) (s : XState), MInv s →
    names.all (fun a => (Atom.plain a).ok) = true → names.length + 1 ≤ f →
    ∃ s1, importAliases f {} idx names s = (s1, .ok ()) ∧
      IRes s s1 (names.map .plain) (names.flatMap (fun a => chainLoads [] (splitDots a.name)))
  | [], f, idx, s, hinv, _, hf => by
    obtain ⟨f, rfl⟩ : ∃ g, f = g + 1 := ⟨f - 1, by omega⟩
    exact ⟨s, by rw [importAliases]; rfl, IRes.refl s hinv⟩
  | a :: r, f, idx, s, hinv, hok, hf => by
    obtain ⟨f, rfl⟩ : ∃ g, f = g + 1 := ⟨f - 1, by omega⟩
    simp only [List.all_cons, Bool.and_eq_true] at hok
    obtain ⟨s1, h1, r1⟩ := plainAlias_spec s a idx hinv hok.1
    obtain ⟨s2, h2, r2⟩ := importAliases_spec r f (idx + 1) s1 r1.inv hok.2 (by simp at hf; omega)
    refine ⟨s2, ?_, by simpa using r1.trans r2⟩
    have : importAliases (f + 1) {} idx (a :: r) =
        (importChain (prefixes (splitDots a.name)) none >>= fun tl => bindAlias {} a tl idx) >>=
          fun _ => importAliases f {} (idx + 1) r := by
      rw [importAliases, X.bind_assoc]
    rw [this, X.bind_def, h1]
    exact h2

theorem importFromAliases_spec (m : Str) (leaf : Nat) : ∀ (names : List Alias) (f idx : Nat) (s : XState), MInv s →
    assocGet m s.loaded = some leaf →
    names.all (fun a => (Atom.from_ m a).ok) = true → names.length + 1 ≤ f →
    ∃ s1, importFromAliases f {} m leaf idx names s = (s1, .ok ()) ∧
      IRes s s1 (names.map (.from_ m)) (names.flatMap (fromExtra m))
  | [], f, idx, s, hinv, _, _, hf => by
    obtain ⟨f, rfl⟩ : ∃ g, f = g + 1 := ⟨f - 1, by omega⟩
    exact ⟨s, by rw [importFromAliases]; rfl, IRes.refl s hinv⟩
  | a :: r, f, idx, s, hinv, hleaf, hok, hf => by
    obtain ⟨f, rfl⟩ : ∃ g, f = g + 1 := ⟨f - 1, by omega⟩
    simp only [List.all_cons, Bool.and_eq_true] at hok
    obtain ⟨s1, h1, r1, hleaf1⟩ := fromAlias_spec s m leaf a idx hinv hleaf hok.1
    obtain ⟨s2, h2, r2⟩ := importFromAliases_spec m leaf r f (idx + 1) s1 r1.inv hleaf1 hok.2 (by simp at hf; omega)
    refine ⟨s2, ?_, by simpa using r1.trans r2⟩
    have : importFromAliases (f + 1) {} m leaf idx (a :: r) s =
        ((fromValue s m leaf a >>= fun v => bindImport {} (aliasBinds a) v idx) >>=
          fun _ => importFromAliases f {} m leaf (idx + 1) r) s := by
      rw [importFromAliases, X.bind_assoc]; rfl
    rw [this, X.bind_def, h1]
    exact h2

/-- fuel that suffices for an import statement -/
def needI : Stmt → Nat
  | .import_ names => names.length + 2
  | .importFrom _ names => names.length + 2
  | .located _ s => needI s + 1
  | _ => 1

/-- **An import statement binds exactly its aliases, in order, each to the value determined by the alias alone.**
    It reads the module table (`loaded`, `mods`) and writes `globals` (the bound names), `origins`, `line` and the
    module table (the loaded modules); the NameError / AttributeError records and the builtins are untouched. -/
theorem importStmt_spec : ∀ (st : Stmt) (f : Nat) (s : XState), MInv s → isImport st = true → importOK st = true →
    needI st ≤ f →
    ∃ s1, execStmt f {} st s = (s1, .ok .normal) ∧ IRes s s1 (stmtAtoms st) (stmtLoads st)
  | .import_ names, f, s, hinv, _, hok, hf => by
    obtain ⟨f, rfl⟩ : ∃ g, f = g + 1 := ⟨f - 1, by simp [needI] at hf; omega⟩
    obtain ⟨s1, h1, r1⟩ := importAliases_spec names f 0 s hinv hok (by simp [needI] at hf; omega)
    refine ⟨s1, ?_, r1⟩
    rw [execStmt]
    simp only [X.bind_def, h1]; rfl
  | .importFrom m names, f, s, hinv, _, hok, hf => by
    obtain ⟨f, rfl⟩ : ∃ g, f = g + 1 := ⟨f - 1, by simp [needI] at hf; omega⟩
    simp only [importOK, Bool.and_eq_true] at hok
    obtain ⟨s1, res, hch, hres⟩ := importChain_spec (splitDots m) [] s none hinv (by simpa using hok.1) (Or.inl rfl)
    rw [prefixesFrom_nil] at hch
    obtain ⟨lid, hl1, hl2⟩ := hres.leaf (splitDots_ne_nil m)
    simp only [List.nil_append, joinDots_splitDots] at hl2
    obtain ⟨s2, h2, r2⟩ := importFromAliases_spec m lid names f 0 s1 hres.inv hl2 hok.2 (by simp [needI] at hf; omega)
    refine ⟨s2, ?_, (IRes.ofChain hinv hres).trans r2⟩
    rw [execStmt]
    simp only [X.bind_def, hch]
    obtain ⟨r1, r2'⟩ := res
    simp only at hl1; subst hl1
    simp only [X.bind_def, h2]; rfl
  | .located l st, f, s, hinv, hi, hok, hf => by
    obtain ⟨f, rfl⟩ : ∃ g, f = g + 1 := ⟨f - 1, by simp [needI] at hf; omega⟩
    have hinv' : MInv { s with line := l } := hinv.congr rfl rfl rfl
    obtain ⟨s1, h1, r1⟩ := importStmt_spec st f { s with line := l } hinv' hi hok (by simp [needI] at hf; omega)
    refine ⟨s1, ?_, ?_⟩
    · rw [execStmt]; exact h1
    · exact ⟨r1.inv, ⟨r1.obs.1, r1.obs.2, r1.obs.3, r1.obs.4, r1.obs.5⟩, r1.ext, r1.keep, r1.loaded, r1.glob⟩
  | .expr _, _, _, _, hi, _, _ => by cases hi
  | .assign _ _, _, _, _, hi, _, _ => by cases hi
  | .augAssign _ _, _, _, _, hi, _, _ => by cases hi
  | .annAssign _ _ _, _, _, _, hi, _, _ => by cases hi
  | .funcDef _ _ _ _ _, _, _, _, hi, _, _ => by cases hi
  | .classDef _ _ _ _, _, _, _, hi, _, _ => by cases hi
  | .for_ _ _ _ _, _, _, _, hi, _, _ => by cases hi
  | .while_ _ _ _, _, _, _, hi, _, _ => by cases hi
  | .if_ _ _ _, _, _, _, hi, _, _ => by cases hi
  | .with_ _ _, _, _, _, hi, _, _ => by cases hi
  | .try_ _ _ _ _, _, _, _, hi, _, _ => by cases hi
  | .return_ _, _, _, _, hi, _, _ => by cases hi
  | .pass, _, _, _, hi, _, _ => by cases hi
  | .raise_ _, _, _, _, hi, _, _ => by cases hi
  | .delete _, _, _, _, hi, _, _ => by cases hi
  | .global_ _, _, _, _, hi, _, _ => by cases hi
  | .nonlocal_ _, _, _, _, hi, _, _ => by cases hi

/-! ## 7. two runs side by side: states that differ only in the numbering of the modules -/

def LogEq (t t' : XState) : Prop := t.ne = t'.ne ∧ t.ae = t'.ae ∧ t.lne = t'.lne ∧ t.otherRaised = t'.otherRaised

/-- observational equivalence of two run-time states: same globals up to module numbering, same builtins, same
    records of raised exceptions; with dotted reads in the program (`D = true`) also the same set of loaded modules -/
structure Sim (D : Bool) (s s' : XState) : Prop where
  glob : absG s = absG s'
  builtins : s.builtins = s'.builtins
  log : LogEq s s'
  loaded : D = true → ∀ d, isLoaded s d = isLoaded s' d

structure Good (D : Bool) (s s' : XState) : Prop where
  inv : MInv s
  inv' : MInv s'
  sim : Sim D s s'

theorem _root_.Pfb.C05.SameUpToLog.mods {a b : XState} (h : SameUpToLog a b) : b.mods = a.mods := by rw [h]
theorem _root_.Pfb.C05.SameUpToLog.loaded {a b : XState} (h : SameUpToLog a b) : b.loaded = a.loaded := by rw [h]

theorem absG_congr {s t : XState} (hm : t.mods = s.mods) (hg : t.globals = s.globals) : absG t = absG s := by
  funext k; simp [absG, hm, hg]

theorem Good.log {D : Bool} {s s' t t' : XState} (h : Good D s s') (h1 : SameUpToLog s t) (h2 : SameUpToLog s' t')
    (hl : LogEq t t') : Good D t t' :=
  ⟨h.inv.congr h1.mods h1.loaded h1.globals, h.inv'.congr h2.mods h2.loaded h2.globals,
   ⟨by rw [absG_congr h1.mods h1.globals, absG_congr h2.mods h2.globals]; exact h.sim.glob,
    by rw [h1.builtins, h2.builtins]; exact h.sim.builtins, hl,
    fun hd d => by simp only [isLoaded, h1.loaded, h2.loaded]; exact h.sim.loaded hd d⟩⟩

def VR (M M' : List ModObj) (v v' : RVal) : Prop :=
  validV M.length v = true ∧ validV M'.length v' = true ∧ absVal M v = absVal M' v'
def VRs (M M' : List ModObj) (vs vs' : List RVal) : Prop :=
  validVs M.length vs = true ∧ validVs M'.length vs' = true ∧ absVals M vs = absVals M' vs'

/-- shape of the partner of a value -/
theorem VR.inv {M M' : List ModObj} {v v' : RVal} (h : VR M M' v v') :
    match v with
    | .opq => v' = .opq
    | .rigid => v' = .rigid
    | .none => v' = .none
    | .bool b => v' = .bool b
    | .seq vs => ∃ vs', v' = .seq vs' ∧ VRs M M' vs vs'
    | .func _ => False
    | .cls _ => False
    | .mod i => ∃ j, v' = .mod j ∧ i < M.length ∧ j < M'.length ∧ nm M i = nm M' j := by
  obtain ⟨h1, h2, h3⟩ := h
  cases v <;> cases v' <;> simp [absVal, validV] at h1 h2 h3 ⊢
  · exact h3.symm
  · exact ⟨h1, h2, h3⟩
  · exact ⟨h1, h2, h3⟩

/-- related results of two computations that touch only the records -/
def CRel {α} (R : α → α → Prop) (s s' : XState) (r r' : XState × Except Exc α) : Prop :=
  SameUpToLog s r.1 ∧ SameUpToLog s' r'.1 ∧ LogEq r.1 r'.1 ∧
    match r.2, r'.2 with
    | .ok a, .ok a' => R a a'
    | .error e, .error e' => e = e'
    | _, _ => False

theorem CRel.bind {α β} {R : α → α → Prop} {R2 : β → β → Prop} {s s' : XState} {m m' : X α} {f f' : α → X β}
    (h1 : CRel R s s' (m s) (m' s'))
    (h2 : ∀ t t' a a', SameUpToLog s t → SameUpToLog s' t' → LogEq t t' → R a a' → CRel R2 t t' (f a t) (f' a' t')) :
    CRel R2 s s' ((m >>= f) s) ((m' >>= f') s') := by
  rw [X.bind_def, X.bind_def]
  obtain ⟨a1, a2, a3, a4⟩ := h1
  cases hm : m s with
  | mk t r =>
    cases hm' : m' s' with
    | mk t' r' =>
      rw [hm] at a1 a3 a4; rw [hm'] at a2 a3 a4
      cases r with
      | ok a =>
        cases r' with
        | ok a' =>
          obtain ⟨b1, b2, b3, b4⟩ := h2 t t' a a' a1 a2 a3 a4
          exact ⟨a1.trans b1, a2.trans b2, b3, b4⟩
        | error e' => exact a4.elim
      | error e =>
        cases r' with
        | ok a' => exact a4.elim
        | error e' => exact ⟨a1, a2, a3, a4⟩

theorem CRel.pure {α} {R : α → α → Prop} {s s' : XState} (a a' : α) (hl : LogEq s s') (h : R a a') :
    CRel R s s' ((Pure.pure a : X α) s) ((Pure.pure a' : X α) s') :=
  ⟨SameUpToLog.refl s, SameUpToLog.refl s', hl, h⟩

theorem CRel.raiseOther {α} {R : α → α → Prop} {s s' : XState} (hl : LogEq s s') :
    CRel R s s' ((raiseOther : X α) s) ((raiseOther : X α) s') :=
  ⟨rfl, rfl, ⟨hl.1, hl.2.1, hl.2.2.1, rfl⟩, rfl⟩

theorem sameLog_noteUse (n : Str) (s : XState) : SameUpToLog s (noteUse n s) := by
  unfold noteUse; split <;> rfl

theorem logEq_noteUse (n : Str) {s s' : XState} (h : LogEq s s') : LogEq (noteUse n s) (noteUse n s') := by
  unfold noteUse; split <;> split <;> exact h

theorem globalLookup_rel {D : Bool} {s s' : XState} (n : Str) (h : Good D s s') :
    CRel (VR s.mods s'.mods) s s' (globalLookup n s) (globalLookup n s') := by
  have hg := congrFun h.sim.glob n
  unfold absG at hg
  unfold globalLookup
  cases h1 : assocGet n s.globals with
  | some v =>
    cases h2 : assocGet n s'.globals with
    | some v' =>
      rw [h1, h2] at hg
      simp only [Option.map_some, Option.some.injEq] at hg
      exact ⟨sameLog_noteUse n s, sameLog_noteUse n s', logEq_noteUse n h.sim.log,
        h.inv.gv n v h1, h.inv'.gv n v' h2, hg⟩
    | none => rw [h1, h2] at hg; simp at hg
  | none =>
    cases h2 : assocGet n s'.globals with
    | some v' => rw [h1, h2] at hg; simp at hg
    | none =>
      simp only [← h.sim.builtins]
      split
      · refine ⟨SameUpToLog.refl s, SameUpToLog.refl s', h.sim.log, ?_⟩
        show VR s.mods s'.mods (if n = "_K".toList then RVal.opq else RVal.rigid)
          (if n = "_K".toList then RVal.opq else RVal.rigid)
        split <;> exact ⟨rfl, rfl, rfl⟩
      · have hl := h.sim.log
        refine ⟨rfl, rfl, ⟨?_, hl.2.1, hl.2.2.1, hl.2.2.2⟩, rfl⟩
        show addOnce n s.ne = addOnce n s'.ne
        rw [hl.1]

theorem getAttr_rel {D : Bool} {s s' : XState} {v v' : RVal} (a : Str) (h : Good D s s') (hD : D = true)
    (hv : VR s.mods s'.mods v v') :
    CRel (VR s.mods s'.mods) s s' (getAttr v a s) (getAttr v' a s') := by
  have hi := hv.inv
  have hl := h.sim.log
  cases v with
  | opq =>
    simp only at hi; subst hi
    show CRel _ s s' ((pure RVal.opq : X RVal) s) ((pure RVal.opq : X RVal) s')
    exact CRel.pure _ _ hl ⟨rfl, rfl, rfl⟩
  | rigid =>
    simp only at hi; subst hi
    show CRel _ s s' ((raiseOther : X RVal) s) ((raiseOther : X RVal) s')
    exact CRel.raiseOther hl
  | none =>
    simp only at hi; subst hi
    show CRel _ s s' ((raiseOther : X RVal) s) ((raiseOther : X RVal) s')
    exact CRel.raiseOther hl
  | bool b =>
    simp only at hi; subst hi
    show CRel _ s s' ((raiseOther : X RVal) s) ((raiseOther : X RVal) s')
    exact CRel.raiseOther hl
  | seq vs =>
    simp only at hi; obtain ⟨vs', rfl, _⟩ := hi
    show CRel _ s s' ((raiseOther : X RVal) s) ((raiseOther : X RVal) s')
    exact CRel.raiseOther hl
  | func i => exact hi.elim
  | cls i => exact hi.elim
  | mod i =>
    simp only at hi
    obtain ⟨j, rfl, hi1, hj1, hnm⟩ := hi
    obtain ⟨m, hm⟩ : ∃ m, s.mods[i]? = some m := ⟨s.mods[i], by simp [hi1]⟩
    obtain ⟨m', hm'⟩ : ∃ m', s'.mods[j]? = some m' := ⟨s'.mods[j], by simp [hj1]⟩
    have hname : m.name = m'.name := by simpa [nm, hm, hm'] using hnm
    have hc := h.inv.canon i m a hm
    have hc' := h.inv'.canon j m' a hm'
    have hr := (h.inv.wf2 i m hm).2
    have hr' := (h.inv'.wf2 j m' hm').2
    have hld := h.sim.loaded hD (m.name ++ '.' :: a)
    rw [← hname] at hc'
    show CRel _ s s' (getModAttr i a s) (getModAttr j a s')
    simp only [getModAttr, hm, hm']
    rw [hc, hc']
    by_cases hmem : universeMembers.contains a = true
    · simp only [hmem, if_true]
      exact ⟨SameUpToLog.refl s, SameUpToLog.refl s', hl, rfl, rfl, rfl⟩
    · simp only [hmem, if_false, Bool.false_eq_true]
      have hraise : CRel (VR s.mods s'.mods) s s'
          (if m.registry = true then (raiseAttr (m.name ++ '.' :: a) : X RVal) s else (raiseOther : X RVal) s)
          (if m'.registry = true then (raiseAttr (m'.name ++ '.' :: a) : X RVal) s' else (raiseOther : X RVal) s') := by
        rw [hr, hr', ← hname]
        simp only [if_true]
        refine ⟨rfl, rfl, ⟨hl.1, ?_, hl.2.2.1, hl.2.2.2⟩, rfl⟩
        show addOnce _ s.ae = addOnce _ s'.ae
        rw [hl.2.1]
      by_cases hs : isSubmodName a = true
      · simp only [hs, if_true]
        unfold isLoaded at hld
        cases hk : assocGet (m.name ++ '.' :: a) s.loaded with
        | some c =>
          cases hk' : assocGet (m.name ++ '.' :: a) s'.loaded with
          | some c' =>
            simp only [Option.map_some]
            obtain ⟨cm, hcm, hcn⟩ := h.inv.wf1 _ c hk
            obtain ⟨cm', hcm', hcn'⟩ := h.inv'.wf1 _ c' hk'
            refine ⟨SameUpToLog.refl s, SameUpToLog.refl s', hl, ?_, ?_, ?_⟩
            · simp [validV]; exact lt_of_getElem?_some hcm
            · simp [validV]; exact lt_of_getElem?_some hcm'
            · simp [absVal, nm, hcm, hcm', hcn, hcn']
          | none => rw [hk, hk'] at hld; cases hld
        | none =>
          cases hk' : assocGet (m.name ++ '.' :: a) s'.loaded with
          | some c' => rw [hk, hk'] at hld; cases hld
          | none => simp only [Option.map_none]; exact hraise
      · simp only [hs, if_false, Bool.false_eq_true]; exact hraise

def isOM : RVal → Bool
  | .opq => true
  | .mod _ => true
  | _ => false
def seqOf : RVal → Option (List RVal)
  | .seq vs => some vs
  | _ => none

theorem binop_eq (a b : RVal) : binop a b =
    if isOM a || isOM b then pure .opq
    else match seqOf a, seqOf b with
      | some x, some y => pure (.seq (x ++ y))
      | _, _ => raiseOther := by
  cases a <;> cases b <;> rfl

theorem subscriptGet_eq (v : RVal) : subscriptGet v = if isOM v then pure .opq else raiseOther := by
  cases v <;> rfl

theorem VR.isOM {M M' : List ModObj} {v v' : RVal} (h : VR M M' v v') : isOM v = isOM v' := by
  have hi := h.inv
  cases v <;> simp only at hi
  · subst hi; rfl
  · subst hi; rfl
  · subst hi; rfl
  · subst hi; rfl
  · obtain ⟨_, rfl, _⟩ := hi; rfl
  · obtain ⟨_, rfl, _⟩ := hi; rfl

theorem VR.seqOf {M M' : List ModObj} {v v' : RVal} (h : VR M M' v v') :
    match seqOf v, seqOf v' with
    | some x, some y => VRs M M' x y
    | none, none => True
    | _, _ => False := by
  have hi := h.inv
  cases v <;> simp only at hi
  · subst hi; trivial
  · subst hi; trivial
  · subst hi; trivial
  · subst hi; trivial
  · obtain ⟨_, rfl, h2⟩ := hi; exact h2
  · obtain ⟨_, rfl, _⟩ := hi; trivial

theorem VR.ofSeq {M M' : List ModObj} {x y : List RVal} (h : VRs M M' x y) : VR M M' (.seq x) (.seq y) := by
  obtain ⟨h1, h2, h3⟩ := h
  exact ⟨by simpa [validV] using h1, by simpa [validV] using h2, by simp [absVal, h3]⟩

theorem VRs.append {M M' : List ModObj} {x x' y y' : List RVal} (h1 : VRs M M' x x') (h2 : VRs M M' y y') :
    VRs M M' (x ++ y) (x' ++ y') :=
  ⟨by rw [validVs_append, h1.1, h2.1]; rfl, by rw [validVs_append, h1.2.1, h2.2.1]; rfl,
   by rw [absVals_append, absVals_append, h1.2.2, h2.2.2]⟩

theorem VRs.cons {M M' : List ModObj} {v v' : RVal} {x x' : List RVal} (h1 : VR M M' v v') (h2 : VRs M M' x x') :
    VRs M M' (v :: x) (v' :: x') :=
  ⟨by simp [validVs, h1.1, h2.1], by simp [validVs, h1.2.1, h2.2.1], by simp [absVals, h1.2.2, h2.2.2]⟩

theorem VR.truthy {M M' : List ModObj} {v v' : RVal} (h : VR M M' v v') : truthy v = truthy v' := by
  have hi := h.inv
  cases v <;> simp only at hi
  · subst hi; rfl
  · subst hi; rfl
  · subst hi; rfl
  · subst hi; rfl
  · obtain ⟨vs', rfl, h2⟩ := hi
    rename_i vs
    have := h2.2.2
    cases vs <;> cases vs' <;> simp [absVals] at this <;> rfl
  · obtain ⟨_, rfl, _⟩ := hi; rfl

theorem binop_rel {s s' : XState} {a a' b b' : RVal} (hl : LogEq s s') (ha : VR s.mods s'.mods a a')
    (hb : VR s.mods s'.mods b b') : CRel (VR s.mods s'.mods) s s' (binop a b s) (binop a' b' s') := by
  rw [binop_eq, binop_eq, ← ha.isOM, ← hb.isOM]
  by_cases h : (isOM a || isOM b) = true
  · rw [if_pos h, if_pos h]; exact CRel.pure _ _ hl ⟨rfl, rfl, rfl⟩
  · rw [if_neg h, if_neg h]
    have h1 := ha.seqOf
    have h2 := hb.seqOf
    cases e1 : seqOf a <;> cases e1' : seqOf a' <;> rw [e1, e1'] at h1 <;> try exact h1.elim
    · exact CRel.raiseOther hl
    · cases e2 : seqOf b <;> cases e2' : seqOf b' <;> rw [e2, e2'] at h2 <;> try exact h2.elim
      · exact CRel.raiseOther hl
      · exact CRel.pure _ _ hl (VR.ofSeq (h1.append h2))

theorem subscriptGet_rel {s s' : XState} {a a' : RVal} (hl : LogEq s s') (ha : VR s.mods s'.mods a a') :
    CRel (VR s.mods s'.mods) s s' (subscriptGet a s) (subscriptGet a' s') := by
  rw [subscriptGet_eq, subscriptGet_eq, ← ha.isOM]
  by_cases h : isOM a = true
  · rw [if_pos h]; exact CRel.pure _ _ hl ⟨rfl, rfl, rfl⟩
  · rw [if_neg h]; exact CRel.raiseOther hl

mutual
  /-- fuel that suffices to evaluate an expression of the fragment -/
  def needE : Expr → Nat
    | .attr e _ => needE e + 1
    | .binop l r => needE l + needE r + 1
    | .ifExp t a b => needE t + needE a + needE b + 1
    | .tuple es => needEs es + 1
    | .list es => needEs es + 1
    | .subscript v i => needE v + needE i + 1
    | _ => 1
  def needEs : List Expr → Nat
    | [] => 1
    | e :: es => needE e + needEs es + 1
end

theorem fragB_attr_inner {D : Bool} {b : Expr} {a : Str} (h : fragBExpr D (.attr b a) = true) :
    fragBExpr D b = true ∧ D = true := by
  simp only [fragBExpr, Bool.and_eq_true] at h
  refine ⟨?_, h.1⟩
  have h2 := h.2
  cases b with
  | name n =>
    simp only [Expr.dotted, List.cons_append, List.nil_append, List.all_cons, List.all_nil, Bool.and_true,
      Bool.and_eq_true] at h2
    simpa [fragBExpr] using h2.1
  | attr b2 a2 =>
    simp only [Expr.dotted] at h2
    cases hd : b2.dotted with
    | none => rw [hd] at h2; simp at h2
    | some ps =>
      rw [hd] at h2
      simp only [List.all_append, Bool.and_eq_true] at h2
      simp only [fragBExpr, Expr.dotted, hd, h.1, Bool.true_and]
      simpa [List.all_append] using h2.1
  | _ => simp [Expr.dotted] at h2

theorem CRel.mods {α} {R R' : α → α → Prop} {s s' : XState} {r r' : XState × Except Exc α}
    (h : CRel R s s' r r') (hr : ∀ a a', R a a' → R' a a') : CRel R' s s' r r' := by
  obtain ⟨a1, a2, a3, a4⟩ := h
  refine ⟨a1, a2, a3, ?_⟩
  cases h1 : r.2 <;> cases h2 : r'.2 <;> rw [h1, h2] at a4 <;> simp only at a4 ⊢
  · exact a4
  · exact hr _ _ a4

theorem evalRel (D : Bool) : ∀ (f : Nat),
    (∀ e f' s s', fragBExpr D e = true → needE e ≤ f → needE e ≤ f' → Good D s s' →
      CRel (VR s.mods s'.mods) s s' (evalExpr f {} e s) (evalExpr f' {} e s')) ∧
    (∀ es f' s s', fragBExprs D es = true → needEs es ≤ f → needEs es ≤ f' → Good D s s' →
      CRel (VRs s.mods s'.mods) s s' (evalExprs f {} es s) (evalExprs f' {} es s')) := by
  intro f
  induction f with
  | zero =>
    constructor
    · intro e f' s s' _ h; cases e <;> simp [needE] at h
    · intro es f' s s' _ h; cases es <;> simp [needEs] at h
  | succ f ih =>
    obtain ⟨ihe, ihes⟩ := ih
    -- the induction hypothesis at a later pair of states of the same two runs
    have ihe' : ∀ e f' (s s' t t' : XState), fragBExpr D e = true → needE e ≤ f → needE e ≤ f' → Good D s s' →
        SameUpToLog s t → SameUpToLog s' t' → LogEq t t' →
        CRel (VR s.mods s'.mods) t t' (evalExpr f {} e t) (evalExpr f' {} e t') := by
      intro e f' s s' t t' h1 h2 h3 hg a1 a2 a3
      have := ihe e f' t t' h1 h2 h3 (hg.log a1 a2 a3)
      rw [a1.mods, a2.mods] at this; exact this
    have ihes' : ∀ es f' (s s' t t' : XState), fragBExprs D es = true → needEs es ≤ f → needEs es ≤ f' → Good D s s' →
        SameUpToLog s t → SameUpToLog s' t' → LogEq t t' →
        CRel (VRs s.mods s'.mods) t t' (evalExprs f {} es t) (evalExprs f' {} es t') := by
      intro es f' s s' t t' h1 h2 h3 hg a1 a2 a3
      have := ihes es f' t t' h1 h2 h3 (hg.log a1 a2 a3)
      rw [a1.mods, a2.mods] at this; exact this
    constructor
    · intro e f' s s' hfr hf hf' hg
      obtain ⟨f', rfl⟩ : ∃ g, f' = g + 1 := ⟨f' - 1, by cases e <;> simp [needE] at hf' <;> omega⟩
      have hl := hg.sim.log
      cases e with
      | name n =>
        show CRel _ s s' (globalLookup n s) (globalLookup n s')
        exact globalLookup_rel n hg
      | attr b a =>
        obtain ⟨hb, hD⟩ := fragB_attr_inner hfr
        simp only [needE] at hf hf'
        simp only [evalExpr]
        refine CRel.bind (ihe b f' s s' hb (by omega) (by omega) hg) ?_
        intro t t' v v' a1 a2 a3 hv
        have := getAttr_rel a (hg.log a1 a2 a3) hD (by rw [a1.mods, a2.mods]; exact hv)
        rw [a1.mods, a2.mods] at this; exact this
      | const => simp only [evalExpr]; exact CRel.pure _ _ hl ⟨rfl, rfl, rfl⟩
      | bool b => simp only [evalExpr]; exact CRel.pure _ _ hl ⟨rfl, rfl, rfl⟩
      | str _ => simp only [evalExpr]; exact CRel.pure _ _ hl ⟨rfl, rfl, rfl⟩
      | binop l r =>
        simp only [fragBExpr, Bool.and_eq_true] at hfr
        simp only [needE] at hf hf'
        simp only [evalExpr]
        refine CRel.bind (ihe l f' s s' hfr.1 (by omega) (by omega) hg) ?_
        intro t t' a a' a1 a2 a3 ha
        refine CRel.bind (ihe' r f' s s' t t' hfr.2 (by omega) (by omega) hg a1 a2 a3) ?_
        intro u u' b b' b1 b2 b3 hb
        have := binop_rel (s := u) (s' := u') b3 (by rw [b1.mods, a1.mods, b2.mods, a2.mods]; exact ha)
          (by rw [b1.mods, a1.mods, b2.mods, a2.mods]; exact hb)
        rw [b1.mods, a1.mods, b2.mods, a2.mods] at this; exact this
      | subscript v i =>
        simp only [fragBExpr, Bool.and_eq_true] at hfr
        simp only [needE] at hf hf'
        simp only [evalExpr]
        refine CRel.bind (ihe v f' s s' hfr.1 (by omega) (by omega) hg) ?_
        intro t t' a a' a1 a2 a3 ha
        refine CRel.bind (ihe' i f' s s' t t' hfr.2 (by omega) (by omega) hg a1 a2 a3) ?_
        intro u u' b b' b1 b2 b3 _
        have := subscriptGet_rel (s := u) (s' := u') b3 (by rw [b1.mods, a1.mods, b2.mods, a2.mods]; exact ha)
        rw [b1.mods, a1.mods, b2.mods, a2.mods] at this; exact this
      | tuple es =>
        simp only [fragBExpr] at hfr
        simp only [needE] at hf hf'
        simp only [evalExpr]
        refine CRel.bind (ihes es f' s s' hfr (by omega) (by omega) hg) ?_
        intro t t' vs vs' a1 a2 a3 hvs
        exact CRel.pure _ _ a3 (VR.ofSeq hvs)
      | list es =>
        simp only [fragBExpr] at hfr
        simp only [needE] at hf hf'
        simp only [evalExpr]
        refine CRel.bind (ihes es f' s s' hfr (by omega) (by omega) hg) ?_
        intro t t' vs vs' a1 a2 a3 hvs
        exact CRel.pure _ _ a3 (VR.ofSeq hvs)
      | ifExp c a b =>
        simp only [fragBExpr, Bool.and_eq_true] at hfr
        simp only [needE] at hf hf'
        simp only [evalExpr]
        refine CRel.bind (ihe c f' s s' hfr.1.1 (by omega) (by omega) hg) ?_
        intro t t' tv tv' a1 a2 a3 htv
        rw [← htv.truthy]
        by_cases hc : truthy tv = true
        · rw [if_pos hc, if_pos hc]
          exact ihe' a f' s s' t t' hfr.1.2 (by omega) (by omega) hg a1 a2 a3
        · rw [if_neg hc, if_neg hc]
          exact ihe' b f' s s' t t' hfr.2 (by omega) (by omega) hg a1 a2 a3
      | call _ _ => simp [fragBExpr] at hfr
      | lambda _ _ => simp [fragBExpr] at hfr
      | comp _ _ _ => simp [fragBExpr] at hfr
    · intro es f' s s' hfr hf hf' hg
      obtain ⟨f', rfl⟩ : ∃ g, f' = g + 1 := ⟨f' - 1, by cases es <;> simp [needEs] at hf' <;> omega⟩
      have hl := hg.sim.log
      cases es with
      | nil => simp only [evalExprs]; exact CRel.pure _ _ hl ⟨rfl, rfl, rfl⟩
      | cons e es =>
        simp only [fragBExprs, Bool.and_eq_true] at hfr
        simp only [needEs] at hf hf'
        simp only [evalExprs]
        refine CRel.bind (ihe e f' s s' hfr.1 (by omega) (by omega) hg) ?_
        intro t t' v v' a1 a2 a3 hv
        refine CRel.bind (ihes' es f' s s' t t' hfr.2 (by omega) (by omega) hg a1 a2 a3) ?_
        intro u u' vs vs' b1 b2 b3 hvs
        exact CRel.pure _ _ b3 (VRs.cons hv hvs)

/-! ## 8. statements of fragment B, two runs side by side -/

/-- fuel that suffices for a statement of fragment B -/
def needS : Stmt → Nat
  | .expr e => needE e + 1
  | .assign _ e => needE e + 3
  | .import_ names => names.length + 2
  | .importFrom _ names => names.length + 2
  | .located _ s => needS s + 1
  | _ => 1

def needSs : List Stmt → Nat
  | [] => 1
  | st :: ss => needS st + needSs ss + 1

theorem needI_le : ∀ st : Stmt, needI st ≤ needS st
  | .located _ s => by simp only [needI, needS]; have := needI_le s; omega
  | .import_ _ => Nat.le_refl _
  | .importFrom _ _ => Nat.le_refl _
  | .expr _ => by simp [needI, needS]
  | .assign _ _ => by simp [needI, needS]
  | .augAssign _ _ => Nat.le_refl _
  | .annAssign _ _ _ => Nat.le_refl _
  | .funcDef _ _ _ _ _ => Nat.le_refl _
  | .classDef _ _ _ _ => Nat.le_refl _
  | .for_ _ _ _ _ => Nat.le_refl _
  | .while_ _ _ _ => Nat.le_refl _
  | .if_ _ _ _ => Nat.le_refl _
  | .with_ _ _ => Nat.le_refl _
  | .try_ _ _ _ _ => Nat.le_refl _
  | .return_ _ => Nat.le_refl _
  | .pass => Nat.le_refl _
  | .raise_ _ => Nat.le_refl _
  | .delete _ => Nat.le_refl _
  | .global_ _ => Nat.le_refl _
  | .nonlocal_ _ => Nat.le_refl _

theorem needSs_append (a b : List Stmt) : needSs (a ++ b) + 1 = needSs a + needSs b := by
  induction a with
  | nil => simp [needSs]; omega
  | cons x xs ih => simp only [List.cons_append, needSs]; omega

theorem needSs_length (a : List Stmt) : a.length + 1 ≤ needSs a := by
  induction a with
  | nil => simp [needSs]
  | cons x xs ih => simp only [List.length_cons, needSs]; omega

/-- related outcomes of one statement (or a list) in the two runs -/
def SRes (D : Bool) (r r' : XState × Except Exc Flow) : Prop :=
  Good D r.1 r'.1 ∧ ((r.2 = .ok .normal ∧ r'.2 = .ok .normal) ∨ ∃ e, r.2 = .error e ∧ r'.2 = .error e)

theorem Good.refl (D : Bool) (s : XState) (h : MInv s) : Good D s s :=
  ⟨h, h, rfl, rfl, ⟨rfl, rfl, rfl, rfl⟩, fun _ _ => rfl⟩

/-- two import blocks with the same abstract effect, run from related states, end in related states -/
theorem Good.ofIRes {D : Bool} {s s' s1 s1' : XState} {A A' : List Atom} {L L' : List Str} (h : Good D s s')
    (h1 : IRes s s1 A L) (h2 : IRes s' s1' A' L') (hA : ∀ g, A.foldl aStep g = A'.foldl aStep g)
    (hL : D = true → ∀ d, L.contains d = L'.contains d) : Good D s1 s1' := by
  refine ⟨h1.inv, h2.inv, ?_, ?_, ⟨?_, ?_, ?_, ?_⟩, ?_⟩
  · rw [h1.glob, h2.glob, h.sim.glob, hA]
  · rw [h1.obs.builtins, h2.obs.builtins]; exact h.sim.builtins
  · rw [h1.obs.ne, h2.obs.ne]; exact h.sim.log.1
  · rw [h1.obs.ae, h2.obs.ae]; exact h.sim.log.2.1
  · rw [h1.obs.lne, h2.obs.lne]; exact h.sim.log.2.2.1
  · rw [h1.obs.other, h2.obs.other]; exact h.sim.log.2.2.2
  · intro hD d; rw [h1.loaded, h2.loaded, h.sim.loaded hD d, hL hD d]

theorem MInv.setGlobal {s : XState} (h : MInv s) (x : Str) (v : RVal) (hv : validV s.mods.length v = true)
    (o : List (Str × Nat × Nat)) : MInv { s with globals := assocSet x v s.globals, origins := o } := by
  refine ⟨h.wf1, h.wf2, h.canon, h.closed, ?_⟩
  intro k w hk
  simp only [assocGet_assocSet] at hk
  split at hk
  · cases hk; exact hv
  · exact h.gv k w hk

theorem Good.setGlobal {D : Bool} {s s' : XState} (h : Good D s s') (x : Str) {v v' : RVal}
    (hv : VR s.mods s'.mods v v') (o o' : List (Str × Nat × Nat)) :
    Good D { s with globals := assocSet x v s.globals, origins := o }
      { s' with globals := assocSet x v' s'.globals, origins := o' } := by
  refine ⟨h.inv.setGlobal x v hv.1 o, h.inv'.setGlobal x v' hv.2.1 o', ?_, h.sim.builtins, h.sim.log, h.sim.loaded⟩
  funext k
  have := congrFun h.sim.glob k
  simp only [absG, assocGet_assocSet] at this ⊢
  split
  · simp [hv.2.2]
  · exact this

theorem Good.setLine {D : Bool} {s s' : XState} (h : Good D s s') (l : Nat) :
    Good D { s with line := l } { s' with line := l } :=
  ⟨h.inv.congr rfl rfl rfl, h.inv'.congr rfl rfl rfl, h.sim.glob, h.sim.builtins, h.sim.log, h.sim.loaded⟩

theorem assignAll_name_ok (f : Nat) (x : Str) (v : RVal) (s : XState) :
    assignAll (f + 2) {} [.name x] v s =
      ({ s with globals := assocSet x v s.globals, origins := assocDel x s.origins }, .ok ()) := by
  simp only [assignAll, bindTarget, bindName, X.bind_def, X.modify]
  rfl

/-- one statement of fragment B whose imports succeed: run from related states with sufficient (possibly different)
    fuel, both runs end in related states with the same outcome -/
theorem stmtRel (D : Bool) : ∀ (st : Stmt) (f f' : Nat) (s s' : XState), fragBStmt D st = true → importOK st = true →
    needS st ≤ f → needS st ≤ f' → Good D s s' → SRes D (execStmt f {} st s) (execStmt f' {} st s')
  | .expr e, f, f', s, s', hfr, _, hf, hf', hg => by
    obtain ⟨f, rfl⟩ : ∃ g, f = g + 1 := ⟨f - 1, by simp [needS] at hf; omega⟩
    obtain ⟨f', rfl⟩ : ∃ g, f' = g + 1 := ⟨f' - 1, by simp [needS] at hf'; omega⟩
    simp only [needS] at hf hf'
    have hr := (evalRel D f).1 e f' s s' hfr (by omega) (by omega) hg
    simp only [execStmt, X.bind_def]
    obtain ⟨a1, a2, a3, a4⟩ := hr
    cases h1 : evalExpr f {} e s with
    | mk t r =>
      cases h2 : evalExpr f' {} e s' with
      | mk t' r' =>
        rw [h1] at a1 a3 a4; rw [h2] at a2 a3 a4
        cases r <;> cases r' <;> simp only at a4 ⊢
        · exact ⟨hg.log a1 a2 a3, .inr ⟨_, rfl, by rw [a4]⟩⟩
        · exact ⟨hg.log a1 a2 a3, .inl ⟨rfl, rfl⟩⟩
  | .assign ts e, f, f', s, s', hfr, _, hf, hf', hg => by
    obtain ⟨f, rfl⟩ : ∃ g, f = g + 3 := ⟨f - 3, by simp [needS] at hf; omega⟩
    obtain ⟨f', rfl⟩ : ∃ g, f' = g + 3 := ⟨f' - 3, by simp [needS] at hf'; omega⟩
    simp only [needS] at hf hf'
    simp only [fragBStmt, Bool.and_eq_true] at hfr
    cases hsn : singleName ts with
    | none => rw [hsn] at hfr; simp at hfr
    | some x =>
      have hts := singleName_eq hsn
      subst hts
      have hr := (evalRel D (f + 2)).1 e (f' + 2) s s' hfr.2 (by omega) (by omega) hg
      simp only [execStmt, X.bind_def]
      obtain ⟨a1, a2, a3, a4⟩ := hr
      cases h1 : evalExpr (f + 2) {} e s with
      | mk t r =>
        cases h2 : evalExpr (f' + 2) {} e s' with
        | mk t' r' =>
          rw [h1] at a1 a3 a4; rw [h2] at a2 a3 a4
          cases r <;> cases r' <;> simp only at a4 ⊢
          · exact ⟨hg.log a1 a2 a3, .inr ⟨_, rfl, by rw [a4]⟩⟩
          · rw [assignAll_name_ok, assignAll_name_ok]
            simp only
            have hg2 := hg.log a1 a2 a3
            refine ⟨hg2.setGlobal x (by rw [a1.mods, a2.mods]; exact a4) _ _, .inl ⟨rfl, rfl⟩⟩
  | .pass, f, f', s, s', _, _, hf, hf', hg => by
    obtain ⟨f, rfl⟩ : ∃ g, f = g + 1 := ⟨f - 1, by simp [needS] at hf; omega⟩
    obtain ⟨f', rfl⟩ : ∃ g, f' = g + 1 := ⟨f' - 1, by simp [needS] at hf'; omega⟩
    exact ⟨hg, .inl ⟨rfl, rfl⟩⟩
  | .import_ names, f, f', s, s', _, hok, hf, hf', hg => by
    obtain ⟨s1, h1, r1⟩ := importStmt_spec (.import_ names) f s hg.inv rfl hok hf
    obtain ⟨s1', h1', r1'⟩ := importStmt_spec (.import_ names) f' s' hg.inv' rfl hok hf'
    rw [h1, h1']
    exact ⟨hg.ofIRes r1 r1' (fun _ => rfl) (fun _ _ => rfl), .inl ⟨rfl, rfl⟩⟩
  | .importFrom m names, f, f', s, s', _, hok, hf, hf', hg => by
    obtain ⟨s1, h1, r1⟩ := importStmt_spec (.importFrom m names) f s hg.inv rfl hok hf
    obtain ⟨s1', h1', r1'⟩ := importStmt_spec (.importFrom m names) f' s' hg.inv' rfl hok hf'
    rw [h1, h1']
    exact ⟨hg.ofIRes r1 r1' (fun _ => rfl) (fun _ _ => rfl), .inl ⟨rfl, rfl⟩⟩
  | .located l st, f, f', s, s', hfr, hok, hf, hf', hg => by
    obtain ⟨f, rfl⟩ : ∃ g, f = g + 1 := ⟨f - 1, by simp [needS] at hf; omega⟩
    obtain ⟨f', rfl⟩ : ∃ g, f' = g + 1 := ⟨f' - 1, by simp [needS] at hf'; omega⟩
    simp only [needS] at hf hf'
    have := stmtRel D st f f' { s with line := l } { s' with line := l } hfr hok (by omega) (by omega) (hg.setLine l)
    rw [execStmt, execStmt]
    exact this
  | .augAssign _ _, _, _, _, _, hfr, _, _, _, _ => by simp [fragBStmt] at hfr
  | .annAssign _ _ _, _, _, _, _, hfr, _, _, _, _ => by simp [fragBStmt] at hfr
  | .funcDef _ _ _ _ _, _, _, _, _, hfr, _, _, _, _ => by simp [fragBStmt] at hfr
  | .classDef _ _ _ _, _, _, _, _, hfr, _, _, _, _ => by simp [fragBStmt] at hfr
  | .for_ _ _ _ _, _, _, _, _, hfr, _, _, _, _ => by simp [fragBStmt] at hfr
  | .while_ _ _ _, _, _, _, _, hfr, _, _, _, _ => by simp [fragBStmt] at hfr
  | .if_ _ _ _, _, _, _, _, hfr, _, _, _, _ => by simp [fragBStmt] at hfr
  | .with_ _ _, _, _, _, _, hfr, _, _, _, _ => by simp [fragBStmt] at hfr
  | .try_ _ _ _ _, _, _, _, _, hfr, _, _, _, _ => by simp [fragBStmt] at hfr
  | .return_ _, _, _, _, _, hfr, _, _, _, _ => by simp [fragBStmt] at hfr
  | .raise_ _, _, _, _, _, hfr, _, _, _, _ => by simp [fragBStmt] at hfr
  | .delete _, _, _, _, _, hfr, _, _, _, _ => by simp [fragBStmt] at hfr
  | .global_ _, _, _, _, _, hfr, _, _, _, _ => by simp [fragBStmt] at hfr
  | .nonlocal_ _, _, _, _, _, hfr, _, _, _, _ => by simp [fragBStmt] at hfr

theorem execStmts_nil (f : Nat) (s : XState) : execStmts (f + 1) {} [] s = (s, .ok .normal) := rfl

/-- a common prefix `pre` of two programs run from related states: either both runs stop in `pre` with the same
    exception, or both get through it and continue with the rest from related states -/
theorem stmtsRel_k (D : Bool) : ∀ (pre : List Stmt) (f f' : Nat) (s s' : XState) (k k' : List Stmt),
    fragB D pre = true → pre.all importOK = true → needSs pre ≤ f → needSs pre ≤ f' → Good D s s' →
    (∃ e t t', execStmts f {} (pre ++ k) s = (t, .error e) ∧ execStmts f' {} (pre ++ k') s' = (t', .error e) ∧ Good D t t') ∨
    (∃ t t', Good D t t' ∧ execStmts f {} (pre ++ k) s = execStmts (f - pre.length) {} k t ∧
      execStmts f' {} (pre ++ k') s' = execStmts (f' - pre.length) {} k' t')
  | [], f, f', s, s', k, k', _, _, _, _, hg => .inr ⟨s, s', hg, rfl, rfl⟩
  | st :: ss, f, f', s, s', k, k', hfr, hok, hf, hf', hg => by
    obtain ⟨f, rfl⟩ : ∃ g, f = g + 1 := ⟨f - 1, by simp [needSs] at hf; omega⟩
    obtain ⟨f', rfl⟩ : ∃ g, f' = g + 1 := ⟨f' - 1, by simp [needSs] at hf'; omega⟩
    simp only [needSs] at hf hf'
    simp only [fragB, List.all_cons, Bool.and_eq_true] at hfr hok
    obtain ⟨hg1, hres⟩ := stmtRel D st f f' s s' hfr.1 hok.1 (by omega) (by omega) hg
    simp only [List.cons_append, execStmts, X.bind_def]
    cases h1 : execStmt f {} st s with
    | mk t r =>
      cases h2 : execStmt f' {} st s' with
      | mk t' r' =>
        rw [h1, h2] at hg1 hres
        simp only at hg1 hres
        rcases hres with ⟨rfl, rfl⟩ | ⟨e, rfl, rfl⟩
        · simp only
          have := stmtsRel_k D ss f f' t t' k k' hfr.2 hok.2 (by omega) (by omega) hg1
          simpa using this
        · exact .inl ⟨e, t, t', rfl, rfl, hg1⟩

theorem stmtsRel (D : Bool) (ss : List Stmt) (f f' : Nat) (s s' : XState)
    (hfr : fragB D ss = true) (hok : ss.all importOK = true) (hf : needSs ss ≤ f) (hf' : needSs ss ≤ f')
    (hg : Good D s s') : SRes D (execStmts f {} ss s) (execStmts f' {} ss s') := by
  have hl := needSs_length ss
  rcases stmtsRel_k D ss f f' s s' [] [] hfr hok hf hf' hg with ⟨e, t, t', h1, h2, hg1⟩ | ⟨t, t', hg1, h1, h2⟩
  · simp only [List.append_nil] at h1 h2
    rw [h1, h2]; exact ⟨hg1, .inr ⟨e, rfl, rfl⟩⟩
  · simp only [List.append_nil] at h1 h2
    obtain ⟨g, hgf⟩ : ∃ g, f - ss.length = g + 1 := ⟨f - ss.length - 1, by omega⟩
    obtain ⟨g', hgf'⟩ : ∃ g, f' - ss.length = g + 1 := ⟨f' - ss.length - 1, by omega⟩
    rw [h1, h2, hgf, hgf']
    exact ⟨hg1, .inl ⟨rfl, rfl⟩⟩

def blockAtoms (blk : List Stmt) : List Atom := blk.flatMap stmtAtoms
def blockLoads (blk : List Stmt) : List Str := blk.flatMap stmtLoads

/-- **a block of import statements** binds its aliases in order and then continues with the rest of the program -/
theorem execStmts_imports : ∀ (blk : List Stmt) (f : Nat) (s : XState) (k : List Stmt), MInv s →
    blk.all isImport = true → blk.all importOK = true → needSs blk ≤ f →
    ∃ s1, IRes s s1 (blockAtoms blk) (blockLoads blk) ∧
      execStmts f {} (blk ++ k) s = execStmts (f - blk.length) {} k s1
  | [], f, s, k, hinv, _, _, _ => ⟨s, IRes.refl s hinv, rfl⟩
  | st :: ss, f, s, k, hinv, hi, hok, hf => by
    obtain ⟨f, rfl⟩ : ∃ g, f = g + 1 := ⟨f - 1, by simp [needSs] at hf; omega⟩
    simp only [needSs] at hf
    simp only [List.all_cons, Bool.and_eq_true] at hi hok
    have hn := needI_le st
    obtain ⟨s1, h1, r1⟩ := importStmt_spec st f s hinv hi.1 hok.1 (by omega)
    obtain ⟨s2, r2, h2⟩ := execStmts_imports ss f s1 k r1.inv hi.2 hok.2 (by omega)
    refine ⟨s2, by simpa [blockAtoms, blockLoads] using r1.trans r2, ?_⟩
    simp only [List.cons_append, execStmts, X.bind_def, h1]
    simpa using h2

theorem runProgram_ok' (F : Nat) (body : List Stmt) (s0 t : XState) (fl : Flow)
    (h : execStmts (F + 1) {} body s0 = (t, .ok fl)) :
    runProgram (F + 1) body [] s0 = ({ t with atEnd := true }, .ok ()) := by
  unfold runProgram
  simp only [X.bind_def, h]
  rfl

theorem runProgram_err (F : Nat) (body : List Stmt) (s0 t : XState) (e : Exc)
    (h : execStmts F {} body s0 = (t, .error e)) : runProgram F body [] s0 = (t, .error e) := by
  unfold runProgram
  simp only [X.bind_def, h]

theorem absG_atEnd (t : XState) : absG { t with atEnd := true } = absG t := absG_congr rfl rfl

/-- what is compared at the end of two runs: the NameErrors and AttributeErrors raised, the outcome, and the globals
    (name ↦ object, a module object being identified by its dotted name) -/
def SameRun (r r' : XState × Except Exc Unit) : Prop :=
  r.1.ne = r'.1.ne ∧ r.1.ae = r'.1.ae ∧ r.2 = r'.2 ∧ absG r.1 = absG r'.1

theorem SameRun.ofSRes {D : Bool} (F : Nat) (hF : 1 ≤ F) (p p' : List Stmt) (s0 : XState)
    (h : SRes D (execStmts F {} p s0) (execStmts F {} p' s0)) :
    SameRun (runProgram F p [] s0) (runProgram F p' [] s0) := by
  obtain ⟨F, rfl⟩ : ∃ g, F = g + 1 := ⟨F - 1, by omega⟩
  obtain ⟨hg, hres⟩ := h
  cases h1 : execStmts (F + 1) {} p s0 with
  | mk t r =>
    cases h2 : execStmts (F + 1) {} p' s0 with
    | mk t' r' =>
      rw [h1, h2] at hg hres
      simp only at hg hres
      rcases hres with ⟨rfl, rfl⟩ | ⟨e, rfl, rfl⟩
      · rw [runProgram_ok' F p s0 t _ h1, runProgram_ok' F p' s0 t' _ h2]
        exact ⟨hg.sim.log.1, hg.sim.log.2.1, rfl, by rw [absG_atEnd, absG_atEnd]; exact hg.sim.glob⟩
      · rw [runProgram_err _ p s0 t e h1, runProgram_err _ p' s0 t' e h2]
        exact ⟨hg.sim.log.1, hg.sim.log.2.1, rfl, hg.sim.glob⟩

/-- **Core of C02 on the reference semantics.**  Two fragment-B programs that differ in one block of import
    statements; the two blocks have the same effect on the abstract globals (`hA`) and, when the program contains
    dotted reads, load the same modules (`hL`).  Then the two runs raise the same NameErrors and AttributeErrors,
    end with the same outcome and the same globals. -/
theorem reorder_core (D : Bool) (pre blk blk' post : List Stmt) (s0 : XState) (F : Nat)
    (hfr : fragB D (pre ++ blk ++ post) = true)
    (hok : (pre ++ blk ++ post).all importOK = true) (hok' : (pre ++ blk' ++ post).all importOK = true)
    (hblk : blk.all isImport = true) (hblk' : blk'.all isImport = true)
    (hA : ∀ g, (blockAtoms blk).foldl aStep g = (blockAtoms blk').foldl aStep g)
    (hL : D = true → ∀ d, (blockLoads blk).contains d = (blockLoads blk').contains d)
    (hinv : MInv s0) (hF : needSs (pre ++ blk ++ post) ≤ F) (hF' : needSs (pre ++ blk' ++ post) ≤ F) :
    SameRun (runProgram F (pre ++ blk ++ post) [] s0) (runProgram F (pre ++ blk' ++ post) [] s0) := by
  simp only [fragB, List.all_append, Bool.and_eq_true] at hfr hok hok'
  have e1 := needSs_append (pre ++ blk) post
  have e2 := needSs_append pre blk
  have e1' := needSs_append (pre ++ blk') post
  have e2' := needSs_append pre blk'
  have l1 := needSs_length pre
  have l2 := needSs_length blk
  have l2' := needSs_length blk'
  have l3 := needSs_length post
  apply SameRun.ofSRes (D := D) F (by omega)
  rw [List.append_assoc, List.append_assoc]
  rcases stmtsRel_k D pre F F s0 s0 (blk ++ post) (blk' ++ post) hfr.1.1 hok.1.1 (by omega) (by omega)
    (Good.refl D s0 hinv) with ⟨e, t, t', h1, h2, hg1⟩ | ⟨t, t', hg1, h1, h2⟩
  · rw [h1, h2]; exact ⟨hg1, .inr ⟨e, rfl, rfl⟩⟩
  · obtain ⟨s1, r1, h3⟩ := execStmts_imports blk (F - pre.length) t post hg1.inv hblk hok.1.2 (by omega)
    obtain ⟨s1', r1', h3'⟩ := execStmts_imports blk' (F - pre.length) t' post hg1.inv' hblk' hok'.1.2 (by omega)
    rw [h1, h2, h3, h3']
    exact stmtsRel D post _ _ s1 s1' hfr.2 hok.2 (by omega) (by omega) (hg1.ofIRes r1 r1' hA hL)

/-! ## 9. the abstract effect of a block: re-ordering, shadowing, splitting -/

theorem aStep_comm (g : Str → Option AVal) (x y : Atom) (h : x.bound ≠ y.bound) :
    aStep (aStep g x) y = aStep (aStep g y) x := by
  funext k
  simp only [aStep]
  by_cases h1 : k = y.bound
  · by_cases h2 : k = x.bound
    · exact absurd (h2.symm.trans h1) h
    · have : ¬ y.bound = x.bound := fun e => h e.symm
      simp [h1, this]
  · simp [h1]

theorem aStep_over (g : Str → Option AVal) (x y : Atom) (h : y.bound = x.bound) :
    aStep (aStep g x) y = aStep g y := by
  funext k
  simp only [aStep, h]
  by_cases h1 : k = x.bound <;> simp [h1]

theorem foldl_aStep_comm1 (x : Atom) : ∀ (B : List Atom) (g : Str → Option AVal), (∀ y ∈ B, x.bound ≠ y.bound) →
    B.foldl aStep (aStep g x) = aStep (B.foldl aStep g) x
  | [], _, _ => rfl
  | y :: B, g, h => by
    simp only [List.foldl_cons]
    rw [aStep_comm g x y (h y (by simp))]
    exact foldl_aStep_comm1 x B (aStep g y) (fun z hz => h z (by simp [hz]))

/-- two groups of aliases that bind disjoint sets of names can be executed in either order -/
theorem foldl_aStep_swap : ∀ (A B : List Atom) (g : Str → Option AVal), (∀ x ∈ A, ∀ y ∈ B, x.bound ≠ y.bound) →
    (A ++ B).foldl aStep g = (B ++ A).foldl aStep g
  | [], B, g, _ => by simp
  | x :: A, B, g, h => by
    have ih := foldl_aStep_swap A B (aStep g x) (fun a ha b hb => h a (by simp [ha]) b hb)
    simp only [List.foldl_append, List.cons_append, List.foldl_cons] at ih ⊢
    rw [ih, foldl_aStep_comm1 x B g (fun y hy => h x (by simp) y hy)]

/-- an alias followed (not necessarily immediately) by another alias of the same bound name has no effect -/
theorem foldl_aStep_shadow (x : Atom) : ∀ (B : List Atom) (g : Str → Option AVal), (∃ y ∈ B, y.bound = x.bound) →
    B.foldl aStep (aStep g x) = B.foldl aStep g
  | [], _, h => by obtain ⟨y, hy, _⟩ := h; cases hy
  | y :: B, g, h => by
    simp only [List.foldl_cons]
    by_cases hy : y.bound = x.bound
    · rw [aStep_over g x y hy]
    · rw [aStep_comm g x y (fun e => hy e.symm)]
      apply foldl_aStep_shadow x B (aStep g y)
      obtain ⟨z, hz, hzb⟩ := h
      rcases List.mem_cons.mp hz with rfl | hz
      · exact absurd hzb hy
      · exact ⟨z, hz, hzb⟩

/-! ## 10. C02 on the reference semantics: the special cases -/

/-- **(a)** swapping two adjacent import statements that bind different names -/
theorem C02_swap_equiv_fragB (D : Bool) (pre post : List Stmt) (st1 st2 : Stmt) (s0 : XState) (F : Nat)
    (hfr : fragB D (pre ++ [st1, st2] ++ post) = true)
    (hok : (pre ++ [st1, st2] ++ post).all importOK = true)
    (hi1 : isImport st1 = true) (hi2 : isImport st2 = true)
    (hdisj : ∀ x ∈ stmtAtoms st1, ∀ y ∈ stmtAtoms st2, x.bound ≠ y.bound)
    (hinv : MInv s0) (hF : needSs (pre ++ [st1, st2] ++ post) ≤ F) :
    SameRun (runProgram F (pre ++ [st1, st2] ++ post) [] s0) (runProgram F (pre ++ [st2, st1] ++ post) [] s0) := by
  have hok' : (pre ++ [st2, st1] ++ post).all importOK = true := by
    simp only [List.all_append, List.all_cons, List.all_nil, Bool.and_true, Bool.and_eq_true] at hok ⊢
    exact ⟨⟨hok.1.1, hok.1.2.2, hok.1.2.1⟩, hok.2⟩
  have hF' : needSs (pre ++ [st2, st1] ++ post) ≤ F := by
    have e1 := needSs_append (pre ++ [st1, st2]) post
    have e2 := needSs_append pre [st1, st2]
    have e1' := needSs_append (pre ++ [st2, st1]) post
    have e2' := needSs_append pre [st2, st1]
    simp only [needSs] at e2 e2'
    omega
  refine reorder_core D pre [st1, st2] [st2, st1] post s0 F hfr hok hok' (by simp [hi1, hi2]) (by simp [hi1, hi2])
    ?_ ?_ hinv hF hF'
  · intro g
    simp only [blockAtoms, List.flatMap_cons, List.flatMap_nil, List.append_nil]
    exact foldl_aStep_swap _ _ g hdisj
  · intro _ d
    simp only [blockLoads, List.flatMap_cons, List.flatMap_nil, List.append_nil, List.contains_append]
    exact Bool.or_comm _ _

/-- **(b)** dropping an alias that is shadowed by a later alias of the same bound name in the same block
    (with dotted reads in the program: provided the block still loads the same modules) -/
theorem C02_drop_shadowed_equiv_fragB (D : Bool) (pre blk blk' post : List Stmt) (s0 : XState) (F : Nat)
    (A B : List Atom) (x : Atom)
    (hfr : fragB D (pre ++ blk ++ post) = true)
    (hok : (pre ++ blk ++ post).all importOK = true) (hok' : (pre ++ blk' ++ post).all importOK = true)
    (hblk : blk.all isImport = true) (hblk' : blk'.all isImport = true)
    (hat : blockAtoms blk = A ++ x :: B) (hat' : blockAtoms blk' = A ++ B)
    (hsh : ∃ y ∈ B, y.bound = x.bound)
    (hL : D = true → ∀ d, (blockLoads blk).contains d = (blockLoads blk').contains d)
    (hinv : MInv s0) (hF : needSs (pre ++ blk ++ post) ≤ F) (hF' : needSs (pre ++ blk' ++ post) ≤ F) :
    SameRun (runProgram F (pre ++ blk ++ post) [] s0) (runProgram F (pre ++ blk' ++ post) [] s0) := by
  refine reorder_core D pre blk blk' post s0 F hfr hok hok' hblk hblk' ?_ hL hinv hF hF'
  intro g
  rw [hat, hat']
  simp only [List.foldl_append, List.foldl_cons]
  exact foldl_aStep_shadow x B _ hsh

/-- **(c)** splitting / merging `from m import a, b` ↔ `from m import a; from m import b` (any source lines) -/
theorem C02_split_from_equiv_fragB (D : Bool) (pre post : List Stmt) (m : Str) (as bs : List Alias) (l l1 l2 : Nat)
    (s0 : XState) (F : Nat)
    (hfr : fragB D (pre ++ [Stmt.located l (.importFrom m (as ++ bs))] ++ post) = true)
    (hok : (pre ++ [Stmt.located l (.importFrom m (as ++ bs))] ++ post).all importOK = true)
    (hinv : MInv s0)
    (hF : needSs (pre ++ [Stmt.located l (.importFrom m (as ++ bs))] ++ post) ≤ F)
    (hF' : needSs (pre ++ [Stmt.located l1 (.importFrom m as), Stmt.located l2 (.importFrom m bs)] ++ post) ≤ F) :
    SameRun (runProgram F (pre ++ [Stmt.located l (.importFrom m (as ++ bs))] ++ post) [] s0)
      (runProgram F (pre ++ [Stmt.located l1 (.importFrom m as), Stmt.located l2 (.importFrom m bs)] ++ post) [] s0) := by
  have hok' : (pre ++ [Stmt.located l1 (.importFrom m as), Stmt.located l2 (.importFrom m bs)] ++ post).all importOK = true := by
    simp only [List.all_append, List.all_cons, List.all_nil, Bool.and_true, Bool.and_eq_true, importOK] at hok ⊢
    exact ⟨⟨hok.1.1, ⟨hok.1.2.1, hok.1.2.2.1⟩, ⟨hok.1.2.1, hok.1.2.2.2⟩⟩, hok.2⟩
  refine reorder_core D pre _ _ post s0 F hfr hok hok' (by simp [isImport]) (by simp [isImport]) ?_ ?_ hinv hF hF'
  · intro g
    simp [blockAtoms, stmtAtoms]
  · intro _ d
    simp only [blockLoads, stmtLoads, List.flatMap_cons, List.flatMap_nil, List.append_nil, List.contains_append,
      List.flatMap_append]
    cases (chainLoads [] (splitDots m)).contains d <;> simp

/-! ## 11. the abstract semantics `Sem` of `Pfb.C02.Props`, instantiated by `Exec` -/

/-- the `Import` (fullname, import_as) of an alias, as pyflyby's `ImportSet` keys it -/
def impOf : Atom → Blocks.Imp
  | .plain a => ⟨a.name, match a.asname with | some n => n | none => a.name⟩
  | .from_ m a => ⟨m ++ '.' :: a.name, aliasBinds a⟩

/-- **the instance of `Sem` extracted from `Exec`**: a plain `import a.b.c` binds the top package, every other
    import binds the member (the universal dummy) or the sub-module named by `fullname` -/
def execSem : Sem AVal where
  starNames := fun _ => []
  obj := fun i n =>
    if i.importAs = i.fullname then .mod (some n)
    else if universeMembers.contains ((splitDots i.fullname).getLastD []) then .opq
    else .mod (some i.fullname)

/-- the alias names are identifiers (what `importAliasOK` / `fromAliasOK` of fragment B demand) -/
def Atom.wf : Atom → Bool
  | .plain a => match a.asname with | some n => simpleName n | none => true
  | .from_ _ a => simpleName a.name && (match a.asname with | some n => simpleName n | none => true)

theorem blocks_splitDots (d : Str) : Blocks.splitDots d = splitDots d := by
  induction d with
  | nil => rfl
  | cons c cs ih =>
    simp only [Blocks.splitDots, splitDots, ih]
    by_cases hc : c = '.'
    · simp [hc]
    · simp only [hc, if_false]
      cases splitDots cs <;> rfl

theorem inUniverse_last_not_member {parts : List Str} (h : inUniverse parts = true) :
    universeMembers.contains (parts.getLastD []) = false := by
  cases parts with
  | nil => simp [inUniverse] at h
  | cons r ps =>
    simp only [inUniverse, Bool.and_eq_true, List.all_eq_true] at h
    cases ps with
    | nil =>
      have := h.1
      simp only [universeRoots, List.contains_cons, List.contains_nil, Bool.or_false, Bool.or_eq_true, beq_iff_eq] at this
      rcases this with rfl | rfl <;> decide
    | cons q qs =>
      have hmem : (r :: q :: qs).getLastD [] ∈ q :: qs := by
        rw [List.getLastD_eq_getLast?]
        have : (r :: q :: qs).getLast? = (q :: qs).getLast? := by simp [List.getLast?_cons_cons]
        rw [this, List.getLast?_eq_some_getLast (by simp)]
        exact List.getLast_mem _
      exact isSubmodName_not_member (h.2 _ hmem)

theorem boundName_simple {i : Blocks.Imp} {b : Str} (hb : simpleName b = true) (h : i.importAs = b) :
    Blocks.isStar i = false ∧ boundName i = b := by
  constructor
  · simp only [Blocks.isStar, h, decide_eq_false_iff_not]; exact simpleName_ne_star hb
  · simp [boundName, h, blocks_splitDots, simpleName_split hb]

/-- `Sem`'s step on the `Import` of an alias is the step `Exec` makes on the alias -/
theorem execOne_impOf (x : Atom) (hok : x.ok = true) (hwf : x.wf = true) (g : Str → Option AVal) :
    execOne execSem g (impOf x) = aStep g x := by
  have key : ∀ (i : Blocks.Imp) (b : Str) (v : AVal), Blocks.isStar i = false → boundName i = b →
      execSem.obj i b = v → ∀ k, execOne execSem g i k = if k = b then some v else g k := by
    intro i b v h1 h2 h3 k
    simp only [execOne, binds, h1, Bool.false_eq_true, if_false, h2, decide_eq_true_eq]
    by_cases hk : b = k
    · subst hk; simp [h3]
    · have : ¬ k = b := fun e => hk e.symm
      simp [hk, this]
  funext k
  cases x with
  | plain a =>
    simp only [Atom.ok] at hok
    simp only [Atom.wf] at hwf
    cases has : a.asname with
    | none =>
      have hns : a.name ≠ ['*'] := by
        intro e; rw [e] at hok; revert hok; decide
      have h1 : Blocks.isStar (impOf (.plain a)) = false := by
        simp [impOf, has, Blocks.isStar, hns]
      have h2 : boundName (impOf (.plain a)) = aliasBinds a := by
        simp [impOf, has, boundName, blocks_splitDots, aliasBinds]
      rw [key _ _ (.mod (some (aliasBinds a))) h1 h2 (by simp [execSem, impOf, has])]
      simp [aStep, Atom.bound, Atom.val, has]
    | some n =>
      rw [has] at hwf
      obtain ⟨h1, h2⟩ := boundName_simple (i := impOf (.plain a)) hwf (by simp [impOf, has])
      have hb : aliasBinds a = n := by simp [aliasBinds, has]
      rw [key _ _ (.mod (some a.name)) h1 h2 ?_]
      · simp [aStep, Atom.bound, Atom.val, has, hb]
      · simp only [execSem, impOf, has]
        by_cases hn : n = a.name
        · simp [hn]
        · have hm := inUniverse_last_not_member hok
          simp only [hn, if_false, hm, Bool.false_eq_true]
  | from_ m a =>
    simp only [Atom.ok, Bool.and_eq_true] at hok
    simp only [Atom.wf, Bool.and_eq_true] at hwf
    have hbs : simpleName (aliasBinds a) = true := by
      cases has : a.asname with
      | none => simp [aliasBinds, has, simpleName_split hwf.1]; exact hwf.1
      | some n => have := hwf.2; rw [has] at this; simpa [aliasBinds, has] using this
    obtain ⟨h1, h2⟩ := boundName_simple (i := impOf (.from_ m a)) hbs rfl
    have hne : aliasBinds a ≠ m ++ '.' :: a.name := by
      intro e
      have := simpleName_dotFree hbs
      rw [e] at this; simp at this
    have hlast := (child_parent m a.name (simpleName_dotFree hwf.1)).2
    rw [key _ _ (Atom.from_ m a).val h1 h2 ?_]
    · rfl
    · simp only [execSem, impOf, hne, if_false, hlast, Atom.val]

theorem foldl_bridge : ∀ (A : List Atom) (g : Str → Option AVal), (∀ x ∈ A, x.ok = true ∧ x.wf = true) →
    (A.map impOf).foldl (execOne execSem) g = A.foldl aStep g
  | [], _, _ => rfl
  | x :: A, g, h => by
    simp only [List.map_cons, List.foldl_cons]
    rw [execOne_impOf x (h x (by simp)).1 (h x (by simp)).2 g]
    exact foldl_bridge A _ (fun y hy => h y (by simp [hy]))

theorem stmtAtoms_ok : ∀ (st : Stmt), importOK st = true → ∀ x ∈ stmtAtoms st, x.ok = true
  | .import_ names, h, x, hx => by
    simp only [stmtAtoms, List.mem_map] at hx
    obtain ⟨a, ha, rfl⟩ := hx
    simp only [importOK, List.all_eq_true] at h
    exact h a ha
  | .importFrom m names, h, x, hx => by
    simp only [stmtAtoms, List.mem_map] at hx
    obtain ⟨a, ha, rfl⟩ := hx
    simp only [importOK, Bool.and_eq_true, List.all_eq_true] at h
    exact h.2 a ha
  | .located _ st, h, x, hx => stmtAtoms_ok st h x hx
  | .expr _, _, _, hx => by cases hx
  | .assign _ _, _, _, hx => by cases hx
  | .augAssign _ _, _, _, hx => by cases hx
  | .annAssign _ _ _, _, _, hx => by cases hx
  | .funcDef _ _ _ _ _, _, _, hx => by cases hx
  | .classDef _ _ _ _, _, _, hx => by cases hx
  | .for_ _ _ _ _, _, _, hx => by cases hx
  | .while_ _ _ _, _, _, hx => by cases hx
  | .if_ _ _ _, _, _, hx => by cases hx
  | .with_ _ _, _, _, hx => by cases hx
  | .try_ _ _ _ _, _, _, hx => by cases hx
  | .return_ _, _, _, hx => by cases hx
  | .pass, _, _, hx => by cases hx
  | .raise_ _, _, _, hx => by cases hx
  | .delete _, _, _, hx => by cases hx
  | .global_ _, _, _, hx => by cases hx
  | .nonlocal_ _, _, _, hx => by cases hx

theorem blockAtoms_ok (blk : List Stmt) (h : blk.all importOK = true) : ∀ x ∈ blockAtoms blk, x.ok = true := by
  intro x hx
  simp only [blockAtoms, List.mem_flatMap] at hx
  obtain ⟨st, hst, hx⟩ := hx
  exact stmtAtoms_ok st (List.all_eq_true.mp h st hst) x hx

/-- **C02_reorder_equiv_fragB.**  Fragment-B programs `pre ++ blk ++ post` and `pre ++ blk' ++ post` whose imports all
    succeed in the universe; `blk`, `blk'` are import statements and the aliases of `blk'` are a permutation of pyflyby's
    de-duplication (`fromImportsShadow`: the last alias per `import_as` wins) of the aliases of `blk`; the block is
    `Consistent` for the semantics extracted from `Exec` (two aliases that bind one name under different keys bind
    the same object); with dotted reads in the program the two blocks load the same modules.  Then the two runs raise
    the same NameErrors and AttributeErrors, end with the same outcome and with the same globals. -/
theorem C02_reorder_equiv_fragB (D : Bool) (pre blk blk' post : List Stmt) (s0 : XState) (F : Nat)
    (hfr : fragB D (pre ++ blk ++ post) = true)
    (hok : (pre ++ blk ++ post).all importOK = true) (hok' : (pre ++ blk' ++ post).all importOK = true)
    (hblk : blk.all isImport = true) (hblk' : blk'.all isImport = true)
    (hwf : (blockAtoms blk).all Atom.wf = true) (hwf' : (blockAtoms blk').all Atom.wf = true)
    (hperm : ((blockAtoms blk').map impOf).Perm (Blocks.fromImportsShadow ((blockAtoms blk).map impOf)))
    (hcons : Consistent execSem ((blockAtoms blk).map impOf))
    (hL : D = true → ∀ d, (blockLoads blk).contains d = (blockLoads blk').contains d)
    (hinv : MInv s0) (hF : needSs (pre ++ blk ++ post) ≤ F) (hF' : needSs (pre ++ blk' ++ post) ≤ F) :
    SameRun (runProgram F (pre ++ blk ++ post) [] s0) (runProgram F (pre ++ blk' ++ post) [] s0) := by
  refine reorder_core D pre blk blk' post s0 F hfr hok hok' hblk hblk' ?_ hL hinv hF hF'
  intro g
  have o1 := blockAtoms_ok blk (by simp only [List.all_append, Bool.and_eq_true] at hok; exact hok.1.2)
  have o2 := blockAtoms_ok blk' (by simp only [List.all_append, Bool.and_eq_true] at hok'; exact hok'.1.2)
  rw [← foldl_bridge _ g (fun x hx => ⟨o1 x hx, List.all_eq_true.mp hwf x hx⟩),
    ← foldl_bridge _ g (fun x hx => ⟨o2 x hx, List.all_eq_true.mp hwf' x hx⟩)]
  exact (C02_block_env_exec execSem _ _ hperm hcons g).symm

/-! ## 12. witness (the D10 family in `Exec`) and non-vacuity -/

/-- a sufficient, checkable condition for `Consistent`: no star imports, and aliases that bind the same name have
    the same `import_as` key -/
theorem consistent_of_keys {Obj} (sem : Sem Obj) (L : List Blocks.Imp) (hs : ∀ i ∈ L, Blocks.isStar i = false)
    (hk : ∀ i ∈ L, ∀ j ∈ L, boundName i = boundName j → i.importAs = j.importAs) : Consistent sem L := by
  intro i hi j hj n bi bj hor
  rcases hor with h | h | h
  · rw [hs i hi] at h; cases h
  · rw [hs j hj] at h; cases h
  · exfalso; apply h; apply hk i hi j hj
    simp only [binds, hs i hi, hs j hj, Bool.false_eq_true, if_false, decide_eq_true_eq] at bi bj
    rw [bi, bj]

/-- name of the module a global is bound to (decidable observation used by the witness) -/
def modNameOf (s : XState) (n : Str) : Option Str :=
  match assocGet n s.globals with
  | some (.mod i) => nm s.mods i
  | _ => none

theorem modNameOf_absG (s : XState) (n : Str) :
    modNameOf s n = match absG s n with | some (.mod x) => x | _ => none := by
  unfold modNameOf absG
  cases assocGet n s.globals with
  | none => rfl
  | some v => cases v <;> rfl

section Examples
private def al (n : String) (as : Option String := none) : Alias := ⟨n.toList, as.map String.toList⟩
private def rd (n : String) : Stmt := .expr (.name n.toList)

/-- `import pb as pa` / `import pa.s1` -/
def wOrig : List Stmt := [.located 1 (.import_ [al "pb" (some "pa")]), .located 2 (.import_ [al "pa.s1"])]
/-- what `reformat-imports` emits (sorted): `import pa.s1` / `import pb as pa` -/
def wSorted : List Stmt := [.located 1 (.import_ [al "pa.s1"]), .located 2 (.import_ [al "pb" (some "pa")])]
def wPost : List Stmt := [.located 3 (rd "pa")]

/-- the rewritten block IS a permutation of the de-duplicated original (nothing is shadowed by key) … -/
theorem witness_d10_perm :
    ((blockAtoms wSorted).map impOf).Perm (Blocks.fromImportsShadow ((blockAtoms wOrig).map impOf)) := by
  have : Blocks.fromImportsShadow ((blockAtoms wOrig).map impOf) = (blockAtoms wOrig).map impOf := by decide
  rw [this]; exact List.Perm.swap _ _ _

/-- … every other hypothesis of `C02_reorder_equiv_fragB` holds … -/
theorem witness_d10_hyps :
    fragB true ([] ++ wOrig ++ wPost) = true ∧ ([] ++ wOrig ++ wPost).all importOK = true ∧
    ([] ++ wSorted ++ wPost).all importOK = true ∧ wOrig.all isImport = true ∧ wSorted.all isImport = true ∧
    (blockAtoms wOrig).all Atom.wf = true ∧ (blockAtoms wSorted).all Atom.wf = true ∧
    needSs ([] ++ wOrig ++ wPost) ≤ 30 ∧ needSs ([] ++ wSorted ++ wPost) ≤ 30 := by decide

/-- … **but without `Consistent` the conclusion fails in `Exec` too**: after the original `pa` is the package `pa`,
    after the sorted block it is `pb`. -/
theorem witness_d10_exec :
    modNameOf (runProgram 30 ([] ++ wOrig ++ wPost) [] {}).1 "pa".toList = some "pa".toList ∧
    modNameOf (runProgram 30 ([] ++ wSorted ++ wPost) [] {}).1 "pa".toList = some "pb".toList := by decide +kernel

theorem witness_d10_not_same :
    ¬ SameRun (runProgram 30 ([] ++ wOrig ++ wPost) [] {}) (runProgram 30 ([] ++ wSorted ++ wPost) [] {}) := by
  intro h
  have h1 := modNameOf_absG (runProgram 30 ([] ++ wOrig ++ wPost) [] {}).1 "pa".toList
  have h2 := modNameOf_absG (runProgram 30 ([] ++ wSorted ++ wPost) [] {}).1 "pa".toList
  rw [h.2.2.2, ← h2, witness_d10_exec.1, witness_d10_exec.2] at h1
  revert h1; decide

/-- the empty start state satisfies the invariant -/
theorem minv_empty : MInv {} := MInv.init {} rfl rfl (fun n v h => by cases h)

/-! non-vacuity of (a): `x = _K` / `import pa.s1` / `from pb import m1 as f, s2` / `pa.s1` / `f` / `zz` (NameError) -/
private def exPre : List Stmt := [.located 1 (.assign [.name "x".toList] .const)]
private def exS1 : Stmt := .located 2 (.import_ [al "pa.s1"])
private def exS2 : Stmt := .located 3 (.importFrom "pb".toList [al "m1" (some "f"), al "s2"])
private def exPost : List Stmt := [.located 4 (.expr (.attr (.name "pa".toList) "s1".toList)), .located 5 (rd "f"),
  .located 6 (rd "zz")]

example : fragB true (exPre ++ [exS1, exS2] ++ exPost) = true ∧
    (exPre ++ [exS1, exS2] ++ exPost).all importOK = true ∧ isImport exS1 = true ∧ isImport exS2 = true ∧
    (∀ x ∈ stmtAtoms exS1, ∀ y ∈ stmtAtoms exS2, x.bound ≠ y.bound) ∧
    needSs (exPre ++ [exS1, exS2] ++ exPost) ≤ 40 := by decide
example : (runProgram 40 (exPre ++ [exS1, exS2] ++ exPost) [] {}).1.ne = ["zz".toList] ∧
    (runProgram 40 (exPre ++ [exS2, exS1] ++ exPost) [] {}).1.ne = ["zz".toList] := by decide +kernel

/-! non-vacuity of the general theorem (and of (b)): `from pa import m1 as f` / `from pb import m2 as f` / `import pa.s1 as q`
    is rewritten to `import pa.s1 as q` / `from pb import m2 as f` -/
private def exB : List Stmt := [.located 1 (.importFrom "pa".toList [al "m1" (some "f")]),
  .located 2 (.importFrom "pb".toList [al "m2" (some "f")]), .located 3 (.import_ [al "pa.s1" (some "q")])]
private def exB' : List Stmt := [.located 1 (.import_ [al "pa.s1" (some "q")]),
  .located 2 (.importFrom "pb".toList [al "m2" (some "f")])]
private def exPostB : List Stmt := [.located 4 (rd "f"), .located 5 (rd "q")]

example : fragB false ([] ++ exB ++ exPostB) = true ∧ ([] ++ exB ++ exPostB).all importOK = true ∧
    ([] ++ exB' ++ exPostB).all importOK = true ∧ exB.all isImport = true ∧ exB'.all isImport = true ∧
    (blockAtoms exB).all Atom.wf = true ∧ (blockAtoms exB').all Atom.wf = true ∧
    needSs ([] ++ exB ++ exPostB) ≤ 40 ∧ needSs ([] ++ exB' ++ exPostB) ≤ 40 := by decide
example : ((blockAtoms exB').map impOf).Perm (Blocks.fromImportsShadow ((blockAtoms exB).map impOf)) := by
  have : Blocks.fromImportsShadow ((blockAtoms exB).map impOf) =
      [impOf (.from_ "pb".toList (al "m2" (some "f"))), impOf (.plain (al "pa.s1" (some "q")))] := by decide
  rw [this]; exact List.Perm.swap _ _ _
example : Consistent execSem ((blockAtoms exB).map impOf) :=
  consistent_of_keys _ _ (by decide) (by decide)
/-- hypotheses of (b) on the same block: the first alias is shadowed by the second -/
example : blockAtoms exB = [] ++ Atom.from_ "pa".toList (al "m1" (some "f")) ::
      [Atom.from_ "pb".toList (al "m2" (some "f")), Atom.plain (al "pa.s1" (some "q"))] ∧
    (∃ y ∈ [Atom.from_ "pb".toList (al "m2" (some "f")), Atom.plain (al "pa.s1" (some "q"))],
      y.bound = (Atom.from_ "pa".toList (al "m1" (some "f"))).bound) :=
  ⟨rfl, Atom.from_ "pb".toList (al "m2" (some "f")), .head _, by decide⟩

end Examples

end Pfb.C02
