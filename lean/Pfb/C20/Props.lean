/-
  C20 — Name analysis has no side effects on user objects.

  Model: `Pfb.PyCore.Scope` (`symbol_needs_import` with an explicit effect log) and `Pfb.PyCore.Analyze`
  (`_MissingImportFinder` as a sequence of primitive visitor actions).  Every `getattr`, truth test, `==`, `hash`,
  import and dict write/delete those code paths can perform on/with a namespace value is a constructor of `Effect`.

  Outside the quantifier (stated in the property): the `__class__` lookup that `isinstance(var, _UseChecker)` may
  perform, and `repr` under debug logging.
-/
import Pfb.PyCore.AnalyzeLemmas
namespace Pfb.C20
open Pfb Pfb.PyCore

/-- **C20_symbol_effects.**  For every registry (`sys.modules` + attribute tables), heap of namespaces, stack and
    dotted name: each effect of `symbol_needs_import` is `getattr(m, part)` with `m` identical to the registry entry
    of a dotted prefix `parts[:k]` (k ≥ 1) of the name and `part = parts[k]`.  Nothing else is touched. -/
theorem C20_symbol_effects (reg : Registry) (heap : Heap) (ids : List Nat) (fullname : Str) :
    ∀ e ∈ (symbolNeedsImport reg heap ids fullname).2,
      ∃ v k a, e = .getattr v (joinDots ((splitDots fullname).take k)) a ∧ 0 < k ∧
        (splitDots fullname)[k]? = some a ∧ reg.get (joinDots ((splitDots fullname).take k)) = some v :=
  symbolNeedsImport_effects reg heap ids fullname

/-- **C20_effects.**  For the unchanged code (`fx = {}`) and for the code carrying any of the proposed C05 repairs:
    for every program, registry, builtins and caller namespaces, every effect logged by the whole
    analysis (`find_missing_imports` on source) is one of
    * `getattr(v, part)` with `v` identical to `sys.modules[pname]` for the dotted name `pname` it was reached under,
    * `bool(None)` (the truth test of `_NewScopeCtx` on the values of the scope it pops),
    * a dict write / delete in a private scope (heap id ≥ 3 + number of caller namespaces, or `_class_delayed`).
    There is no `==`, no `hash`, no import, no truth test of a caller's value. -/
theorem C20_effects (fx : Fixes) (reg : Registry) (builtins : Scope) (ns : List Scope) (prog : List Stmt) :
    ∀ e ∈ (analyzeFx fx reg builtins ns prog).log, EffectOK reg (3 + ns.length) e :=
  (inv_analyzeFx fx reg builtins ns prog).log

/-- the same, spelled out constructor by constructor -/
theorem C20_effects_cases (fx : Fixes) (reg : Registry) (builtins : Scope) (ns : List Scope) (prog : List Stmt)
    (e : Effect) (he : e ∈ (analyzeFx fx reg builtins ns prog).log) :
    (∀ v, e ≠ .eq v) ∧ (∀ v, e ≠ .hash v) ∧ (∀ m, e ≠ .importMod m) ∧
    (∀ v, e = .truth v → v = .none) ∧
    (∀ v p a, e = .getattr v p a → reg.get p = some v) ∧
    (∀ i k, e = .nsWrite i k → i = delayedId ∨ 3 + ns.length ≤ i) ∧
    (∀ i k, e = .nsDel i k → 3 + ns.length ≤ i) := by
  have h := C20_effects fx reg builtins ns prog e he
  cases e <;> simp_all [EffectOK]

/-- **C20_readonly.**  After the analysis every caller namespace (heap cells 3 … 3+k-1), the builtins namespace
    (cell 0) and `_builtins2` (cell 1) are exactly what was passed in: all writes went to the private top scope
    pushed by `__init__`, to scopes created during the visit, or to `_class_delayed`. -/
theorem C20_readonly (fx : Fixes) (reg : Registry) (builtins : Scope) (ns : List Scope) (prog : List Stmt) :
    (∀ i, i < ns.length → (analyzeFx fx reg builtins ns prog).heap.get (3 + i) = ns.getD i {}) ∧
    (analyzeFx fx reg builtins ns prog).heap.get 0 = builtins ∧
    (analyzeFx fx reg builtins ns prog).heap.get 1 = { items := [("__file__".toList, Val.none)] } := by
  have h := inv_analyzeFx fx reg builtins ns prog
  refine ⟨?_, ?_, ?_⟩
  · intro i hi
    rw [h.user (3 + i) (by omega) (by unfold delayedId; omega)]
    exact initHeap_user builtins ns i hi
  · rw [h.user 0 (by omega) (by unfold delayedId; omega)]; rfl
  · rw [h.user 1 (by omega) (by unfold delayedId; omega)]; rfl

/-! ### the statements are not vacuous: a concrete analysis with effects of every produced kind -/

section Example
def exReg : Registry :=
  { mods := [("pa".toList, .obj 5), ("pa.s1".toList, .obj 6)], attrs := [(.obj 5, "s1".toList, .obj 6)] }
def exNs : List Scope := [{ items := [("pa".toList, .obj 5), ("q".toList, .obj 7)] }]
/-- `pa.s1.x` ; `q.s1` ; `def f(a=pa.zz): k = 1` -/
def exProg : List Stmt :=
  [.located 1 (.expr (.attr (.attr (.name "pa".toList) "s1".toList) "x".toList)),
   .located 2 (.expr (.attr (.name "q".toList) "s1".toList)),
   .located 3 (.funcDef "f".toList (.mk [.mk "a".toList none] [.attr (.name "pa".toList) "zz".toList] none [] [] none)
      [.located 4 (.assign [.name "k".toList] .const)] [] none)]

example : (analyze exReg {} exNs exProg).log =
    [.getattr (.obj 5) "pa".toList "s1".toList, .getattr (.obj 6) "pa.s1".toList "x".toList,
     .getattr (.obj 5) "pa".toList "zz".toList, .nsWrite 5 "a".toList,
     .nsWrite 6 "f".toList, .nsWrite 6 "k".toList, .truth .none, .truth .none, .truth .none,
     .nsWrite 4 "f".toList] := by decide
example : findMissing exReg {} exNs exProg = ["pa.s1.x".toList, "pa.zz".toList] := by decide
example : (symbolNeedsImport exReg (initState {} exNs).heap [3] "q.s1.t".toList) = (false, []) := by decide
end Example

end Pfb.C20
