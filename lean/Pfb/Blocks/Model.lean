/-
  Pfb.Blocks.Model — model of `SourceToSourceFileImportsTransformation`
  (lib/python/pyflyby/_imports2s.py:105-300) and of the second stage of
  `fix_unused_and_missing_imports` (lines ~390-470): grouping statements into
  import / non-import blocks, removing unused imports by (import, line), adding
  missing and mandatory imports (block selection by closest prefix match, new
  block after the comment/docstring prologue).

  Inputs that come from other parts of pyflyby are parameters: the statement
  pieces (C10), the scan result (missing / unused; C05), the database.
  Rendering of an import block to text (C11) is not part of this model: the
  model's result is the block structure (verbatim statements in order, import
  sets), which is what the correspondence check compares.
-/
import Pfb.Basic
namespace Pfb.Blocks
open Pfb

structure Imp where
  fullname : Str
  importAs : Str
deriving DecidableEq, Repr, Inhabited

inductive SKind where
  | comment    -- is_comment_or_blank
  | docstr     -- a `str` literal expression statement
  | other
deriving DecidableEq, Repr, Inhabited

/-- A `PythonStatement` of the (reformatted) input. -/
structure Stmt where
  text : Str
  kind : SKind
  isImport : Bool
  imports : List Imp     -- imports of the statement, in source order (if `isImport`)
  line : Nat             -- startpos.lineno
  col : Nat := 1         -- startpos.colno
deriving DecidableEq, Repr, Inhabited

inductive Block where
  /-- `SourceToSourceTransformation`: emitted verbatim.  `inserted` marks the
      separator / terminator blocks the tool itself creates (`"\n"`). -/
  | verbatim (stmts : List Stmt) (inserted : Bool)
  /-- `SourceToSourceImportBlockTransformation` -/
  | imports (id startLine lastLine endLine : Nat) (blank : Bool) (set : List Imp)
deriving Repr, Inhabited

structure St where
  blocks : List Block
  order : List Nat        -- `import_blocks` (ids), new blocks are inserted at index 0
  nextId : Nat
  /-- ids of import blocks that share their first line with a preceding statement
      and extend past that line: rendered as "\n" when all their imports are gone
      (`SourceToSourceImportBlockTransformation.pretty_print`) -/
  nlIfEmpty : List Nat := []
deriving Repr, Inhabited

inductive Err where
  | lineNumberAmbiguous
  | multipleImportsToRemove
  | importAlreadyExists
deriving DecidableEq, Repr

/-! ### Import sets -/

def isStar (i : Imp) : Bool := i.importAs = ['*']

/-- `ImportSet._from_imports(imports, ignore_shadowed=True)`: later imports with the
    same `import_as` replace earlier ones; distinct star imports are all kept. -/
def addShadow (acc : List Imp) (i : Imp) : List Imp :=
  if isStar i then (if i ∈ acc then acc else acc ++ [i])
  else if acc.any (fun j => !isStar j && j.importAs = i.importAs) then
    acc.map (fun j => if !isStar j && j.importAs = i.importAs then i else j)
  else acc ++ [i]

def fromImportsShadow (is : List Imp) : List Imp := is.foldl addShadow []

/-- set union with one import (`with_imports`) -/
def withImport (s : List Imp) (i : Imp) : List Imp := if i ∈ s then s else s ++ [i]

def splitDots : Str → List Str
  | [] => [[]]
  | c :: cs =>
    if c = '.' then [] :: splitDots cs
    else match splitDots cs with
      | [] => [[c]]
      | l :: ls => (c :: l) :: ls

def commonPrefixLen : List Str → List Str → Nat
  | a :: as, b :: bs => if a = b then 1 + commonPrefixLen as bs else 0
  | _, _ => 0

/-- `len(imp.prefix_match(oimp))` -/
def prefixMatch (a b : Imp) : Nat := commonPrefixLen (splitDots a.fullname) (splitDots b.fullname)

def futurePrefix : Str := "__future__.".toList

/-- `imp.split.module_name == '__future__'` -/
def isFuture (i : Imp) : Bool :=
  i.importAs ≠ i.fullname && futurePrefix.isPrefixOf i.fullname &&
  !((i.fullname.drop futurePrefix.length).contains '.') && (i.fullname.drop futurePrefix.length) ≠ []

/-! ### preprocess: `groupby(is_import)` -/

def countNl (s : Str) : Nat := s.count '\n'

def stmtsText (ss : List Stmt) : Str := (ss.map (·.text)).flatten

def mkImportBlock (id : Nat) (ss : List Stmt) : Block :=
  let t := stmtsText ss
  let start := (ss.head?.map (·.line)).getD 1
  let endLine := start + countNl t
  let last := if t.getLast? = some '\n' ∧ endLine > start then endLine - 1 else endLine
  .imports id start last endLine (t.all isPySpace) (fromImportsShadow (ss.flatMap (·.imports)))

/-- group consecutive statements with the same `isImport` flag -/
def groupRuns : List Stmt → List (Bool × List Stmt)
  | [] => []
  | s :: rest =>
    match groupRuns rest with
    | (b, g) :: gs => if b = s.isImport then (b, s :: g) :: gs else (s.isImport, [s]) :: (b, g) :: gs
    | [] => [(s.isImport, [s])]

def buildBlocks : Nat → List (Bool × List Stmt) → List Block × List Nat
  | _, [] => ([], [])
  | n, (true, g) :: gs =>
    let (bs, ids) := buildBlocks (n + 1) gs
    (mkImportBlock n g :: bs, n :: ids)
  | n, (false, g) :: gs =>
    let (bs, ids) := buildBlocks n gs
    (.verbatim g false :: bs, ids)

/-- ids (in `buildBlocks` numbering) of the import runs that start mid-line and contain a newline -/
def midlineIds : Nat → List (Bool × List Stmt) → List Nat
  | _, [] => []
  | n, (true, g) :: gs =>
    let rest := midlineIds (n + 1) gs
    if (g.head?.map (·.col)).getD 1 ≠ 1 ∧ (stmtsText g).contains '\n' then n :: rest else rest
  | n, (false, _) :: gs => midlineIds n gs

def preprocess (ss : List Stmt) : St :=
  let (bs, ids) := buildBlocks 0 (groupRuns ss)
  { blocks := bs, order := ids, nextId := ids.length, nlIfEmpty := midlineIds 0 (groupRuns ss) }

/-! ### remove_import -/

def blockHasLine (lineno : Nat) : Block → Bool
  | .imports _ s l _ _ _ => s ≤ lineno && lineno ≤ l
  | _ => false

def blockId : Block → Option Nat
  | .imports id .. => some id
  | _ => none

def setOf : Block → List Imp
  | .imports _ _ _ _ _ s => s
  | _ => []

def updSet (id : Nat) (f : List Imp → List Imp) : List Block → List Block
  | [] => []
  | .imports i s l e b set :: bs =>
    if i = id then .imports i s l e b (f set) :: bs else .imports i s l e b set :: updSet id f bs
  | b :: bs => b :: updSet id f bs

/-- `remove_import(imp, lineno)`: `none` = nothing removed (LineNumberNotFoundError /
    NoSuchImportError, both logged and ignored by the caller). -/
def removeImport (st : St) (imp : Imp) (lineno : Nat) : Except Err St :=
  match st.blocks.filter (blockHasLine lineno) with
  | [] => .ok st
  | [b] =>
    match (setOf b).filter (fun j => j.importAs = imp.importAs) with
    | [] => .ok st
    | [j] => .ok { st with blocks := updSet ((blockId b).getD 0) (fun s => s.filter (· ≠ j)) st.blocks }
    | _ => .error .multipleImportsToRemove
  | _ => .error .lineNumberAmbiguous

/-! ### add_import -/

/-- `_last_lineno(block.input) < max_lineno or not block.input.text.joined.strip()` (`Inf` = `none`) -/
def lineOk (blank : Bool) (l : Nat) : Option Nat → Bool
  | none => true
  | some m => blank || decide (l < m)

/-- a block is a candidate for `imp`: it ends early enough (or is empty), and a `__future__` import only joins a
    block that already holds one (`import __future__` is an ordinary import) -/
def candOk (imp : Imp) (blank : Bool) (l : Nat) (maxLine : Option Nat) (set : List Imp) : Bool :=
  lineOk blank l maxLine && (!isFuture imp || set.any isFuture)

/-- candidates in `import_blocks` order with their sort key -/
def candidates (st : St) (imp : Imp) (maxLine : Option Nat) : List ((Nat × Nat) × Nat) :=
  st.order.filterMap fun id =>
    match st.blocks.find? (fun b => blockId b = some id) with
    | some (.imports _ _ l e blank set) =>
      if candOk imp blank l maxLine set then some (((set.map (prefixMatch imp)).foldl max 0, e), id) else none
    | _ => none

def keyLe (a b : Nat × Nat) : Bool := a.1 < b.1 || (a.1 = b.1 && a.2 ≤ b.2)

/-- last maximal element under the (stable, ascending) sort by key -/
def pickBest : List ((Nat × Nat) × Nat) → Option ((Nat × Nat) × Nat)
  | [] => none
  | c :: cs =>
    match pickBest cs with
    | none => some c
    | some d => if keyLe c.1 d.1 then some d else some c

/-- `select_import_block_by_closest_prefix_match`; `none` = NoImportBlockError -/
def selectBlock (st : St) (imp : Imp) (maxLine : Option Nat) : Option Nat :=
  match pickBest (candidates st imp maxLine) with
  | none => none
  | some (k, id) => if isFuture imp && k.1 = 0 then none else some id

def isPrologue (docAllowed : Bool) (s : Stmt) : Bool × Bool :=   -- (skip?, docAllowed')
  match s.kind with
  | .comment => (true, docAllowed)
  | .docstr => if docAllowed then (true, false) else (false, docAllowed)
  | .other => (false, docAllowed)

/-- index of the first statement that is not comment/blank/(first) docstring -/
def prologueLen : Bool → List Stmt → Nat
  | _, [] => 0
  | d, s :: ss =>
    let (skip, d') := isPrologue d s
    if skip then 1 + prologueLen d' ss else 0

def newImportBlock (id : Nat) : Block := .imports id 1 1 2 true []
def sepBlock : Block := .verbatim [⟨['\n'], .comment, false, [], 1, 1⟩] true

/-- `insert_new_blocks_after_comments([block, sepblock])` -/
def insertAfterComments (blocks : List Block) (nb : List Block) : List Block :=
  match blocks with
  | [] => nb          -- not reachable: there is always at least one block
  | .imports i s l e b set :: rest => nb ++ (.imports i s l e b set :: rest)
  | .verbatim ss ins :: rest =>
    let k := prologueLen true ss
    if k = ss.length then
      -- first block is entirely comments: insert after it
      let t := stmtsText ss
      if rest = [] ∧ t ≠ [] ∧ t.getLast? ≠ some '\n' then
        .verbatim ss ins :: (sepBlock :: nb)
      else .verbatim ss ins :: (nb ++ rest)
    else if k = 0 then nb ++ (.verbatim ss ins :: rest)
    else .verbatim (ss.take k) ins :: (nb ++ (.verbatim (ss.drop k) ins :: rest))

/-- an import block that holds a `__future__` import: nothing may be placed before it -/
def futureBlockId : Block → Option Nat
  | .imports id _ _ _ _ set => if set.any isFuture then some id else none
  | .verbatim _ _ => none

/-- the last block that holds a `__future__` import (only comments, the docstring and other `__future__` imports
    can precede it in a module that compiles) -/
def leadingFuture (blocks : List Block) : Option Nat := blocks.reverse.findSome? futureBlockId

/-- `insert_new_import_block`: a leading `__future__` block takes the import itself; otherwise a new empty block
    (and a separator line) is inserted after the prologue -/
def insertNewImportBlock (st : St) : St × Nat :=
  match leadingFuture st.blocks with
  | some fid => (st, fid)
  | none =>
    let id := st.nextId
    ({ st with blocks := insertAfterComments st.blocks [newImportBlock id, sepBlock],
               order := id :: st.order, nextId := id + 1 }, id)

def addImport (st : St) (imp : Imp) (maxLine : Option Nat) : Except Err St :=
  let (st1, id) := match selectBlock st imp maxLine with
    | some id => (st, id)
    | none => insertNewImportBlock st
  let cur := (st1.blocks.find? (fun b => blockId b = some id)).map setOf |>.getD []
  if imp ∈ cur then .error .importAlreadyExists
  else .ok { st1 with blocks := updSet id (fun s => withImport s imp) st1.blocks }

/-! ### fix_unused_and_missing_imports, second stage -/

structure Scan where
  unused : List (Nat × Imp)           -- (lineno, import), in the order reported
  missing : List (Nat × Str)          -- (lineno, first component), sorted by (identifier, lineno) by the caller
deriving Repr

structure Flags where
  addMissing : Bool
  removeUnused : Bool
  addMandatory : Bool
deriving Repr

def removeAll (st : St) : List (Nat × Imp) → Except Err St
  | [] => .ok st
  | (ln, i) :: rest => do
    let st' ← removeImport st i ln
    removeAll st' rest

def minStep (acc : Option Nat) (m : Nat × Str) : Option Nat :=
  match acc with
  | none => some m.1
  | some a => some (min a m.1)

/-- smallest line on which `name` is reported missing -/
def firstUse (missing : List (Nat × Str)) (name : Str) : Option Nat :=
  (missing.filter (fun m => m.2 = name)).foldl minStep none

/-- `known.by_import_as[name]` as a de-duplicated list -/
def lookupKnown (known : List Imp) (name : Str) : List Imp :=
  (known.filter (fun i => i.importAs = name)).eraseDups

def addMissingLoop (known : List Imp) (all : List (Nat × Str)) :
    St → List Imp → List (Nat × Str) → Except Err (St × List Imp)
  | st, added, [] => .ok (st, added)
  | st, added, (_, name) :: rest =>
    match lookupKnown known name with
    | [imp] =>
      if imp ∈ added then addMissingLoop known all st added rest
      else
        match addImport st imp (firstUse all name) with
        | .ok st' => addMissingLoop known all st' (imp :: added) rest
        | .error .importAlreadyExists => addMissingLoop known all st (imp :: added) rest
        | .error e => .error e
    | _ => addMissingLoop known all st added rest

def addMandatoryLoop : St → List Imp → Except Err St
  | st, [] => .ok st
  | st, imp :: rest =>
    match addImport st imp none with
    | .ok st' => addMandatoryLoop st' rest
    | .error .importAlreadyExists => addMandatoryLoop st rest
    | .error e => .error e

def stageRemove (fl : Flags) (st : St) (scan : Scan) : Except Err St :=
  if fl.removeUnused then removeAll st scan.unused else .ok st

def stageMissing (fl : Flags) (st : St) (scan : Scan) (known : List Imp) : Except Err St :=
  if fl.addMissing then
    match addMissingLoop known scan.missing st [] scan.missing with
    | .ok (st', _) => .ok st'
    | .error e => .error e
  else .ok st

def stageMandatory (fl : Flags) (st : St) (mandatory : List Imp) : Except Err St :=
  if fl.addMandatory then addMandatoryLoop st mandatory else .ok st

def fixStage2 (ss : List Stmt) (scan : Scan) (known mandatory : List Imp) (fl : Flags) : Except Err St :=
  stageRemove fl (preprocess ss) scan >>= fun st1 =>
  stageMissing fl st1 scan known >>= fun st2 =>
  stageMandatory fl st2 mandatory

/-- `ImportSet.conflicting_imports` is non-empty: two different imports share a
    local name other than `*`; `pretty_print` then raises ConflictingImportsError. -/
def setConflicts (s : List Imp) : Bool :=
  s.any fun i => !isStar i && s.any fun j => decide (j ≠ i) && j.importAs = i.importAs

def hasConflict (bs : List Block) : Bool := bs.any fun b => setConflicts (setOf b)

/-- `reformat_import_statements` at block level: nothing but `preprocess`. -/
def reformat (ss : List Stmt) : St := preprocess ss

end Pfb.Blocks
