/-
  Pfb.Blocks.Lemmas — invariants of the block-level rewriter model.
-/
import Pfb.Blocks.Model
namespace Pfb.Blocks
open Pfb

/-- The statements of the original (non-inserted) verbatim blocks, in order. -/
def origStmts : List Block → List Stmt
  | [] => []
  | .verbatim ss false :: bs => ss ++ origStmts bs
  | _ :: bs => origStmts bs

/-- All imports held by import blocks. -/
def allImports : List Block → List Imp
  | [] => []
  | .imports _ _ _ _ _ set :: bs => set ++ allImports bs
  | _ :: bs => allImports bs

@[simp] theorem origStmts_append (a b : List Block) : origStmts (a ++ b) = origStmts a ++ origStmts b := by
  induction a with
  | nil => rfl
  | cons x xs ih =>
    cases x with
    | verbatim ss ins => cases ins <;> simp [origStmts, ih]
    | imports => simp [origStmts, ih]

@[simp] theorem allImports_append (a b : List Block) : allImports (a ++ b) = allImports a ++ allImports b := by
  induction a with
  | nil => rfl
  | cons x xs ih =>
    cases x with
    | verbatim ss ins => simp [allImports, ih]
    | imports => simp [allImports, ih]

theorem origStmts_updSet (id : Nat) (f : List Imp → List Imp) (bs : List Block) :
    origStmts (updSet id f bs) = origStmts bs := by
  induction bs with
  | nil => rfl
  | cons b bs ih =>
    cases b with
    | verbatim ss ins => cases ins <;> simp [updSet, origStmts, ih]
    | imports i s l e bl set =>
      simp only [updSet]
      split <;> simp [origStmts, ih]

theorem origStmts_buildBlocks (n : Nat) (runs : List (Bool × List Stmt)) :
    origStmts (buildBlocks n runs).1 = (runs.filter (fun r => !r.1)).flatMap (·.2) := by
  induction runs generalizing n with
  | nil => rfl
  | cons r rs ih =>
    obtain ⟨b, g⟩ := r
    cases b with
    | true => simp [buildBlocks, origStmts, mkImportBlock, ih]
    | false => simp [buildBlocks, origStmts, ih]

theorem groupRuns_spec (ss : List Stmt) :
    (∀ r ∈ groupRuns ss, ∀ s ∈ r.2, s.isImport = r.1) ∧ (groupRuns ss).flatMap (·.2) = ss := by
  induction ss with
  | nil => simp [groupRuns]
  | cons s rest ih =>
    obtain ⟨ih1, ih2⟩ := ih
    unfold groupRuns
    split
    · rename_i b g gs heq
      rw [heq] at ih1 ih2
      split
      · rename_i hb
        constructor
        · intro r hr x hx
          simp at hr
          rcases hr with rfl | hr
          · simp at hx
            rcases hx with rfl | hx
            · exact hb.symm
            · exact ih1 (b, g) (by simp) x hx
          · exact ih1 r (by simp [hr]) x hx
        · simpa using ih2
      · constructor
        · intro r hr x hx
          simp at hr
          rcases hr with rfl | rfl | hr
          · simp at hx; subst hx; rfl
          · exact ih1 (b, g) (by simp) x hx
          · exact ih1 r (by simp [hr]) x hx
        · simpa using ih2
    · rename_i heq
      rw [heq] at ih2
      simp at ih2
      subst ih2
      simp

theorem filter_flatMap_runs (runs : List (Bool × List Stmt))
    (h : ∀ r ∈ runs, ∀ s ∈ r.2, s.isImport = r.1) :
    (runs.filter (fun r => !r.1)).flatMap (·.2) = (runs.flatMap (·.2)).filter (fun s => !s.isImport) := by
  induction runs with
  | nil => rfl
  | cons r rs ih =>
    have ih' := ih (fun r' hr' => h r' (by simp [hr']))
    have hr := h r (by simp)
    obtain ⟨b, g⟩ := r
    cases b with
    | true =>
      simp only [List.filter_cons, Bool.not_true, List.flatMap_cons, List.filter_append]
      simp only [Bool.false_eq_true, if_false]
      rw [ih']
      have : g.filter (fun s => !s.isImport) = [] := by
        apply List.filter_eq_nil_iff.mpr
        intro s hs; simp [hr s hs]
      rw [this]; simp
    | false =>
      simp only [List.filter_cons, Bool.not_false, List.flatMap_cons, List.filter_append, if_true]
      rw [ih']
      have : g.filter (fun s => !s.isImport) = g := by
        apply List.filter_eq_self.mpr
        intro s hs; simp [hr s hs]
      rw [this]

theorem origStmts_preprocess (ss : List Stmt) :
    origStmts (preprocess ss).blocks = ss.filter (fun s => !s.isImport) := by
  unfold preprocess
  simp only []
  have h := groupRuns_spec ss
  rw [origStmts_buildBlocks, filter_flatMap_runs _ h.1, h.2]

theorem origStmts_insertAfterComments (blocks : List Block) (id : Nat) :
    origStmts (insertAfterComments blocks [newImportBlock id, sepBlock]) = origStmts blocks := by
  unfold insertAfterComments
  cases blocks with
  | nil => simp [origStmts, newImportBlock, sepBlock]
  | cons b rest =>
    cases b with
    | imports i s l e bl set => simp [origStmts, newImportBlock, sepBlock]
    | verbatim ss ins =>
      simp only []
      split
      · split
        · rename_i h; obtain ⟨hr, _, _⟩ := h; subst hr
          cases ins <;> simp [origStmts, newImportBlock, sepBlock]
        · cases ins <;> simp [origStmts, newImportBlock, sepBlock]
      · split
        · cases ins <;> simp [origStmts, newImportBlock, sepBlock]
        · cases ins <;> simp [origStmts, newImportBlock, sepBlock, ← List.append_assoc]

theorem removeImport_orig (st st' : St) (imp : Imp) (ln : Nat) (h : removeImport st imp ln = .ok st') :
    origStmts st'.blocks = origStmts st.blocks := by
  unfold removeImport at h
  split at h
  · cases h; rfl
  · split at h
    · cases h; rfl
    · cases h; simp [origStmts_updSet]
    · cases h
  · cases h

theorem insertNewImportBlock_orig (st st1 : St) (id : Nat) (h : insertNewImportBlock st = (st1, id)) :
    origStmts st1.blocks = origStmts st.blocks := by
  unfold insertNewImportBlock at h
  split at h
  · cases h; rfl
  · cases h; exact origStmts_insertAfterComments _ _

theorem addImport_orig (st st' : St) (imp : Imp) (ml : Option Nat) (h : addImport st imp ml = .ok st') :
    origStmts st'.blocks = origStmts st.blocks := by
  unfold addImport at h
  split at h
  rename_i st1 id hsel
  simp only [] at h
  split at h
  · cases h
  · cases h
    simp only [origStmts_updSet]
    split at hsel
    · cases hsel; rfl
    · exact insertNewImportBlock_orig _ _ _ hsel

theorem removeAll_orig (st st' : St) (us : List (Nat × Imp)) (h : removeAll st us = .ok st') :
    origStmts st'.blocks = origStmts st.blocks := by
  induction us generalizing st with
  | nil => simp [removeAll] at h; cases h; rfl
  | cons u us ih =>
    obtain ⟨ln, i⟩ := u
    simp only [removeAll, bind, Except.bind] at h
    split at h
    · cases h
    · rename_i st1 h1
      rw [ih st1 h, removeImport_orig st st1 i ln h1]

theorem addMissingLoop_orig (known : List Imp) (all : List (Nat × Str)) (st st' : St) (added added' : List Imp)
    (ms : List (Nat × Str)) (h : addMissingLoop known all st added ms = .ok (st', added')) :
    origStmts st'.blocks = origStmts st.blocks := by
  induction ms generalizing st added with
  | nil => simp [addMissingLoop] at h; obtain ⟨h1, _⟩ := h; subst h1; rfl
  | cons m ms ih =>
    obtain ⟨ln, name⟩ := m
    unfold addMissingLoop at h
    split at h
    · rename_i imp hk
      split at h
      · exact ih st added h
      · split at h
        · rename_i st1 h1
          rw [ih st1 _ h, addImport_orig st st1 imp _ h1]
        · exact ih st _ h
        · cases h
    · exact ih st added h

theorem addMandatoryLoop_orig (st st' : St) (ms : List Imp) (h : addMandatoryLoop st ms = .ok st') :
    origStmts st'.blocks = origStmts st.blocks := by
  induction ms generalizing st with
  | nil => simp [addMandatoryLoop] at h; cases h; rfl
  | cons m ms ih =>
    unfold addMandatoryLoop at h
    split at h
    · rename_i st1 h1
      rw [ih st1 h, addImport_orig st st1 m none h1]
    · exact ih st h
    · cases h

end Pfb.Blocks

namespace Pfb.Blocks

/-! ### Imports held by the blocks -/

theorem mem_allImports_updSet_filter (id : Nat) (p : Imp → Bool) (bs : List Block) (i : Imp)
    (h : i ∈ allImports (updSet id (fun s => s.filter p) bs)) : i ∈ allImports bs := by
  induction bs with
  | nil => exact h
  | cons b bs ih =>
    cases b with
    | verbatim ss ins => simp [updSet, allImports] at h ⊢; exact ih h
    | imports i' s l e bl set =>
      simp only [updSet] at h
      split at h
      · simp [allImports] at h ⊢
        rcases h with h | h
        · left; exact h.1
        · right; exact h
      · simp [allImports] at h ⊢
        rcases h with h | h
        · left; exact h
        · right; exact ih h

theorem mem_allImports_updSet_with (id : Nat) (imp : Imp) (bs : List Block) (i : Imp)
    (h : i ∈ allImports (updSet id (fun s => withImport s imp) bs)) : i = imp ∨ i ∈ allImports bs := by
  induction bs with
  | nil => exact Or.inr h
  | cons b bs ih =>
    cases b with
    | verbatim ss ins =>
      simp [updSet, allImports] at h ⊢; exact ih h
    | imports i' s l e bl set =>
      simp only [updSet] at h
      split at h
      · simp [allImports, withImport] at h ⊢
        rcases h with h | h
        · split at h
          · right; left; exact h
          · simp at h; rcases h with h | h
            · right; left; exact h
            · left; exact h
        · right; right; exact h
      · simp [allImports] at h ⊢
        rcases h with h | h
        · right; left; exact h
        · rcases ih h with h | h
          · left; exact h
          · right; right; exact h

theorem allImports_updSet_with_mono (id : Nat) (imp : Imp) (bs : List Block) (i : Imp)
    (h : i ∈ allImports bs) : i ∈ allImports (updSet id (fun s => withImport s imp) bs) := by
  induction bs with
  | nil => exact h
  | cons b bs ih =>
    cases b with
    | verbatim ss ins => simp [updSet, allImports] at h ⊢; exact ih h
    | imports i' s l e bl set =>
      simp only [updSet]
      split
      · simp [allImports, withImport] at h ⊢
        rcases h with h | h
        · left; split
          · exact h
          · simp; left; exact h
        · right; exact h
      · simp [allImports] at h ⊢
        rcases h with h | h
        · left; exact h
        · right; exact ih h

theorem allImports_updSet_with_new (id : Nat) (imp : Imp) (bs : List Block)
    (h : ∃ b ∈ bs, blockId b = some id) : imp ∈ allImports (updSet id (fun s => withImport s imp) bs) := by
  induction bs with
  | nil => simp at h
  | cons b bs ih =>
    cases b with
    | verbatim ss ins =>
      simp [updSet, allImports]
      apply ih
      obtain ⟨b', hb', hid⟩ := h
      simp at hb'
      rcases hb' with rfl | hb'
      · simp [blockId] at hid
      · exact ⟨b', hb', hid⟩
    | imports i' s l e bl set =>
      simp only [updSet]
      split
      · simp [allImports, withImport]
        left; split
        · assumption
        · simp
      · rename_i hne
        simp [allImports]
        right
        apply ih
        obtain ⟨b', hb', hid⟩ := h
        simp at hb'
        rcases hb' with rfl | hb'
        · simp [blockId] at hid; exact absurd hid hne
        · exact ⟨b', hb', hid⟩

theorem allImports_insertAfterComments (blocks : List Block) (id : Nat) :
    allImports (insertAfterComments blocks [newImportBlock id, sepBlock]) = allImports blocks := by
  unfold insertAfterComments
  cases blocks with
  | nil => simp [allImports, newImportBlock, sepBlock]
  | cons b rest =>
    cases b with
    | imports i s l e bl set => simp [allImports, newImportBlock, sepBlock]
    | verbatim ss ins =>
      simp only []
      split
      · split
        · rename_i h; obtain ⟨hr, _, _⟩ := h; subst hr
          simp [allImports, newImportBlock, sepBlock]
        · simp [allImports, newImportBlock, sepBlock]
      · split
        · simp [allImports, newImportBlock, sepBlock]
        · simp [allImports, newImportBlock, sepBlock]

theorem newBlock_mem_insertAfterComments (blocks : List Block) (id : Nat) :
    ∃ b ∈ insertAfterComments blocks [newImportBlock id, sepBlock], blockId b = some id := by
  refine ⟨newImportBlock id, ?_, by simp [newImportBlock, blockId]⟩
  unfold insertAfterComments
  cases blocks with
  | nil => simp
  | cons b rest =>
    cases b with
    | imports i s l e bl set => simp
    | verbatim ss ins =>
      simp only []
      split
      · split <;> simp
      · split <;> simp

theorem futureBlockId_blockId (b : Block) (fid : Nat) (h : futureBlockId b = some fid) : blockId b = some fid := by
  cases b with
  | verbatim ss ins => simp [futureBlockId] at h
  | imports id s l e bl set =>
    simp only [futureBlockId] at h
    split at h
    · simpa [blockId] using h
    · cases h

theorem leadingFuture_mem (blocks : List Block) (fid : Nat) (h : leadingFuture blocks = some fid) :
    ∃ b ∈ blocks, blockId b = some fid := by
  unfold leadingFuture at h
  obtain ⟨b, hb, hf⟩ := List.exists_of_findSome?_eq_some h
  exact ⟨b, List.mem_reverse.mp hb, futureBlockId_blockId b fid hf⟩

/-- `insert_new_import_block` yields a block that exists afterwards, and keeps all imports -/
theorem insertNewImportBlock_spec (st st1 : St) (id : Nat) (h : insertNewImportBlock st = (st1, id)) :
    (∃ b ∈ st1.blocks, blockId b = some id) ∧ allImports st1.blocks = allImports st.blocks := by
  unfold insertNewImportBlock at h
  split at h
  · rename_i fid hf
    cases h
    exact ⟨leadingFuture_mem _ _ hf, rfl⟩
  · cases h
    exact ⟨newBlock_mem_insertAfterComments _ _, allImports_insertAfterComments _ _⟩

theorem pickBest_mem (cs : List ((Nat × Nat) × Nat)) (c : (Nat × Nat) × Nat) (h : pickBest cs = some c) : c ∈ cs := by
  induction cs generalizing c with
  | nil => simp [pickBest] at h
  | cons d ds ih =>
    unfold pickBest at h
    split at h
    · cases h; simp
    · rename_i e he
      split at h
      · cases h; right; exact ih _ he
      · cases h; simp

theorem selectBlock_exists (st : St) (imp : Imp) (ml : Option Nat) (id : Nat)
    (h : selectBlock st imp ml = some id) : ∃ b ∈ st.blocks, blockId b = some id := by
  unfold selectBlock at h
  split at h
  · cases h
  · rename_i k id' hp
    have hid : id' = id := by split at h <;> simp_all
    subst hid
    have hm := pickBest_mem _ _ hp
    unfold candidates at hm
    simp only [List.mem_filterMap] at hm
    obtain ⟨x, _, hx⟩ := hm
    split at hx
    · rename_i i s l e bl set hf
      by_cases hok : candOk imp bl l ml set = true
      · rw [if_pos hok] at hx
        simp at hx
        obtain ⟨_, rfl⟩ := hx
        have := List.find?_some hf
        have hmem := List.mem_of_find?_eq_some hf
        exact ⟨_, hmem, by simpa using this⟩
      · rw [if_neg hok] at hx
        cases hx
    · cases hx

/-- after a successful `add_import`, the import is in some block, and nothing was lost -/
theorem addImport_adds (st st' : St) (imp : Imp) (ml : Option Nat) (h : addImport st imp ml = .ok st') :
    imp ∈ allImports st'.blocks ∧ (∀ i ∈ allImports st.blocks, i ∈ allImports st'.blocks) ∧
    (∀ i ∈ allImports st'.blocks, i = imp ∨ i ∈ allImports st.blocks) := by
  unfold addImport at h
  split at h
  rename_i st1 id hsel
  simp only [] at h
  split at h
  · cases h
  · cases h
    simp only []
    have hex : (∃ b ∈ st1.blocks, blockId b = some id) ∧ allImports st1.blocks = allImports st.blocks := by
      split at hsel
      · rename_i id' hs
        cases hsel
        exact ⟨selectBlock_exists _ _ _ _ hs, rfl⟩
      · exact insertNewImportBlock_spec _ _ _ hsel
    refine ⟨allImports_updSet_with_new _ _ _ hex.1, ?_, ?_⟩
    · intro i hi
      apply allImports_updSet_with_mono
      rw [hex.2]; exact hi
    · intro i hi
      rcases mem_allImports_updSet_with _ _ _ _ hi with h | h
      · left; exact h
      · right; rw [← hex.2]; exact h

theorem mem_allImports_of_mem (bs : List Block) (b : Block) (i : Imp) (hb : b ∈ bs) (hi : i ∈ setOf b) :
    i ∈ allImports bs := by
  induction bs with
  | nil => simp at hb
  | cons x xs ih =>
    simp at hb
    rcases hb with rfl | hb
    · cases b with
      | verbatim ss ins => simp [setOf] at hi
      | imports id s l e bl set => simp [setOf] at hi; simp [allImports, hi]
    · have := ih hb
      cases x with
      | verbatim ss ins => simpa [allImports] using this
      | imports id s l e bl set => simp [allImports, this]

/-- `add_import` raising ImportAlreadyExistsError means the import is already held by a block -/
theorem addImport_exists_mem (st : St) (imp : Imp) (ml : Option Nat) (e : Err)
    (h : addImport st imp ml = .error e) : imp ∈ allImports st.blocks := by
  unfold addImport at h
  split at h
  rename_i st1 id hsel
  simp only [] at h
  split at h
  · rename_i hmem
    have hall : allImports st1.blocks = allImports st.blocks := by
      split at hsel
      · cases hsel; rfl
      · exact (insertNewImportBlock_spec _ _ _ hsel).2
    rw [← hall]
    cases hf : st1.blocks.find? (fun b => blockId b = some id) with
    | none => simp [hf] at hmem
    | some b =>
      simp [hf] at hmem
      exact mem_allImports_of_mem _ b imp (List.mem_of_find?_eq_some hf) hmem
  · cases h

theorem addImport_exists_err (st : St) (imp : Imp) (ml : Option Nat) (e : Err)
    (h : addImport st imp ml = .error e) : e = .importAlreadyExists := by
  unfold addImport at h
  split at h
  simp only [] at h
  split at h
  · cases h; rfl
  · cases h

end Pfb.Blocks
