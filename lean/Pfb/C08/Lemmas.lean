/-
  Pfb.C08.Lemmas — helper lemmas for the C08 theorems: the directory update, the temp
  name, and the inductive invariant of one writer ("the temp file holds the part of the
  new contents whose writes have been issued") with its preservation by one call boundary.
-/
import Pfb.C08.Model
namespace Pfb.C08

variable {α : Type}

@[simp] theorem FS.set_same (fs : FS α) (p : Path) (v : Option (File α)) : (fs.set p v) p = v := by
  simp [FS.set]

@[simp] theorem FS.set_other (fs : FS α) {p q : Path} (v : Option (File α)) (h : q ≠ p) :
    (fs.set p v) q = fs q := by
  simp [FS.set, h]

/-! ### the temp name -/

theorem digit_inj : ∀ a b : Fin 10, digit a.val = digit b.val → a = b := by decide

theorem decimal_ne_nil (n : Nat) : decimal n ≠ [] := by
  rw [decimal]; split <;> simp

theorem decimal_inj : ∀ n m : Nat, decimal n = decimal m → n = m := by
  intro n
  induction n using Nat.strongRecOn with
  | _ n ih =>
    intro m h
    rw [decimal] at h
    rw [decimal.eq_1 m] at h
    by_cases hn : n < 10 <;> by_cases hm : m < 10 <;> simp only [hn, hm, if_true, if_false] at h
    · have := digit_inj ⟨n, hn⟩ ⟨m, hm⟩ (by simpa using h)
      simpa using congrArg Fin.val this
    · have h1 : 1 = (decimal (m / 10)).length + 1 := by simpa using congrArg List.length h
      have h2 := List.length_pos_iff.mpr (decimal_ne_nil (m / 10))
      omega
    · have h1 : (decimal (n / 10)).length + 1 = 1 := by simpa using congrArg List.length h
      have h2 := List.length_pos_iff.mpr (decimal_ne_nil (n / 10))
      omega
    · have hl : (decimal (n / 10) ++ [digit (n % 10)]).length = (decimal (m / 10) ++ [digit (m % 10)]).length :=
        congrArg List.length h
      have hlen : (decimal (n / 10)).length = (decimal (m / 10)).length := by simpa using hl
      obtain ⟨h1, h2⟩ := List.append_inj h hlen
      have hq := ih (n / 10) (by omega) (m / 10) h1
      have hr := digit_inj ⟨n % 10, Nat.mod_lt _ (by omega)⟩ ⟨m % 10, Nat.mod_lt _ (by omega)⟩ (by simpa using h2)
      have hr' : n % 10 = m % 10 := by simpa using congrArg Fin.val hr
      omega

/-- distinct pids give distinct temp names -/
theorem tmpName_inj (target : Path) (a b : Nat) (h : tmpName target a = tmpName target b) : a = b := by
  unfold tmpName at h
  exact decimal_inj a b (List.append_cancel_left h)

/-- the temp name is not the target -/
theorem tmpName_ne_target (target : Path) (pid : Nat) : tmpName target pid ≠ target := by
  intro h
  have := congrArg List.length h
  simp [tmpName] at this

/-- … and no temp name of the same target is the target of a rename (`target` itself) -/
theorem tmpName_ne (target : Path) {a b : Nat} (h : a ≠ b) : tmpName target a ≠ tmpName target b :=
  fun e => h (tmpName_inj target a b e)

/-! ### one writer: the invariant about the temp file -/

/-- the non-empty suffixes of `tail4` -/
def tails (t g : Path) : List (List (Op α)) :=
  [tail4 t g, [.chmod t, .chown t, .rename t g], [.chown t, .rename t g], [.rename t g]]

/-- `CInv t g new fs p`: writer `p` (temp path `t`, target `g`, data `new`) is finished, or has
not opened its temp file yet, or is writing and the temp file holds exactly the part of
`new` that precedes the pending writes, or the temp file is complete. -/
def CInv (t g : Path) (new : List α) (fs : FS α) (p : Proc α) : Prop :=
  p.todo = [] ∨
  (∃ cs, p.todo = opsAt t g cs ∧ cs.flatten = new) ∨
  (∃ cs f, p.todo = body t g cs ∧ fs t = some f ∧ f.content ++ cs.flatten = new) ∨
  (∃ f, fs t = some f ∧ f.content = new ∧ p.todo ∈ tails t g)

theorem CInv.frame {t g : Path} {new : List α} {fs fs' : FS α} {p : Proc α}
    (h : CInv t g new fs p) (e : fs' t = fs t) : CInv t g new fs' p := by
  unfold CInv at *
  rw [e]; exact h

theorem CInv_init (t g : Path) (cs : List (List α)) (fs : FS α) :
    CInv t g cs.flatten fs (Proc.init (opsAt t g cs)) :=
  Or.inr (Or.inl ⟨cs, rfl, rfl⟩)

/-! ### the result of one call boundary, case by case -/

section StepEq
variable (env : Env) (strict : Bool) (fault : Faults) (fs : FS α)
variable (op : Op α) (rest : List (Op α)) (st : StatRes) (idx : Nat) (err : Option Errno)
variable (log : List (Op α × Option Errno))

theorem step_nil : Proc.step env strict fault fs ⟨[], st, idx, err, log⟩ = (fs, ⟨[], st, idx, err, log⟩) := rfl

theorem step_fault_sw {e : Errno} (hfa : fault idx = some e) (hs : swallows strict op e = true) :
    Proc.step env strict fault fs ⟨op :: rest, st, idx, err, log⟩ =
      (fs, ⟨rest.dropWhile (Op.skips op), st, idx + 1, none, log ++ [(op, some e)]⟩) := by
  simp [Proc.step, hfa, hs]

theorem step_fault_raise {e : Errno} (hfa : fault idx = some e) (hs : swallows strict op e = false) :
    Proc.step env strict fault fs ⟨op :: rest, st, idx, err, log⟩ =
      (fs, ⟨[], st, idx + 1, some e, log ++ [(op, some e)]⟩) := by
  simp [Proc.step, hfa, hs]

theorem step_ok {fs' : FS α} {st' : StatRes} (hfa : fault idx = none) (hsys : sys env fs st op = .ok (fs', st')) :
    Proc.step env strict fault fs ⟨op :: rest, st, idx, err, log⟩ =
      (fs', ⟨rest, st', idx + 1, none, log ++ [(op, none)]⟩) := by
  simp [Proc.step, hfa, hsys]

theorem step_err_sw {e : Errno} (hfa : fault idx = none) (hsys : sys env fs st op = .error e)
    (hs : swallows strict op e = true) :
    Proc.step env strict fault fs ⟨op :: rest, st, idx, err, log⟩ =
      (fs, ⟨rest.dropWhile (Op.skips op), st, idx + 1, none, log ++ [(op, some e)]⟩) := by
  simp [Proc.step, hfa, hsys, hs]

theorem step_err_raise {e : Errno} (hfa : fault idx = none) (hsys : sys env fs st op = .error e)
    (hs : swallows strict op e = false) :
    Proc.step env strict fault fs ⟨op :: rest, st, idx, err, log⟩ =
      (fs, ⟨[], st, idx + 1, some e, log ++ [(op, some e)]⟩) := by
  simp [Proc.step, hfa, hsys, hs]

end StepEq

/-- What one call boundary of a writer satisfying `CInv` does. -/
structure StepFacts (t g : Path) (new : List α) (fs : FS α) (p : Proc α) (r : FS α × Proc α) : Prop where
  inv : CInv t g new r.1 r.2
  /-- only the writer's own temp file and the target are ever touched -/
  frame : ∀ q, q ≠ t → q ≠ g → r.1 q = fs q
  /-- the target is untouched, or the writer has just completed and the target is the (complete) temp file -/
  target : r.1 g = fs g ∨
    ((∃ f, fs t = some f ∧ r.1 g = some f ∧ f.content = new) ∧ r.2.todo = [] ∧ r.2.err = none ∧ p.todo ≠ [])
  /-- an error propagates only from a call that changed nothing -/
  raised : r.2.err ≠ none → r.1 = fs ∧ r.2.todo = []
  /-- the only way to finish without an error is the successful rename -/
  finished : p.todo ≠ [] → r.2.todo = [] → r.2.err = none → ∃ f, r.1 g = some f ∧ f.content = new
  idle : p.todo = [] → r = (fs, p)

/-- the call raised (nothing changed) -/
theorem StepFacts.ofRaise {t g : Path} {new : List α} {fs : FS α} {p : Proc α}
    (hp : p.todo ≠ []) (st : StatRes) (idx : Nat) (e : Errno) (log : List (Op α × Option Errno)) :
    StepFacts t g new fs p (fs, ⟨[], st, idx, some e, log⟩) :=
  ⟨Or.inl rfl, fun _ _ _ => rfl, Or.inl rfl, fun _ => ⟨rfl, rfl⟩, fun _ _ h => by simp at h,
   fun h => absurd h hp⟩

/-- the call changed at most the writer's temp file and the writer goes on -/
theorem StepFacts.ofTmp {t g : Path} {new : List α} {fs fs' : FS α} {p p' : Proc α}
    (hgt : g ≠ t) (hp : p.todo ≠ []) (hfr : ∀ q, q ≠ t → fs' q = fs q) (hinv : CInv t g new fs' p')
    (herr : p'.err = none) (hne : p'.todo ≠ []) :
    StepFacts t g new fs p (fs', p') :=
  ⟨hinv, fun q hq _ => hfr q hq, Or.inl (hfr g hgt), fun h => absurd herr h, fun _ h _ => absurd h hne,
   fun h => absurd h hp⟩

theorem dropWhile_g3 (t g : Path) :
    List.dropWhile (Op.skips (Op.stat g : Op α)) [(Op.chmod t : Op α), .chown t, .rename t g] = [.rename t g] := rfl
theorem dropWhile_g2 (t g : Path) :
    List.dropWhile (Op.skips (Op.chmod t : Op α)) [(Op.chown t : Op α), .rename t g] = [.rename t g] := rfl
theorem dropWhile_g1 (t g : Path) :
    List.dropWhile (Op.skips (Op.chown t : Op α)) [(Op.rename t g : Op α)] = [.rename t g] := rfl

theorem rename_mem_tails (t g : Path) : [(Op.rename t g : Op α)] ∈ tails t g := by simp [tails]

theorem step_facts (env : Env) (strict : Bool) (fault : Faults) {t g : Path} {new : List α}
    (htg : t ≠ g) (fs : FS α) (p : Proc α)
    (h : CInv t g new fs p) :
    StepFacts t g new fs p (p.step env strict fault fs) := by
  have hgt : g ≠ t := fun e => htg e.symm
  obtain ⟨todo, st, idx, err, log⟩ := p
  rcases h with h | ⟨cs, h, hn⟩ | ⟨cs, f, h, hf, hn⟩ | ⟨f, hf, hn, h⟩
  · -- finished
    simp only at h; subst h
    rw [step_nil]
    exact ⟨Or.inl rfl, fun _ _ _ => rfl, Or.inl rfl, fun _ => ⟨rfl, rfl⟩, fun h => absurd rfl h, fun _ => rfl⟩
  · -- about to open the temp file
    simp only at h; subst h
    have hp : (⟨opsAt t g cs, st, idx, err, log⟩ : Proc α).todo ≠ [] := by simp [opsAt]
    unfold opsAt at hp ⊢
    cases hfa : fault idx with
    | some e =>
      rw [step_fault_raise _ _ _ _ _ _ _ _ _ _ hfa (by simp [swallows])]
      exact StepFacts.ofRaise hp _ _ _ _
    | none =>
      by_cases hlen : env.nameMax < t.length
      · rw [step_err_raise (e := ENAMETOOLONG) _ _ _ _ _ _ _ _ _ _ hfa (by simp [sys, hlen]) (by simp [swallows])]
        exact StepFacts.ofRaise hp _ _ _ _
      cases hft : fs t with
      | none =>
        rw [step_ok _ _ _ _ _ _ _ _ _ _ hfa (by simp [sys, hlen, hft]; exact ⟨rfl, rfl⟩)]
        refine StepFacts.ofTmp hgt hp (fun q hq => by simp [hq]) ?_ rfl (by simp [body])
        exact Or.inr (Or.inr (Or.inl ⟨cs, ⟨[], env.dflt, env.dgid⟩, rfl, FS.set_same _ _ _, by simpa using hn⟩))
      | some f0 =>
        rw [step_ok _ _ _ _ _ _ _ _ _ _ hfa (by simp [sys, hlen, hft]; exact ⟨rfl, rfl⟩)]
        refine StepFacts.ofTmp hgt hp (fun q hq => by simp [hq]) ?_ rfl (by simp [body])
        exact Or.inr (Or.inr (Or.inl ⟨cs, { f0 with content := [] }, rfl, FS.set_same _ _ _, by simpa using hn⟩))
  · -- writing
    simp only at h; subst h
    cases cs with
    | nil =>
      -- close
      have hp : (⟨body t g [], st, idx, err, log⟩ : Proc α).todo ≠ [] := by simp [body]
      simp only [body, List.map_nil, List.nil_append] at hp ⊢
      cases hfa : fault idx with
      | some e =>
        rw [step_fault_raise _ _ _ _ _ _ _ _ _ _ hfa (by simp [swallows])]
        exact StepFacts.ofRaise hp _ _ _ _
      | none =>
        rw [step_ok _ _ _ _ _ _ _ _ _ _ hfa (by simp [sys]; exact ⟨rfl, rfl⟩)]
        refine StepFacts.ofTmp hgt hp (fun q _ => rfl) ?_ rfl (by simp [tail4])
        exact Or.inr (Or.inr (Or.inr ⟨f, hf, by simpa using hn, by simp [tails]⟩))
    | cons c cs =>
      have hp : (⟨body t g (c :: cs), st, idx, err, log⟩ : Proc α).todo ≠ [] := by simp [body]
      simp only [body, List.map_cons, List.cons_append] at hp ⊢
      cases hfa : fault idx with
      | some e =>
        rw [step_fault_raise _ _ _ _ _ _ _ _ _ _ hfa (by simp [swallows])]
        exact StepFacts.ofRaise hp _ _ _ _
      | none =>
        rw [step_ok _ _ _ _ _ _ _ _ _ _ hfa (by simp [sys, hf]; exact ⟨rfl, rfl⟩)]
        refine StepFacts.ofTmp hgt hp (fun q hq => by simp [hq]) ?_ rfl (by simp)
        exact Or.inr (Or.inr (Or.inl ⟨cs, { f with content := f.content ++ c }, rfl, FS.set_same _ _ _,
          by simpa [List.append_assoc] using hn⟩))
  · -- the temp file is complete
    simp only at h
    simp only [tails, tail4, List.mem_cons, List.mem_nil_iff, or_false] at h
    rcases h with h | h | h | h <;> subst h
    · -- stat
      have hp : (⟨[.stat g, .chmod t, .chown t, .rename t g], st, idx, err, log⟩ : Proc α).todo ≠ [] := by simp
      cases hfa : fault idx with
      | some e =>
        cases hs : swallows strict (Op.stat g : Op α) e with
        | true =>
          rw [step_fault_sw _ _ _ _ _ _ _ _ _ _ hfa hs, dropWhile_g3]
          exact StepFacts.ofTmp hgt hp (fun _ _ => rfl) (Or.inr (Or.inr (Or.inr ⟨f, hf, hn, rename_mem_tails t g⟩))) rfl (by simp)
        | false =>
          rw [step_fault_raise _ _ _ _ _ _ _ _ _ _ hfa hs]
          exact StepFacts.ofRaise hp _ _ _ _
      | none =>
        cases hg : fs g with
        | none =>
          rw [step_err_sw (e := ENOENT) _ _ _ _ _ _ _ _ _ _ hfa (by simp [sys, hg]) (by simp [swallows]), dropWhile_g3]
          exact StepFacts.ofTmp hgt hp (fun _ _ => rfl) (Or.inr (Or.inr (Or.inr ⟨f, hf, hn, rename_mem_tails t g⟩))) rfl (by simp)
        | some f1 =>
          rw [step_ok _ _ _ _ _ _ _ _ _ _ hfa (by simp [sys, hg]; exact ⟨rfl, rfl⟩)]
          exact StepFacts.ofTmp hgt hp (fun _ _ => rfl) (Or.inr (Or.inr (Or.inr ⟨f, hf, hn, by simp [tails]⟩))) rfl (by simp)
    · -- chmod
      have hp : (⟨[.chmod t, .chown t, .rename t g], st, idx, err, log⟩ : Proc α).todo ≠ [] := by simp
      have hskip : ∀ e : Errno, swallows strict (Op.chmod t : Op α) e = true →
          StepFacts t g new fs ⟨[.chmod t, .chown t, .rename t g], st, idx, err, log⟩
            (fs, ⟨List.dropWhile (Op.skips (Op.chmod t : Op α)) [(Op.chown t : Op α), .rename t g], st, idx + 1, none, log ++ [(.chmod t, some e)]⟩) := by
        intro e _
        rw [dropWhile_g2]
        exact StepFacts.ofTmp hgt hp (fun _ _ => rfl) (Or.inr (Or.inr (Or.inr ⟨f, hf, hn, rename_mem_tails t g⟩))) rfl (by simp)
      cases hfa : fault idx with
      | some e =>
        cases hs : swallows strict (Op.chmod t : Op α) e with
        | true => rw [step_fault_sw _ _ _ _ _ _ _ _ _ _ hfa hs]; exact hskip e hs
        | false => rw [step_fault_raise _ _ _ _ _ _ _ _ _ _ hfa hs]; exact StepFacts.ofRaise hp _ _ _ _
      | none =>
        cases st with
        | none =>
          have hsys : sys env fs none (Op.chmod t : Op α) = .error EINTERNAL := by simp [sys]
          cases hs : swallows strict (Op.chmod t : Op α) EINTERNAL with
          | true => rw [step_err_sw _ _ _ _ _ _ _ _ _ _ hfa hsys hs]; exact hskip _ hs
          | false => rw [step_err_raise _ _ _ _ _ _ _ _ _ _ hfa hsys hs]; exact StepFacts.ofRaise hp _ _ _ _
        | some mg =>
          obtain ⟨m, gg⟩ := mg
          rw [step_ok _ _ _ _ _ _ _ _ _ _ hfa (by simp [sys, hf]; exact ⟨rfl, rfl⟩)]
          refine StepFacts.ofTmp hgt hp (fun q hq => by simp [hq]) ?_ rfl (by simp)
          exact Or.inr (Or.inr (Or.inr ⟨{ f with mode := m }, FS.set_same _ _ _, hn, by simp [tails]⟩))
    · -- chown
      have hp : (⟨[.chown t, .rename t g], st, idx, err, log⟩ : Proc α).todo ≠ [] := by simp
      have hskip : ∀ e : Errno,
          StepFacts t g new fs ⟨[.chown t, .rename t g], st, idx, err, log⟩
            (fs, ⟨List.dropWhile (Op.skips (Op.chown t : Op α)) [(Op.rename t g : Op α)], st, idx + 1, none, log ++ [(.chown t, some e)]⟩) := by
        intro e
        rw [dropWhile_g1]
        exact StepFacts.ofTmp hgt hp (fun _ _ => rfl) (Or.inr (Or.inr (Or.inr ⟨f, hf, hn, rename_mem_tails t g⟩))) rfl (by simp)
      cases hfa : fault idx with
      | some e =>
        rw [step_fault_sw _ _ _ _ _ _ _ _ _ _ hfa (by simp [swallows])]; exact hskip e
      | none =>
        cases st with
        | none =>
          rw [step_err_sw (e := EINTERNAL) _ _ _ _ _ _ _ _ _ _ hfa (by simp [sys]) (by simp [swallows])]; exact hskip _
        | some mg =>
          obtain ⟨m, gg⟩ := mg
          rw [step_ok _ _ _ _ _ _ _ _ _ _ hfa (by simp [sys, hf]; exact ⟨rfl, rfl⟩)]
          refine StepFacts.ofTmp hgt hp (fun q hq => by simp [hq]) ?_ rfl (by simp)
          exact Or.inr (Or.inr (Or.inr ⟨{ f with gid := gg, mode := killSugid f.mode }, FS.set_same _ _ _, hn, by simp [tails]⟩))
    · -- rename
      have hp : (⟨[.rename t g], st, idx, err, log⟩ : Proc α).todo ≠ [] := by simp
      cases hfa : fault idx with
      | some e =>
        rw [step_fault_raise _ _ _ _ _ _ _ _ _ _ hfa (by simp [swallows])]
        exact StepFacts.ofRaise hp _ _ _ _
      | none =>
        rw [step_ok _ _ _ _ _ _ _ _ _ _ hfa (by simp [sys, hf]; exact ⟨rfl, rfl⟩)]
        have hg' : ((fs.set g (some f)).set t none) g = some f := by simp [hgt]
        exact ⟨Or.inl rfl, fun q hq hq2 => by simp [hq, hq2],
               Or.inr ⟨⟨f, hf, hg', hn⟩, rfl, rfl, hp⟩, fun h => absurd rfl h,
               fun _ _ _ => ⟨f, hg', hn⟩, fun h => absurd h hp⟩

/-! ### one writer: the permission bits -/

/-- `p` returned normally -/
def Proc.done (p : Proc α) : Prop := p.todo = [] ∧ p.err = none

/-- the log says `chmod(tmp)` was issued and succeeded -/
def chmodOk (t : Path) (p : Proc α) : Prop := ((Op.chmod t : Op α), (none : Option Errno)) ∈ p.log

/-- Invariant about the permission bits, for a single writer whose target initially is the
file `fo`.  The phases are told apart by the number of pending calls (4 = before `stat`,
3 = before `chmod`, 2 = before `chown`, 1 = before `rename`).  `S` is the extra assumption
under which the copy of the mode is *guaranteed* (repaired policy, no injected ENOENT). -/
structure MInv (t g : Path) (fo : File α) (S : Prop) (fs : FS α) (p : Proc α) : Prop where
  tgt : ¬ p.done → fs g = some fo
  st3 : p.todo.length = 3 → p.st = some (fo.mode, fo.gid)
  early : chmodOk t p → p.todo.length ≤ 2
  tmpm : chmodOk t p → p.todo ≠ [] → ∃ f, fs t = some f ∧ f.mode = fo.mode
  fin : chmodOk t p → p.done → ∃ f, fs g = some f ∧ f.mode = fo.mode
  strictOk : S → (p.todo.length = 2 ∨ p.todo.length = 1 ∨ p.done) → chmodOk t p

theorem chmodOk_append (t : Path) (todo todo' : List (Op α)) (st st' : StatRes) (idx idx' : Nat)
    (err err' : Option Errno) (log : List (Op α × Option Errno)) (op : Op α) (r : Option Errno) :
    chmodOk t ⟨todo', st', idx', err', log ++ [(op, r)]⟩ ↔
      (chmodOk t ⟨todo, st, idx, err, log⟩ ∨ (op = Op.chmod t ∧ r = none)) := by
  simp only [chmodOk, List.mem_append, List.mem_singleton, Prod.mk.injEq]
  constructor
  · rintro (h | ⟨h1, h2⟩)
    · exact Or.inl h
    · exact Or.inr ⟨h1.symm, h2.symm⟩
  · rintro (h | ⟨h1, h2⟩)
    · exact Or.inl h
    · exact Or.inr ⟨h1.symm, h2.symm⟩

section MStep
variable {t g : Path} {fo : File α} {S : Prop} {fs : FS α}

/-- the call raised -/
theorem MInv.ofRaise {todo : List (Op α)} {st : StatRes} {idx : Nat} {err : Option Errno}
    {log : List (Op α × Option Errno)} (hm : MInv t g fo S fs ⟨todo, st, idx, err, log⟩) (hp : todo ≠ [])
    (op : Op α) (e : Errno) :
    MInv t g fo S fs ⟨[], st, idx + 1, some e, log ++ [(op, some e)]⟩ := by
  refine ⟨fun _ => hm.tgt (fun hd => hp hd.1), by simp, by simp, by simp, ?_, ?_⟩
  · intro _ hd; simp [Proc.done] at hd
  · intro _ h; simp [Proc.done] at h

/-- a phase before `chmod`: at least 3 calls pending afterwards, `chmod` not issued yet -/
theorem MInv.ofEarly {todo todo' : List (Op α)} {st st' : StatRes} {idx : Nat} {err : Option Errno}
    {log : List (Op α × Option Errno)} {fs' : FS α} (hm : MInv t g fo S fs ⟨todo, st, idx, err, log⟩)
    (hlen : 3 ≤ todo.length) (hlen' : 3 ≤ todo'.length) (hg : fs' g = fs g)
    (hst : todo'.length = 3 → st' = some (fo.mode, fo.gid))
    (op : Op α) (r : Option Errno) (hop : op ≠ Op.chmod t) :
    MInv t g fo S fs' ⟨todo', st', idx + 1, none, log ++ [(op, r)]⟩ := by
  have hno : ¬ chmodOk t ⟨todo', st', idx + 1, none, log ++ [(op, r)]⟩ := by
    rw [chmodOk_append t todo todo' st st' idx (idx + 1) err none log op r]
    rintro (h | ⟨h, _⟩)
    · have := hm.early h; simp only at this; omega
    · exact hop h
  have hnd : ¬ Proc.done (⟨todo, st, idx, err, log⟩ : Proc α) := by
    intro hd; simp [Proc.done] at hd; simp [hd.1] at hlen
  refine ⟨fun _ => hg ▸ hm.tgt hnd, hst, fun h => absurd h hno, fun h => absurd h hno,
          fun h => absurd h hno, ?_⟩
  intro _ h
  rcases h with h | h | h
  · simp only at h; omega
  · simp only at h; omega
  · simp [Proc.done] at h; simp [h] at hlen'

end MStep

theorem MInv.step (env : Env) (strict : Bool) (fault : Faults) {t g : Path} {new : List α} {fo : File α}
    {S : Prop} (hS : S → strict = true ∧ ∀ i, fault i ≠ some ENOENT)
    (hk : killSugid fo.mode = fo.mode)
    (htg : t ≠ g) {fs : FS α} {p : Proc α} (h : CInv t g new fs p) (hm : MInv t g fo S fs p) :
    MInv t g fo S (p.step env strict fault fs).1 (p.step env strict fault fs).2 := by
  have hgt : g ≠ t := fun e => htg e.symm
  obtain ⟨todo, st, idx, err, log⟩ := p
  rcases h with h | ⟨cs, h, hn⟩ | ⟨cs, f, h, hf, hn⟩ | ⟨f, hf, hn, h⟩
  · simp only at h; subst h; rw [step_nil]; exact hm
  · -- open
    simp only at h; subst h
    unfold opsAt at hm ⊢
    cases hfa : fault idx with
    | some e =>
      rw [step_fault_raise _ _ _ _ _ _ _ _ _ _ hfa (by simp [swallows])]
      exact hm.ofRaise (by simp) _ _
    | none =>
      by_cases hlen : env.nameMax < t.length
      · rw [step_err_raise (e := ENAMETOOLONG) _ _ _ _ _ _ _ _ _ _ hfa (by simp [sys, hlen]) (by simp [swallows])]
        exact hm.ofRaise (by simp) _ _
      cases hft : fs t with
      | none =>
        rw [step_ok _ _ _ _ _ _ _ _ _ _ hfa (by simp [sys, hlen, hft]; exact ⟨rfl, rfl⟩)]
        exact hm.ofEarly (by simp [body, tail4]) (by simp [body, tail4]) (by simp [hgt])
          (by simp [body, tail4]) _ _ (by simp)
      | some f0 =>
        rw [step_ok _ _ _ _ _ _ _ _ _ _ hfa (by simp [sys, hlen, hft]; exact ⟨rfl, rfl⟩)]
        exact hm.ofEarly (by simp [body, tail4]) (by simp [body, tail4]) (by simp [hgt])
          (by simp [body, tail4]) _ _ (by simp)
  · -- write / close
    simp only at h; subst h
    cases cs with
    | nil =>
      simp only [body, List.map_nil, List.nil_append] at hm ⊢
      cases hfa : fault idx with
      | some e =>
        rw [step_fault_raise _ _ _ _ _ _ _ _ _ _ hfa (by simp [swallows])]
        exact hm.ofRaise (by simp) _ _
      | none =>
        rw [step_ok _ _ _ _ _ _ _ _ _ _ hfa (by simp [sys]; exact ⟨rfl, rfl⟩)]
        exact hm.ofEarly (by simp [tail4]) (by simp [tail4]) rfl (by simp [tail4]) _ _ (by simp)
    | cons c cs =>
      simp only [body, List.map_cons, List.cons_append] at hm ⊢
      cases hfa : fault idx with
      | some e =>
        rw [step_fault_raise _ _ _ _ _ _ _ _ _ _ hfa (by simp [swallows])]
        exact hm.ofRaise (by simp) _ _
      | none =>
        rw [step_ok _ _ _ _ _ _ _ _ _ _ hfa (by simp [sys, hf]; exact ⟨rfl, rfl⟩)]
        exact hm.ofEarly (by simp [tail4]) (by simp [tail4]) (by simp [hgt])
          (by simp [tail4]) _ _ (by simp)
  · simp only at h
    simp only [tails, tail4, List.mem_cons, List.mem_nil_iff, or_false] at h
    rcases h with h | h | h | h <;> subst h
    · -- stat
      have hnd : ¬ Proc.done (⟨[.stat g, .chmod t, .chown t, .rename t g], st, idx, err, log⟩ : Proc α) := by
        simp [Proc.done]
      have hgo := hm.tgt hnd
      have hno : ¬ chmodOk t (⟨[.stat g, .chmod t, .chown t, .rename t g], st, idx, err, log⟩ : Proc α) := by
        intro hc; have := hm.early hc; simp at this
      cases hfa : fault idx with
      | some e =>
        cases hs : swallows strict (Op.stat g : Op α) e with
        | true =>
          rw [step_fault_sw _ _ _ _ _ _ _ _ _ _ hfa hs, dropWhile_g3]
          have hno' : ¬ chmodOk t (⟨[.rename t g], st, idx + 1, none, log ++ [(.stat g, some e)]⟩ : Proc α) := by
            rw [chmodOk_append t [.stat g, .chmod t, .chown t, .rename t g] _ st st idx _ err]
            rintro (hc | ⟨hc, _⟩)
            · exact hno hc
            · simp at hc
          refine ⟨fun _ => hgo, by simp, fun hc => absurd hc hno', fun hc => absurd hc hno',
                  fun hc => absurd hc hno', ?_⟩
          intro hs' _
          obtain ⟨h1, h2⟩ := hS hs'
          subst h1
          simp [swallows] at hs
          exact absurd (hs ▸ hfa) (h2 idx)
        | false =>
          rw [step_fault_raise _ _ _ _ _ _ _ _ _ _ hfa hs]
          exact hm.ofRaise (by simp) _ _
      | none =>
        rw [step_ok _ _ _ _ _ _ _ _ _ _ hfa (by simp [sys, hgo]; exact ⟨rfl, rfl⟩)]
        exact hm.ofEarly (by simp) (by simp) rfl (fun _ => rfl) _ _ (by simp)
    · -- chmod
      have hst : st = some (fo.mode, fo.gid) := hm.st3 (by simp)
      subst hst
      have hnd : ¬ Proc.done (⟨[.chmod t, .chown t, .rename t g], some (fo.mode, fo.gid), idx, err, log⟩ : Proc α) := by
        simp [Proc.done]
      have hgo := hm.tgt hnd
      have hno : ¬ chmodOk t (⟨[.chmod t, .chown t, .rename t g], some (fo.mode, fo.gid), idx, err, log⟩ : Proc α) := by
        intro hc; have := hm.early hc; simp at this
      cases hfa : fault idx with
      | some e =>
        cases hs : swallows strict (Op.chmod t : Op α) e with
        | true =>
          rw [step_fault_sw _ _ _ _ _ _ _ _ _ _ hfa hs, dropWhile_g2]
          have hno' : ¬ chmodOk t (⟨[.rename t g], some (fo.mode, fo.gid), idx + 1, none, log ++ [(.chmod t, some e)]⟩ : Proc α) := by
            rw [chmodOk_append t [.chmod t, .chown t, .rename t g] _ (some (fo.mode, fo.gid)) (some (fo.mode, fo.gid)) idx _ err]
            rintro (hc | ⟨_, hc⟩)
            · exact hno hc
            · simp at hc
          refine ⟨fun _ => hgo, by simp, fun hc => absurd hc hno', fun hc => absurd hc hno',
                  fun hc => absurd hc hno', ?_⟩
          intro hs' _
          obtain ⟨h1, _⟩ := hS hs'
          subst h1
          simp [swallows] at hs
        | false =>
          rw [step_fault_raise _ _ _ _ _ _ _ _ _ _ hfa hs]
          exact hm.ofRaise (by simp) _ _
      | none =>
        rw [step_ok _ _ _ _ _ _ _ _ _ _ hfa (by simp [sys, hf]; exact ⟨rfl, rfl⟩)]
        have hok : chmodOk t (⟨[.chown t, .rename t g], some (fo.mode, fo.gid), idx + 1, none, log ++ [(.chmod t, none)]⟩ : Proc α) := by
          simp [chmodOk]
        refine ⟨fun _ => by simpa [hgt] using hgo, by simp, fun _ => by simp, ?_, ?_, fun _ _ => hok⟩
        · intro _ _; exact ⟨{ f with mode := fo.mode }, FS.set_same _ _ _, rfl⟩
        · intro _ hd; simp [Proc.done] at hd
    · -- chown
      have hnd : ¬ Proc.done (⟨[.chown t, .rename t g], st, idx, err, log⟩ : Proc α) := by simp [Proc.done]
      have hgo := hm.tgt hnd
      have hskip : ∀ e : Errno, MInv t g fo S fs
          ⟨[.rename t g], st, idx + 1, none, log ++ [(.chown t, some e)]⟩ := by
        intro e
        have hiff := chmodOk_append t [.chown t, .rename t g] [.rename t g] st st idx (idx + 1) err none log (.chown t) (some e)
        have hback : chmodOk t (⟨[.rename t g], st, idx + 1, none, log ++ [(.chown t, some e)]⟩ : Proc α) →
            chmodOk t (⟨[.chown t, .rename t g], st, idx, err, log⟩ : Proc α) := by
          intro hc; rcases hiff.mp hc with hc | ⟨hc, _⟩
          · exact hc
          · simp at hc
        refine ⟨fun _ => hgo, by simp, fun _ => by simp, fun hc _ => hm.tmpm (hback hc) (by simp), ?_, ?_⟩
        · intro _ hd; simp [Proc.done] at hd
        · intro hs' _; exact hiff.mpr (Or.inl (hm.strictOk hs' (Or.inl rfl)))
      cases hfa : fault idx with
      | some e =>
        rw [step_fault_sw _ _ _ _ _ _ _ _ _ _ hfa (by simp [swallows]), dropWhile_g1]; exact hskip e
      | none =>
        cases st with
        | none =>
          rw [step_err_sw (e := EINTERNAL) _ _ _ _ _ _ _ _ _ _ hfa (by simp [sys]) (by simp [swallows]), dropWhile_g1]
          exact hskip _
        | some mg =>
          obtain ⟨m, gg⟩ := mg
          rw [step_ok _ _ _ _ _ _ _ _ _ _ hfa (by simp [sys, hf]; exact ⟨rfl, rfl⟩)]
          have hiff := chmodOk_append t [.chown t, .rename t g] [.rename t g] (some (m, gg)) (some (m, gg)) idx (idx + 1) err none log (.chown t) none
          have hback : chmodOk t (⟨[.rename t g], some (m, gg), idx + 1, none, log ++ [(.chown t, none)]⟩ : Proc α) →
              chmodOk t (⟨[.chown t, .rename t g], some (m, gg), idx, err, log⟩ : Proc α) := by
            intro hc; rcases hiff.mp hc with hc | ⟨hc, _⟩
            · exact hc
            · simp at hc
          refine ⟨fun _ => by simpa [hgt] using hgo, by simp, fun _ => by simp, ?_, ?_, ?_⟩
          · intro hc _
            obtain ⟨f1, hf1, hm1⟩ := hm.tmpm (hback hc) (by simp)
            have : f1 = f := by rw [hf] at hf1; exact (Option.some.inj hf1).symm
            subst this
            exact ⟨{ f1 with gid := gg, mode := killSugid f1.mode }, FS.set_same _ _ _, by
              show killSugid f1.mode = fo.mode
              rw [hm1]; exact hk⟩
          · intro _ hd; simp [Proc.done] at hd
          · intro hs' _; exact hiff.mpr (Or.inl (hm.strictOk hs' (Or.inl rfl)))
    · -- rename
      cases hfa : fault idx with
      | some e =>
        rw [step_fault_raise _ _ _ _ _ _ _ _ _ _ hfa (by simp [swallows])]
        exact hm.ofRaise (by simp) _ _
      | none =>
        rw [step_ok _ _ _ _ _ _ _ _ _ _ hfa (by simp [sys, hf]; exact ⟨rfl, rfl⟩)]
        have hiff := chmodOk_append t [.rename t g] [] st st idx (idx + 1) err none log (.rename t g) none
        have hback : chmodOk t (⟨[], st, idx + 1, none, log ++ [(.rename t g, none)]⟩ : Proc α) →
            chmodOk t (⟨[.rename t g], st, idx, err, log⟩ : Proc α) := by
          intro hc; rcases hiff.mp hc with hc | ⟨hc, _⟩
          · exact hc
          · simp at hc
        have hg' : ((fs.set g (some f)).set t none) g = some f := by simp [hgt]
        refine ⟨fun hnd => absurd ⟨rfl, rfl⟩ hnd, by simp, fun _ => by simp, fun _ hne => absurd rfl hne, ?_, ?_⟩
        · intro hc _
          obtain ⟨f1, hf1, hm1⟩ := hm.tmpm (hback hc) (by simp)
          have : f1 = f := by rw [hf] at hf1; exact (Option.some.inj hf1).symm
          subst this
          exact ⟨f1, hg', hm1⟩
        · intro hs' _; exact hiff.mpr (Or.inl (hm.strictOk hs' (Or.inr (Or.inl rfl))))

/-! ### one writer, no fault, target present: the calls issued are the program text -/

structure LInv (t g : Path) (ops : List (Op α)) (fs : FS α) (p : Proc α) : Prop where
  split : p.log.map Prod.fst ++ p.todo = ops
  allok : ∀ x ∈ p.log, x.2 = none
  noerr : p.err = none
  tgt : p.todo ≠ [] → ∃ fo, fs g = some fo
  st : (p.todo.length = 3 ∨ p.todo.length = 2) → ∃ mg, p.st = some mg

theorem LInv.ofOk {t g : Path} {ops : List (Op α)} {fs fs' : FS α} {op : Op α} {rest : List (Op α)}
    {st st' : StatRes} {idx : Nat} {err : Option Errno} {log : List (Op α × Option Errno)}
    (hl : LInv t g ops fs ⟨op :: rest, st, idx, err, log⟩) (hg : fs' g = fs g)
    (hst : (rest.length = 3 ∨ rest.length = 2) → ∃ mg, st' = some mg) :
    LInv t g ops fs' ⟨rest, st', idx + 1, none, log ++ [(op, none)]⟩ := by
  refine ⟨?_, ?_, rfl, fun _ => hg ▸ hl.tgt (by simp), hst⟩
  · have := hl.split; simp only at this; simp [← this]
  · intro x hx
    simp only [List.mem_append, List.mem_singleton] at hx
    rcases hx with hx | hx
    · exact hl.allok x hx
    · rw [hx]

theorem LInv.step (env : Env) (strict : Bool) {t g : Path} {new : List α} {ops : List (Op α)}
    (htg : t ≠ g) (hfit : ¬ env.nameMax < t.length) {fs : FS α} {p : Proc α} (h : CInv t g new fs p) (hl : LInv t g ops fs p) :
    LInv t g ops (p.step env strict noFaults fs).1 (p.step env strict noFaults fs).2 := by
  have hgt : g ≠ t := fun e => htg e.symm
  have hfa : ∀ i, noFaults i = none := fun _ => rfl
  obtain ⟨todo, st, idx, err, log⟩ := p
  rcases h with h | ⟨cs, h, hn⟩ | ⟨cs, f, h, hf, hn⟩ | ⟨f, hf, hn, h⟩
  · simp only at h; subst h; rw [step_nil]; exact hl
  · simp only at h; subst h
    unfold opsAt at hl ⊢
    cases hft : fs t with
    | none =>
      rw [step_ok _ _ _ _ _ _ _ _ _ _ (hfa idx) (by simp [sys, hfit, hft]; exact ⟨rfl, rfl⟩)]
      exact hl.ofOk (by simp [hgt]) (by simp [body, tail4])
    | some f0 =>
      rw [step_ok _ _ _ _ _ _ _ _ _ _ (hfa idx) (by simp [sys, hfit, hft]; exact ⟨rfl, rfl⟩)]
      exact hl.ofOk (by simp [hgt]) (by simp [body, tail4])
  · simp only at h; subst h
    cases cs with
    | nil =>
      simp only [body, List.map_nil, List.nil_append] at hl ⊢
      rw [step_ok _ _ _ _ _ _ _ _ _ _ (hfa idx) (by simp [sys]; exact ⟨rfl, rfl⟩)]
      exact hl.ofOk rfl (by simp [tail4])
    | cons c cs =>
      simp only [body, List.map_cons, List.cons_append] at hl ⊢
      rw [step_ok _ _ _ _ _ _ _ _ _ _ (hfa idx) (by simp [sys, hf]; exact ⟨rfl, rfl⟩)]
      exact hl.ofOk (by simp [hgt]) (by simp [tail4])
  · simp only at h
    simp only [tails, tail4, List.mem_cons, List.mem_nil_iff, or_false] at h
    rcases h with h | h | h | h <;> subst h
    · obtain ⟨fo, hgo⟩ := hl.tgt (by simp)
      rw [step_ok _ _ _ _ _ _ _ _ _ _ (hfa idx) (by simp [sys, hgo]; exact ⟨rfl, rfl⟩)]
      exact hl.ofOk rfl (fun _ => ⟨_, rfl⟩)
    · obtain ⟨⟨m, gg⟩, hst⟩ := hl.st (Or.inl rfl)
      simp only at hst; subst hst
      rw [step_ok _ _ _ _ _ _ _ _ _ _ (hfa idx) (by simp [sys, hf]; exact ⟨rfl, rfl⟩)]
      exact hl.ofOk (by simp [hgt]) (fun _ => ⟨_, rfl⟩)
    · obtain ⟨⟨m, gg⟩, hst⟩ := hl.st (Or.inr rfl)
      simp only at hst; subst hst
      rw [step_ok _ _ _ _ _ _ _ _ _ _ (hfa idx) (by simp [sys, hf]; exact ⟨rfl, rfl⟩)]
      exact hl.ofOk (by simp [hgt]) (by simp)
    · rw [step_ok _ _ _ _ _ _ _ _ _ _ (hfa idx) (by simp [sys, hf]; exact ⟨rfl, rfl⟩)]
      refine ⟨?_, ?_, rfl, fun h => absurd rfl h, by simp⟩
      · have := hl.split; simp only at this; simp [← this]
      · intro x hx
        simp only [List.mem_append, List.mem_singleton] at hx
        rcases hx with hx | hx
        · exact hl.allok x hx
        · rw [hx]

theorem log_eq_of_allok : ∀ (l : List (Op α × Option Errno)) (ops : List (Op α)),
    l.map Prod.fst = ops → (∀ x ∈ l, x.2 = none) → l = ops.map (fun o => (o, none)) := by
  intro l
  induction l with
  | nil => intro ops h _; subst h; rfl
  | cons x xs ih =>
    intro ops h hall
    subst h
    obtain ⟨o, r⟩ := x
    have hr : r = none := hall (o, r) (by simp)
    subst hr
    simp only [List.map_cons, List.cons.injEq, true_and]
    exact ih _ rfl (fun y hy => hall y (by simp [hy]))

theorem step_log_len (env : Env) (strict : Bool) (fault : Faults) (fs : FS α) (p : Proc α) (h : p.todo ≠ []) :
    (p.step env strict fault fs).2.log.length = p.log.length + 1 := by
  obtain ⟨todo, st, idx, err, log⟩ := p
  cases todo with
  | nil => exact absurd rfl h
  | cons op rest =>
    simp only [Proc.step]
    split
    · simp
    · split <;> simp

/-- fault-free prefix of a run over an existing target -/
theorem LInv.runN (env : Env) (strict : Bool) {t g : Path} {new : List α} {ops : List (Op α)} (htg : t ≠ g)
    (hfit : ¬ env.nameMax < t.length) (k : Nat) : ∀ {fs : FS α} {p : Proc α}, CInv t g new fs p → LInv t g ops fs p →
      p.log.length + k ≤ ops.length →
      LInv t g ops (runN env strict noFaults k fs p).1 (runN env strict noFaults k fs p).2 ∧
      (runN env strict noFaults k fs p).2.log.length = p.log.length + k := by
  induction k with
  | zero => intro fs p _ hl _; exact ⟨hl, rfl⟩
  | succ k ih =>
    intro fs p hc hl hk
    have hne : p.todo ≠ [] := by
      intro h0
      have := congrArg List.length hl.split
      simp [h0] at this
      omega
    have hc' := (step_facts env strict noFaults htg fs p hc).inv
    have hl' := hl.step env strict htg hfit hc
    have hlen := step_log_len env strict noFaults fs p hne
    obtain ⟨h1, h2⟩ := ih hc' hl' (by omega)
    exact ⟨h1, by simp only [Pfb.C08.runN]; omega⟩

theorem LInv.init (t g : Path) (cs : List (List α)) (fs : FS α) (fo : File α) (h : fs g = some fo) :
    LInv t g (opsAt t g cs) fs (Proc.init (opsAt t g cs)) :=
  ⟨rfl, fun x hx => by simp [Proc.init] at hx, rfl, fun _ => ⟨fo, h⟩, fun h3 => by
    simp [Proc.init, opsAt, body, tail4] at h3⟩

/-! ### one writer relative to the initial directory -/

/-- invariant of a single writer relative to the initial directory `fs0` -/
structure SInv (t g : Path) (new : List α) (fs0 fs : FS α) (p : Proc α) : Prop where
  c : CInv t g new fs p
  untouched : ¬ p.done → fs g = fs0 g
  replaced : p.done → ∃ f, fs g = some f ∧ f.content = new
  raised : p.err ≠ none → p.todo = []

theorem SInv.step (env : Env) (strict : Bool) (fault : Faults) {t g : Path} {new : List α} (htg : t ≠ g)
    {fs0 fs : FS α} {p : Proc α} (h : SInv t g new fs0 fs p) :
    SInv t g new fs0 (p.step env strict fault fs).1 (p.step env strict fault fs).2 := by
  have F := step_facts env strict fault htg fs p h.c
  by_cases hp : p.todo = []
  · rw [F.idle hp]; exact h
  · refine ⟨F.inv, ?_, ?_, fun he => (F.raised he).2⟩
    · intro hnd
      rcases F.target with e | ⟨_, h1, h2, _⟩
      · rw [e]; exact h.untouched (fun hd => hp hd.1)
      · exact absurd ⟨h1, h2⟩ hnd
    · intro hd
      exact F.finished hp hd.1 hd.2

theorem SInv.runN (env : Env) (strict : Bool) (fault : Faults) {t g : Path} {new : List α} (htg : t ≠ g)
    {fs0 : FS α} (k : Nat) : ∀ {fs : FS α} {p : Proc α}, SInv t g new fs0 fs p →
    SInv t g new fs0 (runN env strict fault k fs p).1 (runN env strict fault k fs p).2 := by
  induction k with
  | zero => intro fs p h; exact h
  | succ k ih => intro fs p h; exact ih (h.step env strict fault htg)

theorem SInv.init (t g : Path) (cs : List (List α)) (fs : FS α) :
    SInv t g cs.flatten fs fs (Proc.init (opsAt t g cs)) :=
  ⟨CInv_init t g cs fs, fun _ => rfl, fun hd => by simp [Proc.done, Proc.init, opsAt] at hd,
   fun he => by simp [Proc.init] at he⟩

theorem MInv.runN (env : Env) (strict : Bool) (fault : Faults) {t g : Path} {new : List α} {fo : File α}
    {S : Prop} (hS : S → strict = true ∧ ∀ i, fault i ≠ some ENOENT) (hk : killSugid fo.mode = fo.mode)
    (htg : t ≠ g) (k : Nat) :
    ∀ {fs : FS α} {p : Proc α}, CInv t g new fs p → MInv t g fo S fs p →
      MInv t g fo S (runN env strict fault k fs p).1 (runN env strict fault k fs p).2 := by
  induction k with
  | zero => intro fs p _ h; exact h
  | succ k ih =>
    intro fs p hc hm
    exact ih (step_facts env strict fault htg fs p hc).inv (hm.step env strict fault hS hk htg hc)

theorem MInv.init (t g : Path) (cs : List (List α)) (fs : FS α) (fo : File α) (S : Prop) (h : fs g = some fo) :
    MInv t g fo S fs (Proc.init (opsAt t g cs)) := by
  refine ⟨fun _ => h, ?_, ?_, ?_, ?_, ?_⟩
  · intro h3; simp [Proc.init, opsAt, body, tail4] at h3
  · intro hc; simp [chmodOk, Proc.init] at hc
  · intro hc; simp [chmodOk, Proc.init] at hc
  · intro hc; simp [chmodOk, Proc.init] at hc
  · intro _ h3
    rcases h3 with h3 | h3 | h3
    · simp [Proc.init, opsAt, body, tail4] at h3
    · simp [Proc.init, opsAt, body, tail4] at h3
    · simp [Proc.done, Proc.init, opsAt] at h3

/-! ### termination -/

theorem step_todo_lt (env : Env) (strict : Bool) (fault : Faults) (fs : FS α) (p : Proc α) (h : p.todo ≠ []) :
    (p.step env strict fault fs).2.todo.length < p.todo.length := by
  obtain ⟨todo, st, idx, err, log⟩ := p
  cases todo with
  | nil => exact absurd rfl h
  | cons op rest =>
    have hd : (List.dropWhile (Op.skips op) rest).length ≤ rest.length := (List.dropWhile_sublist _).length_le
    simp only [Proc.step]
    split
    · simp
    · split <;> simp <;> omega

theorem runN_finishes (env : Env) (strict : Bool) (fault : Faults) (k : Nat) :
    ∀ (fs : FS α) (p : Proc α), p.todo.length ≤ k → (runN env strict fault k fs p).2.todo = [] := by
  induction k with
  | zero => intro fs p h; exact List.length_eq_zero_iff.mp (Nat.le_zero.mp h)
  | succ k ih =>
    intro fs p h
    simp only [runN]
    apply ih
    by_cases hp : p.todo = []
    · have : (p.step env strict fault fs) = (fs, p) := by
        obtain ⟨todo, st, idx, err, log⟩ := p
        simp only at hp; subst hp; rfl
      rw [this]; simp [hp]
    · have := step_todo_lt env strict fault fs p hp
      omega

/-! ### two writers -/

/-- invariant of two concurrent writers of the same target -/
structure Inv2 (ta tb g : Path) (newA newB : List α) (old : Option (File α)) (s : Sys2 α) : Prop where
  a : CInv ta g newA s.fs s.a
  b : CInv tb g newB s.fs s.b
  target : s.fs g = old ∨ (∃ f, s.fs g = some f ∧ f.content = newA) ∨ (∃ f, s.fs g = some f ∧ f.content = newB)
  after : (s.a.done ∨ s.b.done) →
    (∃ f, s.fs g = some f ∧ f.content = newA) ∨ (∃ f, s.fs g = some f ∧ f.content = newB)

theorem Inv2.step (env : Env) (strict : Bool) (fa fb : Faults) {ta tb g : Path} {newA newB : List α}
    {old : Option (File α)} (hab : ta ≠ tb) (hag : ta ≠ g) (hbg : tb ≠ g) {s : Sys2 α}
    (h : Inv2 ta tb g newA newB old s) (who : Bool) :
    Inv2 ta tb g newA newB old (step2 env strict fa fb s who) := by
  cases who with
  | false =>
    have F := step_facts env strict fa hag s.fs s.a h.a
    by_cases hp : s.a.todo = []
    · have : step2 env strict fa fb s false = s := by
        simp only [step2, F.idle hp]; rfl
      rw [this]; exact h
    · have hb' : CInv tb g newB (s.a.step env strict fa s.fs).1 s.b :=
        h.b.frame (F.frame tb (fun e => hab e.symm) hbg)
      have e1 : step2 env strict fa fb s false =
          ⟨(s.a.step env strict fa s.fs).1, (s.a.step env strict fa s.fs).2, s.b⟩ := rfl
      rw [e1]
      refine ⟨F.inv, hb', ?_, ?_⟩ <;> dsimp only
      · rcases F.target with e | ⟨⟨f, _, h1, h2⟩, _⟩
        · rw [e]; exact h.target
        · exact Or.inr (Or.inl ⟨f, h1, h2⟩)
      · intro hd
        rcases F.target with e | ⟨⟨f, _, h1, h2⟩, _⟩
        · rcases hd with hd | hd
          · exact Or.inl (F.finished hp hd.1 hd.2)
          · rw [e]; exact h.after (Or.inr hd)
        · exact Or.inl ⟨f, h1, h2⟩
  | true =>
    have F := step_facts env strict fb hbg s.fs s.b h.b
    by_cases hp : s.b.todo = []
    · have : step2 env strict fa fb s true = s := by
        simp only [step2, F.idle hp]; rfl
      rw [this]; exact h
    · have ha' : CInv ta g newA (s.b.step env strict fb s.fs).1 s.a :=
        h.a.frame (F.frame ta hab hag)
      have e1 : step2 env strict fa fb s true =
          ⟨(s.b.step env strict fb s.fs).1, s.a, (s.b.step env strict fb s.fs).2⟩ := rfl
      rw [e1]
      refine ⟨ha', F.inv, ?_, ?_⟩ <;> dsimp only
      · rcases F.target with e | ⟨⟨f, _, h1, h2⟩, _⟩
        · rw [e]; exact h.target
        · exact Or.inr (Or.inr ⟨f, h1, h2⟩)
      · intro hd
        rcases F.target with e | ⟨⟨f, _, h1, h2⟩, _⟩
        · rcases hd with hd | hd
          · rw [e]; exact h.after (Or.inl hd)
          · exact Or.inr (F.finished hp hd.1 hd.2)
        · exact Or.inr ⟨f, h1, h2⟩

theorem Inv2.run (env : Env) (strict : Bool) (fa fb : Faults) {ta tb g : Path} {newA newB : List α}
    {old : Option (File α)} (hab : ta ≠ tb) (hag : ta ≠ g) (hbg : tb ≠ g) (sched : List Bool) :
    ∀ {s : Sys2 α}, Inv2 ta tb g newA newB old s →
      Inv2 ta tb g newA newB old (runSched env strict fa fb s sched) := by
  induction sched with
  | nil => intro s h; exact h
  | cons w ws ih => intro s h; exact ih (h.step env strict fa fb hab hag hbg w)

/-- the two writers before their first call -/
def start2 (fs : FS α) (target : Path) (pidA pidB : Nat) (chunksA chunksB : List (List α)) : Sys2 α :=
  ⟨fs, Proc.init (atomicWriteOps pidA target chunksA), Proc.init (atomicWriteOps pidB target chunksB)⟩

theorem Inv2.start (fs : FS α) (target : Path) (pidA pidB : Nat) (chunksA chunksB : List (List α)) :
    Inv2 (tmpName target pidA) (tmpName target pidB) target chunksA.flatten chunksB.flatten (fs target)
      (start2 fs target pidA pidB chunksA chunksB) :=
  ⟨CInv_init _ _ _ _, CInv_init _ _ _ _, Or.inl rfl, fun hd => by
    rcases hd with hd | hd <;> simp [Proc.done, start2, Proc.init, atomicWriteOps, opsAt] at hd⟩

end Pfb.C08
