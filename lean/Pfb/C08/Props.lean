/-
  Pfb.C08.Props — C08 "In-place file replacement is all-or-nothing".

  All theorems are about the model of `atomic_write_file` in `Pfb.C08.Model`; they hold for
  every element type of contents, every chunking of the data into `write(2)` calls, every
  previous state of the directory (target absent or present with any contents / mode / gid,
  stale temp file or not), every creation mode, every pid, every fault plan (any number of
  injected errors, any errno) and both exception policies (`strict`), unless said otherwise.

  * `C08_fault`            after ANY number `k` of call boundaries under ANY fault plan the target is
                           exactly what it was, or a file holding exactly the complete new data
  * `C08_crash`            the fault-free instance (process death after the first `k` calls)
  * `C08_fault_outcome`    the run ends; if it returns normally the target holds the new data; if it
                           raises the target is what it was (contents, mode, gid — or still absent)
  * `C08_ops_trace`        fault-free run over an existing target: after `k ≤ length ops` boundaries the
                           calls issued are exactly `take k (atomicWriteOps pid target chunks)`, all
                           successful; after `length ops` the call has returned normally
  * `C08_name_too_long`    temp name longer than NAME_MAX ⇒ raises ENAMETOOLONG at `open`, directory unchanged
  * `C08_mode_partial`     replacement happened and `chmod` succeeded ⇒ mode(target) = previous mode
  * `C08_mode_strict`      repaired policy: replacement happened, previous file existed, no injected
                           ENOENT ⇒ mode(target) = previous mode       (full-strength C08_mode)
  * `C08_mode_false_witness`  policy of the tree as found: the full-strength statement is FALSE (D6)
  * `C08_two_writers`      every interleaving of two writers with distinct pids, every fault plan: after every
                           prefix the target is the old file, or complete new_A, or complete new_B
  * `C08_two_writers_final`   … and once a writer has returned normally it is new_A or new_B
  * `tmpName_inj`, `tmpName_ne_target` (Lemmas)   distinct pids ⇒ distinct temp names, none equal to the target
-/
import Pfb.C08.Lemmas
namespace Pfb.C08

variable {α : Type}

/-! ## One writer: contents -/

/-- **C08_fault** — all-or-nothing at every call boundary under every fault plan:
after the first `k` calls of `atomic_write_file` (the process may die there), whatever
errors were injected, the target path holds exactly what it held before (same contents,
mode, group — or is still absent) or a file whose contents are exactly the complete new data. -/
theorem C08_fault (env : Env) (strict : Bool) (fault : Faults) (fs : FS α) (pid : Nat) (target : Path)
    (chunks : List (List α)) (k : Nat) :
    let r := runN env strict fault k fs (Proc.init (atomicWriteOps pid target chunks))
    r.1 target = fs target ∨ ∃ f, r.1 target = some f ∧ f.content = chunks.flatten := by
  intro r
  have h := (SInv.init (tmpName target pid) target chunks fs).runN env strict fault
    (tmpName_ne_target target pid) k
  by_cases hd : r.2.done
  · exact Or.inr (h.replaced hd)
  · exact Or.inl (h.untouched hd)

/-- **C08_crash** — the crash quantifier alone (no injected error): for every `k`, the
survivor of a process death after the first `k` calls finds the old file or the complete new one. -/
theorem C08_crash (env : Env) (strict : Bool) (fs : FS α) (pid : Nat) (target : Path)
    (chunks : List (List α)) (k : Nat) :
    let r := runN env strict noFaults k fs (Proc.init (atomicWriteOps pid target chunks))
    r.1 target = fs target ∨ ∃ f, r.1 target = some f ∧ f.content = chunks.flatten :=
  C08_fault env strict noFaults fs pid target chunks k

/-- **C08_fault_outcome** — every single (indeed every) injected OSError: the call ends; if it
returns normally the replacement is complete; if it raises the target is exactly what it was. -/
theorem C08_fault_outcome (env : Env) (strict : Bool) (fault : Faults) (fs : FS α) (pid : Nat) (target : Path)
    (chunks : List (List α)) :
    let r := run env strict fault fs (Proc.init (atomicWriteOps pid target chunks))
    r.2.todo = [] ∧
    (r.2.err = none → ∃ f, r.1 target = some f ∧ f.content = chunks.flatten) ∧
    (r.2.err ≠ none → r.1 target = fs target) := by
  intro r
  have hfin : r.2.todo = [] := runN_finishes env strict fault _ fs _ (Nat.le_refl _)
  have h := (SInv.init (tmpName target pid) target chunks fs).runN env strict fault
    (tmpName_ne_target target pid) (Proc.init (atomicWriteOps pid target chunks)).todo.length
  exact ⟨hfin, fun he => h.replaced ⟨hfin, he⟩, fun he => h.untouched (fun hd => he hd.2)⟩

/-- **C08_ops_trace** — the op list is the code's call sequence: over an existing target and
without faults, the temp name fitting the directory's NAME_MAX, after `k ≤ length ops` call boundaries the calls issued so far are exactly the
first `k` elements of `atomicWriteOps pid target chunks`, every one successful (so the states of
`C08_crash` are the states after `take k ops`), and after `length ops` boundaries the call has
returned normally. -/
theorem C08_ops_trace (env : Env) (strict : Bool) (fs : FS α) (pid : Nat) (target : Path)
    (chunks : List (List α)) (fo : File α) (hfo : fs target = some fo)
    (hfit : (tmpName target pid).length ≤ env.nameMax) (k : Nat)
    (hk : k ≤ (atomicWriteOps pid target chunks).length) :
    let r := runN env strict noFaults k fs (Proc.init (atomicWriteOps pid target chunks))
    r.2.log = ((atomicWriteOps pid target chunks).take k).map (fun o => (o, none)) ∧
    r.2.err = none ∧ (k = (atomicWriteOps pid target chunks).length → r.2.done) := by
  intro r
  have htg := tmpName_ne_target target pid
  obtain ⟨hl, hlen⟩ := (LInv.init (tmpName target pid) target chunks fs fo hfo).runN env strict htg (Nat.not_lt.mpr hfit) k
    (CInv_init (tmpName target pid) target chunks fs) (by simpa [Proc.init, atomicWriteOps] using hk)
  have hlen' : r.2.log.length = k := by simpa [r, Proc.init, atomicWriteOps] using hlen
  have hsplit : r.2.log.map Prod.fst ++ r.2.todo = atomicWriteOps pid target chunks := hl.split
  have htake : r.2.log.map Prod.fst = (atomicWriteOps pid target chunks).take k := by
    rw [← hsplit]
    exact (List.take_left' (by simpa using hlen')).symm
  refine ⟨log_eq_of_allok _ _ htake hl.allok, hl.noerr, fun hkk => ⟨?_, hl.noerr⟩⟩
  have := congrArg List.length hsplit
  simp only [List.length_append, List.length_map] at this
  exact List.length_eq_zero_iff.mp (by omega)

/-- **C08_name_too_long** — a target whose temp name `<target>.tmp.<pid>` exceeds the directory's NAME_MAX:
the very first call (`open`) fails, the call raises ENAMETOOLONG and nothing in the directory changes. -/
theorem C08_name_too_long (env : Env) (strict : Bool) (fault : Faults) (h0 : fault 0 = none) (fs : FS α) (pid : Nat)
    (target : Path) (chunks : List (List α)) (hlong : env.nameMax < (tmpName target pid).length) :
    let r := run env strict fault fs (Proc.init (atomicWriteOps pid target chunks))
    r.2.err = some ENAMETOOLONG ∧ r.2.todo = [] ∧ r.1 = fs := by
  have hidle : ∀ (k : Nat) (fs : FS α) (p : Proc α), p.todo = [] → runN env strict fault k fs p = (fs, p) := by
    intro k
    induction k with
    | zero => intro fs p _; rfl
    | succ k ih =>
      intro fs p hp
      obtain ⟨todo, st, idx, err, log⟩ := p
      simp only at hp; subst hp
      simp only [runN, step_nil]
      exact ih _ _ rfl
  have hstep : (Proc.init (atomicWriteOps pid target chunks) : Proc α).step env strict fault fs =
      (fs, ⟨[], none, 0 + 1, some ENAMETOOLONG, [] ++ [(Op.openTrunc (tmpName target pid), some ENAMETOOLONG)]⟩) :=
    step_err_raise (e := ENAMETOOLONG) env strict fault fs _ _ _ _ _ _ h0 (by simp [sys, hlong]) (by simp [swallows])
  have hlenp : (Proc.init (atomicWriteOps pid target chunks) : Proc α).todo.length = (chunks.length + 5) + 1 := by
    simp [Proc.init, atomicWriteOps, opsAt, body, tail4]
  intro r
  have hr : r = (fs, ⟨[], none, 0 + 1, some ENAMETOOLONG, [] ++ [(Op.openTrunc (tmpName target pid), some ENAMETOOLONG)]⟩) := by
    show run env strict fault fs _ = _
    unfold run
    rw [hlenp]
    simp only [runN]
    rw [hstep]
    exact hidle _ _ _ rfl
  rw [hr]
  exact ⟨rfl, rfl, rfl⟩

example : (atomicWriteOps 7 ['t'] [[1], [2, 3]] : List (Op Nat)) =
    [.openTrunc (tmpName ['t'] 7), .write (tmpName ['t'] 7) [1], .write (tmpName ['t'] 7) [2, 3],
     .close (tmpName ['t'] 7), .stat ['t'], .chmod (tmpName ['t'] 7), .chown (tmpName ['t'] 7),
     .rename (tmpName ['t'] 7) ['t']] := rfl

/-! ## One writer: permission bits -/

/-- **C08_mode_partial** — (`hk`: the previous mode has no set-user-ID bit and no set-group-ID bit
together with group-execute — the bits `chown(2)` clears, see H1 below.)  Whatever the faults and the policy: if the call returned normally
(the replacement happened) and its `chmod` of the temp file succeeded (which implies that the
`stat` of the target had succeeded), the target carries the previous file's permission bits. -/
theorem C08_mode_partial (env : Env) (strict : Bool) (fault : Faults) (fs : FS α) (pid : Nat) (target : Path)
    (chunks : List (List α)) (fo : File α) (hfo : fs target = some fo)
    (hk : killSugid fo.mode = fo.mode) (k : Nat) :
    let r := runN env strict fault k fs (Proc.init (atomicWriteOps pid target chunks))
    r.2.done → chmodOk (tmpName target pid) r.2 → ∃ f, r.1 target = some f ∧ f.mode = fo.mode := by
  intro r hd hc
  have hm := (MInv.init (tmpName target pid) target chunks fs fo False hfo).runN env strict fault
    (fun h => h.elim) hk (tmpName_ne_target target pid) k (CInv_init _ _ _ _)
  exact hm.fin hc hd

/-- a directory with a private previous file `t` = ([9], 0600, gid 5) -/
def exFs : FS Nat := fun p => if p = ['t'] then some ⟨[9], 384, 5⟩ else none

/-- the hypotheses of `C08_mode_partial` are satisfiable (fault-free run, 0600 file, two chunks) -/
example :
    (fun r : FS Nat × Proc Nat =>
      (r.2.todo = [] ∧ r.2.err = none) ∧ ((Op.chmod ['x'] : Op Nat), (none : Option Errno)) ∈ r.2.log ∧
        (r.1 ['t']).map File.mode = some 384)
    (run ⟨420, 0, 255⟩ false noFaults exFs (Proc.init (opsAt ['x'] ['t'] [[1], [2]]))) := by decide

/-- **C08_mode_strict** — (partial since H1: `hk` excludes the previous modes whose bits the `chown`
that FOLLOWS the `chmod` clears again; the order of fixes/C08-H1.diff does not need it, see
`C08_mode_sugid_witness`.)  `C08_mode` for the repaired exception policy
(`strict = true`, fixes/C08-D6.diff): for EVERY fault plan that does not make `stat` lie about
the file's existence (no injected ENOENT), if a previous file existed and the call returns
normally, the target carries the previous file's permission bits. -/
theorem C08_mode_strict (env : Env) (fault : Faults) (hne : ∀ i, fault i ≠ some ENOENT) (fs : FS α) (pid : Nat)
    (target : Path) (chunks : List (List α)) (fo : File α) (hfo : fs target = some fo)
    (hk : killSugid fo.mode = fo.mode) (k : Nat) :
    let r := runN env true fault k fs (Proc.init (atomicWriteOps pid target chunks))
    r.2.done → ∃ f, r.1 target = some f ∧ f.mode = fo.mode := by
  intro r hd
  have hm := (MInv.init (tmpName target pid) target chunks fs fo True hfo).runN env true fault
    (fun _ => ⟨rfl, hne⟩) hk (tmpName_ne_target target pid) k (CInv_init _ _ _ _)
  exact hm.fin (hm.strictOk trivial (Or.inr (Or.inr hd))) hd

/-- `C08_mode_strict` is not vacuous: under the repaired policy an EIO at `chown` (call 5) is
ignored, the call returns normally and the mode is kept -/
example :
    (fun r : FS Nat × Proc Nat => (r.2.todo = [] ∧ r.2.err = none) ∧ (r.1 ['t']).map File.mode = some 384)
    (run ⟨420, 0, 255⟩ true (fun i => if i = 5 then some 5 else none) exFs (Proc.init (opsAt ['x'] ['t'] [[1]]))) := by
  decide

/-! ### Witness: D6.  Target of the repair = `C08_mode_strict` with `strict` arbitrary, i.e.

    theorem C08_mode … (hne : ∀ i, fault i ≠ some ENOENT) (hfo : fs target = some fo) :
      r.2.done → ∃ f, r.1 target = some f ∧ f.mode = fo.mode

For `strict = false` (the code as found) it is false: -/

/-- **C08_mode_false_witness** (D6) — the tree as found (`strict = false`): previous file
`t` = ("old", 0600), creation mode 0644, one chunk, an injected EIO (errno 5) at call 4
(`chmod`): the call returns normally, the target holds the complete new contents, and its
mode is 0644 — the private file has become world-readable, silently.  The same plan with an
error at call 3 (`stat`) gives the same result. -/
theorem C08_mode_false_witness :
    let fs : FS Nat := fun p => if p = ['t'] then some ⟨[0], 0o600, 0⟩ else none
    let chmodFails : Faults := fun i => if i = 4 then some 5 else none
    let statFails : Faults := fun i => if i = 3 then some 5 else none
    let r := run ⟨0o644, 0, 255⟩ false chmodFails fs (Proc.init (opsAt ['x'] ['t'] [[1]]))
    let r' := run ⟨0o644, 0, 255⟩ false statFails fs (Proc.init (opsAt ['x'] ['t'] [[1]]))
    (r.2.todo = [] ∧ r.2.err = none ∧ r.1 ['t'] = some ⟨[1], 0o644, 0⟩) ∧
    (r'.2.todo = [] ∧ r'.2.err = none ∧ r'.1 ['t'] = some ⟨[1], 0o644, 0⟩) ∧
    ¬ (∀ (fault : Faults), (∀ i, fault i ≠ some ENOENT) →
        let q := run ⟨0o644, 0, 255⟩ false fault fs (Proc.init (opsAt ['x'] ['t'] [[1]]))
        q.2.done → ∃ f, q.1 ['t'] = some f ∧ f.mode = 0o600) := by
  refine ⟨by decide, by decide, ?_⟩
  intro h
  have h1 := h (fun i => if i = 4 then some 5 else none) (by intro i; by_cases hi : i = 4 <;> simp [hi, ENOENT])
  have hd : (run ⟨0o644, 0, 255⟩ false (fun i => if i = 4 then some 5 else none)
      (fun p => if p = ['t'] then some (⟨[0], 0o600, 0⟩ : File Nat) else none)
      (Proc.init (opsAt ['x'] ['t'] [[1]]))).2.done := by
    unfold Proc.done; decide
  obtain ⟨f, hf, hmode⟩ := h1 hd
  have hex : (run ⟨0o644, 0, 255⟩ false (fun i => if i = 4 then some 5 else none)
      (fun p => if p = ['t'] then some (⟨[0], 0o600, 0⟩ : File Nat) else none)
      (Proc.init (opsAt ['x'] ['t'] [[1]]))).1 ['t'] = some ⟨[1], 0o644, 0⟩ := by decide
  rw [hex] at hf
  have := (Option.some.inj hf)
  rw [← this] at hmode
  simp at hmode

/-! ### Witness: H1 (set-user-ID / set-group-ID bits).  `atomic_write_file` calls `chmod(tmp, st_mode)` and THEN
`chown(tmp, -1, st_gid)`; Linux `chown` clears S_ISUID and (for a group-executable file) S_ISGID, so the bits
just copied are lost.  With `chown` first and `chmod` last (fixes/C08-H1.diff, `opsAtCF`) they are kept. -/

example : killSugid 0o2755 = 0o755 ∧ killSugid 0o4755 = 0o755 ∧ killSugid 0o6755 = 0o755 ∧ killSugid 0o2644 = 0o2644 ∧
    killSugid 0o6644 = 0o2644 ∧ killSugid 0o1755 = 0o1755 ∧ killSugid 0o7777 = 0o1777 ∧ killSugid 0o644 = 0o644 := by decide

/-- **C08_mode_sugid_witness** (H1) — previous file `t` = ("old", 02755), creation mode 0644, one chunk, NO fault,
repaired exception policy: in the order as found the call returns normally with the complete new contents and
mode 0755 (so `C08_mode_strict` without `hk` is false); in the repaired order (`opsAtCF`) the mode is 02755,
also when `chown` fails (EPERM at call 4: not a member of the group), and a failing `chmod` (call 5) propagates
with the target untouched. -/
theorem C08_mode_sugid_witness :
    let fs : FS Nat := fun p => if p = ['t'] then some ⟨[0], 0o2755, 7⟩ else none
    let env : Env := ⟨0o644, 0, 255⟩
    let chownFails : Faults := fun i => if i = 4 then some 1 else none
    let chmodFails : Faults := fun i => if i = 5 then some 5 else none
    let r := run env true noFaults fs (Proc.init (opsAt ['x'] ['t'] [[1]]))
    let c := run env true noFaults fs (Proc.init (opsAtCF ['x'] ['t'] [[1]]))
    let c1 := run env true chownFails fs (Proc.init (opsAtCF ['x'] ['t'] [[1]]))
    let c2 := run env true chmodFails fs (Proc.init (opsAtCF ['x'] ['t'] [[1]]))
    (r.2.todo = [] ∧ r.2.err = none ∧ r.1 ['t'] = some ⟨[1], 0o755, 7⟩) ∧
    (c.2.todo = [] ∧ c.2.err = none ∧ c.1 ['t'] = some ⟨[1], 0o2755, 7⟩) ∧
    (c1.2.todo = [] ∧ c1.2.err = none ∧ c1.1 ['t'] = some ⟨[1], 0o2755, 0⟩) ∧
    (c2.2.todo = [] ∧ c2.2.err = some 5 ∧ c2.1 ['t'] = some ⟨[0], 0o2755, 7⟩) ∧
    ¬ (∀ (fo : File Nat), fs ['t'] = some fo →
        r.2.done → ∃ f, r.1 ['t'] = some f ∧ f.mode = fo.mode) := by
  refine ⟨by decide, by decide, by decide, by decide, ?_⟩
  intro h
  have hd : (run ⟨0o644, 0, 255⟩ true noFaults
      (fun p => if p = ['t'] then some (⟨[0], 0o2755, 7⟩ : File Nat) else none)
      (Proc.init (opsAt ['x'] ['t'] [[1]]))).2.done := by
    unfold Proc.done; decide
  obtain ⟨f, hf, hmode⟩ := h ⟨[0], 0o2755, 7⟩ (by decide) hd
  have hex : (run ⟨0o644, 0, 255⟩ true noFaults
      (fun p => if p = ['t'] then some (⟨[0], 0o2755, 7⟩ : File Nat) else none)
      (Proc.init (opsAt ['x'] ['t'] [[1]]))).1 ['t'] = some ⟨[1], 0o755, 7⟩ := by decide
  rw [hex] at hf
  have := (Option.some.inj hf)
  rw [← this] at hmode
  simp at hmode

/-- the repaired order issues the same calls up to `stat`, then `chown`, `chmod`, `rename`; ENOENT at `stat` skips both -/
example : (atomicWriteOpsCF 7 ['t'] [[1]] : List (Op Nat)) =
    [.openTrunc (tmpName ['t'] 7), .write (tmpName ['t'] 7) [1], .close (tmpName ['t'] 7), .stat ['t'],
     .chown (tmpName ['t'] 7), .chmod (tmpName ['t'] 7), .rename (tmpName ['t'] 7) ['t']] := rfl

example : (run ⟨0o644, 0, 255⟩ true noFaults (fun _ => none) (Proc.init (opsAtCF ['x'] ['t'] [[1]] : List (Op Nat)))).2.log.map Prod.fst =
    [.openTrunc ['x'], .write ['x'] [1], .close ['x'], .stat ['t'], .rename ['x'] ['t']] := by decide

/-! ## Two writers -/

/-- **C08_two_writers** — for EVERY interleaving (`sched` is an arbitrary list of scheduler
choices, so every prefix of an interleaving is covered too — these are the intermediate
states and the crash points of the pair) of two writers with distinct pids, every chunking,
every fault plan of either: the target is the old file (untouched), or a file holding
exactly writer A's complete data, or exactly writer B's. -/
theorem C08_two_writers (env : Env) (strict : Bool) (fa fb : Faults) (fs : FS α) (target : Path)
    (pidA pidB : Nat) (hpid : pidA ≠ pidB) (chunksA chunksB : List (List α)) (sched : List Bool) :
    let s := runSched env strict fa fb (start2 fs target pidA pidB chunksA chunksB) sched
    s.fs target = fs target ∨ (∃ f, s.fs target = some f ∧ f.content = chunksA.flatten) ∨
      (∃ f, s.fs target = some f ∧ f.content = chunksB.flatten) :=
  ((Inv2.start fs target pidA pidB chunksA chunksB).run env strict fa fb (tmpName_ne target hpid)
    (tmpName_ne_target target pidA) (tmpName_ne_target target pidB) sched).target

/-- **C08_two_writers_final** — as soon as one of the two has returned normally (in
particular when both have), the contents are one writer's complete output. -/
theorem C08_two_writers_final (env : Env) (strict : Bool) (fa fb : Faults) (fs : FS α) (target : Path)
    (pidA pidB : Nat) (hpid : pidA ≠ pidB) (chunksA chunksB : List (List α)) (sched : List Bool) :
    let s := runSched env strict fa fb (start2 fs target pidA pidB chunksA chunksB) sched
    (s.a.done ∨ s.b.done) →
    (∃ f, s.fs target = some f ∧ f.content = chunksA.flatten) ∨
      (∃ f, s.fs target = some f ∧ f.content = chunksB.flatten) :=
  ((Inv2.start fs target pidA pidB chunksA chunksB).run env strict fa fb (tmpName_ne target hpid)
    (tmpName_ne_target target pidA) (tmpName_ne_target target pidB) sched).after

/-- the hypothesis `pidA ≠ pidB` is needed: with one temp name for both (same pid — the model's
path-addressed `write` then lets both append to one file) an interleaving leaves a mixed file -/
example :
    ((runSched ⟨420, 0, 255⟩ false noFaults noFaults
      (⟨exFs, Proc.init (opsAt ['x'] ['t'] [[1]]), Proc.init (opsAt ['x'] ['t'] [[2]])⟩ : Sys2 Nat)
      [false, true, false, true, false, false, false, false, false]).fs ['t']).map File.content
      = some [1, 2] := by decide

end Pfb.C08
