/-
  Pfb.C08.Model — executable model of `pyflyby._file.atomic_write_file`
  (lib/python/pyflyby/_file.py:675-692) and of the part of the file system it talks to.

      def write_file(filename, data):
          with open(str(filename), 'w') as f:          -- open(O_WRONLY|O_CREAT|O_TRUNC, 0666); write(2)*; close(2)
              f.write(data.joined)
      def atomic_write_file(filename, data):
          temp_filename = Filename("%s.tmp.%s" % (filename, os.getpid(),))
          write_file(temp_filename, data)              -- errors propagate
          try:
              st = os.stat(str(filename))              -- OSError if file didn't exist before
              os.chmod(str(temp_filename), st.st_mode)
              os.chown(str(temp_filename), -1, st.st_gid)
          except OSError:                              -- ONE handler for the three calls
              pass
          os.rename(str(temp_filename), str(filename)) -- errors propagate

  The model follows the code that exists: the three calls of the `try` block are *guarded*;
  an error of a guarded call abandons the rest of the block and execution continues at
  `rename`.  `strict = true` is the exception policy of the proposed repair
  (fixes/C08-D6.diff): only `stat` reporting ENOENT skips the copy of the permission bits,
  only `chown` errors are ignored, every other error propagates before `rename`.
  The harness probes the real code once to learn which policy it has; the theorems about
  contents hold for both.

  File contents are `List α` for an arbitrary `α` (the code never inspects the data), so the
  correspondence check may send one symbol per real `write(2)` chunk.

  Modelling decisions (see notes/C08.md):
  * a process is the list of calls it still has to issue (`todo`), the saved `os.stat`
    result, the number of calls issued so far and the propagating error, if any;
  * `write` is addressed by path; between `open` and `close` of a temp file nothing renames
    or unlinks that path as long as the two writers' temp names differ (pidA ≠ pidB);
  * a failed call has no effect on the file system;
  * only `open` checks the length of the name (the other calls are reached after it succeeded,
    and the target's own name exists, hence fits);
  * no permission checks (the checks run as the file's owner; error paths are reached by
    fault injection), no hard links, no directories.
-/
import Pfb.Basic
namespace Pfb.C08

/-- a regular file: bytes, permission bits, group -/
structure File (α : Type) where
  content : List α
  mode : Nat
  gid : Nat
deriving DecidableEq, Repr

abbrev Path := Pfb.Str

/-- the directory: path ↦ file | absent -/
abbrev FS (α : Type) := Path → Option (File α)

def FS.set {α : Type} (fs : FS α) (p : Path) (v : Option (File α)) : FS α :=
  fun q => if q = p then v else fs q

abbrev Errno := Nat
def ENOENT : Errno := 2
/-- stands for the Python-level `NameError`/misuse that the real call sequence never reaches -/
def EINTERNAL : Errno := 0
def ENAMETOOLONG : Errno := 36

inductive Op (α : Type) where
  | openTrunc (p : Path)
  | write (p : Path) (c : List α)
  | close (p : Path)
  | stat (p : Path)
  | chmod (p : Path)
  | chown (p : Path)
  | rename (src dst : Path)
deriving DecidableEq, Repr

/-- calls inside the `try: … except OSError: pass` block -/
def Op.guarded {α : Type} : Op α → Bool
  | .stat _ => true
  | .chmod _ => true
  | .chown _ => true
  | _ => false

/-- `o` is skipped when an error of `op` has been swallowed: an error of `stat` (or, in the tree
as found, of `chmod`) abandons the rest of the copy of mode and group; an error of `chown` is
ignored on its own (in the program as found nothing guarded follows `chown`, so this is the
same as "abandon the rest of the block" there; in the repaired order `chmod` still runs). -/
def Op.skips {α : Type} (op o : Op α) : Bool :=
  match op with
  | .chown _ => false
  | _ => o.guarded

/-- Linux `chown(2)` on a regular file clears S_ISUID (04000) always and S_ISGID (02000) when the
file is group-executable (0010), also for root; the sticky bit and S_ISGID without group-execute
(mandatory-locking marker) stay.  Observed on the sandbox kernel for all 30 probed modes. -/
def killSugid (m : Nat) : Nat :=
  let m1 := if m / 2048 % 2 = 1 then m - 2048 else m
  if m1 / 1024 % 2 = 1 ∧ m1 / 8 % 2 = 1 then m1 - 1024 else m1

/-- creation attributes: `0666 & ~umask`, effective gid; `nameMax` = the directory's
`pathconf(PC_NAME_MAX)` (paths of the model are names inside one directory) -/
structure Env where
  dflt : Nat
  dgid : Nat
  nameMax : Nat

/-- what `st = os.stat(target)` saved: (st_mode permission bits, st_gid) -/
abbrev StatRes := Option (Nat × Nat)

/-- kernel effect of one call issued by a process whose saved stat result is `st` -/
def sys {α : Type} (env : Env) (fs : FS α) (st : StatRes) : Op α → Except Errno (FS α × StatRes)
  | .openTrunc p =>
    if env.nameMax < p.length then .error ENAMETOOLONG      -- the temp name of a long target name does not fit
    else match fs p with
    | some f => .ok (fs.set p (some { f with content := [] }), st)
    | none => .ok (fs.set p (some ⟨[], env.dflt, env.dgid⟩), st)
  | .write p c =>
    match fs p with
    | some f => .ok (fs.set p (some { f with content := f.content ++ c }), st)
    | none => .error EINTERNAL
  | .close _ => .ok (fs, st)
  | .stat p =>
    match fs p with
    | some f => .ok (fs, some (f.mode, f.gid))
    | none => .error ENOENT
  | .chmod p =>
    match st, fs p with
    | some (m, _), some f => .ok (fs.set p (some { f with mode := m }), st)
    | none, _ => .error EINTERNAL
    | _, none => .error ENOENT
  | .chown p =>
    match st, fs p with
    | some (_, g), some f => .ok (fs.set p (some { f with gid := g, mode := killSugid f.mode }), st)
    | none, _ => .error EINTERNAL
    | _, none => .error ENOENT
  | .rename s d =>
    match fs s with
    | some f => .ok ((fs.set d (some f)).set s none, st)
    | none => .error ENOENT

/-- Is error `e` of call `op` caught by the code's handler?  `strict = false`: the tree as
found (one `except OSError: pass` around stat/chmod/chown).  `strict = true`: repaired. -/
def swallows {α : Type} (strict : Bool) : Op α → Errno → Bool
  | .stat _, e => !strict || e == ENOENT
  | .chmod _, _ => !strict
  | .chown _, _ => true
  | _, _ => false

/-- a running instance of `atomic_write_file` -/
structure Proc (α : Type) where
  todo : List (Op α)
  st : StatRes := none
  idx : Nat := 0
  err : Option Errno := none
  /-- the calls issued so far with their result (`none` = success), oldest first -/
  log : List (Op α × Option Errno) := []

/-- fault plan: the i-th call issued by the process fails with the given errno -/
abbrev Faults := Nat → Option Errno

def noFaults : Faults := fun _ => none

/-- One call boundary: the process issues its next call. -/
def Proc.step {α : Type} (env : Env) (strict : Bool) (fault : Faults) (fs : FS α) (p : Proc α) :
    FS α × Proc α :=
  match p.todo with
  | [] => (fs, p)
  | op :: rest =>
    let r := match fault p.idx with
      | some e => Except.error e
      | none => sys env fs p.st op
    match r with
    | .ok (fs', st') =>
      (fs', { todo := rest, st := st', idx := p.idx + 1, err := none, log := p.log ++ [(op, none)] })
    | .error e =>
      if swallows strict op e then
        (fs, { todo := rest.dropWhile (Op.skips op), st := p.st, idx := p.idx + 1, err := none,
               log := p.log ++ [(op, some e)] })
      else
        (fs, { todo := [], st := p.st, idx := p.idx + 1, err := some e, log := p.log ++ [(op, some e)] })

/-- the first `k` call boundaries (a crash after `k` calls leaves `(runN … k fs p).1`) -/
def runN {α : Type} (env : Env) (strict : Bool) (fault : Faults) : Nat → FS α → Proc α → FS α × Proc α
  | 0, fs, p => (fs, p)
  | k + 1, fs, p =>
    let r := p.step env strict fault fs
    runN env strict fault k r.1 r.2

/-- run to the end (every step consumes at least one pending call) -/
def run {α : Type} (env : Env) (strict : Bool) (fault : Faults) (fs : FS α) (p : Proc α) : FS α × Proc α :=
  runN env strict fault p.todo.length fs p

def Proc.completed {α : Type} (p : Proc α) : Bool := p.todo.isEmpty && p.err.isNone
def Proc.running {α : Type} (p : Proc α) : Bool := !p.todo.isEmpty

/-! ### the program -/

def tail4 {α : Type} (t g : Path) : List (Op α) := [.stat g, .chmod t, .chown t, .rename t g]

def body {α : Type} (t g : Path) (cs : List (List α)) : List (Op α) :=
  cs.map (Op.write t) ++ Op.close t :: tail4 t g

/-- the call sequence with temp path `t` and target `g` -/
def opsAt {α : Type} (t g : Path) (cs : List (List α)) : List (Op α) :=
  Op.openTrunc t :: body t g cs

/-- decimal rendering, `"%s" % n` -/
def digit (d : Nat) : Char :=
  match d with
  | 0 => '0' | 1 => '1' | 2 => '2' | 3 => '3' | 4 => '4'
  | 5 => '5' | 6 => '6' | 7 => '7' | 8 => '8' | _ => '9'

def decimal (n : Nat) : Str :=
  if n < 10 then [digit n] else decimal (n / 10) ++ [digit (n % 10)]
termination_by n
decreasing_by omega

/-- `"%s.tmp.%s" % (filename, os.getpid())` -/
def tmpName (target : Path) (pid : Nat) : Path :=
  target ++ ['.', 't', 'm', 'p', '.'] ++ decimal pid

/-- `atomicWriteOps pid target chunks`: open-trunc tmp, write chunk*, close, stat target,
chmod tmp, chown tmp, rename tmp → target.  (The data is `chunks.flatten`.) -/
def atomicWriteOps {α : Type} (pid : Nat) (target : Path) (chunks : List (List α)) : List (Op α) :=
  opsAt (tmpName target pid) target chunks

/-! ### the repaired order (fixes/C08-H1.diff): `chown` first, `chmod` last

      st = os.stat(target)                 -- FileNotFoundError: nothing to carry over
      try: os.chown(temp, -1, st.st_gid)   -- errors ignored
      except OSError: pass
      os.chmod(temp, st.st_mode)           -- errors propagate
-/

def tail4CF {α : Type} (t g : Path) : List (Op α) := [.stat g, .chown t, .chmod t, .rename t g]

def opsAtCF {α : Type} (t g : Path) (cs : List (List α)) : List (Op α) :=
  Op.openTrunc t :: (cs.map (Op.write t) ++ Op.close t :: tail4CF t g)

def atomicWriteOpsCF {α : Type} (pid : Nat) (target : Path) (chunks : List (List α)) : List (Op α) :=
  opsAtCF (tmpName target pid) target chunks

def Proc.init {α : Type} (ops : List (Op α)) : Proc α := { todo := ops }

/-! ### two writers -/

structure Sys2 (α : Type) where
  fs : FS α
  a : Proc α
  b : Proc α

/-- the scheduler lets writer A (`false`) or B (`true`) issue one call -/
def step2 {α : Type} (env : Env) (strict : Bool) (fa fb : Faults) (s : Sys2 α) (who : Bool) : Sys2 α :=
  if who then
    let r := s.b.step env strict fb s.fs
    { s with fs := r.1, b := r.2 }
  else
    let r := s.a.step env strict fa s.fs
    { s with fs := r.1, a := r.2 }

def runSched {α : Type} (env : Env) (strict : Bool) (fa fb : Faults) (s : Sys2 α) (sched : List Bool) : Sys2 α :=
  sched.foldl (step2 env strict fa fb) s

end Pfb.C08
