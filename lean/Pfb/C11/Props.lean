/-
  Pfb.C11.Props — property theorems for C11 (import formatting round-trips).
  See notes/C11.md for the reading of each theorem.
-/
import Pfb.C11.Lemmas
namespace Pfb.C11
open Pfb

/-! ## T1  `fill` keeps the token sequence and the width -/

/-- **fill_tokens**: for every configuration, width, first line and token list, the tokens of the
    lines `fill` builds, read in order, are exactly the tokens given (nothing lost, duplicated or
    reordered), and no line is empty. -/
theorem fill_tokens (c : FillCfg) (N : Nat) (t : Str) (ts : List Str) :
    (fillLines c N ⟨c.pre1, [t]⟩ ts).flatMap Line.toks = t :: ts ∧
    ∀ l ∈ fillLines c N ⟨c.pre1, [t]⟩ ts, l.toks ≠ [] :=
  ⟨by simpa using fillLines_toks c N ⟨c.pre1, [t]⟩ ts,
   fillLines_toks_ne c N ⟨c.pre1, [t]⟩ ts (by simp)⟩

example : (fillLines (parenCfg "from m import ".toList) 24 ⟨"from m import (".toList, ["aaa".toList]⟩
    ["bbb".toList, "ccc".toList]).map Line.toks = [["aaa".toList, "bbb".toList], ["ccc".toList]] := by decide

/-- text and number of tokens of every line, final line last -/
def lineTexts (c : FillCfg) : List Line → List (Str × Nat)
  | [] => []
  | [l] => [(l.text c true, l.toks.length)]
  | l :: l' :: ls => (l.text c false, l.toks.length) :: lineTexts c (l' :: ls)

theorem renderLines_eq (c : FillCfg) (L : List Line) :
    renderLines c L = ((lineTexts c L).map fun x => x.1 ++ c.nl).flatten := by
  induction L with
  | nil => rfl
  | cons l ls ih =>
    cases ls with
    | nil => simp [renderLines, lineTexts, Line.renderT, Line.text, List.append_assoc]
    | cons l' ls' =>
      simp only [renderLines, lineTexts, List.map_cons, List.flatten_cons]
      rw [ih]
      simp [Line.renderN, Line.text, List.append_assoc, lineTexts]

theorem lineTexts_width (c : FillCfg) (N : Nat) (L : List Line) (h : WidthOK c N L) :
    ∀ x ∈ lineTexts c L, x.1.length > N → x.2 ≤ 1 := by
  induction L with
  | nil => intro x hx; cases hx
  | cons l ls ih =>
    cases ls with
    | nil =>
      intro x hx hlen
      simp [lineTexts] at hx
      subst hx
      simp only [WidthOK] at h
      rcases h with h | h
      · exact h
      · simp only at hlen; omega
    | cons l' ls' =>
      intro x hx hlen
      simp only [lineTexts, List.mem_cons] at hx
      simp only [WidthOK] at h
      rcases hx with rfl | hx
      · rcases h.1 with h1 | h1
        · exact h1
        · simp only at hlen; omega
      · exact ih h.2 x (by simpa [lineTexts] using hx) hlen

/-- the physical lines `pyfill` writes after nothing: (text without newline, number of tokens on it) -/
def pyfillLines (pfx : Str) (tokens : List Str) (p : Params) : List (Str × Nat) :=
  match tokens with
  | [] => []
  | t :: ts =>
    if fitsOneLine pfx tokens p then [(pfx ++ sjoin ", ".toList tokens, tokens.length)]
    else if useHanging pfx tokens p then
      (pfx ++ ['('], 0) :: lineTexts (hangCfg p) (fillLines (hangCfg p) p.N ⟨(hangCfg p).pre1, [t]⟩ ts)
    else lineTexts (parenCfg pfx) (fillLines (parenCfg pfx) p.N ⟨(parenCfg pfx).pre1, [t]⟩ ts)

theorem slen_sjoin (tokens : List Str) :
    (sjoin [',', ' '] tokens).length = slen tokens + 2 * (tokens.length - 1) := by
  induction tokens with
  | nil => rfl
  | cons t ts ih =>
    cases ts with
    | nil => simp [sjoin, slen]
    | cons t' ts' =>
      simp only [sjoin, List.length_append, ih, slen, List.map_cons, List.sum_cons, List.length_cons]
      simp
      omega

/-- **C11_width**: the text `pyfill` returns is the concatenation of the lines `pyfillLines` lists
    (each followed by a newline), and a line longer than the width carries at most one token
    (one imported name); a line with no token is the `… import (` head of hanging-indent mode. -/
theorem C11_width (pfx : Str) (tokens : List Str) (p : Params) (out : Str)
    (h : pyfill pfx tokens p = .ok out) :
    out = ((pyfillLines pfx tokens p).map fun x => x.1 ++ ['\n']).flatten ∧
    ∀ x ∈ pyfillLines pfx tokens p, x.1.length > p.N → x.2 ≤ 1 := by
  unfold pyfill at h
  cases tokens with
  | nil => simp at h
  | cons t ts =>
    rw [if_neg (by simp)] at h
    unfold pyfillLines
    by_cases h1 : fitsOneLine pfx (t :: ts) p = true
    · rw [if_pos h1] at h
      injection h with h
      simp only [h1, if_true]
      refine ⟨by rw [← h]; simp [List.append_assoc], ?_⟩
      intro x hx hlen
      simp at hx
      subst hx
      simp only [fitsOneLine, decide_eq_true_eq] at h1
      simp only [List.length_append, slen_sjoin] at hlen
      omega
    · rw [if_neg h1] at h
      simp only [h1, Bool.false_eq_true, if_false]
      by_cases h2 : useHanging pfx (t :: ts) p = true
      · rw [if_pos h2] at h
        simp only [fill, Functor.map, Except.map] at h
        injection h with h
        simp only [h2, if_true]
        refine ⟨?_, ?_⟩
        · rw [← h, renderLines_eq]
          simp [hangCfg, List.append_assoc]
        · intro x hx hlen
          simp only [List.mem_cons] at hx
          rcases hx with rfl | hx
          · simp
          · exact lineTexts_width _ _ _
              (fillLines_width (hangCfg p) p.N ⟨(hangCfg p).pre1, [t]⟩ ts (by simp) (Or.inl (by simp))) x hx hlen
      · rw [if_neg h2] at h
        simp only [fill] at h
        injection h with h
        simp only [h2, Bool.false_eq_true, if_false]
        refine ⟨?_, ?_⟩
        · rw [← h, renderLines_eq]
          simp [parenCfg]
        · intro x hx hlen
          exact lineTexts_width _ _ _
            (fillLines_width (parenCfg pfx) p.N ⟨(parenCfg pfx).pre1, [t]⟩ ts (by simp) (Or.inl (by simp))) x hx hlen

example : pyfillLines "from m import ".toList ["aaa".toList, "bbb".toList, "ccc".toList]
      ⟨some 24, .bool false, 1, .never, 4, true, false, false⟩ =
    [("from m import (aaa, bbb,".toList, 2), ("               ccc)".toList, 1)] := by decide
