/-
  Pfb.C11.Props — property theorems for C11 (import formatting round-trips).
  See notes/C11.md for the reading of each theorem.
-/
import Pfb.C11.Lemmas
namespace Pfb.C11
open Pfb

/-! ## T1  `fill` keeps the token sequence and the width -/

/-- **fill_tokens**: for every configuration, width, first line and token list, the tokens of the
    lines `fill` builds, read in order, are exactly the tokens given (nothing lost, duplicated or
    reordered), and no line is empty. -/
theorem fill_tokens (c : FillCfg) (N : Nat) (t : Str) (ts : List Str) :
    (fillLines c N ⟨c.pre1, [t]⟩ ts).flatMap Line.toks = t :: ts ∧
    ∀ l ∈ fillLines c N ⟨c.pre1, [t]⟩ ts, l.toks ≠ [] :=
  ⟨by simpa using fillLines_toks c N ⟨c.pre1, [t]⟩ ts,
   fillLines_toks_ne c N ⟨c.pre1, [t]⟩ ts (by simp)⟩

example : (fillLines (parenCfg "from m import ".toList) 24 ⟨"from m import (".toList, ["aaa".toList]⟩
    ["bbb".toList, "ccc".toList]).map Line.toks = [["aaa".toList, "bbb".toList], ["ccc".toList]] := by decide

/-- text and number of tokens of every line, final line last -/
def lineTexts (c : FillCfg) : List Line → List (Str × Nat)
  | [] => []
  | [l] => [(l.text c true, l.toks.length)]
  | l :: l' :: ls => (l.text c false, l.toks.length) :: lineTexts c (l' :: ls)

theorem renderLines_eq (c : FillCfg) (L : List Line) :
    renderLines c L = ((lineTexts c L).map fun x => x.1 ++ c.nl).flatten := by
  induction L with
  | nil => rfl
  | cons l ls ih =>
    cases ls with
    | nil => simp [renderLines, lineTexts, Line.renderT, Line.text, List.append_assoc]
    | cons l' ls' =>
      simp only [renderLines, lineTexts, List.map_cons, List.flatten_cons]
      rw [ih]
      simp [Line.renderN, Line.text, List.append_assoc, lineTexts]

theorem lineTexts_width (c : FillCfg) (N : Nat) (L : List Line) (h : WidthOK c N L) :
    ∀ x ∈ lineTexts c L, x.1.length > N → x.2 ≤ 1 := by
  induction L with
  | nil => intro x hx; cases hx
  | cons l ls ih =>
    cases ls with
    | nil =>
      intro x hx hlen
      simp [lineTexts] at hx
      subst hx
      simp only [WidthOK] at h
      rcases h with h | h
      · exact h
      · simp only at hlen; omega
    | cons l' ls' =>
      intro x hx hlen
      simp only [lineTexts, List.mem_cons] at hx
      simp only [WidthOK] at h
      rcases hx with rfl | hx
      · rcases h.1 with h1 | h1
        · exact h1
        · simp only at hlen; omega
      · exact ih h.2 x (by simpa [lineTexts] using hx) hlen

/-- the physical lines `pyfill` writes after nothing: (text without newline, number of tokens on it) -/
def pyfillLines (pfx : Str) (tokens : List Str) (p : Params) : List (Str × Nat) :=
  match tokens with
  | [] => []
  | t :: ts =>
    if fitsOneLine pfx tokens p then [(pfx ++ sjoin ", ".toList tokens, tokens.length)]
    else if useHanging pfx tokens p then
      (pfx ++ ['('], 0) :: lineTexts (hangCfg p) (fillLines (hangCfg p) p.N ⟨(hangCfg p).pre1, [t]⟩ ts)
    else lineTexts (parenCfg pfx) (fillLines (parenCfg pfx) p.N ⟨(parenCfg pfx).pre1, [t]⟩ ts)

theorem slen_sjoin (tokens : List Str) :
    (sjoin [',', ' '] tokens).length = slen tokens + 2 * (tokens.length - 1) := by
  induction tokens with
  | nil => rfl
  | cons t ts ih =>
    cases ts with
    | nil => simp [sjoin, slen]
    | cons t' ts' =>
      simp only [sjoin, List.length_append, ih, slen, List.map_cons, List.sum_cons, List.length_cons]
      simp
      omega

/-- **C11_width**: the text `pyfill` returns is the concatenation of the lines `pyfillLines` lists
    (each followed by a newline), and a line longer than the width carries at most one token
    (one imported name); a line with no token is the `… import (` head of hanging-indent mode. -/
theorem C11_width (pfx : Str) (tokens : List Str) (p : Params) (out : Str)
    (h : pyfill pfx tokens p = .ok out) :
    out = ((pyfillLines pfx tokens p).map fun x => x.1 ++ ['\n']).flatten ∧
    ∀ x ∈ pyfillLines pfx tokens p, x.1.length > p.N → x.2 ≤ 1 := by
  unfold pyfill at h
  cases tokens with
  | nil => simp at h
  | cons t ts =>
    rw [if_neg (by simp)] at h
    unfold pyfillLines
    by_cases h1 : fitsOneLine pfx (t :: ts) p = true
    · rw [if_pos h1] at h
      injection h with h
      simp only [h1, if_true]
      refine ⟨by rw [← h]; simp [List.append_assoc], ?_⟩
      intro x hx hlen
      simp at hx
      subst hx
      simp only [fitsOneLine, decide_eq_true_eq] at h1
      simp only [List.length_append, slen_sjoin] at hlen
      omega
    · rw [if_neg h1] at h
      simp only [h1, Bool.false_eq_true, if_false]
      by_cases h2 : useHanging pfx (t :: ts) p = true
      · rw [if_pos h2] at h
        simp only [fill, Functor.map, Except.map] at h
        injection h with h
        simp only [h2, if_true]
        refine ⟨?_, ?_⟩
        · rw [← h, renderLines_eq]
          simp [hangCfg, List.append_assoc]
        · intro x hx hlen
          simp only [List.mem_cons] at hx
          rcases hx with rfl | hx
          · simp
          · exact lineTexts_width _ _ _
              (fillLines_width (hangCfg p) p.N ⟨(hangCfg p).pre1, [t]⟩ ts (by simp) (Or.inl (by simp))) x hx hlen
      · rw [if_neg h2] at h
        simp only [fill] at h
        injection h with h
        simp only [h2, Bool.false_eq_true, if_false]
        refine ⟨?_, ?_⟩
        · rw [← h, renderLines_eq]
          simp [parenCfg]
        · intro x hx hlen
          exact lineTexts_width _ _ _
            (fillLines_width (parenCfg pfx) p.N ⟨(parenCfg pfx).pre1, [t]⟩ ts (by simp) (Or.inl (by simp))) x hx hlen

example : pyfillLines "from m import ".toList ["aaa".toList, "bbb".toList, "ccc".toList]
      ⟨some 24, .bool false, 1, .never, 4, true, false, false⟩ =
    [("from m import (aaa, bbb,".toList, 2), ("               ccc)".toList, 1)] := by decide

/-! ## T2  round trip: parsing the formatted block gives back the statements -/

theorem bind_eq_ok {ε α β} (x : Except ε α) (f : α → Except ε β) (b : β) :
    (x >>= f) = .ok b ↔ ∃ a, x = .ok a ∧ f a = .ok b := by
  cases x with
  | error e => simp [bind, Except.bind]
  | ok a => simp [bind, Except.bind]

inductive Forall2 {α β} (R : α → β → Prop) : List α → List β → Prop
  | nil : Forall2 R [] []
  | cons {a b as bs} : R a b → Forall2 R as bs → Forall2 R (a :: as) (b :: bs)

theorem mapM_ok_forall₂ {ε α β} (f : α → Except ε β) (l : List α) (ts : List β)
    (h : l.mapM f = .ok ts) : Forall2 (fun a t => f a = .ok t) l ts := by
  induction l generalizing ts with
  | nil =>
    simp [List.mapM_nil, pure, Except.pure] at h
    subst h; exact .nil
  | cons a as ih =>
    rw [List.mapM_cons] at h
    obtain ⟨b, hb, h⟩ := (bind_eq_ok _ _ _).mp h
    obtain ⟨bs, hbs, h⟩ := (bind_eq_ok _ _ _).mp h
    simp [pure, Except.pure] at h
    subst h
    exact .cons hb (ih bs hbs)

/-- column and `from` spacing a statement is printed with (`pp` of `ImportSet.pretty_print`) -/
def stArgs (p : Params) (col : Option Nat) (st : Stmt) : Option Nat × Nat :=
  if doAlign p st then (col, max 1 p.fromSpaces) else (none, 1)

/-- the statements a printed statement reads back as (itself, except that the repaired tree writes an
    overlong plain `import a, a as b` as one statement per alias) -/
def readBack (p : Params) (col : Option Nat) (st : Stmt) : List Stmt :=
  emitted st p (stArgs p col st).1 (stArgs p col st).2

theorem lex_nil_bol : lex 0 true [] = some [] := by
  conv => lhs; rw [lex.eq_def]
  simp

theorem lex_block (stmts : List Stmt) (p : Params) (col : Option Nat) (texts : List Str)
    (hok : ∀ st ∈ stmts, StmtTxtOK st)
    (h : Forall2 (fun st t => st.pretty p (stArgs p col st).1 (stArgs p col st).2 = .ok t) stmts texts) :
    lex 0 true texts.flatten = some ((stmts.map fun st =>
      ((readBack p col st).map fun s =>
        stmtToks s (parenOf st p (stArgs p col st).1 (stArgs p col st).2) ++ [Tok.newline]).flatten).flatten) := by
  induction h with
  | nil => exact lex_nil_bol
  | @cons st t sts ts hst _ ih =>
    rw [List.flatten_cons, lex_stmt_all st p _ _ t (hok st (by simp)) hst true,
      ih (fun x hx => hok x (List.mem_cons_of_mem _ hx))]
    simp [readBack]

theorem validStmt_txtOK (st : Stmt) (h : validStmt st = true) : StmtTxtOK st := by
  obtain ⟨fromname, aliases⟩ := st
  simp only [validStmt, Bool.and_eq_true, decide_eq_true_eq] at h
  obtain ⟨hne, h⟩ := h
  refine ⟨hne, ?_, ?_⟩
  · intro m hm
    simp only at hm
    subst hm
    simp only [Bool.and_eq_true] at h
    exact isFromMod_word m h.1
  · intro a ha
    cases fromname with
    | none =>
      simp only [List.all_eq_true] at h
      exact validAlias_txtOK true a (h a ha)
    | some m =>
      simp only [Bool.and_eq_true, Bool.or_eq_true, decide_eq_true_eq, List.all_eq_true] at h
      rcases h.2 with h2 | h2
      · simp only at ha
        rw [h2] at ha
        simp at ha
        subst ha
        exact ⟨Or.inl rfl, by intro n hn; cases hn⟩
      · exact validAlias_txtOK false a (h2 a ha)

theorem nameTok_ne_newline (n : Str) : nameTok n ≠ .newline := by
  unfold nameTok; split <;> simp

theorem aliasToks_no_newline (a : Alias) : Tok.newline ∉ aliasToks a := by
  obtain ⟨n, m⟩ := a
  have := nameTok_ne_newline n
  cases m <;> simp [aliasToks, Ne.symm this]

theorem tjoin_no_newline (gs : List (List Tok)) (h : ∀ g ∈ gs, Tok.newline ∉ g) : Tok.newline ∉ tjoin gs := by
  induction gs with
  | nil => simp [tjoin]
  | cons g gs ih =>
    cases gs with
    | nil => simpa [tjoin] using h g (by simp)
    | cons g' gs' =>
      simp only [tjoin, List.mem_append, List.mem_cons, not_or]
      exact ⟨h g (by simp), by simp, ih (fun x hx => h x (List.mem_cons_of_mem _ hx))⟩

theorem stmtToks_no_newline (st : Stmt) (paren : Bool) : Tok.newline ∉ stmtToks st paren := by
  have hb : Tok.newline ∉ bodyToks st :=
    tjoin_no_newline _ (by intro g hg; obtain ⟨a, _, rfl⟩ := List.mem_map.mp hg; exact aliasToks_no_newline a)
  have hh : Tok.newline ∉ headToks st.fromname := by
    cases hf : st.fromname <;> simp [headToks]
  cases paren <;> simp [stmtToks, hb, hh]

theorem mapM_parseLine (E : List (List Tok)) (S : List Stmt)
    (h : Forall2 (fun e s => parseLine e = some s) E S) : E.mapM parseLine = some S := by
  induction h with
  | nil => rfl
  | cons h1 _ ih => rw [List.mapM_cons, h1, ih]; rfl

theorem Forall2.append {α β} {R : α → β → Prop} {a a' : List α} {b b' : List β}
    (h : Forall2 R a b) (h' : Forall2 R a' b') : Forall2 R (a ++ a') (b ++ b') := by
  induction h with
  | nil => exact h'
  | cons h1 _ ih => exact .cons h1 ih

theorem Forall2.map_left {α β} {R : α → β → Prop} (f : β → α) (l : List β) (h : ∀ s ∈ l, R (f s) s) :
    Forall2 R (l.map f) l := by
  induction l with
  | nil => exact .nil
  | cons a as ih => exact .cons (h a (by simp)) (ih (fun s hs => h s (List.mem_cons_of_mem _ hs)))

theorem Forall2.flatMap {α β γ} {R : α → β → Prop} (l : List γ) (f : γ → List α) (g : γ → List β)
    (h : ∀ x ∈ l, Forall2 R (f x) (g x)) : Forall2 R (l.flatMap f) (l.flatMap g) := by
  induction l with
  | nil => exact .nil
  | cons a as ih =>
    simp only [List.flatMap_cons]
    exact Forall2.append (h a (by simp)) (ih (fun x hx => h x (List.mem_cons_of_mem _ hx)))

/-- every statement a printed statement reads back as is accepted by the parser -/
theorem emitted_parse (st : Stmt) (p : Params) (col : Option Nat) (fs : Nat)
    (hv : validStmt st = true) (hn : noBadParen st p col fs = true) :
    ∀ s ∈ emitted st p col fs, parseLine (stmtToks s (parenOf st p col fs)) = some s := by
  intro s hs
  unfold emitted at hs
  by_cases hsp : splitPlain st p col fs = true
  · rw [if_pos hsp] at hs
    obtain ⟨a, ha, rfl⟩ := List.mem_map.mp hs
    simp only [splitPlain, Bool.and_eq_true, decide_eq_true_eq] at hsp
    obtain ⟨⟨hd, hnp⟩, _, hlen⟩ := hsp
    have hnone : st.fromname = none := by
      simp only [neverParen, Bool.or_eq_true, Option.isNone_iff_eq_none, decide_eq_true_eq] at hnp
      rcases hnp with h | h
      · exact h
      · rw [h] at hlen; simp at hlen
    have hpar : parenOf st p col fs = false := by simp [parenOf, hd, hnp]
    rw [hpar, hnone]
    apply parseLine_ok
    · simp only [validStmt, hnone, Bool.and_eq_true, decide_eq_true_eq, List.all_eq_true] at hv
      simp [validStmt, hv.2 a ha]
    · intro h; cases h
  · rw [if_neg hsp] at hs
    simp at hs
    subst hs
    apply parseLine_ok _ _ hv
    intro hpar
    simp only [parenOf, Bool.and_eq_true, Bool.not_eq_true', Bool.and_eq_false_iff] at hpar
    obtain ⟨hbr, hparen⟩ := hpar
    simp only [noBadParen, Bool.or_eq_true, Bool.and_eq_true, Bool.not_eq_true'] at hn
    have hstar : isStarStmt s = true → neverParen s = true := by
      intro h
      simp only [isStarStmt, decide_eq_true_eq] at h
      simp [neverParen, h, aliasTok, star]
    rcases hbr with hd | hnp
    · rcases hn with (hd' | hn) | hn
      · rw [hd] at hd'; cases hd'
      · rw [hparen] at hn; cases hn
      · exact hn
    · simp only [neverParen, Bool.or_eq_false_iff] at hnp
      refine ⟨by cases hf : s.fromname <;> simp_all, ?_⟩
      cases hst : isStarStmt s
      · rfl
      · have := hstar hst
        simp only [neverParen, Bool.or_eq_true] at this
        rcases this with h | h
        · rw [hnp.1] at h; cases h
        · rw [hnp.2] at h; cases h

/-- **C11_roundtrip_core** (both trees).  Whenever `pretty` returns a text for a set of imports and a
    configuration, the statements of the set are valid Python names (`validStmt`) and no plain import or
    star import is parenthesised (`noBadParen`; automatically true for the repaired tree), the reference
    parser reads the text back as exactly the statements that were printed, in order. -/
theorem C11_roundtrip_core (imps : List Imp) (p : Params) (text : Str)
    (h : pretty imps p = .ok text) :
    ∃ stmts col, getStatements (dedup imps) p.sepFrom = .ok stmts ∧
      importColumn stmts p (max 1 p.fromSpaces) = .ok col ∧
      ((∀ st ∈ stmts, validStmt st = true) →
       (∀ st ∈ stmts, noBadParen st p (stArgs p col st).1 (stArgs p col st).2 = true) →
       parseBlock text = some (stmts.flatMap (readBack p col))) := by
  unfold pretty at h
  simp only [] at h
  by_cases hc : conflicting (dedup imps) = true
  · simp [hc, bind, Except.bind, throw, throwThe, MonadExceptOf.throw] at h
  · simp only [hc, Bool.false_eq_true, if_false] at h
    obtain ⟨stmts, hst, h⟩ := (bind_eq_ok _ _ _).mp h
    obtain ⟨col, hcol, h⟩ := (bind_eq_ok _ _ _).mp h
    obtain ⟨texts, htx, h⟩ := (bind_eq_ok _ _ _).mp h
    simp only [pure, Except.pure] at h
    injection h with h
    refine ⟨stmts, col, hst, hcol, ?_⟩
    intro hvalid hnbp
    have hF : ∀ st : Stmt, (if doAlign p st then st.pretty p col (max 1 p.fromSpaces) else st.pretty p none 1)
        = st.pretty p (stArgs p col st).1 (stArgs p col st).2 := by
      intro st
      unfold stArgs
      cases doAlign p st <;> simp
    have hfa := mapM_ok_forall₂ _ _ _ htx
    simp only [hF] at hfa
    have hlex := lex_block stmts p col texts (fun st hs => validStmt_txtOK st (hvalid st hs)) hfa
    -- the token lines
    let E : List (List Tok) := stmts.flatMap fun st =>
      (readBack p col st).map fun s => stmtToks s (parenOf st p (stArgs p col st).1 (stArgs p col st).2)
    have hE : (stmts.map fun st => ((readBack p col st).map fun s =>
          stmtToks s (parenOf st p (stArgs p col st).1 (stArgs p col st).2) ++ [Tok.newline]).flatten).flatten
        = (E.map (· ++ [Tok.newline])).flatten := by
      simp only [E, List.flatMap_def, List.map_flatten, List.map_map, List.flatten_flatten]
      congr 1
      apply List.map_congr_left
      intro st _
      simp [Function.comp, List.map_map]
      rfl
    unfold parseBlock
    rw [← h, hlex, hE]
    simp only [Option.bind, parseToks]
    have hsp := splitTok_lines .newline E (by
      intro l hl
      simp only [E, List.mem_flatMap, List.mem_map] at hl
      obtain ⟨st, _, s, _, rfl⟩ := hl
      exact stmtToks_no_newline _ _)
    rw [hsp]
    simp only [List.getLast?_append, List.getLast?_singleton, Option.some_or, if_true,
      List.dropLast_concat]
    apply mapM_parseLine
    apply Forall2.flatMap
    intro st hst'
    apply Forall2.map_left
    exact emitted_parse st p _ _ (hvalid st hst') (hnbp st hst')

theorem noBadParen_repaired (st : Stmt) (p : Params) (col : Option Nat) (fs : Nat) (h : p.d2fix = true) :
    noBadParen st p col fs = true := by simp [noBadParen, h]

theorem readBack_unrepaired (p : Params) (col : Option Nat) (st : Stmt) (h : p.d2fix = false) :
    readBack p col st = [st] := by simp [readBack, emitted, splitPlain, h]

/-- splitting an overlong plain import into one statement per alias keeps the imports -/
theorem readBack_imports (p : Params) (col : Option Nat) (st : Stmt) :
    (readBack p col st).flatMap Stmt.imports = st.imports := by
  unfold readBack emitted
  split
  · simp only [List.flatMap_map, Stmt.imports]
    induction st.aliases with
    | nil => rfl
    | cons a as ih => simpa [List.flatMap_cons] using ih
  · simp

/-- **C11_roundtrip** — the code as it is now (with the D2 repair).  For every list of imports and every
    configuration for which `pretty` returns a text: if the statements of the set carry valid Python names,
    the reference parser reads the text back as the printed statements, in order, (an overlong plain
    `import a, a as b` as one statement per alias) and these denote exactly the imports of the statements. -/
theorem C11_roundtrip (imps : List Imp) (p : Params) (text : Str) (hfix : p.d2fix = true)
    (h : pretty imps p = .ok text) :
    ∃ stmts col, getStatements (dedup imps) p.sepFrom = .ok stmts ∧
      importColumn stmts p (max 1 p.fromSpaces) = .ok col ∧
      ((∀ st ∈ stmts, validStmt st = true) →
        ∃ back, parseBlock text = some back ∧ back = stmts.flatMap (readBack p col) ∧
          back.flatMap Stmt.imports = stmts.flatMap Stmt.imports) := by
  obtain ⟨stmts, col, h1, h2, h3⟩ := C11_roundtrip_core imps p text h
  refine ⟨stmts, col, h1, h2, fun hv => ⟨_, h3 hv (fun st _ => noBadParen_repaired st p _ _ hfix), rfl, ?_⟩⟩
  simp only [List.flatMap_assoc, readBack_imports]

/-- **C11_roundtrip_unrepaired** — the tree before `fixes/C11-D2.diff`: the same, under the extra
    hypothesis that no plain import and no star import is parenthesised (`noBadParen`). -/
theorem C11_roundtrip_unrepaired (imps : List Imp) (p : Params) (text : Str) (hfix : p.d2fix = false)
    (h : pretty imps p = .ok text) :
    ∃ stmts col, getStatements (dedup imps) p.sepFrom = .ok stmts ∧
      importColumn stmts p (max 1 p.fromSpaces) = .ok col ∧
      ((∀ st ∈ stmts, validStmt st = true) →
       (∀ st ∈ stmts, noBadParen st p (stArgs p col st).1 (stArgs p col st).2 = true) →
        parseBlock text = some stmts) := by
  obtain ⟨stmts, col, h1, h2, h3⟩ := C11_roundtrip_core imps p text h
  refine ⟨stmts, col, h1, h2, fun hv hn => ?_⟩
  rw [h3 hv hn]
  congr 1
  clear h1 h2 h3 hv hn
  induction stmts with
  | nil => rfl
  | cons a as ih => simp only [List.flatMap_cons, readBack_unrepaired p col a hfix, ih, List.singleton_append]

/-! ### the hypotheses are satisfiable, and D2 was real -/

section Witness

def pEx : Params := ⟨some 10, .bool true, 1, .never, 4, true, false, true⟩

def impsEx : List Imp :=
  [⟨"aaaaaaaa".toList, "aaaaaaaa".toList⟩, ⟨"aaaaaaaa.*".toList, "*".toList⟩,
   ⟨"b.c".toList, "c".toList⟩, ⟨"b.d".toList, "d".toList⟩, ⟨"..e".toList, "f".toList⟩]

/-- a non-trivial input of `C11_roundtrip`: an overlong plain import, an overlong star import, a wrapped
    `from` import and a relative aliased import, at width 10 -/
example : (pretty impsEx pEx).toOption =
    some ("import aaaaaaaa\nfrom ..       import (e as f)\nfrom aaaaaaaa import *\n" ++
          "from b        import (c,\n                      d)\n").toList := by decide +kernel

example : ((getStatements (dedup impsEx) pEx.sepFrom).toOption.map fun ss => ss.all validStmt) = some true := by
  decide +kernel

/-- D2 on the unrepaired tree: an overlong plain import is parenthesised … -/
theorem D2_witness_plain :
    (pretty [⟨"aaaaaaaa".toList, "aaaaaaaa".toList⟩] { pEx with d2fix := false }).toOption
      = some "import (aaaaaaaa)\n".toList ∧
    parseBlock "import (aaaaaaaa)\n".toList = none := by
  constructor <;> decide +kernel

/-- … and so is an overlong star import; neither text is in the grammar (CPython: SyntaxError). -/
theorem D2_witness_star :
    (pretty [⟨"aaaaaaaa.*".toList, "*".toList⟩] { pEx with d2fix := false }).toOption
      = some "from aaaaaaaa import (*)\n".toList ∧
    parseBlock "from aaaaaaaa import (*)\n".toList = none := by
  constructor <;> decide +kernel

/-- the same inputs on the repaired tree -/
example : (pretty [⟨"aaaaaaaa".toList, "aaaaaaaa".toList⟩, ⟨"aaaaaaaa.*".toList, "*".toList⟩] pEx).toOption
      = some "import aaaaaaaa\nfrom aaaaaaaa import *\n".toList ∧
    parseBlock "import aaaaaaaa\nfrom aaaaaaaa import *\n".toList =
      some [⟨none, [("aaaaaaaa".toList, none)]⟩, ⟨some "aaaaaaaa".toList, [(star, none)]⟩] := by
  constructor <;> decide +kernel

end Witness

/-! ## T3  the statements denote exactly the imports of the set -/

theorem groups_imports (S : List Imp) (sep : Bool) (keys : List GKey) (groups : List (List Stmt))
    (hfa : Forall2 (fun k g => groupStmts (S.filter fun i => gkeyOf sep i = k) = .ok g) keys groups)
    (hrt : ∀ i ∈ S, Imp.fromSplit i.split = i) :
    (groups.flatten.flatMap Stmt.imports).Perm (keys.flatMap fun k => S.filter fun i => gkeyOf sep i = k) := by
  induction hfa with
  | nil => simp
  | @cons k g ks gs hk _ ih =>
    simp only [List.flatten_cons, List.flatMap_append, List.flatMap_cons]
    refine List.Perm.append ?_ ih
    exact groupStmts_imports _ g hk (fun i hi => hrt i (List.mem_filter.mp hi).1)

/-- **getStatements_imports**: the imports of the statements `get_statements` builds are a permutation of the
    set (nothing lost, duplicated or merged wrongly), for every set whose members survive
    `from_split ∘ split` (see `fromSplit_split`). -/
theorem getStatements_imports (S : List Imp) (sep : Bool) (sts : List Stmt)
    (h : getStatements S sep = .ok sts) (hrt : ∀ i ∈ S, Imp.fromSplit i.split = i) :
    (sts.flatMap Stmt.imports).Perm S := by
  unfold getStatements at h
  obtain ⟨groups, hg, h⟩ := (bind_eq_ok _ _ _).mp h
  simp only [pure, Except.pure] at h
  injection h with h
  subst h
  have hfa := mapM_ok_forall₂ _ _ _ hg
  have hkeys : (isort gkLe (dedup (S.map (gkeyOf sep)))).Perm (dedup (S.map (gkeyOf sep))) := isort_perm _ _
  have hnd : (isort gkLe (dedup (S.map (gkeyOf sep)))).Nodup := (hkeys.nodup_iff).mpr (nodup_dedup _)
  have hstep := groups_imports S sep _ groups hfa hrt
  refine hstep.trans ((group_perm (gkeyOf sep) S _ hnd).trans ?_)
  apply List.Perm.of_eq
  rw [List.filter_eq_self]
  intro i hi
  simp only [decide_eq_true_eq]
  exact hkeys.mem_iff.mpr ((mem_dedup _ _).mpr (List.mem_map.mpr ⟨i, hi, rfl⟩))

example : (∀ i ∈ dedup impsEx, Imp.fromSplit i.split = i) := by decide +kernel

/-- **split_roundtrip**: `Import.from_split(imp.split) == imp` for every import whose fullname is
    leading dots followed by a non-empty dotted path without empty components (`wfName`), whatever the
    local name. -/
theorem split_roundtrip (i : Imp) (h : wfName i.fullname = true) : Imp.fromSplit i.split = i :=
  fromSplit_split i h

example : wfName "..pkg.mod.name".toList = true ∧
    (Imp.mk "..pkg.mod.name".toList "x".toList).split = ⟨some "..pkg.mod".toList, "name".toList, some "x".toList⟩ := by
  constructor <;> decide +kernel

/-- without the hypothesis the round trip fails: an empty component is swallowed -/
example : Imp.fromSplit (Imp.mk "a..b".toList "x".toList).split ≠ Imp.mk "a..b".toList "x".toList := by
  decide +kernel

/-- **C11_imports_exact** — the headline of the round trip for the code as it is now: if `pretty` returns
    a text for imports with well-formed fullnames whose statements carry valid Python names, then the text
    parses, and the imports of the parsed statements are a permutation of the (duplicate-free) input set:
    same fullname and local name each, nothing lost, duplicated or merged. -/
theorem C11_imports_exact (imps : List Imp) (p : Params) (text : Str) (hfix : p.d2fix = true)
    (h : pretty imps p = .ok text) (hwf : ∀ i ∈ imps, wfName i.fullname = true)
    (hvalid : ∀ sts, getStatements (dedup imps) p.sepFrom = .ok sts → ∀ st ∈ sts, validStmt st = true) :
    ∃ back, parseBlock text = some back ∧ (back.flatMap Stmt.imports).Perm (dedup imps) := by
  obtain ⟨stmts, col, h1, _, h3⟩ := C11_roundtrip imps p text hfix h
  obtain ⟨back, hb, _, hi⟩ := h3 (hvalid stmts h1)
  refine ⟨back, hb, ?_⟩
  rw [hi]
  exact getStatements_imports _ _ _ h1 (fun i hi => fromSplit_split i (hwf i ((mem_dedup i imps).mp hi)))

example : (∀ i ∈ impsEx, wfName i.fullname = true) := by decide +kernel
