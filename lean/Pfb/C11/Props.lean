/-
  Pfb.C11.Props — property theorems for C11 (import formatting round-trips).
  See notes/C11.md for the reading of each theorem.
-/
import Pfb.C11.Lemmas
namespace Pfb.C11
open Pfb

/-! ## T1  `fill` keeps the token sequence and the width -/

/-- **fill_tokens**: for every configuration, width, first line and token list, the tokens of the
    lines `fill` builds, read in order, are exactly the tokens given (nothing lost, duplicated or
    reordered), and no line is empty. -/
theorem fill_tokens (c : FillCfg) (N : Nat) (t : Str) (ts : List Str) :
    (fillLines c N ⟨c.pre1, [t]⟩ ts).flatMap Line.toks = t :: ts ∧
    ∀ l ∈ fillLines c N ⟨c.pre1, [t]⟩ ts, l.toks ≠ [] :=
  ⟨by simpa using fillLines_toks c N ⟨c.pre1, [t]⟩ ts,
   fillLines_toks_ne c N ⟨c.pre1, [t]⟩ ts (by simp)⟩

/-- **fill_width**: in the lines `fill` builds, for every configuration and width, a line holding two or
    more tokens fits the width (separator and suffix included); only a line with a single token may
    be longer. -/
theorem fill_width (c : FillCfg) (N : Nat) (t : Str) (ts : List Str) :
    WidthOK c N (fillLines c N ⟨c.pre1, [t]⟩ ts) :=
  fillLines_width c N ⟨c.pre1, [t]⟩ ts (by simp) (Or.inl (by simp))

example : (fillLines (parenCfg "from m import ".toList) 24 ⟨"from m import (".toList, ["aaa".toList]⟩
    ["bbb".toList, "ccc".toList]).map Line.toks = [["aaa".toList, "bbb".toList], ["ccc".toList]] := by decide

/-- **C11_width**: the text `pyfill` returns is the concatenation of the lines `pyfillLines` lists
    (each followed by a newline), and a line longer than the width carries at most one token
    (one imported name); a line with no token is the `… import (` head of hanging-indent mode. -/
theorem C11_width (pfx : Str) (tokens : List Str) (p : Params) (out : Str)
    (h : pyfill pfx tokens p = .ok out) :
    out = ((pyfillLines pfx tokens p).map fun x => x.1 ++ ['\n']).flatten ∧
    ∀ x ∈ pyfillLines pfx tokens p, x.1.length > p.N → x.2 ≤ 1 := by
  unfold pyfill at h
  cases tokens with
  | nil => simp at h
  | cons t ts =>
    rw [if_neg (by simp)] at h
    unfold pyfillLines
    by_cases h1 : fitsOneLine pfx (t :: ts) p = true
    · rw [if_pos h1] at h
      injection h with h
      simp only [h1, if_true]
      refine ⟨by rw [← h]; simp [List.append_assoc], ?_⟩
      intro x hx hlen
      simp at hx
      subst hx
      simp only [fitsOneLine, decide_eq_true_eq] at h1
      simp only [List.length_append, slen_sjoin] at hlen
      omega
    · rw [if_neg h1] at h
      simp only [h1, Bool.false_eq_true, if_false]
      by_cases h2 : useHanging pfx (t :: ts) p = true
      · rw [if_pos h2] at h
        simp only [fill, Functor.map, Except.map] at h
        injection h with h
        simp only [h2, if_true]
        refine ⟨?_, ?_⟩
        · rw [← h, renderLines_eq]
          simp [hangCfg, List.append_assoc]
        · intro x hx hlen
          simp only [List.mem_cons] at hx
          rcases hx with rfl | hx
          · simp
          · exact lineTexts_width _ _ _
              (fillLines_width (hangCfg p) p.N ⟨(hangCfg p).pre1, [t]⟩ ts (by simp) (Or.inl (by simp))) x hx hlen
      · rw [if_neg h2] at h
        simp only [fill] at h
        injection h with h
        simp only [h2, Bool.false_eq_true, if_false]
        refine ⟨?_, ?_⟩
        · rw [← h, renderLines_eq]
          simp [parenCfg]
        · intro x hx hlen
          exact lineTexts_width _ _ _
            (fillLines_width (parenCfg pfx) p.N ⟨(parenCfg pfx).pre1, [t]⟩ ts (by simp) (Or.inl (by simp))) x hx hlen

example : pyfillLines "from m import ".toList ["aaa".toList, "bbb".toList, "ccc".toList]
      ⟨some 24, .bool false, 1, .never, 4, true, false, false⟩ =
    [("from m import (aaa, bbb,".toList, 2), ("               ccc)".toList, 1)] := by decide

/-! ## T2  round trip: parsing the formatted block gives back the statements -/

/-- **C11_roundtrip_core** (both trees).  Whenever `pretty` returns a text for a set of imports and a
    configuration, the statements of the set are valid Python names (`validStmt`) and no plain import or
    star import is parenthesised (`noBadParen`; automatically true for the repaired tree), the reference
    parser reads the text back as exactly the statements that were printed, in order. -/
theorem C11_roundtrip_core (imps : List Imp) (p : Params) (text : Str)
    (h : pretty imps p = .ok text) :
    ∃ stmts col, getStatements (dedup imps) p.sepFrom = .ok stmts ∧
      importColumn stmts p (max 1 p.fromSpaces) = .ok col ∧
      ((∀ st ∈ stmts, validStmt st = true) →
       (∀ st ∈ stmts, noBadParen st p (stArgs p col st).1 (stArgs p col st).2 = true) →
       parseBlock text = some (stmts.flatMap (readBack p col))) := by
  unfold pretty at h
  simp only [] at h
  by_cases hc : conflicting (dedup imps) = true
  · simp [hc, bind, Except.bind, throw, throwThe, MonadExceptOf.throw] at h
  · simp only [hc, Bool.false_eq_true, if_false] at h
    obtain ⟨stmts, hst, h⟩ := (bind_eq_ok _ _ _).mp h
    obtain ⟨col, hcol, h⟩ := (bind_eq_ok _ _ _).mp h
    obtain ⟨texts, htx, h⟩ := (bind_eq_ok _ _ _).mp h
    simp only [pure, Except.pure] at h
    injection h with h
    refine ⟨stmts, col, hst, hcol, ?_⟩
    intro hvalid hnbp
    have hF : ∀ st : Stmt, (if doAlign p st then st.pretty p col (max 1 p.fromSpaces) else st.pretty p none 1)
        = st.pretty p (stArgs p col st).1 (stArgs p col st).2 := by
      intro st
      unfold stArgs
      cases doAlign p st <;> simp
    have hfa := mapM_ok_forall₂ _ _ _ htx
    simp only [hF] at hfa
    have hlex := lex_block stmts p col texts (fun st hs => validStmt_txtOK st (hvalid st hs)) hfa
    -- the token lines
    let E : List (List Tok) := stmts.flatMap fun st =>
      (readBack p col st).map fun s => stmtToks s (parenOf st p (stArgs p col st).1 (stArgs p col st).2)
    have hE : (stmts.map fun st => ((readBack p col st).map fun s =>
          stmtToks s (parenOf st p (stArgs p col st).1 (stArgs p col st).2) ++ [Tok.newline]).flatten).flatten
        = (E.map (· ++ [Tok.newline])).flatten := by
      simp only [E, List.flatMap_def, List.map_flatten, List.map_map, List.flatten_flatten]
      congr 1
      apply List.map_congr_left
      intro st _
      simp [Function.comp, List.map_map]
      rfl
    unfold parseBlock
    rw [← h, hlex, hE]
    simp only [Option.bind, parseToks]
    have hsp := splitTok_lines .newline E (by
      intro l hl
      simp only [E, List.mem_flatMap, List.mem_map] at hl
      obtain ⟨st, _, s, _, rfl⟩ := hl
      exact stmtToks_no_newline _ _)
    rw [hsp]
    simp only [List.getLast?_append, List.getLast?_singleton, Option.some_or, if_true,
      List.dropLast_concat]
    apply mapM_parseLine
    apply Forall2.flatMap
    intro st hst'
    apply Forall2.map_left
    exact emitted_parse st p _ _ (hvalid st hst') (hnbp st hst')

/-- splitting an overlong plain import into one statement per alias keeps the imports -/
theorem readBack_imports (p : Params) (col : Option Nat) (st : Stmt) :
    (readBack p col st).flatMap Stmt.imports = st.imports := by
  unfold readBack emitted
  split
  · simp only [List.flatMap_map, Stmt.imports]
    induction st.aliases with
    | nil => rfl
    | cons a as ih => simpa [List.flatMap_cons] using ih
  · simp

/-- **C11_roundtrip** — the code as it is now (with the D2 repair).  For every list of imports and every
    configuration for which `pretty` returns a text: if the statements of the set carry valid Python names,
    the reference parser reads the text back as the printed statements, in order, (an overlong plain
    `import a, a as b` as one statement per alias) and these denote exactly the imports of the statements. -/
theorem C11_roundtrip (imps : List Imp) (p : Params) (text : Str) (hfix : p.d2fix = true)
    (h : pretty imps p = .ok text) :
    ∃ stmts col, getStatements (dedup imps) p.sepFrom = .ok stmts ∧
      importColumn stmts p (max 1 p.fromSpaces) = .ok col ∧
      ((∀ st ∈ stmts, validStmt st = true) →
        ∃ back, parseBlock text = some back ∧ back = stmts.flatMap (readBack p col) ∧
          back.flatMap Stmt.imports = stmts.flatMap Stmt.imports) := by
  obtain ⟨stmts, col, h1, h2, h3⟩ := C11_roundtrip_core imps p text h
  refine ⟨stmts, col, h1, h2, fun hv => ⟨_, h3 hv (fun st _ => noBadParen_repaired st p _ _ hfix), rfl, ?_⟩⟩
  simp only [List.flatMap_assoc, readBack_imports]

/-- **C11_roundtrip_unrepaired** — the tree before `fixes/C11-D2.diff`: the same, under the extra
    hypothesis that no plain import and no star import is parenthesised (`noBadParen`). -/
theorem C11_roundtrip_unrepaired (imps : List Imp) (p : Params) (text : Str) (hfix : p.d2fix = false)
    (h : pretty imps p = .ok text) :
    ∃ stmts col, getStatements (dedup imps) p.sepFrom = .ok stmts ∧
      importColumn stmts p (max 1 p.fromSpaces) = .ok col ∧
      ((∀ st ∈ stmts, validStmt st = true) →
       (∀ st ∈ stmts, noBadParen st p (stArgs p col st).1 (stArgs p col st).2 = true) →
        parseBlock text = some stmts) := by
  obtain ⟨stmts, col, h1, h2, h3⟩ := C11_roundtrip_core imps p text h
  refine ⟨stmts, col, h1, h2, fun hv hn => ?_⟩
  rw [h3 hv hn]
  congr 1
  clear h1 h2 h3 hv hn
  induction stmts with
  | nil => rfl
  | cons a as ih => simp only [List.flatMap_cons, readBack_unrepaired p col a hfix, ih, List.singleton_append]

/-! ### the hypotheses are satisfiable, and D2 was real -/

section Witness

def pEx : Params := ⟨some 10, .bool true, 1, .never, 4, true, false, true⟩

def impsEx : List Imp :=
  [⟨"aaaaaaaa".toList, "aaaaaaaa".toList⟩, ⟨"aaaaaaaa.*".toList, "*".toList⟩,
   ⟨"b.c".toList, "c".toList⟩, ⟨"b.d".toList, "d".toList⟩, ⟨"..e".toList, "f".toList⟩]

/-- a non-trivial input of `C11_roundtrip`: an overlong plain import, an overlong star import, a wrapped
    `from` import and a relative aliased import, at width 10 -/
example : (pretty impsEx pEx).toOption =
    some ("import aaaaaaaa\nfrom ..       import (e as f)\nfrom aaaaaaaa import *\n" ++
          "from b        import (c,\n                      d)\n").toList := by decide +kernel

example : ((getStatements (dedup impsEx) pEx.sepFrom).toOption.map fun ss => ss.all validStmt) = some true := by
  decide +kernel

/-- D2 on the unrepaired tree: an overlong plain import is parenthesised … -/
theorem D2_witness_plain :
    (pretty [⟨"aaaaaaaa".toList, "aaaaaaaa".toList⟩] { pEx with d2fix := false }).toOption
      = some "import (aaaaaaaa)\n".toList ∧
    parseBlock "import (aaaaaaaa)\n".toList = none := by
  constructor <;> decide +kernel

/-- … and so is an overlong star import; neither text is in the grammar (CPython: SyntaxError). -/
theorem D2_witness_star :
    (pretty [⟨"aaaaaaaa.*".toList, "*".toList⟩] { pEx with d2fix := false }).toOption
      = some "from aaaaaaaa import (*)\n".toList ∧
    parseBlock "from aaaaaaaa import (*)\n".toList = none := by
  constructor <;> decide +kernel

/-- the same inputs on the repaired tree -/
example : (pretty [⟨"aaaaaaaa".toList, "aaaaaaaa".toList⟩, ⟨"aaaaaaaa.*".toList, "*".toList⟩] pEx).toOption
      = some "import aaaaaaaa\nfrom aaaaaaaa import *\n".toList ∧
    parseBlock "import aaaaaaaa\nfrom aaaaaaaa import *\n".toList =
      some [⟨none, [("aaaaaaaa".toList, none)]⟩, ⟨some "aaaaaaaa".toList, [(star, none)]⟩] := by
  constructor <;> decide +kernel

end Witness

/-! ## T3  the statements denote exactly the imports of the set -/

/-- **getStatements_imports**: the imports of the statements `get_statements` builds are a permutation of the
    set (nothing lost, duplicated or merged wrongly), for every set whose members survive
    `from_split ∘ split` (see `fromSplit_split`). -/
theorem getStatements_imports (S : List Imp) (sep : Bool) (sts : List Stmt)
    (h : getStatements S sep = .ok sts) (hrt : ∀ i ∈ S, Imp.fromSplit i.split = i) :
    (sts.flatMap Stmt.imports).Perm S := by
  unfold getStatements at h
  obtain ⟨groups, hg, h⟩ := (bind_eq_ok _ _ _).mp h
  simp only [pure, Except.pure] at h
  injection h with h
  subst h
  have hfa := mapM_ok_forall₂ _ _ _ hg
  have hkeys : (isort gkLe (dedup (S.map (gkeyOf sep)))).Perm (dedup (S.map (gkeyOf sep))) := isort_perm _ _
  have hnd : (isort gkLe (dedup (S.map (gkeyOf sep)))).Nodup := (hkeys.nodup_iff).mpr (nodup_dedup _)
  have hstep := groups_imports S sep _ groups hfa hrt
  refine hstep.trans ((group_perm (gkeyOf sep) S _ hnd).trans ?_)
  apply List.Perm.of_eq
  rw [List.filter_eq_self]
  intro i hi
  simp only [decide_eq_true_eq]
  exact hkeys.mem_iff.mpr ((mem_dedup _ _).mpr (List.mem_map.mpr ⟨i, hi, rfl⟩))

example : (∀ i ∈ dedup impsEx, Imp.fromSplit i.split = i) := by decide +kernel

/-- **split_roundtrip**: `Import.from_split(imp.split) == imp` for every import whose fullname is
    leading dots followed by a non-empty dotted path without empty components (`wfName`), whatever the
    local name. -/
theorem split_roundtrip (i : Imp) (h : wfName i.fullname = true) : Imp.fromSplit i.split = i :=
  fromSplit_split i h

example : wfName "..pkg.mod.name".toList = true ∧
    (Imp.mk "..pkg.mod.name".toList "x".toList).split = ⟨some "..pkg.mod".toList, "name".toList, some "x".toList⟩ := by
  constructor <;> decide +kernel

/-- without the hypothesis the round trip fails: an empty component is swallowed -/
example : Imp.fromSplit (Imp.mk "a..b".toList "x".toList).split ≠ Imp.mk "a..b".toList "x".toList := by
  decide +kernel

/-- **C11_imports_exact** — the headline of the round trip for the code as it is now: if `pretty` returns
    a text for imports with well-formed fullnames whose statements carry valid Python names, then the text
    parses, and the imports of the parsed statements are a permutation of the (duplicate-free) input set:
    same fullname and local name each, nothing lost, duplicated or merged. -/
theorem C11_imports_exact (imps : List Imp) (p : Params) (text : Str) (hfix : p.d2fix = true)
    (h : pretty imps p = .ok text) (hwf : ∀ i ∈ imps, wfName i.fullname = true)
    (hvalid : ∀ sts, getStatements (dedup imps) p.sepFrom = .ok sts → ∀ st ∈ sts, validStmt st = true) :
    ∃ back, parseBlock text = some back ∧ (back.flatMap Stmt.imports).Perm (dedup imps) := by
  obtain ⟨stmts, col, h1, _, h3⟩ := C11_roundtrip imps p text hfix h
  obtain ⟨back, hb, _, hi⟩ := h3 (hvalid stmts h1)
  refine ⟨back, hb, ?_⟩
  rw [hi]
  exact getStatements_imports _ _ _ h1 (fun i hi => fromSplit_split i (hwf i ((mem_dedup i imps).mp hi)))

example : (∀ i ∈ impsEx, wfName i.fullname = true) := by decide +kernel

/-! ## T4  fixpoint: formatting the re-parsed set reproduces the identical text -/

/-- **C11_set_only**: `pretty` depends only on the *set* of imports given (order and repetitions are
    irrelevant): sorting with a total antisymmetric order makes `get_statements` canonical. -/
theorem C11_set_only (l₁ l₂ : List Imp) (p : Params) (h : ∀ i, i ∈ l₁ ↔ i ∈ l₂) :
    pretty l₁ p = pretty l₂ p :=
  pretty_perm l₁ l₂ p (dedup_perm l₁ l₂ h)

/-- **C11_fixpoint** — for the code as it is now: when `pretty` returns a text (well-formed fullnames,
    valid Python names), the text parses, and formatting the imports of the parsed statements with the same
    configuration returns the identical text. -/
theorem C11_fixpoint (imps : List Imp) (p : Params) (text : Str) (hfix : p.d2fix = true)
    (h : pretty imps p = .ok text) (hwf : ∀ i ∈ imps, wfName i.fullname = true)
    (hvalid : ∀ sts, getStatements (dedup imps) p.sepFrom = .ok sts → ∀ st ∈ sts, validStmt st = true) :
    ∃ back, parseBlock text = some back ∧ pretty (back.flatMap Stmt.imports) p = .ok text := by
  obtain ⟨back, hb, hperm⟩ := C11_imports_exact imps p text hfix h hwf hvalid
  refine ⟨back, hb, ?_⟩
  rw [← h]
  apply pretty_perm
  have hnd : (back.flatMap Stmt.imports).Nodup := (hperm.nodup_iff).mpr (nodup_dedup imps)
  rw [dedup_of_nodup _ hnd]
  exact hperm

example : ((pretty impsEx pEx).toOption.bind parseBlock).map (fun back => (pretty (back.flatMap Stmt.imports) pEx).toOption)
    = some (pretty impsEx pEx).toOption := by decide +kernel

/-- **C11_width_physical**: when neither the prefix nor a token contains a newline, the lines of
    `pyfillLines` are exactly the physical lines of the text `pyfill` returns (Python `out.split("\n")`,
    whose last element is the empty string after the final newline). -/
theorem C11_width_physical (pfx : Str) (tokens : List Str) (p : Params) (out : Str)
    (h : pyfill pfx tokens p = .ok out) (hp : '\n' ∉ pfx) (ht : ∀ t ∈ tokens, '\n' ∉ t) :
    splitNl out = (pyfillLines pfx tokens p).map (·.1) ++ [[]] := by
  obtain ⟨hout, _⟩ := C11_width pfx tokens p out h
  rw [hout]
  have := splitNl_lines ((pyfillLines pfx tokens p).map (·.1)) (by
    intro l hl
    obtain ⟨x, hx, rfl⟩ := List.mem_map.mp hl
    exact pyfillLines_noNl pfx tokens p hp ht x hx)
  rw [List.map_map] at this
  exact this

end Pfb.C11
