/-
  Pfb.C11.Model — import formatting:

  * `fill`, `pyfill`                                   lib/python/pyflyby/_format.py:44-182
  * `Imp.split`, `Imp.fromSplit`                        _importstmt.py:184-253
  * `Stmt.pretty` (ljust / backslash wrap)              _importstmt.py:536-576
  * `byModuleName`/`getStatements`, `conflicting`,
    `importColumn`, `pretty`                            _importclns.py:238-306, 378-392, 408-495
  * `parseBlock`: a reference lexer/parser for the subset of import-statement
    syntax the formatter can emit (model of CPython's parser, validated against
    `ast.parse` by the correspondence check).

  Text is `List Char`.  The model follows the code that exists: plain imports
  and star imports go through `pyfill` like everything else (defect D2), the
  assertion / ValueError branches are `Except` errors.  `use_black` is outside
  the model (always False in the claimed domain).
-/
import Pfb.Basic
namespace Pfb.C11
open Pfb

inductive Err
  | assertion | valueError | typeError | conflicting
deriving Repr, DecidableEq

def spaces (n : Nat) : Str := List.replicate n ' '

/-- `str.rstrip()` -/
def rstrip (s : Str) : Str := (s.reverse.dropWhile isPySpace).reverse

/-- `sep.join(l)` -/
def sjoin (sep : Str) : List Str → Str
  | [] => []
  | [t] => t
  | t :: t' :: ts => t ++ sep ++ sjoin sep (t' :: ts)

def slen (l : List Str) : Nat := (l.map List.length).sum

/-! ## `fill` -/

/-- the keyword arguments of `fill` after the tuple/str normalisation of lines 75-86 -/
structure FillCfg where
  sepN : Str      -- nonterm_sep
  sepT : Str      -- term_sep
  pre1 : Str      -- first_prefix
  preC : Str      -- cont_prefix
  sufN : Str      -- nonterm_suffix
  sufT : Str      -- term_suffix
  nl   : Str      -- newline

/-- one output line under construction: its prefix and the tokens put on it so far -/
structure Line where
  pre : Str
  toks : List Str
deriving Repr, DecidableEq

/-- `lines[-1]` while the line is open -/
def Line.body (c : FillCfg) (l : Line) : Str := l.pre ++ sjoin c.sepN l.toks

/-- the `for token, is_last in …` loop (lines 88-98): `cur` is `lines[-1]`, the result lists the
    finished lines followed by the last open one. -/
def fillLines (c : FillCfg) (N : Nat) : Line → List Str → List Line
  | cur, [] => [cur]
  | cur, t :: ts =>
    let isLast := ts.isEmpty
    let suffix := if isLast then c.sufT else c.sufN
    let sep := rstrip (if isLast then c.sepT else c.sepN)
    if (cur.body c ++ c.sepN ++ t ++ sep ++ suffix).length ≤ N then
      fillLines c N ⟨cur.pre, cur.toks ++ [t]⟩ ts
    else
      cur :: fillLines c N ⟨c.preC, [t]⟩ ts

/-- text of a non-final line (line 97) -/
def Line.renderN (c : FillCfg) (l : Line) : Str := l.body c ++ rstrip c.sepN ++ c.sufN ++ c.nl
/-- text of the final line (line 99) -/
def Line.renderT (c : FillCfg) (l : Line) : Str := l.body c ++ rstrip c.sepT ++ c.sufT ++ c.nl

def renderLines (c : FillCfg) : List Line → Str
  | [] => []
  | [l] => l.renderT c
  | l :: l' :: ls => l.renderN c ++ renderLines c (l' :: ls)

/-- `fill(tokens, sep, prefix, suffix, newline, max_line_length)`; `assert len(tokens) > 0`. -/
def fill (c : FillCfg) (N : Nat) : List Str → Except Err Str
  | [] => .error .assertion
  | t :: ts => .ok (renderLines c (fillLines c N ⟨c.pre1, [t]⟩ ts))

/-! ## parameters, `pyfill` -/

inductive Hang | never | auto | always
deriving Repr, DecidableEq

inductive Align
  | bool (b : Bool)
  | col (n : Nat)
  | cols (l : List Nat)
deriving Repr, DecidableEq

structure Params where
  width : Option Nat
  align : Align
  fromSpaces : Nat
  hanging : Hang
  indent : Nat
  sepFrom : Bool
  alignFuture : Bool
  /-- which tree is modelled: `false` = the unchanged code (plain imports and stars go through
      `pyfill`, defect D2), `true` = with `fixes/C11-D2.diff` (they are never parenthesised).
      Not a pyflyby parameter; the harness probes the implementation and passes the answer. -/
  d2fix : Bool
deriving Repr

/-- `params.max_line_length or params._max_line_lenght_default` -/
def Params.N (p : Params) : Nat :=
  match p.width with
  | none => 79
  | some 0 => 79
  | some n => n

def maxLen : List Str → Nat
  | [] => 0
  | t :: ts => max t.length (maxLen ts)

def hangCfg (p : Params) : FillCfg :=
  ⟨", ".toList, [], spaces p.indent, spaces p.indent, [], [')'], ['\n']⟩

def parenCfg (pfx : Str) : FillCfg :=
  ⟨", ".toList, [], pfx ++ ['('], spaces (pfx.length + 1), [], [')'], ['\n']⟩

/-- does `pyfill` take the one-line exit (line 135)? -/
def fitsOneLine (pfx : Str) (tokens : List Str) (p : Params) : Bool :=
  pfx.length + (slen tokens + 2 * (tokens.length - 1)) ≤ p.N

def useHanging (pfx : Str) (tokens : List Str) (p : Params) : Bool :=
  match p.hanging with
  | .never => false
  | .always => true
  | .auto => pfx.length + maxLen tokens + 2 > p.N

/-- `pyfill(prefix, tokens, params)` for a non-empty token list (`wrap_paren` is always True). -/
def pyfill (pfx : Str) (tokens : List Str) (p : Params) : Except Err Str :=
  if tokens = [] then .error .assertion else
  if fitsOneLine pfx tokens p then
    .ok (pfx ++ sjoin ", ".toList tokens ++ ['\n'])
  else if useHanging pfx tokens p then
    (fun r => pfx ++ "(\n".toList ++ r) <$> fill (hangCfg p) p.N tokens
  else
    fill (parenCfg pfx) p.N tokens

/-! ## `Import`, `ImportSplit`, `ImportStatement` -/

structure Imp where
  fullname : Str
  importAs : Str
deriving Repr, DecidableEq

structure Split where
  modName : Option Str
  member : Str
  asName : Option Str
deriving Repr, DecidableEq

abbrev Alias := Str × Option Str

structure Stmt where
  fromname : Option Str
  aliases : List Alias
deriving Repr, DecidableEq

/-- `q.rsplit(".", 1)` when `'.' in q` -/
def rsplitDot (q : Str) : Option (Str × Str) :=
  let r := q.reverse
  let after := r.takeWhile (· ≠ '.')
  match r.dropWhile (· ≠ '.') with
  | [] => none
  | _ :: before => some (before.reverse, after.reverse)

/-- value of `level` after `for level, char in enumerate(qname): if char != '.': break` -/
def levelOf (q : Str) : Nat :=
  let k := (q.takeWhile (· = '.')).length
  if k = q.length then k - 1 else k

def Imp.split (i : Imp) : Split :=
  if i.importAs = i.fullname then ⟨none, i.fullname, none⟩ else
  let level := levelOf i.fullname
  let pfx := i.fullname.take level
  let q := i.fullname.drop level
  let mm : Str × Str := match rsplitDot q with
    | some (a, b) => (a, b)
    | none => ([], q)
  let m := pfx ++ mm.1
  ⟨if m = [] then none else some m, mm.2, if i.importAs = mm.2 then none else some i.importAs⟩

def Imp.fromSplit (s : Split) : Imp :=
  let a := s.asName.getD s.member
  match s.modName with
  | none => ⟨s.member, a⟩
  | some m => ⟨m ++ (if endsWith m ['.'] then [] else ['.']) ++ s.member, a⟩

def importSp : Str := "import ".toList
def star : Str := ['*']

def aliasTok (a : Alias) : Str :=
  match a.2 with
  | some n => a.1 ++ " as ".toList ++ n
  | none => a.1

/-- the text before `import ` (`s0`, `s` of lines 548-564) -/
def Stmt.head (fromname : Option Str) (col : Option Nat) (fs : Nat) : Str × Str :=
  match fromname with
  | none => ([], [])
  | some fn =>
    let s := "from".toList ++ spaces fs ++ fn ++ [' ']
    match col with
    | none => ([], s)
    | some c =>
      if s.length > c then (s ++ ['\\', '\n'], spaces c)
      else ([], s ++ spaces (c - s.length))

/-- the branch added by `fixes/C11-D2.diff`: a plain import / a star import is written on one line;
    a plain import with several aliases that does not fit becomes one statement per alias -/
def plainText (s : Str) (toks : List Str) (N : Nat) : Str :=
  if (s ++ sjoin ", ".toList toks).length > N && toks.length > 1 then
    (toks.map fun t => s ++ t ++ ['\n']).flatten
  else s ++ sjoin ", ".toList toks ++ ['\n']

def neverParen (st : Stmt) : Bool := st.fromname.isNone || st.aliases.map aliasTok = [star]

/-- `ImportStatement.pretty_print(params, import_column, from_spaces)`
    (`aliases = []` is excluded by the assertion in `ImportStatement.from_parts`) -/
def Stmt.pretty (st : Stmt) (p : Params) (col : Option Nat) (fs : Nat) : Except Err Str :=
  if fs < 1 then .error .assertion else
  if st.aliases = [] then .error .assertion else
  let h := Stmt.head st.fromname col fs
  if p.d2fix && neverParen st then
    .ok (h.1 ++ plainText (h.2 ++ importSp) (st.aliases.map aliasTok) p.N)
  else
    (fun r => h.1 ++ r) <$> pyfill (h.2 ++ importSp) (st.aliases.map aliasTok) p

/-! ## `ImportSet` -/

def future : Str := "__future__".toList

/-- duplicate-free copy of a list (a Python `set` / the keys of a `dict`; the order is irrelevant
    because every use sorts afterwards) -/
def dedup {α} [DecidableEq α] : List α → List α
  | [] => []
  | a :: as => if a ∈ as then dedup as else a :: dedup as

/-- insertion sort (`sorted(...)`; the keys sorted here are pairwise distinct, so stability is moot) -/
def insertBy {α} (le : α → α → Bool) (a : α) : List α → List α
  | [] => [a]
  | b :: bs => if le a b then a :: b :: bs else b :: insertBy le a bs

def isort {α} (le : α → α → Bool) : List α → List α
  | [] => []
  | a :: as => insertBy le a (isort le as)

/-- lexicographic `≤` on (fullname, import_as): `Import.__lt__` -/
def impLe (a b : Imp) : Bool :=
  strLt a.fullname b.fullname || (a.fullname = b.fullname && strLe a.importAs b.importAs)

/-- group key: (position of the group dict in the list, dict key, label of `union_dicts`) -/
structure GKey where
  grp : Nat
  key : Str
  label : Nat
deriving Repr, DecidableEq

def gkLe (a b : GKey) : Bool :=
  a.grp < b.grp || (a.grp = b.grp && (strLt a.key b.key || (a.key = b.key && a.label ≤ b.label)))

/-- which dict of `_by_module_name` an import goes to, and where that dict's entry is iterated
    by `get_statements` -/
def gkeyOf (sepFrom : Bool) (i : Imp) : GKey :=
  let s := i.split
  match s.modName with
  | none => ⟨1, s.member, 0⟩
  | some m =>
    if m = future then ⟨0, m, 0⟩
    else if sepFrom then ⟨2, m, 0⟩ else ⟨1, m, 1⟩

/-- `ImportStatement._from_imports` for imports that share `split.module_name` -/
def stmtOf (imps : List Imp) : Except Err Stmt :=
  match imps with
  | [] => .error .valueError
  | i :: _ =>
    if imps.all (fun j => j.split.modName = i.split.modName) then
      .ok ⟨i.split.modName, imps.map fun j => (j.split.member, j.split.asName)⟩
    else .error .valueError

def groupStmts (g : List Imp) : Except Err (List Stmt) := do
  let stars := g.filter (fun i => i.importAs = star)
  let non := g.filter (fun i => i.importAs ≠ star)
  if stars.length > 1 then throw .assertion
  let a ← if stars = [] then pure [] else (do let s ← stmtOf stars; pure [s])
  let b ← if non = [] then pure [] else (do let s ← stmtOf (isort impLe non); pure [s])
  pure (a ++ b)

/-- `ImportSet.get_statements(separate_from_imports)`; `S` is the duplicate-free `_importset`. -/
def getStatements (S : List Imp) (sepFrom : Bool) : Except Err (List Stmt) := do
  let keys := isort gkLe (dedup (S.map (gkeyOf sepFrom)))
  let groups ← keys.mapM fun k => groupStmts (S.filter fun i => gkeyOf sepFrom i = k)
  pure groups.flatten

/-- `conflicting_imports != ()` -/
def conflicting (S : List Imp) : Bool :=
  S.any fun i => i.importAs ≠ star && S.any fun j => j.importAs = i.importAs && j ≠ i

def countNl (s : Str) : Nat := s.count '\n'

def insertSorted (n : Nat) : List Nat → List Nat
  | [] => [n]
  | m :: ms => if n < m then n :: m :: ms else if n = m then m :: ms else m :: insertSorted n ms

/-- `sorted(set(l))` -/
def sortedSet (l : List Nat) : List Nat := l.foldr insertSorted []

/-- `argmin` of lines 471-478 over `(column, count)` pairs sorted by column -/
def argminGo (bk bv : Nat) : List (Nat × Nat) → Nat
  | [] => bk
  | (k, v) :: r => if v < bv then argminGo k v r else argminGo bk bv r

def countLines (stmts : List Stmt) (p : Params) (fs c : Nat) : Except Err Nat := do
  let ts ← stmts.mapM fun s => s.pretty p (some c) fs
  pure (ts.map countNl).sum

def isFuture (st : Stmt) : Bool := st.fromname = some future

def doAlign (p : Params) (st : Stmt) : Bool := !isFuture st || p.alignFuture

def maxNat : List Nat → Nat
  | [] => 0
  | a :: as => max a (maxNat as)

/-- lines 441-494: the alignment column -/
def importColumn (stmts : List Stmt) (p : Params) (fs : Nat) : Except Err (Option Nat) :=
  if stmts = [] then pure none else
  match p.align with
  | .bool false => pure none
  | .bool true =>
    let fr := stmts.filter fun s => (match s.fromname with | some f => f ≠ [] | none => false) && doAlign p s
    if fr = [] then pure none
    else pure (some (maxNat (fr.map fun s => (s.fromname.getD []).length) + fs + 5))
  | .col n => pure (some n)
  | .cols l =>
    match sortedSet l with
    | [] => throw .valueError
    | [c] => pure (some c)
    | c :: cs => do
      let counts ← (c :: cs).mapM fun k => do let n ← countLines stmts p fs k; pure (k, n)
      match counts with
      | [] => throw .valueError
      | (k, v) :: r => pure (some (argminGo k v r))

/-- `ImportSet(imports).pretty_print(params)` -/
def pretty (imps : List Imp) (p : Params) : Except Err Str := do
  let S := dedup imps
  if conflicting S then throw .conflicting
  let fs := max 1 p.fromSpaces
  let stmts ← getStatements S p.sepFrom
  let col ← importColumn stmts p fs
  let texts ← stmts.mapM fun st =>
    if doAlign p st then st.pretty p col fs else st.pretty p none 1
  pure texts.flatten

/-! ## Reference grammar: the subset of import-statement syntax the formatter can emit -/

inductive Tok
  | word (w : Str) | star | comma | lparen | rparen | newline
deriving Repr, DecidableEq

def isWordChar (c : Char) : Bool :=
  c.isAlphanum || c = '_' || c = '.' || c.toNat ≥ 128

/-- Tokeniser.  `d` = parenthesis depth, `bol` = at the beginning of a logical line.
    A newline inside parentheses and a backslash-newline are not tokens; an indented logical line,
    an unbalanced parenthesis or any other character is an error. -/
def lex : Nat → Bool → Str → Option (List Tok)
  | d, bol, [] => if d = 0 then some (if bol then [] else [.newline]) else none
  | d, bol, c :: cs =>
    if c = ' ' then (if bol then none else lex d false cs)
    else if c = '\n' then
      (if d = 0 then (if bol then lex 0 true cs else (lex 0 true cs).map (Tok.newline :: ·))
       else lex d false cs)
    else if c = '\\' then
      (match cs with
       | '\n' :: cs' => if bol then none else lex d false cs'
       | _ => none)
    else if c = ',' then (lex d false cs).map (Tok.comma :: ·)
    else if c = '*' then (lex d false cs).map (Tok.star :: ·)
    else if c = '(' then (lex (d + 1) false cs).map (Tok.lparen :: ·)
    else if c = ')' then (if d = 0 then none else (lex (d - 1) false cs).map (Tok.rparen :: ·))
    else if isWordChar c then
      (if (match cs with | c' :: _ => isWordChar c' | [] => false) then
         (match lex d false cs with
          | some (.word w :: ts) => some (.word (c :: w) :: ts)
          | _ => none)
       else (lex d false cs).map (Tok.word [c] :: ·))
    else none

def splitTok (sep : Tok) : List Tok → List (List Tok)
  | [] => [[]]
  | t :: ts =>
    if t = sep then [] :: splitTok sep ts
    else match splitTok sep ts with
      | [] => [[t]]
      | l :: ls => (t :: l) :: ls

def splitDot : Str → List Str
  | [] => [[]]
  | c :: cs =>
    if c = '.' then [] :: splitDot cs
    else match splitDot cs with
      | [] => [[c]]
      | l :: ls => (c :: l) :: ls

def keywords : List Str :=
  ["False", "None", "True", "and", "as", "assert", "async", "await", "break", "class", "continue",
   "def", "del", "elif", "else", "except", "finally", "for", "from", "global", "if", "import", "in",
   "is", "lambda", "nonlocal", "not", "or", "pass", "raise", "return", "try", "while", "with",
   "yield"].map String.toList

def isIdent (w : Str) : Bool :=
  w ≠ [] && w.all (fun c => isWordChar c && c ≠ '.') && !(w.head?.any Char.isDigit) && !keywords.contains w

def isDotted (w : Str) : Bool := (splitDot w).all isIdent

def isFromMod (w : Str) : Bool :=
  let r := w.dropWhile (· = '.')
  if r = [] then w ≠ [] else isDotted r

def kwAs : Str := "as".toList
def kwImport : Str := "import".toList
def kwFrom : Str := "from".toList

def parseAlias (dottedOk : Bool) : List Tok → Option Alias
  | [.word n] => if (if dottedOk then isDotted n else isIdent n) then some (n, none) else none
  | [.word n, .word a, .word m] =>
    if a = kwAs && (if dottedOk then isDotted n else isIdent n) && isIdent m then some (n, some m) else none
  | _ => none

def parseAliases (dottedOk trailing : Bool) (toks : List Tok) : Option (List Alias) :=
  let pieces := splitTok .comma toks
  let pieces := if trailing && pieces.length ≥ 2 && pieces.getLast? = some [] then pieces.dropLast else pieces
  pieces.mapM (parseAlias dottedOk)

/-- one logical line (its tokens without the final NEWLINE) -/
def parseLine : List Tok → Option Stmt
  | .word w :: rest =>
    if w = kwImport then (parseAliases true false rest).map (Stmt.mk none)
    else if w = kwFrom then
      (match rest with
       | .word m :: .word i :: rest' =>
         if i = kwImport && isFromMod m then
           (match rest' with
            | [.star] => some ⟨some m, [(star, none)]⟩
            | .lparen :: inner =>
              if inner.getLast? = some .rparen then (parseAliases false true inner.dropLast).map (Stmt.mk (some m))
              else none
            | _ => (parseAliases false false rest').map (Stmt.mk (some m)))
         else none
       | _ => none)
    else none
  | _ => none

def parseToks (toks : List Tok) : Option (List Stmt) :=
  let ls := splitTok .newline toks
  if ls.getLast? = some [] then ls.dropLast.mapM parseLine else none

/-- statements denoted by a block of import statements (none = not in the grammar) -/
def parseBlock (s : Str) : Option (List Stmt) := (lex 0 true s).bind parseToks

/-- `ImportStatement.imports` of every statement -/
def Stmt.imports (st : Stmt) : List Imp :=
  st.aliases.map fun a => Imp.fromSplit ⟨st.fromname, a.1, a.2⟩

/-! ## decidable hypotheses of the theorems -/

def validAlias (dottedOk : Bool) (a : Alias) : Bool :=
  (if dottedOk then isDotted a.1 else isIdent a.1) && (match a.2 with | some n => isIdent n | none => true)

/-- the names of a statement are what Python's grammar accepts at their position -/
def validStmt (st : Stmt) : Bool :=
  st.aliases ≠ [] &&
  match st.fromname with
  | none => st.aliases.all (validAlias true)
  | some m => isFromMod m && (st.aliases = [(star, none)] || st.aliases.all (validAlias false))

def isStarStmt (st : Stmt) : Bool := st.aliases = [(star, none)]

/-- the statement as `pretty` prints it takes the parenthesised exits of `pyfill` -/
def parenthesised (st : Stmt) (p : Params) (col : Option Nat) (fs : Nat) : Bool :=
  !fitsOneLine ((Stmt.head st.fromname col fs).2 ++ importSp) (st.aliases.map aliasTok) p

/-- negation of D2 for one statement: parentheses only around the names of a `from` import -/
def noBadParen (st : Stmt) (p : Params) (col : Option Nat) (fs : Nat) : Bool :=
  p.d2fix || !parenthesised st p col fs || (st.fromname.isSome && !isStarStmt st)

/-- no empty component: `..` does not occur -/
def noDotDot : Str → Bool
  | '.' :: '.' :: _ => false
  | _ :: cs => noDotDot cs
  | [] => true

/-- a fullname as the import grammar produces it: leading dots, then a non-empty dotted path without
    empty components -/
def wfName (f : Str) : Bool :=
  let q := f.dropWhile (· = '.')
  q ≠ [] && noDotDot q

end Pfb.C11
