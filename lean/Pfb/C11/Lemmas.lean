/-
  Pfb.C11.Lemmas — helper lemmas for the C11 property theorems:
  structure of `fillLines`, the lexer on concatenations, `splitTok` on joined
  token lists.
-/
import Pfb.C11.Model
namespace Pfb.C11
open Pfb

/-! ## `sjoin`, `fillLines` -/

theorem sjoin_snoc (sep : Str) (l : List Str) (t : Str) (h : l ≠ []) :
    sjoin sep (l ++ [t]) = sjoin sep l ++ sep ++ t := by
  induction l with
  | nil => exact absurd rfl h
  | cons a as ih =>
    cases as with
    | nil => simp [sjoin]
    | cons b bs =>
      have := ih (by simp)
      simp only [List.cons_append, sjoin] at this ⊢
      rw [this]; simp [List.append_assoc]

/-- the test of line 92 -/
def fitsNext (c : FillCfg) (N : Nat) (cur : Line) (t : Str) (last : Bool) : Prop :=
  (cur.body c ++ c.sepN ++ t ++ rstrip (if last then c.sepT else c.sepN)
    ++ (if last then c.sufT else c.sufN)).length ≤ N

instance (c : FillCfg) (N : Nat) (cur : Line) (t : Str) (last : Bool) : Decidable (fitsNext c N cur t last) := by
  unfold fitsNext; infer_instance

theorem fillLines_cons (c : FillCfg) (N : Nat) (cur : Line) (t : Str) (ts : List Str) :
    fillLines c N cur (t :: ts) =
      if fitsNext c N cur t ts.isEmpty then fillLines c N ⟨cur.pre, cur.toks ++ [t]⟩ ts
      else cur :: fillLines c N ⟨c.preC, [t]⟩ ts := by
  simp only [fillLines, fitsNext]

theorem fillLines_ne_nil (c : FillCfg) (N : Nat) (cur : Line) (ts : List Str) :
    fillLines c N cur ts ≠ [] := by
  induction ts generalizing cur with
  | nil => simp [fillLines]
  | cons t ts ih =>
    rw [fillLines_cons]
    split
    · exact ih _
    · simp

/-- fill keeps the token sequence: the tokens of the lines, in order, are the tokens given. -/
theorem fillLines_toks (c : FillCfg) (N : Nat) (cur : Line) (ts : List Str) :
    (fillLines c N cur ts).flatMap Line.toks = cur.toks ++ ts := by
  induction ts generalizing cur with
  | nil => simp [fillLines]
  | cons t ts ih =>
    rw [fillLines_cons]
    split
    · rw [ih]; simp
    · simp [ih]

/-- every line holds at least one token -/
theorem fillLines_toks_ne (c : FillCfg) (N : Nat) (cur : Line) (ts : List Str) (h : cur.toks ≠ []) :
    ∀ l ∈ fillLines c N cur ts, l.toks ≠ [] := by
  induction ts generalizing cur with
  | nil => intro l hl; simp [fillLines] at hl; subst hl; exact h
  | cons t ts ih =>
    rw [fillLines_cons]
    split
    · exact ih _ (by simp)
    · intro l hl
      simp at hl
      rcases hl with rfl | hl
      · exact h
      · exact ih _ (by simp) l hl

/-- the first line keeps the first prefix, every later line has the continuation prefix -/
theorem fillLines_pre (c : FillCfg) (N : Nat) (cur : Line) (ts : List Str) :
    ∃ l ls, fillLines c N cur ts = l :: ls ∧ l.pre = cur.pre ∧ ∀ x ∈ ls, x.pre = c.preC := by
  induction ts generalizing cur with
  | nil => exact ⟨cur, [], rfl, rfl, by simp⟩
  | cons t ts ih =>
    rw [fillLines_cons]
    split
    · obtain ⟨l, ls, h1, h2, h3⟩ := ih ⟨cur.pre, cur.toks ++ [t]⟩
      exact ⟨l, ls, h1, h2, h3⟩
    · obtain ⟨l, ls, h1, h2, h3⟩ := ih ⟨c.preC, [t]⟩
      refine ⟨cur, l :: ls, by rw [h1], rfl, ?_⟩
      intro x hx
      simp at hx
      rcases hx with rfl | hx
      · exact h2
      · exact h3 x hx

/-- text of a line without the newline: final (`true`) or non-final form -/
def Line.text (c : FillCfg) (final : Bool) (l : Line) : Str :=
  l.body c ++ rstrip (if final then c.sepT else c.sepN) ++ (if final then c.sufT else c.sufN)

/-- width discipline of a list of finished lines: a line with two or more tokens fits -/
def WidthOK (c : FillCfg) (N : Nat) : List Line → Prop
  | [] => True
  | [l] => l.toks.length ≤ 1 ∨ (l.text c true).length ≤ N
  | l :: l' :: ls => (l.toks.length ≤ 1 ∨ (l.text c false).length ≤ N) ∧ WidthOK c N (l' :: ls)

theorem fillLines_width (c : FillCfg) (N : Nat) (cur : Line) (ts : List Str)
    (hne : cur.toks ≠ [])
    (hcur : cur.toks.length ≤ 1 ∨ (cur.text c ts.isEmpty).length ≤ N) :
    WidthOK c N (fillLines c N cur ts) := by
  induction ts generalizing cur with
  | nil => simpa [fillLines, WidthOK] using hcur
  | cons t ts ih =>
    rw [fillLines_cons]
    split
    · rename_i hfit
      apply ih
      · simp
      · right
        simp only [Line.text, Line.body]
        rw [sjoin_snoc _ _ _ hne]
        simp only [fitsNext, Line.body] at hfit
        simpa [List.append_assoc] using hfit
    · have hrest := ih ⟨c.preC, [t]⟩ (by simp) (Or.inl (by simp))
      obtain ⟨l, ls, h1, _, _⟩ := fillLines_pre c N ⟨c.preC, [t]⟩ ts
      rw [h1] at hrest ⊢
      refine ⟨?_, hrest⟩
      simpa using hcur

/-! ## the lexer on concatenations -/

def WordStr (w : Str) : Prop := w ≠ [] ∧ ∀ c ∈ w, isWordChar c = true

/-- the text that follows does not continue a word -/
def NoWordHead (r : Str) : Prop := ∀ c r', r = c :: r' → isWordChar c = false

theorem noWordHead_nil : NoWordHead [] := by intro c r h; cases h

theorem noWordHead_cons (c : Char) (r : Str) (h : isWordChar c = false) : NoWordHead (c :: r) := by
  intro c' r' e; cases e; exact h

theorem wordChar_ne (c : Char) (h : isWordChar c = true) :
    c ≠ ' ' ∧ c ≠ '\n' ∧ c ≠ '\\' ∧ c ≠ ',' ∧ c ≠ '*' ∧ c ≠ '(' ∧ c ≠ ')' := by
  refine ⟨?_, ?_, ?_, ?_, ?_, ?_, ?_⟩ <;> (rintro rfl; revert h; decide)

theorem lex_wordchar (d : Nat) (b : Bool) (c : Char) (cs : Str) (h : isWordChar c = true) :
    lex d b (c :: cs) =
      if (match cs with | c' :: _ => isWordChar c' | [] => false) then
        (match lex d false cs with
         | some (.word w :: ts) => some (.word (c :: w) :: ts)
         | _ => none)
      else (lex d false cs).map (Tok.word [c] :: ·) := by
  obtain ⟨h1, h2, h3, h4, h5, h6, h7⟩ := wordChar_ne c h
  conv => lhs; rw [lex.eq_def]
  simp only [h1, h2, h3, h4, h5, h6, h7, h, if_false, if_true]
  rfl

theorem lex_word (w : Str) (hw : WordStr w) (d : Nat) (b : Bool) (rest : Str) (hr : NoWordHead rest) :
    lex d b (w ++ rest) = (lex d false rest).map (Tok.word w :: ·) := by
  obtain ⟨hne, hall⟩ := hw
  induction w generalizing b with
  | nil => exact absurd rfl hne
  | cons c w ih =>
    have hc : isWordChar c = true := hall c (by simp)
    rw [List.cons_append, lex_wordchar d b c _ hc]
    cases w with
    | nil =>
      have : (match ([] ++ rest : Str) with | c' :: _ => isWordChar c' | [] => false) = false := by
        cases rest with
        | nil => rfl
        | cons x xs => exact hr x xs rfl
      simp only [this]
      simp
    | cons c' w' =>
      have hc' : isWordChar c' = true := hall c' (by simp)
      have ih' := ih false (by simp) (fun x hx => hall x (List.mem_cons_of_mem _ hx))
      simp only [List.cons_append, hc', if_true]
      simp only [List.cons_append] at ih'
      rw [ih']
      cases lex d false rest <;> simp

theorem lex_space (d : Nat) (cs : Str) : lex d false (' ' :: cs) = lex d false cs := by
  conv => lhs; rw [lex.eq_def]
  simp

theorem lex_spaces (d : Nat) (n : Nat) (cs : Str) : lex d false (spaces n ++ cs) = lex d false cs := by
  induction n with
  | zero => simp [spaces]
  | succ n ih =>
    have : spaces (n + 1) = ' ' :: spaces n := by simp [spaces, List.replicate_succ]
    rw [this, List.cons_append, lex_space, ih]

theorem lex_comma (d : Nat) (b : Bool) (cs : Str) :
    lex d b (',' :: cs) = (lex d false cs).map (Tok.comma :: ·) := by
  conv => lhs; rw [lex.eq_def]
  simp

theorem lex_star (d : Nat) (b : Bool) (cs : Str) :
    lex d b ('*' :: cs) = (lex d false cs).map (Tok.star :: ·) := by
  conv => lhs; rw [lex.eq_def]
  simp

theorem lex_lparen (d : Nat) (b : Bool) (cs : Str) :
    lex d b ('(' :: cs) = (lex (d + 1) false cs).map (Tok.lparen :: ·) := by
  conv => lhs; rw [lex.eq_def]
  simp

theorem lex_rparen (d : Nat) (b : Bool) (cs : Str) :
    lex (d + 1) b (')' :: cs) = (lex d false cs).map (Tok.rparen :: ·) := by
  conv => lhs; rw [lex.eq_def]
  simp

theorem lex_nl_in (d : Nat) (b : Bool) (cs : Str) :
    lex (d + 1) b ('\n' :: cs) = lex (d + 1) false cs := by
  conv => lhs; rw [lex.eq_def]
  simp

theorem lex_nl_top (cs : Str) :
    lex 0 false ('\n' :: cs) = (lex 0 true cs).map (Tok.newline :: ·) := by
  conv => lhs; rw [lex.eq_def]
  simp

theorem lex_bsnl (d : Nat) (cs : Str) : lex d false ('\\' :: '\n' :: cs) = lex d false cs := by
  conv => lhs; rw [lex.eq_def]
  simp

/-! ## tokens of alias texts, joined lists, filled lines -/

def nameTok (n : Str) : Tok := if n = star then .star else .word n

def aliasToks (a : Alias) : List Tok :=
  nameTok a.1 :: (match a.2 with | none => [] | some n => [.word kwAs, .word n])

/-- comma-joined token groups -/
def tjoin : List (List Tok) → List Tok
  | [] => []
  | [t] => t
  | t :: t' :: ts => t ++ Tok.comma :: tjoin (t' :: ts)

theorem tjoin_append (A B : List (List Tok)) (hA : A ≠ []) (hB : B ≠ []) :
    tjoin (A ++ B) = tjoin A ++ Tok.comma :: tjoin B := by
  induction A with
  | nil => exact absurd rfl hA
  | cons a as ih =>
    cases as with
    | nil =>
      cases B with
      | nil => exact absurd rfl hB
      | cons b bs => simp [tjoin]
    | cons a' as' =>
      have := ih (by simp)
      simp only [List.cons_append, tjoin] at this ⊢
      rw [this]; simp

/-- `t` lexes to `toks` in any lexer state, when not followed by a word character -/
def LexAs (t : Str) (toks : List Tok) : Prop :=
  ∀ d b rest, NoWordHead rest → lex d b (t ++ rest) = (lex d false rest).map (toks ++ ·)

theorem LexAs.unique {t : Str} {a b : List Tok} (ha : LexAs t a) (hb : LexAs t b) : a = b := by
  have h1 := ha 0 false [] noWordHead_nil
  have h2 := hb 0 false [] noWordHead_nil
  rw [h1] at h2
  have h3 : lex 0 false [] = some [Tok.newline] := by
    conv => lhs; rw [lex.eq_def]
    simp
  rw [h3] at h2
  simp at h2
  exact h2

open Classical in
/-- the tokens a text lexes to (if it does so uniformly) -/
noncomputable def tkOf (t : Str) : List Tok :=
  if h : ∃ toks, LexAs t toks then Classical.choose h else []

theorem tkOf_eq {t : Str} {toks : List Tok} (h : LexAs t toks) : tkOf t = toks := by
  have hex : ∃ toks, LexAs t toks := ⟨toks, h⟩
  unfold tkOf
  rw [dif_pos hex]
  exact LexAs.unique (Classical.choose_spec hex) h

theorem star_not_word : ¬ WordStr star := by
  intro h
  have := h.2 '*' (by simp [star])
  revert this; decide

theorem nameTok_word (n : Str) (h : WordStr n) : nameTok n = .word n := by
  unfold nameTok
  rw [if_neg]
  rintro rfl
  exact star_not_word h

theorem lex_name (n : Str) (h : n = star ∨ WordStr n) (d : Nat) (b : Bool) (rest : Str) (hr : NoWordHead rest) :
    lex d b (n ++ rest) = (lex d false rest).map (nameTok n :: ·) := by
  rcases h with rfl | h
  · simp only [star, List.cons_append, List.nil_append, lex_star]
    rfl
  · rw [lex_word n h d b rest hr, nameTok_word n h]

def TxtOK (a : Alias) : Prop := (a.1 = star ∨ WordStr a.1) ∧ ∀ n, a.2 = some n → WordStr n

theorem kwAs_word : WordStr kwAs := by
  refine ⟨by decide, ?_⟩
  decide

theorem lexAs_alias (a : Alias) (h : TxtOK a) : LexAs (aliasTok a) (aliasToks a) := by
  obtain ⟨n, m⟩ := a
  obtain ⟨h1, h2⟩ := h
  intro d b rest hr
  cases m with
  | none =>
    simp only [aliasTok, aliasToks]
    rw [lex_name n h1 d b rest hr]
    rfl
  | some m =>
    have hm := h2 m rfl
    have e : aliasTok (n, some m) ++ rest = n ++ (' ' :: (kwAs ++ (' ' :: (m ++ rest)))) := by
      simp [aliasTok, kwAs, List.append_assoc]
    rw [e, lex_name n h1 d b _ (noWordHead_cons _ _ (by decide)), lex_space,
      lex_word kwAs kwAs_word d false _ (noWordHead_cons _ _ (by decide)), lex_space,
      lex_word m hm d false rest hr]
    simp only [aliasToks, Option.map_map]
    rfl

theorem lex_sjoin (toks : List Str) (hne : toks ≠ []) (h : ∀ t ∈ toks, ∃ k, LexAs t k)
    (d : Nat) (b : Bool) (rest : Str) (hr : NoWordHead rest) :
    lex d b (sjoin ", ".toList toks ++ rest) = (lex d false rest).map (tjoin (toks.map tkOf) ++ ·) := by
  induction toks generalizing b with
  | nil => exact absurd rfl hne
  | cons t ts ih =>
    obtain ⟨k, hk⟩ := h t (by simp)
    cases ts with
    | nil =>
      simp only [sjoin, List.map, tjoin]
      rw [hk d b rest hr, tkOf_eq hk]
    | cons t' ts' =>
      have e : sjoin ", ".toList (t :: t' :: ts') ++ rest = t ++ (',' :: ' ' :: (sjoin ", ".toList (t' :: ts') ++ rest)) := by
        simp [sjoin, List.append_assoc]
      rw [e, hk d b _ (noWordHead_cons _ _ (by decide)), lex_comma, lex_space,
        ih (by simp) (fun x hx => h x (List.mem_cons_of_mem _ hx)) false]
      simp only [List.map, tjoin, Option.map_map, tkOf_eq hk]
      congr 1
      funext x
      simp

/-- the shape of the two configurations `pyfill` calls `fill` with -/
structure PyCfg (c : FillCfg) : Prop where
  sepN : c.sepN = ", ".toList
  sepT : c.sepT = []
  sufN : c.sufN = []
  sufT : c.sufT = [')']
  nl : c.nl = ['\n']

theorem rstrip_commasp : rstrip [',', ' '] = [','] := by decide
theorem rstrip_nil : rstrip [] = [] := by decide

theorem flatMap_toks_ne (L : List Line) (hL : L ≠ []) (h : ∀ l ∈ L, l.toks ≠ []) :
    L.flatMap Line.toks ≠ [] := by
  cases L with
  | nil => exact absurd rfl hL
  | cons l ls =>
    have := h l (by simp)
    simp [this]

/-- lexing the lines `fill` produced, from just inside the opening parenthesis -/
theorem lex_lines (c : FillCfg) (hc : PyCfg c) (L : List Line) (hL : L ≠ [])
    (htoks : ∀ l ∈ L, l.toks ≠ [] ∧ ∀ t ∈ l.toks, ∃ k, LexAs t k)
    (hpre : ∀ l ∈ L, ∃ k, l.pre = spaces k) (rest : Str) :
    lex 1 false (renderLines c L ++ rest) =
      (lex 0 true rest).map (tjoin ((L.flatMap Line.toks).map tkOf) ++ [.rparen, .newline] ++ ·) := by
  induction L with
  | nil => exact absurd rfl hL
  | cons l ls ih =>
    obtain ⟨k, hk⟩ := hpre l (by simp)
    obtain ⟨hne, hlex⟩ := htoks l (by simp)
    cases ls with
    | nil =>
      have e : renderLines c [l] ++ rest = spaces k ++ (sjoin ", ".toList l.toks ++ (')' :: '\n' :: rest)) := by
        simp [renderLines, Line.renderT, Line.body, hc.sepN, hc.sepT, hc.sufT, hc.nl, hk, rstrip_nil, List.append_assoc]
      rw [e, lex_spaces, lex_sjoin _ hne hlex 1 false _ (noWordHead_cons _ _ (by decide)),
        lex_rparen, lex_nl_top]
      simp only [Option.map_map, List.flatMap_cons, List.flatMap_nil, List.append_nil]
      congr 1
      funext x
      simp
    | cons l' ls' =>
      have e : renderLines c (l :: l' :: ls') ++ rest =
          spaces k ++ (sjoin ", ".toList l.toks ++ (',' :: '\n' :: (renderLines c (l' :: ls') ++ rest))) := by
        simp [renderLines, Line.renderN, Line.body, hc.sepN, hc.sufN, hc.nl, hk, rstrip_commasp, List.append_assoc]
      have ih' := ih (by simp) (fun x hx => htoks x (List.mem_cons_of_mem _ hx))
        (fun x hx => hpre x (List.mem_cons_of_mem _ hx))
      rw [e, lex_spaces, lex_sjoin _ hne hlex 1 false _ (noWordHead_cons _ _ (by decide)),
        lex_comma, lex_nl_in, ih']
      have hB : (l' :: ls').flatMap Line.toks ≠ [] :=
        flatMap_toks_ne _ (by simp) (fun x hx => (htoks x (List.mem_cons_of_mem _ hx)).1)
      have hflat : (l :: l' :: ls').flatMap Line.toks = l.toks ++ (l' :: ls').flatMap Line.toks := by simp
      simp only [Option.map_map]
      rw [hflat, List.map_append,
        tjoin_append _ _ (by rw [Ne, List.map_eq_nil_iff]; exact hne) (by rw [Ne, List.map_eq_nil_iff]; exact hB)]
      congr 1
      funext x
      simp

/-! ## `pyfill` and statements -/

theorem renderLines_pre (c : FillCfg) (l : Line) (ls : List Line) :
    renderLines c (l :: ls) = l.pre ++ renderLines c (⟨[], l.toks⟩ :: ls) := by
  cases ls with
  | nil => simp [renderLines, Line.renderT, Line.body, List.append_assoc]
  | cons l' ls' => simp [renderLines, Line.renderN, Line.body, List.append_assoc]

theorem pyCfg_hang (p : Params) : PyCfg (hangCfg p) := ⟨rfl, rfl, rfl, rfl, rfl⟩
theorem pyCfg_paren (pfx : Str) : PyCfg (parenCfg pfx) := ⟨rfl, rfl, rfl, rfl, rfl⟩

/-- what `pyfill` writes after the prefix lexes to the joined tokens, parenthesised unless the
    one-line exit was taken -/
theorem lex_pyfill (pfx : Str) (tokens : List Str) (p : Params) (out : Str)
    (hne : tokens ≠ []) (hlex : ∀ t ∈ tokens, ∃ k, LexAs t k)
    (h : pyfill pfx tokens p = .ok out) :
    ∃ body, out = pfx ++ body ∧ ∀ rest, lex 0 false (body ++ rest) =
      (lex 0 true rest).map
        ((if fitsOneLine pfx tokens p then tjoin (tokens.map tkOf)
          else [Tok.lparen] ++ tjoin (tokens.map tkOf) ++ [Tok.rparen]) ++ [Tok.newline] ++ ·) := by
  unfold pyfill at h
  rw [if_neg hne] at h
  by_cases h1 : fitsOneLine pfx tokens p = true
  · rw [if_pos h1] at h
    injection h with h
    refine ⟨sjoin ", ".toList tokens ++ ['\n'], by rw [← h]; simp [List.append_assoc], ?_⟩
    intro rest
    have e : sjoin ", ".toList tokens ++ ['\n'] ++ rest = sjoin ", ".toList tokens ++ ('\n' :: rest) := by simp
    rw [if_pos h1, e, lex_sjoin _ hne hlex 0 false ('\n' :: rest) (noWordHead_cons _ _ (by decide))]
    simp only [lex_nl_top, Option.map_map]
    congr 1
    funext x
    simp
  · rw [if_neg h1] at h
    obtain ⟨t, ts, rfl⟩ : ∃ t ts, tokens = t :: ts := by
      cases tokens with
      | nil => exact absurd rfl hne
      | cons t ts => exact ⟨t, ts, rfl⟩
    by_cases h2 : useHanging pfx (t :: ts) p = true
    · rw [if_pos h2] at h
      simp only [fill, Functor.map, Except.map] at h
      injection h with h
      refine ⟨"(\n".toList ++ renderLines (hangCfg p) (fillLines (hangCfg p) p.N ⟨(hangCfg p).pre1, [t]⟩ ts),
        by rw [← h]; simp [List.append_assoc], ?_⟩
      intro rest
      have hL := fillLines_ne_nil (hangCfg p) p.N ⟨(hangCfg p).pre1, [t]⟩ ts
      have htk := fillLines_toks (hangCfg p) p.N ⟨(hangCfg p).pre1, [t]⟩ ts
      have hne' := fillLines_toks_ne (hangCfg p) p.N ⟨(hangCfg p).pre1, [t]⟩ ts (by simp)
      obtain ⟨l, ls, e, hp1, hp2⟩ := fillLines_pre (hangCfg p) p.N ⟨(hangCfg p).pre1, [t]⟩ ts
      have hmem : ∀ l' ∈ fillLines (hangCfg p) p.N ⟨(hangCfg p).pre1, [t]⟩ ts, ∀ x ∈ l'.toks, x ∈ t :: ts := by
        intro l' hl' x hx
        have : x ∈ (fillLines (hangCfg p) p.N ⟨(hangCfg p).pre1, [t]⟩ ts).flatMap Line.toks :=
          List.mem_flatMap.mpr ⟨l', hl', hx⟩
        rw [htk] at this
        simpa using this
      have e2 : ("(\n".toList ++ renderLines (hangCfg p) (fillLines (hangCfg p) p.N ⟨(hangCfg p).pre1, [t]⟩ ts)) ++ rest
          = '(' :: '\n' :: (renderLines (hangCfg p) (fillLines (hangCfg p) p.N ⟨(hangCfg p).pre1, [t]⟩ ts) ++ rest) := by
        simp
      rw [e2, lex_lparen, lex_nl_in,
        lex_lines (hangCfg p) (pyCfg_hang p) _ hL
          (fun l' hl' => ⟨hne' l' hl', fun x hx => hlex x (hmem l' hl' x hx)⟩)
          (by
            intro l' hl'
            rw [e] at hl'
            simp at hl'
            rcases hl' with rfl | hl'
            · exact ⟨p.indent, hp1⟩
            · exact ⟨p.indent, hp2 l' hl'⟩)]
      rw [if_neg h1, htk]
      simp only [Option.map_map]
      congr 1
      funext x
      simp
    · rw [if_neg h2] at h
      simp only [fill] at h
      injection h with h
      have hL := fillLines_ne_nil (parenCfg pfx) p.N ⟨(parenCfg pfx).pre1, [t]⟩ ts
      have htk := fillLines_toks (parenCfg pfx) p.N ⟨(parenCfg pfx).pre1, [t]⟩ ts
      have hne' := fillLines_toks_ne (parenCfg pfx) p.N ⟨(parenCfg pfx).pre1, [t]⟩ ts (by simp)
      obtain ⟨l, ls, e, hp1, hp2⟩ := fillLines_pre (parenCfg pfx) p.N ⟨(parenCfg pfx).pre1, [t]⟩ ts
      have hmem : ∀ l' ∈ fillLines (parenCfg pfx) p.N ⟨(parenCfg pfx).pre1, [t]⟩ ts, ∀ x ∈ l'.toks, x ∈ t :: ts := by
        intro l' hl' x hx
        have : x ∈ (fillLines (parenCfg pfx) p.N ⟨(parenCfg pfx).pre1, [t]⟩ ts).flatMap Line.toks :=
          List.mem_flatMap.mpr ⟨l', hl', hx⟩
        rw [htk] at this
        simpa using this
      rw [e] at h htk hne' hmem
      rw [renderLines_pre] at h
      have hp1' : l.pre = pfx ++ ['('] := hp1
      refine ⟨'(' :: renderLines (parenCfg pfx) (⟨[], l.toks⟩ :: ls), by rw [← h, hp1']; simp, ?_⟩
      intro rest
      rw [List.cons_append, lex_lparen,
        lex_lines (parenCfg pfx) (pyCfg_paren pfx) _ (by simp)
          (by
            intro l' hl'
            simp at hl'
            rcases hl' with rfl | hl'
            · exact ⟨hne' l (by simp), fun x hx => hlex x (hmem l (by simp) x hx)⟩
            · exact ⟨hne' l' (by simp [hl']), fun x hx => hlex x (hmem l' (by simp [hl']) x hx)⟩)
          (by
            intro l' hl'
            simp at hl'
            rcases hl' with rfl | hl'
            · exact ⟨0, rfl⟩
            · exact ⟨_, hp2 l' hl'⟩)]
      have htk' : (({ pre := [], toks := l.toks } : Line) :: ls).flatMap Line.toks = t :: ts := by
        simpa using htk
      rw [if_neg h1, htk']
      simp only [Option.map_map]
      congr 1
      funext x
      simp

def headToks (fromname : Option Str) : List Tok :=
  match fromname with
  | none => []
  | some m => [.word kwFrom, .word m]

theorem kwImport_word : WordStr kwImport := ⟨by decide, by decide⟩
theorem kwFrom_word : WordStr kwFrom := ⟨by decide, by decide⟩

theorem importSp_eq (rest : Str) : importSp ++ rest = kwImport ++ (' ' :: rest) := by
  simp [importSp, kwImport]

/-- the text up to and including `import ` -/
theorem lex_head (fromname : Option Str) (col : Option Nat) (fs : Nat) (hfs : 1 ≤ fs)
    (hm : ∀ m, fromname = some m → WordStr m) (b : Bool) (rest : Str) :
    lex 0 b ((Stmt.head fromname col fs).1 ++ ((Stmt.head fromname col fs).2 ++ importSp ++ rest)) =
      (lex 0 false rest).map (headToks fromname ++ [Tok.word kwImport] ++ ·) := by
  have himp : ∀ r, lex 0 false (importSp ++ r) = (lex 0 false r).map (Tok.word kwImport :: ·) := by
    intro r
    rw [importSp_eq, lex_word kwImport kwImport_word 0 false _ (noWordHead_cons _ _ (by decide)), lex_space]
  cases fromname with
  | none =>
    simp only [Stmt.head, List.nil_append, headToks]
    rw [importSp_eq, lex_word kwImport kwImport_word 0 b _ (noWordHead_cons _ _ (by decide)), lex_space]
    rfl
  | some fn =>
    have hfn := hm fn rfl
    obtain ⟨k, rfl⟩ : ∃ k, fs = k + 1 := ⟨fs - 1, by omega⟩
    have hsp : spaces (k + 1) = ' ' :: spaces k := by simp [spaces, List.replicate_succ]
    -- everything after `from<spaces>fn ` is a gap that produces no token, then `import `
    have hfrom : ∀ r, lex 0 b ("from".toList ++ spaces (k + 1) ++ fn ++ [' '] ++ r) =
        (lex 0 false r).map ([Tok.word kwFrom, Tok.word fn] ++ ·) := by
      intro r
      have e : "from".toList ++ spaces (k + 1) ++ fn ++ [' '] ++ r = kwFrom ++ (' ' :: (spaces k ++ (fn ++ (' ' :: r)))) := by
        rw [hsp]; simp [kwFrom, List.append_assoc]
      rw [e, lex_word kwFrom kwFrom_word 0 b _ (noWordHead_cons _ _ (by decide)), lex_space, lex_spaces,
        lex_word fn hfn 0 false _ (noWordHead_cons _ _ (by decide)), lex_space]
      simp only [Option.map_map]
      rfl
    cases col with
    | none =>
      simp only [Stmt.head, headToks, List.nil_append]
      rw [List.append_assoc, hfrom, himp]
      simp only [Option.map_map]
      rfl
    | some c =>
      simp only [Stmt.head, headToks]
      by_cases hlong : ("from".toList ++ spaces (k + 1) ++ fn ++ [' ']).length > c
      · rw [if_pos hlong]
        have e : ("from".toList ++ spaces (k + 1) ++ fn ++ [' '] ++ ['\\', '\n']) ++ (spaces c ++ importSp ++ rest)
            = "from".toList ++ spaces (k + 1) ++ fn ++ [' '] ++ ('\\' :: '\n' :: (spaces c ++ (importSp ++ rest))) := by
          simp [List.append_assoc]
        rw [e, hfrom, lex_bsnl, lex_spaces, himp]
        simp only [Option.map_map]
        rfl
      · rw [if_neg hlong]
        have e : ([] : Str) ++ ("from".toList ++ spaces (k + 1) ++ fn ++ [' '] ++
              spaces (c - ("from".toList ++ spaces (k + 1) ++ fn ++ [' ']).length) ++ importSp ++ rest)
            = "from".toList ++ spaces (k + 1) ++ fn ++ [' '] ++
              (spaces (c - ("from".toList ++ spaces (k + 1) ++ fn ++ [' ']).length) ++ (importSp ++ rest)) := by
          simp [List.append_assoc]
        rw [e, hfrom, lex_spaces, himp]
        simp only [Option.map_map]
        rfl

def bodyToks (st : Stmt) : List Tok := tjoin (st.aliases.map aliasToks)

/-- tokens of one statement (without the final NEWLINE) -/
def stmtToks (st : Stmt) (paren : Bool) : List Tok :=
  headToks st.fromname ++ [Tok.word kwImport] ++
    (if paren then [Tok.lparen] ++ bodyToks st ++ [Tok.rparen] else bodyToks st)

/-- the names of a statement are lexable words (or a star) -/
def StmtTxtOK (st : Stmt) : Prop :=
  st.aliases ≠ [] ∧ (∀ m, st.fromname = some m → WordStr m) ∧ ∀ a ∈ st.aliases, TxtOK a

theorem map_tkOf_aliases (as : List Alias) (h : ∀ a ∈ as, TxtOK a) :
    (as.map aliasTok).map tkOf = as.map aliasToks := by
  rw [List.map_map]
  apply List.map_congr_left
  intro a ha
  exact tkOf_eq (lexAs_alias a (h a ha))

/-- lexing a statement printed through `pyfill` (the unchanged tree, or a `from` import with names) -/
theorem lex_stmt (st : Stmt) (p : Params) (col : Option Nat) (fs : Nat) (text : Str)
    (hok : StmtTxtOK st) (hbr : ¬ (p.d2fix = true ∧ neverParen st = true))
    (h : st.pretty p col fs = .ok text) (b : Bool) (rest : Str) :
    lex 0 b (text ++ rest) =
      (lex 0 true rest).map (stmtToks st (parenthesised st p col fs) ++ [Tok.newline] ++ ·) := by
  obtain ⟨hne, hfrom, hal⟩ := hok
  unfold Stmt.pretty at h
  by_cases hfs : fs < 1
  · rw [if_pos hfs] at h; cases h
  rw [if_neg hfs, if_neg hne] at h
  have hbr' : (p.d2fix && neverParen st) = false := by
    cases hd : p.d2fix <;> cases hn : neverParen st <;> simp_all
  simp only [hbr'] at h
  have hne' : st.aliases.map aliasTok ≠ [] := by simpa using hne
  have hlex : ∀ t ∈ st.aliases.map aliasTok, ∃ k, LexAs t k := by
    intro t ht
    obtain ⟨a, ha, rfl⟩ := List.mem_map.mp ht
    exact ⟨_, lexAs_alias a (hal a ha)⟩
  cases hpf : pyfill ((Stmt.head st.fromname col fs).2 ++ importSp) (st.aliases.map aliasTok) p with
  | error e => rw [hpf] at h; cases h
  | ok out =>
    rw [hpf] at h
    simp only [Functor.map, Except.map] at h
    injection h with h
    obtain ⟨body, e, hb⟩ := lex_pyfill _ _ p out hne' hlex hpf
    have e2 : text ++ rest = (Stmt.head st.fromname col fs).1 ++ ((Stmt.head st.fromname col fs).2 ++ importSp ++ (body ++ rest)) := by
      rw [← h, e]; simp [List.append_assoc]
    rw [e2, lex_head st.fromname col fs (by omega) hfrom b, hb rest]
    simp only [Option.map_map, stmtToks, parenthesised, bodyToks, map_tkOf_aliases _ hal]
    congr 1
    funext x
    by_cases hf : fitsOneLine ((Stmt.head st.fromname col fs).2 ++ importSp) (List.map aliasTok st.aliases) p = true <;>
      simp [hf]

/-! ## the repaired tree: plain imports and stars are never parenthesised -/

/-- the repaired `pretty_print` writes one statement per alias -/
def splitPlain (st : Stmt) (p : Params) (col : Option Nat) (fs : Nat) : Bool :=
  p.d2fix && neverParen st &&
    (((Stmt.head st.fromname col fs).2 ++ importSp ++ sjoin ", ".toList (st.aliases.map aliasTok)).length > p.N
      && (st.aliases.map aliasTok).length > 1)

/-- the statements a printed statement reads back as -/
def emitted (st : Stmt) (p : Params) (col : Option Nat) (fs : Nat) : List Stmt :=
  if splitPlain st p col fs then st.aliases.map (fun a => ⟨st.fromname, [a]⟩) else [st]

/-- are the names of the printed statement inside parentheses? -/
def parenOf (st : Stmt) (p : Params) (col : Option Nat) (fs : Nat) : Bool :=
  !(p.d2fix && neverParen st) && parenthesised st p col fs

theorem lex_plain_one (a : Alias) (h : TxtOK a) (b : Bool) (rest : Str) :
    lex 0 b (importSp ++ aliasTok a ++ ['\n'] ++ rest) =
      (lex 0 true rest).map (([Tok.word kwImport] ++ aliasToks a ++ [Tok.newline]) ++ ·) := by
  have e : importSp ++ aliasTok a ++ ['\n'] ++ rest = kwImport ++ (' ' :: (aliasTok a ++ ('\n' :: rest))) := by
    simp [importSp, kwImport, List.append_assoc]
  rw [e, lex_word kwImport kwImport_word 0 b _ (noWordHead_cons _ _ (by decide)), lex_space,
    lexAs_alias a h 0 false _ (noWordHead_cons _ _ (by decide)), lex_nl_top]
  simp only [Option.map_map]
  congr 1
  funext x
  simp

theorem lex_plain_each_bol (as : List Alias) (h : ∀ a ∈ as, TxtOK a) (rest : Str) :
    lex 0 true ((as.map fun a => importSp ++ aliasTok a ++ ['\n']).flatten ++ rest) =
      (lex 0 true rest).map
        ((as.map fun a => [Tok.word kwImport] ++ aliasToks a ++ [Tok.newline]).flatten ++ ·) := by
  induction as with
  | nil => simp
  | cons a as ih =>
    rw [List.map_cons, List.flatten_cons, List.append_assoc, lex_plain_one a (h a (by simp)),
      ih (fun x hx => h x (List.mem_cons_of_mem _ hx))]
    simp only [Option.map_map]
    congr 1
    funext x
    simp

theorem lex_plain_each (as : List Alias) (hne : as ≠ []) (h : ∀ a ∈ as, TxtOK a) (b : Bool) (rest : Str) :
    lex 0 b ((as.map fun a => importSp ++ aliasTok a ++ ['\n']).flatten ++ rest) =
      (lex 0 true rest).map
        ((as.map fun a => [Tok.word kwImport] ++ aliasToks a ++ [Tok.newline]).flatten ++ ·) := by
  cases as with
  | nil => exact absurd rfl hne
  | cons a as =>
    rw [List.map_cons, List.flatten_cons, List.append_assoc, lex_plain_one a (h a (by simp)),
      lex_plain_each_bol as (fun x hx => h x (List.mem_cons_of_mem _ hx))]
    simp only [Option.map_map]
    congr 1
    funext x
    simp

/-- lexing one printed statement, both trees -/
theorem lex_stmt_all (st : Stmt) (p : Params) (col : Option Nat) (fs : Nat) (text : Str)
    (hok : StmtTxtOK st) (h : st.pretty p col fs = .ok text) (b : Bool) (rest : Str) :
    lex 0 b (text ++ rest) =
      (lex 0 true rest).map
        (((emitted st p col fs).map fun s => stmtToks s (parenOf st p col fs) ++ [Tok.newline]).flatten ++ ·) := by
  by_cases hbr : p.d2fix = true ∧ neverParen st = true
  · obtain ⟨hd, hn⟩ := hbr
    obtain ⟨hne, hfrom, hal⟩ := hok
    have hpar : parenOf st p col fs = false := by simp [parenOf, hd, hn]
    unfold Stmt.pretty at h
    by_cases hfs : fs < 1
    · rw [if_pos hfs] at h; cases h
    rw [if_neg hfs, if_neg hne] at h
    simp only [hd, hn, Bool.and_self, if_true] at h
    injection h with h
    have hne' : st.aliases.map aliasTok ≠ [] := by simpa using hne
    have hlex : ∀ t ∈ st.aliases.map aliasTok, ∃ k, LexAs t k := by
      intro t ht
      obtain ⟨a, ha, rfl⟩ := List.mem_map.mp ht
      exact ⟨_, lexAs_alias a (hal a ha)⟩
    by_cases hsp : (((Stmt.head st.fromname col fs).2 ++ importSp ++ sjoin ", ".toList (st.aliases.map aliasTok)).length > p.N
        && (st.aliases.map aliasTok).length > 1) = true
    · -- one statement per alias; only a plain import can get here
      have hemit : emitted st p col fs = st.aliases.map (fun a => ⟨st.fromname, [a]⟩) := by
        simp only [emitted, splitPlain, hd, hn, hsp, Bool.and_self, if_true]
      have hlen : (st.aliases.map aliasTok).length > 1 := by
        simp only [Bool.and_eq_true, decide_eq_true_eq] at hsp; exact hsp.2
      have hnone : st.fromname = none := by
        simp only [neverParen, Bool.or_eq_true, Option.isNone_iff_eq_none, decide_eq_true_eq] at hn
        rcases hn with hn | hn
        · exact hn
        · rw [hn] at hlen; simp at hlen
      rw [← h, hemit, hpar]
      simp only [hnone, Stmt.head, List.nil_append] at hsp
      simp only [plainText, hnone, Stmt.head, List.nil_append, List.map_map]
      rw [if_pos hsp]
      rw [show (List.map ((fun t => importSp ++ t ++ ['\n']) ∘ aliasTok) st.aliases)
            = st.aliases.map (fun a => importSp ++ aliasTok a ++ ['\n']) from rfl,
        lex_plain_each st.aliases hne hal b rest]
      congr 1
    · have hemit : emitted st p col fs = [st] := by
        simp only [emitted, splitPlain, hd, hn, hsp, Bool.and_self, Bool.and_false]
        simp
      rw [← h, hemit, hpar]
      simp only [plainText, hsp]
      have e : (Stmt.head st.fromname col fs).1 ++
            (if false = true then (List.map (fun t => (Stmt.head st.fromname col fs).2 ++ importSp ++ t ++ ['\n']) (List.map aliasTok st.aliases)).flatten
              else (Stmt.head st.fromname col fs).2 ++ importSp ++ sjoin ", ".toList (List.map aliasTok st.aliases) ++ ['\n']) ++ rest
          = (Stmt.head st.fromname col fs).1 ++ ((Stmt.head st.fromname col fs).2 ++ importSp ++
              (sjoin ", ".toList (st.aliases.map aliasTok) ++ ('\n' :: rest))) := by
        simp [List.append_assoc]
      rw [e, lex_head st.fromname col fs (by omega) hfrom b,
        lex_sjoin _ hne' hlex 0 false _ (noWordHead_cons _ _ (by decide)), lex_nl_top]
      simp only [Option.map_map, map_tkOf_aliases _ hal]
      congr 1
      funext x
      simp [stmtToks, bodyToks]
  · have hbr' : (p.d2fix && neverParen st) = false := by
      cases hd : p.d2fix <;> cases hn : neverParen st <;> simp_all
    have hemit : emitted st p col fs = [st] := by simp [emitted, splitPlain, hbr']
    have hpar : parenOf st p col fs = parenthesised st p col fs := by simp [parenOf, hbr']
    rw [hemit, hpar, lex_stmt st p col fs text hok hbr h b rest]
    congr 1
    funext x
    simp

/-! ## the parser on token lists -/

theorem splitTok_ne_nil (sep : Tok) (l : List Tok) : splitTok sep l ≠ [] := by
  induction l with
  | nil => simp [splitTok]
  | cons t ts ih =>
    unfold splitTok
    split
    · simp
    · split <;> simp

theorem splitTok_not_mem (sep : Tok) (l : List Tok) (h : sep ∉ l) : splitTok sep l = [l] := by
  induction l with
  | nil => rfl
  | cons t ts ih =>
    have ht : t ≠ sep := fun e => h (by simp [e])
    have := ih (fun hm => h (List.mem_cons_of_mem _ hm))
    unfold splitTok
    rw [if_neg ht, this]

theorem splitTok_append_sep (sep : Tok) (l r : List Tok) (h : sep ∉ l) :
    splitTok sep (l ++ sep :: r) = l :: splitTok sep r := by
  induction l with
  | nil => simp [splitTok]
  | cons t ts ih =>
    have ht : t ≠ sep := fun e => h (by simp [e])
    have := ih (fun hm => h (List.mem_cons_of_mem _ hm))
    rw [List.cons_append, splitTok, if_neg ht, this]

theorem splitTok_lines (sep : Tok) (Ls : List (List Tok)) (h : ∀ l ∈ Ls, sep ∉ l) :
    splitTok sep ((Ls.map (· ++ [sep])).flatten) = Ls ++ [[]] := by
  induction Ls with
  | nil => rfl
  | cons l ls ih =>
    have := ih (fun x hx => h x (List.mem_cons_of_mem _ hx))
    simp only [List.map_cons, List.flatten_cons, List.append_assoc, List.cons_append, List.nil_append]
    rw [splitTok_append_sep sep l _ (h l (by simp)), this]

theorem splitTok_tjoin (groups : List (List Tok)) (hne : groups ≠ []) (h : ∀ g ∈ groups, Tok.comma ∉ g) :
    splitTok .comma (tjoin groups) = groups := by
  induction groups with
  | nil => exact absurd rfl hne
  | cons g gs ih =>
    cases gs with
    | nil => simp only [tjoin]; exact splitTok_not_mem _ _ (h g (by simp))
    | cons g' gs' =>
      simp only [tjoin]
      rw [splitTok_append_sep _ _ _ (h g (by simp)), ih (by simp) (fun x hx => h x (List.mem_cons_of_mem _ hx))]

theorem isIdent_word (w : Str) (h : isIdent w = true) : WordStr w := by
  simp only [isIdent, Bool.and_eq_true, decide_eq_true_eq, List.all_eq_true] at h
  obtain ⟨⟨⟨h1, h2⟩, _⟩, _⟩ := h
  exact ⟨h1, fun c hc => (h2 c hc).1⟩

theorem splitDot_chars (w : Str) (h : ∀ p ∈ splitDot w, ∀ c ∈ p, isWordChar c = true) :
    ∀ c ∈ w, isWordChar c = true := by
  induction w with
  | nil => intro c hc; cases hc
  | cons a as ih =>
    unfold splitDot at h
    by_cases ha : a = '.'
    · rw [if_pos ha] at h
      intro c hc
      simp at hc
      rcases hc with rfl | hc
      · rw [ha]; decide
      · exact ih (fun p hp => h p (List.mem_cons_of_mem _ hp)) c hc
    · rw [if_neg ha] at h
      cases hs : splitDot as with
      | nil =>
        rw [hs] at h
        have := h [a] (by simp)
        intro c hc
        simp at hc
        rcases hc with rfl | hc
        · exact this c (by simp)
        · exact ih (by rw [hs]; intro p hp; cases hp) c hc
      | cons l ls =>
        rw [hs] at h
        simp only at h
        intro c hc
        simp at hc
        rcases hc with rfl | hc
        · exact h (c :: l) (by simp) c (by simp)
        · apply ih _ c hc
          rw [hs]
          intro p hp c' hc'
          simp at hp
          rcases hp with rfl | hp
          · exact h (a :: p) (by simp) c' (List.mem_cons_of_mem _ hc')
          · exact h p (by simp [hp]) c' hc'

theorem isDotted_word (w : Str) (h : isDotted w = true) : WordStr w := by
  simp only [isDotted, List.all_eq_true] at h
  refine ⟨?_, splitDot_chars w (fun p hp => (isIdent_word p (h p hp)).2)⟩
  rintro rfl
  have := h [] (by simp [splitDot])
  revert this; decide

theorem dropWhile_nil_all {α} (p : α → Bool) (l : List α) (h : l.dropWhile p = []) : ∀ x ∈ l, p x = true := by
  induction l with
  | nil => intro x hx; cases hx
  | cons a as ih =>
    simp only [List.dropWhile] at h
    split at h
    · rename_i hp
      intro x hx
      simp at hx
      rcases hx with rfl | hx
      · exact hp
      · exact ih h x hx
    · cases h

theorem takeWhile_all {α} (p : α → Bool) (l : List α) : ∀ x ∈ l.takeWhile p, p x = true := by
  induction l with
  | nil => intro x hx; cases hx
  | cons a as ih =>
    simp only [List.takeWhile]
    split
    · rename_i hp
      intro x hx
      simp at hx
      rcases hx with rfl | hx
      · exact hp
      · exact ih x hx
    · intro x hx; cases hx

theorem isFromMod_word (w : Str) (h : isFromMod w = true) : WordStr w := by
  unfold isFromMod at h
  by_cases hr : w.dropWhile (· = '.') = []
  · simp only [hr, if_true, decide_eq_true_eq] at h
    refine ⟨h, ?_⟩
    intro c hc
    have := dropWhile_nil_all _ w hr c hc
    simp at this
    rw [this]; decide
  · simp only [hr, if_false] at h
    have hw := isDotted_word _ h
    refine ⟨by rintro rfl; simp at hr, ?_⟩
    intro c hc
    rw [← List.takeWhile_append_dropWhile (p := (· = '.')) (l := w)] at hc
    simp only [List.mem_append] at hc
    rcases hc with hc | hc
    · have := takeWhile_all _ w c hc
      simp at this
      rw [this]; decide
    · exact hw.2 c hc

theorem validAlias_txtOK (d : Bool) (a : Alias) (h : validAlias d a = true) : TxtOK a := by
  obtain ⟨n, m⟩ := a
  simp only [validAlias, Bool.and_eq_true] at h
  obtain ⟨h1, h2⟩ := h
  refine ⟨Or.inr ?_, ?_⟩
  · cases d
    · exact isIdent_word _ (by simpa using h1)
    · exact isDotted_word _ (by simpa using h1)
  · intro k hk
    cases hk
    exact isIdent_word _ h2

theorem parseAlias_ok (d : Bool) (a : Alias) (h : validAlias d a = true) :
    parseAlias d (aliasToks a) = some a := by
  have ht := validAlias_txtOK d a h
  obtain ⟨n, m⟩ := a
  have hn : nameTok n = .word n := by
    rcases ht.1 with h1 | h1
    · simp only [validAlias, Bool.and_eq_true] at h
      exfalso
      simp only at h1
      subst h1
      cases d
      · have := h.1; revert this; decide
      · have := h.1; revert this; decide
    · exact nameTok_word n h1
  simp only [validAlias, Bool.and_eq_true] at h
  cases m with
  | none =>
    simp only [aliasToks, hn, parseAlias]
    rw [if_pos h.1]
  | some m =>
    simp only [aliasToks, hn, parseAlias]
    have h2 : isIdent m = true := h.2
    simp [h.1, h2]

theorem aliasToks_no_comma (a : Alias) : Tok.comma ∉ aliasToks a := by
  obtain ⟨n, m⟩ := a
  cases m <;> simp [aliasToks, nameTok] <;> split <;> simp

theorem aliasToks_ne_nil (a : Alias) : aliasToks a ≠ [] := by simp [aliasToks]

theorem parseAliases_ok (d trailing : Bool) (as : List Alias) (hne : as ≠ [])
    (h : ∀ a ∈ as, validAlias d a = true) :
    parseAliases d trailing (tjoin (as.map aliasToks)) = some as := by
  unfold parseAliases
  rw [splitTok_tjoin _ (by simpa using hne)
    (by intro g hg; obtain ⟨a, _, rfl⟩ := List.mem_map.mp hg; exact aliasToks_no_comma a)]
  have hlast : (as.map aliasToks).getLast? ≠ some [] := by
    intro e
    have hm := List.mem_of_getLast? e
    obtain ⟨a, _, ha⟩ := List.mem_map.mp hm
    exact aliasToks_ne_nil a ha
  have : (if (trailing && decide ((as.map aliasToks).length ≥ 2) && decide ((as.map aliasToks).getLast? = some [])) = true
      then (as.map aliasToks).dropLast else as.map aliasToks) = as.map aliasToks := by
    rw [if_neg]
    intro hc
    simp only [Bool.and_eq_true, decide_eq_true_eq] at hc
    exact hlast hc.2
  simp only [this]
  rw [List.mapM_map]
  clear this hlast hne
  induction as with
  | nil => rfl
  | cons a as ih =>
    rw [List.mapM_cons]
    simp only [Function.comp, parseAlias_ok d a (h a (by simp)), ih (fun x hx => h x (List.mem_cons_of_mem _ hx))]
    rfl

theorem bodyToks_head (a : Alias) (as : List Alias) (h : validAlias false a = true) :
    ∃ r, tjoin ((a :: as).map aliasToks) = Tok.word a.1 :: r := by
  have hn : nameTok a.1 = .word a.1 := by
    have ht := validAlias_txtOK false a h
    rcases ht.1 with h1 | h1
    · exfalso
      simp only [validAlias, Bool.and_eq_true] at h
      rw [h1] at h
      have := h.1; revert this; decide
    · exact nameTok_word _ h1
  cases as with
  | nil => exact ⟨_, by simp only [List.map, tjoin, aliasToks, hn]; rfl⟩
  | cons b bs => exact ⟨_, by simp only [List.map, tjoin, aliasToks, hn, List.cons_append]; rfl⟩

theorem parseLine_ok (st : Stmt) (paren : Bool) (hv : validStmt st = true)
    (hp : paren = true → st.fromname.isSome = true ∧ isStarStmt st = false) :
    parseLine (stmtToks st paren) = some st := by
  obtain ⟨fromname, aliases⟩ := st
  simp only [validStmt, Bool.and_eq_true, decide_eq_true_eq] at hv
  obtain ⟨hne, hv⟩ := hv
  cases fromname with
  | none =>
    have hpar : paren = false := by
      cases paren
      · rfl
      · have := (hp rfl).1; simp at this
    subst hpar
    simp only [List.all_eq_true] at hv
    simp only [stmtToks, headToks, bodyToks, List.nil_append, Bool.false_eq_true, if_false, List.cons_append, parseLine, if_true]
    rw [parseAliases_ok true false aliases hne hv]
    rfl
  | some m =>
    simp only [Bool.and_eq_true, Bool.or_eq_true, decide_eq_true_eq, List.all_eq_true] at hv
    obtain ⟨hm, hal⟩ := hv
    have hfi : (kwFrom = kwImport) = False := by simp; decide
    simp only [stmtToks, headToks, List.cons_append, List.nil_append, parseLine, hfi, if_false, if_true]
    simp only [hm, Bool.and_true, decide_true, if_true]
    by_cases hstar : aliases = [(star, none)]
    · have hpar : paren = false := by
        cases paren
        · rfl
        · have := (hp rfl).2; simp [isStarStmt, hstar] at this
      subst hpar hstar
      simp [bodyToks, tjoin, aliasToks, nameTok]
    · have hal' : ∀ a ∈ aliases, validAlias false a = true := by
        rcases hal with h | h
        · exact absurd h hstar
        · exact h
      obtain ⟨a, as, rfl⟩ : ∃ a as, aliases = a :: as := by
        cases aliases with
        | nil => exact absurd rfl hne
        | cons a as => exact ⟨a, as, rfl⟩
      cases paren
      · obtain ⟨r, hr⟩ := bodyToks_head a as (hal' a (by simp))
        have hpa := parseAliases_ok false false (a :: as) hne hal'
        simp only [bodyToks, Bool.false_eq_true, if_false]
        rw [hr] at hpa ⊢
        simp only [hpa]
        rfl
      · have hpa := parseAliases_ok false true (a :: as) hne hal'
        simp only [List.map_cons] at hpa
        simp [bodyToks, hpa]

/-! ## sets, sorting, grouping -/

theorem mem_dedup {α} [DecidableEq α] (a : α) (l : List α) : a ∈ dedup l ↔ a ∈ l := by
  induction l with
  | nil => simp [dedup]
  | cons b bs ih =>
    unfold dedup
    split
    · rename_i hb
      rw [ih]
      constructor
      · exact fun h => List.mem_cons_of_mem _ h
      · intro h
        simp at h
        rcases h with rfl | h
        · exact hb
        · exact h
    · simp [ih]

theorem nodup_dedup {α} [DecidableEq α] (l : List α) : (dedup l).Nodup := by
  induction l with
  | nil => simp [dedup]
  | cons b bs ih =>
    unfold dedup
    split
    · exact ih
    · rename_i hb
      rw [List.nodup_cons]
      exact ⟨fun h => hb ((mem_dedup b bs).mp h), ih⟩

theorem insertBy_perm {α} (le : α → α → Bool) (a : α) (l : List α) : (insertBy le a l).Perm (a :: l) := by
  induction l with
  | nil => simp [insertBy]
  | cons b bs ih =>
    unfold insertBy
    split
    · exact List.Perm.refl _
    · exact (List.Perm.cons b ih).trans (List.Perm.swap a b bs)

theorem isort_perm {α} (le : α → α → Bool) (l : List α) : (isort le l).Perm l := by
  induction l with
  | nil => exact List.Perm.refl _
  | cons a as ih =>
    simp only [isort]
    exact (insertBy_perm le a _).trans (List.Perm.cons a ih)

theorem filter_or_perm {α} (p q : α → Bool) (l : List α) (hd : ∀ x ∈ l, ¬ (p x = true ∧ q x = true)) :
    (l.filter p ++ l.filter q).Perm (l.filter fun x => p x || q x) := by
  induction l with
  | nil => simp
  | cons a as ih =>
    have ih' := ih (fun x hx => hd x (List.mem_cons_of_mem _ hx))
    have ha := hd a (by simp)
    cases hp : p a <;> cases hq : q a
    · simpa [List.filter_cons, hp, hq] using ih'
    · simp only [List.filter_cons, hp, hq, Bool.false_eq_true, if_false, if_true, Bool.or_true]
      exact List.perm_middle.trans (List.Perm.cons a ih')
    · simp only [List.filter_cons, hp, hq, Bool.false_eq_true, if_false, if_true, Bool.or_false, List.cons_append]
      exact List.Perm.cons a ih'
    · exact absurd ⟨hp, hq⟩ ha

/-- grouping a list by a key, over a duplicate-free list of keys, permutes the elements whose key is listed -/
theorem group_perm {α κ} [DecidableEq κ] (key : α → κ) (S : List α) (K : List κ) (hK : K.Nodup) :
    (K.flatMap fun k => S.filter fun i => key i = k).Perm (S.filter fun i => decide (key i ∈ K)) := by
  induction K with
  | nil => simp
  | cons k ks ih =>
    rw [List.nodup_cons] at hK
    have ih' := ih hK.2
    simp only [List.flatMap_cons]
    refine (List.Perm.append_left _ ih').trans ?_
    refine (filter_or_perm _ _ S ?_).trans ?_
    · intro x _ ⟨h1, h2⟩
      simp only [decide_eq_true_eq] at h1 h2
      rw [h1] at h2
      exact hK.1 h2
    · apply List.Perm.of_eq
      apply List.filter_congr
      intro x _
      simp [List.mem_cons]

theorem stmtOf_imports (imps : List Imp) (st : Stmt) (h : stmtOf imps = .ok st)
    (hrt : ∀ i ∈ imps, Imp.fromSplit i.split = i) : st.imports = imps := by
  cases imps with
  | nil => simp [stmtOf] at h
  | cons i is =>
    simp only [stmtOf] at h
    split at h
    · rename_i hall
      injection h with h
      subst h
      simp only [Stmt.imports, List.map_map]
      simp only [List.all_eq_true, decide_eq_true_eq] at hall
      conv => rhs; rw [← List.map_id (i :: is)]
      apply List.map_congr_left
      intro j hj
      simp only [Function.comp, id]
      rw [← hall j hj]
      exact hrt j hj
    · cases h

theorem groupStmts_imports (g : List Imp) (sts : List Stmt) (h : groupStmts g = .ok sts)
    (hrt : ∀ i ∈ g, Imp.fromSplit i.split = i) : (sts.flatMap Stmt.imports).Perm g := by
  unfold groupStmts at h
  simp only [bind, Except.bind, pure, Except.pure] at h
  split at h
  · cases h
  · have hpart : (g.filter (fun i => decide (i.importAs = star)) ++ g.filter (fun i => decide (i.importAs ≠ star))).Perm g := by
      have := List.filter_append_perm (fun i : Imp => decide (i.importAs = star)) g
      refine List.Perm.trans ?_ this
      apply List.Perm.of_eq
      congr 1
      apply List.filter_congr
      intro x _
      simp
    by_cases hs : g.filter (fun i => decide (i.importAs = star)) = []
    · by_cases hn : g.filter (fun i => decide (i.importAs ≠ star)) = []
      · simp only [hs, hn, if_true] at h
        injection h with h
        subst h
        rw [hs, hn] at hpart
        simpa using hpart
      · simp only [hs, hn, if_true, if_false] at h
        cases hso : stmtOf (isort impLe (g.filter (fun i => decide (i.importAs ≠ star)))) with
        | error e => rw [hso] at h; cases h
        | ok s =>
          rw [hso] at h
          injection h with h
          subst h
          have hp := isort_perm impLe (g.filter (fun i => decide (i.importAs ≠ star)))
          have := stmtOf_imports _ s hso (fun i hi => hrt i (List.mem_filter.mp (hp.mem_iff.mp hi)).1)
          simp only [List.nil_append, List.flatMap_cons, List.flatMap_nil, List.append_nil, this]
          rw [hs] at hpart
          exact hp.trans (by simpa using hpart)
    · cases hsa : stmtOf (g.filter (fun i => decide (i.importAs = star))) with
      | error e => simp only [hs, if_false, hsa] at h; cases h
      | ok sa =>
        have hia := stmtOf_imports _ sa hsa (fun i hi => hrt i (List.mem_filter.mp hi).1)
        by_cases hn : g.filter (fun i => decide (i.importAs ≠ star)) = []
        · simp only [hs, hn, if_true, if_false, hsa] at h
          injection h with h
          subst h
          simp only [List.append_nil, List.flatMap_cons, List.flatMap_nil, hia]
          rw [hn] at hpart
          simpa using hpart
        · simp only [hs, hn, if_false, hsa] at h
          cases hso : stmtOf (isort impLe (g.filter (fun i => decide (i.importAs ≠ star)))) with
          | error e => rw [hso] at h; cases h
          | ok s =>
            rw [hso] at h
            injection h with h
            subst h
            have hp := isort_perm impLe (g.filter (fun i => decide (i.importAs ≠ star)))
            have := stmtOf_imports _ s hso (fun i hi => hrt i (List.mem_filter.mp (hp.mem_iff.mp hi)).1)
            simp only [List.cons_append, List.nil_append, List.flatMap_cons, List.flatMap_nil, List.append_nil, this, hia]
            exact (List.Perm.append_left _ hp).trans hpart

/-! ## `Import.split` / `from_split` -/

theorem dropWhile_head_not {α} (p : α → Bool) (l : List α) (x : α) (xs : List α)
    (h : l.dropWhile p = x :: xs) : p x = false := by
  induction l with
  | nil => simp at h
  | cons a as ih =>
    simp only [List.dropWhile] at h
    split at h
    · exact ih h
    · rename_i hp
      injection h with h1 h2
      subst h1
      simpa using hp

theorem rsplitDot_some (q a b : Str) (h : rsplitDot q = some (a, b)) : q = a ++ '.' :: b ∧ '.' ∉ b := by
  unfold rsplitDot at h
  simp only at h
  split at h
  · cases h
  · rename_i x before hd
    injection h with h
    injection h with h1 h2
    have hx := dropWhile_head_not _ _ _ _ hd
    simp at hx
    have hr : q.reverse = q.reverse.takeWhile (· ≠ '.') ++ q.reverse.dropWhile (· ≠ '.') :=
      (List.takeWhile_append_dropWhile).symm
    rw [hd, hx] at hr
    constructor
    · have := congrArg List.reverse hr
      simp only [List.reverse_reverse, List.reverse_append, List.reverse_cons, List.append_assoc,
        List.singleton_append] at this
      rw [this, ← h1, ← h2]
    · rw [← h2]
      intro hm
      have := takeWhile_all _ _ _ (List.mem_reverse.mp hm)
      simp at this

theorem noDotDot_mid (a b : Str) : noDotDot (a ++ '.' :: '.' :: b) = false := by
  induction a with
  | nil => rfl
  | cons c cs ih =>
    cases cs with
    | nil =>
      by_cases hc : c = '.'
      · subst hc; rfl
      · simp only [List.cons_append, List.nil_append]
        unfold noDotDot
        split
        · rfl
        · rename_i h1 h2; simp_all
        · rename_i h; cases h
    | cons d ds =>
      simp only [List.cons_append] at ih ⊢
      by_cases hc : c = '.' ∧ d = '.'
      · obtain ⟨rfl, rfl⟩ := hc; rfl
      · unfold noDotDot
        split
        · rfl
        · rename_i h1 h2
          injection h2 with h2 h3
          subst h3
          exact ih
        · rename_i h; cases h

theorem endsWith_dot_iff (s : Str) : endsWith s ['.'] = true ↔ ∃ s', s = s' ++ ['.'] := by
  unfold endsWith
  rw [List.isSuffixOf_iff_suffix]
  constructor
  · rintro ⟨t, ht⟩; exact ⟨t, ht.symm⟩
  · rintro ⟨t, ht⟩; exact ⟨t, ht.symm⟩

theorem fromSplit_split (i : Imp) (h : wfName i.fullname = true) : Imp.fromSplit i.split = i := by
  obtain ⟨f, as⟩ := i
  simp only [wfName, Bool.and_eq_true, decide_eq_true_eq] at h
  obtain ⟨hq, hnd⟩ := h
  unfold Imp.split
  by_cases he : as = f
  · simp [he, Imp.fromSplit]
  · simp only [he, if_false]
    obtain ⟨tw, htw⟩ : ∃ tw, tw = f.takeWhile (· = '.') := ⟨_, rfl⟩
    obtain ⟨q, hqd⟩ : ∃ q, q = f.dropWhile (· = '.') := ⟨_, rfl⟩
    rw [← hqd] at hq hnd
    have hsplit : f = tw ++ q := by rw [htw, hqd]; exact (List.takeWhile_append_dropWhile).symm
    have htwdots : ∀ c ∈ tw, c = '.' := by
      intro c hc
      rw [htw] at hc
      simpa using takeWhile_all _ _ c hc
    have hlev : levelOf f = tw.length := by
      unfold levelOf
      simp only [← htw]
      rw [if_neg]
      intro hk
      have : f.length = tw.length + q.length := by rw [hsplit]; simp
      have : q.length = 0 := by omega
      exact hq (List.length_eq_zero_iff.mp this)
    have htake : f.take tw.length = tw := by rw [hsplit]; simp
    have hdrop : f.drop tw.length = q := by rw [hsplit]; simp
    rw [hlev, htake, hdrop]
    obtain ⟨c, q', hqc⟩ : ∃ c q', q = c :: q' := by
      cases q with
      | nil => exact absurd rfl hq
      | cons c q' => exact ⟨c, q', rfl⟩
    have hc : c ≠ '.' := by
      have := dropWhile_head_not (· = '.') f c q' (by rw [← hqd, hqc])
      simpa using this
    cases hr : rsplitDot q with
    | none =>
      simp only []
      by_cases hp : tw = []
      · have hfq : f = q := by rw [hsplit, hp]; rfl
        simp only [hp, List.append_nil, if_true, Imp.fromSplit]
        by_cases ha : as = q
        · exact absurd (ha.trans hfq.symm) he
        · simp [ha, hfq]
      · have hpn : tw ++ [] ≠ [] := by simpa using hp
        simp only [hpn, if_false, Imp.fromSplit]
        have hend : endsWith (tw ++ []) ['.'] = true := by
          rw [endsWith_dot_iff]
          obtain ⟨t', x, hx⟩ : ∃ t' x, tw = t' ++ [x] := by
            refine ⟨tw.dropLast, tw.getLast hp, (List.dropLast_concat_getLast hp).symm⟩
          have : x = '.' := htwdots x (by rw [hx]; simp)
          exact ⟨t', by rw [List.append_nil, hx, this]⟩
        simp only [hend, if_true]
        by_cases ha : as = q
        · simp [ha, hsplit]
        · simp [ha, hsplit]
    | some ab =>
      obtain ⟨a, b⟩ := ab
      obtain ⟨hqab, _⟩ := rsplitDot_some q a b hr
      have hane : a ≠ [] := by
        rintro rfl
        rw [hqc] at hqab
        simp at hqab
        exact hc hqab.1
      have hpn : tw ++ a ≠ [] := by simp [hane]
      simp only [hpn, if_false, Imp.fromSplit]
      have hend : endsWith (tw ++ a) ['.'] = false := by
        cases hE : endsWith (tw ++ a) ['.'] with
        | false => rfl
        | true =>
          exfalso
          obtain ⟨s', hs'⟩ := (endsWith_dot_iff _).mp hE
          obtain ⟨a', x, hx⟩ : ∃ a' x, a = a' ++ [x] :=
            ⟨a.dropLast, a.getLast hane, (List.dropLast_concat_getLast hane).symm⟩
          have hxd : x = '.' := by
            rw [hx, ← List.append_assoc] at hs'
            have := List.append_inj_right' hs' rfl
            simpa using this
          rw [hqab, hx, hxd] at hnd
          have := noDotDot_mid a' b
          simp only [List.append_assoc, List.singleton_append] at hnd
          rw [this] at hnd
          cases hnd
      simp only [hend, Bool.false_eq_true, if_false]
      have hf : tw ++ a ++ ['.'] ++ b = f := by rw [hsplit, hqab]; simp
      have hf' : tw ++ (a ++ '.' :: b) = f := by rw [← hf]; simp
      by_cases ha : as = b
      · simp [ha, hf']
      · simp [ha, hf']

/-! ## orders, sortedness, invariance under permutation -/

theorem strLt_irrefl (a : Str) : strLt a a = false := by
  induction a with
  | nil => rfl
  | cons c cs ih => simp [strLt, ih]

theorem strLt_trans (a b c : Str) (h1 : strLt a b = true) (h2 : strLt b c = true) : strLt a c = true := by
  induction a generalizing b c with
  | nil =>
    cases b with
    | nil => simp [strLt] at h1
    | cons y ys =>
      cases c with
      | nil => simp [strLt] at h2
      | cons z zs => rfl
  | cons x xs ih =>
    cases b with
    | nil => simp [strLt] at h1
    | cons y ys =>
      cases c with
      | nil => simp [strLt] at h2
      | cons z zs =>
        simp only [strLt, Bool.or_eq_true, decide_eq_true_eq, Bool.and_eq_true] at h1 h2 ⊢
        rcases h1 with h1 | ⟨rfl, h1⟩
        · rcases h2 with h2 | ⟨rfl, h2⟩
          · left; omega
          · left; exact h1
        · rcases h2 with h2 | ⟨rfl, h2⟩
          · left; exact h2
          · right; exact ⟨rfl, ih _ _ h1 h2⟩

theorem strLt_asymm (a b : Str) (h : strLt a b = true) : strLt b a = false := by
  cases h' : strLt b a with
  | false => rfl
  | true =>
    have := strLt_trans a b a h h'
    rw [strLt_irrefl] at this
    cases this

theorem strLt_connected (a b : Str) (h1 : strLt a b = false) (h2 : strLt b a = false) : a = b := by
  induction a generalizing b with
  | nil =>
    cases b with
    | nil => rfl
    | cons y ys => simp [strLt] at h1
  | cons x xs ih =>
    cases b with
    | nil => simp [strLt] at h2
    | cons y ys =>
      simp only [strLt, Bool.or_eq_false_iff, decide_eq_false_iff_not, Bool.and_eq_false_iff] at h1 h2
      have hxy : x = y := by
        apply Char.toNat_inj.mp
        omega
      subst hxy
      have h1' : strLt xs ys = false := by
        rcases h1.2 with h | h
        · exact absurd rfl h
        · exact h
      have h2' : strLt ys xs = false := by
        rcases h2.2 with h | h
        · exact absurd rfl h
        · exact h
      rw [ih ys h1' h2']

/-- a total preorder that is antisymmetric, as Bool-valued relation -/
structure LinOrd {α} (le : α → α → Bool) : Prop where
  total : ∀ a b, le a b = false → le b a = true
  trans : ∀ a b c, le a b = true → le b c = true → le a c = true
  antisymm : ∀ a b, le a b = true → le b a = true → a = b

theorem strLe_linOrd : LinOrd strLe := by
  refine ⟨?_, ?_, ?_⟩
  · intro a b h
    simp only [strLe, Bool.not_eq_false'] at h
    simp only [strLe, Bool.not_eq_true']
    exact strLt_asymm _ _ h
  · intro a b c h1 h2
    simp only [strLe, Bool.not_eq_true'] at h1 h2 ⊢
    cases h : strLt c a with
    | false => rfl
    | true =>
      exfalso
      -- c < a, ¬ b < a, ¬ c < b
      cases hab : strLt a b with
      | true =>
        have := strLt_trans c a b h hab
        rw [h2] at this; cases this
      | false =>
        have := strLt_connected a b hab h1
        subst this
        rw [h2] at h; cases h
  · intro a b h1 h2
    simp only [strLe, Bool.not_eq_true'] at h1 h2
    exact strLt_connected a b h2 h1

theorem impLe_linOrd : LinOrd impLe := by
  refine ⟨?_, ?_, ?_⟩
  · intro a b h
    simp only [impLe, Bool.or_eq_false_iff, Bool.and_eq_false_iff, decide_eq_false_iff_not] at h
    simp only [impLe, Bool.or_eq_true, Bool.and_eq_true, decide_eq_true_eq]
    obtain ⟨h1, h2⟩ := h
    by_cases hf : a.fullname = b.fullname
    · right
      refine ⟨hf.symm, ?_⟩
      rcases h2 with h2 | h2
      · exact absurd hf h2
      · exact strLe_linOrd.total _ _ h2
    · left
      cases h' : strLt b.fullname a.fullname with
      | true => rfl
      | false => exact absurd (strLt_connected _ _ h1 h') hf
  · intro a b c h1 h2
    simp only [impLe, Bool.or_eq_true, Bool.and_eq_true, decide_eq_true_eq] at h1 h2 ⊢
    rcases h1 with h1 | ⟨e1, h1⟩
    · rcases h2 with h2 | ⟨e2, h2⟩
      · left; exact strLt_trans _ _ _ h1 h2
      · left; rw [← e2]; exact h1
    · rcases h2 with h2 | ⟨e2, h2⟩
      · left; rw [e1]; exact h2
      · right; exact ⟨e1.trans e2, strLe_linOrd.trans _ _ _ h1 h2⟩
  · intro a b h1 h2
    simp only [impLe, Bool.or_eq_true, Bool.and_eq_true, decide_eq_true_eq] at h1 h2
    obtain ⟨af, aa⟩ := a
    obtain ⟨bf, ba⟩ := b
    simp only at h1 h2
    rcases h1 with h1 | ⟨e1, h1⟩
    · rcases h2 with h2 | ⟨e2, h2⟩
      · have := strLt_asymm _ _ h1; rw [h2] at this; cases this
      · rw [e2, strLt_irrefl] at h1; cases h1
    · rcases h2 with h2 | ⟨e2, h2⟩
      · rw [e1, strLt_irrefl] at h2; cases h2
      · rw [e1, strLe_linOrd.antisymm _ _ h1 h2]

theorem gkLe_linOrd : LinOrd gkLe := by
  refine ⟨?_, ?_, ?_⟩
  · intro a b h
    simp only [gkLe, Bool.or_eq_false_iff, Bool.and_eq_false_iff, decide_eq_false_iff_not] at h
    simp only [gkLe, Bool.or_eq_true, Bool.and_eq_true, decide_eq_true_eq]
    obtain ⟨h1, h2⟩ := h
    by_cases hg : a.grp = b.grp
    · right
      refine ⟨hg.symm, ?_⟩
      rcases h2 with h2 | ⟨h2, h3⟩
      · exact absurd hg h2
      · by_cases hk : a.key = b.key
        · right
          refine ⟨hk.symm, ?_⟩
          rcases h3 with h3 | h3
          · exact absurd hk h3
          · omega
        · left
          cases h' : strLt b.key a.key with
          | true => rfl
          | false => exact absurd (strLt_connected _ _ h2 h') hk
    · left; omega
  · intro a b c h1 h2
    simp only [gkLe, Bool.or_eq_true, Bool.and_eq_true, decide_eq_true_eq] at h1 h2 ⊢
    rcases h1 with h1 | ⟨e1, h1⟩
    · rcases h2 with h2 | ⟨e2, h2⟩
      · left; omega
      · left; omega
    · rcases h2 with h2 | ⟨e2, h2⟩
      · left; omega
      · right
        refine ⟨e1.trans e2, ?_⟩
        rcases h1 with h1 | ⟨k1, h1⟩
        · rcases h2 with h2 | ⟨k2, h2⟩
          · left; exact strLt_trans _ _ _ h1 h2
          · left; rw [← k2]; exact h1
        · rcases h2 with h2 | ⟨k2, h2⟩
          · left; rw [k1]; exact h2
          · right; exact ⟨k1.trans k2, by omega⟩
  · intro a b h1 h2
    simp only [gkLe, Bool.or_eq_true, Bool.and_eq_true, decide_eq_true_eq] at h1 h2
    obtain ⟨ag, ak, al⟩ := a
    obtain ⟨bg, bk, bl⟩ := b
    simp only at h1 h2
    have hg : ag = bg := by
      rcases h1 with h1 | ⟨e1, _⟩
      · rcases h2 with h2 | ⟨e2, _⟩
        · omega
        · omega
      · exact e1
    subst hg
    have h1' : strLt ak bk = true ∨ (ak = bk ∧ al ≤ bl) := by
      rcases h1 with h1 | ⟨_, h1⟩
      · omega
      · exact h1
    have h2' : strLt bk ak = true ∨ (bk = ak ∧ bl ≤ al) := by
      rcases h2 with h2 | ⟨_, h2⟩
      · omega
      · exact h2
    rcases h1' with h1' | ⟨e1, h1'⟩
    · rcases h2' with h2' | ⟨e2, _⟩
      · have := strLt_asymm _ _ h1'; rw [h2'] at this; cases this
      · rw [e2, strLt_irrefl] at h1'; cases h1'
    · rcases h2' with h2' | ⟨_, h2'⟩
      · rw [e1, strLt_irrefl] at h2'; cases h2'
      · subst e1
        have : al = bl := by omega
        rw [this]

theorem mem_insertBy {α} (le : α → α → Bool) (a x : α) (l : List α) : x ∈ insertBy le a l ↔ x = a ∨ x ∈ l :=
  by rw [(insertBy_perm le a l).mem_iff]; simp

theorem insertBy_pairwise {α} (le : α → α → Bool) (ho : LinOrd le) (a : α) (l : List α)
    (h : l.Pairwise (fun x y => le x y = true)) : (insertBy le a l).Pairwise (fun x y => le x y = true) := by
  induction l with
  | nil => simp [insertBy]
  | cons b bs ih =>
    rw [List.pairwise_cons] at h
    unfold insertBy
    cases hab : le a b with
    | true =>
      simp only [if_true]
      rw [List.pairwise_cons]
      refine ⟨?_, List.pairwise_cons.mpr h⟩
      intro x hx
      simp at hx
      rcases hx with rfl | hx
      · exact hab
      · exact ho.trans _ _ _ hab (h.1 x hx)
    | false =>
      simp only [Bool.false_eq_true, if_false]
      rw [List.pairwise_cons]
      refine ⟨?_, ih h.2⟩
      intro x hx
      rcases (mem_insertBy le a x bs).mp hx with rfl | hx
      · exact ho.total _ _ hab
      · exact h.1 x hx

theorem isort_pairwise {α} (le : α → α → Bool) (ho : LinOrd le) (l : List α) :
    (isort le l).Pairwise (fun x y => le x y = true) := by
  induction l with
  | nil => simp [isort]
  | cons a as ih => exact insertBy_pairwise le ho a _ ih

theorem isort_eq_of_perm {α} (le : α → α → Bool) (ho : LinOrd le) (l₁ l₂ : List α) (h : l₁.Perm l₂) :
    isort le l₁ = isort le l₂ :=
  List.Perm.eq_of_pairwise (le := fun x y => le x y = true)
    (fun a b _ _ h1 h2 => ho.antisymm a b h1 h2)
    (isort_pairwise le ho l₁) (isort_pairwise le ho l₂)
    ((isort_perm le l₁).trans (h.trans (isort_perm le l₂).symm))

theorem dedup_perm {α} [DecidableEq α] (l₁ l₂ : List α) (h : ∀ x, x ∈ l₁ ↔ x ∈ l₂) :
    (dedup l₁).Perm (dedup l₂) :=
  (List.perm_ext_iff_of_nodup (nodup_dedup l₁) (nodup_dedup l₂)).mpr
    (fun x => by rw [mem_dedup, mem_dedup]; exact h x)

theorem dedup_of_nodup {α} [DecidableEq α] (l : List α) (h : l.Nodup) : dedup l = l := by
  induction l with
  | nil => rfl
  | cons a as ih =>
    rw [List.nodup_cons] at h
    unfold dedup
    rw [if_neg h.1, ih h.2]

theorem perm_short_eq {α} (l₁ l₂ : List α) (h : l₁.Perm l₂) (hl : l₁.length ≤ 1) : l₁ = l₂ := by
  have hlen := h.length_eq
  match l₁, l₂ with
  | [], [] => rfl
  | [a], [b] =>
    have := h.mem_iff (a := a)
    simp at this
    rw [this]
  | [], _ :: _ => simp at hlen
  | [_], [] => simp at hlen
  | [_], _ :: _ :: _ => simp at hlen
  | _ :: _ :: _, _ => simp at hl

theorem groupStmts_perm (g₁ g₂ : List Imp) (h : g₁.Perm g₂) : groupStmts g₁ = groupStmts g₂ := by
  unfold groupStmts
  have hs := h.filter (fun i => decide (i.importAs = star))
  have hn := h.filter (fun i => decide (i.importAs ≠ star))
  have hnon : isort impLe (g₁.filter (fun i => decide (i.importAs ≠ star)))
      = isort impLe (g₂.filter (fun i => decide (i.importAs ≠ star))) := isort_eq_of_perm _ impLe_linOrd _ _ hn
  have hne : (g₁.filter (fun i => decide (i.importAs ≠ star)) = []) ↔ (g₂.filter (fun i => decide (i.importAs ≠ star)) = []) := by
    constructor
    · intro e; rw [e] at hn; exact List.perm_nil.mp hn.symm |> fun x => x
    · intro e; rw [e] at hn; exact List.perm_nil.mp hn
  dsimp only
  by_cases hl : (g₁.filter (fun i => decide (i.importAs = star))).length > 1
  · have hl2 : (g₂.filter (fun i => decide (i.importAs = star))).length > 1 := by rw [← hs.length_eq]; exact hl
    simp only [hl, hl2, if_true]
    rfl
  · have hse := perm_short_eq _ _ hs (by omega)
    rw [← hse, hnon]
    simp only [hne]

theorem mapM_congr' {ε α β} (f g : α → Except ε β) (l : List α) (h : ∀ x ∈ l, f x = g x) :
    l.mapM f = l.mapM g := by
  induction l with
  | nil => rfl
  | cons a as ih =>
    rw [List.mapM_cons, List.mapM_cons, h a (by simp), ih (fun x hx => h x (List.mem_cons_of_mem _ hx))]

theorem getStatements_perm (S₁ S₂ : List Imp) (sep : Bool) (h : S₁.Perm S₂) :
    getStatements S₁ sep = getStatements S₂ sep := by
  unfold getStatements
  have hk : isort gkLe (dedup (S₁.map (gkeyOf sep))) = isort gkLe (dedup (S₂.map (gkeyOf sep))) :=
    isort_eq_of_perm _ gkLe_linOrd _ _ (dedup_perm _ _ (fun x => (h.map _).mem_iff))
  simp only [hk]
  congr 1
  apply mapM_congr'
  intro k _
  exact groupStmts_perm _ _ (h.filter _)

theorem any_perm {α} (p : α → Bool) (l₁ l₂ : List α) (h : l₁.Perm l₂) : l₁.any p = l₂.any p := by
  rw [Bool.eq_iff_iff]
  simp only [List.any_eq_true]
  constructor
  · rintro ⟨x, hx, hp⟩; exact ⟨x, h.mem_iff.mp hx, hp⟩
  · rintro ⟨x, hx, hp⟩; exact ⟨x, h.mem_iff.mpr hx, hp⟩

theorem conflicting_perm (S₁ S₂ : List Imp) (h : S₁.Perm S₂) : conflicting S₁ = conflicting S₂ := by
  unfold conflicting
  rw [any_perm _ _ _ h]
  congr 1
  funext i
  rw [any_perm _ _ _ h]

/-- `pretty` depends only on the set of imports -/
theorem pretty_perm (l₁ l₂ : List Imp) (p : Params) (h : (dedup l₁).Perm (dedup l₂)) :
    pretty l₁ p = pretty l₂ p := by
  unfold pretty
  simp only [conflicting_perm _ _ h, getStatements_perm _ _ p.sepFrom h]

/-! ## helpers of the property theorems (line lists, block lexing, read-back) -/

/-- text and number of tokens of every line, final line last -/
def lineTexts (c : FillCfg) : List Line → List (Str × Nat)
  | [] => []
  | [l] => [(l.text c true, l.toks.length)]
  | l :: l' :: ls => (l.text c false, l.toks.length) :: lineTexts c (l' :: ls)

theorem renderLines_eq (c : FillCfg) (L : List Line) :
    renderLines c L = ((lineTexts c L).map fun x => x.1 ++ c.nl).flatten := by
  induction L with
  | nil => rfl
  | cons l ls ih =>
    cases ls with
    | nil => simp [renderLines, lineTexts, Line.renderT, Line.text, List.append_assoc]
    | cons l' ls' =>
      simp only [renderLines, lineTexts, List.map_cons, List.flatten_cons]
      rw [ih]
      simp [Line.renderN, Line.text, List.append_assoc, lineTexts]

theorem lineTexts_width (c : FillCfg) (N : Nat) (L : List Line) (h : WidthOK c N L) :
    ∀ x ∈ lineTexts c L, x.1.length > N → x.2 ≤ 1 := by
  induction L with
  | nil => intro x hx; cases hx
  | cons l ls ih =>
    cases ls with
    | nil =>
      intro x hx hlen
      simp [lineTexts] at hx
      subst hx
      simp only [WidthOK] at h
      rcases h with h | h
      · exact h
      · simp only at hlen; omega
    | cons l' ls' =>
      intro x hx hlen
      simp only [lineTexts, List.mem_cons] at hx
      simp only [WidthOK] at h
      rcases hx with rfl | hx
      · rcases h.1 with h1 | h1
        · exact h1
        · simp only at hlen; omega
      · exact ih h.2 x (by simpa [lineTexts] using hx) hlen

/-- the physical lines `pyfill` writes after nothing: (text without newline, number of tokens on it) -/
def pyfillLines (pfx : Str) (tokens : List Str) (p : Params) : List (Str × Nat) :=
  match tokens with
  | [] => []
  | t :: ts =>
    if fitsOneLine pfx tokens p then [(pfx ++ sjoin ", ".toList tokens, tokens.length)]
    else if useHanging pfx tokens p then
      (pfx ++ ['('], 0) :: lineTexts (hangCfg p) (fillLines (hangCfg p) p.N ⟨(hangCfg p).pre1, [t]⟩ ts)
    else lineTexts (parenCfg pfx) (fillLines (parenCfg pfx) p.N ⟨(parenCfg pfx).pre1, [t]⟩ ts)

theorem slen_sjoin (tokens : List Str) :
    (sjoin [',', ' '] tokens).length = slen tokens + 2 * (tokens.length - 1) := by
  induction tokens with
  | nil => rfl
  | cons t ts ih =>
    cases ts with
    | nil => simp [sjoin, slen]
    | cons t' ts' =>
      simp only [sjoin, List.length_append, ih, slen, List.map_cons, List.sum_cons, List.length_cons]
      simp
      omega

theorem bind_eq_ok {ε α β} (x : Except ε α) (f : α → Except ε β) (b : β) :
    (x >>= f) = .ok b ↔ ∃ a, x = .ok a ∧ f a = .ok b := by
  cases x with
  | error e => simp [bind, Except.bind]
  | ok a => simp [bind, Except.bind]

inductive Forall2 {α β} (R : α → β → Prop) : List α → List β → Prop
  | nil : Forall2 R [] []
  | cons {a b as bs} : R a b → Forall2 R as bs → Forall2 R (a :: as) (b :: bs)

theorem mapM_ok_forall₂ {ε α β} (f : α → Except ε β) (l : List α) (ts : List β)
    (h : l.mapM f = .ok ts) : Forall2 (fun a t => f a = .ok t) l ts := by
  induction l generalizing ts with
  | nil =>
    simp [List.mapM_nil, pure, Except.pure] at h
    subst h; exact .nil
  | cons a as ih =>
    rw [List.mapM_cons] at h
    obtain ⟨b, hb, h⟩ := (bind_eq_ok _ _ _).mp h
    obtain ⟨bs, hbs, h⟩ := (bind_eq_ok _ _ _).mp h
    simp [pure, Except.pure] at h
    subst h
    exact .cons hb (ih bs hbs)

/-- column and `from` spacing a statement is printed with (`pp` of `ImportSet.pretty_print`) -/
def stArgs (p : Params) (col : Option Nat) (st : Stmt) : Option Nat × Nat :=
  if doAlign p st then (col, max 1 p.fromSpaces) else (none, 1)

/-- the statements a printed statement reads back as (itself, except that the repaired tree writes an
    overlong plain `import a, a as b` as one statement per alias) -/
def readBack (p : Params) (col : Option Nat) (st : Stmt) : List Stmt :=
  emitted st p (stArgs p col st).1 (stArgs p col st).2

theorem lex_nil_bol : lex 0 true [] = some [] := by
  conv => lhs; rw [lex.eq_def]
  simp

theorem lex_block (stmts : List Stmt) (p : Params) (col : Option Nat) (texts : List Str)
    (hok : ∀ st ∈ stmts, StmtTxtOK st)
    (h : Forall2 (fun st t => st.pretty p (stArgs p col st).1 (stArgs p col st).2 = .ok t) stmts texts) :
    lex 0 true texts.flatten = some ((stmts.map fun st =>
      ((readBack p col st).map fun s =>
        stmtToks s (parenOf st p (stArgs p col st).1 (stArgs p col st).2) ++ [Tok.newline]).flatten).flatten) := by
  induction h with
  | nil => exact lex_nil_bol
  | @cons st t sts ts hst _ ih =>
    rw [List.flatten_cons, lex_stmt_all st p _ _ t (hok st (by simp)) hst true,
      ih (fun x hx => hok x (List.mem_cons_of_mem _ hx))]
    simp [readBack]

theorem validStmt_txtOK (st : Stmt) (h : validStmt st = true) : StmtTxtOK st := by
  obtain ⟨fromname, aliases⟩ := st
  simp only [validStmt, Bool.and_eq_true, decide_eq_true_eq] at h
  obtain ⟨hne, h⟩ := h
  refine ⟨hne, ?_, ?_⟩
  · intro m hm
    simp only at hm
    subst hm
    simp only [Bool.and_eq_true] at h
    exact isFromMod_word m h.1
  · intro a ha
    cases fromname with
    | none =>
      simp only [List.all_eq_true] at h
      exact validAlias_txtOK true a (h a ha)
    | some m =>
      simp only [Bool.and_eq_true, Bool.or_eq_true, decide_eq_true_eq, List.all_eq_true] at h
      rcases h.2 with h2 | h2
      · simp only at ha
        rw [h2] at ha
        simp at ha
        subst ha
        exact ⟨Or.inl rfl, by intro n hn; cases hn⟩
      · exact validAlias_txtOK false a (h2 a ha)

theorem nameTok_ne_newline (n : Str) : nameTok n ≠ .newline := by
  unfold nameTok; split <;> simp

theorem aliasToks_no_newline (a : Alias) : Tok.newline ∉ aliasToks a := by
  obtain ⟨n, m⟩ := a
  have := nameTok_ne_newline n
  cases m <;> simp [aliasToks, Ne.symm this]

theorem tjoin_no_newline (gs : List (List Tok)) (h : ∀ g ∈ gs, Tok.newline ∉ g) : Tok.newline ∉ tjoin gs := by
  induction gs with
  | nil => simp [tjoin]
  | cons g gs ih =>
    cases gs with
    | nil => simpa [tjoin] using h g (by simp)
    | cons g' gs' =>
      simp only [tjoin, List.mem_append, List.mem_cons, not_or]
      exact ⟨h g (by simp), by simp, ih (fun x hx => h x (List.mem_cons_of_mem _ hx))⟩

theorem stmtToks_no_newline (st : Stmt) (paren : Bool) : Tok.newline ∉ stmtToks st paren := by
  have hb : Tok.newline ∉ bodyToks st :=
    tjoin_no_newline _ (by intro g hg; obtain ⟨a, _, rfl⟩ := List.mem_map.mp hg; exact aliasToks_no_newline a)
  have hh : Tok.newline ∉ headToks st.fromname := by
    cases hf : st.fromname <;> simp [headToks]
  cases paren <;> simp [stmtToks, hb, hh]

theorem mapM_parseLine (E : List (List Tok)) (S : List Stmt)
    (h : Forall2 (fun e s => parseLine e = some s) E S) : E.mapM parseLine = some S := by
  induction h with
  | nil => rfl
  | cons h1 _ ih => rw [List.mapM_cons, h1, ih]; rfl

theorem Forall2.append {α β} {R : α → β → Prop} {a a' : List α} {b b' : List β}
    (h : Forall2 R a b) (h' : Forall2 R a' b') : Forall2 R (a ++ a') (b ++ b') := by
  induction h with
  | nil => exact h'
  | cons h1 _ ih => exact .cons h1 ih

theorem Forall2.map_left {α β} {R : α → β → Prop} (f : β → α) (l : List β) (h : ∀ s ∈ l, R (f s) s) :
    Forall2 R (l.map f) l := by
  induction l with
  | nil => exact .nil
  | cons a as ih => exact .cons (h a (by simp)) (ih (fun s hs => h s (List.mem_cons_of_mem _ hs)))

theorem Forall2.flatMap {α β γ} {R : α → β → Prop} (l : List γ) (f : γ → List α) (g : γ → List β)
    (h : ∀ x ∈ l, Forall2 R (f x) (g x)) : Forall2 R (l.flatMap f) (l.flatMap g) := by
  induction l with
  | nil => exact .nil
  | cons a as ih =>
    simp only [List.flatMap_cons]
    exact Forall2.append (h a (by simp)) (ih (fun x hx => h x (List.mem_cons_of_mem _ hx)))

/-- every statement a printed statement reads back as is accepted by the parser -/
theorem emitted_parse (st : Stmt) (p : Params) (col : Option Nat) (fs : Nat)
    (hv : validStmt st = true) (hn : noBadParen st p col fs = true) :
    ∀ s ∈ emitted st p col fs, parseLine (stmtToks s (parenOf st p col fs)) = some s := by
  intro s hs
  unfold emitted at hs
  by_cases hsp : splitPlain st p col fs = true
  · rw [if_pos hsp] at hs
    obtain ⟨a, ha, rfl⟩ := List.mem_map.mp hs
    simp only [splitPlain, Bool.and_eq_true, decide_eq_true_eq] at hsp
    obtain ⟨⟨hd, hnp⟩, _, hlen⟩ := hsp
    have hnone : st.fromname = none := by
      simp only [neverParen, Bool.or_eq_true, Option.isNone_iff_eq_none, decide_eq_true_eq] at hnp
      rcases hnp with h | h
      · exact h
      · rw [h] at hlen; simp at hlen
    have hpar : parenOf st p col fs = false := by simp [parenOf, hd, hnp]
    rw [hpar, hnone]
    apply parseLine_ok
    · simp only [validStmt, hnone, Bool.and_eq_true, decide_eq_true_eq, List.all_eq_true] at hv
      simp [validStmt, hv.2 a ha]
    · intro h; cases h
  · rw [if_neg hsp] at hs
    simp at hs
    subst hs
    apply parseLine_ok _ _ hv
    intro hpar
    simp only [parenOf, Bool.and_eq_true, Bool.not_eq_true', Bool.and_eq_false_iff] at hpar
    obtain ⟨hbr, hparen⟩ := hpar
    simp only [noBadParen, Bool.or_eq_true, Bool.and_eq_true, Bool.not_eq_true'] at hn
    have hstar : isStarStmt s = true → neverParen s = true := by
      intro h
      simp only [isStarStmt, decide_eq_true_eq] at h
      simp [neverParen, h, aliasTok, star]
    rcases hbr with hd | hnp
    · rcases hn with (hd' | hn) | hn
      · rw [hd] at hd'; cases hd'
      · rw [hparen] at hn; cases hn
      · exact hn
    · simp only [neverParen, Bool.or_eq_false_iff] at hnp
      refine ⟨by cases hf : s.fromname <;> simp_all, ?_⟩
      cases hst : isStarStmt s
      · rfl
      · have := hstar hst
        simp only [neverParen, Bool.or_eq_true] at this
        rcases this with h | h
        · rw [hnp.1] at h; cases h
        · rw [hnp.2] at h; cases h

theorem noBadParen_repaired (st : Stmt) (p : Params) (col : Option Nat) (fs : Nat) (h : p.d2fix = true) :
    noBadParen st p col fs = true := by simp [noBadParen, h]

theorem readBack_unrepaired (p : Params) (col : Option Nat) (st : Stmt) (h : p.d2fix = false) :
    readBack p col st = [st] := by simp [readBack, emitted, splitPlain, h]

theorem groups_imports (S : List Imp) (sep : Bool) (keys : List GKey) (groups : List (List Stmt))
    (hfa : Forall2 (fun k g => groupStmts (S.filter fun i => gkeyOf sep i = k) = .ok g) keys groups)
    (hrt : ∀ i ∈ S, Imp.fromSplit i.split = i) :
    (groups.flatten.flatMap Stmt.imports).Perm (keys.flatMap fun k => S.filter fun i => gkeyOf sep i = k) := by
  induction hfa with
  | nil => simp
  | @cons k g ks gs hk _ ih =>
    simp only [List.flatten_cons, List.flatMap_append, List.flatMap_cons]
    refine List.Perm.append ?_ ih
    exact groupStmts_imports _ g hk (fun i hi => hrt i (List.mem_filter.mp hi).1)

theorem splitNl_append_nl (l r : Str) (h : '\n' ∉ l) : splitNl (l ++ '\n' :: r) = l :: splitNl r := by
  induction l with
  | nil => simp [splitNl]
  | cons c cs ih =>
    have hc : c ≠ '\n' := fun e => h (by simp [e])
    have := ih (fun hm => h (List.mem_cons_of_mem _ hm))
    rw [List.cons_append, splitNl, if_neg hc, this]

theorem splitNl_lines (L : List Str) (h : ∀ l ∈ L, '\n' ∉ l) :
    splitNl ((L.map (· ++ ['\n'])).flatten) = L ++ [[]] := by
  induction L with
  | nil => rfl
  | cons l ls ih =>
    have := ih (fun x hx => h x (List.mem_cons_of_mem _ hx))
    simp only [List.map_cons, List.flatten_cons, List.append_assoc, List.cons_append, List.nil_append]
    rw [splitNl_append_nl l _ (h l (by simp)), this]

theorem mem_rstrip (s : Str) (c : Char) (h : c ∈ rstrip s) : c ∈ s := by
  unfold rstrip at h
  rw [List.mem_reverse] at h
  have := (List.dropWhile_sublist _).subset h
  exact List.mem_reverse.mp this

theorem mem_sjoin (sep : Str) (toks : List Str) (c : Char) (h : c ∈ sjoin sep toks) :
    c ∈ sep ∨ ∃ t ∈ toks, c ∈ t := by
  induction toks with
  | nil => simp [sjoin] at h
  | cons t ts ih =>
    cases ts with
    | nil => exact Or.inr ⟨t, by simp, by simpa [sjoin] using h⟩
    | cons t' ts' =>
      simp only [sjoin, List.mem_append] at h
      rcases h with (h | h) | h
      · exact Or.inr ⟨t, by simp, h⟩
      · exact Or.inl h
      · rcases ih h with h | ⟨x, hx, hc⟩
        · exact Or.inl h
        · exact Or.inr ⟨x, List.mem_cons_of_mem _ hx, hc⟩

theorem lineTexts_noNl (c : FillCfg) (L : List Line)
    (hc : '\n' ∉ c.sepN ∧ '\n' ∉ c.sepT ∧ '\n' ∉ c.sufN ∧ '\n' ∉ c.sufT)
    (hL : ∀ l ∈ L, '\n' ∉ l.pre ∧ ∀ t ∈ l.toks, '\n' ∉ t) :
    ∀ x ∈ lineTexts c L, '\n' ∉ x.1 := by
  have key : ∀ (l : Line) (fin : Bool), ('\n' ∉ l.pre ∧ ∀ t ∈ l.toks, '\n' ∉ t) → '\n' ∉ l.text c fin := by
    intro l fin ⟨hp, ht⟩ hm
    simp only [Line.text, Line.body, List.mem_append] at hm
    rcases hm with ((hm | hm) | hm) | hm
    · exact hp hm
    · rcases mem_sjoin _ _ _ hm with hm | ⟨t, ht', hm⟩
      · exact hc.1 hm
      · exact ht t ht' hm
    · have := mem_rstrip _ _ hm
      cases fin
      · exact hc.1 (by simpa using this)
      · exact hc.2.1 (by simpa using this)
    · cases fin
      · exact hc.2.2.1 (by simpa using hm)
      · exact hc.2.2.2 (by simpa using hm)
  induction L with
  | nil => intro x hx; cases hx
  | cons l ls ih =>
    cases ls with
    | nil =>
      intro x hx
      simp [lineTexts] at hx
      subst hx
      exact key l true (hL l (by simp))
    | cons l' ls' =>
      intro x hx
      simp only [lineTexts, List.mem_cons] at hx
      rcases hx with rfl | hx
      · exact key l false (hL l (by simp))
      · exact ih (fun y hy => hL y (List.mem_cons_of_mem _ hy)) x (by simpa [lineTexts] using hx)

theorem spaces_noNl (n : Nat) : '\n' ∉ spaces n := by
  intro h
  have := List.eq_of_mem_replicate h
  cases this

theorem fillLines_noNl (c : FillCfg) (N : Nat) (t : Str) (ts : List Str)
    (hp : '\n' ∉ c.pre1 ∧ '\n' ∉ c.preC) (ht : ∀ x ∈ t :: ts, '\n' ∉ x) :
    ∀ l ∈ fillLines c N ⟨c.pre1, [t]⟩ ts, '\n' ∉ l.pre ∧ ∀ x ∈ l.toks, '\n' ∉ x := by
  intro l hl
  obtain ⟨l0, ls, e, h1, h2⟩ := fillLines_pre c N ⟨c.pre1, [t]⟩ ts
  have htk := fillLines_toks c N ⟨c.pre1, [t]⟩ ts
  constructor
  · rw [e] at hl
    simp at hl
    rcases hl with rfl | hl
    · rw [h1]; exact hp.1
    · rw [h2 l hl]; exact hp.2
  · intro x hx
    apply ht
    have : x ∈ (fillLines c N ⟨c.pre1, [t]⟩ ts).flatMap Line.toks := List.mem_flatMap.mpr ⟨l, hl, hx⟩
    rw [htk] at this
    simpa using this

theorem pyfillLines_noNl (pfx : Str) (tokens : List Str) (p : Params)
    (hp : '\n' ∉ pfx) (ht : ∀ t ∈ tokens, '\n' ∉ t) : ∀ x ∈ pyfillLines pfx tokens p, '\n' ∉ x.1 := by
  unfold pyfillLines
  cases tokens with
  | nil => intro x hx; cases hx
  | cons t ts =>
    simp only
    split
    · intro x hx hm
      simp at hx
      subst hx
      simp only [List.mem_append] at hm
      rcases hm with hm | hm
      · exact hp hm
      · rcases mem_sjoin _ _ _ hm with hm | ⟨y, hy, hm⟩
        · revert hm; decide
        · exact ht y hy hm
    · split
      · intro x hx
        simp only [List.mem_cons] at hx
        rcases hx with rfl | hx
        · intro hm
          simp only [List.mem_append] at hm
          rcases hm with hm | hm
          · exact hp hm
          · revert hm; decide
        · exact lineTexts_noNl (hangCfg p) _ (by simp [hangCfg])
            (fillLines_noNl (hangCfg p) p.N t ts ⟨spaces_noNl _, spaces_noNl _⟩ ht) x hx
      · intro x hx
        exact lineTexts_noNl (parenCfg pfx) _ (by simp [parenCfg])
          (fillLines_noNl (parenCfg pfx) p.N t ts
            ⟨by simp [parenCfg]; exact hp, spaces_noNl _⟩ ht) x hx

end Pfb.C11
